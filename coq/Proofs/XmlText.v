(* XmlText.v — character data through the event channel: whatever string the serializer hands to
   `write_string` / `write_characters` (Characters or CDATA by outer whitespace) comes back from `read_characters`
   unchanged: escaping-relevant characters, `]]>`, CR/LF, whitespace-only and empty strings included.
   Then the per-type laws `read_xml (channel (write_xml v)) = v` built on it.  Standard library only. *)
From Coq Require Import List NArith ZArith Bool Lia String.
From RbxVerif Require Import Base Bytes Value Db XmlEvents XmlValues XmlInt XmlBase64.
Import ListNotations.
Open Scope list_scope.
Open Scope N_scope.

(* ------------------------------------------------------------------ CDATA splitting loses nothing *)
Lemma split_cdata_go_concat : forall n s cur, (length s <= n)%nat -> concat (split_cdata_go s cur) = rev cur ++ s.
Proof.
  induction n as [|n IH]; intros s cur Hl.
  - destruct s; [|cbn in Hl; lia]. cbn. rewrite frev_rev, app_nil_r. reflexivity.
  - destruct s as [|x r]; [cbn; rewrite frev_rev, app_nil_r; reflexivity|].
    cbn [split_cdata_go]. destruct r as [|y [|z r2]].
    + rewrite IH by (cbn; lia). cbn [rev]. rewrite <- app_assoc. reflexivity.
    + rewrite IH by (cbn in *; lia). cbn [rev]. rewrite <- app_assoc. reflexivity.
    + destruct ((x =? 93) && (y =? 93) && (z =? 62)) eqn:E.
      * apply andb_prop in E. destruct E as [E Ez]. apply andb_prop in E. destruct E as [Ex Ey].
        apply N.eqb_eq in Ex, Ey, Ez. subst.
        cbn [concat]. rewrite IH by (cbn in *; lia). rewrite frev_rev. cbn [rev app]. rewrite <- app_assoc. reflexivity.
      * rewrite IH by (cbn in *; lia). cbn [rev]. rewrite <- app_assoc. reflexivity.
Qed.

Lemma split_cdata_concat s : concat (split_cdata s) = s.
Proof. unfold split_cdata. rewrite (split_cdata_go_concat (length s)) by lia. reflexivity. Qed.

(* ------------------------------------------------------------------ whitespace-only text starts with whitespace *)
Lemma all_ws_outer s : s <> [] -> all_ws s = true -> has_outer_ws s = true.
Proof.
  intros Hne H. destruct s as [|c r]; [congruence|]. cbn [all_ws forallb] in H. apply andb_prop in H. destruct H as [Hc _].
  unfold has_outer_ws, starts_ws. cbn [ws_head].
  assert (W : ws1 c = true).
  { unfold xml_ws in Hc. unfold ws1.
    destruct (c =? 32) eqn:E1; [apply orb_true_r|]. cbn [orb] in Hc.
    destruct (c =? 10) eqn:E2; [apply N.eqb_eq in E2; subst; reflexivity|]. cbn [orb] in Hc.
    destruct (c =? 9) eqn:E3; [apply N.eqb_eq in E3; subst; reflexivity|]. cbn [orb] in Hc.
    apply N.eqb_eq in Hc. subst. reflexivity. }
  rewrite W. reflexivity.
Qed.

(* ------------------------------------------------------------------ one text-bearing element through the channel *)
(* the read events of the character data [s] written by write_string *)
Definition text_events (s : bytes) : list revent :=
  match s with
  | [] => []
  | _ => if has_outer_ws s then List.map RCData (split_cdata s) else [RChars s]
  end.

Lemma chan_leaf stack t n a s rest r :
  chan_go stack t0 rest = Ok r ->
  chan_go stack t (WStart n a :: w_string s ++ WEnd :: rest) = Ok (flush t ++ RStart n a :: text_events s ++ REnd n :: r).
Proof.
  intro Hr. unfold w_string. cbn [app chan_go].
  destruct (has_outer_ws s) eqn:E.
  - (* CDATA *)
    assert (s <> []) as Hne by (intro; subst; discriminate).
    cbn [chan_go]. rewrite Hr. cbn [rbind flush tbuf app]. unfold text_events. destruct s; [congruence|]. rewrite E.
    reflexivity.
  - (* Characters *)
    cbn [chan_go tbuf tiws app andb]. rewrite Hr. cbn [rbind]. unfold text_events, flush. cbn [tbuf tiws].
    destruct s as [|c s']; [reflexivity|]. rewrite E.
    destruct (all_ws (c :: s')) eqn:A.
    + rewrite (all_ws_outer (c :: s') ltac:(discriminate) A) in E. discriminate.
    + reflexivity.
Qed.

Lemma x_chars_cdata ps : forall acc e r,
  (match e with RChars _ | RCData _ | RError => False | _ => True end) ->
  x_chars_go acc (List.map RCData ps ++ e :: r) = Ok (acc ++ concat ps, e :: r).
Proof.
  induction ps as [|p ps IH]; intros acc e r He; cbn [List.map app concat x_chars_go].
  - rewrite app_nil_r. destruct e; try contradiction; reflexivity.
  - rewrite IH by exact He. rewrite app_assoc. reflexivity.
Qed.

(* read_characters returns exactly the string that write_string wrote *)
Theorem x_chars_text_events s acc e r :
  (match e with RChars _ | RCData _ | RError => False | _ => True end) ->
  x_chars_go acc (text_events s ++ e :: r) = Ok (acc ++ s, e :: r).
Proof.
  intro He. unfold text_events. destruct s as [|c s'].
  - cbn [app]. rewrite app_nil_r. destruct e; try contradiction; reflexivity.
  - destruct (has_outer_ws (c :: s')).
    + rewrite x_chars_cdata by exact He. rewrite split_cdata_concat. reflexivity.
    + cbn [app x_chars_go]. destruct e; try contradiction; reflexivity.
Qed.

Lemma bytes_eqb_refl b : bytes_eqb b b = true.
Proof. induction b as [|x b IH]; [reflexivity|]. cbn. rewrite N.eqb_refl, IH. reflexivity. Qed.

(* ------------------------------------------------------------------ a property element with text content *)
Definition outer_events (tag : bytes) (a : attrs) (s : bytes) : list revent := RStart tag a :: text_events s ++ [REnd tag].

Lemma chan_text_element tag a s :
  chan_go [] t0 (WStart tag a :: w_string s ++ [WEnd]) = Ok (outer_events tag a s).
Proof.
  change (w_string s ++ [WEnd]) with (w_string s ++ WEnd :: []).
  rewrite (chan_leaf [] t0 tag a s [] []) by reflexivity. reflexivity.
Qed.

Lemma read_text_element (tag : string) a s :
  x_in_tag tag x_chars (outer_events (B tag) a s) = Ok (s, []).
Proof.
  unfold x_in_tag, outer_events, xbind, x_expect_start, x_next, xret. cbn [xbind]. rewrite bytes_eqb_refl.
  unfold x_chars. rewrite (x_chars_text_events s [] (REnd (B tag)) []) by exact I. cbn [app].
  unfold x_expect_end, xbind, x_next. rewrite bytes_eqb_refl. reflexivity.
Qed.

(* ------------------------------------------------------------------ per-type round trips (text-valued types) *)
Section Values.
  Variable o : xoracle.

  (* String, including names with leading/trailing whitespace, `]]>`, markup characters, CR/LF, empty *)
  Theorem string_roundtrip s name :
    chan_go [] t0 (WStart (B "string") [(B "name", name)] :: w_string s ++ [WEnd]) = Ok (outer_events (B "string") [(B "name", name)] s) /\
    read_value_xml o (B "string") (outer_events (B "string") [(B "name", name)] s) = Ok (RVal (VString s), []).
  Proof.
    split; [apply chan_text_element|].
    change (read_value_xml o (B "string")) with (rv VString "string" x_chars).
    unfold rv, outer, xbind. rewrite read_text_element. reflexivity.
  Qed.

  Lemma r_int_text {A} (parse : bytes -> option A) (tag : string) a s v :
    parse s = Some v -> x_in_tag tag (r_int parse) (outer_events (B tag) a s) = Ok (v, []).
  Proof.
    intro Hp. unfold x_in_tag, outer_events, xbind, x_expect_start, x_next, xret. cbn [xbind]. rewrite bytes_eqb_refl.
    unfold r_int, xbind, x_chars. rewrite (x_chars_text_events s [] (REnd (B tag)) []) by exact I. cbn [app]. rewrite Hp.
    unfold xret, x_expect_end, xbind, x_next. rewrite bytes_eqb_refl. reflexivity.
  Qed.

  Theorem int32_roundtrip z name : (-2147483648 <= z <= 2147483647)%Z ->
    let a := [(B "name", name)] in
    chan_go [] t0 (WStart (B "int") a :: w_string (dec_of_Z z) ++ [WEnd]) = Ok (outer_events (B "int") a (dec_of_Z z)) /\
    read_value_xml o (B "int") (outer_events (B "int") a (dec_of_Z z)) = Ok (RVal (VInt32 z), []).
  Proof.
    intros H a. split; [apply chan_text_element|].
    change (read_value_xml o (B "int")) with (rv VInt32 "int" (r_int parse_i32)).
    unfold rv, outer, xbind. rewrite (r_int_text parse_i32 "int" a _ z (parse_i32_dec z H)). reflexivity.
  Qed.

  Theorem int64_roundtrip z name : (-9223372036854775808 <= z <= 9223372036854775807)%Z ->
    let a := [(B "name", name)] in
    chan_go [] t0 (WStart (B "int64") a :: w_string (dec_of_Z z) ++ [WEnd]) = Ok (outer_events (B "int64") a (dec_of_Z z)) /\
    read_value_xml o (B "int64") (outer_events (B "int64") a (dec_of_Z z)) = Ok (RVal (VInt64 z), []).
  Proof.
    intros H a. split; [apply chan_text_element|].
    change (read_value_xml o (B "int64")) with (rv VInt64 "int64" (r_int parse_i64)).
    unfold rv, outer, xbind. rewrite (r_int_text parse_i64 "int64" a _ z (parse_i64_dec z H)). reflexivity.
  Qed.

  Theorem enum_roundtrip n name : n < 4294967296 ->
    let a := [(B "name", name)] in
    chan_go [] t0 (WStart (B "token") a :: w_string (dec_of_N n) ++ [WEnd]) = Ok (outer_events (B "token") a (dec_of_N n)) /\
    read_value_xml o (B "token") (outer_events (B "token") a (dec_of_N n)) = Ok (RVal (VEnum n), []).
  Proof.
    intros H a. split; [apply chan_text_element|].
    change (read_value_xml o (B "token")) with (rv VEnum "token" (r_int parse_u32)).
    unfold rv, outer, xbind. rewrite (r_int_text parse_u32 "token" a _ n (parse_u32_dec n H)). reflexivity.
  Qed.

  (* BrickColor is written as <int>: it comes back as Int32 of its number (the documented normalisation for properties the
     database does not know; a known BrickColor property converts it back through conversion.rs) *)
  Theorem brickcolor_roundtrip n name : n < 65536 ->
    let a := [(B "name", name)] in
    write_xml o (VBrickColor n) = Some (B "int", Ok (w_string (dec_of_N n))) /\
    read_value_xml o (B "int") (outer_events (B "int") a (dec_of_N n)) = Ok (RVal (VInt32 (Z.of_N n)), []).
  Proof.
    intros H a. split; [reflexivity|].
    change (read_value_xml o (B "int")) with (rv VInt32 "int" (r_int parse_i32)).
    unfold rv, outer, xbind.
    assert (E : dec_of_N n = dec_of_Z (Z.of_N n)) by (destruct n; reflexivity).
    rewrite E. rewrite (r_int_text parse_i32 "int" a _ (Z.of_N n) (parse_i32_dec (Z.of_N n) ltac:(lia))). reflexivity.
  Qed.

  Theorem security_capabilities_roundtrip n name : n < 18446744073709551616 ->
    let a := [(B "name", name)] in
    read_value_xml o (B "SecurityCapabilities") (outer_events (B "SecurityCapabilities") a (dec_of_N n)) = Ok (RVal (VSecurityCapabilities n), []).
  Proof.
    intros H a.
    change (read_value_xml o (B "SecurityCapabilities")) with (rv VSecurityCapabilities "SecurityCapabilities" (r_int parse_u64)).
    unfold rv, outer, xbind. rewrite (r_int_text parse_u64 "SecurityCapabilities" a _ n (parse_u64_dec n H)). reflexivity.
  Qed.

  (* Bool is written with a bare Characters event *)
  Theorem bool_roundtrip (b : bool) name :
    let a := [(B "name", name)] in
    let t := B (if b then "true" else "false") in
    chan_go [] t0 (WStart (B "bool") a :: [WChars t] ++ [WEnd]) = Ok (RStart (B "bool") a :: [RChars t] ++ [REnd (B "bool")]) /\
    read_value_xml o (B "bool") (RStart (B "bool") a :: [RChars t] ++ [REnd (B "bool")]) = Ok (RVal (VBool b), []).
  Proof.
    intros a t. destruct b; split; reflexivity.
  Qed.

  (* ---- floats, under the laws of the decimal-text oracle (validated against Rust's Display / FromStr) *)
  Hypothesis show32_parse : forall x t, f32_is_nan x = false -> x <> F32_INF -> x <> F32_NINF ->
    xo_show32 o x = Some t ->
    xo_parse32 o t = Some (Some x) /\ t <> B "INF" /\ t <> B "-INF" /\ t <> B "NAN".
  Hypothesis show64_parse : forall x t, f64_is_nan x = false -> x <> F64_INF -> x <> F64_NINF ->
    xo_show64 o x = Some t ->
    xo_parse64 o t = Some (Some x) /\ t <> B "INF" /\ t <> B "-INF" /\ t <> B "NAN".

  Lemma bytes_eqb_neq a b : a <> b -> bytes_eqb a b = false.
  Proof.
    revert b. induction a as [|x a IH]; intros [|y b] H; try reflexivity; [congruence|].
    cbn. destruct (x =? y) eqn:E; [|reflexivity]. apply N.eqb_eq in E. subst. cbn. apply IH. congruence.
  Qed.

  (* f32::read_xml on the text f32::write_xml produced: bit-exact for every non-NaN value, canonical NaN for NaNs *)
  Definition norm_f32 (x : f32) : f32 := if f32_is_nan x then F32_NAN else x.
  Definition norm_f64 (x : f64) : f64 := if f64_is_nan x then F64_NAN else x.

  Lemma r_f32_text_rest (tag : string) a x t rest :
    text_f32 o x = Ok t ->
    x_in_tag tag (r_f32 o) (RStart (B tag) a :: text_events t ++ REnd (B tag) :: rest) = Ok (norm_f32 x, rest).
  Proof.
    intros Ht. unfold x_in_tag, xbind, x_expect_start, x_next, xret. cbn [xbind]. rewrite bytes_eqb_refl.
    unfold r_f32, xbind, x_chars. rewrite (x_chars_text_events t [] (REnd (B tag)) rest) by exact I. cbn [app].
    unfold text_f32 in Ht. unfold norm_f32.
    destruct (x =? F32_INF) eqn:E1.
    { apply N.eqb_eq in E1. subst x. inversion Ht; subst t. cbn. rewrite bytes_eqb_refl. reflexivity. }
    destruct (x =? F32_NINF) eqn:E2.
    { apply N.eqb_eq in E2. subst x. inversion Ht; subst t. cbn. rewrite bytes_eqb_refl. reflexivity. }
    destruct (f32_is_nan x) eqn:E3.
    { inversion Ht; subst t. cbn. rewrite bytes_eqb_refl. reflexivity. }
    apply N.eqb_neq in E1, E2.
    destruct (xo_show32 o x) as [t'|] eqn:Es; [|discriminate]. cbn in Ht. inversion Ht; subst t'.
    destruct (show32_parse x t E3 E1 E2 Es) as (Hp & N1 & N2 & N3).
    rewrite (bytes_eqb_neq _ _ N1), (bytes_eqb_neq _ _ N2), (bytes_eqb_neq _ _ N3).
    unfold xlift, ask. rewrite Hp. unfold xret, x_expect_end, xbind, x_next. rewrite bytes_eqb_refl. reflexivity.
  Qed.
  Lemma r_f32_text (tag : string) a x t :
    text_f32 o x = Ok t -> x < 4294967296 ->
    x_in_tag tag (r_f32 o) (outer_events (B tag) a t) = Ok (norm_f32 x, []).
  Proof. intros Ht _. apply r_f32_text_rest. exact Ht. Qed.

  Theorem float32_roundtrip x name t : x < 4294967296 -> text_f32 o x = Ok t ->
    let a := [(B "name", name)] in
    chan_go [] t0 (WStart (B "float") a :: w_string t ++ [WEnd]) = Ok (outer_events (B "float") a t) /\
    read_value_xml o (B "float") (outer_events (B "float") a t) = Ok (RVal (VFloat32 (norm_f32 x)), []).
  Proof.
    intros Hx Ht a. split; [apply chan_text_element|].
    change (read_value_xml o (B "float")) with (rv VFloat32 "float" (r_f32 o)).
    unfold rv, outer, xbind. rewrite (r_f32_text "float" a x t Ht Hx). reflexivity.
  Qed.

  Lemma r_f64_text (tag : string) a x t :
    text_f64 o x = Ok t ->
    x_in_tag tag (r_f64 o) (outer_events (B tag) a t) = Ok (norm_f64 x, []).
  Proof.
    intros Ht. unfold x_in_tag, outer_events, xbind, x_expect_start, x_next, xret. cbn [xbind]. rewrite bytes_eqb_refl.
    unfold r_f64, xbind, x_chars. rewrite (x_chars_text_events t [] (REnd (B tag)) []) by exact I. cbn [app].
    unfold text_f64 in Ht. unfold norm_f64.
    destruct (x =? F64_INF) eqn:E1.
    { apply N.eqb_eq in E1. subst x. inversion Ht; subst t. cbn. rewrite bytes_eqb_refl. reflexivity. }
    destruct (x =? F64_NINF) eqn:E2.
    { apply N.eqb_eq in E2. subst x. inversion Ht; subst t. cbn. rewrite bytes_eqb_refl. reflexivity. }
    destruct (f64_is_nan x) eqn:E3.
    { inversion Ht; subst t. cbn. rewrite bytes_eqb_refl. reflexivity. }
    apply N.eqb_neq in E1, E2.
    destruct (xo_show64 o x) as [t'|] eqn:Es; [|discriminate]. cbn in Ht. inversion Ht; subst t'.
    destruct (show64_parse x t E3 E1 E2 Es) as (Hp & N1 & N2 & N3).
    rewrite (bytes_eqb_neq _ _ N1), (bytes_eqb_neq _ _ N2), (bytes_eqb_neq _ _ N3).
    unfold xlift, ask. rewrite Hp. unfold xret, x_expect_end, xbind, x_next. rewrite bytes_eqb_refl. reflexivity.
  Qed.

  Theorem float64_roundtrip x name t : text_f64 o x = Ok t ->
    let a := [(B "name", name)] in
    chan_go [] t0 (WStart (B "double") a :: w_string t ++ [WEnd]) = Ok (outer_events (B "double") a t) /\
    read_value_xml o (B "double") (outer_events (B "double") a t) = Ok (RVal (VFloat64 (norm_f64 x)), []).
  Proof.
    intros Ht a. split; [apply chan_text_element|].
    change (read_value_xml o (B "double")) with (rv VFloat64 "double" (r_f64 o)).
    unfold rv, outer, xbind. rewrite (r_f64_text "double" a x t Ht). reflexivity.
  Qed.
End Values.

(* ------------------------------------------------------------------ refutation witnesses (the code as pinned) *)
(* F13: a Content value that refers to an object reaches `todo!()` in the XML writer *)
Theorem content_object_panics o r : write_xml o (VContent (CObject r)) = Some (B "Content", Panic).
Proof. reflexivity. Qed.

(* an infinite component of a CFrame is written with Rust's `Display` (`inf`), not with the `INF` the format documents:
   the event for the X component is whatever the Display oracle says, never the INF branch of f32::write_xml *)
Theorem cframe_component_uses_display o x t :
  xo_show32 o x = Some t -> xw_f32_display_tag o "X" x = Ok (w_elem (B "X") (w_string t)).
Proof. intro H. unfold xw_f32_display_tag, xw_f32_display, ask. rewrite H. reflexivity. Qed.
