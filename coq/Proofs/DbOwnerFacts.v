(* DbOwnerFacts.v — Db.find_default is DbOwner.find_default_owner with the owner forgotten, so the exhaustive `lookup`
   correspondence (which compares owner and type with rbx_reflection's find_default_property on every class x name) ties
   Db.find_default, the function the C08/C16 theorems speak about, to the implementation. *)
From RbxVerif Require Import Base Db DbOwner.

Definition forget_owner (r : res (option (string * value))) : res (option value) :=
  match r with
  | Ok (Some (_, v)) => Ok (Some v)
  | Ok None => Ok None
  | Err e => Err e
  | Panic => Panic
  | OutOfFuel => OutOfFuel
  end.

Lemma find_default_loop_owner : forall fuel d c pn,
  find_default_loop fuel d c pn = forget_owner (find_default_owner_loop fuel d c pn).
Proof.
  induction fuel as [| f IH]; intros d c pn; cbn [find_default_loop find_default_owner_loop forget_owner].
  - reflexivity.
  - destruct (find_assoc (cd_defaults c) pn) as [v |]; [reflexivity |].
    destruct (cd_super c) as [sn |]; [| reflexivity].
    destruct (get_class d sn) as [sc |]; [apply IH | reflexivity].
Qed.

Theorem find_default_forgets_owner : forall d c pn,
  find_default d c pn = forget_owner (find_default_owner d c pn).
Proof. intros. apply find_default_loop_owner. Qed.

(* the owner is the class itself or one of its ancestors, and it is the NEAREST one with an entry *)
Theorem find_default_owner_nearest : forall fuel d c pn o v,
  find_default_owner_loop fuel d c pn = Ok (Some (o, v)) ->
  (o = cd_name c /\ find_assoc (cd_defaults c) pn = Some v) \/
  (find_assoc (cd_defaults c) pn = None /\
   exists sn sc f, fuel = S f /\ cd_super c = Some sn /\ get_class d sn = Some sc /\
                   find_default_owner_loop f d sc pn = Ok (Some (o, v))).
Proof.
  intros fuel d c pn o v H. destruct fuel as [| f]; [discriminate |].
  cbn [find_default_owner_loop] in H.
  destruct (find_assoc (cd_defaults c) pn) as [w |] eqn:E.
  - left. injection H as <- <-. split; reflexivity.
  - right. split; [reflexivity |].
    destruct (cd_super c) as [sn |]; [| discriminate].
    destruct (get_class d sn) as [sc |] eqn:G; [| discriminate].
    exists sn, sc, f. repeat split; assumption.
Qed.
Print Assumptions find_default_forgets_owner.
