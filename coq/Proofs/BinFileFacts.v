(* BinFileFacts.v — facts about the whole-file model (Model/BinFile.v): chunk framing and header round
   trips, and witnesses computed on the model (a sample file: round trip, every strict prefix is
   rejected with an error; header-sized allocations; the chunk decoder before repair 949437a7). *)
From Coq Require Import Lia.
From RbxVerif Require Import Base Bytes Value Db CodecDom BinValues BinFile BytesFacts.
Open Scope N_scope.

(* ------------------------------------------------------------------------------------------ *)
(* 1. framing                                                                                   *)
(* ------------------------------------------------------------------------------------------ *)
Lemma len32_small {A} (l : list A) : N.of_nat (length l) < 2 ^ 32 -> len32 l = N.of_nat (length l).
Proof. intros H. unfold len32. apply N.mod_small. exact H. Qed.

Lemma take_upto_app a rest : take_upto (N.of_nat (length a)) (a ++ rest) = Ok (a, rest).
Proof.
  unfold take_upto. rewrite app_length.
  destruct (N.leb (N.of_nat (length a + length rest)) (N.of_nat (length a))) eqn:E.
  - apply N.leb_le in E. assert (length rest = 0%nat) by lia. destruct rest; [|discriminate].
    now rewrite app_nil_r.
  - rewrite Nat2N.id. apply read_exact_app.
Qed.

Lemma le32_app v rest : v < 2 ^ 32 -> read_le 4 (w_le32 v ++ rest) = Ok (v, rest).
Proof. intros H. unfold w_le32. apply read_le_app. exact H. Qed.

(* Chunk::decode reads back what ChunkBuilder::dump wrote (CompressionType::None) *)
Theorem chunk_roundtrip p name payload rest :
  length name = 4%nat -> N.of_nat (length payload) < 2 ^ 32 -> dp_lim p = None ->
  decode_chunk p (frame_chunk None (name, payload) ++ rest) = Ok ((name, payload), rest).
Proof.
  intros Hn Hp Hl. unfold decode_chunk, frame_chunk. rewrite Hl.
  rewrite <- !app_assoc. unfold pbind at 1. rewrite <- Hn at 1. rewrite read_exact_app.
  unfold pbind at 1. rewrite le32_app by (cbv; reflexivity).
  unfold pbind at 1. rewrite le32_app by (rewrite len32_small; assumption).
  unfold pbind at 1. rewrite le32_app by (cbv; reflexivity).
  change (N.eqb 0 0) with true. cbn [negb].
  unfold pbind at 1. cbn [palloc].
  rewrite len32_small by assumption.
  unfold pbind at 1. rewrite take_upto_app. rewrite N.eqb_refl. reflexivity.
Qed.

(* with an oracle pair decompress (compress x) = x the same holds for compressed chunks *)
Theorem chunk_roundtrip_compressed p (compress : bytes -> bytes) name payload rest :
  length name = 4%nat -> N.of_nat (length payload) < 2 ^ 32 ->
  N.of_nat (length (compress payload)) < 2 ^ 32 -> compress payload <> [] -> dp_lim p = None ->
  dp_inflate p (compress payload) (N.of_nat (length payload)) = Some payload ->
  decode_chunk p (frame_chunk (Some compress) (name, payload) ++ rest) = Ok ((name, payload), rest).
Proof.
  intros Hn Hp Hc Hne Hl Hinf. unfold decode_chunk, frame_chunk. rewrite Hl.
  rewrite <- !app_assoc. unfold pbind at 1. rewrite <- Hn at 1. rewrite read_exact_app.
  unfold pbind at 1. rewrite le32_app by (rewrite len32_small; assumption).
  unfold pbind at 1. rewrite le32_app by (rewrite len32_small; assumption).
  unfold pbind at 1. rewrite le32_app by (cbv; reflexivity).
  change (N.eqb 0 0) with true. cbn [negb].
  rewrite !len32_small by assumption.
  assert (E : N.eqb (N.of_nat (length (compress payload))) 0 = false).
  { apply N.eqb_neq. destruct (compress payload); [congruence|]. cbn [length]. lia. }
  rewrite E.
  unfold pbind at 1. cbn [palloc].
  unfold pbind at 1. rewrite take_upto_app.
  unfold pbind at 1. cbn [palloc].
  rewrite Hinf. rewrite N.eqb_refl. reflexivity.
Qed.

(* FileHeader::decode reads back write_header *)
Theorem header_roundtrip nt ni rest :
  nt < 2 ^ 32 -> ni < 2 ^ 32 ->
  decode_header None (FILE_MAGIC_HEADER ++ FILE_SIGNATURE ++ w_le16 0 ++ w_le32 nt ++ w_le32 ni ++ [0; 0; 0; 0; 0; 0; 0; 0] ++ rest)
  = Ok ((nt, ni), rest).
Proof.
  intros Ht Hi. unfold decode_header.
  unfold pbind at 1. change 8%nat with (length FILE_MAGIC_HEADER) at 1. rewrite read_exact_app.
  replace (bytes_eqb FILE_MAGIC_HEADER FILE_MAGIC_HEADER) with true by (vm_compute; reflexivity). cbn [negb].
  unfold pbind at 1. change 6%nat with (length FILE_SIGNATURE) at 1. rewrite read_exact_app.
  replace (bytes_eqb FILE_SIGNATURE FILE_SIGNATURE) with true by (vm_compute; reflexivity). cbn [negb].
  unfold pbind at 1. unfold w_le16. rewrite read_le_app by (cbv; reflexivity). cbn [N.eqb negb].
  unfold pbind at 1. rewrite le32_app by assumption.
  unfold pbind at 1. rewrite le32_app by assumption.
  unfold pbind at 1. change 8%nat with (length [0; 0; 0; 0; 0; 0; 0; 0]) at 1. rewrite read_exact_app.
  replace (bytes_eqb [0; 0; 0; 0; 0; 0; 0; 0] [0; 0; 0; 0; 0; 0; 0; 0]) with true by (vm_compute; reflexivity). cbn [negb].
  reflexivity.
Qed.

(* ------------------------------------------------------------------------------------------ *)
(* 2. a sample file (empty database)                                                            *)
(* ------------------------------------------------------------------------------------------ *)
Definition db0 : db := mkDb [] [].
Definition ep0 : enc_params := mkEP [] [] (fun _ => 0) (fun l => l) [].
Definition dp0 (lim : option N) : dec_params := mkDP [] [] (fun _ _ => None) (VUniqueId 0 0 0%Z) lim.

Definition sample_dom : cdom :=
  [ mkInst 1 0 (bstr "Folder0") (bstr "a") [(bstr "P", VInt32 7%Z); (bstr "Q", VBool true)];
    mkInst 2 1 (bstr "Folder0") (bstr "b") [(bstr "P", VInt32 (-3)%Z); (bstr "R", VRef 1)];
    mkInst 3 1 (bstr "Thing") (bstr "c") [(bstr "S", VString (bstr "hi"))] ].

Definition sample_file : bytes :=
  Eval vm_compute in match encode_file db0 ep0 None sample_dom [1] with Ok b => b | _ => [] end.

Theorem sample_encodes : encode_file db0 ep0 None sample_dom [1] = Ok sample_file.
Proof. vm_compute. reflexivity. Qed.

(* the file reads back: same forest (children before parents in PRNT, rebuilt breadth-first), own values,
   the default Bool false / Ref none for the Folder0 that lacked Q / R, String of an unknown property as
   BinaryString, the Ref rewritten to the new instance *)
Theorem sample_roundtrip :
  decode_file db0 (dp0 None) sample_file =
  Ok [ mkInst 2 0 (bstr "Folder0") (bstr "a") [(bstr "R", VRef 0); (bstr "Q", VBool true); (bstr "P", VInt32 7%Z)];
       mkInst 1 2 (bstr "Folder0") (bstr "b") [(bstr "R", VRef 2); (bstr "Q", VBool false); (bstr "P", VInt32 (-3)%Z)];
       mkInst 3 2 (bstr "Thing") (bstr "c") [(bstr "S", VBinaryString (bstr "hi"))] ].
Proof. vm_compute. reflexivity. Qed.

Definition is_err {A} (r : res A) : bool := match r with Err _ => true | _ => false end.

(* every strict prefix of the sample file is rejected with an error (never Ok, never a panic) *)
Theorem sample_truncation_rejected :
  forallb (fun k => is_err (decode_file db0 (dp0 None) (firstn k sample_file))) (seq 0 (length sample_file)) = true.
Proof. vm_compute. reflexivity. Qed.

(* before repair 949437a7 the chunk decoder panicked on such prefixes *)
Theorem chunk_short_panic_pinned_refuted :
  decode_chunk_pinned (dp0 None) (firstn 20 (skipn 32 sample_file)) = Panic.
Proof. vm_compute. reflexivity. Qed.
Theorem chunk_short_repaired :
  decode_chunk (dp0 None) (firstn 20 (skipn 32 sample_file)) = Err E_EOF.
Proof. vm_compute. reflexivity. Qed.

(* ------------------------------------------------------------------------------------------ *)
(* 3. allocations sized by input fields                                                         *)
(* ------------------------------------------------------------------------------------------ *)
(* a 57-byte file whose header announces 2^32-1 instances: the reader reserves room for them before
   reading any chunk, whatever limit proportional to the input is allowed *)
Definition greedy_header_file : bytes :=
  FILE_MAGIC_HEADER ++ FILE_SIGNATURE ++ w_le16 0 ++ w_le32 0 ++ w_le32 4294967295 ++ [0; 0; 0; 0; 0; 0; 0; 0] ++ END_CHUNK.

Theorem header_alloc_refuted :
  decode_file db0 (dp0 None) greedy_header_file = Ok [] /\
  decode_file db0 (dp0 (Some (1000000 * N.of_nat (length greedy_header_file)))) greedy_header_file = Err E_ALLOC.
Proof. split; vm_compute; reflexivity. Qed.

(* the sample file itself never asks for more than 16 bytes per input byte *)
Theorem sample_alloc_bounded :
  decode_file db0 (dp0 (Some (16 * N.of_nat (length sample_file)))) sample_file = decode_file db0 (dp0 None) sample_file.
Proof. vm_compute. reflexivity. Qed.

(* PRNT naming a parent no INST chunk declared: an error after repair bddd053a *)
Definition orphan_file : bytes :=
  FILE_MAGIC_HEADER ++ FILE_SIGNATURE ++ w_le16 0 ++ w_le32 0 ++ w_le32 0 ++ [0; 0; 0; 0; 0; 0; 0; 0] ++
  frame_chunk None (CH_PRNT, w_u8 0 ++ w_le32 1 ++ enc_ref_array [5%Z] ++ enc_ref_array [9%Z]) ++ END_CHUNK.
Theorem prnt_unknown_parent_is_error :
  decode_file db0 (dp0 None) orphan_file = Err E_UNKNOWN_REFERENT.
Proof. vm_compute. reflexivity. Qed.
