(* BinKnownProps.v — properties C08 / C01: the binary serializer is total on type-consistent DOMs.
     G1  [col_accepts] / [val_accepts]: the exact set of values every arm of `serialize_properties` (BinValues.enc_col) writes;
         [enc_col_ok_iff] (all 31 wire types): a column is written iff every value is accepted; the first rejected value
         decides the outcome ([enc_col_first_reject]); agreement with the regenerated table ([val_accepts_type], [type_accepts_val]).
     G2  [pinv] / [ginv]: what the planning (collect_type_info) guarantees about the columns of every class along add_instances;
         [planned_value_accepted]; [add_instances_total]; [encode_chunks_total] / [encode_file_total] (any forest, any classes);
         [class_good_from_db] + [bundled_class_good]: the database hypotheses from an executable check passed by every class of the
         bundled database; [alone_serializes_inst_ok]: the per-instance predicate [inst_ok] is "the instance serializes on its own";
         [each_alone_then_set_any_order] (+ _bundled): the C08 clause as one theorem; the hypotheses are needed
         ([each_alone_needs_types_agree_refuted], [each_alone_needs_db_check_refuted]).
     G3  [written_columns_spec]: every written instance finds its OWN value (after the column's migration) in every column
         it carries a spelling of, and the database default of ITS class in the others; [known_props_roundtrip_partial]:
         BinRoundTrip.file_values_roundtrip without the hypothesis that the file was written (generic in the column law);
         [cell_ok] / [normB] / [known_col_roundtrip]: the column law for ALL 31 wire types (the widening cases through [canonv], the
         string-likes through [spay] / [normS], SharedString through [sstr_known]) from the round trips of BinValuesFacts 1-3, for the
         canonical type the reader finds; [normB_*]: normB named per kind of cell; [reads_back]: the WeakDom rule for "UniqueId";
         [pair_cells_ok] / [dom_values_ok] / [dom_sstrs_ok]: ONE executable predicate on the DOM
         (value ranges, reader arm, back-lookup of the serialized name = canonical name without migration, serialized names);
         [known_columns_cells], [plan_hyps_from_dom] (ser_names_ok, name_cols_ok, sstr_ok discharged);
         [known_props_roundtrip] (+ _bundled): the CLOSED whole-file statement; [bundled_back_offenders]: the two properties of the
         bundled database whose serialized name leads back to another property; [bundled_example_roundtrip], [all_cells_roundtrip]:
         computed examples (the bundled-database statements are in Proofs/BinKnownPropsBundled.v). *)
From Coq Require Import Lia Permutation String.
From RbxVerif Require Import Base Bytes Value Utf8 Db DbCheck CodecDom Attr BrickColor BinValues BinFile BinFileFacts AttrFacts AttrSafe
                             BinColumnsFacts DbFacts BinPostorder BinStructure BinValuesFacts BinValuesFacts2 BinTypeInfoFacts.
From RbxVerif Require BinaryTypes Database BinRoundTrip BinValuesFacts3 BinChunkFacts.
Open Scope N_scope.

(* ========================================================================================== *)
(* G1: which values a column accepts                                                           *)
(* ========================================================================================== *)
(* the arm of `serialize_properties` for wire type [ty] writes value [v]:
   the Variant arms of the `match`, plus the two value-dependent failures
   (Attributes::to_writer fails -> InvalidPropValue; a SharedString that type collection did not record -> panic) *)
Definition col_accepts (ty : wire_type) (c : enc_ctx) (v : value) : bool :=
  match ty, v with
  | WString, VString _ | WString, VContentId _ | WString, VBinaryString _ | WString, VTags _
  | WString, VMaterialColors _ => true
  | WString, VAttributes m => match attr_encode m with Ok _ => true | _ => false end
  | WBool, VBool _ => true
  | WInt32, VInt32 _ => true
  | WFloat32, VFloat32 _ => true
  | WFloat64, VFloat64 _ | WFloat64, VFloat32 _ => true
  | WUDim, VUDim _ => true
  | WUDim2, VUDim2 _ _ => true
  | WFont, VFont _ => true
  | WRay, VRay _ _ => true
  | WFaces, VFaces _ => true
  | WAxes, VAxes _ => true
  | WBrickColor, VBrickColor _ | WBrickColor, VInt32 _ => true
  | WColor3, VColor3 _ _ _ => true
  | WVector2, VVector2 _ => true
  | WVector3, VVector3 _ => true
  | WCFrame, VCFrame _ => true
  | WEnum, VEnum _ | WEnum, VEnumItem _ _ => true
  | WRef, VRef _ => true
  | WVector3int16, VVector3int16 _ _ _ => true
  | WNumberSequence, VNumberSequence _ => true
  | WColorSequence, VColorSequence _ => true
  | WNumberRange, VNumberRange _ _ => true
  | WRect, VRect _ _ => true
  | WPhysicalProperties, VPhysicalProperties _ => true
  | WColor3uint8, VColor3uint8 _ _ _ | WColor3uint8, VColor3 _ _ _ => true
  | WInt64, VInt64 _ | WInt64, VInt32 _ => true
  | WSharedString, VSharedString s => match ec_sstr c s with Some _ => true | None => false end
  | WOptionalCFrame, VOptionalCFrame _ => true
  | WUniqueId, VUniqueId _ _ _ => true
  | WSecurityCapabilities, VSecurityCapabilities _ => true
  | WContent, VContent _ => true
  | _, _ => false
  end.

(* the part that only looks at the VariantType: the arms of the `match` *)
Definition col_accepts_type (ty : wire_type) (vt : N) : bool :=
  DbCheck.bin_accepts (wire_id ty) vt.

Lemma collect_ok_iff {A} (f : value -> res A) vs :
  (exists l, collect f vs = Ok l) <-> Forall (fun v => exists a, f v = Ok a) vs.
Proof.
  induction vs as [|v vs IH]; cbn [collect].
  - split; [constructor|eauto].
  - split.
    + intros [l H]. destruct (f v) as [a| | |] eqn:E; cbn [rbind] in H; try discriminate.
      destruct (collect f vs) as [r| | |]; cbn [rbind] in H; try discriminate.
      constructor; [eauto|]. apply IH. eauto.
    + intros H. apply Forall_cons_iff in H. destruct H as [[a Ha] Ht]. apply IH in Ht. destruct Ht as [l Hl].
      rewrite Ha, Hl. cbn [rbind]. eauto.
Qed.

Lemma collect_app_reject {A} (f : value -> res A) pre v post :
  Forall (fun v => exists a, f v = Ok a) pre ->
  (forall a, f v <> Ok a) ->
  collect f (pre ++ v :: post) = match f v with Ok _ => Panic | Panic => Panic | Err e => Err e | OutOfFuel => OutOfFuel end.
Proof.
  induction pre as [|x pre IH]; intros Hp Hv; cbn [app collect].
  - destruct (f v) as [a| | |] eqn:E; cbn [rbind]; try reflexivity. now destruct (Hv a).
  - apply Forall_cons_iff in Hp. destruct Hp as [[a Ha] Ht]. rewrite Ha. cbn [rbind].
    rewrite (IH Ht Hv). destruct (f v); reflexivity.
Qed.

(* every arm has the shape `collect f vs` followed by a total assembly *)
Definition arm_shape {A} (r : res bytes) (f : value -> res A) (vs : list value) : Prop :=
  exists g : list A -> bytes, r = (l <- collect f vs ;; Ok (g l)).

Lemma arm_ok_iff {A} r (f : value -> res A) vs :
  arm_shape r f vs -> ((exists b, r = Ok b) <-> Forall (fun v => exists a, f v = Ok a) vs).
Proof.
  intros [g ->]. rewrite <- collect_ok_iff. split.
  - intros [b H]. destruct (collect f vs) as [l| | |]; cbn [rbind] in H; try discriminate. eauto.
  - intros [l ->]. cbn [rbind]. eauto.
Qed.

Lemma rbind_ok_total {A B} (r : res A) (g : A -> B) :
  (exists b, (x <- r ;; Ok (g x)) = Ok b) <-> exists a, r = Ok a.
Proof.
  split.
  - intros [b H]. destruct r as [a| | |]; cbn [rbind] in H; try discriminate. eauto.
  - intros [a ->]. cbn [rbind]. eauto.
Qed.

Lemma Forall_pointwise_iff {A} (P Q : A -> Prop) l : (forall x, P x <-> Q x) -> (Forall P l <-> Forall Q l).
Proof. intros H. split; intros HF; (eapply Forall_impl; [|exact HF]); intros x Hx; apply H; exact Hx. Qed.

(* the exact characterisation, all 31 wire types *)
Theorem enc_col_ok_iff ty c vs :
  (exists b, enc_col ty c vs = Ok b) <-> Forall (fun v => col_accepts ty c v = true) vs.
Proof.
  destruct ty; cbn [enc_col]; cbv zeta; rewrite rbind_ok_total, collect_ok_iff;
    apply Forall_pointwise_iff; intros v; unfold mismatch;
    (destruct v; cbn [col_accepts];
     try (split; [intros [a Ha]; (discriminate || reflexivity)|intros Hb; (discriminate || eauto)])).
  - (* Attributes in a String column *)
    destruct (attr_encode m) as [buf| | |]; split; try (intros [a Ha]; discriminate); try discriminate; eauto.
  - (* PhysicalProperties *) destruct p; eauto.
  - (* SharedString *) destruct (ec_sstr c b); split; try (intros [a Ha]; discriminate); try discriminate; eauto.
Qed.

Theorem enc_col_total ty c vs :
  Forall (fun v => col_accepts ty c v = true) vs -> exists b, enc_col ty c vs = Ok b.
Proof. apply enc_col_ok_iff. Qed.

(* the converse: one rejected value makes the whole column fail *)
Theorem enc_col_rejects ty c vs v :
  In v vs -> col_accepts ty c v = false -> forall b, enc_col ty c vs <> Ok b.
Proof.
  intros Hin Hr b Hb. assert (HF : Forall (fun v => col_accepts ty c v = true) vs) by (apply enc_col_ok_iff; eauto).
  rewrite Forall_forall in HF. rewrite (HF v Hin) in Hr. discriminate.
Qed.

(* ---- the outcome of a column with a rejected value: the first one decides *)
Definition reject_outcome (ty : wire_type) (v : value) : res bytes :=
  match ty, v with
  | WString, VAttributes _ => Err EE_INVALID_VALUE         (* Attributes::to_writer failed *)
  | WSharedString, VSharedString _ => Panic                (* panic!("SharedString {} was not found during type collection") *)
  | _, _ => Err EE_TYPE_MISMATCH
  end.

Lemma rbind_collect_reject {A} (f : value -> res A) (g : list A -> bytes) pre v post (out : res bytes) :
  Forall (fun v => exists a, f v = Ok a) pre ->
  (forall a, f v <> Ok a) ->
  out = match f v with Ok _ => Panic | Panic => Panic | Err e => Err e | OutOfFuel => OutOfFuel end ->
  (l <- collect f (pre ++ v :: post) ;; Ok (g l)) = out.
Proof.
  intros Hp Hv ->. rewrite (collect_app_reject f pre v post Hp Hv). destruct (f v); reflexivity.
Qed.

Theorem enc_col_first_reject ty c pre v post :
  Forall (fun v => col_accepts ty c v = true) pre -> col_accepts ty c v = false ->
  enc_col ty c (pre ++ v :: post) = reject_outcome ty v.
Proof.
  intros Hp Hv.
  assert (Hp' : exists b, enc_col ty c pre = Ok b) by now apply enc_col_ok_iff.
  pose proof (attr_encode_no_panic) as Hattr.
  destruct ty; cbn [enc_col] in Hp' |- *; cbv zeta in Hp' |- *; rewrite rbind_ok_total, collect_ok_iff in Hp';
    (apply rbind_collect_reject; [exact Hp'| |]); unfold mismatch;
    destruct v; cbn [col_accepts] in Hv; try discriminate; cbn [reject_outcome]; try (intros a; discriminate); try reflexivity.
  - destruct (attr_encode m) as [buf| | |]; try discriminate; intros a; discriminate.
  - destruct (Hattr m) as [H1 H2]. destruct (attr_encode m) as [buf| | |]; try discriminate; try reflexivity; congruence.
  - destruct (ec_sstr c b); [discriminate|]. intros a; discriminate.
  - destruct (ec_sstr c b); [discriminate|]. reflexivity.
Qed.

(* ---- the same set, split into the part that looks at the value alone and the SharedString table *)
Definition val_accepts (ty : wire_type) (v : value) : bool :=
  col_accepts ty (mkEC (fun _ => None) (fun _ => Some 0) (fun _ => 0)) v.
Definition sstr_known (c : enc_ctx) (v : value) : bool :=
  match v with VSharedString s => match ec_sstr c s with Some _ => true | None => false end | _ => true end.

Lemma col_accepts_split ty c v : col_accepts ty c v = val_accepts ty v && sstr_known c v.
Proof.
  unfold val_accepts. destruct ty, v; cbn [col_accepts sstr_known ec_sstr andb]; try reflexivity;
    try (destruct (ec_sstr c b); reflexivity); try (destruct (attr_encode m); reflexivity).
Qed.

(* against the table regenerated from serializer/state.rs (Gen/BinaryTypes.binary_accepts, used by DbCheck):
   an accepted value has an accepted VariantType, and, apart from the two value-dependent failures, conversely *)
Definition type_accepts (ty : wire_type) (vt : N) : bool := DbCheck.bin_accepts (wire_id ty) vt.

Lemma val_accepts_type ty v : val_accepts ty v = true -> type_accepts ty (vtype v) = true.
Proof. destruct ty, v; cbn; try discriminate; reflexivity. Qed.

Lemma type_accepts_val ty v :
  type_accepts ty (vtype v) = true -> (forall m, v <> VAttributes m) -> val_accepts ty v = true.
Proof.
  intros H Hm. destruct ty, v; try (exfalso; vm_compute in H; discriminate); try reflexivity; now destruct (Hm m).
Qed.

Example enc_col_total_example :
  let c := mkEC (fun r => if N.eqb r 7 then Some 3%Z else None) (fun s => if bytes_eqb s [1] then Some 0 else None) (fun _ => 0) in
  Forall (fun v => col_accepts WColor3uint8 c v = true) [VColor3uint8 1 2 3; VColor3 0 0 0] /\
  enc_col WColor3uint8 c [VColor3uint8 1 2 3; VColor3 0 0 0] = Ok [1; 0; 2; 0; 3; 0] /\
  col_accepts WColor3uint8 c (VBrickColor 194) = false /\
  enc_col WColor3uint8 c [VColor3uint8 1 2 3; VBrickColor 194; VInt32 0] = Err EE_TYPE_MISMATCH /\
  col_accepts WSharedString c (VSharedString [2]) = false /\
  enc_col WSharedString c [VSharedString [1]; VSharedString [2]] = Panic.
Proof. cbv zeta. repeat split; try (repeat constructor; fail); vm_compute; reflexivity. Qed.

Print Assumptions enc_col_ok_iff.
Print Assumptions enc_col_first_reject.


(* ========================================================================================== *)
(* G2, part 1: what the planning of one class guarantees about its columns                     *)
(* ========================================================================================== *)
(* `match migration.perform(&value) { Ok(v) => v, Err(_) => value }` *)
Definition migv (p : enc_params) (m : option migop) (v : value) : value :=
  match m with
  | Some op => match migrate (ep_font p) (ep_brick p) op v with Some nv => nv | None => v end
  | None => v
  end.

Lemma track_incl v ss : incl ss (track_sstr v ss).
Proof. apply (track_sstr_ext v ss). Qed.


(* "the instance serializes on its own", as a predicate on its (name, value) pairs: the name resolves, its column can be
   created, and the column's arm writes the value after the spelling's own migration *)
Definition pair_ok (d : db) (p : enc_params) (class : bytes) (pv : bytes * value) : bool :=
  match resolve_prop d class (fst pv) (snd pv) with
  | Ok RSkip => true
  | Ok (RProp c s ty m) =>
      bytes_eqb c NAME ||
      match col_plan d (get_class d (string_of_bytes class)) c ty with
      | Ok (dv, wt) => val_accepts wt (migv p m (snd pv))
      | _ => false
      end
  | _ => false
  end.
Definition inst_ok (d : db) (p : enc_params) (i : inst) : bool := forallb (pair_ok d p (i_class i)) (i_props i).

(* what is needed of the database for one class: the default of a column and the result of a migration into it are
   written by the column's arm; a canonical name, used as a property name, names its own column *)
Record class_good (d : db) (class : bytes) : Prop := mkCG {
  cg_def : forall n v c s ty m dv wt, resolve_prop d class n v = Ok (RProp c s ty m) ->
           col_plan d (get_class d (string_of_bytes class)) c ty = Ok (dv, wt) -> val_accepts wt dv = true;
  cg_mig : forall n v c s ty op dv wt, resolve_prop d class n v = Ok (RProp c s ty (Some op)) ->
           col_plan d (get_class d (string_of_bytes class)) c ty = Ok (dv, wt) -> type_accepts wt (mig_out op) = true;
  cg_self : forall n v c s ty m v', resolve_prop d class n v = Ok (RProp c s ty m) ->
           exists s' ty' m', resolve_prop d class c v' = Ok (RProp c s' ty' m')
}.

Lemma migrate_out ft bt op v y : migrate ft bt op v = Some y ->
  vtype y = mig_out op /\ (forall m, y <> VAttributes m) /\ (forall s, y <> VSharedString s).
Proof.
  destruct op, v; cbn [migrate]; try discriminate.
  - intros [= <-]. repeat split; discriminate.
  - destruct (font_lookup ft n) as [[[fam w] st]|]; [|discriminate]. intros [= <-]. repeat split; discriminate.
  - destruct (brick_lookup bt n) as [[[r g] b]|]; [|discriminate]. intros [= <-]. repeat split; discriminate.
  - intros [= <-]. repeat split; discriminate.
Qed.

Lemma migv_string p m s : migv p m (VString s) = VString s.
Proof. destruct m as [[| | |]|]; reflexivity. Qed.

Lemma prop_value_cases p canon pi ord i : bytes_eqb canon NAME = false ->
  exists raw, prop_value p canon pi ord i = migv p (pi_migration pi) raw /\
              (raw = pi_default pi \/ exists n, (n = canon \/ In n ord) /\ In (n, raw) (i_props i)).
Proof.
  intros Hc. unfold prop_value. rewrite Hc.
  match goal with |- context [match pi_migration pi with Some _ => _ | None => ?r end] => set (raw := r) end.
  exists raw. split; [unfold migv; destruct (pi_migration pi); reflexivity|]. subst raw.
  destruct (bfind canon (i_props i)) as [v|] eqn:E.
  - right. exists canon. split; [now left|now apply bfind_in].
  - destruct (find _ ord) as [a|] eqn:Ef; [|now left].
    apply find_some in Ef. destruct Ef as [Ha _].
    destruct (bfind a (i_props i)) as [v|] eqn:Ea; [|now left].
    right. exists a. split; [now right|now apply bfind_in].
Qed.

Section PlanInv.
Variables (d : db) (class : bytes) (cls : option cdesc).
Variable All : list (bytes * value).
Hypothesis TA : types_agree d class All.
Hypothesis MA : migrations_agree d class All.

(* [seen]: the (name, value) pairs of the instances of the class planned so far *)
Record pinv (seen : bytes * value -> Prop) (st : pstate) : Prop := mkPInv {
  pv_vis : forall n, bmem n (ps_vis st) = true -> exists v, seen (n, v);
  pv_col : forall n v c s ty m, seen (n, v) -> resolve_prop d class n v = Ok (RProp c s ty m) ->
             exists pi, bfind c (ps_props st) = Some pi /\ (m <> None -> pi_migration pi <> None) /\
                        (n <> c -> bmem n (pi_aliases pi) = true);
  pv_mk : forall c pi, bfind c (ps_props st) = Some pi -> c <> NAME ->
             exists n v s ty m, seen (n, v) /\ resolve_prop d class n v = Ok (RProp c s ty m) /\
                                col_plan d cls c ty = Ok (pi_default pi, pi_type pi);
  pv_name : exists pi, bfind NAME (ps_props st) = Some pi /\ pi_type pi = WString;
  pv_mig : forall c pi op, bfind c (ps_props st) = Some pi -> pi_migration pi = Some op ->
             exists n v s ty, seen (n, v) /\ resolve_prop d class n v = Ok (RProp c s ty (Some op));
  pv_dss : forall c pi s, bfind c (ps_props st) = Some pi -> pi_default pi = VSharedString s -> In s (ps_ss st);
  pv_vss : forall n s, seen (n, VSharedString s) -> In s (ps_ss st);
  pv_res : forall n v, seen (n, v) -> exists r, resolve_prop d class n v = Ok r;
  pv_ser : forall c pi, bfind c (ps_props st) = Some pi -> c <> NAME ->
             exists n v ty m, seen (n, v) /\ resolve_prop d class n v = Ok (RProp c (pi_ser_name pi) ty m)
}.

Lemma pstep_pinv (seen : bytes * value -> Prop) st n v st' :
  (forall x, seen x -> In x All) -> In (n, v) All ->
  pstep d class cls st (n, v) = Ok st' -> pinv seen st -> pinv (fun x => seen x \/ x = (n, v)) st'.
Proof.
  intros Hall Hnv H [Ivis Icol Imk Iname Imig Idss Ivss Ires Iser].
  assert (Hall' : forall x, (seen x \/ x = (n, v)) -> In x All) by (intros x [Hx| ->]; auto).
  apply pstep_inv in H.
  destruct H as [Hv Ev Ep Es|Hv Hr Ev Ep Es|c s ty m pi Hv Hr Hf Ev Ep Es|c s ty m dv wt Hv Hr Hf Hc Ev Ep Es].
  - (* visited *)
    destruct (Ivis n Hv) as [v0 Hv0].
    assert (Hsame : resolve_prop d class n v = resolve_prop d class n v0).
    { apply (resolve_same_name d class All); auto. }
    constructor; rewrite ?Ev, ?Ep, ?Es.
    + intros n' Hn'. destruct (Ivis n' Hn') as [v' Hv']. eauto.
    + intros n' v' c s ty m [Hs|[= -> ->]] Hr; [eauto|]. rewrite Hsame in Hr. eauto.
    + intros c pi Hf Hc. destruct (Imk c pi Hf Hc) as (n0 & v0' & s & ty & m & H1 & H2 & H3). exists n0, v0', s, ty, m. auto.
    + exact Iname.
    + intros c pi op Hf Hm. destruct (Imig c pi op Hf Hm) as (n0 & v0' & s & ty & H1 & H2). exists n0, v0', s, ty. auto.
    + intros c pi s Hf Hd. apply track_incl. eauto.
    + intros n' s [Hs|[= -> <-]]; [apply track_incl; eauto|apply track_sstr_in].
    + intros n' v' [Hs|[= -> ->]]; [eauto|]. rewrite Hsame. eauto.
    + intros c0 pi0 Hf0 Hc0. destruct (Iser c0 pi0 Hf0 Hc0) as (n0 & v0' & ty0 & m0 & H1 & H2). exists n0, v0', ty0, m0. auto.
  - (* a name that does not serialize *)
    constructor; rewrite ?Ev, ?Ep, ?Es.
    + intros n' Hn'. rewrite bmem_cons in Hn'. apply orb_true_iff in Hn'. destruct Hn' as [Hn'|Hn'].
      * apply bytes_eqb_eq in Hn'. subst n'. eauto.
      * destruct (Ivis n' Hn') as [v' Hv']. eauto.
    + intros n' v' c s ty m [Hs|[= -> ->]] Hr'; [eauto|]. rewrite Hr in Hr'. discriminate.
    + intros c pi Hf Hc. destruct (Imk c pi Hf Hc) as (n0 & v0' & s & ty & m & H1 & H2 & H3). exists n0, v0', s, ty, m. auto.
    + exact Iname.
    + intros c pi op Hf Hm. destruct (Imig c pi op Hf Hm) as (n0 & v0' & s & ty & H1 & H2). exists n0, v0', s, ty. auto.
    + intros c pi s Hf Hd. apply track_incl. eauto.
    + intros n' s [Hs|[= -> <-]]; [apply track_incl; eauto|apply track_sstr_in].
    + intros n' v' [Hs|[= -> ->]]; [eauto|]. rewrite Hr. eauto.
    + intros c0 pi0 Hf0 Hc0. destruct (Iser c0 pi0 Hf0 Hc0) as (n0 & v0' & ty0 & m0 & H1 & H2). exists n0, v0', ty0, m0. auto.
  - (* a further spelling of an existing column *)
    destruct (new_pi_fields n c m pi) as (F1 & F2 & F3 & F4).
    assert (Hnc : m <> None -> bytes_eqb n c = false).
    { intros Hm. apply bytes_eqb_neq. exact (proj2 (MA n v n v c s ty m s ty m Hnv Hnv Hr Hr) Hm). }
    assert (Hfind : forall c', bfind c' (bset c (new_pi n c m pi) (ps_props st)) =
                               if bytes_eqb c' c then Some (new_pi n c m pi) else bfind c' (ps_props st)).
    { intros c'. destruct (bytes_eqb c' c) eqn:E.
      - apply bytes_eqb_eq in E. subst c'. now rewrite bfind_bset_same, Hf.
      - now apply bfind_bset_other. }
    constructor; rewrite ?Ev, ?Ep, ?Es.
    + intros n' Hn'. rewrite bmem_cons in Hn'. apply orb_true_iff in Hn'. destruct Hn' as [Hn'|Hn'].
      * apply bytes_eqb_eq in Hn'. subst n'. eauto.
      * destruct (Ivis n' Hn') as [v' Hv']. eauto.
    + intros n' v' c' s' ty' m' Hs Hr'. rewrite Hfind. destruct (bytes_eqb c' c) eqn:E.
      * apply bytes_eqb_eq in E. subst c'. eexists. split; [reflexivity|]. rewrite F4, bmem_new_pi.
        destruct Hs as [Hs|[= -> ->]].
        -- destruct (Icol _ _ _ _ _ _ Hs Hr') as (pj & Hf0 & Hm0 & Ha0). rewrite Hf in Hf0. injection Hf0 as <-. split.
           ++ intros Hm'. specialize (Hm0 Hm'). destruct (bytes_eqb n c); [exact Hm0|]. destruct m; [discriminate|exact Hm0].
           ++ intros Hne. rewrite (Ha0 Hne). reflexivity.
        -- rewrite Hr in Hr'. injection Hr' as <- <- <-. split.
           ++ intros Hm'. rewrite (Hnc Hm'). destruct m; [discriminate|congruence].
           ++ intros Hne. rewrite (bytes_eqb_neq _ _ Hne), bytes_eqb_refl. apply orb_true_r.
      * destruct Hs as [Hs|[= -> ->]]; [eauto|]. rewrite Hr in Hr'. injection Hr' as <- _ _ _. now rewrite bytes_eqb_refl in E.
    + intros c' pi' Hf' Hc'. rewrite Hfind in Hf'. destruct (bytes_eqb c' c) eqn:E.
      * apply bytes_eqb_eq in E. subst c'. injection Hf' as <-. rewrite F1, F3.
        destruct (Imk c pi Hf Hc') as (n0 & v0' & s0 & ty0 & m0 & H1 & H2 & H3). exists n0, v0', s0, ty0, m0. auto.
      * destruct (Imk c' pi' Hf' Hc') as (n0 & v0' & s0 & ty0 & m0 & H1 & H2 & H3). exists n0, v0', s0, ty0, m0. auto.
    + destruct Iname as (pn & Hpn & Htn). rewrite Hfind. destruct (bytes_eqb NAME c) eqn:E; [|eauto].
      apply bytes_eqb_eq in E. subst c. rewrite Hf in Hpn. injection Hpn as <-. eexists. split; [reflexivity|]. now rewrite F1.
    + intros c' pi' op Hf' Hm'. rewrite Hfind in Hf'. destruct (bytes_eqb c' c) eqn:E.
      * apply bytes_eqb_eq in E. subst c'. injection Hf' as <-. rewrite F4 in Hm'.
        assert (Hcase : pi_migration pi = Some op \/ m = Some op).
        { destruct (bytes_eqb n c); [now left|]. destruct m; [now right|now left]. }
        destruct Hcase as [Hold| ->].
        -- destruct (Imig c pi op Hf Hold) as (n0 & v0' & s0 & ty0 & H1 & H2). exists n0, v0', s0, ty0. auto.
        -- exists n, v, s, ty. auto.
      * destruct (Imig c' pi' op Hf' Hm') as (n0 & v0' & s0 & ty0 & H1 & H2). exists n0, v0', s0, ty0. auto.
    + intros c' pi' s' Hf' Hd'. apply track_incl. rewrite Hfind in Hf'. destruct (bytes_eqb c' c) eqn:E.
      * injection Hf' as <-. rewrite F3 in Hd'. eauto.
      * eauto.
    + intros n' s' [Hs|[= -> <-]]; [apply track_incl; eauto|apply track_sstr_in].
    + intros n' v' [Hs|[= -> ->]]; [eauto|]. rewrite Hr. eauto.
    + intros c' pi' Hf' Hc'. rewrite Hfind in Hf'. destruct (bytes_eqb c' c) eqn:E.
      * apply bytes_eqb_eq in E. subst c'. injection Hf' as <-. rewrite F2.
        destruct (Iser c pi Hf Hc') as (n0 & v0' & ty0 & m0 & H1 & H2). exists n0, v0', ty0, m0. auto.
      * destruct (Iser c' pi' Hf' Hc') as (n0 & v0' & ty0 & m0 & H1 & H2). exists n0, v0', ty0, m0. auto.
  - (* a new column *)
    destruct (new_pi_fields n c m (mkPI wt s [] dv m)) as (F1 & F2 & F3 & F4). cbn [pi_type pi_default pi_migration] in F1, F3, F4.
    assert (Hfind : forall c', bfind c' (binsert (c, new_pi n c m (mkPI wt s [] dv m)) (ps_props st)) =
                               if bytes_eqb c' c then Some (new_pi n c m (mkPI wt s [] dv m)) else bfind c' (ps_props st)).
    { intros c'. destruct (bytes_eqb c' c) eqn:E.
      - apply bytes_eqb_eq in E. subst c'. apply bfind_binsert_same.
      - now apply bfind_binsert_other. }
    assert (Hss : incl (ps_ss st) (track_sstr dv (track_sstr v (ps_ss st)))).
    { eapply incl_tran; apply track_incl. }
    constructor; rewrite ?Ev, ?Ep, ?Es.
    + intros n' Hn'. rewrite bmem_cons in Hn'. apply orb_true_iff in Hn'. destruct Hn' as [Hn'|Hn'].
      * apply bytes_eqb_eq in Hn'. subst n'. eauto.
      * destruct (Ivis n' Hn') as [v' Hv']. eauto.
    + intros n' v' c' s' ty' m' Hs Hr'. rewrite Hfind. destruct (bytes_eqb c' c) eqn:E.
      * apply bytes_eqb_eq in E. subst c'. eexists. split; [reflexivity|]. rewrite F4, bmem_new_pi.
        destruct Hs as [Hs|[= -> ->]].
        -- destruct (Icol _ _ _ _ _ _ Hs Hr') as (pi1 & Hf1 & _). congruence.
        -- rewrite Hr in Hr'. injection Hr' as <- <- <-. split.
           ++ intros Hm'. destruct (bytes_eqb n c); [exact Hm'|]. destruct m; [discriminate|congruence].
           ++ intros Hne. rewrite (bytes_eqb_neq _ _ Hne), bytes_eqb_refl. apply orb_true_r.
      * destruct Hs as [Hs|[= -> ->]]; [eauto|]. rewrite Hr in Hr'. injection Hr' as <- _ _ _. now rewrite bytes_eqb_refl in E.
    + intros c' pi' Hf' Hc'. rewrite Hfind in Hf'. destruct (bytes_eqb c' c) eqn:E.
      * apply bytes_eqb_eq in E. subst c'. injection Hf' as <-. rewrite F1, F3. exists n, v, s, ty, m. auto.
      * destruct (Imk c' pi' Hf' Hc') as (n0 & v0' & s0 & ty0 & m0 & H1 & H2 & H3). exists n0, v0', s0, ty0, m0. auto.
    + destruct Iname as (pn & Hpn & Htn). rewrite Hfind. destruct (bytes_eqb NAME c) eqn:E; [|eauto].
      apply bytes_eqb_eq in E. subst c. congruence.
    + intros c' pi' op Hf' Hm'. rewrite Hfind in Hf'. destruct (bytes_eqb c' c) eqn:E.
      * apply bytes_eqb_eq in E. subst c'. injection Hf' as <-. rewrite F4 in Hm'.
        assert (Hcase : m = Some op) by (destruct (bytes_eqb n c); [exact Hm'|destruct m; [exact Hm'|exact Hm']]).
        subst m. exists n, v, s, ty. auto.
      * destruct (Imig c' pi' op Hf' Hm') as (n0 & v0' & s0 & ty0 & H1 & H2). exists n0, v0', s0, ty0. auto.
    + intros c' pi' s' Hf' Hd'. rewrite Hfind in Hf'. destruct (bytes_eqb c' c) eqn:E.
      * injection Hf' as <-. rewrite F3 in Hd'. subst dv. apply track_sstr_in.
      * apply Hss. eauto.
    + intros n' s' [Hs|[= -> <-]]; [apply Hss; eauto|]. apply track_incl. apply track_sstr_in.
    + intros n' v' [Hs|[= -> ->]]; [eauto|]. rewrite Hr. eauto.
    + intros c' pi' Hf' Hc'. rewrite Hfind in Hf'. destruct (bytes_eqb c' c) eqn:E.
      * apply bytes_eqb_eq in E. subst c'. injection Hf' as <-. rewrite F2. cbn [pi_ser_name]. exists n, v, ty, m. auto.
      * destruct (Iser c' pi' Hf' Hc') as (n0 & v0' & ty0 & m0 & H1 & H2). exists n0, v0', ty0, m0. auto.
Qed.

Lemma pinv_ext (seen seen' : bytes * value -> Prop) st :
  (forall x, seen x <-> seen' x) -> pinv seen st -> pinv seen' st.
Proof.
  intros He [Ivis Icol Imk Iname Imig Idss Ivss Ires Iser]. constructor; auto.
  - intros n Hn. destruct (Ivis n Hn) as [v Hv]. exists v. now apply He.
  - intros n v c s ty m Hs. apply Icol. now apply He.
  - intros c pi Hf Hc. destruct (Imk c pi Hf Hc) as (n0 & v0 & s & ty & m & H1 & H2 & H3). exists n0, v0, s, ty, m.
    split; [now apply He|auto].
  - intros c pi op Hf Hm. destruct (Imig c pi op Hf Hm) as (n0 & v0 & s & ty & H1 & H2). exists n0, v0, s, ty.
    split; [now apply He|auto].
  - intros n s Hs. apply (Ivss n). now apply He.
  - intros n v Hs. apply Ires. now apply He.
  - intros c pi Hf Hc. destruct (Iser c pi Hf Hc) as (n0 & v0 & ty & m & H1 & H2). exists n0, v0, ty, m. split; [now apply He|auto].
Qed.

Lemma pinv_ss_mono (seen : bytes * value -> Prop) ss ss' vis props :
  incl ss ss' -> pinv seen (ss, vis, props) -> pinv seen (ss', vis, props).
Proof.
  intros Hi [Ivis Icol Imk Iname Imig Idss Ivss Ires Iser]. constructor; auto.
  - intros c pi s Hf Hd. apply Hi. eapply Idss; eauto.
  - intros n s Hs. apply Hi. eapply Ivss; eauto.
Qed.

Lemma fold_pinv : forall l (seen : bytes * value -> Prop) st st',
  (forall x, seen x -> In x All) -> incl l All ->
  fold_res (pstep d class cls) st l = Ok st' -> pinv seen st -> pinv (fun x => seen x \/ In x l) st'.
Proof.
  induction l as [|[n v] l IH]; intros seen st st' Hall Hl H Hi; cbn [fold_res] in H.
  - injection H as <-. eapply pinv_ext; [|exact Hi]. intros x. split; [now left|intros [Hx|[]]; exact Hx].
  - destruct (pstep d class cls st (n, v)) as [st1| | |] eqn:E; cbn [rbind] in H; try discriminate.
    assert (Hnv : In (n, v) All) by (apply Hl; now left).
    pose proof (pstep_pinv seen st n v st1 Hall Hnv E Hi) as Hi1.
    eapply pinv_ext; [|eapply (IH _ st1 st'); [| |exact H|exact Hi1]].
    + intros x. cbn [In]. split; [intros [[Hx| ->]|Hx]; auto|intros [Hx|[<-|Hx]]; auto].
    + intros x [Hx| ->]; auto.
    + intros x Hx. apply Hl. now right.
Qed.

Lemma pstep_ss_incl st pv st' : pstep d class cls st pv = Ok st' -> incl (ps_ss st) (ps_ss st').
Proof.
  destruct pv as [n v]. intros H. apply pstep_inv in H.
  destruct H as [_ _ _ Es|_ _ _ _ Es|c s ty m pi _ _ _ _ _ Es|c s ty m dv wt _ _ _ _ _ _ Es]; rewrite Es; try apply track_incl.
  eapply incl_tran; apply track_incl.
Qed.

Lemma fold_ss_incl : forall l st st', fold_res (pstep d class cls) st l = Ok st' -> incl (ps_ss st) (ps_ss st').
Proof.
  induction l as [|pv l IH]; intros st st' H; cbn [fold_res] in H; [injection H as <-; apply incl_refl|].
  destruct (pstep d class cls st pv) as [st1| | |] eqn:E; cbn [rbind] in H; try discriminate.
  eapply incl_tran; [eapply pstep_ss_incl; eauto|eauto].
Qed.

Section Accept.
Variable p : enc_params.
Hypothesis Hcls : cls = get_class d (string_of_bytes class).
Hypothesis Hgood : class_good d class.

Theorem planned_value_accepted (seen : bytes * value -> Prop) st canon pi ord i :
  pinv seen st -> props_alias_inv d class (ps_props st) ->
  (forall x, seen x -> In x All) -> (forall x, seen x -> pair_ok d p class x = true) ->
  bfind canon (ps_props st) = Some pi -> incl ord (pi_aliases pi) -> (forall x, In x (i_props i) -> seen x) ->
  val_accepts (pi_type pi) (prop_value p canon pi ord i) = true /\
  (forall s, prop_value p canon pi ord i = VSharedString s -> In s (ps_ss st)).
Proof.
  intros [Ivis Icol Imk Iname Imig Idss Ivss Ires Iser] Hal Hall Hok Hf Hord Hi.
  destruct (bytes_eqb canon NAME) eqn:En.
  { apply bytes_eqb_eq in En. subst canon. destruct Iname as (pn & Hpn & Htn). rewrite Hf in Hpn. injection Hpn as <-.
    unfold prop_value. rewrite bytes_eqb_refl.
    assert (E : match pi_migration pi with
                | Some op => match migrate (ep_font p) (ep_brick p) op (VString (i_name i)) with Some nv => nv | None => VString (i_name i) end
                | None => VString (i_name i) end = VString (i_name i)) by apply (migv_string p (pi_migration pi)).
    rewrite E, Htn. split; [reflexivity|discriminate]. }
  assert (Hc : canon <> NAME) by now apply bytes_eqb_false_neq.
  destruct (Imk canon pi Hf Hc) as (n0 & v0 & s0 & ty0 & m0 & S0 & R0 & CP0). rewrite Hcls in CP0.
  destruct (prop_value_cases p canon pi ord i En) as (raw & -> & Hraw).
  (* an own value: its pair names this column, with the column's type *)
  assert (Hown : forall n, (n = canon \/ In n ord) -> In (n, raw) (i_props i) ->
                 exists s m, seen (n, raw) /\ resolve_prop d class n raw = Ok (RProp canon s ty0 m)).
  { intros n Hn Hin. pose proof (Hi _ Hin) as Hs.
    assert (Hres : exists s ty m, resolve_prop d class n raw = Ok (RProp canon s ty m)).
    { destruct Hn as [-> |Hn].
      - exact (cg_self d class Hgood n0 v0 canon s0 ty0 m0 raw R0).
      - destruct (Hal canon pi n (bfind_in _ _ _ Hf) (Hord _ Hn)) as (v & s & t & m & Hr).
        destruct (resolve_value_indep d class n v raw) as [E|[E1 E2]].
        + rewrite <- E. eauto.
        + rewrite Hr in E1. injection E1 as -> _ _ _. eauto. }
    destruct Hres as (s & ty & m & Hr). exists s, m. split; [exact Hs|].
    assert (ty = ty0) by (apply (TA n raw n0 v0 canon s ty m s0 ty0 m0); auto). now subst ty. }
  unfold migv. destruct (pi_migration pi) as [op|] eqn:EM.
  - destruct (Imig canon pi op Hf EM) as (n1 & v1 & s1 & ty1 & S1 & R1).
    assert (ty1 = ty0) by (apply (TA n1 v1 n0 v0 canon s1 ty1 (Some op) s0 ty0 m0); auto). subst ty1.
    destruct (migrate (ep_font p) (ep_brick p) op raw) as [y|] eqn:Emig.
    + destruct (migrate_out _ _ _ _ _ Emig) as (Ty & Na & Ns). split; [|intros s Es; exfalso; exact (Ns s Es)].
      apply type_accepts_val; [|exact Na]. rewrite Ty. exact (cg_mig d class Hgood n1 v1 canon s1 ty0 op _ _ R1 CP0).
    + destruct Hraw as [-> |(n & Hn & Hin)].
      * split; [exact (cg_def d class Hgood n0 v0 canon s0 ty0 m0 _ _ R0 CP0)|intros s Es; eapply Idss; eauto].
      * destruct (Hown n Hn Hin) as (s & m & Hs & Hr). split; [|intros s' ->; eapply Ivss; eauto].
        pose proof (Hok _ Hs) as Hp. unfold pair_ok in Hp. cbn [fst snd] in Hp. rewrite Hr, En, CP0 in Hp. cbn [orb] in Hp.
        destruct m as [op'|]; [|exact Hp].
        assert (op' = op) by (apply (proj1 (MA n raw n1 v1 canon s ty0 (Some op') s1 ty0 (Some op) (Hall _ Hs) (Hall _ S1) Hr R1)); reflexivity).
        subst op'. unfold migv in Hp. now rewrite Emig in Hp.
  - destruct Hraw as [-> |(n & Hn & Hin)].
    + split; [exact (cg_def d class Hgood n0 v0 canon s0 ty0 m0 _ _ R0 CP0)|intros s Es; eapply Idss; eauto].
    + destruct (Hown n Hn Hin) as (s & m & Hs & Hr). split; [|intros s' ->; eapply Ivss; eauto].
      pose proof (Hok _ Hs) as Hp. unfold pair_ok in Hp. cbn [fst snd] in Hp. rewrite Hr, En, CP0 in Hp. cbn [orb] in Hp.
      destruct m as [op'|]; [|exact Hp].
      destruct (Icol n raw canon s ty0 (Some op') Hs Hr) as (pi' & Hf' & Hm'). rewrite Hf in Hf'. injection Hf' as <-.
      exfalso. apply Hm'; [discriminate|exact EM].
Qed.
End Accept.
End PlanInv.

(* ========================================================================================== *)
(* G2, part 2: the invariant of the whole class table along add_instances                      *)
(* ========================================================================================== *)
Definition class_pairs (dom : cdom) (cn : bytes) : list (bytes * value) :=
  flat_map i_props (filter (fun i => bytes_eqb (i_class i) cn) dom).
(* the type-consistency hypothesis of BinTypeInfoFacts, per class of the DOM *)
Definition dom_types_agree (d : db) (dom : cdom) : Prop :=
  forall cn, types_agree d cn (class_pairs dom cn) /\ migrations_agree d cn (class_pairs dom cn).

Definition seen_of (dom : cdom) (rs : list N) (x : bytes * value) : Prop :=
  exists r i, In r rs /\ find_inst dom r = Some i /\ In x (i_props i).

(* the SharedStrings the planning can record: the SharedString values of the instances and the SharedString defaults of
   the columns their properties create (executable) *)
Definition pair_sstrs (d : db) (class : bytes) (pv : bytes * value) : list bytes :=
  (match snd pv with VSharedString s => [s] | _ => [] end) ++
  match resolve_prop d class (fst pv) (snd pv) with
  | Ok (RProp c _ ty _) =>
      match col_plan d (get_class d (string_of_bytes class)) c ty with
      | Ok (VSharedString s', _) => [s']
      | _ => []
      end
  | _ => []
  end.
Definition dom_sstrs (d : db) (dom : cdom) : list bytes :=
  flat_map (fun i => flat_map (pair_sstrs d (i_class i)) (i_props i)) dom.
Definition sstr_src (d : db) (dom : cdom) (s : bytes) : Prop := In s (dom_sstrs d dom).

Lemma sstr_src_own d dom i n s : In i dom -> In (n, VSharedString s) (i_props i) -> sstr_src d dom s.
Proof.
  intros Hi Hn. unfold sstr_src, dom_sstrs. apply in_flat_map. exists i. split; [exact Hi|].
  apply in_flat_map. exists (n, VSharedString s). split; [exact Hn|]. unfold pair_sstrs. cbn [snd]. apply in_or_app. left. now left.
Qed.
Lemma sstr_src_default d dom i n v c s0 ty m s wt :
  In i dom -> In (n, v) (i_props i) -> resolve_prop d (i_class i) n v = Ok (RProp c s0 ty m) ->
  col_plan d (get_class d (string_of_bytes (i_class i))) c ty = Ok (VSharedString s, wt) -> sstr_src d dom s.
Proof.
  intros Hi Hn Hr Hc. unfold sstr_src, dom_sstrs. apply in_flat_map. exists i. split; [exact Hi|].
  apply in_flat_map. exists (n, v). split; [exact Hn|]. unfold pair_sstrs. cbn [fst snd]. apply in_or_app. right.
  rewrite Hr, Hc. now left.
Qed.

Definition ti_good (d : db) (dom : cdom) (ss : list bytes) (cn : bytes) (ti : type_info) : Prop :=
  ti_class ti = get_class d (string_of_bytes cn) /\
  props_alias_inv d cn (ti_props ti) /\
  (forall r i, In r (ti_instances ti) -> find_inst dom r = Some i -> i_class i = cn) /\
  pinv d cn (ti_class ti) (seen_of dom (ti_instances ti)) (ss, ti_visited ti, ti_props ti) /\
  keys_sorted (ti_props ti).

Lemma pstep_sorted d class cls st pv st' : pstep d class cls st pv = Ok st' -> keys_sorted (ps_props st) -> keys_sorted (ps_props st').
Proof.
  destruct pv as [n v]. intros H Hs. apply pstep_inv in H.
  destruct H as [_ _ Ep _|_ _ _ Ep _|c s ty m pi _ _ _ _ Ep _|c s ty m dv wt _ _ Hf _ _ Ep _]; rewrite Ep; auto.
  - unfold keys_sorted. now rewrite BinTypeInfoFacts.bset_keys.
  - apply binsert_sorted; auto.
Qed.
Lemma fold_sorted d class cls : forall l st st', fold_res (pstep d class cls) st l = Ok st' -> keys_sorted (ps_props st) -> keys_sorted (ps_props st').
Proof.
  induction l as [|pv l IH]; intros st st' H Hs; cbn [fold_res] in H; [now injection H as <-|].
  destruct (pstep d class cls st pv) as [st1| | |] eqn:E; cbn [rbind] in H; try discriminate.
  eapply IH; [exact H|]. eapply pstep_sorted; eauto.
Qed.

Definition ginv (d : db) (dom : cdom) (st : ser_state) : Prop :=
  (forall cn ti, bfind cn (ss_types st) = Some ti -> ti_good d dom (ss_sstr st) cn ti) /\
  (forall s, In s (ss_sstr st) -> sstr_src d dom s).

Lemma ginv0 d dom : ginv d dom ser_state0.
Proof. split; [intros cn ti H; discriminate|intros s []]. Qed.

Lemma new_ti_good d dom ss id cn : ti_good d dom ss cn (new_type_info d id cn).
Proof.
  unfold ti_good, new_type_info. cbn [ti_class ti_props ti_instances ti_visited]. split; [reflexivity|].
  split; [intros c pi a [[= <- <-]|[]] []|]. split; [intros r i []|].
  split; [|unfold keys_sorted; cbn [List.map fst]; repeat constructor].
  constructor; unfold ps_vis, ps_props, ps_ss; cbn [fst snd].
    + intros n H. discriminate.
    + intros n v c s ty m (r & i & [] & _).
    + intros c pi Hf Hc. cbn [bfind] in Hf. destruct (bytes_eqb c NAME) eqn:E; [|discriminate].
      apply bytes_eqb_eq in E. contradiction.
    + eexists. split; [cbn [bfind]; rewrite bytes_eqb_refl; reflexivity|reflexivity].
    + intros c pi op Hf Hm. cbn [bfind] in Hf. destruct (bytes_eqb c NAME); [|discriminate]. injection Hf as <-. discriminate.
    + intros c pi s Hf Hd. cbn [bfind] in Hf. destruct (bytes_eqb c NAME); [|discriminate]. injection Hf as <-. discriminate.
    + intros n s (r & i & [] & _).
    + intros n v (r & i & [] & _).
    + intros c pi Hf Hc. cbn [bfind] in Hf. destruct (bytes_eqb c NAME) eqn:E; [|discriminate].
      apply bytes_eqb_eq in E. contradiction.
Qed.

Lemma class_ti_good d dom st cn : ginv d dom st -> ti_good d dom (ss_sstr st) cn (class_ti d cn st).
Proof.
  intros [Hg _]. unfold class_ti. destruct (bfind cn (ss_types st)) as [ti|] eqn:E; [now apply Hg|apply new_ti_good].
Qed.

Lemma track_in_inv s v ss : In s (track_sstr v ss) -> In s ss \/ v = VSharedString s.
Proof.
  destruct v; cbn [track_sstr]; auto. destruct (bmem b ss); auto.
  intros H. apply in_app_or in H. destruct H as [H|[<-|[]]]; auto.
Qed.

Lemma pstep_ss_src d class cls (P : bytes -> Prop) st n v st' :
  pstep d class cls st (n, v) = Ok st' ->
  (forall s, In s (ps_ss st) -> P s) -> (forall s, v = VSharedString s -> P s) ->
  (forall c s0 ty m s wt, resolve_prop d class n v = Ok (RProp c s0 ty m) -> col_plan d cls c ty = Ok (VSharedString s, wt) -> P s) ->
  forall s, In s (ps_ss st') -> P s.
Proof.
  intros H H0 Hv Hd. apply pstep_inv in H.
  destruct H as [_ _ _ Es|_ _ _ _ Es|c s ty m pi _ _ _ _ _ Es|c s ty m dv wt _ Hr _ Hc _ _ Es]; rewrite Es; intros x Hx.
  - apply track_in_inv in Hx. destruct Hx; auto.
  - apply track_in_inv in Hx. destruct Hx; auto.
  - apply track_in_inv in Hx. destruct Hx; auto.
  - apply track_in_inv in Hx. destruct Hx as [Hx| ->]; [|eauto]. apply track_in_inv in Hx. destruct Hx; auto.
Qed.

Lemma fold_ss_src d class cls (P : bytes -> Prop) : forall l st st',
  fold_res (pstep d class cls) st l = Ok st' ->
  (forall s, In s (ps_ss st) -> P s) -> (forall n s, In (n, VSharedString s) l -> P s) ->
  (forall n v c s0 ty m s wt, In (n, v) l -> resolve_prop d class n v = Ok (RProp c s0 ty m) ->
                              col_plan d cls c ty = Ok (VSharedString s, wt) -> P s) ->
  forall s, In s (ps_ss st') -> P s.
Proof.
  induction l as [|[n v] l IH]; intros st st' H H0 Hv Hd; cbn [fold_res] in H; [now injection H as <-|].
  destruct (pstep d class cls st (n, v)) as [st1| | |] eqn:E; cbn [rbind] in H; try discriminate.
  eapply IH; [exact H| | |].
  - eapply pstep_ss_src; [exact E|exact H0| |].
    + intros s ->. apply (Hv n). now left.
    + intros c s0 ty m s wt Hr Hc. eapply (Hd n v); eauto. now left.
  - intros n' s Hin. apply (Hv n'). now right.
  - intros n' v' c s0 ty m s wt Hin. apply (Hd n' v'). now right.
Qed.

Lemma in_class_pairs dom cn i x : In i dom -> i_class i = cn -> In x (i_props i) -> In x (class_pairs dom cn).
Proof.
  intros Hi Hc Hx. unfold class_pairs. apply in_flat_map. exists i. split; [|exact Hx].
  apply filter_In. split; [exact Hi|]. rewrite Hc. apply bytes_eqb_refl.
Qed.

Lemma collect_ginv d dom st i st' :
  dom_types_agree d dom -> find_inst dom (i_ref i) = Some i -> ginv d dom st ->
  collect_type_info d st i = Ok st' -> ginv d dom st'.
Proof.
  intros HA Hfi Hg. pose proof (class_ti_good d dom st (i_class i) Hg) as (C0 & A0 & M0 & P0 & S0).
  destruct (HA (i_class i)) as [TA MA]. pose proof (BinTypeInfoFacts.find_inst_in _ _ _ Hfi) as Hidom.
  rewrite collect_type_info_eq. unfold plan_class. cbn [flat_map List.map]. rewrite app_nil_r.
  destruct (fold_res _ _ _) as [rr| | |] eqn:F; cbn [rbind]; try discriminate. intros [= <-].
  set (cn0 := i_class i) in *. set (ti0 := class_ti d cn0 st) in *.
  assert (Hseen : forall x, seen_of dom (ti_instances ti0) x -> In x (class_pairs dom cn0)).
  { intros x (r & j & Hr & Hj & Hx). eapply in_class_pairs; [eapply BinTypeInfoFacts.find_inst_in; eauto|eapply M0; eauto|exact Hx]. }
  assert (Hown : incl (i_props i) (class_pairs dom cn0)).
  { intros x Hx. eapply in_class_pairs; eauto. }
  pose proof (fold_pinv d cn0 (ti_class ti0) (class_pairs dom cn0) TA MA _ _ _ _ Hseen Hown F P0) as P1.
  pose proof (fold_ss_incl d cn0 (ti_class ti0) _ _ _ F) as Hincl. unfold class_state, ps_ss in Hincl. cbn [fst snd] in Hincl.
  split.
  - intros cn ti Hb. unfold plan_result in Hb |- *. cbn [ss_types ss_sstr] in Hb |- *.
    destruct (bytes_eqb cn cn0) eqn:E.
    + apply bytes_eqb_eq in E. subst cn. rewrite bfind_bset_same, class_types_has in Hb. injection Hb as <-.
      unfold ti_good. cbn [ti_class ti_props ti_instances ti_visited]. split; [exact C0|]. split; [|split; [|split]].
      * eapply fold_alias_inv; [exact F|exact A0].
      * intros r j Hr Hj. apply in_app_or in Hr. destruct Hr as [Hr|[<-|[]]]; [eapply M0; eauto|]. rewrite Hfi in Hj. now injection Hj as <-.
      * destruct rr as [[ss vis] props]. unfold ps_ss, ps_vis, ps_props. cbn [fst snd].
        eapply pinv_ext; [|exact P1]. intros x. split.
        -- intros [(r & j & Hr & Hj & Hx)|Hx].
           ++ exists r, j. split; [apply in_or_app; now left|auto].
           ++ exists (i_ref i), i. split; [apply in_or_app; right; now left|auto].
        -- intros (r & j & Hr & Hj & Hx). apply in_app_or in Hr. destruct Hr as [Hr|[<-|[]]].
           ++ left. exists r, j. auto.
           ++ right. rewrite Hfi in Hj. now injection Hj as <-.
      * eapply fold_sorted; [exact F|exact S0].
    + rewrite bfind_bset_other in Hb by exact E.
      assert (Hb' : bfind cn (ss_types st) = Some ti).
      { unfold class_types in Hb. destruct (bfind cn0 (ss_types st)); [exact Hb|]. now rewrite bfind_binsert_other in Hb. }
      destruct (proj1 Hg cn ti Hb') as (C1 & A1 & M1 & P1' & S1). split; [exact C1|]. split; [exact A1|]. split; [exact M1|].
      split; [|exact S1]. eapply pinv_ss_mono; [exact Hincl|exact P1'].
  - unfold plan_result. cbn [ss_sstr]. eapply fold_ss_src; [exact F| | |].
    + exact (proj2 Hg).
    + intros n s Hin. eapply sstr_src_own; eauto.
    + intros n v c s0 ty m s wt Hin Hr Hc. apply (sstr_src_default d dom i n v c s0 ty m s wt Hidom Hin Hr).
      fold cn0. rewrite <- C0. exact Hc.
Qed.

(* an instance whose pairs are [pair_ok] is planned from every state the traversal reaches *)
Lemma collect_ok d p dom st i :
  ginv d dom st -> inst_ok d p i = true -> exists st', collect_type_info d st i = Ok st'.
Proof.
  intros Hg Hok. pose proof (class_ti_good d dom st (i_class i) Hg) as (C0 & A0 & M0 & P0 & S0).
  rewrite collect_type_info_eq. apply plan_class_ok_iff. cbn [flat_map]. rewrite app_nil_r.
  apply fold_plan_ok_suff. apply Forall_forall. intros [n v] Hin. right.
  unfold inst_ok in Hok. rewrite forallb_forall in Hok. specialize (Hok _ Hin). unfold pair_ok in Hok. cbn [fst snd] in Hok.
  unfold pair_plannable. cbn [fst snd].
  destruct (resolve_prop d (i_class i) n v) as [[|c s ty m]| | |]; try discriminate.
  - exists RSkip. split; [reflexivity|exact I].
  - exists (RProp c s ty m). split; [reflexivity|]. apply orb_true_iff in Hok. destruct Hok as [Hn|Hc].
    + left. apply bytes_eqb_eq in Hn. subst c. destruct (pv_name _ _ _ _ _ P0) as (pn & Hpn & _).
      unfold class_state, ps_props in *. cbn [snd] in *. unfold haskey. now rewrite Hpn.
    + right. unfold class_state, ps_props. rewrite C0.
      destruct (col_plan d (get_class d (string_of_bytes (i_class i))) c ty) as [q| | |]; try discriminate. eauto.
Qed.

(* ========================================================================================== *)
(* G2, part 3: add_instances and the chunk writers are total                                   *)
(* ========================================================================================== *)
Lemma find_inst_total dom r : In r (List.map i_ref dom) -> exists i, find_inst dom r = Some i.
Proof.
  induction dom as [|j dom IH]; cbn [List.map In find_inst]; [intros []|].
  destruct (N.eqb (i_ref j) r) eqn:E; [eauto|]. intros [H|H]; [apply N.eqb_neq in E; contradiction|auto].
Qed.

Lemma children_in_dom dom r c : In c (children_of dom r) -> In c (List.map i_ref dom).
Proof.
  unfold children_of. intros H. apply in_map_iff in H. destruct H as (i & <- & Hi). apply filter_In in Hi.
  apply in_map. tauto.
Qed.

Lemma add_loop_total d p dom :
  dom_types_agree d dom -> (forall i, In i dom -> inst_ok d p i = true) ->
  forall fuel outer stack lv st out,
    types_inv dom st -> ginv d dom st ->
    Forall (fun r => In r (List.map i_ref dom)) stack ->
    run (children_of dom) fuel outer stack lv (ss_relevant st) = Some out ->
    exists st', add_loop fuel d dom outer stack lv st = Ok st' /\ types_inv dom st' /\ ginv d dom st'.
Proof.
  intros HA Hok. induction fuel as [|f IH]; intros outer stack lv st out Hinv Hg Hst Hrun; [discriminate|].
  cbn [add_loop run] in *. destruct stack as [|x rest]; [eauto|].
  apply Forall_cons_iff in Hst. destruct Hst as [Hx Hrest].
  destruct (find_inst_total dom x Hx) as [inst Hfi]. rewrite Hfi.
  destruct outer.
  { eapply IH; eauto. apply Forall_app. split; [|constructor; auto].
    apply Forall_forall. intros c Hc. eapply children_in_dom; eauto. }
  destruct (negb (is_nil (children_of dom x)) && negb (opt_eqb (last_opt (children_of dom x)) lv))%bool.
  { eapply IH; eauto. }
  set (st_r := mkSS (ss_relevant st ++ [x]) (ss_types st) (ss_next_id st) (ss_sstr st)).
  assert (Hg_r : ginv d dom st_r) by exact Hg.
  pose proof (BinTypeInfoFacts.find_inst_in _ _ _ Hfi) as Hin.
  destruct (collect_ok d p dom st_r inst Hg_r (Hok _ Hin)) as [st1 E]. rewrite E. cbn [rbind].
  destruct (cti_step _ _ _ _ _ _ Hfi Hinv E) as (Hinv1 & Hrel1 & _ & _).
  assert (Hg1 : ginv d dom st1).
  { eapply collect_ginv; [exact HA| |exact Hg_r|exact E]. now rewrite (find_inst_ref _ _ _ Hfi). }
  apply (IH false rest (Some x) st1 out Hinv1 Hg1 Hrest). rewrite Hrel1. exact Hrun.
Qed.

Lemma sizes_refs ts : sizes ts = length (flat_map refs ts).
Proof.
  assert (H : forall t, size t = length (refs t)).
  { apply (tree_ind' (fun t => size t = length (refs t))). intros r cs HF. cbn [size refs length]. f_equal.
    induction HF as [|c cs Hc _ IH]; [reflexivity|]. cbn [fold_right flat_map]. rewrite app_length. congruence. }
  induction ts as [|t ts IH]; [reflexivity|]. cbn [sizes fold_right flat_map]. rewrite app_length, H. unfold sizes in IH. congruence.
Qed.

Lemma map_res_total {A B} (f : A -> res B) l : (forall x, In x l -> exists y, f x = Ok y) -> exists l', map_res f l = Ok l'.
Proof.
  induction l as [|x l IH]; intros H; cbn [map_res]; [eauto|].
  destruct (H x (or_introl eq_refl)) as [y Hy]. destruct IH as [l' Hl']; [intros z Hz; apply H; now right|].
  rewrite Hy, Hl'. cbn [rbind]. eauto.
Qed.

Lemma to_ref_total rel r : NoDup rel -> In r rel -> exists z, to_ref (referent_table 0 rel []) r = Ok z.
Proof.
  intros Hnd Hin. apply In_nth_error in Hin. destruct Hin as [k Hk]. unfold to_ref.
  rewrite (referent_table_nth r rel 0%Z [] k Hnd Hk). eauto.
Qed.

Lemma index_of_in s : forall l n, In s l -> exists k, index_of s l n = Some k.
Proof.
  induction l as [|x l IH]; intros n; [intros []|]. cbn [index_of]. destruct (bytes_eqb s x) eqn:E; [eauto|].
  intros [->|H]; [now rewrite bytes_eqb_refl in E|auto].
Qed.

Lemma gather_total dom : forall l acc, (forall r, In r l -> find_inst dom r <> None) ->
  exists insts, fold_res (fun acc r => match find_inst dom r with Some i => Ok (acc ++ [i]) | None => Panic end) acc l = Ok insts.
Proof.
  induction l as [|r l IH]; intros acc H; cbn [fold_res]; [eauto|].
  destruct (find_inst dom r) as [i|] eqn:E; [|now destruct (H r (or_introl eq_refl))]. cbn [rbind].
  apply IH. intros z Hz. apply H. now right.
Qed.

Lemma sort_sstr_total hash ss : (forall s, In s ss -> bfind s hash <> None) -> exists ss', sort_sstr hash ss = Ok ss'.
Proof.
  intros H. unfold sort_sstr.
  assert (G : forall l acc, (forall s, In s l -> bfind s hash <> None) ->
              exists keyed, fold_res (fun acc s => match bfind s hash with Some h => Ok (acc ++ [(h, s)]) | None => Err E_HASH_ORDER end) acc l = Ok keyed).
  { induction l as [|s l IH]; intros acc Hl; cbn [fold_res]; [eauto|].
    destruct (bfind s hash) as [h|] eqn:E; [|now destruct (Hl s (or_introl eq_refl))]. cbn [rbind].
    apply IH. intros z Hz. apply Hl. now right. }
  destruct (G ss [] H) as [keyed Hk]. rewrite Hk. cbn [rbind]. eauto.
Qed.

(* the hypotheses on the encoder's input and parameters *)
Record enc_ready (d : db) (p : enc_params) (dom : cdom) (ts : list tree) : Prop := mkReady {
  er_refs : NoDup (List.map i_ref dom);
  er_agrees : Forall (agrees (children_of dom)) ts;
  er_disjoint : NoDup (flat_map refs ts);
  er_roots : Forall (fun t => In (root t) (List.map i_ref dom)) ts;
  er_size : (Z.of_nat (length dom) <= 2147483647)%Z;                       (* referents fit i32 *)
  er_order : forall l, Permutation (ep_order p l) l;                        (* the alias-set iteration order is an order of the set *)
  er_hash : forall s, sstr_src d dom s -> bfind s (ep_hash p) <> None      (* every SharedString has its hash supplied *)
}.

Theorem add_instances_total d p dom ts :
  enc_ready d p dom ts -> dom_types_agree d dom -> (forall i, In i dom -> inst_ok d p i = true) ->
  exists st st0, add_instances d p dom (List.map root ts) = Ok st /\
            ss_relevant st = flat_map post ts /\ NoDup (ss_relevant st) /\ types_inv dom st /\
            ginv d dom st0 /\ ss_types st = ss_types st0 /\ Permutation (ss_sstr st) (ss_sstr st0).
Proof.
  intros [Hnd Hag Hdis Hroots Hsize Hord Hhash] HA Hok.
  pose proof (postorder_fuel_suffices dom ts Hag Hdis) as Hrun.
  assert (Hlen : (sizes ts <= length dom)%nat).
  { rewrite sizes_refs. rewrite <- (map_length i_ref dom). apply NoDup_incl_length; [exact Hdis|].
    intros r Hr. clear - Hag Hroots Hr. revert r Hr.
    assert (Ht : forall t, agrees (children_of dom) t -> In (root t) (List.map i_ref dom) -> forall r, In r (refs t) -> In r (List.map i_ref dom)).
    { apply (tree_ind' (fun t => agrees (children_of dom) t -> In (root t) (List.map i_ref dom) -> forall r, In r (refs t) -> In r (List.map i_ref dom))).
      intros r0 cs HF Hagt Hrt r Hr. apply agrees_unfold in Hagt. destruct Hagt as [Hk Hcs]. cbn [refs In root] in *.
      destruct Hr as [<-|Hr]; [exact Hrt|]. apply in_flat_map in Hr. destruct Hr as (c & Hc & Hr).
      rewrite Forall_forall in HF, Hcs. apply (HF c Hc (Hcs c Hc)); [|exact Hr].
      apply (children_in_dom dom r0). rewrite Hk. now apply in_map. }
    intros r Hr. apply in_flat_map in Hr. destruct Hr as (t & Ht' & Hr). rewrite Forall_forall in Hag, Hroots. eapply Ht; eauto. }
  set (fuel := (3 * (length dom + 1) * (length (List.map root ts) + 1))%nat).
  assert (Hfuel : exists k, fuel = (3 * sizes ts + 3 + k)%nat).
  { exists (fuel - (3 * sizes ts + 3))%nat. subst fuel. nia. }
  destruct Hfuel as [k Hk]. apply (run_mono _ _ _ _ _ _ _ k) in Hrun. rewrite <- Hk in Hrun.
  destruct (add_loop_total d p dom HA Hok fuel true (List.map root ts) None ser_state0 (flat_map post ts) (types_inv0 dom) (ginv0 d dom)) as (st0 & Hl & Hinv0 & Hg0).
  { apply Forall_forall. intros r Hr. apply in_map_iff in Hr. destruct Hr as (t & <- & Ht). rewrite Forall_forall in Hroots. auto. }
  { exact Hrun. }
  destruct (sort_sstr_total (ep_hash p) (ss_sstr st0)) as [ss Hss].
  { intros s Hs. apply Hhash. exact (proj2 Hg0 s Hs). }
  assert (Hadd : add_instances d p dom (List.map root ts) = Ok (mkSS (ss_relevant st0) (ss_types st0) (ss_next_id st0) ss)).
  { unfold add_instances. fold fuel. rewrite Hl. cbn [rbind]. rewrite Hss. reflexivity. }
  destruct (enc_relevant_postorder _ _ _ _ _ Hag Hdis Hadd) as [Hrel Hndr].
  destruct (add_instances_inv _ _ _ _ _ Hadd) as (st0' & Hl' & _ & _ & _ & _ & Hinv).
  eexists. exists st0. split; [exact Hadd|]. split; [exact Hrel|]. split; [exact Hndr|]. split; [exact Hinv|].
  split; [exact Hg0|]. split; [reflexivity|]. cbn [ss_sstr]. eapply BinStructure.sort_sstr_perm; eauto.
Qed.

Lemma relevant_in_dom dom st r : types_inv dom st -> In r (ss_relevant st) -> In r (List.map i_ref dom).
Proof.
  intros Hinv Hr. pose proof (inv_found _ _ Hinv r Hr) as Hf. destruct (find_inst dom r) as [i|] eqn:E; [|congruence].
  destruct (find_inst_some _ _ _ E) as [Hi <-]. now apply in_map.
Qed.

(* every planned column accepts every value the serializer feeds it *)
Lemma planned_columns_accept d p dom st st0 cn ti canon pi r i :
  dom_types_agree d dom -> (forall i, In i dom -> class_good d (i_class i)) -> (forall i, In i dom -> inst_ok d p i = true) ->
  (forall l, Permutation (ep_order p l) l) ->
  types_inv dom st -> ginv d dom st0 -> ss_types st = ss_types st0 -> Permutation (ss_sstr st) (ss_sstr st0) ->
  In (cn, ti) (ss_types st) -> In (canon, pi) (ti_props ti) -> In r (ti_instances ti) -> find_inst dom r = Some i ->
  col_accepts (pi_type pi) (mkEC (fun r => lookup r (referent_table 0 (ss_relevant st) [])) (fun s => index_of s (ss_sstr st) 0) (ep_quant p))
              (prop_value p canon pi (ep_order p (pi_aliases pi)) i) = true.
Proof.
  intros HA Hgood Hok Hord Hinv Hg0 Hty Hperm Hct Hcp Hr Hfi.
  assert (Hb : bfind cn (ss_types st0) = Some ti).
  { rewrite <- Hty. apply in_bfind; [|exact Hct]. apply sorted_NoDup. exact (inv_sorted _ _ Hinv). }
  destruct (proj1 Hg0 cn ti Hb) as (C0 & A0 & M0 & P0 & S0).
  assert (Hbp : bfind canon (ti_props ti) = Some pi) by (apply in_bfind; [apply sorted_NoDup; exact S0|exact Hcp]).
  destruct (HA cn) as [TA MA].
  assert (Hseen : forall x, seen_of dom (ti_instances ti) x -> In x (class_pairs dom cn) /\ pair_ok d p cn x = true).
  { intros x (r' & j & Hr' & Hj & Hx). pose proof (BinTypeInfoFacts.find_inst_in _ _ _ Hj) as Hjd. pose proof (M0 r' j Hr' Hj) as Hc. split.
    - eapply in_class_pairs; eauto.
    - pose proof (Hok j Hjd) as Hj'. unfold inst_ok in Hj'. rewrite forallb_forall in Hj'. rewrite <- Hc. auto. }
  assert (Hgcn : class_good d cn).
  { rewrite <- (M0 r i Hr Hfi). apply Hgood. eapply BinTypeInfoFacts.find_inst_in; eauto. }
  destruct (planned_value_accepted d cn (ti_class ti) (class_pairs dom cn) TA MA p C0 Hgcn
              (seen_of dom (ti_instances ti)) (ss_sstr st0, ti_visited ti, ti_props ti) canon pi (ep_order p (pi_aliases pi)) i
              P0 A0 (fun x Hx => proj1 (Hseen x Hx)) (fun x Hx => proj2 (Hseen x Hx)) Hbp) as [Hacc Hss].
  { intros a Ha. eapply Permutation_in; [apply Hord|exact Ha]. }
  { intros x Hx. exists r, i. auto. }
  rewrite col_accepts_split, Hacc. cbn [andb]. unfold sstr_known. cbn [ec_sstr].
  destruct (prop_value p canon pi (ep_order p (pi_aliases pi)) i) eqn:Ev; try reflexivity.
  assert (Hin : In b (ss_sstr st)).
  { eapply Permutation_in; [symmetry; exact Hperm|]. apply (Hss b eq_refl). }
  destruct (index_of_in b (ss_sstr st) 0 Hin) as [k ->]. reflexivity.
Qed.

(* G2: the serializer is total *)
Theorem encode_chunks_total d p dom ts :
  enc_ready d p dom ts -> dom_types_agree d dom -> (forall i, In i dom -> class_good d (i_class i)) ->
  (forall i, In i dom -> inst_ok d p i = true) ->
  exists e, encode_chunks d p dom (List.map root ts) = Ok e.
Proof.
  intros Hr HA Hgood Hok.
  destruct (add_instances_total d p dom ts Hr HA Hok) as (st & st0 & Hadd & Hrel & Hndr & Hinv & Hg0 & Hty & Hperm).
  destruct Hr as [Hnd Hag Hdis Hroots Hsize Hord Hhash].
  unfold encode_chunks. rewrite Hadd. cbn [rbind].
  assert (Hlen : Z.ltb 2147483647 (Z.of_nat (length (ss_relevant st))) = false).
  { apply Z.ltb_ge. assert (length (ss_relevant st) <= length dom)%nat; [|lia].
    rewrite <- (map_length i_ref dom). apply NoDup_incl_length; [exact Hndr|]. intros r. now apply relevant_in_dom. }
  rewrite Hlen. cbn [rbind]. cbv zeta.
  set (refs := referent_table 0 (ss_relevant st) []).
  assert (Hsub : forall cn ti r, In (cn, ti) (ss_types st) -> In r (ti_instances ti) -> In r (ss_relevant st)).
  { intros cn ti r Hct Hr. rewrite (inv_insts _ _ Hinv cn ti Hct) in Hr. apply filter_In in Hr. tauto. }
  destruct (map_res_total (inst_chunk refs) (ss_types st)) as [insts Hi].
  { intros [cn ti] Hct. unfold inst_chunk.
    destruct (map_res_total (to_ref refs) (ti_instances ti)) as [ids Hids].
    { intros r Hr. apply to_ref_total; [exact Hndr|eauto]. }
    rewrite Hids. cbn [rbind]. eauto. }
  rewrite Hi. cbn [rbind].
  set (ctx := mkEC (fun r => lookup r refs) (fun s => index_of s (ss_sstr st) 0) (ep_quant p)).
  destruct (map_res_total (fun ct => map_res (prop_chunk p dom ctx (snd ct)) (ti_props (snd ct))) (ss_types st)) as [props Hp].
  { intros [cn ti] Hct. cbn [snd]. apply map_res_total. intros [canon pi] Hcp. unfold prop_chunk.
    rewrite (is_perm_of_perm _ _ (Hord (pi_aliases pi))). cbn [negb].
    destruct (gather_total dom (ti_instances ti) []) as [is Hg].
    { intros r Hr. apply (inv_found _ _ Hinv). eauto. }
    rewrite Hg. cbn [rbind]. apply fold_insts in Hg. destruct Hg as (new & -> & HF). cbn [app].
    destruct (enc_col_total (pi_type pi) ctx (List.map (prop_value p canon pi (ep_order p (pi_aliases pi))) new)) as [col Hc].
    { apply Forall_forall. intros v Hv. apply in_map_iff in Hv. destruct Hv as (i & <- & Hi').
      destruct (BinTypeInfoFacts.forall2_in_r _ _ _ _ HF Hi') as (r & Hr & Hfi).
      eapply planned_columns_accept; eauto. }
    rewrite Hc. cbn [rbind]. eauto. }
  rewrite Hp. cbn [rbind].
  destruct (map_res_total (to_ref refs) (ss_relevant st)) as [objs Ho].
  { intros r Hr. now apply to_ref_total. }
  rewrite Ho. cbn [rbind].
  match goal with |- context [map_res ?f (ss_relevant st)] => destruct (map_res_total f (ss_relevant st)) as [parents Hpa] end.
  { intros r Hr. pose proof (inv_found _ _ Hinv r Hr) as Hf. destruct (find_inst dom r); [eauto|congruence]. }
  rewrite Hpa. cbn [rbind]. eauto.
Qed.

Corollary encode_file_total d p cmp dom ts :
  enc_ready d p dom ts -> dom_types_agree d dom -> (forall i, In i dom -> class_good d (i_class i)) ->
  (forall i, In i dom -> inst_ok d p i = true) ->
  exists b, encode_file d p cmp dom (List.map root ts) = Ok b.
Proof.
  intros Hr HA Hgood Hok. destruct (encode_chunks_total d p dom ts Hr HA Hgood Hok) as [e He].
  unfold encode_file. rewrite He. cbn [rbind]. eauto.
Qed.
Print Assumptions encode_file_total.

(* ========================================================================================== *)
(* G2, part 4: [class_good] from an executable check of the database                           *)
(* ========================================================================================== *)
(* the built-in default of a VariantType is written by the arm of the wire type of that VariantType *)
Lemma fallback_accepted vt dv wt :
  fallback_default_value vt = Some dv -> from_rbx_type vt = Some wt -> val_accepts wt dv = true.
Proof.
  destruct vt as [|q]; [cbn; intros [= <-] [= <-]; reflexivity|].
  do 6 (try destruct q as [q|q|]); cbn; try discriminate; intros [= <-] [= <-]; reflexivity.
Qed.

Definition default_keys (d : db) (c : cdesc) : list string :=
  List.map fst (flat_map cd_defaults (superclasses (S (length (db_classes d))) d c)).

Lemma find_assoc_in {V} (l : list (string * V)) n v : find_assoc l n = Some v -> In n (List.map fst l).
Proof.
  induction l as [|[k w] l IH]; cbn [find_assoc List.map fst In]; [discriminate|].
  destruct (String.eqb k n) eqn:E; [apply String.eqb_eq in E; auto|auto].
Qed.

Lemma find_default_loop_keys d : forall f c pn v,
  find_default_loop f d c pn = Ok (Some v) ->
  In pn (List.map fst (flat_map cd_defaults (superclasses f d c))).
Proof.
  induction f as [|f IH]; intros c pn v H; cbn [find_default_loop] in H; [discriminate|].
  cbn [superclasses flat_map]. rewrite List.map_app. apply in_or_app.
  destruct (find_assoc (cd_defaults c) pn) as [w|] eqn:E.
  - left. eapply find_assoc_in; eauto.
  - right. destruct (cd_super c) as [sn|]; [|discriminate]. destruct (get_class d sn) as [sc|]; [|discriminate]. eapply IH; eauto.
Qed.

Definition class_cols_ok (d : db) (sn : string) : bool :=
  match get_class d sn with
  | None => true
  | Some k =>
      forallb (fun pn =>
        match known_resolve d sn pn with
        | Ok (Some (RProp c s ty m)) =>
            match col_plan d (Some k) c ty with
            | Ok (dv, wt) => val_accepts wt dv && match m with Some op => type_accepts wt (mig_out op) | None => true end
            | _ => true
            end &&
            match known_resolve d sn (string_of_bytes c) with
            | Ok (Some (RProp c' _ _ _)) => bytes_eqb c c'
            | _ => false
            end
        | _ => true
        end) (visible_names d k) &&
      forallb (fun key => match known_resolve d sn key with Ok (Some _) => true | _ => false end) (default_keys d k)
  end.

Theorem class_good_from_db d class : class_cols_ok d (string_of_bytes class) = true -> class_good d class.
Proof.
  set (sn := string_of_bytes class). intros Hchk.
  (* a resolved pair is known or unknown *)
  assert (R : forall n v c s t m, resolve_prop d class n v = Ok (RProp c s t m) ->
              known_resolve d sn (string_of_bytes n) = Ok (Some (RProp c s t m)) \/
              (known_resolve d sn (string_of_bytes n) = Ok None /\ c = n /\ s = n /\ t = vtype v /\ m = None)).
  { intros n v c s t m H. rewrite resolve_prop_known in H. fold sn in H.
    destruct (known_resolve d sn (string_of_bytes n)) as [[x|]| | |]; cbn [rbind] in H; try discriminate.
    - left. congruence.
    - right. injection H as <- <- <- <-. auto. }
  (* what the check says about a known name *)
  assert (K : forall pn c s ty m, known_resolve d sn pn = Ok (Some (RProp c s ty m)) ->
              exists k, get_class d sn = Some k /\
              (forall dv wt, col_plan d (Some k) c ty = Ok (dv, wt) ->
                 val_accepts wt dv = true /\ (forall op, m = Some op -> type_accepts wt (mig_out op) = true)) /\
              (exists s' ty' m', known_resolve d sn (string_of_bytes c) = Ok (Some (RProp c s' ty' m')))).
  { intros pn c s ty m H. destruct (known_resolve_visible _ _ _ _ H) as [k [Gk Hin]]. exists k. split; [exact Gk|].
    unfold class_cols_ok in Hchk. rewrite Gk in Hchk. apply andb_true_iff in Hchk. destruct Hchk as [Hs _].
    rewrite forallb_forall in Hs. specialize (Hs pn Hin). cbv beta in Hs. rewrite H in Hs.
    apply andb_true_iff in Hs. destruct Hs as [H1 H2]. split.
    - intros dv wt Hc. rewrite Hc in H1. apply andb_true_iff in H1. destruct H1 as [Ha Hb]. split; [exact Ha|].
      intros op ->. exact Hb.
    - destruct (known_resolve d sn (string_of_bytes c)) as [[[|c' s' t' m']|]| | |]; try discriminate.
      apply bytes_eqb_eq in H2. subst c'. eauto. }
  (* a name the database does not know has no default *)
  assert (U : forall n k, get_class d sn = Some k -> known_resolve d sn (string_of_bytes n) = Ok None ->
              forall v, find_default d k (string_of_bytes n) <> Ok (Some v)).
  { intros n k Gk Hn v Hd. unfold find_default in Hd. apply find_default_loop_keys in Hd.
    unfold class_cols_ok in Hchk. rewrite Gk in Hchk. apply andb_true_iff in Hchk. destruct Hchk as [_ Hk].
    rewrite forallb_forall in Hk. specialize (Hk _ Hd). rewrite Hn in Hk. discriminate. }
  assert (UD : forall n ty dv wt, known_resolve d sn (string_of_bytes n) = Ok None ->
               col_plan d (get_class d sn) n ty = Ok (dv, wt) -> val_accepts wt dv = true).
  { intros n ty dv wt Hn Hc. unfold col_plan in Hc.
    assert (Hdb : forall r, match get_class d sn with Some c0 => find_default d c0 (string_of_bytes n) | None => Ok None end = Ok r -> r = None).
    { intros r Hr. destruct (get_class d sn) as [k|] eqn:Gk; [|congruence]. destruct r as [v|]; [|reflexivity].
      now destruct (U n k eq_refl Hn v). }
    destruct (match get_class d sn with Some c0 => find_default d c0 (string_of_bytes n) | None => Ok None end) as [r| | |] eqn:Er;
      cbn [rbind] in Hc; try discriminate.
    rewrite (Hdb r eq_refl) in Hc.
    destruct (fallback_default_value ty) as [dv'|] eqn:Ef; [|discriminate].
    destruct (from_rbx_type ty) as [wt'|] eqn:Ew; [|discriminate]. injection Hc as <- <-. eapply fallback_accepted; eauto. }
  constructor.
  - intros n v c s ty m dv wt Hr Hc. fold sn in Hc. destruct (R _ _ _ _ _ _ Hr) as [Hk|(Hn & -> & -> & -> & ->)].
    + destruct (K _ _ _ _ _ Hk) as (k & Gk & Hcol & _). rewrite Gk in Hc. exact (proj1 (Hcol dv wt Hc)).
    + eapply UD; eauto.
  - intros n v c s ty op dv wt Hr Hc. fold sn in Hc. destruct (R _ _ _ _ _ _ Hr) as [Hk|(Hn & _ & _ & _ & Hm)]; [|discriminate].
    destruct (K _ _ _ _ _ Hk) as (k & Gk & Hcol & _). rewrite Gk in Hc. exact (proj2 (Hcol dv wt Hc) op eq_refl).
  - intros n v c s ty m v' Hr. rewrite resolve_prop_known. fold sn. destruct (R _ _ _ _ _ _ Hr) as [Hk|(Hn & -> & -> & -> & ->)].
    + destruct (K _ _ _ _ _ Hk) as (k & Gk & _ & (s' & ty' & m' & Hself)). rewrite Hself. cbn [rbind]. eauto.
    + rewrite Hn. cbn [rbind]. eauto.
Qed.
Print Assumptions class_good_from_db.

(* a class the database does not know is always good *)
Corollary class_good_unknown d class : get_class d (string_of_bytes class) = None -> class_good d class.
Proof. intros H. apply class_good_from_db. unfold class_cols_ok. now rewrite H. Qed.

Definition cols_offenders (d : db) : list string :=
  List.map cd_name (filter (fun c => negb (class_cols_ok d (cd_name c))) (db_classes d)).

(* the database the crates load passes the check for every class *)
Theorem bundled_cols_ok :
  forallb (fun c => class_cols_ok Database.database (cd_name c)) (db_classes Database.database) = true.
Proof. vm_cast_no_check (eq_refl true). Qed.

Corollary bundled_class_good class : class_good Database.database class.
Proof.
  apply class_good_from_db. set (cn := string_of_bytes class).
  destruct (get_class Database.database cn) as [c|] eqn:G.
  - pose proof bundled_cols_ok as H. rewrite forallb_forall in H.
    unfold get_class in G. pose proof (find_class_in _ _ _ G) as Hin. pose proof (find_class_name _ _ _ G) as Hn.
    specialize (H c Hin). now rewrite Hn in H.
  - unfold class_cols_ok. now rewrite G.
Qed.


(* ========================================================================================== *)
(* G2: the C08 clause                                                                           *)
(* ========================================================================================== *)
Lemma class_pairs_in dom cn x : In x (class_pairs dom cn) -> exists i, In i dom /\ i_class i = cn /\ In x (i_props i).
Proof.
  unfold class_pairs. intros H. apply in_flat_map in H. destruct H as (i & Hi & Hx). apply filter_In in Hi.
  destruct Hi as [Hi Hc]. apply bytes_eqb_eq in Hc. eauto.
Qed.

(* sibling instances of one class directly below the DOM root *)
Definition flat_siblings (class : bytes) (insts : list inst) : Prop :=
  NoDup (List.map i_ref insts) /\ forall i, In i insts -> i_class i = class /\ i_parent i = 0 /\ i_ref i <> 0.

Lemma flat_children class insts r : flat_siblings class insts -> r <> 0 -> children_of insts r = [].
Proof.
  intros [_ H] Hr. unfold children_of. rewrite (filter_none _ insts); [reflexivity|].
  intros i Hi. destruct (H i Hi) as (_ & Hp & _). rewrite Hp. apply N.eqb_neq. congruence.
Qed.

(* C08: instances of one class with different subsets of properties (canonical / alias / legacy spellings):
   if every instance passes the per-instance predicate (it serializes on its own), the set serializes, in every
   order of the siblings *)
Theorem encode_total_same_class d p cmp class insts :
  flat_siblings class insts ->
  (Z.of_nat (length insts) <= 2147483647)%Z ->
  (forall l, Permutation (ep_order p l) l) ->
  (forall s, In s (dom_sstrs d insts) -> bfind s (ep_hash p) <> None) ->
  class_good d class ->
  types_agree d class (flat_map i_props insts) -> migrations_agree d class (flat_map i_props insts) ->
  (forall i, In i insts -> inst_ok d p i = true) ->
  forall insts', Permutation insts insts' ->
  exists b, encode_file d p cmp insts' (List.map i_ref insts') = Ok b.
Proof.
  intros Hflat Hsize Hord Hhash Hgood TA MA Hok insts' Hperm.
  assert (Hflat' : flat_siblings class insts').
  { destruct Hflat as [Hnd H]. split.
    - eapply Permutation_NoDup; [apply Permutation_map; exact Hperm|exact Hnd].
    - intros i Hi. apply H. eapply Permutation_in; [symmetry; exact Hperm|exact Hi]. }
  assert (Hin : forall i, In i insts' -> In i insts) by (intros i Hi; eapply Permutation_in; [symmetry; exact Hperm|exact Hi]).
  set (ts := List.map (fun i => Node (i_ref i) []) insts').
  assert (Hroots : List.map root ts = List.map i_ref insts') by (unfold ts; rewrite List.map_map; reflexivity).
  assert (Hrefs : flat_map refs ts = List.map i_ref insts').
  { unfold ts. clear. induction insts' as [|i l IH]; [reflexivity|]. cbn [List.map flat_map refs app]. now rewrite IH. }
  rewrite <- Hroots. apply encode_file_total.
  - destruct Hflat' as [Hnd' H']. constructor; auto.
    + apply Forall_forall. intros t Ht. unfold ts in Ht. apply in_map_iff in Ht. destruct Ht as (i & <- & Hi).
      constructor; [|constructor]. cbn [List.map]. apply (flat_children class); [split; auto|]. apply (H' i Hi).
    + now rewrite Hrefs.
    + apply Forall_forall. intros t Ht. unfold ts in Ht. apply in_map_iff in Ht. destruct Ht as (i & <- & Hi).
      cbn [root]. now apply in_map.
    + now rewrite <- (Permutation_length Hperm).
    + intros s Hs. apply Hhash. unfold sstr_src, dom_sstrs in *. apply in_flat_map in Hs. destruct Hs as (i & Hi & Hs).
      apply in_flat_map. exists i. split; [auto|exact Hs].
  - intros cn. split.
    + intros n1 v1 n2 v2 c s1 t1 m1 s2 t2 m2 I1 I2.
      destruct (class_pairs_in _ _ _ I1) as (i1 & Hi1 & Hc1 & Hx1). destruct (class_pairs_in _ _ _ I2) as (i2 & Hi2 & Hc2 & Hx2).
      assert (E : cn = class) by (rewrite <- Hc1; apply (proj2 Hflat' i1 Hi1)). rewrite E.
      apply (TA n1 v1 n2 v2 c s1 t1 m1 s2 t2 m2); apply in_flat_map; eauto.
    + intros n1 v1 n2 v2 c s1 t1 m1 s2 t2 m2 I1 I2.
      destruct (class_pairs_in _ _ _ I1) as (i1 & Hi1 & Hc1 & Hx1). destruct (class_pairs_in _ _ _ I2) as (i2 & Hi2 & Hc2 & Hx2).
      assert (E : cn = class) by (rewrite <- Hc1; apply (proj2 Hflat' i1 Hi1)). rewrite E.
      apply (MA n1 v1 n2 v2 c s1 t1 m1 s2 t2 m2); apply in_flat_map; eauto.
  - intros i Hi. rewrite (proj1 (proj2 Hflat' i Hi)). exact Hgood.
  - auto.
Qed.
Print Assumptions encode_total_same_class.

(* ---- non-vacuity: a legacy BrickColor, an alias Color3uint8 and the canonical Color with a Tag, class Part of db_part:
   all hypotheses hold, and the file is computed for another sibling order ---- *)
Example three_parts_serialize :
  flat_siblings (bstr "Part") three_parts /\
  class_cols_ok db_part "Part" = true /\
  dom_sstrs db_part three_parts = [] /\
  (forall i, In i three_parts -> inst_ok db_part ep_part i = true) /\
  (exists b, encode_file db_part ep_part None three_parts' (List.map i_ref three_parts') = Ok b) /\
  is_ok (encode_file db_part ep_part None three_parts' [3; 1; 2]) = true.
Proof.
  assert (H1 : flat_siblings (bstr "Part") three_parts).
  { split.
    - cbn. repeat constructor; cbn; intuition discriminate.
    - intros i [<-|[<-|[<-|[]]]]; repeat split; discriminate. }
  assert (H2 : class_cols_ok db_part "Part" = true) by (vm_compute; reflexivity).
  assert (H3 : dom_sstrs db_part three_parts = []) by (vm_compute; reflexivity).
  assert (H4 : forall i, In i three_parts -> inst_ok db_part ep_part i = true) by (intros i [<-|[<-|[<-|[]]]]; vm_compute; reflexivity).
  split; [exact H1|]. split; [exact H2|]. split; [exact H3|]. split; [exact H4|]. split; [|vm_compute; reflexivity].
  apply (encode_total_same_class db_part ep_part None (bstr "Part") three_parts);
    [exact H1|cbn; lia|intros l; apply Permutation_refl|rewrite H3; intros s []|apply class_good_from_db; exact H2
    |apply spellings_types_agree; exact (proj1 three_parts_agree)|exact (proj2 three_parts_agree)|exact H4|].
  unfold three_parts, three_parts'. apply Permutation_sym. apply (Permutation_cons_app [_; _] []). apply Permutation_refl.
Qed.

(* ========================================================================================== *)
(* G3 (writer side): what each instance finds in each planned column                           *)
(* ========================================================================================== *)
(* the instance carries at most one spelling of each logical property, and each name once *)
Definition inst_one_spelling (d : db) (i : inst) : Prop :=
  NoDup (List.map fst (i_props i)) /\
  forall n1 n2 c, haskey n1 (i_props i) = true -> haskey n2 (i_props i) = true ->
                  spells d (i_class i) n1 c -> spells d (i_class i) n2 c -> n1 = n2.

Lemma haskey_in {V} k (v : V) m : In (k, v) m -> haskey k m = true.
Proof.
  intros H. unfold haskey. destruct (bfind k m) eqn:E; [reflexivity|]. exfalso.
  apply (bfind_none_notin _ _ E). apply in_map_iff. exists (k, v). auto.
Qed.

Section Written.
Variables (d : db) (class : bytes) (cls : option cdesc) (All : list (bytes * value)).
Hypothesis TA : types_agree d class All.
Hypothesis MA : migrations_agree d class All.
Variable p : enc_params.

(* an instance that carries a spelling of the column's property finds its OWN value there, after the column's migration *)
Theorem planned_own_value (seen : bytes * value -> Prop) st canon pi ord i n v s ty m :
  pinv d class cls seen st -> props_alias_inv d class (ps_props st) -> (forall x, seen x -> In x All) ->
  bfind canon (ps_props st) = Some pi -> canon <> NAME -> Permutation ord (pi_aliases pi) ->
  i_class i = class -> inst_one_spelling d i -> (forall x, In x (i_props i) -> seen x) ->
  In (n, v) (i_props i) -> resolve_prop d class n v = Ok (RProp canon s ty m) ->
  prop_value p canon pi ord i = migv p (pi_migration pi) v.
Proof.
  intros Hinv Hal Hall Hf Hc Hord Hcl [Hnd H1] Hi Hin Hr. rewrite Hcl in H1.
  assert (En : bytes_eqb canon NAME = false) by now apply bytes_eqb_neq.
  unfold prop_value. rewrite En.
  assert (Hraw : match bfind canon (i_props i) with
                 | Some v0 => v0
                 | None => match find (fun a => match bfind a (i_props i) with Some _ => true | None => false end) ord with
                           | Some a => match bfind a (i_props i) with Some v0 => v0 | None => pi_default pi end
                           | None => pi_default pi
                           end
                 end = v).
  { pose proof (in_bfind _ _ _ Hnd Hin) as Hbn.
    assert (Hsp : spells d class n canon) by (right; eauto).
    destruct (bytes_eqb n canon) eqn:Enc.
    - apply bytes_eqb_eq in Enc. subst n. now rewrite Hbn.
    - assert (Hne : n <> canon) by now apply bytes_eqb_false_neq.
      destruct (bfind canon (i_props i)) as [v'|] eqn:Ec.
      + exfalso. apply Hne. apply (H1 n canon canon); [eapply haskey_in; eauto|unfold haskey; now rewrite Ec|exact Hsp|now left].
      + destruct Hinv as [Ivis Icol Imk Iname Imig Idss Ivss Ires Iser]. destruct (Icol n v canon s ty m (Hi _ Hin) Hr) as (pi' & Hf' & _ & Ha). rewrite Hf in Hf'. injection Hf' as <-.
        assert (Hno : In n ord).
        { eapply Permutation_in; [symmetry; exact Hord|]. apply BinTypeInfoFacts.bmem_In. exact (Ha Hne). }
        destruct (find _ ord) as [a|] eqn:Efd.
        * apply find_some in Efd. destruct Efd as [Ia Fa].
          assert (a = n).
          { apply (H1 a n canon).
            - unfold haskey. destruct (bfind a (i_props i)); [reflexivity|discriminate].
            - eapply haskey_in; eauto.
            - right. eapply Hal; [eapply bfind_in; exact Hf|]. eapply Permutation_in; [exact Hord|exact Ia].
            - exact Hsp. }
          subst a. now rewrite Hbn.
        * exfalso. pose proof (find_none _ _ Efd n Hno) as Hx. cbv beta in Hx. now rewrite Hbn in Hx. }
  rewrite Hraw. unfold migv. destruct (pi_migration pi); reflexivity.
Qed.

(* an instance that carries no spelling of it finds the column's default (after the column's migration),
   never another instance's value; the default is the one [col_plan] computes from the database *)
Theorem planned_default_value (seen : bytes * value -> Prop) st canon pi ord i :
  pinv d class cls seen st -> props_alias_inv d class (ps_props st) -> (forall x, seen x -> In x All) ->
  class_good d class ->
  bfind canon (ps_props st) = Some pi -> canon <> NAME -> incl ord (pi_aliases pi) ->
  (forall x, In x (i_props i) -> seen x) ->
  (forall n v s ty m, In (n, v) (i_props i) -> resolve_prop d class n v <> Ok (RProp canon s ty m)) ->
  prop_value p canon pi ord i = migv p (pi_migration pi) (pi_default pi) /\
  exists n0 v0 s0 ty0 m0, seen (n0, v0) /\ resolve_prop d class n0 v0 = Ok (RProp canon s0 ty0 m0) /\
                          col_plan d cls canon ty0 = Ok (pi_default pi, pi_type pi).
Proof.
  intros Hinv Hal Hall Hgood Hf Hc Hord Hi Hno.
  assert (En : bytes_eqb canon NAME = false) by now apply bytes_eqb_neq.
  destruct Hinv as [Ivis Icol Imk Iname Imig Idss Ivss Ires Iser]. destruct (Imk canon pi Hf Hc) as (n0 & v0 & s0 & ty0 & m0 & S0 & R0 & CP0).
  split; [|exists n0, v0, s0, ty0, m0; auto].
  destruct (prop_value_cases p canon pi ord i En) as (raw & -> & [-> |(n & Hn & Hin)]); [reflexivity|]. exfalso.
  assert (Hres : exists s ty m, resolve_prop d class n raw = Ok (RProp canon s ty m)).
  { destruct Hn as [-> |Hn].
    - exact (cg_self d class Hgood n0 v0 canon s0 ty0 m0 raw R0).
    - destruct (Hal canon pi n (bfind_in _ _ _ Hf) (Hord _ Hn)) as (v & s & t & m & Hr).
      destruct (resolve_value_indep d class n v raw) as [E|[E1 E2]].
      + rewrite <- E. eauto.
      + rewrite Hr in E1. injection E1 as -> _ _ _. eauto. }
  destruct Hres as (s & ty & m & Hr). exact (Hno n raw s ty m Hin Hr).
Qed.
End Written.

(* where the default of a planned column comes from: the nearest class of the superclass chain with an entry
   (Db.find_default; its owner is DbOwner.find_default_owner, Proofs/DbOwnerFacts.v), else the built-in default *)
Lemma col_plan_default d k c ty dv wt : col_plan d (Some k) c ty = Ok (dv, wt) ->
  from_rbx_type ty = Some wt /\
  (find_default d k (string_of_bytes c) = Ok (Some dv) \/
   (find_default d k (string_of_bytes c) = Ok None /\ fallback_default_value ty = Some dv)).
Proof.
  unfold col_plan. destruct (find_default d k (string_of_bytes c)) as [[v|]| | |]; cbn [rbind]; try discriminate.
  - destruct (from_rbx_type ty); [|discriminate]. intros [= <- <-]. auto.
  - destruct (fallback_default_value ty) as [v|]; [|discriminate]. destruct (from_rbx_type ty); [|discriminate]. intros [= <- <-]. auto.
Qed.

(* the whole DOM: every written instance finds, in every column of its class, its own value when it carries a spelling of
   the column's property, and the database default of ITS class when it carries none (some class-mate did) *)
Theorem written_columns_spec d p dom ts st :
  enc_ready d p dom ts -> dom_types_agree d dom -> (forall i, In i dom -> class_good d (i_class i)) ->
  (forall i, In i dom -> inst_ok d p i = true) ->
  add_instances d p dom (List.map root ts) = Ok st ->
  forall cn ti canon pi r i,
    In (cn, ti) (ss_types st) -> In (canon, pi) (ti_props ti) -> canon <> NAME ->
    In r (ti_instances ti) -> find_inst dom r = Some i ->
    i_class i = cn /\
    (inst_one_spelling d i -> forall n v s ty m, In (n, v) (i_props i) -> resolve_prop d cn n v = Ok (RProp canon s ty m) ->
       prop_value p canon pi (ep_order p (pi_aliases pi)) i = migv p (pi_migration pi) v) /\
    ((forall n v s ty m, In (n, v) (i_props i) -> resolve_prop d cn n v <> Ok (RProp canon s ty m)) ->
       prop_value p canon pi (ep_order p (pi_aliases pi)) i = migv p (pi_migration pi) (pi_default pi) /\
       exists ty0, col_plan d (get_class d (string_of_bytes cn)) canon ty0 = Ok (pi_default pi, pi_type pi)).
Proof.
  intros Hr HA Hgood Hok Hst cn ti canon pi r i Hct Hcp Hc Hri Hfi.
  destruct (add_instances_total d p dom ts Hr HA Hok) as (st' & st0 & Hadd & Hrel & Hndr & Hinv & Hg0 & Hty & Hperm).
  rewrite Hst in Hadd. injection Hadd as <-.
  assert (Hb : bfind cn (ss_types st0) = Some ti).
  { rewrite <- Hty. apply in_bfind; [|exact Hct]. apply sorted_NoDup. exact (inv_sorted _ _ Hinv). }
  destruct (proj1 Hg0 cn ti Hb) as (C0 & A0 & M0 & P0 & S0).
  assert (Hbp : bfind canon (ti_props ti) = Some pi) by (apply in_bfind; [apply sorted_NoDup; exact S0|exact Hcp]).
  destruct (HA cn) as [TA MA]. pose proof (M0 r i Hri Hfi) as Hcl.
  assert (Hseen : forall x, seen_of dom (ti_instances ti) x -> In x (class_pairs dom cn)).
  { intros x (r' & j & Hr' & Hj & Hx). eapply in_class_pairs; [eapply BinTypeInfoFacts.find_inst_in; eauto|eapply M0; eauto|exact Hx]. }
  assert (Hmine : forall x, In x (i_props i) -> seen_of dom (ti_instances ti) x) by (intros x Hx; exists r, i; auto).
  assert (Hgcn : class_good d cn).
  { rewrite <- Hcl. apply Hgood. eapply BinTypeInfoFacts.find_inst_in; eauto. }
  split; [exact Hcl|]. split.
  - intros H1 n v s ty m Hin Hres.
    eapply (planned_own_value d cn (ti_class ti) (class_pairs dom cn) p (seen_of dom (ti_instances ti))
              (ss_sstr st0, ti_visited ti, ti_props ti)); eauto.
    apply (er_order _ _ _ _ Hr).
  - intros Hno.
    destruct (planned_default_value d cn (ti_class ti) (class_pairs dom cn) p (seen_of dom (ti_instances ti))
                (ss_sstr st0, ti_visited ti, ti_props ti) canon pi (ep_order p (pi_aliases pi)) i P0 A0 Hseen Hgcn Hbp Hc)
      as (Hv & n0 & v0 & s0 & ty0 & m0 & _ & _ & Hcp0); auto.
    { intros a Ha. eapply Permutation_in; [apply (er_order _ _ _ _ Hr)|exact Ha]. }
    split; [exact Hv|]. exists ty0. now rewrite <- C0.
Qed.
Print Assumptions written_columns_spec.

(* ========================================================================================== *)
(* the hypotheses of the C08 clause are needed                                                 *)
(* ========================================================================================== *)
(* (1) type consistency of a name the database does not know: each instance alone serializes, the two together do not,
   in either order (the column takes the wire type of the value met first and rejects the other) *)
Definition foo_int (r : N) : inst := mkInst r 0 (bstr "Folder") (bstr "I") [(bstr "Foo", VInt32 5)].

Example each_alone_needs_types_agree_refuted :
  inst_ok db0 ep0 (foo_string 1) = true /\ inst_ok db0 ep0 (foo_int 2) = true /\
  is_ok (encode_file db0 ep0 None [foo_string 1] [1]) = true /\
  is_ok (encode_file db0 ep0 None [foo_int 2] [2]) = true /\
  encode_file db0 ep0 None [foo_string 1; foo_int 2] [1; 2] = Err EE_TYPE_MISMATCH /\
  encode_file db0 ep0 None [foo_int 2; foo_string 1] [2; 1] = Err EE_TYPE_MISMATCH /\
  class_good db0 (bstr "Folder") /\
  ~ types_agree db0 (bstr "Folder") (flat_map i_props [foo_string 1; foo_int 2]).
Proof.
  repeat (split; [vm_compute; reflexivity|]). split; [apply class_good_unknown; reflexivity|].
  intros H. assert (E : 24 = 13); [|discriminate].
  apply (H (bstr "Foo") (VString [1]) (bstr "Foo") (VInt32 5) (bstr "Foo") (bstr "Foo") 24 None (bstr "Foo") 13 None);
    [now left|right; now left|reflexivity|reflexivity].
Qed.

(* (2) the database check: a default value the column's arm does not write (an Int32 default of a Bool property).
   Each instance alone serializes (its own column never needs the default); together the instance that lacks P gets
   the default and the Bool arm rejects it *)
Open Scope string_scope.
Definition db_baddef : db :=
  mkDb [ mkCD "K" None false
           [ mkPD "P" (DValue 2) (KCanon PSerializes); mkPD "Q" (DValue 2) (KCanon PSerializes) ]
           [ ("P", VInt32 0%Z) ] ] [].
Close Scope string_scope.
Definition k_p (r : N) : inst := mkInst r 0 (bstr "K") (bstr "a") [(bstr "P", VBool true)].
Definition k_q (r : N) : inst := mkInst r 0 (bstr "K") (bstr "b") [(bstr "Q", VBool true)].

Example each_alone_needs_db_check_refuted :
  class_cols_ok db_baddef "K" = false /\
  inst_ok db_baddef ep0 (k_p 1) = true /\ inst_ok db_baddef ep0 (k_q 2) = true /\
  is_ok (encode_file db_baddef ep0 None [k_p 1] [1]) = true /\
  is_ok (encode_file db_baddef ep0 None [k_q 2] [2]) = true /\
  encode_file db_baddef ep0 None [k_p 1; k_q 2] [1; 2] = Err EE_TYPE_MISMATCH /\
  agree_check db_baddef (bstr "K") (flat_map i_props [k_p 1; k_q 2]) = true.
Proof. repeat split; vm_compute; reflexivity. Qed.

(* (3) the predicate is about the instance ALONE: a set can serialize although one of its instances does not
   (recorded finding mixed-types-*: the String arm writes an Attributes value, which Type::from_rbx_type cannot plan) *)
Example set_serializes_although_instance_alone_does_not :
  inst_ok db0 ep0 (foo_attrs 2) = false /\
  encode_file db0 ep0 None [foo_attrs 2] [2] = Err EE_UNSUPPORTED /\
  is_ok (encode_file db0 ep0 None [foo_string 1; foo_attrs 2] [1; 2]) = true.
Proof. repeat split; vm_compute; reflexivity. Qed.

(* ========================================================================================== *)
(* G3 (partial): the whole-file round trip of BinRoundTrip without the hypothesis that the file   *)
(* was written: the writer is total (G2), the reader accepts the file and rebuilds the forest;   *)
(* the values are those of [written_columns_spec] pushed through the column laws R               *)
(* ========================================================================================== *)
Theorem known_props_roundtrip_partial d ep cmp dom ts p (R : ser_state -> BinRoundTrip.column -> BinRoundTrip.col_read) :
  enc_ready d ep dom ts -> BinRoundTrip.input_ok dom ts -> BinRoundTrip.names_ok dom ->
  dom_types_agree d dom -> (forall i, In i dom -> class_good d (i_class i)) ->
  (forall i, In i dom -> inst_ok d ep i = true) ->
  dp_lim p = None ->
  (forall e, encode_chunks d ep dom (List.map root ts) = Ok e -> BinRoundTrip.frame_ok p cmp e) ->
  (forall st, add_instances d ep dom (List.map root ts) = Ok st ->
     BinRoundTrip.sstr_ok st /\ BinRoundTrip.ser_names_ok st /\ BinRoundTrip.name_cols_ok st /\
     (forall x, In x (BinRoundTrip.cols (ss_types st)) -> fst (snd x) <> NAME ->
                BinRoundTrip.col_law d ep p dom st (BinRoundTrip.stI_of st) x (R st x))) ->
  exists b st out,
    encode_file d ep cmp dom (List.map root ts) = Ok b /\
    add_instances d ep dom (List.map root ts) = Ok st /\
    decode_file d p b = Ok out /\
    BinRoundTrip.same_forest dom ts (BinRoundTrip.lbl st) out /\
    forall c ti k r, In (c, ti) (ss_types st) -> nth_error (ti_instances ti) k = Some r ->
      exists i', find_inst out (BinRoundTrip.lbl st r) = Some i' /\ i_ref i' = BinRoundTrip.lbl st r /\
        i_class i' = class_of dom r /\ i_name i' = i_name (BinRoundTrip.src dom r) /\
        BinRoundTrip.uid_norm p (collect_props (BinRoundTrip.read_props p (R st) (c, ti) k)) (i_props i').
Proof.
  intros Hr Hin Hnames HA Hgood Hok Hlim Hframe Hplan.
  destruct (encode_file_total d ep cmp dom ts Hr HA Hgood Hok) as [b Hb].
  destruct (add_instances_total d ep dom ts Hr HA Hok) as (st & st0 & Hadd & _).
  destruct (Hplan st Hadd) as (Hss & Hser & Hncol & Hlaw).
  destruct (BinRoundTrip.file_values_roundtrip d ep cmp dom ts b p st (R st) Hin Hnames Hb Hadd Hlim Hframe Hss Hser Hncol Hlaw)
    as (out & Hdec & Hforest & Hinst).
  exists b, st, out. auto.
Qed.
Print Assumptions known_props_roundtrip_partial.

(* ========================================================================================== *)
(* the predicate [inst_ok] IS "the instance serializes on its own"                              *)
(* ========================================================================================== *)
Lemma add_loop_ginv d dom : dom_types_agree d dom -> forall fuel outer stack lv st st',
  ginv d dom st -> add_loop fuel d dom outer stack lv st = Ok st' -> ginv d dom st'.
Proof.
  intros HA. induction fuel as [|f IH]; intros outer stack lv st st' Hg H; [discriminate|].
  cbn [add_loop] in H. destruct stack as [|x rest]; [now injection H as <-|].
  destruct (find_inst dom x) as [inst|] eqn:Hfi; [|discriminate].
  destruct outer; [eapply IH; eauto|].
  destruct (negb (is_nil (children_of dom x)) && negb (opt_eqb (last_opt (children_of dom x)) lv))%bool; [eapply IH; eauto|].
  destruct (collect_type_info d _ inst) as [st1| | |] eqn:E; cbn [rbind] in H; try discriminate.
  eapply IH; [|exact H]. eapply collect_ginv; [exact HA| | |exact E].
  - now rewrite (find_inst_ref _ _ _ Hfi).
  - exact Hg.
Qed.

Lemma forall2_in_l {A B} (R : A -> B -> Prop) l l' a : Forall2 R l l' -> In a l -> exists b, In b l' /\ R a b.
Proof.
  induction 1 as [|x y l l' Hxy _ IH]; [intros []|]. intros [<-|Ha]; [exists y; split; [now left|exact Hxy]|].
  destruct (IH Ha) as (b & Hb & Hr). exists b. split; [now right|exact Hr].
Qed.

Theorem alone_serializes_inst_ok d p cmp i :
  i_parent i <> i_ref i -> inst_one_spelling d i ->
  types_agree d (i_class i) (i_props i) -> migrations_agree d (i_class i) (i_props i) ->
  (forall l, Permutation (ep_order p l) l) ->
  (exists b, encode_file d p cmp [i] [i_ref i] = Ok b) -> inst_ok d p i = true.
Proof.
  intros Hpar H1 TA MA Hord [b Hb]. unfold encode_file in Hb.
  destruct (encode_chunks d p [i] [i_ref i]) as [e| | |] eqn:He; cbn [rbind] in Hb; try discriminate. clear Hb.
  destruct (enc_prop_values _ _ _ _ _ He) as (st & propss & Hst & _ & Hcols).
  destruct (add_instances_inv _ _ _ _ _ Hst) as (st0 & Hloop & Hrel & Hty & _ & Hperm & Hinv).
  set (r := i_ref i) in *. set (cn := i_class i) in *.
  assert (Hfi : find_inst [i] r = Some i) by (cbn [find_inst]; fold r; now rewrite N.eqb_refl).
  assert (Hpairs : forall c x, In x (class_pairs [i] c) -> c = cn /\ In x (i_props i)).
  { intros c x Hx. unfold class_pairs in Hx. apply in_flat_map in Hx. destruct Hx as (j & Hj & Hx). apply filter_In in Hj.
    destruct Hj as [[<-|[]] Hc]. apply bytes_eqb_eq in Hc. auto. }
  assert (HA : dom_types_agree d [i]).
  { intros c. split; intros n1 v1 n2 v2 cc s1 t1 m1 s2 t2 m2 I1 I2;
      destruct (Hpairs _ _ I1) as [-> J1]; destruct (Hpairs _ _ I2) as [_ J2].
    - exact (TA n1 v1 n2 v2 cc s1 t1 m1 s2 t2 m2 J1 J2).
    - exact (MA n1 v1 n2 v2 cc s1 t1 m1 s2 t2 m2 J1 J2). }
  pose proof (add_loop_ginv d [i] HA _ _ _ _ _ _ (ginv0 d [i]) Hloop) as Hg0.
  assert (Hkids : children_of [i] r = []).
  { unfold children_of. cbn [filter]. destruct (N.eqb (i_parent i) r) eqn:E; [apply N.eqb_eq in E; contradiction|reflexivity]. }
  assert (Hrel1 : ss_relevant st = [r]).
  { destruct (enc_relevant_postorder d p [i] [Node r []] st) as [Hr _]; [| |exact Hst|exact Hr].
    - constructor; [|constructor]. constructor; [exact Hkids|constructor].
    - cbn. constructor; [intros []|constructor]. }
  assert (Hcls : class_of [i] r = cn) by (unfold class_of; now rewrite Hfi).
  assert (Hti : exists ti, In (cn, ti) (ss_types st)).
  { pose proof (inv_cover _ _ Hinv r) as Hc. rewrite Hrel1, Hcls in Hc. specialize (Hc (or_introl eq_refl)).
    apply in_map_iff in Hc. destruct Hc as ([c ti] & <- & Hc). eauto. }
  destruct Hti as [ti Hct].
  assert (Hinsts : ti_instances ti = [r]).
  { rewrite (inv_insts _ _ Hinv cn ti Hct), Hrel1. cbn [filter]. unfold of_class. now rewrite Hcls, bytes_eqb_refl. }
  assert (Hb : bfind cn (ss_types st0) = Some ti).
  { rewrite <- Hty. apply in_bfind; [|exact Hct]. apply sorted_NoDup. exact (inv_sorted _ _ Hinv). }
  destruct (proj1 Hg0 cn ti Hb) as (C0 & A0 & M0 & P0 & S0).
  (* every column of the class accepted the value of i *)
  assert (Hacc : forall canon pi, In (canon, pi) (ti_props ti) ->
                 val_accepts (pi_type pi) (prop_value p canon pi (ep_order p (pi_aliases pi)) i) = true).
  { intros canon pi Hcp. destruct (forall2_in_l _ _ _ _ Hcols Hct) as (chs & _ & Hchs). cbn [snd] in Hchs.
    destruct (forall2_in_l _ _ _ _ Hchs Hcp) as (ch & _ & (insts & vals & col & HF & -> & _ & Hcol & _)). cbn [fst snd] in *.
    rewrite Hinsts in HF. inversion HF as [|? j ? ? Hj HF']; subst. inversion HF'; subst.
    rewrite Hfi in Hj. injection Hj as <-.
    assert (Hall : Forall (fun v => col_accepts (pi_type pi) (enc_ctx_of p st) v = true)
                          (List.map (prop_value p canon pi (ep_order p (pi_aliases pi))) [i])) by (apply enc_col_ok_iff; eauto).
    cbn [List.map] in Hall. apply Forall_cons_iff in Hall. destruct Hall as [Hv _].
    rewrite col_accepts_split in Hv. apply andb_true_iff in Hv. tauto. }
  assert (Hseen : forall x, seen_of [i] (ti_instances ti) x <-> In x (i_props i)).
  { intros x. rewrite Hinsts. split.
    - intros (r' & j & [<-|[]] & Hj & Hx). rewrite Hfi in Hj. now injection Hj as <-.
    - intros Hx. exists r, i. split; [now left|auto]. }
  destruct P0 as [Ivis Icol Imk Iname Imig Idss Ivss Ires Iser].
  unfold inst_ok. apply forallb_forall. intros [n v] Hin. fold cn.
  pose proof (proj2 (Hseen _) Hin) as Hs.
  destruct (Ires n v Hs) as [rr Hr]. unfold pair_ok. cbn [fst snd]. rewrite Hr.
  destruct rr as [|c s ty m]; [reflexivity|].
  destruct (bytes_eqb c NAME) eqn:En; [reflexivity|]. cbn [orb].
  assert (Hc : c <> NAME) by now apply bytes_eqb_false_neq.
  destruct (Icol n v c s ty m Hs Hr) as (pi & Hf & Hm & Ha).
  destruct (Imk c pi Hf Hc) as (n0 & v0 & s0 & ty0 & m0 & S0' & R0 & CP0).
  assert (ty = ty0) by (apply (TA n v n0 v0 c s ty m s0 ty0 m0); [exact Hin|now apply Hseen|exact Hr|exact R0]). subst ty0.
  rewrite C0 in CP0. rewrite CP0.
  pose proof (Hacc c pi (bfind_in _ _ _ Hf)) as Hv.
  assert (Hpv : prop_value p c pi (ep_order p (pi_aliases pi)) i = migv p (pi_migration pi) v).
  { eapply (planned_own_value d cn (ti_class ti) (i_props i) p (seen_of [i] (ti_instances ti))
              (ss_sstr st0, ti_visited ti, ti_props ti)); eauto.
    - constructor; auto.
    - intros x Hx. now apply Hseen.
    - intros x Hx. now apply Hseen. }
  rewrite Hpv in Hv.
  assert (Hmig : pi_migration pi = m).
  { destruct m as [op|].
    - destruct (pi_migration pi) as [op'|] eqn:EM; [|exfalso; apply Hm; [discriminate|reflexivity]].
      destruct (Imig c pi op' Hf EM) as (n1 & v1 & s1 & ty1 & S1 & R1). f_equal.
      apply (proj1 (MA n1 v1 n v c s1 ty1 (Some op') s ty (Some op) (proj1 (Hseen _) S1) Hin R1 Hr)); reflexivity.
    - destruct (pi_migration pi) as [op'|] eqn:EM; [|reflexivity]. exfalso.
      destruct (Imig c pi op' Hf EM) as (n1 & v1 & s1 & ty1 & S1 & R1). pose proof (proj1 (Hseen _) S1) as J1.
      destruct H1 as [Hnd Hone].
      assert (n1 = n).
      { apply (Hone n1 n c); [eapply haskey_in; eauto|eapply haskey_in; eauto|right; eauto|right; eauto]. }
      subst n1. pose proof (in_bfind _ _ _ Hnd J1) as B1. pose proof (in_bfind _ _ _ Hnd Hin) as B2.
      rewrite B1 in B2. injection B2 as ->. rewrite Hr in R1. discriminate. }
  rewrite Hmig in Hv. exact Hv.
Qed.
Print Assumptions alone_serializes_inst_ok.

(* conversely the predicate suffices for the instance alone (an instance of the C08 theorem) *)
Corollary inst_ok_alone_serializes d p cmp i :
  i_parent i = 0 -> i_ref i <> 0 ->
  (forall l, Permutation (ep_order p l) l) ->
  (forall s, In s (dom_sstrs d [i]) -> bfind s (ep_hash p) <> None) ->
  class_good d (i_class i) ->
  types_agree d (i_class i) (i_props i) -> migrations_agree d (i_class i) (i_props i) ->
  inst_ok d p i = true -> exists b, encode_file d p cmp [i] [i_ref i] = Ok b.
Proof.
  intros Hp Hr Hord Hhash Hgood TA MA Hok.
  apply (encode_total_same_class d p cmp (i_class i) [i]); auto.
  - split; [cbn; constructor; [intros []|constructor]|]. intros j [<-|[]]. auto.
  - cbn. lia.
  - cbn [flat_map]. now rewrite app_nil_r.
  - cbn [flat_map]. now rewrite app_nil_r.
  - intros j [<-|[]]. exact Hok.
Qed.

(* C08, the clause as ONE theorem.  Sibling instances of one class with different subsets of properties, spelled with
   canonical, alias or legacy names: if each instance serializes on its own, the set serializes, in every order. *)
Theorem each_alone_then_set_any_order d p cmp class insts :
  flat_siblings class insts ->
  (Z.of_nat (length insts) <= 2147483647)%Z ->
  (forall l, Permutation (ep_order p l) l) ->
  (forall s, In s (dom_sstrs d insts) -> bfind s (ep_hash p) <> None) ->
  class_good d class ->
  types_agree d class (flat_map i_props insts) -> migrations_agree d class (flat_map i_props insts) ->
  (forall i, In i insts -> inst_one_spelling d i) ->
  (forall i, In i insts -> exists b, encode_file d p cmp [i] [i_ref i] = Ok b) ->
  forall insts', Permutation insts insts' ->
  exists b, encode_file d p cmp insts' (List.map i_ref insts') = Ok b.
Proof.
  intros Hflat Hsize Hord Hhash Hgood TA MA H1 Halone.
  apply (encode_total_same_class d p cmp class insts); auto.
  intros i Hi. destruct (proj2 Hflat i Hi) as (Hc & Hp & Hr).
  apply (alone_serializes_inst_ok d p cmp i); auto.
  - rewrite Hp. congruence.
  - rewrite Hc. eapply types_agree_incl; [|exact TA]. intros x Hx. apply in_flat_map. eauto.
  - rewrite Hc. eapply migrations_agree_incl; [|exact MA]. intros x Hx. apply in_flat_map. eauto.
Qed.
Print Assumptions each_alone_then_set_any_order.

(* for the database the crates load: the database hypotheses are discharged (bundled_class_good, bundled_agree) *)
Corollary each_alone_then_set_any_order_bundled p cmp class insts :
  flat_siblings class insts ->
  (Z.of_nat (length insts) <= 2147483647)%Z ->
  (forall l, Permutation (ep_order p l) l) ->
  (forall s, In s (dom_sstrs Database.database insts) -> bfind s (ep_hash p) <> None) ->
  (forall n v1 v2, In (n, v1) (flat_map i_props insts) -> In (n, v2) (flat_map i_props insts) ->
     known_resolve Database.database (string_of_bytes class) (string_of_bytes n) = Ok None -> vtype v1 = vtype v2) ->
  (forall i, In i insts -> inst_one_spelling Database.database i) ->
  (forall i, In i insts -> exists b, encode_file Database.database p cmp [i] [i_ref i] = Ok b) ->
  forall insts', Permutation insts insts' ->
  exists b, encode_file Database.database p cmp insts' (List.map i_ref insts') = Ok b.
Proof.
  intros Hflat Hsize Hord Hhash Hunk H1 Halone.
  destruct (bundled_agree class (flat_map i_props insts) Hunk) as [SA MA].
  apply (each_alone_then_set_any_order Database.database p cmp class insts); auto.
  - apply bundled_class_good.
  - now apply spellings_types_agree.
Qed.
Print Assumptions each_alone_then_set_any_order_bundled.

Example three_parts_each_alone_semantic :
  (forall i, In i three_parts -> inst_one_spelling db_part i) /\
  (forall i, In i three_parts -> exists b, encode_file db_part ep_part None [i] [i_ref i] = Ok b).
Proof.
  split.
  - intros i Hi. assert (Hb : inst_one_spelling_b db_part i = true) by (destruct Hi as [<-|[<-|[<-|[]]]]; vm_compute; reflexivity).
    split.
    + destruct Hi as [<-|[<-|[<-|[]]]]; cbn; repeat constructor; cbn; intuition discriminate.
    + intros n1 n2 c K1 K2 S1 S2.
      exact (dom_one_spelling_check db_part [i] ltac:(cbn [forallb]; rewrite Hb; reflexivity) i n1 n2 c (or_introl eq_refl) K1 K2 S1 S2).
  - intros i [<-|[<-|[<-|[]]]]; vm_compute; eauto.
Qed.

(* ========================================================================================== *)
(* G3, part 1: the column law per wire type, for a column read with canonical type [cty]         *)
(* ========================================================================================== *)
(* ---- the form in which an arm that accepts several Variants writes a value: Int32 as Int64, Float32 as Float64,
   EnumItem as Enum, Int32 as a BrickColor number ---- *)
Definition canonv (wt : wire_type) (v : value) : value :=
  match wt, v with
  | WInt64, VInt32 z => VInt64 z
  | WFloat64, VFloat32 x => VFloat64 (f64_of_f32 x)
  | WEnum, VEnumItem _ n => VEnum n
  | WBrickColor, VInt32 z => VBrickColor (wrap_u 32 z)
  | _, _ => v
  end.

(* the payload of a value the String arm writes *)
Definition spay (v : value) : option bytes :=
  match v with
  | VString s | VBinaryString s | VContentId s => Some s
  | VTags ts => Some (tags_encode ts)
  | VMaterialColors m => Some (matcol_encode m)
  | VAttributes m => match attr_encode m with Ok b => Some b | _ => None end
  | _ => None
  end.
Definition spayd (v : value) : bytes := match spay v with Some p => p | None => [] end.

(* what the String arm of the reader makes of a payload, by the canonical type of the property *)
Definition str_arm_ok (cty : N) (p : bytes) : bool :=
  if N.eqb cty VT_Str then true
  else if N.eqb cty VT_ContentId then utf8_valid p
  else if N.eqb cty VT_BinaryString then true
  else if N.eqb cty VT_Tags then match tags_decode p with Some _ => true | None => false end
  else if N.eqb cty VT_Attributes then match attr_decode p with Ok _ | Err _ => true | _ => false end
  else if N.eqb cty VT_MaterialColors then true
  else false.
Definition normS (cty : N) (p : bytes) : value :=
  if N.eqb cty VT_Str then VString (str_norm p)
  else if N.eqb cty VT_ContentId then VContentId p
  else if N.eqb cty VT_BinaryString then VBinaryString p
  else if N.eqb cty VT_Tags then match tags_decode p with Some ts => VTags ts | None => VBinaryString p end
  else if N.eqb cty VT_Attributes then match attr_decode p with Ok m => VAttributes m | _ => VBinaryString p end
  else match matcol_decode p with Some m => VMaterialColors m | None => VBinaryString p end.

(* the value-range side conditions of the column round trips (BinValuesFacts 1-3), and the pairs
   (wire type, canonical type) the reader has an arm for, as ONE executable predicate per cell (in canonical form) *)
Definition cell_ok0 (wt : wire_type) (cty : N) (v : value) : bool :=
  match wt, v with
  | WString, _ => match spay v with Some p => bstr_ok None p && str_arm_ok cty p | None => false end
  | WBool, VBool _ => N.eqb cty VT_Bool
  | WInt32, VInt32 z => (N.eqb cty VT_Int32 || N.eqb cty VT_Int64) && in_i32 z
  | WInt64, VInt64 z => N.eqb cty VT_Int64 && in_i64 z
  | WFloat32, VFloat32 x => (N.eqb cty VT_Float32 || N.eqb cty VT_Float64) && f32_ok x
  | WFloat64, VFloat64 x => N.eqb cty VT_Float64 && f64_ok x
  | WEnum, VEnum n => N.eqb cty VT_Enum && N.ltb n 4294967296
  | WVector3, VVector3 p => N.eqb cty VT_Vector3 && vec3_ok p
  | WVector2, VVector2 p => N.eqb cty VT_Vector2 && vec2_ok p
  | WColor3, VColor3 r g b => N.eqb cty VT_Color3 && f32_ok r && f32_ok g && f32_ok b
  | WColor3uint8, VColor3uint8 _ _ _ | WColor3uint8, VColor3 _ _ _ => N.eqb cty VT_Color3 || N.eqb cty VT_Color3uint8
  | WUDim, VUDim u => N.eqb cty VT_UDim && udim_ok u
  | WUDim2, VUDim2 x y => N.eqb cty VT_UDim2 && udim_ok x && udim_ok y
  | WRef, VRef _ => N.eqb cty VT_Ref
  | WCFrame, VCFrame cf => N.eqb cty VT_CFrame && cframe_ok cf
  | WBrickColor, VBrickColor n => N.eqb cty VT_BrickColor && N.ltb n 65536 && brick_valid n
  | WRay, VRay o dd => N.eqb cty VT_Ray && vec3_ok o && vec3_ok dd
  | WFaces, VFaces n => N.eqb cty VT_Faces && N.ltb n 64
  | WAxes, VAxes n => N.eqb cty VT_Axes && N.ltb n 8
  | WNumberRange, VNumberRange lo hi => N.eqb cty VT_NumberRange && f32_ok lo && f32_ok hi
  | WRect, VRect lo hi => N.eqb cty VT_Rect && vec2_ok lo && vec2_ok hi
  | WSecurityCapabilities, VSecurityCapabilities n => N.eqb cty VT_SecurityCapabilities && N.ltb n 18446744073709551616
  | WVector3int16, VVector3int16 x y z => N.eqb cty VT_Vector3int16 && in_i16 x && in_i16 y && in_i16 z
  | WNumberSequence, VNumberSequence kps => N.eqb cty VT_NumberSequence && BinValuesFacts3.nseq_ok None kps
  | WColorSequence, VColorSequence kps => N.eqb cty VT_ColorSequence && BinValuesFacts3.cseq_ok None kps
  | WPhysicalProperties, VPhysicalProperties o => N.eqb cty VT_PhysicalProperties && physopt_ok o
  | WOptionalCFrame, VOptionalCFrame o => N.eqb cty VT_OptionalCFrame && BinValuesFacts3.ocf_ok o
  | WFont, VFont f => N.eqb cty VT_Font && BinValuesFacts3.font_ok None f
  | WContent, VContent x => N.eqb cty VT_Content && match x with CUri u => BinValuesFacts3.str_ok None u | _ => true end
  | WUniqueId, VUniqueId i t r => N.eqb cty VT_UniqueId && uid_ok (i, t, r)
  | WSharedString, VSharedString _ => N.eqb cty VT_SharedString      (* and the string is in the SSTR table: [sstr_known] *)
  | _, _ => false
  end.
Definition cell_ok (wt : wire_type) (cty : N) (v : value) : bool := cell_ok0 wt cty (canonv wt v).

(* normB: what the reader returns for an accepted cell *)
Definition normB0 (q : f32 -> N) (rn : N -> N) (wt : wire_type) (cty : N) (v : value) : value :=
  match wt with
  | WString => match spay v with Some p => normS cty p | None => v end
  | _ =>
    match v with
    | VInt32 z => if N.eqb cty VT_Int64 then VInt64 z else v
    | VFloat32 x => if N.eqb cty VT_Float64 then VFloat64 (f64_of_f32 x) else v
    | VColor3 r g b => match wt with WColor3uint8 => VColor3uint8 (q r) (q g) (q b) | _ => v end
    | VRef r => VRef (rn r)
    | VCFrame cf => VCFrame (BinValuesFacts3.norm_cframe cf)
    | VOptionalCFrame o => VOptionalCFrame (BinValuesFacts3.norm_ocf o)
    | VFont f => VFont (BinValuesFacts3.norm_font f)
    | VContent x => VContent (match x with CObject r => CObject (rn r) | _ => x end)
    | _ => v
    end
  end.
Definition normB (q : f32 -> N) (rn : N -> N) (wt : wire_type) (cty : N) (v : value) : value :=
  normB0 q rn wt cty (canonv wt v).

Lemma homog_ok {A} (C : A -> value) (Q : A -> Prop) vs :
  (forall v, In v vs -> exists a, v = C a /\ Q a) -> exists xs, vs = List.map C xs /\ Forall Q xs.
Proof.
  induction vs as [|v vs IH]; intros H; [exists []; split; [reflexivity|constructor]|].
  destruct (H v (or_introl eq_refl)) as (a & -> & Ha). destruct IH as (xs & -> & Hxs); [intros w Hw; apply H; now right|].
  exists (a :: xs). split; [reflexivity|now constructor].
Qed.

Lemma collect_canon {A} (f : value -> res A) (g : value -> value) vs :
  (forall v, f (g v) = f v) -> collect f (List.map g vs) = collect f vs.
Proof. intros H. induction vs as [|v vs IH]; [reflexivity|]. cbn [List.map collect]. now rewrite H, IH. Qed.

Lemma enc_col_canon wt c vs : enc_col wt c (List.map (canonv wt) vs) = enc_col wt c vs.
Proof.
  destruct wt;
    try (rewrite (map_ext_in (canonv _) (fun v => v)), map_id; [reflexivity|intros v _; destruct v; reflexivity]);
    cbn [enc_col]; rewrite collect_canon; try reflexivity; intros v; destruct v; reflexivity.
Qed.

Ltac bsplit := repeat match goal with H : (_ && _)%bool = true |- _ => apply andb_true_iff in H; destruct H end;
               repeat match goal with H : N.ltb _ _ = true |- _ => apply N.ltb_lt in H end.

Section KnownCol.
Variable c : enc_ctx.
Variable dc : dec_ctx.
Hypothesis Hlim : dc_lim dc = None.
Hypothesis Href : forall r, in_i32 (ref_id c r) = true.

Lemma enc_strs vs : (forall v, In v vs -> spay v <> None) ->
  enc_col WString c vs = Ok (flat_map w_bstr (List.map spayd vs)).
Proof.
  intros H. cbn [enc_col].
  match goal with |- rbind (collect ?f vs) _ = _ => assert (E : collect f vs = Ok (List.map (fun v => w_bstr (spayd v)) vs)) end.
  { induction vs as [|v vs IH]; [reflexivity|]. cbn [collect List.map].
    rewrite IH by (intros w Hw; apply H; now right). pose proof (H v (or_introl eq_refl)) as Hv.
    unfold spayd. destruct v; cbn [spay] in *; try congruence; try reflexivity.
    destruct (attr_encode m); try congruence. reflexivity. }
  rewrite E. cbn [rbind]. f_equal. rewrite concat_map_flat_map. clear. induction vs; [reflexivity|]. cbn [flat_map List.map]. congruence.
Qed.

Lemma dec_strs cty ps rest :
  Forall (fun p => bstr_ok (dc_lim dc) p = true /\ str_arm_ok cty p = true) ps -> ps <> [] ->
  dec_col WString cty dc (length ps) (flat_map w_bstr ps ++ rest) = Ok (List.map (normS cty) ps, rest).
Proof.
  intros HF Hne.
  assert (Hb : Forall (fun p => bstr_ok (dc_lim dc) p = true) ps) by (eapply Forall_impl; [|exact HF]; now intros a [Ha _]).
  assert (Hitem : forall a r, bstr_ok (dc_lim dc) a = true -> read_bstr (dc_lim dc) (w_bstr a ++ r) = Ok (a, r)).
  { intros a r Ha. apply bstr_ok_spec in Ha. destruct Ha as [Hl Ha]. now apply read_bstr_app. }
  unfold normS, str_arm_ok in *.
  destruct (N.eqb cty VT_Str) eqn:E1.
  { apply N.eqb_eq in E1. subst cty. rewrite dec_string_as_str by exact Hb. reflexivity. }
  cbn [dec_col]. rewrite E1.
  destruct (N.eqb cty VT_ContentId) eqn:E2.
  { apply (prepeat_roundtrip_map (fun p => bstr_ok (dc_lim dc) p = true /\ utf8_valid p = true) w_bstr VContentId); [|exact HF].
    intros a r [Ha Hu]. unfold pbind, read_str, pbind. rewrite (Hitem a r Ha), Hu. reflexivity. }
  destruct (N.eqb cty VT_BinaryString) eqn:E3.
  { apply (prepeat_roundtrip_map (fun p => bstr_ok (dc_lim dc) p = true) w_bstr VBinaryString); [|exact Hb].
    intros a r Ha. unfold pbind. rewrite (Hitem a r Ha). reflexivity. }
  destruct (N.eqb cty VT_Tags) eqn:E4.
  { apply (prepeat_roundtrip_map (fun p => bstr_ok (dc_lim dc) p = true /\ match tags_decode p with Some _ => true | None => false end = true)
             w_bstr (fun p => match tags_decode p with Some ts => VTags ts | None => VBinaryString p end)); [|exact HF].
    intros a r [Ha Ht]. unfold pbind. rewrite (Hitem a r Ha). destruct (tags_decode a); [reflexivity|discriminate]. }
  destruct (N.eqb cty VT_Attributes) eqn:E5.
  { apply (prepeat_roundtrip_map (fun p => bstr_ok (dc_lim dc) p = true /\ match attr_decode p with Ok _ | Err _ => true | _ => false end = true)
             w_bstr (fun p => match attr_decode p with Ok m => VAttributes m | _ => VBinaryString p end)); [|exact HF].
    intros a r [Ha Ht]. unfold pbind. rewrite (Hitem a r Ha). destruct (attr_decode a); try discriminate; reflexivity. }
  destruct (N.eqb cty VT_MaterialColors) eqn:E6.
  { apply (prepeat_roundtrip_map (fun p => bstr_ok (dc_lim dc) p = true) w_bstr
             (fun p => match matcol_decode p with Some m => VMaterialColors m | None => VBinaryString p end)); [|exact Hb].
    intros a r Ha. unfold pbind. rewrite (Hitem a r Ha). reflexivity. }
  exfalso. destruct ps as [|p0 ps0]; [congruence|]. apply Forall_cons_iff in HF. destruct HF as [[_ H] _]. discriminate.
Qed.
Theorem known_col_roundtrip0 wt cty vs :
  vs <> [] -> N.of_nat (length vs) < 2 ^ 32 -> Forall (fun v => cell_ok0 wt cty v = true) vs ->
  (forall s, In (VSharedString s) vs -> BinValuesFacts3.sstr_ok c dc s = true /\ BinValuesFacts3.sstr_back c dc s = s) ->
  exists b, enc_col wt c vs = Ok b /\
            dec_col wt cty dc (length vs) (b ++ []) =
            Ok (List.map (normB0 (ec_quant c) (fun r => dc_resolve dc (ref_id c r)) wt cty) vs, []).
Proof.
  intros Hne Hn HF Hss. rewrite Forall_forall in HF.
  assert (Hv0 : exists v0, In v0 vs) by (destruct vs; [congruence|eexists; now left]). destruct Hv0 as [v0 Hv0].
  pose proof (HF v0 Hv0) as H0. clear Hne.
  destruct wt; try (exfalso; destruct v0; discriminate H0).
  - (* String-like: String, BinaryString, ContentId, Tags, Attributes, MaterialColors *)
    assert (Hs : forall v, In v vs -> spay v <> None /\ bstr_ok (dc_lim dc) (spayd v) = true /\ str_arm_ok cty (spayd v) = true).
    { intros v Hv. specialize (HF v Hv). cbn [cell_ok0] in HF. unfold spayd. rewrite Hlim.
      destruct (spay v) as [p|]; [|discriminate]. apply andb_true_iff in HF. destruct HF. split; [discriminate|auto]. }
    exists (flat_map w_bstr (List.map spayd vs)). split; [apply enc_strs; intros v Hv; apply (Hs v Hv)|].
    rewrite <- (map_length spayd vs), dec_strs.
    + f_equal. f_equal. rewrite map_map. apply map_ext_in. intros v Hv. destruct (Hs v Hv) as [Hp _]. cbn [normB0]. unfold spayd.
      destruct (spay v); [reflexivity|congruence].
    + apply Forall_forall. intros s Hs'. apply in_map_iff in Hs'. destruct Hs' as (v & <- & Hv). apply (Hs v Hv).
    + destruct vs; [destruct Hv0|discriminate].
  - (* Bool *)
    destruct (homog_ok VBool (fun _ => True) vs) as (xs & -> & _).
    { intros v Hv. specialize (HF v Hv). destruct v; try discriminate HF. eauto. }
    assert (cty = VT_Bool) as -> by (destruct v0; try discriminate H0; now apply N.eqb_eq).
    rewrite map_map, map_length. cbn [normB0]. apply col_roundtrip_bool.
  - (* Int32, also read for an Int64 property *)
    destruct (homog_ok VInt32 (fun z => in_i32 z = true) vs) as (xs & -> & Hxs).
    { intros v Hv. specialize (HF v Hv). destruct v; try discriminate HF. cbn [cell_ok0] in HF. bsplit. eauto. }
    assert (Hc : cty = VT_Int32 \/ cty = VT_Int64).
    { destruct v0; try discriminate H0; cbn [cell_ok0] in H0; bsplit.
      match goal with H : (_ || _)%bool = true |- _ => apply orb_true_iff in H; destruct H as [H|H]; apply N.eqb_eq in H; auto end. }
    rewrite map_map, map_length. cbn [normB0]. destruct Hc as [-> | ->].
    + change (N.eqb VT_Int32 VT_Int64) with false. cbv iota. apply col_roundtrip_int32. exact Hxs.
    + change (N.eqb VT_Int64 VT_Int64) with true. cbv iota. apply col_widen_int32_int64. exact Hxs.
  - (* Float32, also read for a Float64 property *)
    destruct (homog_ok VFloat32 (fun z => f32_ok z = true) vs) as (xs & -> & Hxs).
    { intros v Hv. specialize (HF v Hv). destruct v; try discriminate HF. cbn [cell_ok0] in HF. bsplit. eauto. }
    assert (Hc : cty = VT_Float32 \/ cty = VT_Float64).
    { destruct v0; try discriminate H0; cbn [cell_ok0] in H0; bsplit.
      match goal with H : (_ || _)%bool = true |- _ => apply orb_true_iff in H; destruct H as [H|H]; apply N.eqb_eq in H; auto end. }
    rewrite map_map, map_length. cbn [normB0]. destruct Hc as [-> | ->].
    + change (N.eqb VT_Float32 VT_Float64) with false. cbv iota. apply col_roundtrip_float32. exact Hxs.
    + change (N.eqb VT_Float64 VT_Float64) with true. cbv iota. apply col_widen_float32_float64. exact Hxs.
  - (* Float64 *)
    destruct (homog_ok VFloat64 (fun z => f64_ok z = true) vs) as (xs & -> & Hxs).
    { intros v Hv. specialize (HF v Hv). destruct v; try discriminate HF. cbn [cell_ok0] in HF. bsplit. eauto. }
    assert (cty = VT_Float64) as -> by (destruct v0; try discriminate H0; cbn [cell_ok0] in H0; bsplit; now apply N.eqb_eq).
    rewrite map_map, map_length. cbn [normB0]. apply col_roundtrip_float64. exact Hxs.
  - (* UDim *)
    destruct (homog_ok VUDim (fun u => f32_ok (ud_scale u) = true /\ in_i32 (ud_offset u) = true) vs) as (xs & -> & Hxs).
    { intros v Hv. specialize (HF v Hv). destruct v; try discriminate HF. cbn [cell_ok0] in HF. unfold udim_ok in HF. bsplit. eauto. }
    assert (cty = VT_UDim) as -> by (destruct v0; try discriminate H0; cbn [cell_ok0] in H0; bsplit; now apply N.eqb_eq).
    rewrite map_map, map_length. cbn [normB0]. apply col_roundtrip_udim. exact Hxs.
  - (* UDim2 *)
    destruct (homog_ok (fun p => VUDim2 (fst p) (snd p)) (fun p => udim_ok (fst p) = true /\ udim_ok (snd p) = true) vs) as (xs & -> & Hxs).
    { intros v Hv. specialize (HF v Hv). destruct v; try discriminate HF. cbn [cell_ok0] in HF. bsplit. exists (x, y). auto. }
    assert (cty = VT_UDim2) as -> by (destruct v0; try discriminate H0; cbn [cell_ok0] in H0; bsplit; now apply N.eqb_eq).
    rewrite map_map, map_length. cbn [normB0]. apply col_roundtrip_udim2. exact Hxs.
  - (* Ray *)
    destruct (homog_ok (fun q => VRay (fst q) (snd q)) (fun q => vec3_ok (fst q) = true /\ vec3_ok (snd q) = true) vs) as (xs & -> & Hxs).
    { intros v Hv. specialize (HF v Hv). destruct v; try discriminate HF. cbn [cell_ok0] in HF. bsplit. exists (origin, direction). auto. }
    assert (cty = VT_Ray) as -> by (destruct v0; try discriminate H0; cbn [cell_ok0] in H0; bsplit; now apply N.eqb_eq).
    rewrite map_map, map_length. cbn [normB0]. apply col_roundtrip_ray. exact Hxs.
  - (* Faces *)
    destruct (homog_ok VFaces (fun n => n < 64) vs) as (xs & -> & Hxs).
    { intros v Hv. specialize (HF v Hv). destruct v; try discriminate HF. cbn [cell_ok0] in HF. bsplit. eauto. }
    assert (cty = VT_Faces) as -> by (destruct v0; try discriminate H0; cbn [cell_ok0] in H0; bsplit; now apply N.eqb_eq).
    rewrite map_map, map_length. cbn [normB0]. apply col_roundtrip_faces. exact Hxs.
  - (* Axes *)
    destruct (homog_ok VAxes (fun n => n < 8) vs) as (xs & -> & Hxs).
    { intros v Hv. specialize (HF v Hv). destruct v; try discriminate HF. cbn [cell_ok0] in HF. bsplit. eauto. }
    assert (cty = VT_Axes) as -> by (destruct v0; try discriminate H0; cbn [cell_ok0] in H0; bsplit; now apply N.eqb_eq).
    rewrite map_map, map_length. cbn [normB0]. apply col_roundtrip_axes. exact Hxs.
  - (* BrickColor *)
    destruct (homog_ok VBrickColor (fun n => n < 65536 /\ brick_valid n = true) vs) as (xs & -> & Hxs).
    { intros v Hv. specialize (HF v Hv). destruct v; try discriminate HF. cbn [cell_ok0] in HF. bsplit. eauto. }
    assert (cty = VT_BrickColor) as -> by (destruct v0; try discriminate H0; cbn [cell_ok0] in H0; bsplit; now apply N.eqb_eq).
    rewrite map_map, map_length. cbn [normB0]. apply col_roundtrip_brickcolor. exact Hxs.
  - (* Color3 *)
    destruct (homog_ok (fun p => VColor3 (fst (fst p)) (snd (fst p)) (snd p))
                (fun p => f32_ok (fst (fst p)) = true /\ f32_ok (snd (fst p)) = true /\ f32_ok (snd p) = true) vs) as (xs & -> & Hxs).
    { intros v Hv. specialize (HF v Hv). destruct v; try discriminate HF. cbn [cell_ok0] in HF. bsplit. exists (r, g, b). auto. }
    assert (cty = VT_Color3) as -> by (destruct v0; try discriminate H0; cbn [cell_ok0] in H0; bsplit; now apply N.eqb_eq).
    rewrite map_map, map_length. cbn [normB0]. apply col_roundtrip_color3. exact Hxs.
  - (* Vector2 *)
    destruct (homog_ok VVector2 (fun z => vec2_ok z = true) vs) as (xs & -> & Hxs).
    { intros v Hv. specialize (HF v Hv). destruct v; try discriminate HF. cbn [cell_ok0] in HF. bsplit. eauto. }
    assert (cty = VT_Vector2) as -> by (destruct v0; try discriminate H0; cbn [cell_ok0] in H0; bsplit; now apply N.eqb_eq).
    rewrite map_map, map_length. cbn [normB0]. apply col_roundtrip_vector2. exact Hxs.
  - (* Vector3 *)
    destruct (homog_ok VVector3 (fun z => vec3_ok z = true) vs) as (xs & -> & Hxs).
    { intros v Hv. specialize (HF v Hv). destruct v; try discriminate HF. cbn [cell_ok0] in HF. bsplit. eauto. }
    assert (cty = VT_Vector3) as -> by (destruct v0; try discriminate H0; cbn [cell_ok0] in H0; bsplit; now apply N.eqb_eq).
    rewrite map_map, map_length. cbn [normB0]. apply col_roundtrip_vector3. exact Hxs.
  - (* CFrame *)
    destruct (homog_ok VCFrame (fun z => cframe_ok z = true) vs) as (xs & -> & Hxs).
    { intros v Hv. specialize (HF v Hv). destruct v; try discriminate HF. cbn [cell_ok0] in HF. bsplit. eauto. }
    assert (cty = VT_CFrame) as -> by (destruct v0; try discriminate H0; cbn [cell_ok0] in H0; bsplit; now apply N.eqb_eq).
    rewrite map_map, map_length. cbn [normB0]. apply BinValuesFacts3.col_roundtrip_cframe. exact Hxs.
  - (* Enum *)
    destruct (homog_ok VEnum (fun n => n < 2 ^ 32) vs) as (xs & -> & Hxs).
    { intros v Hv. specialize (HF v Hv). destruct v; try discriminate HF. cbn [cell_ok0] in HF. bsplit. eauto. }
    assert (cty = VT_Enum) as -> by (destruct v0; try discriminate H0; cbn [cell_ok0] in H0; bsplit; now apply N.eqb_eq).
    rewrite map_map, map_length. cbn [normB0]. apply col_roundtrip_enum. exact Hxs.
  - (* Ref *)
    destruct (homog_ok VRef (fun _ => True) vs) as (xs & -> & _).
    { intros v Hv. specialize (HF v Hv). destruct v; try discriminate HF. eauto. }
    assert (cty = VT_Ref) as -> by (destruct v0; try discriminate H0; now apply N.eqb_eq).
    rewrite map_map, map_length. cbn [normB0]. apply col_roundtrip_ref. apply Forall_forall. intros r _. apply Href.
  - (* Vector3int16 *)
    destruct (homog_ok (fun q => VVector3int16 (fst (fst q)) (snd (fst q)) (snd q)) (fun q => v3i16_ok q = true) vs) as (xs & -> & Hxs).
    { intros v Hv. specialize (HF v Hv). destruct v; try discriminate HF. cbn [cell_ok0] in HF. bsplit. exists (x, y, z). split; [reflexivity|]. unfold v3i16_ok. cbn [fst snd]. now rewrite H1, H2, H3. }
    assert (cty = VT_Vector3int16) as -> by (destruct v0; try discriminate H0; cbn [cell_ok0] in H0; bsplit; now apply N.eqb_eq).
    rewrite map_map, map_length. cbn [normB0]. apply col_roundtrip_vector3int16. exact Hxs.
  - (* NumberSequence *)
    destruct (homog_ok VNumberSequence (fun q => BinValuesFacts3.nseq_ok (dc_lim dc) q = true) vs) as (xs & -> & Hxs).
    { intros v Hv. specialize (HF v Hv). destruct v; try discriminate HF. cbn [cell_ok0] in HF. rewrite Hlim. bsplit. eauto. }
    assert (cty = VT_NumberSequence) as -> by (destruct v0; try discriminate H0; cbn [cell_ok0] in H0; bsplit; now apply N.eqb_eq).
    rewrite map_map, map_length. cbn [normB0]. apply BinValuesFacts3.col_roundtrip_numbersequence. exact Hxs.
  - (* ColorSequence *)
    destruct (homog_ok VColorSequence (fun q => BinValuesFacts3.cseq_ok (dc_lim dc) q = true) vs) as (xs & -> & Hxs).
    { intros v Hv. specialize (HF v Hv). destruct v; try discriminate HF. cbn [cell_ok0] in HF. rewrite Hlim. bsplit. eauto. }
    assert (cty = VT_ColorSequence) as -> by (destruct v0; try discriminate H0; cbn [cell_ok0] in H0; bsplit; now apply N.eqb_eq).
    rewrite map_map, map_length. cbn [normB0]. apply BinValuesFacts3.col_roundtrip_colorsequence. exact Hxs.
  - (* NumberRange *)
    destruct (homog_ok (fun q => VNumberRange (fst q) (snd q)) (fun q => f32_ok (fst q) = true /\ f32_ok (snd q) = true) vs) as (xs & -> & Hxs).
    { intros v Hv. specialize (HF v Hv). destruct v; try discriminate HF. cbn [cell_ok0] in HF. bsplit. exists (lo, hi). auto. }
    assert (cty = VT_NumberRange) as -> by (destruct v0; try discriminate H0; cbn [cell_ok0] in H0; bsplit; now apply N.eqb_eq).
    rewrite map_map, map_length. cbn [normB0]. apply col_roundtrip_numberrange. exact Hxs.
  - (* Rect *)
    destruct (homog_ok (fun q => VRect (fst q) (snd q)) (fun q => vec2_ok (fst q) = true /\ vec2_ok (snd q) = true) vs) as (xs & -> & Hxs).
    { intros v Hv. specialize (HF v Hv). destruct v; try discriminate HF. cbn [cell_ok0] in HF. bsplit. exists (lo, hi). auto. }
    assert (cty = VT_Rect) as -> by (destruct v0; try discriminate H0; cbn [cell_ok0] in H0; bsplit; now apply N.eqb_eq).
    rewrite map_map, map_length. cbn [normB0]. apply col_roundtrip_rect. exact Hxs.
  - (* PhysicalProperties *)
    destruct (homog_ok VPhysicalProperties (fun q => physopt_ok q = true) vs) as (xs & -> & Hxs).
    { intros v Hv. specialize (HF v Hv). destruct v; try discriminate HF. cbn [cell_ok0] in HF. bsplit. eauto. }
    assert (cty = VT_PhysicalProperties) as -> by (destruct v0; try discriminate H0; cbn [cell_ok0] in H0; bsplit; now apply N.eqb_eq).
    rewrite map_map, map_length. cbn [normB0]. apply col_roundtrip_physicalproperties. exact Hxs.
  - (* Color3uint8, also Color3 values (quantised) *)
    destruct (homog_ok c3_value (fun _ => True) vs) as (xs & -> & _).
    { intros v Hv. specialize (HF v Hv). destruct v; try discriminate HF; [exists (C3f r g b)|exists (C3u r g b)]; auto. }
    assert (Hc : cty = VT_Color3 \/ cty = VT_Color3uint8).
    { destruct v0; try discriminate H0; cbn [cell_ok0] in H0; apply orb_true_iff in H0; destruct H0 as [H0|H0]; apply N.eqb_eq in H0; auto. }
    rewrite map_map, map_length.
    destruct (col_roundtrip_color3uint8_mixed c dc cty xs [] Hc) as (b & Hb1 & Hb2). exists b. split; [exact Hb1|]. rewrite Hb2.
    f_equal. f_equal. apply map_ext. intros [r g b0|r g b0]; reflexivity.
  - (* Int64 *)
    destruct (homog_ok VInt64 (fun z => in_i64 z = true) vs) as (xs & -> & Hxs).
    { intros v Hv. specialize (HF v Hv). destruct v; try discriminate HF. cbn [cell_ok0] in HF. bsplit. eauto. }
    assert (cty = VT_Int64) as -> by (destruct v0; try discriminate H0; cbn [cell_ok0] in H0; bsplit; now apply N.eqb_eq).
    rewrite map_map, map_length. cbn [normB0]. apply col_roundtrip_int64. exact Hxs.
  - (* SharedString: the index in the writer's table, looked up in the reader's *)
    destruct (homog_ok VSharedString (fun q => BinValuesFacts3.sstr_ok c dc q = true /\ BinValuesFacts3.sstr_back c dc q = q) vs) as (xs & -> & Hxs).
    { intros v Hv. pose proof (HF v Hv) as Hc. destruct v; try discriminate Hc. eexists. split; [reflexivity|]. now apply Hss. }
    assert (cty = VT_SharedString) as -> by (destruct v0; try discriminate H0; now apply N.eqb_eq).
    rewrite map_map, map_length. cbn [normB0].
    destruct (BinValuesFacts3.col_roundtrip_sharedstring c dc xs []) as (b & Hb1 & Hb2).
    { eapply Forall_impl; [|exact Hxs]. now intros a [Ha _]. }
    exists b. split; [exact Hb1|]. rewrite Hb2. f_equal. f_equal. apply map_ext_in. intros a Ha. rewrite Forall_forall in Hxs.
    now rewrite (proj2 (Hxs a Ha)).
  - (* OptionalCFrame *)
    destruct (homog_ok VOptionalCFrame (fun q => BinValuesFacts3.ocf_ok q = true) vs) as (xs & -> & Hxs).
    { intros v Hv. specialize (HF v Hv). destruct v; try discriminate HF. cbn [cell_ok0] in HF. bsplit. eauto. }
    assert (cty = VT_OptionalCFrame) as -> by (destruct v0; try discriminate H0; cbn [cell_ok0] in H0; bsplit; now apply N.eqb_eq).
    rewrite map_map, map_length. cbn [normB0]. apply BinValuesFacts3.col_roundtrip_optionalcframe. exact Hxs.
  - (* UniqueId *)
    destruct (homog_ok (fun q => VUniqueId (fst (fst q)) (snd (fst q)) (snd q)) (fun q => uid_ok q = true) vs) as (xs & -> & Hxs).
    { intros v Hv. specialize (HF v Hv). destruct v; try discriminate HF. cbn [cell_ok0] in HF. apply andb_true_iff in HF. destruct HF as [_ HF].
      exists (index, time, random). auto. }
    assert (cty = VT_UniqueId) as -> by (destruct v0; try discriminate H0; cbn [cell_ok0] in H0; apply andb_true_iff in H0; destruct H0 as [H0 _]; now apply N.eqb_eq).
    rewrite map_map, map_length. cbn [normB0]. apply col_roundtrip_uniqueid. exact Hxs.
  - (* Font *)
    destruct (homog_ok VFont (fun q => BinValuesFacts3.font_ok (dc_lim dc) q = true) vs) as (xs & -> & Hxs).
    { intros v Hv. specialize (HF v Hv). destruct v; try discriminate HF. cbn [cell_ok0] in HF. rewrite Hlim. bsplit. eauto. }
    assert (cty = VT_Font) as -> by (destruct v0; try discriminate H0; cbn [cell_ok0] in H0; bsplit; now apply N.eqb_eq).
    rewrite map_map, map_length. cbn [normB0]. apply BinValuesFacts3.col_roundtrip_font. exact Hxs.
  - (* SecurityCapabilities *)
    destruct (homog_ok VSecurityCapabilities (fun n => n < 2 ^ 64) vs) as (xs & -> & Hxs).
    { intros v Hv. specialize (HF v Hv). destruct v; try discriminate HF. cbn [cell_ok0] in HF. bsplit. eauto. }
    assert (cty = VT_SecurityCapabilities) as -> by (destruct v0; try discriminate H0; cbn [cell_ok0] in H0; bsplit; now apply N.eqb_eq).
    rewrite map_map, map_length. cbn [normB0]. apply col_roundtrip_seccap. exact Hxs.
  - (* Content *)
    destruct (homog_ok VContent (fun q => BinValuesFacts3.content_ok c dc q = true) vs) as (xs & -> & Hxs).
    { intros v Hv. specialize (HF v Hv). destruct v; try discriminate HF. cbn [cell_ok0] in HF. bsplit. eexists. split; [reflexivity|].
      unfold BinValuesFacts3.content_ok. rewrite Hlim. destruct c0; auto. }
    assert (cty = VT_Content) as -> by (destruct v0; try discriminate H0; cbn [cell_ok0] in H0; bsplit; now apply N.eqb_eq).
    rewrite map_length in Hn. rewrite map_map, map_length. cbn [normB0].
    destruct (BinValuesFacts3.col_roundtrip_content c dc xs [] Hn) as (b & Hb1 & Hb2); [rewrite Hlim; reflexivity|rewrite Hlim; reflexivity|exact Hxs|].
    exists b. split; [exact Hb1|]. rewrite Hb2. first [reflexivity | f_equal; f_equal; apply map_ext; intros [|u|r]; reflexivity].
Qed.

Lemma canonv_idem wt v : canonv wt (canonv wt v) = canonv wt v.
Proof. destruct wt, v; reflexivity. Qed.

(* the column law for every column of accepted cells *)
Theorem known_col_roundtrip wt cty vs :
  vs <> [] -> N.of_nat (length vs) < 2 ^ 32 -> Forall (fun v => cell_ok wt cty v = true) vs ->
  (forall s, In (VSharedString s) vs -> BinValuesFacts3.sstr_ok c dc s = true /\ BinValuesFacts3.sstr_back c dc s = s) ->
  exists b, enc_col wt c vs = Ok b /\
            dec_col wt cty dc (length vs) (b ++ []) =
            Ok (List.map (normB (ec_quant c) (fun r => dc_resolve dc (ref_id c r)) wt cty) vs, []).
Proof.
  intros Hne Hn HF Hss.
  destruct (known_col_roundtrip0 wt cty (List.map (canonv wt) vs)) as (b & Hb1 & Hb2).
  - destruct vs; [congruence|discriminate].
  - now rewrite map_length.
  - apply Forall_forall. intros v Hv. apply in_map_iff in Hv. destruct Hv as (w & <- & Hw). rewrite Forall_forall in HF. exact (HF w Hw).
  - intros s Hs. apply Hss. apply in_map_iff in Hs. destruct Hs as (w & E & Hw).
    assert (w = VSharedString s) by (destruct wt, w; try discriminate E; auto). now subst w.
  - exists b. rewrite enc_col_canon in Hb1. split; [exact Hb1|]. rewrite map_length, map_map in Hb2. exact Hb2.
Qed.
End KnownCol.

(* ---- normB, named per kind of cell ---- *)
Lemma normB_widen_int q rn cty z : normB q rn WInt64 cty (VInt32 z) = VInt64 z.
Proof. reflexivity. Qed.
Lemma normB_widen_float q rn cty x : normB q rn WFloat64 cty (VFloat32 x) = VFloat64 (f64_of_f32 x).
Proof. reflexivity. Qed.
Lemma normB_int32_for_int64 q rn z : normB q rn WInt32 VT_Int64 (VInt32 z) = VInt64 z.
Proof. reflexivity. Qed.
Lemma normB_float32_for_float64 q rn x : normB q rn WFloat32 VT_Float64 (VFloat32 x) = VFloat64 (f64_of_f32 x).
Proof. reflexivity. Qed.
Lemma normB_enumitem q rn cty t n : normB q rn WEnum cty (VEnumItem t n) = VEnum n.
Proof. reflexivity. Qed.
Lemma normB_int_brickcolor q rn cty z : normB q rn WBrickColor cty (VInt32 z) = VBrickColor (wrap_u 32 z).
Proof. reflexivity. Qed.
Lemma normB_font q rn cty f : normB q rn WFont cty (VFont f) = VFont (BinValuesFacts3.norm_font f).
Proof. reflexivity. Qed.
Lemma normB_optionalcframe q rn cty o : normB q rn WOptionalCFrame cty (VOptionalCFrame o) = VOptionalCFrame (BinValuesFacts3.norm_ocf o).
Proof. reflexivity. Qed.
Lemma normB_string q rn s : normB q rn WString VT_Str (VString s) = VString (str_norm s).
Proof. reflexivity. Qed.
Lemma normB_string_valid q rn s : utf8_valid s = true -> normB q rn WString VT_Str (VString s) = VString s.
Proof. intros H. rewrite normB_string. now rewrite str_norm_valid. Qed.
(* Attributes (serialized through a BinaryString-typed name, read for a property declared Attributes): AttrFacts.norm *)
Lemma normB_attributes q rn m b : wf_amap m = true -> attr_encode m = Ok b ->
  normB q rn WString VT_Attributes (VAttributes m) = VAttributes (norm m).
Proof.
  intros Hwf Henc. unfold normB, normB0. cbn [canonv spay]. rewrite Henc. unfold normS.
  change (N.eqb VT_Attributes VT_Str) with false. change (N.eqb VT_Attributes VT_ContentId) with false.
  change (N.eqb VT_Attributes VT_BinaryString) with false. change (N.eqb VT_Attributes VT_Tags) with false.
  change (N.eqb VT_Attributes VT_Attributes) with true. cbv iota. now rewrite (attr_roundtrip m b Hwf Henc).
Qed.
Lemma cell_ok_attributes m b : wf_amap m = true -> attr_encode m = Ok b -> bstr_ok None b = true ->
  cell_ok WString VT_Attributes (VAttributes m) = true.
Proof.
  intros Hwf Henc Hb. unfold cell_ok. cbn [canonv cell_ok0 spay]. rewrite Henc, Hb. cbn [andb]. unfold str_arm_ok.
  change (N.eqb VT_Attributes VT_Str) with false. change (N.eqb VT_Attributes VT_ContentId) with false.
  change (N.eqb VT_Attributes VT_BinaryString) with false. change (N.eqb VT_Attributes VT_Tags) with false.
  change (N.eqb VT_Attributes VT_Attributes) with true. cbv iota. now rewrite (attr_roundtrip m b Hwf Henc).
Qed.


(* ========================================================================================== *)
(* G3, part 2: every cell of every planned column meets the column law's side conditions        *)
(* ========================================================================================== *)
(* ONE executable predicate on a (name, value) pair of an instance of [class]: the value written for it (after the
   spelling's own migration) and the default of its column are cells the reader has an arm for, in range; the reader's
   find_canonical_property maps the serialized name back to the canonical name, without migration; the serialized
   name is a short UTF-8 string other than "Name" *)
Definition pair_cells_ok (d : db) (ep : enc_params) (class : bytes) (pv : bytes * value) : bool :=
  match resolve_prop d class (fst pv) (snd pv) with
  | Ok RSkip => true
  | Ok (RProp c s ty m) =>
      if bytes_eqb c NAME then match m with None => true | Some _ => false end
      else
      match col_plan d (get_class d (string_of_bytes class)) c ty with
      | Ok (dv, wt) =>
          match find_canonical_property d wt class s with
          | Ok (Some (c', cty, None)) =>
              bytes_eqb c' c && cell_ok wt cty (migv ep m (snd pv)) && cell_ok wt cty dv &&
              match m with Some op => negb (type_accepts wt (mig_in op)) | None => true end &&
              utf8_valid s && N.ltb (N.of_nat (length s)) 4294967296 && negb (bytes_eqb s NAME)
          | _ => false
          end
      | _ => false
      end
  | _ => false
  end.

Lemma cell_ok_val wt cty v : cell_ok wt cty v = true -> val_accepts wt v = true.
Proof.
  unfold cell_ok, val_accepts. destruct wt, v; cbn [canonv cell_ok0 spay col_accepts]; try discriminate; try reflexivity.
  destruct (attr_encode m); try discriminate; reflexivity.
Qed.

Lemma pair_cells_pair_ok d ep class pv : pair_cells_ok d ep class pv = true -> pair_ok d ep class pv = true.
Proof.
  unfold pair_cells_ok, pair_ok. destruct (resolve_prop d class (fst pv) (snd pv)) as [[|c s ty m]| | |]; try discriminate; [reflexivity|].
  destruct (bytes_eqb c NAME); [reflexivity|]. cbn [orb].
  destruct (col_plan d (get_class d (string_of_bytes class)) c ty) as [[dv wt]| | |]; try discriminate.
  destruct (find_canonical_property d wt class s) as [[[[c' cty] [mg|]]|]| | |]; try discriminate.
  intros H. repeat (apply andb_true_iff in H; destruct H as [H ?]). eapply cell_ok_val; eauto.
Qed.

Lemma migrate_in ft bt op v y : migrate ft bt op v = Some y -> vtype v = mig_in op.
Proof. destruct op, v; cbn [migrate]; try discriminate; reflexivity. Qed.

Section Cells.
Variables (d : db) (class : bytes) (cls : option cdesc) (All : list (bytes * value)).
Hypothesis SA : spellings_agree d class All.
Hypothesis MA : migrations_agree d class All.
Variable p : enc_params.
Hypothesis Hcls : cls = get_class d (string_of_bytes class).
Hypothesis Hgood : class_good d class.

Theorem planned_cell_ok (seen : bytes * value -> Prop) st canon pi ord i :
  pinv d class cls seen st -> props_alias_inv d class (ps_props st) ->
  (forall x, seen x -> In x All) -> (forall x, seen x -> pair_cells_ok d p class x = true) ->
  bfind canon (ps_props st) = Some pi -> canon <> NAME -> incl ord (pi_aliases pi) ->
  (forall x, In x (i_props i) -> seen x) ->
  exists cty, find_canonical_property d (pi_type pi) class (pi_ser_name pi) = Ok (Some (canon, cty, None)) /\
    cell_ok (pi_type pi) cty (prop_value p canon pi ord i) = true /\
    utf8_valid (pi_ser_name pi) = true /\ N.of_nat (length (pi_ser_name pi)) < 2 ^ 32 /\ pi_ser_name pi <> NAME /\
    (forall n v s ty m, In (n, v) (i_props i) -> resolve_prop d class n v = Ok (RProp canon s ty m) ->
       migv p (pi_migration pi) v = migv p m v).
Proof.
  intros [Ivis Icol Imk Iname Imig Idss Ivss Ires Iser] Hal Hall Hok Hf Hc Hord Hi.
  assert (TA : types_agree d class All) by now apply spellings_types_agree.
  assert (En : bytes_eqb canon NAME = false) by now apply bytes_eqb_neq.
  destruct (Imk canon pi Hf Hc) as (n0 & v0 & s0 & ty0 & m0 & S0 & R0 & CP0). rewrite Hcls in CP0.
  (* what the check says of a seen pair that names this column *)
  assert (K : forall n v s ty m, seen (n, v) -> resolve_prop d class n v = Ok (RProp canon s ty m) ->
              s = pi_ser_name pi /\ ty = ty0 /\
              exists cty, find_canonical_property d (pi_type pi) class (pi_ser_name pi) = Ok (Some (canon, cty, None)) /\
                cell_ok (pi_type pi) cty (migv p m v) = true /\ cell_ok (pi_type pi) cty (pi_default pi) = true /\
                (forall op, m = Some op -> type_accepts (pi_type pi) (mig_in op) = false) /\
                utf8_valid (pi_ser_name pi) = true /\ N.of_nat (length (pi_ser_name pi)) < 2 ^ 32 /\ pi_ser_name pi <> NAME).
  { intros n v s ty m Hs Hr.
    destruct (Iser canon pi Hf Hc) as (n1 & v1 & ty1 & m1 & S1 & R1).
    destruct (SA n v n1 v1 canon s ty m (pi_ser_name pi) ty1 m1 (Hall _ Hs) (Hall _ S1) Hr R1) as [-> _].
    assert (ty = ty0) by (apply (TA n v n0 v0 canon (pi_ser_name pi) ty m s0 ty0 m0); auto). subst ty.
    split; [reflexivity|]. split; [reflexivity|].
    pose proof (Hok _ Hs) as Hp. unfold pair_cells_ok in Hp. cbn [fst snd] in Hp. rewrite Hr, En, CP0 in Hp.
    destruct (find_canonical_property d (pi_type pi) class (pi_ser_name pi)) as [[[[c' cty] [mg|]]|]| | |]; try discriminate.
    repeat (apply andb_true_iff in Hp; let H := fresh "Hq" in destruct Hp as [Hp H]).
    apply bytes_eqb_eq in Hp. subst c'. exists cty. split; [reflexivity|]. split; [assumption|]. split; [assumption|].
    split; [|split; [assumption|split; [now apply N.ltb_lt|apply bytes_eqb_false_neq; now apply negb_true_iff]]].
    intros op ->. now apply negb_true_iff. }
  destruct (K n0 v0 s0 ty0 m0 S0 R0) as (_ & _ & cty & Hfc & _ & Hdv & _ & Hu & Hl & Hnn).
  exists cty. split; [exact Hfc|]. cut (cell_ok (pi_type pi) cty (prop_value p canon pi ord i) = true /\
    (forall n v s ty m, In (n, v) (i_props i) -> resolve_prop d class n v = Ok (RProp canon s ty m) ->
       migv p (pi_migration pi) v = migv p m v)); [intros [X Y]; auto 10|].
  assert (Kc : forall n v s ty m, seen (n, v) -> resolve_prop d class n v = Ok (RProp canon s ty m) ->
               cell_ok (pi_type pi) cty (migv p m v) = true /\ (forall op, m = Some op -> type_accepts (pi_type pi) (mig_in op) = false)).
  { intros n v s ty m Hs Hr. destruct (K n v s ty m Hs Hr) as (_ & _ & cty' & Hfc' & H1 & _ & H2 & _).
    rewrite Hfc in Hfc'. injection Hfc' as <-. auto. }
  split; cycle 1.
  { intros n v s ty m Hin Hr. pose proof (Hi _ Hin) as Hs. destruct (Kc n v s ty m Hs Hr) as [Hcell _].
    destruct (pi_migration pi) as [op|] eqn:EM.
    - destruct (Imig canon pi op Hf EM) as (n2 & v2 & s2 & ty2 & S2 & R2).
      destruct (Kc n2 v2 s2 ty2 (Some op) S2 R2) as [_ Hmi]. specialize (Hmi op eq_refl).
      destruct m as [op'|].
      + assert (op' = op) by (apply (proj1 (MA n v n2 v2 canon s ty (Some op') s2 ty2 (Some op) (Hall _ Hs) (Hall _ S2) Hr R2)); reflexivity).
        now subst op'.
      + cbn [migv] in Hcell |- *. destruct (migrate (ep_font p) (ep_brick p) op v) as [y|] eqn:Em; [|reflexivity]. exfalso.
        apply migrate_in in Em. apply cell_ok_val, val_accepts_type in Hcell. rewrite Em in Hcell. congruence.
    - destruct m as [op'|]; [|reflexivity]. exfalso.
      destruct (Icol n v canon s ty (Some op') Hs Hr) as (pi' & Hf' & Hm' & _). rewrite Hf in Hf'. injection Hf' as <-.
      apply Hm'; [discriminate|exact EM]. }
  destruct (prop_value_cases p canon pi ord i En) as (raw & -> & Hraw).
  assert (Hown : forall n, (n = canon \/ In n ord) -> In (n, raw) (i_props i) ->
                 exists s m, seen (n, raw) /\ resolve_prop d class n raw = Ok (RProp canon s ty0 m)).
  { intros n Hn Hin. pose proof (Hi _ Hin) as Hs.
    assert (Hres : exists s ty m, resolve_prop d class n raw = Ok (RProp canon s ty m)).
    { destruct Hn as [-> |Hn].
      - exact (cg_self d class Hgood n0 v0 canon s0 ty0 m0 raw R0).
      - destruct (Hal canon pi n (bfind_in _ _ _ Hf) (Hord _ Hn)) as (v & s & t & m & Hr).
        destruct (resolve_value_indep d class n v raw) as [E|[E1 E2]].
        + rewrite <- E. eauto.
        + rewrite Hr in E1. injection E1 as -> _ _ _. eauto. }
    destruct Hres as (s & ty & m & Hr). exists s, m. split; [exact Hs|].
    assert (ty = ty0) by (apply (TA n raw n0 v0 canon s ty m s0 ty0 m0); auto). now subst ty. }
  unfold migv at 1. destruct (pi_migration pi) as [op|] eqn:EM.
  - destruct (Imig canon pi op Hf EM) as (n2 & v2 & s2 & ty2 & S2 & R2).
    destruct (Kc n2 v2 s2 ty2 (Some op) S2 R2) as [_ Hmi]. specialize (Hmi op eq_refl).
    assert (Hno : forall v, cell_ok (pi_type pi) cty v = true -> migrate (ep_font p) (ep_brick p) op v = None).
    { intros v Hv. destruct (migrate (ep_font p) (ep_brick p) op v) as [y|] eqn:Em; [|reflexivity]. exfalso.
      apply migrate_in in Em. apply cell_ok_val, val_accepts_type in Hv. rewrite Em in Hv. congruence. }
    destruct Hraw as [-> |(n & Hn & Hin)].
    + now rewrite (Hno _ Hdv).
    + destruct (Hown n Hn Hin) as (s & m & Hs & Hr). destruct (Kc n raw s ty0 m Hs Hr) as [Hcell _].
      destruct m as [op'|].
      * assert (op' = op) by (apply (proj1 (MA n raw n2 v2 canon s ty0 (Some op') s2 ty2 (Some op) (Hall _ Hs) (Hall _ S2) Hr R2)); reflexivity).
        subst op'. exact Hcell.
      * cbn [migv] in Hcell. now rewrite (Hno _ Hcell).
  - destruct Hraw as [-> |(n & Hn & Hin)]; [exact Hdv|].
    destruct (Hown n Hn Hin) as (s & m & Hs & Hr). destruct (Kc n raw s ty0 m Hs Hr) as [Hcell _].
    destruct m as [op'|]; [|exact Hcell].
    destruct (Icol n raw canon s ty0 (Some op') Hs Hr) as (pi' & Hf' & Hm' & _). rewrite Hf in Hf'. injection Hf' as <-.
    exfalso. apply Hm'; [discriminate|exact EM].
Qed.
End Cells.

(* ========================================================================================== *)
(* G3, part 3: the whole DOM                                                                    *)
(* ========================================================================================== *)
Definition dom_values_ok (d : db) (ep : enc_params) (dom : cdom) : bool :=
  forallb (fun i => forallb (pair_cells_ok d ep (i_class i)) (i_props i)) dom.
Definition dom_spellings_agree (d : db) (dom : cdom) : Prop :=
  forall cn, spellings_agree d cn (class_pairs dom cn) /\ migrations_agree d cn (class_pairs dom cn).

Lemma dom_spellings_types d dom : dom_spellings_agree d dom -> dom_types_agree d dom.
Proof. intros H cn. destruct (H cn) as [S M]. split; [now apply spellings_types_agree|exact M]. Qed.

Lemma dom_values_inst_ok d ep dom : dom_values_ok d ep dom = true -> forall i, In i dom -> inst_ok d ep i = true.
Proof.
  intros H i Hi. unfold dom_values_ok in H. rewrite forallb_forall in H. specialize (H i Hi). unfold inst_ok.
  rewrite forallb_forall in H |- *. intros x Hx. apply pair_cells_pair_ok. auto.
Qed.

(* every column other than Name: the reader's back-lookup of the serialized name, the cells, the serialized name *)
Theorem known_columns_cells d ep dom ts st :
  enc_ready d ep dom ts -> dom_spellings_agree d dom -> (forall i, In i dom -> class_good d (i_class i)) ->
  dom_values_ok d ep dom = true ->
  add_instances d ep dom (List.map root ts) = Ok st ->
  forall cn ti canon pi, In (cn, ti) (ss_types st) -> In (canon, pi) (ti_props ti) ->
    (canon <> NAME ->
     exists cty, find_canonical_property d (pi_type pi) cn (pi_ser_name pi) = Ok (Some (canon, cty, None)) /\
       (forall r i, In r (ti_instances ti) -> find_inst dom r = Some i ->
          cell_ok (pi_type pi) cty (prop_value ep canon pi (ep_order ep (pi_aliases pi)) i) = true /\
          (forall n v s ty m, In (n, v) (i_props i) -> resolve_prop d cn n v = Ok (RProp canon s ty m) ->
             migv ep (pi_migration pi) v = migv ep m v)) /\
       utf8_valid (pi_ser_name pi) = true /\ N.of_nat (length (pi_ser_name pi)) < 2 ^ 32 /\ pi_ser_name pi <> NAME) /\
    (canon = NAME -> pi_migration pi = None).
Proof.
  intros Hr HS Hgood Hvals Hst cn ti canon pi Hct Hcp.
  pose proof (dom_spellings_types d dom HS) as HA. pose proof (dom_values_inst_ok d ep dom Hvals) as Hok.
  destruct (add_instances_total d ep dom ts Hr HA Hok) as (st' & st0 & Hadd & Hrel & Hndr & Hinv & Hg0 & Hty & Hperm).
  rewrite Hst in Hadd. injection Hadd as <-.
  assert (Hb : bfind cn (ss_types st0) = Some ti).
  { rewrite <- Hty. apply in_bfind; [|exact Hct]. apply sorted_NoDup. exact (inv_sorted _ _ Hinv). }
  destruct (proj1 Hg0 cn ti Hb) as (C0 & A0 & M0 & P0 & S0).
  assert (Hbp : bfind canon (ti_props ti) = Some pi) by (apply in_bfind; [apply sorted_NoDup; exact S0|exact Hcp]).
  destruct (HS cn) as [SA MA].
  assert (Hseen : forall x, seen_of dom (ti_instances ti) x -> In x (class_pairs dom cn) /\ pair_cells_ok d ep cn x = true).
  { intros x (r' & j & Hr' & Hj & Hx). pose proof (BinTypeInfoFacts.find_inst_in _ _ _ Hj) as Hjd. pose proof (M0 r' j Hr' Hj) as Hc. split.
    - eapply in_class_pairs; eauto.
    - unfold dom_values_ok in Hvals. rewrite forallb_forall in Hvals. specialize (Hvals j Hjd). rewrite forallb_forall in Hvals.
      rewrite <- Hc. auto. }
  (* the class has an instance *)
  destruct (ti_instances ti) as [|r0 rs0] eqn:Eti; [now destruct (inv_nonempty _ _ Hinv cn ti Hct)|].
  assert (Hr0 : In r0 (ti_instances ti)) by (rewrite Eti; now left). rewrite <- Eti in *.
  assert (Hrel0 : In r0 (ss_relevant st)).
  { rewrite (inv_insts _ _ Hinv cn ti Hct) in Hr0. apply filter_In in Hr0. tauto. }
  destruct (find_inst dom r0) as [i0|] eqn:Hfi0; [|now destruct (inv_found _ _ Hinv r0 Hrel0)].
  assert (Hgcn : class_good d cn).
  { rewrite <- (M0 r0 i0 Hr0 Hfi0). apply Hgood. eapply BinTypeInfoFacts.find_inst_in; eauto. }
  assert (Hcell : forall r i, In r (ti_instances ti) -> find_inst dom r = Some i -> canon <> NAME ->
            exists cty, find_canonical_property d (pi_type pi) cn (pi_ser_name pi) = Ok (Some (canon, cty, None)) /\
              cell_ok (pi_type pi) cty (prop_value ep canon pi (ep_order ep (pi_aliases pi)) i) = true /\
              utf8_valid (pi_ser_name pi) = true /\ N.of_nat (length (pi_ser_name pi)) < 2 ^ 32 /\ pi_ser_name pi <> NAME /\
              (forall n v s ty m, In (n, v) (i_props i) -> resolve_prop d cn n v = Ok (RProp canon s ty m) ->
                 migv ep (pi_migration pi) v = migv ep m v)).
  { intros r i Hri Hfi Hc.
    eapply (planned_cell_ok d cn (ti_class ti) (class_pairs dom cn) SA MA ep C0 Hgcn (seen_of dom (ti_instances ti))
              (ss_sstr st0, ti_visited ti, ti_props ti)); eauto.
    - intros x Hx. apply (Hseen x Hx).
    - intros x Hx. apply (Hseen x Hx).
    - intros a Ha. eapply Permutation_in; [apply (er_order _ _ _ _ Hr)|exact Ha].
    - intros x Hx. exists r, i. auto. }
  split.
  - intros Hc. destruct (Hcell r0 i0 Hr0 Hfi0 Hc) as (cty & Hfc & _ & Hu & Hl & Hn & _). exists cty. split; [exact Hfc|]. split; [|auto].
    intros r i Hri Hfi. destruct (Hcell r i Hri Hfi Hc) as (cty' & Hfc' & Hcl & _ & _ & _ & Hmg). rewrite Hfc in Hfc'. injection Hfc' as <-. auto.
  - intros ->. destruct P0 as [Ivis Icol Imk Iname Imig Idss Ivss Ires Iser].
    destruct (pi_migration pi) as [op|] eqn:EM; [|reflexivity]. exfalso.
    destruct (Imig NAME pi op Hbp EM) as (n & v & s & ty & Hs & Hres). destruct (Hseen _ Hs) as [_ Hp].
    unfold pair_cells_ok in Hp. cbn [fst snd] in Hp. rewrite Hres, bytes_eqb_refl in Hp. discriminate.
Qed.

(* ---- the column law of a column of a database-known (or unknown) property, from the cells ---- *)
Definition cty_of (d : db) (x : BinRoundTrip.column) : N :=
  match find_canonical_property d (pi_type (snd (snd x))) (fst (fst x)) (pi_ser_name (snd (snd x))) with
  | Ok (Some (_, cty, _)) => cty
  | _ => 0
  end.
(* what the reader holds for a column: the canonical name, no migration, normB of every written value *)
Definition known_read (d : db) (ep : enc_params) (dom : cdom) (st : ser_state) : BinRoundTrip.column -> BinRoundTrip.col_read :=
  fun x => Some (fst (snd x), None,
                 List.map (normB (ep_quant ep) (BinRoundTrip.ref_new st) (pi_type (snd (snd x))) (cty_of d x))
                          (BinRoundTrip.col_values ep dom x)).

Lemma index_of_spec s : forall l n k, index_of s l n = Some k ->
  exists j, k = n + N.of_nat j /\ (j < length l)%nat /\ nth j l [] = s.
Proof.
  induction l as [|x l IH]; intros n k H; cbn [index_of] in H; [discriminate|].
  destruct (bytes_eqb s x) eqn:E.
  - injection H as <-. apply bytes_eqb_eq in E. subst x. exists 0%nat. cbn. split; [lia|split; [lia|reflexivity]].
  - destruct (IH _ _ H) as (j & -> & Hj & Hn). exists (S j). cbn [length nth]. split; [lia|split; [lia|exact Hn]].
Qed.

Lemma stI_sstr st : ds_sstr (BinRoundTrip.stI_of st) = ss_sstr st.
Proof.
  unfold BinRoundTrip.stI_of, BinRoundTrip.after_insts.
  assert (G : forall l ds, ds_sstr (fold_left (BinRoundTrip.reg_class st) l ds) = ds_sstr ds).
  { induction l as [|ct l IH]; intros ds; [reflexivity|]. cbn [fold_left]. now rewrite IH. }
  now rewrite G.
Qed.

Lemma normB_rn_ext q rn rn' wt cty v : (forall r, rn r = rn' r) -> normB q rn wt cty v = normB q rn' wt cty v.
Proof.
  intros H. unfold normB, normB0. destruct wt; try reflexivity; destruct (canonv _ v); try reflexivity; try (now rewrite H);
    destruct c; try reflexivity; now rewrite H.
Qed.

Lemma known_col_law d ep p dom ts st (x : BinRoundTrip.column) cty :
  add_instances d ep dom (List.map root ts) = Ok st -> NoDup (ss_relevant st) ->
  (Z.of_nat (length (ss_relevant st)) <= 2147483647)%Z -> dp_lim p = None ->
  find_canonical_property d (pi_type (snd (snd x))) (fst (fst x)) (pi_ser_name (snd (snd x))) = Ok (Some (fst (snd x), cty, None)) ->
  BinRoundTrip.col_values ep dom x <> [] -> N.of_nat (length (BinRoundTrip.col_values ep dom x)) < 2 ^ 32 ->
  Forall (fun v => cell_ok (pi_type (snd (snd x))) cty v = true) (BinRoundTrip.col_values ep dom x) ->
  N.of_nat (length (ss_sstr st)) < 2 ^ 32 ->
  (forall v, In v (BinRoundTrip.col_values ep dom x) -> sstr_known (enc_ctx_of ep st) v = true) ->
  BinRoundTrip.col_law d ep p dom st (BinRoundTrip.stI_of st) x (known_read d ep dom st x).
Proof.
  intros Hst Hndr Hlen Hlim Hfc Hne Hn HF Hssl Hkn. unfold BinRoundTrip.col_law, known_read. cbv zeta.
  assert (Ec : cty_of d x = cty) by (unfold cty_of; now rewrite Hfc). rewrite Ec.
  exists cty. split; [exact Hfc|]. intros ds Hsk.
  assert (Hss : forall s, In (VSharedString s) (BinRoundTrip.col_values ep dom x) ->
            BinValuesFacts3.sstr_ok (enc_ctx_of ep st) (BinChunkFacts.prop_dctx p ds) s = true /\
            BinValuesFacts3.sstr_back (enc_ctx_of ep st) (BinChunkFacts.prop_dctx p ds) s = s).
  { intros s Hs. specialize (Hkn _ Hs). cbn [sstr_known enc_ctx_of ec_sstr] in Hkn.
    unfold BinValuesFacts3.sstr_ok, BinValuesFacts3.sstr_back, BinValuesFacts3.sstr_id. cbn [enc_ctx_of ec_sstr BinChunkFacts.prop_dctx dc_sstr].
    rewrite (proj1 Hsk), stI_sstr.
    destruct (index_of s (ss_sstr st) 0) as [k|] eqn:Ek; [|discriminate].
    destruct (index_of_spec s (ss_sstr st) 0 k Ek) as (j & -> & Hj & Hnth). cbn [N.add].
    split; [|now rewrite Nnat.Nat2N.id].
    apply andb_true_iff. split; apply N.ltb_lt; [change 4294967296 with (2 ^ 32)|]; lia. }
  destruct (known_col_roundtrip (enc_ctx_of ep st) (BinChunkFacts.prop_dctx p ds) Hlim
              (fun r => BinRoundTrip.fz_range st r Hlen) (pi_type (snd (snd x))) cty _ Hne Hn HF Hss) as (b & Hb1 & Hb2).
  exists b. split; [exact Hb1|]. rewrite Hb2. f_equal. f_equal. apply map_ext. intros v.
  apply normB_rn_ext. intros r. apply (BinRoundTrip.resolve_ref d ep p dom ts st ds r Hst Hndr Hsk).
Qed.

(* the property list the reader collects for the written instance r *)
Definition known_props (d : db) (ep : enc_params) (dom : cdom) (st : ser_state) (c : bytes) (ti : type_info) (r : N)
  : list (bytes * value) :=
  List.map (fun cp => (fst cp,
                       normB (ep_quant ep) (BinRoundTrip.ref_new st) (pi_type (snd cp)) (cty_of d (c, ti, cp))
                             (prop_value ep (fst cp) (snd cp) (ep_order ep (pi_aliases (snd cp))) (BinRoundTrip.src dom r))))
           (filter (fun cp => negb (bytes_eqb (fst cp) NAME)) (ti_props ti)).

Lemma read_props_known p d ep dom st c ti k r :
  nth_error (ti_instances ti) k = Some r ->
  BinRoundTrip.read_props p (known_read d ep dom st) (c, ti) k = known_props d ep dom st c ti r.
Proof.
  intros Hk. unfold BinRoundTrip.read_props, known_props. cbn [snd].
  assert (G : forall l acc, fold_left (BinRoundTrip.col_props p (known_read d ep dom st) (c, ti) k) l acc
              = acc ++ List.map (fun cp => (fst cp,
                                     normB (ep_quant ep) (BinRoundTrip.ref_new st) (pi_type (snd cp)) (cty_of d (c, ti, cp))
                                           (prop_value ep (fst cp) (snd cp) (ep_order ep (pi_aliases (snd cp))) (BinRoundTrip.src dom r))))
                               (filter (fun cp => negb (bytes_eqb (fst cp) NAME)) l)).
  { induction l as [|[canon pi] l IH]; intros acc; [now rewrite app_nil_r|]. cbn [fold_left filter]. rewrite IH.
    unfold BinRoundTrip.col_props at 1. cbn [fst snd]. destruct (bytes_eqb canon NAME); cbn [negb]; [reflexivity|].
    unfold known_read at 1. cbn [fst snd]. cbv iota beta.
    assert (Hn : nth_error (List.map (normB (ep_quant ep) (BinRoundTrip.ref_new st) (pi_type pi) (cty_of d (c, ti, (canon, pi))))
                                     (BinRoundTrip.col_values ep dom (c, ti, (canon, pi)))) k
                 = Some (normB (ep_quant ep) (BinRoundTrip.ref_new st) (pi_type pi) (cty_of d (c, ti, (canon, pi)))
                               (prop_value ep canon pi (ep_order ep (pi_aliases pi)) (BinRoundTrip.src dom r)))).
    { unfold BinRoundTrip.col_values. apply map_nth_error. apply map_nth_error. now apply map_nth_error. }
    rewrite Hn. cbn [BinRoundTrip.add_prop List.map]. now rewrite <- app_assoc. }
  apply (G (ti_props ti) []).
Qed.

Lemma bfind_bremove' {V} k k' (m : list (bytes * V)) : bfind k (bremove k' m) = if bytes_eqb k k' then None else bfind k m.
Proof.
  induction m as [|[k1 v1] m IH]; cbn [bremove bfind]; [now destruct (bytes_eqb k k')|].
  destruct (bytes_eqb k' k1) eqn:E1.
  - apply bytes_eqb_eq in E1. subst k1. rewrite IH. destruct (bytes_eqb k k'); reflexivity.
  - cbn [bfind]. rewrite IH. destruct (bytes_eqb k k') eqn:E; [|reflexivity].
    apply bytes_eqb_eq in E. subst k'. now rewrite E1.
Qed.

Lemma collect_props_nodup l k v : NoDup (List.map fst l) -> In (k, v) l -> bfind k (collect_props l) = Some v.
Proof.
  induction l as [|[k1 v1] l IH] using rev_ind; [intros _ []|]. intros Hnd Hin.
  unfold collect_props in *. rewrite fold_left_app. cbn [fold_left fst snd]. unfold bupd at 1. cbn [bfind].
  rewrite map_app in Hnd. cbn [List.map fst] in Hnd. destruct (nodup_app_inv _ _ Hnd) as (Hl & _ & Hdis).
  apply in_app_or in Hin. destruct Hin as [Hin|[[= <- <-]|[]]].
  - assert (Hne : bytes_eqb k k1 = false).
    { apply bytes_eqb_neq. intros ->. apply (Hdis k1); [apply in_map_iff; exists (k1, v); auto|now left]. }
    rewrite Hne, bfind_bremove', Hne. now apply IH.
  - now rewrite bytes_eqb_refl.
Qed.

(* ========================================================================================== *)
(* G3, part 4: the hypotheses of BinRoundTrip on the plan, from executable checks on the DOM    *)
(* ========================================================================================== *)
Definition dom_sstrs_ok (d : db) (dom : cdom) : bool :=
  N.ltb (N.of_nat (length (dom_sstrs d dom))) 4294967296 &&
  forallb (fun s => N.ltb (N.of_nat (length s)) 4294967296) (dom_sstrs d dom).

Lemma nodup_keys_filter {V} (f : bytes * V -> bool) l : NoDup (List.map fst l) -> NoDup (List.map fst (filter f l)).
Proof.
  induction l as [|x l IH]; intros H; [constructor|]. cbn [List.map] in H. apply NoDup_cons_iff in H. destruct H as [Hx Hl].
  cbn [filter]. destruct (f x); [|auto]. cbn [List.map]. constructor; [|auto].
  intros Hin. apply Hx. apply in_map_iff in Hin. destruct Hin as (y & Ey & Hy). apply filter_In in Hy. apply in_map_iff. exists y. tauto.
Qed.

Theorem plan_hyps_from_dom d ep dom ts st :
  enc_ready d ep dom ts -> dom_spellings_agree d dom -> (forall i, In i dom -> class_good d (i_class i)) ->
  dom_values_ok d ep dom = true -> dom_sstrs_ok d dom = true ->
  add_instances d ep dom (List.map root ts) = Ok st ->
  BinRoundTrip.sstr_ok st /\ BinRoundTrip.ser_names_ok st /\ BinRoundTrip.name_cols_ok st /\
  (forall cn ti, In (cn, ti) (ss_types st) -> NoDup (List.map fst (ti_props ti))).
Proof.
  intros Hr HS Hgood Hvals Hss Hst.
  pose proof (dom_spellings_types d dom HS) as HA. pose proof (dom_values_inst_ok d ep dom Hvals) as Hok.
  destruct (add_instances_total d ep dom ts Hr HA Hok) as (st' & st0 & Hadd & Hrel & Hndr & Hinv & Hg0 & Hty & Hperm).
  rewrite Hst in Hadd. injection Hadd as <-.
  pose proof (known_columns_cells d ep dom ts st Hr HS Hgood Hvals Hst) as Hcols.
  assert (Hnd : forall cn ti, In (cn, ti) (ss_types st) -> NoDup (List.map fst (ti_props ti))).
  { intros cn ti Hct. assert (Hb : bfind cn (ss_types st0) = Some ti).
    { rewrite <- Hty. apply in_bfind; [|exact Hct]. apply sorted_NoDup. exact (inv_sorted _ _ Hinv). }
    destruct (proj1 Hg0 cn ti Hb) as (_ & _ & _ & _ & S0). apply sorted_NoDup. exact S0. }
  split; [|split; [|split; [|exact Hnd]]].
  - unfold dom_sstrs_ok in Hss. apply andb_true_iff in Hss. destruct Hss as [H1 H2]. apply N.ltb_lt in H1. rewrite forallb_forall in H2.
    assert (Hincl : incl (ss_sstr st) (dom_sstrs d dom)).
    { intros s Hs. apply (proj2 Hg0 s). eapply Permutation_in; [exact Hperm|exact Hs]. }
    split.
    + pose proof (NoDup_incl_length (inv_sstr _ _ Hinv) Hincl). change (2 ^ 32) with 4294967296. lia.
    + apply Forall_forall. intros s Hs. change (2 ^ 32) with 4294967296. apply N.ltb_lt. apply H2. now apply Hincl.
  - intros [[c ti] [canon pi]] Hx. cbn [fst snd]. unfold BinRoundTrip.cols in Hx. apply in_flat_map in Hx.
    destruct Hx as ([c' ti'] & Hct & Hx). apply in_map_iff in Hx. destruct Hx as ([canon' pi'] & E & Hcp). injection E as -> -> -> ->.
    cbn [snd] in Hcp. destruct (bytes_eq_dec canon NAME) as [->|Hn].
    + destruct (BinRoundTrip.enc_name_entry _ _ _ _ _ Hst c ti Hct) as [_ Hall]. destruct (Hall pi Hcp) as [_ ->].
      split; [vm_compute; reflexivity|vm_compute; reflexivity].
    + destruct (proj1 (Hcols c ti canon pi Hct Hcp) Hn) as (cty & _ & _ & Hu & Hl & _). auto.
  - eapply BinRoundTrip.name_cols_ok_intro; [exact Hst|]. intros c ti canon pi Hct Hcp. split.
    + intros Hs. destruct (bytes_eq_dec canon NAME) as [E|Hn]; [exact E|]. exfalso.
      destruct (proj1 (Hcols c ti canon pi Hct Hcp) Hn) as (cty & _ & _ & _ & _ & Hne). contradiction.
    + exact (proj2 (Hcols c ti canon pi Hct Hcp)).
Qed.

Lemma normS_not_uid cty p a b c : normS cty p <> VUniqueId a b c.
Proof.
  unfold normS. repeat match goal with |- context [if ?x then _ else _] => destruct x end; try discriminate.
  - destruct (tags_decode p); discriminate.
  - destruct (attr_decode p); discriminate.
  - destruct (matcol_decode p); discriminate.
Qed.


(* ========================================================================================== *)
(* G3: the closed whole-file statement for database-known (and unknown) properties              *)
(* ========================================================================================== *)
(* [w] is read back under [canon]; the one exception is WeakDom's rule for the property "UniqueId": a UniqueId already in use
   in the DOM being built is replaced by a fresh one (dp_fresh_uid) *)
Definition reads_back (p : dec_params) (canon : bytes) (w : value) (props' : list (bytes * value)) : Prop :=
  bfind canon props' = Some w \/
  (canon = UNIQUE_ID /\ (exists a b c, w = VUniqueId a b c) /\ bfind canon props' = Some (dp_fresh_uid p)).

Lemma reads_back_plain p canon w props' : canon <> UNIQUE_ID -> reads_back p canon w props' -> bfind canon props' = Some w.
Proof. intros Hn [H|[E _]]; [exact H|contradiction]. Qed.

Theorem known_props_roundtrip d ep cmp dom ts p :
  enc_ready d ep dom ts -> BinRoundTrip.input_ok dom ts -> BinRoundTrip.names_ok dom ->
  dom_spellings_agree d dom -> (forall i, In i dom -> class_good d (i_class i)) ->
  dom_values_ok d ep dom = true -> dom_sstrs_ok d dom = true ->
  dp_lim p = None ->
  (forall e, encode_chunks d ep dom (List.map root ts) = Ok e -> BinRoundTrip.frame_ok p cmp e) ->
  exists b st out,
    encode_file d ep cmp dom (List.map root ts) = Ok b /\
    add_instances d ep dom (List.map root ts) = Ok st /\
    decode_file d p b = Ok out /\
    BinRoundTrip.same_forest dom ts (BinRoundTrip.lbl st) out /\
    forall cn ti k r, In (cn, ti) (ss_types st) -> nth_error (ti_instances ti) k = Some r ->
      exists i i', find_inst dom r = Some i /\ i_class i = cn /\
        find_inst out (BinRoundTrip.lbl st r) = Some i' /\ i_ref i' = BinRoundTrip.lbl st r /\
        i_class i' = cn /\ i_name i' = i_name i /\
        (* no legacy (or alias) name survives: every property read back is named by a column's canonical name *)
        (forall k v, In (k, v) (i_props i') -> k <> NAME /\ exists pi, In (k, pi) (ti_props ti)) /\
        forall canon pi, In (canon, pi) (ti_props ti) -> canon <> NAME ->
          exists cty,
            (* the canonical name is the one the reader's database gives for the serialized name *)
            find_canonical_property d (pi_type pi) cn (pi_ser_name pi) = Ok (Some (canon, cty, None)) /\
            (* own value: normB of the value after the migration of its own spelling *)
            (inst_one_spelling d i -> forall n v s ty m, In (n, v) (i_props i) ->
               resolve_prop d cn n v = Ok (RProp canon s ty m) ->
               reads_back p canon (normB (ep_quant ep) (BinRoundTrip.ref_new st) (pi_type pi) cty (migv ep m v)) (i_props i')) /\
            (* no spelling of it, but a class-mate had one: the default of the instance's class (after the column's migration, as the
               serializer applies it) *)
            ((forall n v s ty m, In (n, v) (i_props i) -> resolve_prop d cn n v <> Ok (RProp canon s ty m)) ->
               reads_back p canon (normB (ep_quant ep) (BinRoundTrip.ref_new st) (pi_type pi) cty (migv ep (pi_migration pi) (pi_default pi))) (i_props i') /\
               exists ty0, col_plan d (get_class d (string_of_bytes cn)) canon ty0 = Ok (pi_default pi, pi_type pi)).
Proof.
  intros Hr Hin Hnames HS Hgood Hvals Hss Hlim Hframe.
  pose proof (dom_spellings_types d dom HS) as HA. pose proof (dom_values_inst_ok d ep dom Hvals) as Hok.
  destruct (encode_file_total d ep cmp dom ts Hr HA Hgood Hok) as [b Hb].
  destruct (add_instances_total d ep dom ts Hr HA Hok) as (st & st0 & Hadd & Hrel & Hndr & Hinv & Hg0 & Hty & Hperm).
  destruct (plan_hyps_from_dom d ep dom ts st Hr HS Hgood Hvals Hss Hadd) as (Hsstr & Hser & Hncol & Hnd).
  pose proof (known_columns_cells d ep dom ts st Hr HS Hgood Hvals Hadd) as Hcols.
  assert (Hlen : (Z.of_nat (length (ss_relevant st)) <= 2147483647)%Z).
  { assert (length (ss_relevant st) <= length dom)%nat; [|pose proof (er_size _ _ _ _ Hr); lia].
    rewrite <- (map_length i_ref dom). apply NoDup_incl_length; [exact Hndr|]. intros r. now apply relevant_in_dom. }
  assert (Hsrc : forall cn ti r, In (cn, ti) (ss_types st) -> In r (ti_instances ti) ->
                 exists i, find_inst dom r = Some i /\ BinRoundTrip.src dom r = i).
  { intros cn ti r Hct Hri. assert (Hrr : In r (ss_relevant st)).
    { rewrite (inv_insts _ _ Hinv cn ti Hct) in Hri. apply filter_In in Hri. tauto. }
    pose proof (inv_found _ _ Hinv r Hrr) as Hf. destruct (find_inst dom r) as [i|] eqn:E; [|congruence].
    exists i. split; [reflexivity|]. now apply BinRoundTrip.find_inst_src. }
  destruct (BinRoundTrip.file_values_roundtrip d ep cmp dom ts b p st (known_read d ep dom st) Hin Hnames Hb Hadd Hlim Hframe Hsstr Hser Hncol)
    as (out & Hdec & Hforest & Hinst).
  { intros [[c ti] [canon pi]] Hx Hn. cbn [fst snd] in Hn. unfold BinRoundTrip.cols in Hx. apply in_flat_map in Hx.
    destruct Hx as ([c' ti'] & Hct & Hx). apply in_map_iff in Hx. destruct Hx as ([canon' pi'] & E & Hcp). injection E as -> -> -> ->.
    cbn [snd] in Hcp. destruct (proj1 (Hcols c ti canon pi Hct Hcp) Hn) as (cty & Hfc & Hcells & _).
    apply (known_col_law d ep p dom ts st (c, ti, (canon, pi)) cty Hadd Hndr Hlen Hlim); cbn [fst snd].
    - exact Hfc.
    - unfold BinRoundTrip.col_values. destruct (ti_instances ti) eqn:E; [now destruct (inv_nonempty _ _ Hinv c ti Hct)|discriminate].
    - unfold BinRoundTrip.col_values. rewrite !map_length. rewrite (inv_insts _ _ Hinv c ti Hct).
      pose proof (filter_length_le' (of_class dom c) (ss_relevant st)). change (2 ^ 32) with 4294967296. lia.
    - unfold BinRoundTrip.col_values. apply Forall_forall. intros v Hv. apply in_map_iff in Hv. destruct Hv as (i & <- & Hi).
      apply in_map_iff in Hi. destruct Hi as (r & <- & Hri). destruct (Hsrc c ti r Hct Hri) as (i & Hfi & ->).
      apply (Hcells r i Hri Hfi).
    - exact (proj1 Hsstr).
    - unfold BinRoundTrip.col_values. intros v Hv. apply in_map_iff in Hv. destruct Hv as (i & <- & Hi).
      apply in_map_iff in Hi. destruct Hi as (r & <- & Hri). destruct (Hsrc c ti r Hct Hri) as (i & Hfi & ->).
      pose proof (planned_columns_accept d ep dom st st0 c ti canon pi r i HA Hgood Hok (er_order _ _ _ _ Hr) Hinv Hg0 Hty Hperm Hct Hcp Hri Hfi) as Hacc.
      rewrite col_accepts_split in Hacc. apply andb_true_iff in Hacc. exact (proj2 Hacc). }
  exists b, st, out. split; [exact Hb|]. split; [exact Hadd|]. split; [exact Hdec|]. split; [exact Hforest|].
  intros cn ti k r Hct Hk. pose proof (nth_error_In _ _ Hk) as Hri.
  destruct (Hsrc cn ti r Hct Hri) as (i & Hfi & Hsrci).
  destruct (Hinst cn ti k r Hct Hk) as (i' & H1 & H2 & H3 & H4 & H5).
  rewrite (read_props_known p d ep dom st cn ti k r Hk) in H5.
  (* the cells of this instance *)
  assert (Hmine : forall canon pi, In (canon, pi) (ti_props ti) -> canon <> NAME ->
            exists cty, find_canonical_property d (pi_type pi) cn (pi_ser_name pi) = Ok (Some (canon, cty, None)) /\
              cty_of d (cn, ti, (canon, pi)) = cty /\
              cell_ok (pi_type pi) cty (prop_value ep canon pi (ep_order ep (pi_aliases pi)) i) = true /\
              (forall n v s ty m, In (n, v) (i_props i) -> resolve_prop d cn n v = Ok (RProp canon s ty m) ->
                 migv ep (pi_migration pi) v = migv ep m v)).
  { intros canon pi Hcp Hn. destruct (proj1 (Hcols cn ti canon pi Hct Hcp) Hn) as (cty & Hfc & Hcells & _).
    exists cty. split; [exact Hfc|]. split; [unfold cty_of; cbn [fst snd]; now rewrite Hfc|]. apply (Hcells r i Hri Hfi). }
  assert (Hkeyin : forall k0 v, In (k0, v) (i_props i') -> exists v', In (k0, v') (collect_props (known_props d ep dom st cn ti r))).
  { destruct H5 as [-> | (a & b0 & c0 & Hf & ->)]; [eauto|]. intros k0 v [E|Hkv].
    - injection E as <- _. exists (VUniqueId a b0 c0). now apply bfind_in.
    - exists v. now apply (BinRoundTrip.bremove_incl UNIQUE_ID). }
  assert (Hb' : bfind cn (ss_types st0) = Some ti).
  { rewrite <- Hty. apply in_bfind; [|exact Hct]. apply sorted_NoDup. exact (inv_sorted _ _ Hinv). }
  destruct (proj1 Hg0 cn ti Hb') as (_ & _ & M0 & _). pose proof (M0 r i Hri Hfi) as Hcl.
  exists i, i'. split; [exact Hfi|]. split; [exact Hcl|]. split; [exact H1|]. split; [exact H2|].
  split; [rewrite H3; unfold class_of; now rewrite Hfi|]. split; [now rewrite H4, Hsrci|].
  assert (Hkeys : List.map fst (known_props d ep dom st cn ti r)
                  = List.map fst (filter (fun cp => negb (bytes_eqb (fst cp) NAME)) (ti_props ti))).
  { unfold known_props. rewrite map_map. reflexivity. }
  split.
  - intros k0 v0 Hkv0. destruct (Hkeyin k0 v0 Hkv0) as [v Hkv]. apply BinRoundTrip.collect_props_in in Hkv. unfold known_props in Hkv.
    apply in_map_iff in Hkv. destruct Hkv as ([canon pi] & E & Hcp). cbn [fst snd] in E. injection E as <- _.
    apply filter_In in Hcp. destruct Hcp as [Hcp Hnn]. cbn [fst] in Hnn. apply negb_true_iff in Hnn.
    split; [now apply bytes_eqb_false_neq|eauto].
  - intros canon pi Hcp Hn. destruct (Hmine canon pi Hcp Hn) as (cty & Hfc & Ec & Hcell & Hmg). exists cty. split; [exact Hfc|].
    assert (Hread0 : bfind canon (collect_props (known_props d ep dom st cn ti r)) =
                    Some (normB (ep_quant ep) (BinRoundTrip.ref_new st) (pi_type pi) cty (prop_value ep canon pi (ep_order ep (pi_aliases pi)) i))).
    { apply collect_props_nodup.
      - rewrite Hkeys. apply nodup_keys_filter. exact (Hnd cn ti Hct).
      - unfold known_props. apply in_map_iff. exists (canon, pi). cbn [fst snd]. rewrite Ec, Hsrci. split; [reflexivity|].
        apply filter_In. split; [exact Hcp|]. cbn [fst]. apply negb_true_iff. now apply bytes_eqb_neq. }
    assert (Hrb : reads_back p canon (normB (ep_quant ep) (BinRoundTrip.ref_new st) (pi_type pi) cty
                                            (prop_value ep canon pi (ep_order ep (pi_aliases pi)) i)) (i_props i')).
    { destruct H5 as [-> | (a & b0 & c0 & Hf & ->)]; [left; exact Hread0|]. destruct (bytes_eq_dec canon UNIQUE_ID) as [->|Hne].
      - right. split; [reflexivity|]. split; [rewrite Hf in Hread0; injection Hread0 as <-; eauto|].
        unfold bupd. cbn [bfind]. now rewrite bytes_eqb_refl.
      - left. unfold bupd. cbn [bfind]. rewrite (bytes_eqb_neq _ _ Hne), bfind_bremove', (bytes_eqb_neq _ _ Hne). exact Hread0. }
    destruct (written_columns_spec d ep dom ts st Hr HA Hgood Hok Hadd cn ti canon pi r i Hct Hcp Hn Hri Hfi) as (_ & Hown & Hdef).
    split.
    + intros H1s n v s ty m Hinv' Hres. rewrite (Hown H1s n v s ty m Hinv' Hres), (Hmg n v s ty m Hinv' Hres) in Hrb. exact Hrb.
    + intros Hno. destruct (Hdef Hno) as [Hv Hty0]. rewrite Hv in Hrb. split; [exact Hrb|exact Hty0].
Qed.
Print Assumptions known_props_roundtrip.

