(* BinTypeInfoFacts.v — the column planning of the binary serializer (BinFile.cti_prop / collect_type_info,
   i.e. serializer/state.rs `collect_type_info`) as a function of the ORDER in which properties and sibling
   instances are met (properties C08 and C07).
     Part 0  a Panic-free normal form [pstep] of [cti_prop] over the three components it touches
             (shared strings, properties_visited, properties); the `get_mut(..).unwrap()` is unreachable.
     Part 1  exact characterisation of success of the planning ([fold_plan_ok_iff]); success is invariant
             under permutation and "each instance alone" suffices.
     Part 2  the plan itself is order independent up to the order of the alias sets ([fold_pstep_perm],
             [collect_types_perm_plan]).
     Part 3  the column values do not depend on the alias order when an instance carries at most one
             spelling of a logical property, and the refutation without that hypothesis.
     Part H  the consistency hypotheses derived from an executable check of the database (passed by every
             class of the bundled database); no panic at all for a lookup-safe database; (1b) without H.
     Part 4  the whole encoder: encode_chunks / encode_file give the same result for a DOM whose property
             maps are listed in another order ([encode_file_props_perm_iff]). *)
From Coq Require Import Lia Permutation.
From RbxVerif Require Import Base Bytes Value Db DbCheck CodecDom BinValues BinFile BinFileFacts AttrFacts
                             BinColumnsFacts DbFacts.
Open Scope N_scope.

(* ========================================================================================== *)
(* generalities: byte-string keys, membership, the sorted association list                     *)
(* ========================================================================================== *)
Lemma bytes_eqb_sym a b : bytes_eqb a b = bytes_eqb b a.
Proof.
  destruct (bytes_eqb a b) eqn:E.
  - apply bytes_eqb_eq in E. subst. now rewrite bytes_eqb_refl.
  - destruct (bytes_eqb b a) eqn:E'; [|reflexivity]. apply bytes_eqb_eq in E'. subst. now rewrite bytes_eqb_refl in E.
Qed.

Lemma bytes_eqb_neq a b : a <> b -> bytes_eqb a b = false.
Proof. intros H. destruct (bytes_eqb a b) eqn:E; [|reflexivity]. now apply bytes_eqb_eq in E. Qed.

Lemma bytes_eqb_false_neq a b : bytes_eqb a b = false -> a <> b.
Proof. intros H ->. now rewrite bytes_eqb_refl in H. Qed.

Lemma bytes_eq_dec (a b : bytes) : {a = b} + {a <> b}.
Proof. destruct (bytes_eqb a b) eqn:E; [left; now apply bytes_eqb_eq | right; now apply bytes_eqb_false_neq]. Qed.

Lemma bytes_ltb_total a : forall b, bytes_ltb a b = false -> bytes_ltb b a = false -> a = b.
Proof.
  induction a as [|x a IH]; intros [|y b]; cbn; try easy.
  destruct (N.ltb_spec x y), (N.ltb_spec y x); try easy.
  intros H1 H2. f_equal; [lia|now apply IH].
Qed.

Lemma bmem_cons k x l : bmem k (x :: l) = bytes_eqb k x || bmem k l.
Proof. reflexivity. Qed.

Lemma bmem_app k l1 l2 : bmem k (l1 ++ l2) = bmem k l1 || bmem k l2.
Proof. unfold bmem. apply existsb_app. Qed.

Lemma bmem_In k l : bmem k l = true <-> In k l.
Proof.
  unfold bmem. rewrite existsb_exists. split.
  - intros [x [Hin E]]. apply bytes_eqb_eq in E. now subst.
  - intros H. exists k. split; [exact H|apply bytes_eqb_refl].
Qed.

Lemma bmem_false_notin k l : bmem k l = false <-> ~ In k l.
Proof. rewrite <- bmem_In. destruct (bmem k l); split; congruence. Qed.

(* two lists with the same members *)
Definition same_set (l1 l2 : list bytes) : Prop := forall a, bmem a l1 = bmem a l2.

Lemma same_set_refl l : same_set l l. Proof. intros a. reflexivity. Qed.
Lemma same_set_sym l1 l2 : same_set l1 l2 -> same_set l2 l1. Proof. intros H a. now rewrite H. Qed.
Lemma same_set_trans l1 l2 l3 : same_set l1 l2 -> same_set l2 l3 -> same_set l1 l3.
Proof. intros H1 H2 a. now rewrite H1, H2. Qed.

Lemma same_set_perm l1 l2 : NoDup l1 -> NoDup l2 -> same_set l1 l2 -> Permutation l1 l2.
Proof.
  intros N1 N2 H. apply NoDup_Permutation; auto. intros x. rewrite <- !bmem_In. now rewrite H.
Qed.

Lemma perm_same_set l1 l2 : Permutation l1 l2 -> same_set l1 l2.
Proof.
  intros Hp a. destruct (bmem a l2) eqn:E.
  - apply bmem_In. apply bmem_In in E. eapply Permutation_in; [apply Permutation_sym; exact Hp|exact E].
  - apply bmem_false_notin. apply bmem_false_notin in E. intros Hin. apply E. eapply Permutation_in; eauto.
Qed.

(* ---- bfind / bset / binsert ---- *)
Lemma bfind_bset_same {V} k (v : V) m : bfind k (bset k v m) = match bfind k m with Some _ => Some v | None => None end.
Proof.
  induction m as [|[k' v'] m IH]; cbn [bset bfind]; [reflexivity|].
  destruct (bytes_eqb k k') eqn:E; cbn [bfind].
  - now rewrite bytes_eqb_refl.
  - now rewrite E.
Qed.

Lemma bfind_bset_other {V} k k' (v : V) m : bytes_eqb k k' = false -> bfind k (bset k' v m) = bfind k m.
Proof.
  intros Hne. induction m as [|[k2 v2] m IH]; cbn [bset bfind]; [reflexivity|].
  destruct (bytes_eqb k' k2) eqn:E; cbn [bfind].
  - apply bytes_eqb_eq in E. subst k2. now rewrite Hne.
  - destruct (bytes_eqb k k2); [reflexivity|exact IH].
Qed.

Lemma bset_keys {V} k (v : V) m : List.map fst (bset k v m) = List.map fst m.
Proof.
  induction m as [|[k' v'] m IH]; cbn [bset List.map fst]; [reflexivity|].
  destruct (bytes_eqb k k') eqn:E; cbn [List.map fst].
  - apply bytes_eqb_eq in E. now subst.
  - now rewrite IH.
Qed.

Lemma bset_none {V} k (v : V) m : bfind k m = None -> bset k v m = m.
Proof.
  induction m as [|[k' v'] m IH]; cbn [bset bfind]; [reflexivity|].
  destruct (bytes_eqb k k'); [discriminate|]. intros H. now rewrite IH.
Qed.

Lemma bset_same {V} k (v : V) m : bfind k m = Some v -> bset k v m = m.
Proof.
  induction m as [|[k' v'] m IH]; cbn [bset bfind]; [reflexivity|].
  destruct (bytes_eqb k k') eqn:E.
  - intros [= ->]. apply bytes_eqb_eq in E. now subst.
  - intros H. now rewrite IH.
Qed.

Lemma bset_bset_same {V} k (v w : V) m : bset k v (bset k w m) = bset k v m.
Proof.
  induction m as [|[k' v'] m IH]; cbn [bset]; [reflexivity|].
  destruct (bytes_eqb k k') eqn:E; cbn [bset].
  - now rewrite bytes_eqb_refl.
  - now rewrite E, IH.
Qed.

Lemma bset_bset_comm {V} k1 k2 (v1 v2 : V) m : bytes_eqb k1 k2 = false ->
  bset k1 v1 (bset k2 v2 m) = bset k2 v2 (bset k1 v1 m).
Proof.
  intros Hne. induction m as [|[k' v'] m IH]; cbn [bset]; [reflexivity|].
  destruct (bytes_eqb k2 k') eqn:E2; destruct (bytes_eqb k1 k') eqn:E1.
  - apply bytes_eqb_eq in E1, E2. subst. now rewrite bytes_eqb_refl in Hne.
  - apply bytes_eqb_eq in E2. subst k'. cbn [bset]. now rewrite Hne, bytes_eqb_refl.
  - apply bytes_eqb_eq in E1. subst k'. cbn [bset]. now rewrite E2, bytes_eqb_refl.
  - cbn [bset]. now rewrite E1, E2, IH.
Qed.

Lemma bfind_binsert_same {V} k (v : V) m : bfind k (binsert (k, v) m) = Some v.
Proof.
  induction m as [|[k' v'] m IH]; cbn [binsert bfind fst]; [now rewrite bytes_eqb_refl|].
  destruct (bytes_ltb k' k) eqn:E; cbn [bfind].
  - rewrite (bytes_ltb_neq _ _ E). exact IH.
  - now rewrite bytes_eqb_refl.
Qed.

Lemma bfind_binsert_other {V} k k' (v : V) m : bytes_eqb k k' = false -> bfind k (binsert (k', v) m) = bfind k m.
Proof.
  intros Hne. induction m as [|[k2 v2] m IH]; cbn [binsert bfind fst]; [now rewrite Hne|].
  destruct (bytes_ltb k2 k') eqn:E; cbn [bfind].
  - destruct (bytes_eqb k k2); [reflexivity|exact IH].
  - now rewrite Hne.
Qed.

Lemma bset_binsert_same {V} k (v w : V) m : bset k v (binsert (k, w) m) = binsert (k, v) m.
Proof.
  induction m as [|[k' v'] m IH]; cbn [binsert bset fst]; [now rewrite bytes_eqb_refl|].
  destruct (bytes_ltb k' k) eqn:E; cbn [bset].
  - rewrite (bytes_ltb_neq _ _ E). now rewrite IH.
  - now rewrite bytes_eqb_refl.
Qed.

Lemma bset_binsert_comm {V} k1 k2 (v1 v2 : V) m : bytes_eqb k1 k2 = false ->
  bset k1 v1 (binsert (k2, v2) m) = binsert (k2, v2) (bset k1 v1 m).
Proof.
  intros Hne. induction m as [|[k' v'] m IH]; cbn [binsert bset fst]; [now rewrite Hne|].
  destruct (bytes_ltb k' k2) eqn:E; destruct (bytes_eqb k1 k') eqn:E1.
  - apply bytes_eqb_eq in E1. subst k'. cbn [bset binsert fst]. now rewrite bytes_eqb_refl, E.
  - cbn [bset binsert fst]. now rewrite E1, E, IH.
  - apply bytes_eqb_eq in E1. subst k'. cbn [bset binsert fst]. now rewrite Hne, bytes_eqb_refl, E.
  - cbn [bset binsert fst]. now rewrite Hne, E1, E.
Qed.

Lemma binsert_binsert_comm {V} k1 k2 (v1 v2 : V) m : bytes_eqb k1 k2 = false ->
  binsert (k1, v1) (binsert (k2, v2) m) = binsert (k2, v2) (binsert (k1, v1) m).
Proof.
  intros Hne.
  assert (Hord : (bytes_ltb k1 k2 = true /\ bytes_ltb k2 k1 = false) \/ (bytes_ltb k1 k2 = false /\ bytes_ltb k2 k1 = true)).
  { destruct (bytes_ltb k1 k2) eqn:A.
    - left. split; [reflexivity|now apply bytes_ltb_asym].
    - right. split; [reflexivity|]. destruct (bytes_ltb k2 k1) eqn:B; [reflexivity|].
      exfalso. apply (bytes_eqb_false_neq _ _ Hne). now apply bytes_ltb_total. }
  induction m as [|[k' v'] m IH]; cbn [binsert fst].
  - destruct Hord as [[A B]|[A B]]; now rewrite A, B.
  - destruct (bytes_ltb k' k2) eqn:E2; destruct (bytes_ltb k' k1) eqn:E1; cbn [binsert fst].
    + now rewrite E1, E2, IH.
    + rewrite E1, E2.
      (* k1 <= k' < k2 *)
      assert (A : bytes_ltb k1 k2 = true).
      { destruct (bytes_ltb k1 k') eqn:C; [eapply bytes_ltb_trans; eauto|].
        assert (k' = k1) by now apply bytes_ltb_total. now subst. }
      rewrite A. cbn [binsert fst]. now rewrite ?E1, ?E2.
    + rewrite E1, E2.
      assert (B : bytes_ltb k2 k1 = true).
      { destruct (bytes_ltb k2 k') eqn:C; [eapply bytes_ltb_trans; eauto|].
        assert (k' = k2) by now apply bytes_ltb_total. now subst. }
      rewrite B. cbn [binsert fst]. now rewrite ?E1, ?E2.
    + destruct Hord as [[A B]|[A B]]; rewrite A, B; cbn [binsert fst]; now rewrite ?E1, ?E2.
Qed.

Lemma bfind_some_in_keys {V} k (m : list (bytes * V)) v : bfind k m = Some v -> In k (List.map fst m).
Proof. intros H. apply bfind_in in H. apply in_map_iff. now exists (k, v). Qed.

Lemma in_keys_bfind {V} k (m : list (bytes * V)) : In k (List.map fst m) -> exists v, bfind k m = Some v.
Proof.
  intros H. destruct (bfind k m) as [v|] eqn:E; [now exists v|]. now apply bfind_none_notin in E.
Qed.

(* fold_res *)
Lemma fold_res_app {A B} (f : A -> B -> res A) l1 l2 a :
  fold_res f a (l1 ++ l2) = (a' <- fold_res f a l1 ;; fold_res f a' l2).
Proof.
  revert a. induction l1 as [|x l1 IH]; intros a; cbn [fold_res app rbind]; [reflexivity|].
  destruct (f a x); cbn [rbind]; auto.
Qed.

Definition is_okb {A} (r : res A) : bool := match r with Ok _ => true | _ => false end.
Definition rmap {A B} (f : A -> B) (r : res A) : res B := x <- r ;; Ok (f x).

(* ========================================================================================== *)
(* Part 0: a Panic-free normal form of cti_prop                                                *)
(* ========================================================================================== *)
(* what creating the column of [canonical] needs: a default value and a wire type *)
Definition col_plan (d : db) (cls : option cdesc) (canonical : bytes) (ser_ty : N) : res (value * wire_type) :=
  dbdef <- (match cls with
            | Some c => find_default d c (string_of_bytes canonical)
            | None => Ok None
            end) ;;
  match (match dbdef with Some v => Some v | None => fallback_default_value ser_ty end) with
  | None => Err EE_UNSUPPORTED
  | Some dv => match from_rbx_type ser_ty with
               | None => Err EE_UNSUPPORTED
               | Some st => Ok (dv, st)
               end
  end.

(* `prop_info.aliases.insert(prop_name); if migration.is_some() { prop_info.migration = migration }` *)
Definition add_alias (n : bytes) (m : option migop) (pi : prop_info) : prop_info :=
  mkPI (pi_type pi) (pi_ser_name pi)
       (if bmem n (pi_aliases pi) then pi_aliases pi else pi_aliases pi ++ [n])
       (pi_default pi)
       (match m with Some _ => m | None => pi_migration pi end).
Definition new_pi (n c : bytes) (m : option migop) (pi : prop_info) : prop_info :=
  if bytes_eqb n c then pi else add_alias n m pi.

(* the default value of a created column is looked at for a SharedString as well *)
Definition topt (o : option value) (ss : list bytes) : list bytes :=
  match o with Some v => track_sstr v ss | None => ss end.

(* what one unvisited name does to the columns; also returns the default value of a column it creates *)
Definition pcore (d : db) (cls : option cdesc) (n : bytes) (r : resolved) (props : list (bytes * prop_info))
  : res (option value * list (bytes * prop_info)) :=
  match r with
  | RSkip => Ok (None, props)
  | RProp c s ty m =>
      match bfind c props with
      | Some pi => Ok (None, bset c (new_pi n c m pi) props)
      | None => p <- col_plan d cls c ty ;;
                Ok (Some (fst p), binsert (c, new_pi n c m (mkPI (snd p) s [] (fst p) m)) props)
      end
  end.

(* (shared strings, properties_visited, properties) *)
Definition pstate := (list bytes * list bytes * list (bytes * prop_info))%type.
Definition ps_ss (st : pstate) := fst (fst st).
Definition ps_vis (st : pstate) := snd (fst st).
Definition ps_props (st : pstate) := snd st.

Definition pstep (d : db) (class : bytes) (cls : option cdesc) (st : pstate) (pv : bytes * value) : res pstate :=
  let ss1 := track_sstr (snd pv) (ps_ss st) in
  if bmem (fst pv) (ps_vis st) then Ok (ss1, ps_vis st, ps_props st) else
  r <- resolve_prop d class (fst pv) (snd pv) ;;
  q <- pcore d cls (fst pv) r (ps_props st) ;;
  Ok (topt (fst q) ss1, fst pv :: ps_vis st, snd q).

Definition ti_with (ti : type_info) (vis : list bytes) (props : list (bytes * prop_info)) : type_info :=
  mkTI (ti_id ti) (ti_service ti) (ti_instances ti) props (ti_class ti) vis.
Definition lift_state (ti : type_info) (st : pstate) : list bytes * type_info :=
  (ps_ss st, ti_with ti (ps_vis st) (ps_props st)).
Definition proj_state (acc : list bytes * type_info) : pstate :=
  (fst acc, ti_visited (snd acc), ti_props (snd acc)).

(* cti_prop IS pstep: in particular the `get_mut(&canonical_name).unwrap()` branch is dead code *)
Theorem cti_prop_pstep d class acc pv :
  cti_prop d class acc pv = rmap (lift_state (snd acc)) (pstep d class (ti_class (snd acc)) (proj_state acc) pv).
Proof.
  destruct acc as [ss ti]. destruct pv as [n v]. destruct ti as [id svc insts props cls vis].
  unfold cti_prop, pstep, rmap, lift_state, proj_state, ti_with, ps_ss, ps_vis, ps_props.
  cbv zeta. cbn [fst snd ti_id ti_service ti_instances ti_props ti_class ti_visited].
  destruct (bmem n vis); cbn [rbind]; [reflexivity|].
  destruct (resolve_prop d class n v) as [r| | |]; cbn [rbind]; try reflexivity.
  destruct r as [|c s ty m]; cbn [pcore rbind fst snd topt]; [reflexivity|].
  destruct (bfind c props) as [pi|] eqn:Ef; cbn [rbind fst snd topt ti_id ti_service ti_instances ti_props ti_class ti_visited].
  - unfold new_pi. destruct (bytes_eqb n c) eqn:En.
    + now rewrite (bset_same _ _ _ Ef).
    + rewrite Ef. reflexivity.
  - unfold col_plan.
    destruct (match cls with Some c0 => find_default d c0 (string_of_bytes c) | None => Ok None end) as [dbdef| | |];
      cbn [rbind]; try reflexivity.
    destruct (match dbdef with Some v0 => Some v0 | None => fallback_default_value ty end) as [dv|];
      cbn [rbind]; [|reflexivity].
    destruct (from_rbx_type ty) as [st|]; cbn [rbind fst snd topt ti_id ti_service ti_instances ti_props ti_class ti_visited]; [|reflexivity].
    rewrite bfind_binsert_same. unfold new_pi. destruct (bytes_eqb n c) eqn:En; [reflexivity|].
    rewrite bset_binsert_same. unfold add_alias. cbn [pi_type pi_ser_name pi_aliases pi_default pi_migration bmem existsb app].
    destruct m; reflexivity.
Qed.

Corollary cti_prop_unwrap_unreachable d class acc pv :
  cti_prop d class acc pv = Panic ->
  resolve_prop d class (fst pv) (snd pv) = Panic \/
  exists c s ty m, resolve_prop d class (fst pv) (snd pv) = Ok (RProp c s ty m) /\
                   col_plan d (ti_class (snd acc)) c ty = Panic.
Proof.
  rewrite cti_prop_pstep. unfold rmap, pstep.
  destruct (bmem (fst pv) (ps_vis (proj_state acc))); cbn [rbind]; [discriminate|].
  destruct (resolve_prop d class (fst pv) (snd pv)) as [r| | |]; cbn [rbind]; try discriminate; [|now left].
  destruct r as [|c s ty m]; cbn [pcore rbind]; [discriminate|].
  destruct (bfind c _); cbn [rbind]; [discriminate|].
  destruct (col_plan d (ti_class (snd acc)) c ty) eqn:E; cbn [rbind]; try discriminate.
  intros _. right. now exists c, s, ty, m.
Qed.

Lemma fold_cti_pstep d class : forall l acc,
  fold_res (cti_prop d class) acc l
  = rmap (lift_state (snd acc)) (fold_res (pstep d class (ti_class (snd acc))) (proj_state acc) l).
Proof.
  induction l as [|pv l IH]; intros acc; cbn [fold_res].
  - destruct acc as [ss ti]. destruct ti. reflexivity.
  - rewrite cti_prop_pstep. unfold rmap at 1 2.
    destruct (pstep d class (ti_class (snd acc)) (proj_state acc) pv) as [st'| | |]; cbn [rbind]; try reflexivity.
    rewrite IH. destruct acc as [ss ti]. destruct st' as [[ss' vis'] props']. reflexivity.
Qed.

(* ========================================================================================== *)
(* Part 1: when does the planning succeed                                                      *)
(* ========================================================================================== *)
Definition haskey {V} (c : bytes) (m : list (bytes * V)) : bool :=
  match bfind c m with Some _ => true | None => false end.

Lemma haskey_bset {V} c c' (v : V) m : haskey c' (bset c v m) = haskey c' m.
Proof.
  unfold haskey. destruct (bytes_eqb c' c) eqn:E.
  - apply bytes_eqb_eq in E. subst. rewrite bfind_bset_same. now destruct (bfind c m).
  - now rewrite bfind_bset_other.
Qed.

Lemma haskey_binsert {V} c c' (v : V) m : haskey c' (binsert (c, v) m) = bytes_eqb c' c || haskey c' m.
Proof.
  unfold haskey. destruct (bytes_eqb c' c) eqn:E.
  - apply bytes_eqb_eq in E. subst. now rewrite bfind_binsert_same.
  - now rewrite bfind_binsert_other.
Qed.

(* the value matters to resolve_prop only for a name the database does not know, and then only its type *)
Lemma resolve_value_indep d class n v1 v2 :
  resolve_prop d class n v1 = resolve_prop d class n v2 \/
  (resolve_prop d class n v1 = Ok (RProp n n (vtype v1) None) /\
   resolve_prop d class n v2 = Ok (RProp n n (vtype v2) None)).
Proof.
  unfold resolve_prop.
  destruct (find_desc_bin d (string_of_bytes class) (string_of_bytes n)) as [[[canon ser]|]| | |]; cbn [rbind]; auto.
Qed.

(* the consistency hypothesis H, on the (name, value) pairs that occur:
   all spellings that resolve to one canonical name agree on the serialized name and the serialized type *)
Definition spellings_agree (d : db) (class : bytes) (l : list (bytes * value)) : Prop :=
  forall n1 v1 n2 v2 c s1 t1 m1 s2 t2 m2,
    In (n1, v1) l -> In (n2, v2) l ->
    resolve_prop d class n1 v1 = Ok (RProp c s1 t1 m1) ->
    resolve_prop d class n2 v2 = Ok (RProp c s2 t2 m2) ->
    s1 = s2 /\ t1 = t2.
(* its part that matters for success: the serialized types agree *)
Definition types_agree (d : db) (class : bytes) (l : list (bytes * value)) : Prop :=
  forall n1 v1 n2 v2 c s1 t1 m1 s2 t2 m2,
    In (n1, v1) l -> In (n2, v2) l ->
    resolve_prop d class n1 v1 = Ok (RProp c s1 t1 m1) ->
    resolve_prop d class n2 v2 = Ok (RProp c s2 t2 m2) ->
    t1 = t2.
(* the hypothesis on migrations: the migrating spellings of one canonical name carry the same operation,
   and a migrating spelling is not the canonical name itself *)
Definition migrations_agree (d : db) (class : bytes) (l : list (bytes * value)) : Prop :=
  forall n1 v1 n2 v2 c s1 t1 m1 s2 t2 m2,
    In (n1, v1) l -> In (n2, v2) l ->
    resolve_prop d class n1 v1 = Ok (RProp c s1 t1 m1) ->
    resolve_prop d class n2 v2 = Ok (RProp c s2 t2 m2) ->
    (forall o1 o2, m1 = Some o1 -> m2 = Some o2 -> o1 = o2) /\ (m1 <> None -> n1 <> c).

Lemma spellings_types_agree d class l : spellings_agree d class l -> types_agree d class l.
Proof. intros H n1 v1 n2 v2 c s1 t1 m1 s2 t2 m2 I1 I2 R1 R2. now destruct (H _ _ _ _ _ _ _ _ _ _ _ I1 I2 R1 R2). Qed.

Lemma types_agree_incl d class l l' : incl l' l -> types_agree d class l -> types_agree d class l'.
Proof. intros Hi H n1 v1 n2 v2 c s1 t1 m1 s2 t2 m2 I1 I2. apply (H n1 v1 n2 v2 c s1 t1 m1 s2 t2 m2); auto. Qed.
Lemma spellings_agree_incl d class l l' : incl l' l -> spellings_agree d class l -> spellings_agree d class l'.
Proof. intros Hi H n1 v1 n2 v2 c s1 t1 m1 s2 t2 m2 I1 I2. apply (H n1 v1 n2 v2 c s1 t1 m1 s2 t2 m2); auto. Qed.
Lemma migrations_agree_incl d class l l' : incl l' l -> migrations_agree d class l -> migrations_agree d class l'.
Proof. intros Hi H n1 v1 n2 v2 c s1 t1 m1 s2 t2 m2 I1 I2. apply (H n1 v1 n2 v2 c s1 t1 m1 s2 t2 m2); auto. Qed.

(* under H the value of a name is irrelevant *)
Lemma resolve_same_name d class l n v1 v2 :
  types_agree d class l -> In (n, v1) l -> In (n, v2) l ->
  resolve_prop d class n v1 = resolve_prop d class n v2.
Proof.
  intros H I1 I2. destruct (resolve_value_indep d class n v1 v2) as [E|[E1 E2]]; [exact E|].
  rewrite E1, E2. now rewrite (H _ _ _ _ _ _ _ _ _ _ _ I1 I2 E1 E2).
Qed.

(* one (class, name, value) triple can be planned: it resolves, and if it names a column, the column can be
   created (a default value exists and the serialized type has a wire type) *)
Definition prop_plannable (d : db) (cls : option cdesc) (class pname : bytes) (v : value) : Prop :=
  exists r, resolve_prop d class pname v = Ok r /\
    match r with
    | RSkip => True
    | RProp c s ty m => exists p, col_plan d cls c ty = Ok p
    end.
(* the same relative to the columns that exist already (creation is not attempted for them) *)
Definition pair_plannable (d : db) (class : bytes) (cls : option cdesc) (props0 : list (bytes * prop_info))
                          (pv : bytes * value) : Prop :=
  exists r, resolve_prop d class (fst pv) (snd pv) = Ok r /\
    match r with
    | RSkip => True
    | RProp c s ty m => haskey c props0 = true \/ exists p, col_plan d cls c ty = Ok p
    end.

Lemma prop_pair_plannable d class cls props0 n v :
  prop_plannable d cls class n v -> pair_plannable d class cls props0 (n, v).
Proof. intros [r [Hr Hp]]. exists r. split; [exact Hr|]. destruct r; auto. Qed.

Lemma col_plan_ok_iff d cls c ty :
  (exists p, col_plan d cls c ty = Ok p) <->
  exists dbdef dv st,
    (match cls with Some k => find_default d k (string_of_bytes c) | None => Ok None end) = Ok dbdef /\
    (match dbdef with Some v => Some v | None => fallback_default_value ty end) = Some dv /\
    from_rbx_type ty = Some st.
Proof.
  unfold col_plan. split.
  - intros [p Hp].
    destruct (match cls with Some k => find_default d k (string_of_bytes c) | None => Ok None end) as [dbdef| | |];
      cbn [rbind] in Hp; try discriminate.
    destruct (match dbdef with Some v => Some v | None => fallback_default_value ty end) as [dv|] eqn:E1; [|discriminate].
    destruct (from_rbx_type ty) as [st|]; [|discriminate]. now exists dbdef, dv, st.
  - intros [dbdef [dv [st [H1 [H2 H3]]]]]. rewrite H1. cbn [rbind]. rewrite H2, H3. eauto.
Qed.

Lemma pair_plannable_mono d class cls props props' pv :
  (forall c, haskey c props = true -> haskey c props' = true) ->
  pair_plannable d class cls props pv -> pair_plannable d class cls props' pv.
Proof.
  intros Hm [r [Hr Hp]]. exists r. split; [exact Hr|]. destruct r as [|c s ty m]; [exact I|].
  destruct Hp as [Hk|Hc]; [left; now apply Hm|now right].
Qed.

(* inversion of one successful step *)
Inductive pstep_case (d : db) (class : bytes) (cls : option cdesc) (st : pstate) (n : bytes) (v : value) (st' : pstate) : Prop :=
| PS_visited : bmem n (ps_vis st) = true -> ps_vis st' = ps_vis st -> ps_props st' = ps_props st ->
               ps_ss st' = track_sstr v (ps_ss st) -> pstep_case d class cls st n v st'
| PS_skip : bmem n (ps_vis st) = false -> resolve_prop d class n v = Ok RSkip ->
            ps_vis st' = n :: ps_vis st -> ps_props st' = ps_props st ->
            ps_ss st' = track_sstr v (ps_ss st) -> pstep_case d class cls st n v st'
| PS_update c s ty m pi : bmem n (ps_vis st) = false -> resolve_prop d class n v = Ok (RProp c s ty m) ->
            bfind c (ps_props st) = Some pi ->
            ps_vis st' = n :: ps_vis st -> ps_props st' = bset c (new_pi n c m pi) (ps_props st) ->
            ps_ss st' = track_sstr v (ps_ss st) -> pstep_case d class cls st n v st'
| PS_create c s ty m dv wt : bmem n (ps_vis st) = false -> resolve_prop d class n v = Ok (RProp c s ty m) ->
            bfind c (ps_props st) = None -> col_plan d cls c ty = Ok (dv, wt) ->
            ps_vis st' = n :: ps_vis st ->
            ps_props st' = binsert (c, new_pi n c m (mkPI wt s [] dv m)) (ps_props st) ->
            ps_ss st' = track_sstr dv (track_sstr v (ps_ss st)) -> pstep_case d class cls st n v st'.

Lemma pstep_inv d class cls st n v st' :
  pstep d class cls st (n, v) = Ok st' -> pstep_case d class cls st n v st'.
Proof.
  unfold pstep. cbn [fst snd].
  destruct (bmem n (ps_vis st)) eqn:Ev.
  - intros [= <-]. now apply PS_visited.
  - destruct (resolve_prop d class n v) as [r| | |] eqn:Er; cbn [rbind]; try discriminate.
    destruct r as [|c s ty m]; cbn [pcore rbind fst snd topt].
    + intros [= <-]. now apply PS_skip.
    + destruct (bfind c (ps_props st)) as [pi|] eqn:Ef; cbn [rbind fst snd topt].
      * intros [= <-]. now apply (PS_update _ _ _ _ _ _ _ c s ty m pi).
      * destruct (col_plan d cls c ty) as [[dv wt]| | |] eqn:Ec; cbn [rbind fst snd]; try discriminate.
        intros [= <-]. now apply (PS_create _ _ _ _ _ _ _ c s ty m dv wt).
Qed.

(* a step only adds visited names and columns *)
Lemma pstep_grows d class cls st pv st' :
  pstep d class cls st pv = Ok st' ->
  (forall a, bmem a (ps_vis st) = true -> bmem a (ps_vis st') = true) /\
  (forall c, haskey c (ps_props st) = true -> haskey c (ps_props st') = true).
Proof.
  destruct pv as [n v]. intros H. apply pstep_inv in H.
  destruct H as [Hv Ev Ep _|Hv Hr Ev Ep _|c s ty m pi Hv Hr Hf Ev Ep _|c s ty m dv wt Hv Hr Hf Hc Ev Ep _]; rewrite Ev, Ep; split; auto;
    try (intros a Ha; rewrite bmem_cons, Ha; apply orb_true_r).
  - intros c0 Hc0. now rewrite haskey_bset.
  - intros c0 Hc0. rewrite haskey_binsert, Hc0. apply orb_true_r.
Qed.

(* sufficiency needs no hypothesis at all *)
Theorem fold_plan_ok_suff d class cls : forall l st,
  Forall (fun pv => bmem (fst pv) (ps_vis st) = true \/ pair_plannable d class cls (ps_props st) pv) l ->
  exists st', fold_res (pstep d class cls) st l = Ok st'.
Proof.
  induction l as [|[n v] l IH]; intros st HF; cbn [fold_res]; [eauto|].
  apply Forall_cons_iff in HF. destruct HF as [Hh Ht]. cbn [fst] in Hh.
  assert (Hs : exists st1, pstep d class cls st (n, v) = Ok st1).
  { unfold pstep. cbn [fst snd]. destruct (bmem n (ps_vis st)) eqn:Ev; [eauto|].
    destruct Hh as [Hh|[r [Hr Hp]]]; [discriminate|]. cbn [fst snd] in Hr. rewrite Hr. cbn [rbind].
    destruct r as [|c s ty m]; cbn [pcore rbind fst snd]; [eauto|].
    destruct (bfind c (ps_props st)) as [pi|] eqn:Ef; cbn [rbind]; [eauto|].
    destruct Hp as [Hk|[p Hp]]; [unfold haskey in Hk; now rewrite Ef in Hk|].
    rewrite Hp. cbn [rbind]. eauto. }
  destruct Hs as [st1 Hs]. rewrite Hs. cbn [rbind]. apply IH.
  destruct (pstep_grows _ _ _ _ _ _ Hs) as [Gv Gp].
  eapply Forall_impl; [|exact Ht]. intros pv [Hv|Hp]; [left; now apply Gv|right].
  eapply pair_plannable_mono; [exact Gp|exact Hp].
Qed.

(* necessity needs H (types): without it a later spelling of a column with an unplannable type goes unnoticed *)
Theorem fold_plan_ok_nec d class cls : forall l st st',
  types_agree d class l ->
  fold_res (pstep d class cls) st l = Ok st' ->
  Forall (fun pv => bmem (fst pv) (ps_vis st) = true \/ pair_plannable d class cls (ps_props st) pv) l.
Proof.
  induction l as [|[n v] l IH]; intros st st' HA HF; [constructor|].
  cbn [fold_res] in HF.
  destruct (pstep d class cls st (n, v)) as [st1| | |] eqn:Hs; cbn [rbind] in HF; try discriminate.
  assert (HAl : types_agree d class l) by (eapply types_agree_incl; [|exact HA]; intros x Hx; now right).
  specialize (IH st1 st' HAl HF).
  pose proof (pstep_inv _ _ _ _ _ _ _ Hs) as Hc.
  (* the head *)
  assert (Hhead : bmem n (ps_vis st) = true \/ pair_plannable d class cls (ps_props st) (n, v)).
  { destruct Hc as [Hv _ _ _|Hv Hr _ _ _|c s ty m pi Hv Hr Hf _ _ _|c s ty m dv wt Hv Hr Hf Hcp _ _ _].
    - now left.
    - right. exists RSkip. split; [exact Hr|exact I].
    - right. exists (RProp c s ty m). split; [exact Hr|]. left. unfold haskey. now rewrite Hf.
    - right. exists (RProp c s ty m). split; [exact Hr|]. right. eauto. }
  constructor; [exact Hhead|].
  rewrite Forall_forall in IH. apply Forall_forall. intros [n' v'] Hin. specialize (IH _ Hin). cbn [fst] in IH |- *.
  assert (Hsame : n' = n -> bmem n (ps_vis st) = false -> pair_plannable d class cls (ps_props st) (n', v')).
  { intros -> Hv. destruct Hhead as [Hh|[r [Hr Hp]]]; [congruence|].
    exists r. split; [|exact Hp]. cbn [fst snd] in *. rewrite <- Hr. symmetry.
    apply (resolve_same_name d class ((n, v) :: l)); [exact HA|now left|now right]. }
  destruct Hc as [Hv Ev Ep _|Hv Hr Ev Ep _|c s ty m pi Hv Hr Hf Ev Ep _|c s ty m dv wt Hv Hr Hf Hcp Ev Ep _];
    rewrite Ev, Ep in IH.
  - exact IH.
  - destruct IH as [IH|IH]; [|now right]. rewrite bmem_cons in IH. apply orb_true_iff in IH.
    destruct IH as [IH|IH]; [|now left]. right. apply Hsame; [now apply bytes_eqb_eq|exact Hv].
  - destruct IH as [IH|IH].
    + rewrite bmem_cons in IH. apply orb_true_iff in IH.
      destruct IH as [IH|IH]; [|now left]. right. apply Hsame; [now apply bytes_eqb_eq|exact Hv].
    + right. eapply pair_plannable_mono; [|exact IH]. intros c0. now rewrite haskey_bset.
  - destruct IH as [IH|[r [Hr' Hp]]].
    + rewrite bmem_cons in IH. apply orb_true_iff in IH.
      destruct IH as [IH|IH]; [|now left]. right. apply Hsame; [now apply bytes_eqb_eq|exact Hv].
    + right. exists r. split; [exact Hr'|]. destruct r as [|c' s' t' m']; [exact I|].
      destruct Hp as [Hk|Hp]; [|now right].
      rewrite haskey_binsert in Hk. apply orb_true_iff in Hk. destruct Hk as [Hk|Hk]; [|now left].
      apply bytes_eqb_eq in Hk. subst c'. right. cbn [fst snd] in Hr'.
      assert (t' = ty) by (apply (HA n' v' n v c s' t' m' s ty m); [now right|now left|exact Hr'|exact Hr]).
      subst t'. eauto.
Qed.

(* the exact characterisation *)
Theorem fold_plan_ok_iff d class cls l st :
  types_agree d class l ->
  (exists st', fold_res (pstep d class cls) st l = Ok st') <->
  Forall (fun pv => bmem (fst pv) (ps_vis st) = true \/ pair_plannable d class cls (ps_props st) pv) l.
Proof.
  intros HA. split.
  - intros [st' H]. eapply fold_plan_ok_nec; eauto.
  - apply fold_plan_ok_suff.
Qed.
Print Assumptions fold_plan_ok_iff.

(* hence: success does not depend on the order *)
Corollary fold_plan_ok_perm d class cls l l' st :
  types_agree d class l -> Permutation l l' ->
  (exists st', fold_res (pstep d class cls) st l = Ok st') ->
  (exists st', fold_res (pstep d class cls) st l' = Ok st').
Proof.
  intros HA Hp H. apply fold_plan_ok_suff. eapply Permutation_Forall; [exact Hp|].
  now apply fold_plan_ok_iff.
Qed.

(* ========================================================================================== *)
(* Part 2: the plan does not depend on the order, up to the order of the alias sets            *)
(* ========================================================================================== *)
Definition is_sstr (v : value) (a : bytes) : bool :=
  match v with VSharedString s => bytes_eqb a s | _ => false end.
Definition is_sstr_o (o : option value) (a : bytes) : bool :=
  match o with Some v => is_sstr v a | None => false end.

Lemma bmem_setadd a s ss : bmem a (if bmem s ss then ss else ss ++ [s]) = bmem a ss || bytes_eqb a s.
Proof.
  destruct (bmem s ss) eqn:E.
  - destruct (bytes_eqb a s) eqn:Ea; [|now rewrite orb_false_r].
    apply bytes_eqb_eq in Ea. subst. now rewrite E.
  - rewrite bmem_app. cbn [bmem existsb]. now rewrite orb_false_r.
Qed.

Lemma nodup_setadd s ss : NoDup ss -> NoDup (if bmem s ss then ss else ss ++ [s]).
Proof.
  intros H. destruct (bmem s ss) eqn:E; [exact H|].
  apply bmem_false_notin in E.
  rewrite <- (rev_involutive (ss ++ [s])). apply NoDup_rev. rewrite rev_app_distr. cbn [rev app].
  constructor; [rewrite <- in_rev; exact E|now apply NoDup_rev].
Qed.

Lemma bmem_track a v ss : bmem a (track_sstr v ss) = bmem a ss || is_sstr v a.
Proof. destruct v; cbn [track_sstr is_sstr]; try now rewrite orb_false_r. apply bmem_setadd. Qed.

Lemma bmem_topt a o ss : bmem a (topt o ss) = bmem a ss || is_sstr_o o a.
Proof. destruct o; cbn [topt is_sstr_o]; [apply bmem_track|now rewrite orb_false_r]. Qed.

Lemma track_nodup v ss : NoDup ss -> NoDup (track_sstr v ss).
Proof. intros H. destruct v; cbn [track_sstr]; auto. now apply nodup_setadd. Qed.

Lemma topt_nodup o ss : NoDup ss -> NoDup (topt o ss).
Proof. destruct o; cbn [topt]; [apply track_nodup|auto]. Qed.

(* equivalence of plans *)
Definition pi_equiv (a b : prop_info) : Prop :=
  pi_type a = pi_type b /\ pi_ser_name a = pi_ser_name b /\ pi_default a = pi_default b /\
  pi_migration a = pi_migration b /\ same_set (pi_aliases a) (pi_aliases b).
Definition props_equiv (p1 p2 : list (bytes * prop_info)) : Prop :=
  Forall2 (fun x y => fst x = fst y /\ pi_equiv (snd x) (snd y)) p1 p2.
Definition st_equiv (a b : pstate) : Prop :=
  same_set (ps_ss a) (ps_ss b) /\ same_set (ps_vis a) (ps_vis b) /\ props_equiv (ps_props a) (ps_props b).
Definition res_equiv {A} (R : A -> A -> Prop) (r1 r2 : res A) : Prop :=
  match r1, r2 with
  | Ok a, Ok b => R a b
  | Ok _, _ | _, Ok _ => False
  | _, _ => True
  end.

Ltac split5 := split; [|split; [|split; [|split]]].
Lemma pi_equiv_refl a : pi_equiv a a.
Proof. split5; try reflexivity. apply same_set_refl. Qed.
Lemma pi_equiv_sym a b : pi_equiv a b -> pi_equiv b a.
Proof. intros (H1 & H2 & H3 & H4 & H5). split5; auto; try now apply same_set_sym. Qed.
Lemma pi_equiv_trans a b c : pi_equiv a b -> pi_equiv b c -> pi_equiv a c.
Proof.
  intros (H1 & H2 & H3 & H4 & H5) (G1 & G2 & G3 & G4 & G5).
  split5; try congruence; try (eapply same_set_trans; eauto).
Qed.

Lemma props_equiv_refl p : props_equiv p p.
Proof. induction p; constructor; auto. split; [reflexivity|apply pi_equiv_refl]. Qed.
Lemma props_equiv_sym p q : props_equiv p q -> props_equiv q p.
Proof. induction 1; constructor; auto. destruct H. split; [auto|now apply pi_equiv_sym]. Qed.
Lemma props_equiv_trans p q r : props_equiv p q -> props_equiv q r -> props_equiv p r.
Proof.
  intros H. revert r. induction H as [|x y p q [Hk Hp] _ IH]; intros r Hr; inversion Hr as [|y' z q' r' [Gk Gp] Hr']; subst; constructor.
  - split; [congruence|eapply pi_equiv_trans; eauto].
  - now apply IH.
Qed.

Ltac split3 := split; [|split].
Lemma st_equiv_refl a : st_equiv a a.
Proof. split3; try apply same_set_refl. apply props_equiv_refl. Qed.
Lemma st_equiv_sym a b : st_equiv a b -> st_equiv b a.
Proof. intros (H1 & H2 & H3). split3; try (now apply same_set_sym); try now apply props_equiv_sym. Qed.
Lemma st_equiv_trans a b c : st_equiv a b -> st_equiv b c -> st_equiv a c.
Proof.
  intros (H1 & H2 & H3) (G1 & G2 & G3). split3; try (eapply same_set_trans; eauto); try (eapply props_equiv_trans; eauto).
Qed.

Lemma res_equiv_refl {A} (R : A -> A -> Prop) r : (forall a, R a a) -> res_equiv R r r.
Proof. intros H. destruct r; cbn; auto. Qed.
Lemma res_equiv_sym {A} (R : A -> A -> Prop) r1 r2 :
  (forall a b, R a b -> R b a) -> res_equiv R r1 r2 -> res_equiv R r2 r1.
Proof. intros H. destruct r1, r2; cbn; auto. Qed.
Lemma res_equiv_trans {A} (R : A -> A -> Prop) r1 r2 r3 :
  (forall a b c, R a b -> R b c -> R a c) -> res_equiv R r1 r2 -> res_equiv R r2 r3 -> res_equiv R r1 r3.
Proof. intros H. destruct r1, r2, r3; cbn; auto; try tauto. apply H. Qed.

Lemma res_equiv_bind {A B} (R : A -> A -> Prop) (S : B -> B -> Prop) r1 r2 (f1 f2 : A -> res B) :
  res_equiv R r1 r2 -> (forall a b, R a b -> res_equiv S (f1 a) (f2 b)) ->
  res_equiv S (rbind r1 f1) (rbind r2 f2).
Proof. intros H Hf. destruct r1, r2; cbn in *; auto; try tauto. Qed.

Lemma props_equiv_keys p q : props_equiv p q -> List.map fst p = List.map fst q.
Proof. induction 1 as [|x y p q [Hk _] _ IH]; cbn [List.map]; [reflexivity|]. now rewrite Hk, IH. Qed.

Lemma pe_bfind c p q : props_equiv p q ->
  match bfind c p, bfind c q with
  | Some a, Some b => pi_equiv a b
  | None, None => True
  | _, _ => False
  end.
Proof.
  induction 1 as [|[k1 a] [k2 b] p q [Hk Hp] _ IH]; cbn [bfind]; [exact I|].
  cbn [fst snd] in Hk, Hp. subst k2. destruct (bytes_eqb c k1); [exact Hp|exact IH].
Qed.

Lemma pe_bset c a b p q : pi_equiv a b -> props_equiv p q -> props_equiv (bset c a p) (bset c b q).
Proof.
  intros Hab. induction 1 as [|[k1 x] [k2 y] p q [Hk Hp] Hr IH]; cbn [bset]; [constructor|].
  cbn [fst snd] in Hk, Hp. subst k2. destruct (bytes_eqb c k1).
  - constructor; [split; [reflexivity|exact Hab]|exact Hr].
  - constructor; [split; [reflexivity|exact Hp]|exact IH].
Qed.

Lemma pe_binsert c a b p q : pi_equiv a b -> props_equiv p q -> props_equiv (binsert (c, a) p) (binsert (c, b) q).
Proof.
  intros Hab. induction 1 as [|[k1 x] [k2 y] p q [Hk Hp] Hr IH]; cbn [binsert fst].
  - constructor; [split; [reflexivity|exact Hab]|constructor].
  - cbn [fst snd] in Hk, Hp. subst k2. destruct (bytes_ltb k1 c).
    + constructor; [split; [reflexivity|exact Hp]|exact IH].
    + constructor; [split; [reflexivity|exact Hab]|]. constructor; [split; [reflexivity|exact Hp]|exact Hr].
Qed.

Lemma bmem_add_alias a n m pi : bmem a (pi_aliases (add_alias n m pi)) = bmem a (pi_aliases pi) || bytes_eqb a n.
Proof. unfold add_alias. cbn [pi_aliases]. apply bmem_setadd. Qed.

Lemma bmem_new_pi a n c m pi :
  bmem a (pi_aliases (new_pi n c m pi)) = bmem a (pi_aliases pi) || (negb (bytes_eqb n c) && bytes_eqb a n).
Proof.
  unfold new_pi. destruct (bytes_eqb n c); cbn [negb andb]; [now rewrite orb_false_r|apply bmem_add_alias].
Qed.

Lemma new_pi_fields n c m pi :
  pi_type (new_pi n c m pi) = pi_type pi /\ pi_ser_name (new_pi n c m pi) = pi_ser_name pi /\
  pi_default (new_pi n c m pi) = pi_default pi /\
  pi_migration (new_pi n c m pi) = (if bytes_eqb n c then pi_migration pi
                                    else match m with Some _ => m | None => pi_migration pi end).
Proof. unfold new_pi. destruct (bytes_eqb n c); split; [|split; [|split]| |split; [|split]]; reflexivity. Qed.

Lemma new_pi_equiv n c m a b : pi_equiv a b -> pi_equiv (new_pi n c m a) (new_pi n c m b).
Proof.
  intros (H1 & H2 & H3 & H4 & H5).
  destruct (new_pi_fields n c m a) as (A1 & A2 & A3 & A4). destruct (new_pi_fields n c m b) as (B1 & B2 & B3 & B4).
  split5; try congruence.
  - rewrite A4, B4, H4. reflexivity.
  - intros x. now rewrite !bmem_new_pi, H5.
Qed.

Lemma add_alias_nodup n m pi : NoDup (pi_aliases pi) -> NoDup (pi_aliases (add_alias n m pi)).
Proof. intros H. unfold add_alias. cbn [pi_aliases]. now apply nodup_setadd. Qed.

Lemma new_pi_nodup n c m pi : NoDup (pi_aliases pi) -> NoDup (pi_aliases (new_pi n c m pi)).
Proof. unfold new_pi. destruct (bytes_eqb n c); [auto|apply add_alias_nodup]. Qed.

(* ---- congruence: equivalent states step to equivalent states ---- *)
Definition core_equiv (x y : option value * list (bytes * prop_info)) : Prop :=
  fst x = fst y /\ props_equiv (snd x) (snd y).

Lemma pcore_cong d cls n r p q : props_equiv p q -> res_equiv core_equiv (pcore d cls n r p) (pcore d cls n r q).
Proof.
  intros H. destruct r as [|c s ty m]; cbn [pcore]; [split; [reflexivity|exact H]|].
  pose proof (pe_bfind c p q H) as Hf.
  destruct (bfind c p) as [a|], (bfind c q) as [b|]; try contradiction.
  - split; [reflexivity|]. cbn [snd]. apply pe_bset; [now apply new_pi_equiv|exact H].
  - destruct (col_plan d cls c ty) as [[dv wt]| | |]; cbn [rbind res_equiv]; auto.
    split; [reflexivity|]. cbn [fst snd]. apply pe_binsert; [apply pi_equiv_refl|exact H].
Qed.

Lemma pstep_cong d class cls a b pv :
  st_equiv a b -> res_equiv st_equiv (pstep d class cls a pv) (pstep d class cls b pv).
Proof.
  intros (Hs & Hv & Hp). unfold pstep. rewrite (Hv (fst pv)).
  destruct (bmem (fst pv) (ps_vis b)).
  - split3; cbn [ps_ss ps_vis ps_props fst snd]; auto.
    intros x. rewrite !bmem_track. now rewrite (Hs x).
  - destruct (resolve_prop d class (fst pv) (snd pv)) as [r| | |]; cbn [rbind res_equiv]; auto.
    eapply res_equiv_bind; [apply pcore_cong; exact Hp|].
    intros [o1 p1] [o2 p2] [Ho Hpp]. cbn [fst snd] in *. subst o2.
    split3; cbn [ps_ss ps_vis ps_props fst snd]; auto.
    + intros x. rewrite !bmem_topt, !bmem_track. now rewrite (Hs x).
    + intros x. rewrite !bmem_cons. now rewrite (Hv x).
Qed.

Lemma fold_pstep_cong d class cls : forall l a b,
  st_equiv a b -> res_equiv st_equiv (fold_res (pstep d class cls) a l) (fold_res (pstep d class cls) b l).
Proof.
  induction l as [|pv l IH]; intros a b H; cbn [fold_res]; [exact H|].
  eapply res_equiv_bind; [apply pstep_cong; exact H|]. intros a' b' H'. now apply IH.
Qed.

(* ---- commutation: two adjacent pairs may be exchanged ---- *)
Definition mig_compat (n1 n2 c : bytes) (m1 m2 : option migop) : Prop :=
  (forall o1 o2, m1 = Some o1 -> m2 = Some o2 -> o1 = o2) /\ (m1 <> None -> n1 <> c) /\ (m2 <> None -> n2 <> c).

Ltac mig_cases Hne Hop Hn1 Hn2 :=
  repeat match goal with
  | H : bytes_eqb _ _ = true |- _ => apply bytes_eqb_eq in H; subst
  end;
  try reflexivity; try congruence;
  first [ now rewrite bytes_eqb_refl in Hne
        | exfalso; apply Hn1; [discriminate|reflexivity]
        | exfalso; apply Hn2; [discriminate|reflexivity]
        | f_equal; symmetry; now apply Hop
        | f_equal; now apply Hop ].

Lemma new_pi_swap_existing n1 n2 c m1 m2 pi :
  mig_compat n1 n2 c m1 m2 ->
  pi_equiv (new_pi n2 c m2 (new_pi n1 c m1 pi)) (new_pi n1 c m1 (new_pi n2 c m2 pi)).
Proof.
  intros (Hop & Hn1 & Hn2).
  destruct (new_pi_fields n2 c m2 (new_pi n1 c m1 pi)) as (A1 & A2 & A3 & A4).
  destruct (new_pi_fields n1 c m1 pi) as (B1 & B2 & B3 & B4).
  destruct (new_pi_fields n1 c m1 (new_pi n2 c m2 pi)) as (C1 & C2 & C3 & C4).
  destruct (new_pi_fields n2 c m2 pi) as (D1 & D2 & D3 & D4).
  split5; try congruence.
  - rewrite A4, B4, C4, D4.
    assert (Hne : True) by exact I.
    destruct (bytes_eqb n1 c) eqn:E1; destruct (bytes_eqb n2 c) eqn:E2; destruct m1 as [o1|]; destruct m2 as [o2|];
      mig_cases Hne Hop Hn1 Hn2.
  - intros x. rewrite !bmem_new_pi. rewrite <- !orb_assoc. f_equal. apply orb_comm.
Qed.

Lemma new_pi_swap_created n1 n2 c m1 m2 wt s dv :
  bytes_eqb n1 n2 = false -> mig_compat n1 n2 c m1 m2 ->
  pi_equiv (new_pi n2 c m2 (new_pi n1 c m1 (mkPI wt s [] dv m1))) (new_pi n1 c m1 (new_pi n2 c m2 (mkPI wt s [] dv m2))).
Proof.
  intros Hne (Hop & Hn1 & Hn2).
  destruct (new_pi_fields n2 c m2 (new_pi n1 c m1 (mkPI wt s [] dv m1))) as (A1 & A2 & A3 & A4).
  destruct (new_pi_fields n1 c m1 (mkPI wt s [] dv m1)) as (B1 & B2 & B3 & B4).
  destruct (new_pi_fields n1 c m1 (new_pi n2 c m2 (mkPI wt s [] dv m2))) as (C1 & C2 & C3 & C4).
  destruct (new_pi_fields n2 c m2 (mkPI wt s [] dv m2)) as (D1 & D2 & D3 & D4).
  split5; try (cbn [pi_type pi_ser_name pi_default] in *; congruence).
  - rewrite A4, B4, C4, D4. cbn [pi_migration].
    destruct (bytes_eqb n1 c) eqn:E1; destruct (bytes_eqb n2 c) eqn:E2; destruct m1 as [o1|]; destruct m2 as [o2|];
      mig_cases Hne Hop Hn1 Hn2.
  - intros x. rewrite !bmem_new_pi. cbn [pi_aliases]. rewrite <- !orb_assoc. f_equal. apply orb_comm.
Qed.

Definition core2_equiv (x y : option value * option value * list (bytes * prop_info)) : Prop :=
  (forall a, is_sstr_o (fst (fst x)) a || is_sstr_o (snd (fst x)) a
             = is_sstr_o (fst (fst y)) a || is_sstr_o (snd (fst y)) a) /\
  props_equiv (snd x) (snd y).

Lemma pcore_swap d cls n1 n2 r1 r2 props :
  bytes_eqb n1 n2 = false ->
  (forall c s1 t1 m1 s2 t2 m2, r1 = RProp c s1 t1 m1 -> r2 = RProp c s2 t2 m2 ->
     s1 = s2 /\ t1 = t2 /\ mig_compat n1 n2 c m1 m2) ->
  res_equiv core2_equiv
    (q1 <- pcore d cls n1 r1 props ;; q2 <- pcore d cls n2 r2 (snd q1) ;; Ok (fst q1, fst q2, snd q2))
    (q2 <- pcore d cls n2 r2 props ;; q1 <- pcore d cls n1 r1 (snd q2) ;; Ok (fst q1, fst q2, snd q1)).
Proof.
  intros Hne Hagree.
  destruct r1 as [|c1 s1 t1 m1]; destruct r2 as [|c2 s2 t2 m2].
  - cbn [pcore rbind fst snd]. split; [reflexivity|apply props_equiv_refl].
  - remember (pcore d cls n2 (RProp c2 s2 t2 m2)) as f eqn:Ef. cbn [pcore rbind fst snd].
    destruct (f props) as [[o p]| | |]; cbn [rbind res_equiv fst snd]; auto.
    split; [reflexivity|apply props_equiv_refl].
  - remember (pcore d cls n1 (RProp c1 s1 t1 m1)) as f eqn:Ef. cbn [pcore rbind fst snd].
    destruct (f props) as [[o p]| | |]; cbn [rbind res_equiv fst snd]; auto.
    split; [reflexivity|apply props_equiv_refl].
  - destruct (bytes_eqb c1 c2) eqn:Ec.
    + apply bytes_eqb_eq in Ec. subst c2.
      destruct (Hagree c1 s1 t1 m1 s2 t2 m2 eq_refl eq_refl) as (-> & -> & Hmc).
      cbn [pcore]. destruct (bfind c1 props) as [pi|] eqn:Ef; cbn [rbind fst snd].
      * rewrite !bfind_bset_same, Ef. cbn [rbind fst snd res_equiv]. rewrite !bset_bset_same.
        split; [reflexivity|]. cbn [snd]. apply pe_bset; [|apply props_equiv_refl]. now apply new_pi_swap_existing.
      * destruct (col_plan d cls c1 t2) as [[dv wt]| | |]; cbn [rbind fst snd res_equiv]; auto.
        rewrite !bfind_binsert_same. cbn [rbind fst snd res_equiv]. rewrite !bset_binsert_same.
        split; [intros a; cbn [fst snd is_sstr_o]; now rewrite orb_false_r|].
        cbn [snd]. apply pe_binsert; [|apply props_equiv_refl]. now apply new_pi_swap_created.
    + assert (Ec' : bytes_eqb c2 c1 = false) by now rewrite bytes_eqb_sym.
      cbn [pcore].
      destruct (bfind c1 props) as [pi1|] eqn:E1; destruct (bfind c2 props) as [pi2|] eqn:E2; cbn [rbind fst snd].
      * rewrite (bfind_bset_other c2 c1), (bfind_bset_other c1 c2), E1, E2 by assumption. cbn [rbind fst snd res_equiv].
        rewrite (bset_bset_comm c2 c1) by assumption. split; [reflexivity|apply props_equiv_refl].
      * rewrite (bfind_bset_other c2 c1), E2 by assumption.
        destruct (col_plan d cls c2 t2) as [[dv wt]| | |]; cbn [rbind fst snd res_equiv]; auto.
        rewrite (bfind_binsert_other c1 c2), E1 by assumption. cbn [rbind fst snd res_equiv].
        rewrite (bset_binsert_comm c1 c2) by assumption. split; [reflexivity|apply props_equiv_refl].
      * rewrite (bfind_bset_other c1 c2), E1 by assumption.
        destruct (col_plan d cls c1 t1) as [[dv wt]| | |]; cbn [rbind fst snd res_equiv]; auto.
        rewrite (bfind_binsert_other c2 c1), E2 by assumption. cbn [rbind fst snd res_equiv].
        rewrite (bset_binsert_comm c2 c1) by assumption. split; [reflexivity|apply props_equiv_refl].
      * destruct (col_plan d cls c1 t1) as [[dv1 wt1]| | |]; destruct (col_plan d cls c2 t2) as [[dv2 wt2]| | |];
          cbn [rbind fst snd res_equiv];
          rewrite ?(bfind_binsert_other c2 c1), ?(bfind_binsert_other c1 c2), ?E1, ?E2 by assumption;
          cbn [rbind fst snd res_equiv]; auto.
        rewrite (binsert_binsert_comm c2 c1) by assumption. split; [reflexivity|apply props_equiv_refl].
Qed.

Lemma pstep_eq d class cls ss vis props n v :
  pstep d class cls (ss, vis, props) (n, v) =
  if bmem n vis then Ok (track_sstr v ss, vis, props) else
  r <- resolve_prop d class n v ;; q <- pcore d cls n r props ;;
  Ok (topt (fst q) (track_sstr v ss), n :: vis, snd q).
Proof. reflexivity. Qed.

Ltac bool_ext := intros ?a; repeat (rewrite bmem_cons || rewrite bmem_topt || rewrite bmem_track);
  repeat match goal with |- context [bmem ?x ?l] => destruct (bmem x l) end;
  repeat match goal with |- context [is_sstr ?v ?x] => destruct (is_sstr v x) end;
  repeat match goal with |- context [is_sstr_o ?v ?x] => destruct (is_sstr_o v x) end;
  repeat match goal with |- context [bytes_eqb ?v ?x] => destruct (bytes_eqb v x) end;
  reflexivity.

Lemma pstep_swap d class cls st x y :
  spellings_agree d class [x; y] -> migrations_agree d class [x; y] ->
  res_equiv st_equiv (s <- pstep d class cls st x ;; pstep d class cls s y)
                     (s <- pstep d class cls st y ;; pstep d class cls s x).
Proof.
  intros HS HM. destruct st as [[ss vis] props]. destruct x as [n1 v1]. destruct y as [n2 v2].
  destruct (bytes_eqb n1 n2) eqn:En.
  - (* the same name twice: only the first is looked at *)
    apply bytes_eqb_eq in En. subst n2. rewrite !pstep_eq.
    destruct (bmem n1 vis) eqn:Ev; cbn [rbind].
    + rewrite !pstep_eq, Ev. split3; cbn [ps_ss ps_vis ps_props fst snd]; [bool_ext|apply same_set_refl|apply props_equiv_refl].
    + assert (ER : resolve_prop d class n1 v1 = resolve_prop d class n1 v2).
      { apply (resolve_same_name d class [(n1, v1); (n1, v2)]); [now apply spellings_types_agree|now left|right; now left]. }
      rewrite ER. destruct (resolve_prop d class n1 v2) as [r| | |]; cbn [rbind res_equiv]; auto.
      destruct (pcore d cls n1 r props) as [[o p]| | |]; cbn [rbind res_equiv fst snd]; auto.
      rewrite !pstep_eq, bmem_cons, bytes_eqb_refl. cbn [orb].
      split3; cbn [ps_ss ps_vis ps_props fst snd]; [bool_ext|apply same_set_refl|apply props_equiv_refl].
  - assert (En' : bytes_eqb n2 n1 = false) by now rewrite bytes_eqb_sym.
    rewrite !pstep_eq.
    destruct (bmem n1 vis) eqn:E1; destruct (bmem n2 vis) eqn:E2; cbn [rbind].
    + rewrite !pstep_eq, E1, E2.
      split3; cbn [ps_ss ps_vis ps_props fst snd]; [bool_ext|apply same_set_refl|apply props_equiv_refl].
    + rewrite pstep_eq, E2.
      destruct (resolve_prop d class n2 v2) as [r| | |]; cbn [rbind res_equiv]; auto.
      destruct (pcore d cls n2 r props) as [[o p]| | |]; cbn [rbind res_equiv fst snd]; auto.
      rewrite pstep_eq, bmem_cons, E1, orb_true_r.
      split3; cbn [ps_ss ps_vis ps_props fst snd]; [bool_ext|apply same_set_refl|apply props_equiv_refl].
    + rewrite (pstep_eq _ _ _ _ _ _ n1 v1), E1.
      destruct (resolve_prop d class n1 v1) as [r| | |]; cbn [rbind res_equiv]; auto.
      destruct (pcore d cls n1 r props) as [[o p]| | |]; cbn [rbind res_equiv fst snd]; auto.
      rewrite pstep_eq, bmem_cons, E2, orb_true_r.
      split3; cbn [ps_ss ps_vis ps_props fst snd]; [bool_ext|apply same_set_refl|apply props_equiv_refl].
    + destruct (resolve_prop d class n1 v1) as [r1| | |] eqn:R1; destruct (resolve_prop d class n2 v2) as [r2| | |] eqn:R2;
        cbn [rbind res_equiv]; auto;
        try (destruct (pcore d cls n2 r2 props) as [[o p]| | |]; cbn [rbind res_equiv fst snd]; auto;
             rewrite pstep_eq, bmem_cons, En, E1, R1; cbn [orb rbind res_equiv]; exact I);
        try (destruct (pcore d cls n1 r1 props) as [[o p]| | |]; cbn [rbind res_equiv fst snd]; auto;
             rewrite pstep_eq, bmem_cons, En', E2, R2; cbn [orb rbind res_equiv]; exact I).
      assert (Hsw := pcore_swap d cls n1 n2 r1 r2 props En).
      assert (Hag : forall c s1 t1 m1 s2 t2 m2, r1 = RProp c s1 t1 m1 -> r2 = RProp c s2 t2 m2 ->
                    s1 = s2 /\ t1 = t2 /\ mig_compat n1 n2 c m1 m2).
      { intros c s1 t1 m1 s2 t2 m2 -> ->.
        assert (I1 : In (n1, v1) [(n1, v1); (n2, v2)]) by now left.
        assert (I2 : In (n2, v2) [(n1, v1); (n2, v2)]) by (right; now left).
        destruct (HS _ _ _ _ _ _ _ _ _ _ _ I1 I2 R1 R2) as [-> ->].
        destruct (HM _ _ _ _ _ _ _ _ _ _ _ I1 I2 R1 R2) as [Ho Hc1].
        destruct (HM _ _ _ _ _ _ _ _ _ _ _ I2 I1 R2 R1) as [_ Hc2].
        split; [reflexivity|]. split; [reflexivity|]. split; [exact Ho|]. split; assumption. }
      specialize (Hsw Hag). clear Hag.
      destruct (pcore d cls n1 r1 props) as [[o1 p1]| | |]; destruct (pcore d cls n2 r2 props) as [[o2 p2]| | |];
        cbn [rbind res_equiv fst snd] in Hsw |- *; auto;
        rewrite ?pstep_eq, ?bmem_cons, ?En, ?En', ?E1, ?E2, ?R1, ?R2; cbn [orb rbind res_equiv fst snd];
        try (destruct (pcore d cls n2 r2 p1) as [[o2' p2']| | |]; cbn [rbind res_equiv fst snd] in Hsw |- *; auto);
        try (destruct (pcore d cls n1 r1 p2) as [[o1' p1']| | |]; cbn [rbind res_equiv fst snd] in Hsw |- *; auto).
      destruct Hsw as [Hs Hp]. cbn [fst snd] in Hs, Hp.
      split3; cbn [ps_ss ps_vis ps_props fst snd]; [|bool_ext|exact Hp].
      intros a. repeat (rewrite bmem_topt || rewrite bmem_track). specialize (Hs a).
      destruct (bmem a ss), (is_sstr v1 a), (is_sstr v2 a), (is_sstr_o o1 a), (is_sstr_o o2 a),
               (is_sstr_o o1' a), (is_sstr_o o2' a); cbn [orb] in *; congruence.
Qed.

Lemma rbind_assoc {A B C} (r : res A) (f : A -> res B) (g : B -> res C) :
  rbind (rbind r f) g = rbind r (fun a => rbind (f a) g).
Proof. destruct r; reflexivity. Qed.

Lemma perm_incl {A} (l l' : list A) : Permutation l l' -> incl l' l.
Proof. intros Hp x Hx. eapply Permutation_in; [apply Permutation_sym; exact Hp|exact Hx]. Qed.

(* MAIN (Part 2): two runs over permuted inputs from equivalent states either both fail or end in equivalent
   states: same keys, same wire type / serialized name / default / migration per key, same alias SETS,
   same visited set, same shared-string set *)
Theorem fold_pstep_perm d class cls l l' :
  Permutation l l' -> spellings_agree d class l -> migrations_agree d class l ->
  forall a b, st_equiv a b ->
  res_equiv st_equiv (fold_res (pstep d class cls) a l) (fold_res (pstep d class cls) b l').
Proof.
  induction 1 as [|x l l' Hp IH|x y l|l l' l'' Hp1 IH1 Hp2 IH2]; intros HS HM a b Hab.
  - exact Hab.
  - cbn [fold_res]. apply (res_equiv_bind st_equiv st_equiv); [apply pstep_cong; exact Hab|].
    intros a' b' Hab'. apply IH; auto.
    + eapply spellings_agree_incl; [|exact HS]. intros z Hz. now right.
    + eapply migrations_agree_incl; [|exact HM]. intros z Hz. now right.
  - cbn [fold_res]. rewrite <- !rbind_assoc.
    apply (res_equiv_bind st_equiv st_equiv); [|intros a' b' Hab'; now apply fold_pstep_cong].
    eapply res_equiv_trans; [apply st_equiv_trans| |].
    + apply pstep_swap.
      * eapply spellings_agree_incl; [|exact HS]. intros z [<-|[<-|[]]]; [now left|right; now left].
      * eapply migrations_agree_incl; [|exact HM]. intros z [<-|[<-|[]]]; [now left|right; now left].
    + apply (res_equiv_bind st_equiv st_equiv); [apply pstep_cong; exact Hab|]. intros a' b' Hab'. now apply pstep_cong.
  - eapply res_equiv_trans; [apply st_equiv_trans|apply IH1; eauto|].
    apply IH2; [| |apply st_equiv_refl].
    + eapply spellings_agree_incl; [|exact HS]. now apply perm_incl.
    + eapply migrations_agree_incl; [|exact HM]. now apply perm_incl.
Qed.
Print Assumptions fold_pstep_perm.

(* the invariants that turn "same set" into "permutation" *)
Definition st_nodup (st : pstate) : Prop :=
  NoDup (ps_ss st) /\ Forall (fun kp => NoDup (pi_aliases (snd kp))) (ps_props st).

Lemma forall_bset {V} (P : bytes * V -> Prop) c v m :
  (forall k, P (k, v)) -> Forall P m -> Forall P (bset c v m).
Proof.
  intros Hv. induction 1 as [|[k x] m Hx Hm IH]; cbn [bset]; [constructor|].
  destruct (bytes_eqb c k); constructor; auto.
Qed.

Lemma forall_binsert {V} (P : bytes * V -> Prop) kv m : P kv -> Forall P m -> Forall P (binsert kv m).
Proof.
  intros Hv. induction 1 as [|x m Hx Hm IH]; cbn [binsert]; [constructor; auto|].
  destruct (bytes_ltb (fst x) (fst kv)); constructor; auto.
Qed.

Lemma pstep_nodup d class cls st pv st' : pstep d class cls st pv = Ok st' -> st_nodup st -> st_nodup st'.
Proof.
  destruct pv as [n v]. intros H [Hs Hp]. apply pstep_inv in H.
  destruct H as [Hv Ev Ep Es|Hv Hr Ev Ep Es|c s ty m pi Hv Hr Hf Ev Ep Es|c s ty m dv wt Hv Hr Hf Hc Ev Ep Es];
    unfold st_nodup; rewrite Ep, Es; split; auto using track_nodup.
  - apply forall_bset; [|exact Hp]. intros k. cbn [snd]. apply new_pi_nodup.
    apply bfind_in in Hf. rewrite Forall_forall in Hp. exact (Hp _ Hf).
  - apply forall_binsert; [|exact Hp]. cbn [snd]. apply new_pi_nodup. cbn [pi_aliases]. constructor.
Qed.

Lemma fold_pstep_nodup d class cls : forall l st st',
  fold_res (pstep d class cls) st l = Ok st' -> st_nodup st -> st_nodup st'.
Proof.
  induction l as [|pv l IH]; intros st st' H Hn; cbn [fold_res] in H; [now injection H as <-|].
  destruct (pstep d class cls st pv) as [st1| | |] eqn:E; cbn [rbind] in H; try discriminate.
  eapply IH; [exact H|]. eapply pstep_nodup; eauto.
Qed.

(* the order in which names are marked visited / columns gain their aliases *)
Definition pi_equiv_perm (a b : prop_info) : Prop :=
  pi_type a = pi_type b /\ pi_ser_name a = pi_ser_name b /\ pi_default a = pi_default b /\
  pi_migration a = pi_migration b /\ Permutation (pi_aliases a) (pi_aliases b).

Lemma props_equiv_perm p q :
  props_equiv p q ->
  Forall (fun kp => NoDup (pi_aliases (snd kp))) p -> Forall (fun kp => NoDup (pi_aliases (snd kp))) q ->
  Forall2 (fun x y => fst x = fst y /\ pi_equiv_perm (snd x) (snd y)) p q.
Proof.
  induction 1 as [|x y p q [Hk (H1 & H2 & H3 & H4 & H5)] _ IH]; intros Np Nq; [constructor|].
  apply Forall_cons_iff in Np, Nq. destruct Np as [Nx Np], Nq as [Ny Nq].
  constructor; [|now apply IH]. split; [exact Hk|]. split5; auto. now apply same_set_perm.
Qed.

(* ========================================================================================== *)
(* collect_type_info over a list of instances of one class                                     *)
(* ========================================================================================== *)
(* TypeInfos::get_or_create seen from outside *)
Definition class_ti (d : db) (class : bytes) (st : ser_state) : type_info :=
  match bfind class (ss_types st) with Some ti => ti | None => new_type_info d (ss_next_id st) class end.
Definition class_types (d : db) (class : bytes) (st : ser_state) : list (bytes * type_info) :=
  match bfind class (ss_types st) with
  | Some _ => ss_types st
  | None => binsert (class, new_type_info d (ss_next_id st) class) (ss_types st)
  end.
Definition class_next (class : bytes) (st : ser_state) : N :=
  match bfind class (ss_types st) with Some _ => ss_next_id st | None => ss_next_id st + 1 end.
Definition class_state (d : db) (class : bytes) (st : ser_state) : pstate :=
  (ss_sstr st, ti_visited (class_ti d class st), ti_props (class_ti d class st)).

(* the planning of a whole run of instances of [class]: one fold over all their properties *)
Definition plan_result (d : db) (class : bytes) (st : ser_state) (refs : list N) (r : pstate) : ser_state :=
  let ti0 := class_ti d class st in
  mkSS (ss_relevant st)
       (bset class (mkTI (ti_id ti0) (ti_service ti0) (ti_instances ti0 ++ refs) (ps_props r) (ti_class ti0) (ps_vis r))
             (class_types d class st))
       (class_next class st) (ps_ss r).
Definition plan_class (d : db) (class : bytes) (st : ser_state) (insts : list inst) : res ser_state :=
  r <- fold_res (pstep d class (ti_class (class_ti d class st))) (class_state d class st) (flat_map i_props insts) ;;
  Ok (plan_result d class st (List.map i_ref insts) r).

Lemma collect_type_info_eq d st i : collect_type_info d st i = plan_class d (i_class i) st [i].
Proof.
  unfold collect_type_info, plan_class, plan_result, class_state, class_ti, class_types, class_next.
  cbn [flat_map List.map]. rewrite app_nil_r.
  destruct (bfind (i_class i) (ss_types st)) as [ti|]; rewrite fold_cti_pstep; unfold rmap, proj_state, lift_state, ti_with;
    cbn [fst snd ti_id ti_service ti_instances ti_props ti_class ti_visited];
    match goal with |- context [fold_res ?f ?a ?l] => destruct (fold_res f a l) as [[[ss vis] props]| | |] end;
    reflexivity.
Qed.

Lemma class_types_has d class st : bfind class (class_types d class st) = Some (class_ti d class st).
Proof.
  unfold class_types, class_ti. destruct (bfind class (ss_types st)) eqn:E; [exact E|apply bfind_binsert_same].
Qed.

Lemma plan_result_after d class st refs r :
  let st1 := plan_result d class st refs r in
  class_ti d class st1 = mkTI (ti_id (class_ti d class st)) (ti_service (class_ti d class st))
                              (ti_instances (class_ti d class st) ++ refs) (ps_props r)
                              (ti_class (class_ti d class st)) (ps_vis r) /\
  class_types d class st1 = ss_types st1 /\ class_next class st1 = class_next class st /\
  ss_sstr st1 = ps_ss r /\ ss_relevant st1 = ss_relevant st.
Proof.
  cbv zeta. unfold class_ti at 1, class_types at 1, class_next at 1. unfold plan_result. cbn [ss_types ss_next_id ss_sstr ss_relevant].
  rewrite bfind_bset_same, class_types_has. repeat split.
Qed.

Lemma plan_class_cons d class st i insts :
  i_class i = class ->
  (st1 <- collect_type_info d st i ;; plan_class d class st1 insts) = plan_class d class st (i :: insts).
Proof.
  intros Hc. rewrite collect_type_info_eq, Hc. unfold plan_class at 1 3. cbn [flat_map List.map]. rewrite app_nil_r.
  rewrite fold_res_app.
  destruct (fold_res (pstep d class (ti_class (class_ti d class st))) (class_state d class st) (i_props i)) as [r| | |];
    cbn [rbind]; try reflexivity.
  destruct (plan_result_after d class st [i_ref i] r) as (E1 & E2 & E3 & E4 & E5). cbv zeta in *.
  unfold plan_class, class_state. rewrite E1, E4. cbn [ti_class ti_visited ti_props].
  destruct r as [[ss vis] props]. cbn [ps_ss ps_vis ps_props fst snd].
  match goal with |- context [fold_res ?f ?a ?l] => destruct (fold_res f a l) as [r2| | |] end; cbn [rbind]; try reflexivity.
  f_equal. unfold plan_result at 1. rewrite E1, E2, E3, E5. cbn [ti_id ti_service ti_instances ti_class].
  unfold plan_result at 1. cbn [ss_types]. rewrite bset_bset_same.
  unfold plan_result. rewrite <- app_assoc. reflexivity.
Qed.

Theorem fold_collect_same_class d class : forall insts i st,
  Forall (fun j => i_class j = class) (i :: insts) ->
  fold_res (collect_type_info d) st (i :: insts) = plan_class d class st (i :: insts).
Proof.
  induction insts as [|j insts IH]; intros i st HF; apply Forall_cons_iff in HF; destruct HF as [Hi HF].
  - cbn [fold_res]. rewrite collect_type_info_eq, Hi. destruct (plan_class d class st [i]); reflexivity.
  - rewrite <- plan_class_cons by exact Hi. cbn [fold_res] in *.
    destruct (collect_type_info d st i) as [st1| | |]; cbn [rbind]; try reflexivity.
    apply IH. exact HF.
Qed.

Lemma plan_class_ok_iff d class st insts :
  (exists st', plan_class d class st insts = Ok st') <->
  (exists r, fold_res (pstep d class (ti_class (class_ti d class st))) (class_state d class st) (flat_map i_props insts) = Ok r).
Proof.
  unfold plan_class. split.
  - intros [st' H]. destruct (fold_res _ _ _) as [r| | |]; cbn [rbind] in H; try discriminate. eauto.
  - intros [r H]. rewrite H. cbn [rbind]. eauto.
Qed.

(* the same DOM content listed differently: siblings permuted, each property map iterated in another order *)
Definition inst_perm (i i' : inst) : Prop :=
  i_ref i = i_ref i' /\ i_parent i = i_parent i' /\ i_class i = i_class i' /\ i_name i = i_name i' /\
  Permutation (i_props i) (i_props i').
Definition insts_perm (l l' : list inst) : Prop :=
  exists m, Permutation l m /\ Forall2 inst_perm m l'.

Lemma insts_perm_props l l' : insts_perm l l' -> Permutation (flat_map i_props l) (flat_map i_props l').
Proof.
  intros [m [Hp HF]]. eapply Permutation_trans; [apply Permutation_flat_map; exact Hp|]. clear Hp.
  induction HF as [|i i' m l' (_ & _ & _ & _ & Hi) _ IH]; cbn [flat_map]; [constructor|].
  now apply Permutation_app.
Qed.

Lemma insts_perm_class class l l' :
  insts_perm l l' -> Forall (fun j => i_class j = class) l -> Forall (fun j => i_class j = class) l'.
Proof.
  intros [m [Hp HF]] H. assert (Hm : Forall (fun j => i_class j = class) m) by (eapply Permutation_Forall; eauto).
  clear Hp H. induction HF as [|i i' m l' (_ & _ & Hc & _) _ IH]; [constructor|].
  apply Forall_cons_iff in Hm. destruct Hm as [Hi Hm]. constructor; [congruence|auto].
Qed.

Lemma insts_perm_nil l' : insts_perm [] l' -> l' = [].
Proof. intros [m [Hp HF]]. apply Permutation_nil in Hp. subst. now inversion HF. Qed.

Lemma insts_perm_nonnil i l l' : insts_perm (i :: l) l' -> exists i' l'', l' = i' :: l''.
Proof.
  intros [m [Hp HF]]. destruct l' as [|i' l'']; [|eauto].
  inversion HF; subst. apply Permutation_sym, Permutation_nil in Hp. discriminate.
Qed.

(* (1a) success of the planning is the same for every listing of the same content *)
Theorem collect_types_perm_success d class st insts insts' :
  Forall (fun j => i_class j = class) insts -> insts_perm insts insts' ->
  types_agree d class (flat_map i_props insts) ->
  (exists st', fold_res (collect_type_info d) st insts = Ok st') ->
  (exists st', fold_res (collect_type_info d) st insts' = Ok st').
Proof.
  intros HC HP HA. pose proof (insts_perm_class _ _ _ HP HC) as HC'.
  destruct insts as [|i insts].
  - apply insts_perm_nil in HP. subst. auto.
  - destruct (insts_perm_nonnil _ _ _ HP) as [i' [l'' ->]].
    rewrite (fold_collect_same_class d class) by exact HC. rewrite (fold_collect_same_class d class) by exact HC'.
    rewrite !plan_class_ok_iff. apply fold_plan_ok_perm; [exact HA|now apply insts_perm_props].
Qed.
Print Assumptions collect_types_perm_success.

(* (1b) if every instance can be planned on its own, the whole list can *)
Theorem collect_types_each_alone_from d class st insts :
  Forall (fun j => i_class j = class) insts ->
  types_agree d class (flat_map i_props insts) ->
  (forall i, In i insts -> exists st', collect_type_info d st i = Ok st') ->
  exists st', fold_res (collect_type_info d) st insts = Ok st'.
Proof.
  intros HC HA Halone. destruct insts as [|i0 insts0]; [cbn; eauto|].
  rewrite (fold_collect_same_class d class) by exact HC. apply plan_class_ok_iff.
  apply fold_plan_ok_suff. apply Forall_forall. intros pv Hpv.
  apply in_flat_map in Hpv. destruct Hpv as [i [Hi Hpv]].
  destruct (Halone i Hi) as [st' Hst'].
  rewrite Forall_forall in HC. rewrite collect_type_info_eq, (HC i Hi) in Hst'.
  assert (Hok : exists st', plan_class d class st [i] = Ok st') by eauto.
  apply plan_class_ok_iff in Hok. destruct Hok as [r Hr]. cbn [flat_map] in Hr. rewrite app_nil_r in Hr.
  eapply fold_plan_ok_nec in Hr.
  - rewrite Forall_forall in Hr. exact (Hr pv Hpv).
  - eapply types_agree_incl; [|exact HA]. intros z Hz. apply in_flat_map. eauto.
Qed.

Corollary collect_types_each_alone d class insts :
  Forall (fun j => i_class j = class) insts ->
  types_agree d class (flat_map i_props insts) ->
  (forall i, In i insts -> exists st', collect_type_info d ser_state0 i = Ok st') ->
  exists st', fold_res (collect_type_info d) ser_state0 insts = Ok st'.
Proof. apply collect_types_each_alone_from. Qed.
Print Assumptions collect_types_each_alone.

(* (2) the plan is the same for every listing of the same content, up to the order of the alias sets *)
Theorem collect_types_perm_plan d class st insts insts' st1 st2 :
  insts <> [] -> Forall (fun j => i_class j = class) insts -> insts_perm insts insts' ->
  spellings_agree d class (flat_map i_props insts) -> migrations_agree d class (flat_map i_props insts) ->
  fold_res (collect_type_info d) st insts = Ok st1 ->
  fold_res (collect_type_info d) st insts' = Ok st2 ->
  exists r1 r2,
    st1 = plan_result d class st (List.map i_ref insts) r1 /\
    st2 = plan_result d class st (List.map i_ref insts') r2 /\
    st_equiv r1 r2 /\
    (st_nodup (class_state d class st) -> st_nodup r1 /\ st_nodup r2).
Proof.
  intros Hne HC HP HS HM H1 H2. pose proof (insts_perm_class _ _ _ HP HC) as HC'.
  destruct insts as [|i insts]; [congruence|].
  destruct (insts_perm_nonnil _ _ _ HP) as [i' [l'' ->]].
  rewrite (fold_collect_same_class d class) in H1 by exact HC.
  rewrite (fold_collect_same_class d class) in H2 by exact HC'.
  unfold plan_class in H1, H2.
  pose proof (fold_pstep_perm d class (ti_class (class_ti d class st)) _ _ (insts_perm_props _ _ HP) HS HM
                _ _ (st_equiv_refl (class_state d class st))) as Heq.
  destruct (fold_res _ _ (flat_map i_props (i :: insts))) as [r1| | |] eqn:F1; cbn [rbind] in H1; try discriminate.
  destruct (fold_res _ _ (flat_map i_props (i' :: l''))) as [r2| | |] eqn:F2; cbn [rbind] in H2; try discriminate.
  injection H1 as <-. injection H2 as <-. cbn [res_equiv] in Heq.
  exists r1, r2. split; [reflexivity|]. split; [reflexivity|]. split; [exact Heq|].
  intros Hn. split; eapply fold_pstep_nodup; eauto.
Qed.
Print Assumptions collect_types_perm_plan.

Lemma ser_state0_nodup d class : st_nodup (class_state d class ser_state0).
Proof.
  unfold st_nodup, class_state, class_ti. cbn [ser_state0 ss_types ss_sstr ss_next_id bfind ps_ss ps_props fst snd].
  split; [constructor|]. unfold new_type_info. cbn [ti_props]. constructor; [cbn; constructor|constructor].
Qed.

(* the same, spelled out on the class's TypeInfo *)
Corollary collect_types_perm_plan_spelled d class st insts insts' st1 st2 :
  insts <> [] -> Forall (fun j => i_class j = class) insts -> insts_perm insts insts' ->
  spellings_agree d class (flat_map i_props insts) -> migrations_agree d class (flat_map i_props insts) ->
  st_nodup (class_state d class st) ->
  fold_res (collect_type_info d) st insts = Ok st1 ->
  fold_res (collect_type_info d) st insts' = Ok st2 ->
  exists ti1 ti2,
    bfind class (ss_types st1) = Some ti1 /\ bfind class (ss_types st2) = Some ti2 /\
    ti_id ti1 = ti_id ti2 /\ ti_service ti1 = ti_service ti2 /\ ti_class ti1 = ti_class ti2 /\
    ti_instances ti1 = ti_instances (class_ti d class st) ++ List.map i_ref insts /\
    ti_instances ti2 = ti_instances (class_ti d class st) ++ List.map i_ref insts' /\
    List.map fst (ti_props ti1) = List.map fst (ti_props ti2) /\
    Forall2 (fun x y => fst x = fst y /\ pi_equiv_perm (snd x) (snd y)) (ti_props ti1) (ti_props ti2) /\
    Permutation (ss_sstr st1) (ss_sstr st2) /\
    (forall k, k <> class -> bfind k (ss_types st1) = bfind k (ss_types st2)) /\
    List.map fst (ss_types st1) = List.map fst (ss_types st2) /\
    ss_next_id st1 = ss_next_id st2 /\ ss_relevant st1 = ss_relevant st2.
Proof.
  intros Hne HC HP HS HM Hn H1 H2.
  destruct (collect_types_perm_plan d class st insts insts' st1 st2 Hne HC HP HS HM H1 H2)
    as (r1 & r2 & -> & -> & (Es & Ev & Ep) & Hnd).
  destruct (Hnd Hn) as [[Ns1 Np1] [Ns2 Np2]].
  eexists. eexists. unfold plan_result. cbn [ss_types ss_sstr ss_next_id ss_relevant].
  rewrite !bfind_bset_same, class_types_has.
  split; [reflexivity|]. split; [reflexivity|]. cbn [ti_id ti_service ti_class ti_instances ti_props].
  repeat (split; [reflexivity|]).
  split; [now apply props_equiv_keys|]. split; [now apply props_equiv_perm|].
  split; [now apply same_set_perm|].
  split; [|split; [now rewrite !bset_keys|split; reflexivity]].
  intros k Hk. rewrite !bfind_bset_other by now apply bytes_eqb_neq. reflexivity.
Qed.
Print Assumptions collect_types_perm_plan_spelled.

(* ========================================================================================== *)
(* Part 3: the column values                                                                   *)
(* ========================================================================================== *)
(* the instance carries at most one spelling of the logical property *)
Definition one_spelling (canon : bytes) (aliases : list bytes) (i : inst) : Prop :=
  forall a b, In a (canon :: aliases) -> In b (canon :: aliases) ->
              haskey a (i_props i) = true -> haskey b (i_props i) = true -> a = b.

Lemma find_unique {A} (f : A -> bool) l l' :
  (forall a b, In a l -> In b l -> f a = true -> f b = true -> a = b) ->
  Permutation l l' -> find f l = find f l'.
Proof.
  intros Hu Hp. destruct (find f l) as [a|] eqn:E1; destruct (find f l') as [b|] eqn:E2; try reflexivity.
  - apply find_some in E1, E2. destruct E1 as [Ia Fa], E2 as [Ib Fb]. f_equal. apply Hu; auto.
    eapply Permutation_in; [apply Permutation_sym; exact Hp|exact Ib].
  - apply find_some in E1. destruct E1 as [Ia Fa].
    pose proof (find_none _ _ E2 a (Permutation_in _ Hp Ia)). congruence.
  - apply find_some in E2. destruct E2 as [Ib Fb].
    pose proof (find_none _ _ E1 b (Permutation_in _ (Permutation_sym Hp) Ib)). congruence.
Qed.

(* the column value does not depend on the iteration order of the alias set ... *)
Theorem prop_value_alias_order p canon pi ord1 ord2 i :
  Permutation ord1 ord2 -> one_spelling canon ord1 i ->
  prop_value p canon pi ord1 i = prop_value p canon pi ord2 i.
Proof.
  intros Hp H1. unfold prop_value.
  assert (F : find (fun a => match bfind a (i_props i) with Some _ => true | None => false end) ord1
            = find (fun a => match bfind a (i_props i) with Some _ => true | None => false end) ord2).
  { apply find_unique; [|exact Hp]. intros a b Ia Ib Fa Fb. apply H1; auto; now right. }
  now rewrite F.
Qed.

(* ... nor on anything of the PropInfo but its default and migration *)
Lemma prop_value_pi p canon pi pi' ord i :
  pi_default pi = pi_default pi' -> pi_migration pi = pi_migration pi' ->
  prop_value p canon pi ord i = prop_value p canon pi' ord i.
Proof. intros Hd Hm. unfold prop_value. now rewrite Hd, Hm. Qed.

(* the whole column: both runs write the same values *)
Theorem column_values_perm p canon pi pi' ord ord' insts insts' :
  Forall2 inst_perm insts insts' ->
  Forall (fun i => NoDup (List.map fst (i_props i))) insts ->
  pi_equiv_perm pi pi' ->
  Permutation ord (pi_aliases pi) -> Permutation ord' (pi_aliases pi') ->
  Forall (one_spelling canon (pi_aliases pi)) insts ->
  List.map (prop_value p canon pi ord) insts = List.map (prop_value p canon pi' ord') insts'.
Proof.
  intros HF HN (_ & _ & Hd & Hm & Ha) Ho Ho' H1.
  assert (Hoo : Permutation ord ord').
  { eapply Permutation_trans; [exact Ho|]. eapply Permutation_trans; [exact Ha|]. now apply Permutation_sym. }
  induction HF as [|i i' insts insts' (_ & _ & _ & Hn & Hp) _ IH]; [reflexivity|].
  apply Forall_cons_iff in HN, H1. destruct HN as [Ni HN], H1 as [Hi H1].
  cbn [List.map]. f_equal; [|now apply IH].
  rewrite (prop_value_pi p canon pi pi' ord i Hd Hm).
  rewrite (prop_value_alias_order p canon pi' ord ord' i Hoo).
  - now apply prop_value_perm.
  - intros a b Ia Ib. apply Hi.
    + destruct Ia as [<-|Ia]; [now left|right]. eapply Permutation_in; [exact Ho|exact Ia].
    + destruct Ib as [<-|Ib]; [now left|right]. eapply Permutation_in; [exact Ho|exact Ib].
Qed.
Print Assumptions column_values_perm.

(* the hypothesis is needed: an instance that carries BOTH the legacy and the alias spelling of its colour
   gets the value of whichever spelling the alias set happens to yield first *)
Definition two_spellings_part : inst :=
  mkInst 1 0 (bstr "Part") (bstr "X") [(bstr "BrickColor", VBrickColor 194); (bstr "Color3uint8", VColor3uint8 1 2 3)].
Definition colour_pi : prop_info := mkPI WColor3uint8 (bstr "Color3uint8") [] (VColor3uint8 0 0 0) (Some MigBrick).

Example prop_value_alias_order_refuted :
  prop_value ep_part (bstr "Color") colour_pi [bstr "BrickColor"; bstr "Color3uint8"] two_spellings_part
    = VColor3uint8 163 162 165 /\
  prop_value ep_part (bstr "Color") colour_pi [bstr "Color3uint8"; bstr "BrickColor"] two_spellings_part
    = VColor3uint8 1 2 3.
Proof. vm_compute. split; reflexivity. Qed.

(* and at file level: the same instance, its two properties listed in the two possible orders, gives two
   different files (ep_order = insertion order) *)
Definition two_spellings_part' : inst :=
  mkInst 1 0 (bstr "Part") (bstr "X") [(bstr "Color3uint8", VColor3uint8 1 2 3); (bstr "BrickColor", VBrickColor 194)].
Example file_depends_on_property_order_with_two_spellings :
  is_ok (enc_part [two_spellings_part] [1]) = true /\
  is_ok (enc_part [two_spellings_part'] [1]) = true /\
  enc_part [two_spellings_part] [1] <> enc_part [two_spellings_part'] [1] /\
  roundtrip_colours [two_spellings_part] [1] = [(bstr "X", Some (VColor3uint8 163 162 165))] /\
  roundtrip_colours [two_spellings_part'] [1] = [(bstr "X", Some (VColor3uint8 1 2 3))].
Proof.
  split; [vm_compute; reflexivity|]. split; [vm_compute; reflexivity|].
  split; [vm_compute; discriminate|]. split; vm_compute; reflexivity.
Qed.

(* ========================================================================================== *)
(* the hypotheses as an executable check on the (name, value) pairs at hand                    *)
(* ========================================================================================== *)
Definition migop_eqb (a b : migop) : bool :=
  match a, b with
  | MigInset, MigInset | MigFont, MigFont | MigBrick, MigBrick | MigContent, MigContent => true
  | _, _ => false
  end.
Lemma migop_eqb_eq a b : migop_eqb a b = true -> a = b.
Proof. destruct a, b; cbn; congruence. Qed.

Definition pair_agree_b (d : db) (class : bytes) (x y : bytes * value) : bool :=
  match resolve_prop d class (fst x) (snd x), resolve_prop d class (fst y) (snd y) with
  | Ok (RProp c1 s1 t1 m1), Ok (RProp c2 s2 t2 m2) =>
      if bytes_eqb c1 c2 then
        bytes_eqb s1 s2 && N.eqb t1 t2 &&
        match m1, m2 with Some o1, Some o2 => migop_eqb o1 o2 | _, _ => true end &&
        match m1 with Some _ => negb (bytes_eqb (fst x) c1) | None => true end
      else true
  | _, _ => true
  end.
Definition agree_check (d : db) (class : bytes) (l : list (bytes * value)) : bool :=
  forallb (fun x => forallb (pair_agree_b d class x) l) l.

Lemma agree_check_sound d class l :
  agree_check d class l = true -> spellings_agree d class l /\ migrations_agree d class l.
Proof.
  intros H. unfold agree_check in H. rewrite forallb_forall in H.
  assert (P : forall n1 v1 n2 v2 c s1 t1 m1 s2 t2 m2,
             In (n1, v1) l -> In (n2, v2) l ->
             resolve_prop d class n1 v1 = Ok (RProp c s1 t1 m1) ->
             resolve_prop d class n2 v2 = Ok (RProp c s2 t2 m2) ->
             s1 = s2 /\ t1 = t2 /\ (forall o1 o2, m1 = Some o1 -> m2 = Some o2 -> o1 = o2) /\ (m1 <> None -> n1 <> c)).
  { intros n1 v1 n2 v2 c s1 t1 m1 s2 t2 m2 I1 I2 R1 R2.
    specialize (H _ I1). rewrite forallb_forall in H. specialize (H _ I2).
    unfold pair_agree_b in H. cbn [fst snd] in H. rewrite R1, R2, bytes_eqb_refl in H.
    apply andb_true_iff in H. destruct H as [H H4]. apply andb_true_iff in H. destruct H as [H H3].
    apply andb_true_iff in H. destruct H as [H1 H2]. apply bytes_eqb_eq in H1. apply N.eqb_eq in H2.
    split; [exact H1|]. split; [exact H2|]. split.
    - intros o1 o2 -> ->. now apply migop_eqb_eq.
    - destruct m1; [|congruence]. intros _ ->. now rewrite bytes_eqb_refl in H4. }
  split; intros n1 v1 n2 v2 c s1 t1 m1 s2 t2 m2 I1 I2 R1 R2;
    destruct (P n1 v1 n2 v2 c s1 t1 m1 s2 t2 m2 I1 I2 R1 R2) as (A & B & C & D); auto.
Qed.

(* ========================================================================================== *)
(* non-vacuity: canonical, alias and migrating legacy spellings of one colour (db_part)        *)
(* ========================================================================================== *)
Definition canon_part (r : N) : inst :=
  mkInst r 0 (bstr "Part") (bstr "C") [(bstr "Color", VColor3 0 0 0); (bstr "Tag", VString [1])].
Definition three_parts : list inst := [legacy_part 1; alias_part 2; canon_part 3].
Definition three_parts' : list inst := [canon_part 3; legacy_part 1; alias_part 2].

Example three_parts_agree :
  spellings_agree db_part (bstr "Part") (flat_map i_props three_parts) /\
  migrations_agree db_part (bstr "Part") (flat_map i_props three_parts).
Proof. apply agree_check_sound. vm_compute. reflexivity. Qed.

Example three_parts_perm : insts_perm three_parts three_parts'.
Proof.
  exists three_parts'. split.
  - unfold three_parts, three_parts'. apply Permutation_sym. apply (Permutation_cons_app [_; _] []). apply Permutation_refl.
  - repeat constructor.
Qed.

Example three_parts_class : Forall (fun j => i_class j = bstr "Part") three_parts.
Proof. repeat constructor. Qed.

(* every instance alone is planned, hence (1b) the three together, hence (1a) in the other order *)
Example three_parts_each_alone :
  forall i, In i three_parts -> exists st', collect_type_info db_part ser_state0 i = Ok st'.
Proof. intros i [<-|[<-|[<-|[]]]]; vm_compute; eauto. Qed.

Example three_parts_together : exists st', fold_res (collect_type_info db_part) ser_state0 three_parts' = Ok st'.
Proof.
  apply (collect_types_perm_success db_part (bstr "Part") ser_state0 three_parts three_parts').
  - exact three_parts_class.
  - exact three_parts_perm.
  - apply spellings_types_agree. exact (proj1 three_parts_agree).
  - apply (collect_types_each_alone db_part (bstr "Part")).
    + exact three_parts_class.
    + apply spellings_types_agree. exact (proj1 three_parts_agree).
    + exact three_parts_each_alone.
Qed.

(* what the two plans look like: the same but for the order of the alias set of Color *)
Definition plan_view (r : res ser_state) : list (bytes * list (bytes * (bytes * list bytes * value * option migop))) :=
  match r with
  | Ok st => List.map (fun ct => (fst ct, List.map (fun kp => (fst kp, (pi_ser_name (snd kp), pi_aliases (snd kp),
                                                                     pi_default (snd kp), pi_migration (snd kp))))
                                               (ti_props (snd ct)))) (ss_types st)
  | _ => []
  end.
Example three_parts_plans :
  plan_view (fold_res (collect_type_info db_part) ser_state0 three_parts)
    = [(bstr "Part", [(bstr "Color", (bstr "Color3uint8", [bstr "BrickColor"; bstr "Color3uint8"], VColor3 0 0 0, Some MigBrick));
                      (bstr "Name", (bstr "Name", [], VString [], None));
                      (bstr "Tag", (bstr "Tag", [], VString [], None))])] /\
  plan_view (fold_res (collect_type_info db_part) ser_state0 [alias_part 2; canon_part 3; legacy_part 1])
    = [(bstr "Part", [(bstr "Color", (bstr "Color3uint8", [bstr "Color3uint8"; bstr "BrickColor"], VColor3 0 0 0, Some MigBrick));
                      (bstr "Name", (bstr "Name", [], VString [], None));
                      (bstr "Tag", (bstr "Tag", [], VString [], None))])].
Proof. split; vm_compute; reflexivity. Qed.

(* H is needed for (1a) and for the necessity half of the characterisation: a name the database does not
   know, once with a String and once with an Attributes value (Type::from_rbx_type has no arm for Attributes).
   If the String is met first the column is planned as a String column and the second value goes unnoticed by
   the planning; the other way round the planning fails with UnsupportedPropType.
   FINDING: the String arm of the column writer accepts an Attributes value, so the FIRST order serializes
   the whole file while the second fails: success of serialization depends on the order of siblings. *)
Definition foo_string (r : N) : inst := mkInst r 0 (bstr "Folder") (bstr "S") [(bstr "Foo", VString [1])].
Definition foo_attrs (r : N) : inst := mkInst r 0 (bstr "Folder") (bstr "A") [(bstr "Foo", VAttributes [])].

Example perm_success_needs_H :
  is_ok (fold_res (collect_type_info db0) ser_state0 [foo_string 1; foo_attrs 2]) = true /\
  is_ok (fold_res (collect_type_info db0) ser_state0 [foo_attrs 2; foo_string 1]) = false /\
  insts_perm [foo_string 1; foo_attrs 2] [foo_attrs 2; foo_string 1] /\
  ~ types_agree db0 (bstr "Folder") (flat_map i_props [foo_string 1; foo_attrs 2]).
Proof.
  split; [vm_compute; reflexivity|]. split; [vm_compute; reflexivity|]. split.
  - exists [foo_attrs 2; foo_string 1]. split; [apply perm_swap|repeat constructor].
  - intros H. assert (E : 24 = 33); [|discriminate].
    apply (H (bstr "Foo") (VString [1]) (bstr "Foo") (VAttributes []) (bstr "Foo") (bstr "Foo") 24 None (bstr "Foo") 33 None);
      [now left|right; now left|reflexivity|reflexivity].
Qed.

Example sibling_order_dependence_mixed_types :
  is_ok (fold_res (collect_type_info db0) ser_state0 [foo_string 1; foo_attrs 2]) = true /\
  is_ok (fold_res (collect_type_info db0) ser_state0 [foo_attrs 2; foo_string 1]) = false /\
  is_ok (encode_file db0 ep0 None [foo_string 1; foo_attrs 2] [1; 2]) = true /\
  encode_file db0 ep0 None [foo_attrs 2; foo_string 1] [2; 1] = Err EE_UNSUPPORTED /\
  encode_file db0 ep0 None [foo_attrs 2] [2] = Err EE_UNSUPPORTED.
Proof. repeat split; vm_compute; reflexivity. Qed.

(* ========================================================================================== *)
(* Part H: the consistency hypotheses from an executable check of the database                 *)
(* ========================================================================================== *)
Lemma string_of_bytes_bstr s : string_of_bytes (bstr s) = s.
Proof.
  unfold bstr, bytes_of_string, string_of_bytes. rewrite List.map_map.
  rewrite (List.map_ext _ (fun a => a)) by apply Ascii.ascii_N_embedding.
  rewrite List.map_id. apply string_of_list_ascii_of_string.
Qed.

(* the part of resolve_prop that consults the database: None = the database does not know the name *)
Definition known_resolve (d : db) (cn pn : string) : res (option resolved) :=
  r <- find_desc_bin d cn pn ;;
  match r with
  | Some (canon, ser) =>
      match ser with
      | None => Ok (Some RSkip)
      | Some desc =>
          match pd_kind desc with
          | KCanon (PMigrate to op) =>
              r2 <- find_desc_bin d cn to ;;
              match r2 with
              | Some (c2, Some s2) =>
                  Ok (Some (RProp (bstr (pd_name c2)) (bstr (pd_name s2)) (dtype_vt (pd_type s2)) (Some op)))
              | _ => Ok (Some RSkip)
              end
          | _ => Ok (Some (RProp (bstr (pd_name canon)) (bstr (pd_name desc)) (dtype_vt (pd_type desc)) None))
          end
      end
  | None => Ok None
  end.

Lemma resolve_prop_known d class n v :
  resolve_prop d class n v =
  (r <- known_resolve d (string_of_bytes class) (string_of_bytes n) ;;
   match r with Some x => Ok x | None => Ok (RProp n n (vtype v) None) end).
Proof.
  unfold resolve_prop, known_resolve.
  destruct (find_desc_bin d (string_of_bytes class) (string_of_bytes n)) as [[[canon [desc|]]|]| | |]; cbn [rbind]; try reflexivity.
  destruct (pd_kind desc) as [[| | |to op]|]; cbn [rbind]; try reflexivity.
  destruct (find_desc_bin d (string_of_bytes class) to) as [[[c2 [s2|]]|]| | |]; cbn [rbind]; reflexivity.
Qed.

Lemma known_resolve_canon_bstr d cn pn c s t m :
  known_resolve d cn pn = Ok (Some (RProp c s t m)) -> exists x, c = bstr x.
Proof.
  unfold known_resolve.
  destruct (find_desc_bin d cn pn) as [[[canon [desc|]]|]| | |]; cbn [rbind]; try discriminate.
  destruct (pd_kind desc) as [[| | |to op]|]; cbn [rbind]; try (intros [= <- _ _ _]; eauto; fail).
  destruct (find_desc_bin d cn to) as [[[c2 [s2|]]|]| | |]; cbn [rbind]; try discriminate.
  intros [= <- _ _ _]. eauto.
Qed.

Definition visible_names (d : db) (c : cdesc) : list string :=
  List.map pd_name (flat_map cd_props (superclasses (S (length (db_classes d))) d c)).

Lemma find_desc_bin_loop_visible d : forall f c pn x,
  find_desc_bin_loop f d c pn = Ok (Some x) ->
  In pn (List.map pd_name (flat_map cd_props (superclasses f d c))).
Proof.
  induction f as [|f IH]; intros c pn x H; cbn [find_desc_bin_loop] in H; [discriminate|].
  cbn [superclasses flat_map]. rewrite List.map_app. apply in_or_app.
  destruct (find_prop (cd_props c) pn) as [p|] eqn:Fp.
  - left. apply in_map_iff. exists p. split; [eapply find_prop_name; eauto|eapply find_prop_in; eauto].
  - right. destruct (cd_super c) as [sn|]; [|discriminate].
    destruct (get_class d sn) as [sc|]; [|discriminate]. eapply IH; eauto.
Qed.

Lemma known_resolve_visible d cn pn r :
  known_resolve d cn pn = Ok (Some r) -> exists c, get_class d cn = Some c /\ In pn (visible_names d c).
Proof.
  unfold known_resolve. destruct (find_desc_bin d cn pn) as [[x|]| | |] eqn:E; cbn [rbind]; try discriminate.
  intros _. unfold find_desc_bin in E. destruct (get_class d cn) as [c|]; [|discriminate].
  exists c. split; [reflexivity|]. unfold visible_names. eapply find_desc_bin_loop_visible; eauto.
Qed.

(* looking up the canonical name itself gives the same column; a migrating spelling is not the canonical name *)
Definition spelling_ok (d : db) (cn pn : string) : bool :=
  match known_resolve d cn pn with
  | Ok (Some (RProp c s t m)) =>
      match known_resolve d cn (string_of_bytes c) with
      | Ok (Some (RProp c' s' t' m')) =>
          bytes_eqb c c' && bytes_eqb s s' && N.eqb t t' &&
          match m with Some _ => negb (bytes_eqb (bstr pn) c) | None => true end
      | _ => false
      end
  | _ => true
  end.
Definition is_migrating (d : db) (cn pn : string) : bool :=
  match known_resolve d cn pn with Ok (Some (RProp _ _ _ (Some _))) => true | _ => false end.
Definition mig_pair_ok (d : db) (cn pn1 pn2 : string) : bool :=
  match known_resolve d cn pn1, known_resolve d cn pn2 with
  | Ok (Some (RProp c1 _ _ (Some o1))), Ok (Some (RProp c2 _ _ (Some o2))) =>
      if bytes_eqb c1 c2 then migop_eqb o1 o2 else true
  | _, _ => true
  end.
Definition class_spellings_ok (d : db) (cn : string) : bool :=
  match get_class d cn with
  | None => true
  | Some c =>
      let names := visible_names d c in
      let migs := filter (is_migrating d cn) names in
      forallb (spelling_ok d cn) names && forallb (fun a => forallb (mig_pair_ok d cn a) migs) migs
  end.

Theorem agree_from_db d class l :
  class_spellings_ok d (string_of_bytes class) = true ->
  (forall n v1 v2, In (n, v1) l -> In (n, v2) l ->
     known_resolve d (string_of_bytes class) (string_of_bytes n) = Ok None -> vtype v1 = vtype v2) ->
  spellings_agree d class l /\ migrations_agree d class l.
Proof.
  set (cn := string_of_bytes class). intros Hchk Hunk.
  (* what the check says about a known name *)
  assert (K : forall pn c s t m, known_resolve d cn pn = Ok (Some (RProp c s t m)) ->
              (exists m', known_resolve d cn (string_of_bytes c) = Ok (Some (RProp c s t m'))) /\
              (m <> None -> bstr pn <> c)).
  { intros pn c s t m H. destruct (known_resolve_visible _ _ _ _ H) as [k [Gk Hin]].
    unfold class_spellings_ok in Hchk. rewrite Gk in Hchk. apply andb_true_iff in Hchk. destruct Hchk as [Hs _].
    rewrite forallb_forall in Hs. specialize (Hs pn Hin). unfold spelling_ok in Hs. rewrite H in Hs.
    destruct (known_resolve d cn (string_of_bytes c)) as [[[|c' s' t' m']|]| | |]; try discriminate.
    apply andb_true_iff in Hs. destruct Hs as [Hs H4]. apply andb_true_iff in Hs. destruct Hs as [Hs H3].
    apply andb_true_iff in Hs. destruct Hs as [H1 H2]. apply bytes_eqb_eq in H1, H2. apply N.eqb_eq in H3. subst.
    split; [eauto|]. destruct m; [|congruence]. intros _ E. rewrite E, bytes_eqb_refl in H4. discriminate. }
  assert (M : forall pn1 pn2 c s1 t1 o1 s2 t2 o2,
              known_resolve d cn pn1 = Ok (Some (RProp c s1 t1 (Some o1))) ->
              known_resolve d cn pn2 = Ok (Some (RProp c s2 t2 (Some o2))) -> o1 = o2).
  { intros pn1 pn2 c s1 t1 o1 s2 t2 o2 H1 H2.
    destruct (known_resolve_visible _ _ _ _ H1) as [k [Gk I1]].
    destruct (known_resolve_visible _ _ _ _ H2) as [k' [Gk' I2]]. rewrite Gk in Gk'. injection Gk' as <-.
    unfold class_spellings_ok in Hchk. rewrite Gk in Hchk. apply andb_true_iff in Hchk. destruct Hchk as [_ Hm].
    rewrite forallb_forall in Hm.
    assert (F1 : In pn1 (filter (is_migrating d cn) (visible_names d k))).
    { apply filter_In. split; [exact I1|]. unfold is_migrating. now rewrite H1. }
    assert (F2 : In pn2 (filter (is_migrating d cn) (visible_names d k))).
    { apply filter_In. split; [exact I2|]. unfold is_migrating. now rewrite H2. }
    specialize (Hm _ F1). rewrite forallb_forall in Hm. specialize (Hm _ F2).
    unfold mig_pair_ok in Hm. rewrite H1, H2, bytes_eqb_refl in Hm. now apply migop_eqb_eq. }
  (* a resolved pair is known or unknown *)
  assert (R : forall n v c s t m, resolve_prop d class n v = Ok (RProp c s t m) ->
              known_resolve d cn (string_of_bytes n) = Ok (Some (RProp c s t m)) \/
              (known_resolve d cn (string_of_bytes n) = Ok None /\ c = n /\ s = n /\ t = vtype v /\ m = None)).
  { intros n v c s t m H. rewrite resolve_prop_known in H. fold cn in H.
    destruct (known_resolve d cn (string_of_bytes n)) as [[x|]| | |]; cbn [rbind] in H; try discriminate.
    - left. congruence.
    - right. injection H as <- <- <- <-. auto. }
  assert (P : forall n1 v1 n2 v2 c s1 t1 m1 s2 t2 m2,
             In (n1, v1) l -> In (n2, v2) l ->
             resolve_prop d class n1 v1 = Ok (RProp c s1 t1 m1) ->
             resolve_prop d class n2 v2 = Ok (RProp c s2 t2 m2) ->
             s1 = s2 /\ t1 = t2 /\ (forall o1 o2, m1 = Some o1 -> m2 = Some o2 -> o1 = o2) /\ (m1 <> None -> n1 <> c)).
  { intros n1 v1 n2 v2 c s1 t1 m1 s2 t2 m2 I1 I2 R1 R2.
    destruct (R _ _ _ _ _ _ R1) as [K1|(U1 & -> & -> & -> & ->)]; destruct (R _ _ _ _ _ _ R2) as [K2|(U2 & E2 & -> & -> & ->)].
    - destruct (K _ _ _ _ _ K1) as [[m1' C1] N1]. destruct (K _ _ _ _ _ K2) as [[m2' C2] N2].
      rewrite C1 in C2. injection C2 as <- <- _. split; [reflexivity|]. split; [reflexivity|]. split.
      + intros o1 o2 -> ->. eapply M; eauto.
      + intros Hm E. subst n1. destruct (known_resolve_canon_bstr _ _ _ _ _ _ _ K1) as [x ->].
        apply (N1 Hm). now rewrite string_of_bytes_bstr.
    - subst c. destruct (K _ _ _ _ _ K1) as [[m1' C1] _]. congruence.
    - destruct (K _ _ _ _ _ K2) as [[m2' C2] _]. congruence.
    - subst n2. split; [reflexivity|]. split; [eapply Hunk; eauto|]. split; [discriminate|congruence]. }
  split; intros n1 v1 n2 v2 c s1 t1 m1 s2 t2 m2 I1 I2 R1 R2;
    destruct (P n1 v1 n2 v2 c s1 t1 m1 s2 t2 m2 I1 I2 R1 R2) as (A & B & C & D); auto.
Qed.
Print Assumptions agree_from_db.

Example db_part_spellings_ok : class_spellings_ok db_part "Part" = true.
Proof. vm_compute. reflexivity. Qed.

(* db_coherent does not imply the check: a subclass may redeclare a property of an ancestor with another type
   (shadowing, which db_coherent permits); an alias declared in the ancestor then resolves to the ancestor's
   descriptor while the canonical name resolves to the subclass's *)
Open Scope string_scope.
Definition db_shadow : db :=
  mkDb [ mkCD "Base" None false
           [ mkPD "X" (DValue 24) (KCanon PSerializes); mkPD "x" (DValue 24) (KAlias "X") ] [];
         mkCD "Sub" (Some "Base") false [ mkPD "X" (DValue 2) (KCanon PSerializes) ] [] ] [].
Close Scope string_scope.
Example coherent_db_without_H :
  db_coherent db_shadow = true /\ class_spellings_ok db_shadow "Sub" = false /\
  resolve_prop db_shadow (bstr "Sub") (bstr "x") (VString []) = Ok (RProp (bstr "X") (bstr "X") 24 None) /\
  resolve_prop db_shadow (bstr "Sub") (bstr "X") (VBool true) = Ok (RProp (bstr "X") (bstr "X") 2 None).
Proof. repeat split; vm_compute; reflexivity. Qed.

(* the database the crates load passes the check for every class *)
Theorem bundled_spellings_ok :
  forallb (fun c => class_spellings_ok Database.database (cd_name c)) (db_classes Database.database) = true.
Proof. vm_cast_no_check (eq_refl true). Qed.

Corollary bundled_class_spellings_ok cn : class_spellings_ok Database.database cn = true.
Proof.
  destruct (get_class Database.database cn) as [c|] eqn:G.
  - pose proof bundled_spellings_ok as H. rewrite forallb_forall in H.
    unfold get_class in G. pose proof (find_class_in _ _ _ G) as Hin. pose proof (find_class_name _ _ _ G) as Hn.
    specialize (H c Hin). now rewrite Hn in H.
  - unfold class_spellings_ok. now rewrite G.
Qed.

(* H and the migration hypothesis hold for the bundled database as soon as every name it does not know is
   given values of one type *)
Corollary bundled_agree class l :
  (forall n v1 v2, In (n, v1) l -> In (n, v2) l ->
     known_resolve Database.database (string_of_bytes class) (string_of_bytes n) = Ok None -> vtype v1 = vtype v2) ->
  spellings_agree Database.database class l /\ migrations_agree Database.database class l.
Proof. apply agree_from_db. apply bundled_class_spellings_ok. Qed.
Print Assumptions bundled_agree.

(* ========================================================================================== *)
(* no panic at all in cti_prop for a lookup-safe database                                      *)
(* ========================================================================================== *)
Lemma resolve_prop_total d class n v : db_lookup_safe d = true -> exists r, resolve_prop d class n v = Ok r.
Proof.
  intros Hs. unfold resolve_prop.
  destruct (safe_bin_total d Hs (string_of_bytes class) (string_of_bytes n)) as [r Hr]. rewrite Hr. cbn [rbind].
  destruct r as [[canon [desc|]]|]; eauto.
  destruct (pd_kind desc) as [[| | |to op]|]; eauto.
  destruct (safe_bin_total d Hs (string_of_bytes class) to) as [r2 Hr2]. rewrite Hr2. cbn [rbind].
  destruct r2 as [[c2 [s2|]]|]; eauto.
Qed.

Lemma col_plan_ok_or_err d cls c ty :
  db_lookup_safe d = true -> (forall k, cls = Some k -> In k (db_classes d)) ->
  (exists p, col_plan d cls c ty = Ok p) \/ col_plan d cls c ty = Err EE_UNSUPPORTED.
Proof.
  intros Hs Hin. unfold col_plan.
  assert (exists r, (match cls with Some k => find_default d k (string_of_bytes c) | None => Ok None end) = Ok r) as [r Hr].
  { destruct cls as [k|]; [|eauto]. apply safe_default_total; auto. }
  rewrite Hr. cbn [rbind].
  destruct (match r with Some v => Some v | None => fallback_default_value ty end); [|now right].
  destruct (from_rbx_type ty); [left; eauto|now right].
Qed.

Theorem cti_prop_ok_or_unsupported d class acc pv :
  db_lookup_safe d = true -> (forall k, ti_class (snd acc) = Some k -> In k (db_classes d)) ->
  (exists acc', cti_prop d class acc pv = Ok acc') \/ cti_prop d class acc pv = Err EE_UNSUPPORTED.
Proof.
  intros Hs Hin. rewrite cti_prop_pstep. unfold rmap, pstep.
  destruct (bmem (fst pv) (ps_vis (proj_state acc))); cbn [rbind]; [left; eauto|].
  destruct (resolve_prop_total d class (fst pv) (snd pv) Hs) as [r Hr]. rewrite Hr. cbn [rbind].
  destruct r as [|c s ty m]; cbn [pcore rbind]; [left; eauto|].
  destruct (bfind c (ps_props (proj_state acc))); cbn [rbind]; [left; eauto|].
  destruct (col_plan_ok_or_err d (ti_class (snd acc)) c ty Hs Hin) as [[p Hp]|Hp]; rewrite Hp; cbn [rbind]; [left; eauto|now right].
Qed.
Print Assumptions cti_prop_ok_or_unsupported.

(* ========================================================================================== *)
(* (1b) without any hypothesis: success is monotone in what has been planned already           *)
(* ========================================================================================== *)
Definition st_le (a b : pstate) : Prop :=
  (forall n, bmem n (ps_vis a) = true -> bmem n (ps_vis b) = true) /\
  (forall c, haskey c (ps_props a) = true -> haskey c (ps_props b) = true).
(* every visited name that names a column has its column *)
Definition vis_inv (d : db) (class : bytes) (b : pstate) : Prop :=
  forall n v c s t m, bmem n (ps_vis b) = true -> resolve_prop d class n v = Ok (RProp c s t m) ->
                      haskey c (ps_props b) = true.

Lemma st_le_refl a : st_le a a. Proof. split; auto. Qed.
Lemma st_le_trans a b c : st_le a b -> st_le b c -> st_le a c.
Proof. intros [H1 H2] [G1 G2]. split; auto. Qed.

Lemma resolve_canon_indep d class n v v' c s t m c' s' t' m' :
  resolve_prop d class n v = Ok (RProp c s t m) -> resolve_prop d class n v' = Ok (RProp c' s' t' m') -> c = c'.
Proof.
  intros H H'. destruct (resolve_value_indep d class n v v') as [E|[E1 E2]]; congruence.
Qed.

Lemma pstep_vis_inv d class cls b pv b' :
  vis_inv d class b -> pstep d class cls b pv = Ok b' -> vis_inv d class b'.
Proof.
  destruct pv as [n v]. intros Hi H. pose proof (pstep_grows _ _ _ _ _ _ H) as [_ Gp]. apply pstep_inv in H.
  intros n' v' c' s' t' m' Hv' Hr'.
  destruct H as [Hv Ev Ep _|Hv Hr Ev Ep _|c s ty m pi Hv Hr Hf Ev Ep _|c s ty m dv wt Hv Hr Hf Hc Ev Ep _]; rewrite Ev in Hv'.
  - apply Gp. eapply Hi; eauto.
  - rewrite bmem_cons in Hv'. apply orb_true_iff in Hv'. destruct Hv' as [E|Hv']; [|apply Gp; eapply Hi; eauto].
    apply bytes_eqb_eq in E. subst n'. destruct (resolve_value_indep d class n v v') as [E|[E1 E2]]; congruence.
  - rewrite bmem_cons in Hv'. apply orb_true_iff in Hv'. destruct Hv' as [E|Hv']; [|apply Gp; eapply Hi; eauto].
    apply bytes_eqb_eq in E. subst n'. rewrite (resolve_canon_indep _ _ _ _ _ _ _ _ _ _ _ _ _ Hr' Hr).
    rewrite Ep, haskey_bset. unfold haskey. now rewrite Hf.
  - rewrite bmem_cons in Hv'. apply orb_true_iff in Hv'. destruct Hv' as [E|Hv']; [|apply Gp; eapply Hi; eauto].
    apply bytes_eqb_eq in E. subst n'. rewrite (resolve_canon_indep _ _ _ _ _ _ _ _ _ _ _ _ _ Hr' Hr).
    rewrite Ep, haskey_binsert, bytes_eqb_refl. reflexivity.
Qed.

Lemma pstep_mono d class cls a b pv a' :
  st_le a b -> vis_inv d class b -> pstep d class cls a pv = Ok a' ->
  exists b', pstep d class cls b pv = Ok b' /\ st_le a' b'.
Proof.
  destruct pv as [n v]. intros [Lv Lp] Hi Ha. apply pstep_inv in Ha.
  assert (Hb : (exists b', pstep d class cls b (n, v) = Ok b') ->
               exists b', pstep d class cls b (n, v) = Ok b' /\ st_le a' b').
  { intros [b' Hb]. exists b'. split; [exact Hb|].
    pose proof (pstep_grows _ _ _ _ _ _ Hb) as [Gv Gp]. pose proof (pstep_inv _ _ _ _ _ _ _ Hb) as Cb.
    assert (Hnb : bmem n (ps_vis b') = true).
    { destruct Cb as [Hv Ev _ _|Hv Hr Ev _ _|c s ty m pi Hv Hr Hf Ev _ _|c s ty m dv wt Hv Hr Hf Hc Ev _ _]; rewrite Ev; auto;
        rewrite bmem_cons, bytes_eqb_refl; reflexivity. }
    assert (Hcb : forall c s ty m, resolve_prop d class n v = Ok (RProp c s ty m) -> haskey c (ps_props b') = true).
    { intros c0 s0 ty0 m0 Hr0.
      destruct Cb as [Hv Ev Ep _|Hv Hr Ev Ep _|c s ty m pi Hv Hr Hf Ev Ep _|c s ty m dv wt Hv Hr Hf Hc Ev Ep _].
      - rewrite Ep. eapply Hi; eauto.
      - congruence.
      - rewrite Hr in Hr0. injection Hr0 as <- _ _ _. rewrite Ep, haskey_bset. unfold haskey. now rewrite Hf.
      - rewrite Hr in Hr0. injection Hr0 as <- _ _ _. rewrite Ep, haskey_binsert, bytes_eqb_refl. reflexivity. }
    destruct Ha as [Hv Ev Ep _|Hv Hr Ev Ep _|c s ty m pi Hv Hr Hf Ev Ep _|c s ty m dv wt Hv Hr Hf Hc Ev Ep _];
      split; rewrite ?Ev, ?Ep.
    - intros x Hx. apply Gv. now apply Lv.
    - intros x Hx. apply Gp. now apply Lp.
    - intros x Hx. rewrite bmem_cons in Hx. apply orb_true_iff in Hx. destruct Hx as [E|Hx]; [apply bytes_eqb_eq in E; now subst|].
      apply Gv. now apply Lv.
    - intros x Hx. apply Gp. now apply Lp.
    - intros x Hx. rewrite bmem_cons in Hx. apply orb_true_iff in Hx. destruct Hx as [E|Hx]; [apply bytes_eqb_eq in E; now subst|].
      apply Gv. now apply Lv.
    - intros x Hx. rewrite haskey_bset in Hx. apply Gp. now apply Lp.
    - intros x Hx. rewrite bmem_cons in Hx. apply orb_true_iff in Hx. destruct Hx as [E|Hx]; [apply bytes_eqb_eq in E; now subst|].
      apply Gv. now apply Lv.
    - intros x Hx. rewrite haskey_binsert in Hx. apply orb_true_iff in Hx. destruct Hx as [E|Hx].
      + apply bytes_eqb_eq in E. subst x. eapply Hcb; eauto.
      + apply Gp. now apply Lp. }
  apply Hb. clear Hb.
  unfold pstep. cbn [fst snd]. destruct (bmem n (ps_vis b)) eqn:Evb; [eauto|].
  destruct Ha as [Hv _ _ _|Hv Hr _ _ _|c s ty m pi Hv Hr Hf _ _ _|c s ty m dv wt Hv Hr Hf Hc _ _ _].
  - apply Lv in Hv. congruence.
  - rewrite Hr. cbn [rbind pcore]. eauto.
  - rewrite Hr. cbn [rbind pcore].
    assert (Hk : haskey c (ps_props b) = true) by (apply Lp; unfold haskey; now rewrite Hf).
    unfold haskey in Hk. destruct (bfind c (ps_props b)); [|discriminate]. cbn [rbind]. eauto.
  - rewrite Hr. cbn [rbind pcore]. destruct (bfind c (ps_props b)); cbn [rbind]; [eauto|].
    rewrite Hc. cbn [rbind]. eauto.
Qed.

Lemma fold_mono d class cls : forall l a b a',
  st_le a b -> vis_inv d class b -> fold_res (pstep d class cls) a l = Ok a' ->
  exists b', fold_res (pstep d class cls) b l = Ok b' /\ st_le a' b' /\ vis_inv d class b'.
Proof.
  induction l as [|pv l IH]; intros a b a' Hle Hi H; cbn [fold_res] in *.
  - injection H as <-. eauto.
  - destruct (pstep d class cls a pv) as [a1| | |] eqn:Ea; cbn [rbind] in H; try discriminate.
    destruct (pstep_mono _ _ _ _ _ _ _ Hle Hi Ea) as [b1 [Eb Hle1]]. rewrite Eb. cbn [rbind].
    eapply IH; eauto. eapply pstep_vis_inv; eauto.
Qed.

Lemma fold_grows d class cls : forall l a a', fold_res (pstep d class cls) a l = Ok a' -> st_le a a'.
Proof.
  induction l as [|pv l IH]; intros a a' H; cbn [fold_res] in H; [injection H as <-; apply st_le_refl|].
  destruct (pstep d class cls a pv) as [a1| | |] eqn:Ea; cbn [rbind] in H; try discriminate.
  eapply st_le_trans; [|eapply IH; eauto]. pose proof (pstep_grows _ _ _ _ _ _ Ea) as [G1 G2]. split; auto.
Qed.

(* the property lists of several instances, each of which can be planned from [a] alone, can be planned
   one after the other *)
Theorem fold_each_alone d class cls a : forall (ls : list (list (bytes * value))) b,
  st_le a b -> vis_inv d class b ->
  (forall l, In l ls -> exists a', fold_res (pstep d class cls) a l = Ok a') ->
  exists b', fold_res (pstep d class cls) b (concat ls) = Ok b'.
Proof.
  induction ls as [|l ls IH]; intros b Hle Hi Hall; cbn [concat]; [cbn; eauto|].
  destruct (Hall l (or_introl eq_refl)) as [a' Ha].
  destruct (fold_mono _ _ _ _ _ _ _ Hle Hi Ha) as [b1 [Hb [Hle1 Hi1]]].
  rewrite fold_res_app, Hb. cbn [rbind]. apply IH; auto.
  - eapply st_le_trans; [|exact Hle1]. eapply fold_grows; eauto.
  - intros l' Hl'. apply Hall. now right.
Qed.

(* (1b), strongest form: no consistency hypothesis *)
Theorem collect_types_each_alone_noH d class insts :
  Forall (fun j => i_class j = class) insts ->
  (forall i, In i insts -> exists st', collect_type_info d ser_state0 i = Ok st') ->
  exists st', fold_res (collect_type_info d) ser_state0 insts = Ok st'.
Proof.
  intros HC Halone. destruct insts as [|i0 insts0]; [cbn; eauto|].
  rewrite (fold_collect_same_class d class) by exact HC. apply plan_class_ok_iff.
  rewrite flat_map_concat_map.
  apply (fold_each_alone d class _ (class_state d class ser_state0)).
  - apply st_le_refl.
  - intros n v c s t m Hv. unfold class_state, class_ti in Hv. cbn in Hv. discriminate.
  - intros l Hl. apply in_map_iff in Hl. destruct Hl as [i [<- Hi]].
    destruct (Halone i Hi) as [st' Hst']. rewrite Forall_forall in HC.
    rewrite collect_type_info_eq, (HC i Hi) in Hst'.
    assert (Hok : exists st', plan_class d class ser_state0 [i] = Ok st') by eauto.
    apply plan_class_ok_iff in Hok. cbn [flat_map] in Hok. now rewrite app_nil_r in Hok.
Qed.
Print Assumptions collect_types_each_alone_noH.

(* ========================================================================================== *)
(* the characterisation of Part 1 stated on cti_prop itself                                    *)
(* ========================================================================================== *)
Theorem fold_cti_ok_iff d class l ss ti :
  types_agree d class l ->
  (exists acc', fold_res (cti_prop d class) (ss, ti) l = Ok acc') <->
  Forall (fun pv => bmem (fst pv) (ti_visited ti) = true \/
                    pair_plannable d class (ti_class ti) (ti_props ti) pv) l.
Proof.
  intros HA. rewrite fold_cti_pstep. cbn [snd].
  rewrite <- (fold_plan_ok_iff d class (ti_class ti) l (proj_state (ss, ti)) HA).
  unfold rmap. split.
  - intros [acc' H]. destruct (fold_res _ _ l) as [r| | |]; cbn [rbind] in H; try discriminate. eauto.
  - intros [r H]. rewrite H. cbn [rbind]. eauto.
Qed.
Print Assumptions fold_cti_ok_iff.

(* from a fresh TypeInfo (only the Name column exists): every pair is plannable in the strict sense, except
   that a property that resolves to the canonical name "Name" is never looked at *)
Lemma pair_plannable_fresh d class cls pv :
  pair_plannable d class cls [(NAME, mkPI WString NAME [] (VString []) None)] pv <->
  (prop_plannable d cls class (fst pv) (snd pv) \/
   exists s t m, resolve_prop d class (fst pv) (snd pv) = Ok (RProp NAME s t m)).
Proof.
  split.
  - intros [r [Hr Hp]]. destruct r as [|c s t m].
    + left. exists RSkip. auto.
    + destruct Hp as [Hk|Hp]; [|left; exists (RProp c s t m); auto].
      right. unfold haskey in Hk. cbn [bfind] in Hk. destruct (bytes_eqb c NAME) eqn:E; [|discriminate].
      apply bytes_eqb_eq in E. subst c. eauto.
  - intros [[r [Hr Hp]]|[s [t [m Hr]]]].
    + exists r. split; [exact Hr|]. destruct r; auto.
    + exists (RProp NAME s t m). split; [exact Hr|]. left. reflexivity.
Qed.

(* non-vacuity of Part 2 / Part 3 on the three colour spellings *)
Example three_parts_plan_equiv :
  exists st1 st2,
    fold_res (collect_type_info db_part) ser_state0 three_parts = Ok st1 /\
    fold_res (collect_type_info db_part) ser_state0 three_parts' = Ok st2 /\
    exists ti1 ti2,
      bfind (bstr "Part") (ss_types st1) = Some ti1 /\ bfind (bstr "Part") (ss_types st2) = Some ti2 /\
      Forall2 (fun x y => fst x = fst y /\ pi_equiv_perm (snd x) (snd y)) (ti_props ti1) (ti_props ti2).
Proof.
  destruct three_parts_together as [st2 H2].
  destruct (collect_types_perm_success db_part (bstr "Part") ser_state0 three_parts' three_parts) as [st1 H1].
  - repeat constructor.
  - exists three_parts. split; [|repeat constructor].
    unfold three_parts, three_parts'. apply (Permutation_cons_app [_; _] []). apply Permutation_refl.
  - apply spellings_types_agree. apply agree_check_sound. vm_compute. reflexivity.
  - eauto.
  - exists st1, st2. split; [exact H1|]. split; [exact H2|].
    destruct (collect_types_perm_plan_spelled db_part (bstr "Part") ser_state0 three_parts three_parts' st1 st2)
      as (ti1 & ti2 & A & B & _ & _ & _ & _ & _ & _ & C & _); auto.
    + discriminate.
    + exact three_parts_class.
    + exact three_parts_perm.
    + exact (proj1 three_parts_agree).
    + exact (proj2 three_parts_agree).
    + apply ser_state0_nodup.
    + eauto.
Qed.

Example three_parts_one_spelling :
  Forall (one_spelling (bstr "Color") [bstr "BrickColor"; bstr "Color3uint8"]) three_parts.
Proof.
  repeat constructor; intros a b Ia Ib Ha Hb; cbn [In] in Ia, Ib;
    repeat match goal with H : _ \/ _ |- _ => destruct H end; subst; try reflexivity; try contradiction;
    vm_compute in Ha, Hb; discriminate.
Qed.

Example three_parts_column :
  List.map (prop_value ep_part (bstr "Color") colour_pi [bstr "BrickColor"; bstr "Color3uint8"]) three_parts
  = List.map (prop_value ep_part (bstr "Color")
                (mkPI WColor3uint8 (bstr "Color3uint8") [bstr "Color3uint8"; bstr "BrickColor"] (VColor3uint8 0 0 0) (Some MigBrick))
                [bstr "Color3uint8"; bstr "BrickColor"]) three_parts.
Proof.
  apply (column_values_perm ep_part (bstr "Color")
           (mkPI WColor3uint8 (bstr "Color3uint8") [bstr "BrickColor"; bstr "Color3uint8"] (VColor3uint8 0 0 0) (Some MigBrick))).
  - repeat constructor.
  - repeat constructor; cbn; intuition discriminate.
  - split5; try reflexivity. apply perm_swap.
  - apply Permutation_refl.
  - apply Permutation_refl.
  - exact three_parts_one_spelling.
Qed.

(* ========================================================================================== *)
(* Part 4: the whole encoder, for a DOM whose property maps are iterated in another order      *)
(* ========================================================================================== *)
(* ---- association lists related key by key ---- *)
Definition keyed_equiv {V} (R : V -> V -> Prop) (p q : list (bytes * V)) : Prop :=
  Forall2 (fun x y => fst x = fst y /\ R (snd x) (snd y)) p q.

Lemma ke_bfind {V} (R : V -> V -> Prop) c p q : keyed_equiv R p q ->
  match bfind c p, bfind c q with
  | Some a, Some b => R a b
  | None, None => True
  | _, _ => False
  end.
Proof.
  induction 1 as [|[k1 a] [k2 b] p q [Hk Hp] _ IH]; cbn [bfind]; [exact I|].
  cbn [fst snd] in Hk, Hp. subst k2. destruct (bytes_eqb c k1); [exact Hp|exact IH].
Qed.

Lemma ke_bset {V} (R : V -> V -> Prop) c a b p q : R a b -> keyed_equiv R p q -> keyed_equiv R (bset c a p) (bset c b q).
Proof.
  intros Hab. induction 1 as [|[k1 x] [k2 y] p q [Hk Hp] Hr IH]; cbn [bset]; [constructor|].
  cbn [fst snd] in Hk, Hp. subst k2. destruct (bytes_eqb c k1).
  - constructor; [split; [reflexivity|exact Hab]|exact Hr].
  - constructor; [split; [reflexivity|exact Hp]|exact IH].
Qed.

Lemma ke_binsert {V} (R : V -> V -> Prop) c a b p q :
  R a b -> keyed_equiv R p q -> keyed_equiv R (binsert (c, a) p) (binsert (c, b) q).
Proof.
  intros Hab. induction 1 as [|[k1 x] [k2 y] p q [Hk Hp] Hr IH]; cbn [binsert fst].
  - constructor; [split; [reflexivity|exact Hab]|constructor].
  - cbn [fst snd] in Hk, Hp. subst k2. destruct (bytes_ltb k1 c).
    + constructor; [split; [reflexivity|exact Hp]|exact IH].
    + constructor; [split; [reflexivity|exact Hab]|]. constructor; [split; [reflexivity|exact Hp]|exact Hr].
Qed.

Definition ti_equiv (a b : type_info) : Prop :=
  ti_id a = ti_id b /\ ti_service a = ti_service b /\ ti_instances a = ti_instances b /\ ti_class a = ti_class b /\
  same_set (ti_visited a) (ti_visited b) /\ props_equiv (ti_props a) (ti_props b).
Definition ser_equiv (a b : ser_state) : Prop :=
  ss_relevant a = ss_relevant b /\ ss_next_id a = ss_next_id b /\ same_set (ss_sstr a) (ss_sstr b) /\
  keyed_equiv ti_equiv (ss_types a) (ss_types b).

Lemma ti_equiv_refl a : ti_equiv a a.
Proof. repeat (split; [reflexivity|]). split; [apply same_set_refl|apply props_equiv_refl]. Qed.

Lemma keyed_equiv_refl {V} (R : V -> V -> Prop) p : (forall a, R a a) -> keyed_equiv R p p.
Proof. intros H. induction p; constructor; auto. Qed.

Lemma ser_equiv_refl a : ser_equiv a a.
Proof. repeat (split; [reflexivity|]). split; [apply same_set_refl|apply keyed_equiv_refl, ti_equiv_refl]. Qed.

Lemma class_ti_equiv d class a b : ser_equiv a b -> ti_equiv (class_ti d class a) (class_ti d class b).
Proof.
  intros (_ & Hn & _ & Ht). unfold class_ti. pose proof (ke_bfind ti_equiv class _ _ Ht) as Hf.
  destruct (bfind class (ss_types a)), (bfind class (ss_types b)); try contradiction; [exact Hf|].
  rewrite Hn. apply ti_equiv_refl.
Qed.

Lemma class_types_equiv d class a b : ser_equiv a b -> keyed_equiv ti_equiv (class_types d class a) (class_types d class b).
Proof.
  intros (_ & Hn & _ & Ht). unfold class_types. pose proof (ke_bfind ti_equiv class _ _ Ht) as Hf.
  destruct (bfind class (ss_types a)), (bfind class (ss_types b)); try contradiction; [exact Ht|].
  rewrite Hn. apply ke_binsert; [apply ti_equiv_refl|exact Ht].
Qed.

Lemma class_next_equiv class a b : ser_equiv a b -> class_next class a = class_next class b.
Proof.
  intros (_ & Hn & _ & Ht). unfold class_next. pose proof (ke_bfind ti_equiv class _ _ Ht) as Hf.
  destruct (bfind class (ss_types a)), (bfind class (ss_types b)); try contradiction; now rewrite Hn.
Qed.

(* collect_type_info respects the equivalence, for two listings of one instance *)
Lemma collect_cong d a b i i' :
  ser_equiv a b -> inst_perm i i' ->
  spellings_agree d (i_class i) (i_props i) -> migrations_agree d (i_class i) (i_props i) ->
  res_equiv ser_equiv (collect_type_info d a i) (collect_type_info d b i').
Proof.
  intros Hab (Hr & _ & Hc & _ & Hp) HS HM. rewrite !collect_type_info_eq, <- Hc. unfold plan_class.
  cbn [flat_map List.map]. rewrite !app_nil_r.
  pose proof (class_ti_equiv d (i_class i) a b Hab) as (T1 & T2 & T3 & T4 & T5 & T6).
  rewrite <- T4.
  apply (res_equiv_bind st_equiv ser_equiv).
  - apply fold_pstep_perm; auto. destruct Hab as (_ & _ & Hs & _).
    split3; cbn [class_state ps_ss ps_vis ps_props fst snd]; assumption.
  - intros r1 r2 (Es & Ev & Ep). cbn [res_equiv]. unfold plan_result.
    destruct Hab as (Hrel & Hn & Hs & Ht).
    split; [exact Hrel|]. split; [now apply class_next_equiv; repeat split|]. split; [exact Es|].
    cbn [ss_types]. apply ke_bset; [|apply class_types_equiv; repeat split; assumption].
    rewrite <- Hr, T1, T2, T3, T4. repeat (split; [reflexivity|]). split; assumption.
Qed.

(* ---- the DOM with every property map re-listed ---- *)
Lemma find_inst_perm dom dom' r : Forall2 inst_perm dom dom' ->
  match find_inst dom r, find_inst dom' r with
  | Some i, Some i' => inst_perm i i' /\ In i dom
  | None, None => True
  | _, _ => False
  end.
Proof.
  induction 1 as [|i i' dom dom' Hi _ IH]; cbn [find_inst]; [exact I|].
  destruct Hi as (Hr & Hrest). rewrite <- Hr. destruct (N.eqb (i_ref i) r).
  - split; [split; assumption|now left].
  - destruct (find_inst dom r), (find_inst dom' r); try contradiction; [|exact I].
    destruct IH as [IH1 IH2]. split; [exact IH1|now right].
Qed.

Lemma children_of_perm dom dom' r : Forall2 inst_perm dom dom' -> children_of dom r = children_of dom' r.
Proof.
  unfold children_of. induction 1 as [|i i' dom dom' (Hr & Hp & _) _ IH]; cbn [filter List.map]; [reflexivity|].
  rewrite <- Hp. destruct (N.eqb (i_parent i) r); cbn [List.map]; now rewrite ?Hr, IH.
Qed.

Definition dom_agree (d : db) (dom : cdom) : Prop :=
  forall i, In i dom -> spellings_agree d (i_class i) (i_props i) /\ migrations_agree d (i_class i) (i_props i).

Lemma add_loop_cong d dom dom' :
  Forall2 inst_perm dom dom' -> dom_agree d dom ->
  forall fuel outer tv lvc a b, ser_equiv a b ->
  res_equiv ser_equiv (add_loop fuel d dom outer tv lvc a) (add_loop fuel d dom' outer tv lvc b).
Proof.
  intros HD HA. induction fuel as [|f IH]; intros outer tv lvc a b Hab; cbn [add_loop]; [exact I|].
  destruct tv as [|r rest]; [exact Hab|].
  pose proof (find_inst_perm dom dom' r HD) as Hf. rewrite <- (children_of_perm dom dom' r HD).
  destruct (find_inst dom r) as [i|], (find_inst dom' r) as [i'|]; try contradiction; [|exact I].
  destruct Hf as [Hi Hin].
  destruct outer; [now apply IH|].
  destruct (negb (is_nil (children_of dom r)) && negb (opt_eqb (last_opt (children_of dom r)) lvc)); [now apply IH|].
  apply (res_equiv_bind ser_equiv ser_equiv).
  - destruct (HA i Hin) as [HS HM]. apply collect_cong; auto.
    destruct Hab as (H1 & H2 & H3 & H4). split; [cbn [ss_relevant]; now rewrite H1|]. repeat split; assumption.
  - intros a' b' Hab'. now apply IH.
Qed.

(* ---- NoDup invariants of the whole state ---- *)
Definition props_nodup (props : list (bytes * prop_info)) : Prop :=
  Forall (fun kp => NoDup (pi_aliases (snd kp))) props.
Definition ser_nodup (st : ser_state) : Prop :=
  NoDup (ss_sstr st) /\ Forall (fun ct => props_nodup (ti_props (snd ct))) (ss_types st).

Lemma ser_nodup_class d class st : ser_nodup st -> st_nodup (class_state d class st).
Proof.
  intros [Hs Ht]. split; [exact Hs|]. cbn [class_state ps_props snd]. unfold class_ti.
  destruct (bfind class (ss_types st)) as [ti|] eqn:E.
  - apply bfind_in in E. rewrite Forall_forall in Ht. exact (Ht _ E).
  - unfold new_type_info. cbn [ti_props]. constructor; [cbn; constructor|constructor].
Qed.

Lemma collect_nodup d st i st' : collect_type_info d st i = Ok st' -> ser_nodup st -> ser_nodup st'.
Proof.
  rewrite collect_type_info_eq. unfold plan_class. intros H Hn.
  destruct (fold_res _ _ _) as [r| | |] eqn:F; cbn [rbind] in H; try discriminate. injection H as <-.
  pose proof (fold_pstep_nodup _ _ _ _ _ _ F (ser_nodup_class d (i_class i) st Hn)) as [Ns Np].
  split; [exact Ns|]. unfold plan_result. cbn [ss_types].
  apply forall_bset; [intros k; exact Np|].
  destruct Hn as [_ Ht]. unfold class_types. destruct (bfind (i_class i) (ss_types st)); [exact Ht|].
  apply forall_binsert; [|exact Ht]. cbn [snd]. unfold new_type_info. cbn [ti_props].
  constructor; [cbn; constructor|constructor].
Qed.

Lemma add_loop_nodup d dom : forall fuel outer tv lvc st st',
  add_loop fuel d dom outer tv lvc st = Ok st' -> ser_nodup st -> ser_nodup st'.
Proof.
  induction fuel as [|f IH]; intros outer tv lvc st st' H Hn; cbn [add_loop] in H; [discriminate|].
  destruct tv as [|r rest]; [now injection H as <-|].
  destruct (find_inst dom r) as [i|]; [|discriminate].
  destruct outer; [eapply IH; eauto|].
  destruct (negb (is_nil (children_of dom r)) && negb (opt_eqb (last_opt (children_of dom r)) lvc)); [eapply IH; eauto|].
  destruct (collect_type_info d _ i) as [st1| | |] eqn:E; cbn [rbind] in H; try discriminate.
  eapply IH; [exact H|]. eapply collect_nodup; [exact E|]. exact Hn.
Qed.

(* ---- sorting the shared strings by hash ---- *)
Lemma bsort_perm {V} (l l' : list (bytes * V)) :
  Permutation l l' -> NoDup (List.map fst l) -> bsort l = bsort l'.
Proof.
  induction 1 as [|x l l' Hp IH|x y l|l l' l'' Hp1 IH1 Hp2 IH2]; intros Hn; cbn [bsort fold_right List.map] in *.
  - reflexivity.
  - apply NoDup_cons_iff in Hn. destruct Hn as [_ Hn]. unfold bsort in IH. now rewrite IH.
  - apply NoDup_cons_iff in Hn. destruct Hn as [Hy _]. destruct x as [kx vx], y as [ky vy]. cbn [fst] in Hy.
    apply binsert_binsert_comm. apply bytes_eqb_neq. intros ->. apply Hy. now left.
  - rewrite IH1 by exact Hn. apply IH2. eapply Permutation_NoDup; [apply Permutation_map; exact Hp1|exact Hn].
Qed.

Definition hash_inj (hash : list (bytes * bytes)) : Prop :=
  forall s1 s2 h, bfind s1 hash = Some h -> bfind s2 hash = Some h -> s1 = s2.

Lemma sort_keyed (hash : list (bytes * bytes)) : forall (ss : list bytes) (acc : list (bytes * bytes)),
  fold_res (fun acc s => match bfind s hash with Some h => Ok (acc ++ [(h, s)]) | None => Err E_HASH_ORDER end) acc ss
  = if forallb (fun s => match bfind s hash with Some _ => true | None => false end) ss
    then Ok (acc ++ List.map (fun s => (match bfind s hash with Some h => h | None => ([] : bytes) end, s)) ss)
    else Err E_HASH_ORDER.
Proof.
  induction ss as [|s ss IH]; intros acc; cbn [fold_res forallb List.map]; [now rewrite app_nil_r|].
  destruct (bfind s hash) as [h|]; cbn [rbind andb]; [|reflexivity].
  rewrite IH. rewrite <- app_assoc. reflexivity.
Qed.

Lemma sort_sstr_perm hash ss ss' :
  hash_inj hash -> NoDup ss -> Permutation ss ss' -> sort_sstr hash ss = sort_sstr hash ss'.
Proof.
  intros Hi Hn Hp. unfold sort_sstr. rewrite !sort_keyed. cbn [app].
  set (f := fun s => match bfind s hash with Some _ => true | None => false end).
  assert (Ef : forallb f ss = forallb f ss').
  { destruct (forallb f ss) eqn:E1; destruct (forallb f ss') eqn:E2; try reflexivity.
    - rewrite forallb_forall in E1. assert (forallb f ss' = true); [|congruence].
      apply forallb_forall. intros x Hx. apply E1. eapply Permutation_in; [apply Permutation_sym; exact Hp|exact Hx].
    - rewrite forallb_forall in E2. assert (forallb f ss = true); [|congruence].
      apply forallb_forall. intros x Hx. apply E2. eapply Permutation_in; [exact Hp|exact Hx]. }
  rewrite <- Ef. destruct (forallb f ss) eqn:E; [|reflexivity]. cbn [rbind]. f_equal. f_equal.
  apply bsort_perm; [now apply Permutation_map|].
  rewrite List.map_map. cbn [fst].
  rewrite forallb_forall in E. clear Ef Hp.
  induction Hn as [|s ss Hs Hn IH]; cbn [List.map]; constructor.
  - intros Hin. apply in_map_iff in Hin. destruct Hin as [s2 [Eh Hs2]]. apply Hs.
    assert (F1 : f s = true) by (apply E; now left). assert (F2 : f s2 = true) by (apply E; now right).
    unfold f in F1, F2. destruct (bfind s hash) as [h1|] eqn:B1; [|discriminate].
    destruct (bfind s2 hash) as [h2|] eqn:B2; [|discriminate]. subst h2.
    now rewrite (Hi s s2 h1 B1 B2).
  - apply IH. intros x Hx. apply E. now right.
Qed.

(* ---- add_instances ---- *)
Lemma ser_state0_ser_nodup : ser_nodup ser_state0.
Proof. split; constructor. Qed.

Lemma forall2_len {A B} (R : A -> B -> Prop) l l' : Forall2 R l l' -> length l = length l'.
Proof. induction 1; cbn [length]; congruence. Qed.

Lemma forall2_impl {A B} (R S : A -> B -> Prop) l l' : (forall a b, R a b -> S a b) -> Forall2 R l l' -> Forall2 S l l'.
Proof. intros H. induction 1; constructor; auto. Qed.

Lemma forall2_strengthen {A B} (R : A -> B -> Prop) (P : A -> Prop) (Q : B -> Prop) (l0 : list A) l l' :
  Forall2 R l l' -> incl l l0 -> Forall P l -> Forall Q l' ->
  Forall2 (fun a b => In a l0 /\ P a /\ Q b /\ R a b) l l'.
Proof.
  induction 1 as [|a b l l' Hab _ IH]; intros Hi HP HQ; constructor.
  - apply Forall_cons_iff in HP, HQ. repeat split; try tauto. apply Hi. now left.
  - apply Forall_cons_iff in HP, HQ. apply IH; try tauto. intros x Hx. apply Hi. now right.
Qed.

Lemma add_instances_perm d p dom dom' roots st :
  Forall2 inst_perm dom dom' -> dom_agree d dom -> hash_inj (ep_hash p) ->
  add_instances d p dom roots = Ok st ->
  exists st', add_instances d p dom' roots = Ok st' /\
              ss_relevant st = ss_relevant st' /\ ss_next_id st = ss_next_id st' /\ ss_sstr st = ss_sstr st' /\
              keyed_equiv ti_equiv (ss_types st) (ss_types st') /\
              Forall (fun ct => props_nodup (ti_props (snd ct))) (ss_types st) /\
              Forall (fun ct => props_nodup (ti_props (snd ct))) (ss_types st').
Proof.
  intros HD HA Hh H. unfold add_instances in *. rewrite <- (forall2_len _ _ _ HD).
  pose proof (add_loop_cong d dom dom' HD HA (3 * (length dom + 1) * (length roots + 1)) true roots None
                ser_state0 ser_state0 (ser_equiv_refl _)) as Hc.
  destruct (add_loop _ d dom true roots None ser_state0) as [s1| | |] eqn:E1; cbn [rbind] in H; try discriminate.
  destruct (add_loop _ d dom' true roots None ser_state0) as [s2| | |] eqn:E2; cbn [res_equiv] in Hc; try contradiction.
  cbn [rbind]. destruct Hc as (Hr & Hn & Hs & Ht).
  pose proof (add_loop_nodup _ _ _ _ _ _ _ _ E1 ser_state0_ser_nodup) as [N1 P1].
  pose proof (add_loop_nodup _ _ _ _ _ _ _ _ E2 ser_state0_ser_nodup) as [N2 P2].
  rewrite <- (sort_sstr_perm (ep_hash p) (ss_sstr s1) (ss_sstr s2) Hh N1 (same_set_perm _ _ N1 N2 Hs)).
  destruct (sort_sstr (ep_hash p) (ss_sstr s1)) as [ss| | |]; cbn [rbind] in H |- *; try discriminate.
  injection H as <-. eexists. split; [reflexivity|]. cbn [ss_relevant ss_next_id ss_sstr ss_types].
  repeat split; assumption.
Qed.

(* ---- the chunks ---- *)
Lemma map_res_forall2 {A A' B} (f : A -> res B) (g : A' -> res B) l l' :
  Forall2 (fun x y => f x = g y) l l' -> map_res f l = map_res g l'.
Proof. induction 1 as [|x y l l' Hxy _ IH]; cbn [map_res]; [reflexivity|]. now rewrite Hxy, IH. Qed.

Lemma map_res_ext {A B} (f g : A -> res B) l : (forall x, f x = g x) -> map_res f l = map_res g l.
Proof. intros H. induction l as [|x l IH]; cbn [map_res]; [reflexivity|]. now rewrite H, IH. Qed.

Lemma is_perm_of_perm a b : Permutation a b -> is_perm a b = true.
Proof.
  intros Hp. unfold is_perm. rewrite (Permutation_length Hp), Nat.eqb_refl. cbn [andb].
  apply andb_true_iff. split; apply forallb_forall; intros x Hx; apply bmem_In.
  - eapply Permutation_in; eauto.
  - eapply Permutation_in; [apply Permutation_sym; exact Hp|exact Hx].
Qed.

Lemma find_inst_in dom r i : find_inst dom r = Some i -> In i dom.
Proof.
  induction dom as [|j dom IH]; cbn [find_inst]; [discriminate|].
  destruct (N.eqb (i_ref j) r); [intros [= ->]; now left|intros H; right; auto].
Qed.

Definition gather (dom : cdom) (acc : list inst) (rs : list N) : res (list inst) :=
  fold_res (fun acc r => match find_inst dom r with Some i => Ok (acc ++ [i]) | None => Panic end) acc rs.

Lemma gather_perm dom dom' : Forall2 inst_perm dom dom' -> forall rs acc acc',
  Forall2 inst_perm acc acc' ->
  match gather dom acc rs, gather dom' acc' rs with
  | Ok l, Ok l' => Forall2 inst_perm l l'
  | Panic, Panic => True
  | _, _ => False
  end.
Proof.
  intros HD. induction rs as [|r rs IH]; intros acc acc' Ha; cbn [gather fold_res]; [exact Ha|].
  pose proof (find_inst_perm dom dom' r HD) as Hf.
  destruct (find_inst dom r) as [i|], (find_inst dom' r) as [i'|]; try contradiction; cbn [rbind]; [|exact I].
  apply IH. apply Forall2_app; [exact Ha|]. constructor; [apply Hf|constructor].
Qed.

Lemma gather_from dom : forall rs acc l, gather dom acc rs = Ok l ->
  forall i, In i l -> In i acc \/ exists r, In r rs /\ find_inst dom r = Some i.
Proof.
  induction rs as [|r rs IH]; intros acc l H i Hi; cbn [gather fold_res] in H.
  - injection H as <-. now left.
  - destruct (find_inst dom r) as [j|] eqn:E; cbn [rbind] in H; [|discriminate].
    destruct (IH _ _ H i Hi) as [Hin|[r' [Hr' Hf]]].
    + apply in_app_or in Hin. destruct Hin as [Hin|[<-|[]]]; [now left|]. right. exists r. split; [now left|exact E].
    + right. exists r'. split; [now right|exact Hf].
Qed.

Lemma prop_chunk_perm p dom dom' ctx ti ti' canon pi pi' :
  Forall2 inst_perm dom dom' ->
  (forall i, In i dom -> NoDup (List.map fst (i_props i))) ->
  ti_equiv ti ti' -> pi_equiv_perm pi pi' ->
  (forall l, Permutation (ep_order p l) l) ->
  (forall r i, In r (ti_instances ti) -> find_inst dom r = Some i -> one_spelling canon (pi_aliases pi) i) ->
  prop_chunk p dom ctx ti (canon, pi) = prop_chunk p dom' ctx ti' (canon, pi').
Proof.
  intros HD Hnd (T1 & T2 & T3 & _) Hpi Hord H1. unfold prop_chunk.
  rewrite !is_perm_of_perm by apply Hord. cbn [negb]. rewrite <- T3, <- T1.
  pose proof (gather_perm dom dom' HD (ti_instances ti) [] [] (Forall2_nil _)) as Hg.
  pose proof (gather_from dom (ti_instances ti) []) as Hfrom.
  unfold gather in Hg, Hfrom.
  destruct (fold_res _ [] (ti_instances ti)) as [l| | |] eqn:E1;
    match goal with |- context [fold_res ?f (@nil inst) (ti_instances ti)] =>
      destruct (fold_res f (@nil inst) (ti_instances ti)) as [l'| | |] eqn:E2 end;
    try contradiction; cbn [rbind]; try reflexivity.
  destruct Hpi as (P1 & P2 & P3 & P4 & P5).
  rewrite (column_values_perm p canon pi pi' (ep_order p (pi_aliases pi)) (ep_order p (pi_aliases pi')) l l').
  - now rewrite P1, P2.
  - exact Hg.
  - apply Forall_forall. intros i Hi. destruct (Hfrom l eq_refl i Hi) as [[]|[r [Hr Hf]]].
    apply Hnd. eapply find_inst_in; eauto.
  - repeat split; assumption.
  - apply Hord.
  - apply Hord.
  - apply Forall_forall. intros i Hi. destruct (Hfrom l eq_refl i Hi) as [[]|[r [Hr Hf]]]. eapply H1; eauto.
Qed.

(* every instance of a planned class carries at most one spelling of each of the class's columns *)
Definition plan_one_spelling (dom : cdom) (st : ser_state) : Prop :=
  forall cn ti canon pi r i,
    In (cn, ti) (ss_types st) -> In (canon, pi) (ti_props ti) -> In r (ti_instances ti) ->
    find_inst dom r = Some i -> one_spelling canon (pi_aliases pi) i.

(* MAIN (Part 4): the chunks do not depend on the order in which each instance's property map is iterated *)
Theorem encode_chunks_props_perm d p dom dom' roots e :
  Forall2 inst_perm dom dom' ->
  (forall i, In i dom -> NoDup (List.map fst (i_props i))) ->
  dom_agree d dom ->
  (forall l, Permutation (ep_order p l) l) ->
  hash_inj (ep_hash p) ->
  (forall st, add_instances d p dom roots = Ok st -> plan_one_spelling dom st) ->
  encode_chunks d p dom roots = Ok e -> encode_chunks d p dom' roots = Ok e.
Proof.
  intros HD Hnd HA Hord Hh H1 H. unfold encode_chunks in *.
  destruct (add_instances d p dom roots) as [st| | |] eqn:EA; cbn [rbind] in H; try discriminate.
  destruct (add_instances_perm d p dom dom' roots st HD HA Hh EA) as (st' & EA' & Hr & Hn & Hs & Ht & Np & Np').
  specialize (H1 st eq_refl). rewrite EA'. cbn [rbind]. rewrite <- Hr, <- Hs.
  assert (EL : BinValues.len32 (ss_types st') = BinValues.len32 (ss_types st)) by (unfold BinValues.len32; now rewrite (forall2_len _ _ _ Ht)).
  rewrite EL. clear EL.
  destruct (if Z.ltb 2147483647 (Z.of_nat (length (ss_relevant st))) then Panic else Ok tt); cbn [rbind] in H |- *; try discriminate.
  (* INST chunks *)
  assert (EI : map_res (inst_chunk (referent_table 0 (ss_relevant st) [])) (ss_types st)
             = map_res (inst_chunk (referent_table 0 (ss_relevant st) [])) (ss_types st')).
  { apply map_res_forall2. eapply forall2_impl; [|exact Ht].
    intros [cn ti] [cn' ti'] [Hk (T1 & T2 & T3 & _)]. cbn [fst snd] in *. subst cn'.
    unfold inst_chunk. now rewrite T1, T2, T3. }
  rewrite <- EI. clear EI.
  destruct (map_res (inst_chunk _) (ss_types st)) as [insts| | |]; cbn [rbind] in H |- *; try discriminate.
  (* PROP chunks *)
  set (ctx := mkEC _ _ _) in *.
  assert (EP : map_res (fun ct => map_res (prop_chunk p dom ctx (snd ct)) (ti_props (snd ct))) (ss_types st)
             = map_res (fun ct => map_res (prop_chunk p dom' ctx (snd ct)) (ti_props (snd ct))) (ss_types st')).
  { apply map_res_forall2.
    eapply forall2_impl; [|apply (forall2_strengthen _ _ _ (ss_types st) _ _ Ht (incl_refl _) Np Np')].
    intros [cn ti] [cn' ti'] (Hin & Nq & Nq' & Hk & Hti). cbn [fst snd] in *. subst cn'.
    apply map_res_forall2.
    pose proof Hti as (_ & _ & _ & _ & _ & Hpe).
    pose proof (props_equiv_perm _ _ Hpe Nq Nq') as Hpp.
    eapply forall2_impl; [|apply (forall2_strengthen _ (fun _ => True) (fun _ => True) (ti_props ti) _ _ Hpp (incl_refl _))].
    - intros [c pi] [c' pi'] (Hin2 & _ & _ & Hc & Hpi). cbn [fst snd] in *. subst c'.
      apply prop_chunk_perm; auto. intros r i Hri Hf. eapply (H1 cn ti c pi r i); eauto.
    - apply Forall_forall. auto.
    - apply Forall_forall. auto. }
  rewrite <- EP. clear EP.
  destruct (map_res _ (ss_types st)) as [props| | |]; cbn [rbind] in H |- *; try discriminate.
  destruct (map_res (to_ref _) (ss_relevant st)) as [objs| | |]; cbn [rbind] in H |- *; try discriminate.
  (* PRNT chunk *)
  match goal with |- context [map_res ?g (ss_relevant st)] =>
    match type of H with context [map_res ?f (ss_relevant st)] =>
      assert (EQ : map_res f (ss_relevant st) = map_res g (ss_relevant st)) end end.
  { apply map_res_ext. intros r.
    pose proof (find_inst_perm dom dom' r HD) as Hf.
    destruct (find_inst dom r) as [i|], (find_inst dom' r) as [i'|]; try contradiction; [|reflexivity].
    destruct Hf as [(_ & Hp & _) _]. now rewrite Hp. }
  rewrite <- EQ. clear EQ.
  destruct (map_res _ (ss_relevant st)) as [parents| | |]; cbn [rbind] in H |- *; try discriminate.
  exact H.
Qed.
Print Assumptions encode_chunks_props_perm.

(* ---- the hypothesis of Part 4 on the plan, from a hypothesis on the DOM ---- *)
(* a name is a spelling of column c: it is c, or it resolves to c *)
Definition spells (d : db) (class n c : bytes) : Prop :=
  n = c \/ exists v s t m, resolve_prop d class n v = Ok (RProp c s t m).
(* every instance carries at most one spelling of each logical property *)
Definition dom_one_spelling (d : db) (dom : cdom) : Prop :=
  forall i n1 n2 c, In i dom -> haskey n1 (i_props i) = true -> haskey n2 (i_props i) = true ->
                    spells d (i_class i) n1 c -> spells d (i_class i) n2 c -> n1 = n2.

Definition props_alias_inv (d : db) (class : bytes) (props : list (bytes * prop_info)) : Prop :=
  forall c pi a, In (c, pi) props -> In a (pi_aliases pi) ->
                 exists v s t m, resolve_prop d class a v = Ok (RProp c s t m).

Lemma in_bset {V} k (v : V) m k' v' : In (k', v') (bset k v m) -> (k' = k /\ v' = v) \/ In (k', v') m.
Proof.
  induction m as [|[k2 v2] m IH]; cbn [bset]; [tauto|].
  destruct (bytes_eqb k k2).
  - intros [[= <- <-]|H]; [now left|right; now right].
  - intros [H|H]; [right; now left|]. destruct (IH H); [now left|right; now right].
Qed.

Lemma in_binsert {V} (kv : bytes * V) m x : In x (binsert kv m) -> x = kv \/ In x m.
Proof.
  induction m as [|y m IH]; cbn [binsert]; [intros [<-|[]]; now left|].
  destruct (bytes_ltb (fst y) (fst kv)).
  - intros [<-|H]; [right; now left|]. destruct (IH H); [now left|right; now right].
  - intros [<-|H]; [now left|now right].
Qed.

Lemma in_new_pi_aliases a n c m pi : In a (pi_aliases (new_pi n c m pi)) -> In a (pi_aliases pi) \/ (a = n /\ n <> c).
Proof.
  intros H. apply bmem_In in H. rewrite bmem_new_pi in H. apply orb_true_iff in H.
  destruct H as [H|H]; [left; now apply bmem_In|right].
  apply andb_true_iff in H. destruct H as [H1 H2]. apply bytes_eqb_eq in H2. split; [exact H2|].
  intros ->. now rewrite bytes_eqb_refl in H1.
Qed.

Lemma pstep_alias_inv d class cls st pv st' :
  pstep d class cls st pv = Ok st' -> props_alias_inv d class (ps_props st) -> props_alias_inv d class (ps_props st').
Proof.
  destruct pv as [n v]. intros H Hi. apply pstep_inv in H.
  destruct H as [Hv Ev Ep _|Hv Hr Ev Ep _|c s ty m pi Hv Hr Hf Ev Ep _|c s ty m dv wt Hv Hr Hf Hc Ev Ep _]; rewrite Ep; auto.
  - intros c' pi' a Hin Ha. apply in_bset in Hin. destruct Hin as [[-> ->]|Hin]; [|eapply Hi; eauto].
    apply in_new_pi_aliases in Ha. destruct Ha as [Ha|[-> _]]; [|eauto].
    eapply Hi; [|exact Ha]. now apply bfind_in.
  - intros c' pi' a Hin Ha. apply in_binsert in Hin. destruct Hin as [[= -> ->]|Hin]; [|eapply Hi; eauto].
    apply in_new_pi_aliases in Ha. cbn [pi_aliases] in Ha. destruct Ha as [[]|[-> _]]. eauto.
Qed.

Lemma fold_alias_inv d class cls : forall l st st',
  fold_res (pstep d class cls) st l = Ok st' -> props_alias_inv d class (ps_props st) -> props_alias_inv d class (ps_props st').
Proof.
  induction l as [|pv l IH]; intros st st' H Hi; cbn [fold_res] in H; [now injection H as <-|].
  destruct (pstep d class cls st pv) as [st1| | |] eqn:E; cbn [rbind] in H; try discriminate.
  eapply IH; [exact H|]. eapply pstep_alias_inv; eauto.
Qed.

Definition ser_inv (d : db) (dom : cdom) (st : ser_state) : Prop :=
  forall cn ti, In (cn, ti) (ss_types st) ->
    props_alias_inv d cn (ti_props ti) /\
    (forall r i, In r (ti_instances ti) -> find_inst dom r = Some i -> i_class i = cn).

Lemma new_type_info_inv d dom id cn :
  props_alias_inv d cn (ti_props (new_type_info d id cn)) /\
  (forall r i, In r (ti_instances (new_type_info d id cn)) -> find_inst dom r = Some i -> i_class i = cn).
Proof.
  unfold new_type_info. cbn [ti_props ti_instances]. split.
  - intros c pi a [[= <- <-]|[]] [].
  - intros r i [].
Qed.

Lemma class_ti_inv d dom class st : ser_inv d dom st ->
  props_alias_inv d class (ti_props (class_ti d class st)) /\
  (forall r i, In r (ti_instances (class_ti d class st)) -> find_inst dom r = Some i -> i_class i = class).
Proof.
  intros Hi. unfold class_ti. destruct (bfind class (ss_types st)) as [ti|] eqn:E.
  - apply Hi. now apply bfind_in.
  - apply new_type_info_inv.
Qed.

Lemma collect_inv d dom st i st' :
  find_inst dom (i_ref i) = Some i ->
  collect_type_info d st i = Ok st' -> ser_inv d dom st -> ser_inv d dom st'.
Proof.
  intros Hfi. rewrite collect_type_info_eq. unfold plan_class. intros H Hi.
  destruct (fold_res _ _ _) as [r| | |] eqn:F; cbn [rbind] in H; try discriminate. injection H as <-.
  destruct (class_ti_inv d dom (i_class i) st Hi) as [A0 I0].
  intros cn ti Hin. unfold plan_result in Hin. cbn [ss_types] in Hin.
  apply in_bset in Hin. destruct Hin as [[-> ->]|Hin].
  - cbn [ti_props ti_instances]. split.
    + eapply fold_alias_inv; [exact F|]. exact A0.
    + cbn [List.map]. intros r0 i0 Hr0 Hf0. apply in_app_or in Hr0. destruct Hr0 as [Hr0|[<-|[]]]; [eapply I0; eauto|].
      rewrite Hfi in Hf0. now injection Hf0 as <-.
  - unfold class_types in Hin. destruct (bfind (i_class i) (ss_types st)); [now apply Hi|].
    apply in_binsert in Hin. destruct Hin as [[= -> ->]|Hin]; [apply new_type_info_inv|now apply Hi].
Qed.

Lemma find_inst_ref dom r i : find_inst dom r = Some i -> i_ref i = r.
Proof.
  induction dom as [|j dom IH]; cbn [find_inst]; [discriminate|].
  destruct (N.eqb (i_ref j) r) eqn:E; [intros [= ->]; now apply N.eqb_eq|exact IH].
Qed.

Lemma add_loop_inv d dom : forall fuel outer tv lvc st st',
  add_loop fuel d dom outer tv lvc st = Ok st' -> ser_inv d dom st -> ser_inv d dom st'.
Proof.
  induction fuel as [|f IH]; intros outer tv lvc st st' H Hn; cbn [add_loop] in H; [discriminate|].
  destruct tv as [|r rest]; [now injection H as <-|].
  destruct (find_inst dom r) as [i|] eqn:Ef; [|discriminate].
  destruct outer; [eapply IH; eauto|].
  destruct (negb (is_nil (children_of dom r)) && negb (opt_eqb (last_opt (children_of dom r)) lvc)); [eapply IH; eauto|].
  destruct (collect_type_info d _ i) as [st1| | |] eqn:E; cbn [rbind] in H; try discriminate.
  eapply IH; [exact H|]. eapply collect_inv; [|exact E|exact Hn].
  now rewrite (find_inst_ref _ _ _ Ef).
Qed.

Theorem dom_plan_one_spelling d p dom roots st :
  dom_one_spelling d dom -> add_instances d p dom roots = Ok st -> plan_one_spelling dom st.
Proof.
  intros H1 H. unfold add_instances in H.
  destruct (add_loop _ d dom true roots None ser_state0) as [s1| | |] eqn:E1; cbn [rbind] in H; try discriminate.
  destruct (sort_sstr (ep_hash p) (ss_sstr s1)) as [ss| | |]; cbn [rbind] in H; try discriminate. injection H as <-.
  assert (Hi : ser_inv d dom s1).
  { eapply add_loop_inv; [exact E1|]. intros cn ti []. }
  intros cn ti canon pi r i Hct Hkp Hr Hf. cbn [ss_types] in Hct.
  destruct (Hi cn ti Hct) as [HA HI]. pose proof (HI r i Hr Hf) as Hc.
  intros a b Ia Ib Ha Hb. apply (H1 i a b canon (find_inst_in _ _ _ Hf) Ha Hb); rewrite Hc.
  - destruct Ia as [<-|Ia]; [now left|right; eapply HA; eauto].
  - destruct Ib as [<-|Ib]; [now left|right; eapply HA; eauto].
Qed.

(* MAIN (Part 4), with hypotheses on the inputs only *)
Theorem encode_chunks_props_perm_dom d p dom dom' roots e :
  Forall2 inst_perm dom dom' ->
  (forall i, In i dom -> NoDup (List.map fst (i_props i))) ->
  dom_agree d dom -> dom_one_spelling d dom ->
  (forall l, Permutation (ep_order p l) l) -> hash_inj (ep_hash p) ->
  encode_chunks d p dom roots = Ok e -> encode_chunks d p dom' roots = Ok e.
Proof.
  intros HD Hnd HA H1 Hord Hh. apply encode_chunks_props_perm; auto.
  intros st Hst. eapply dom_plan_one_spelling; eauto.
Qed.
Print Assumptions encode_chunks_props_perm_dom.

Corollary encode_file_props_perm d p cmp dom dom' roots b :
  Forall2 inst_perm dom dom' ->
  (forall i, In i dom -> NoDup (List.map fst (i_props i))) ->
  dom_agree d dom -> dom_one_spelling d dom ->
  (forall l, Permutation (ep_order p l) l) -> hash_inj (ep_hash p) ->
  encode_file d p cmp dom roots = Ok b -> encode_file d p cmp dom' roots = Ok b.
Proof.
  intros HD Hnd HA H1 Hord Hh. unfold encode_file.
  destruct (encode_chunks d p dom roots) as [e| | |] eqn:E; cbn [rbind]; try discriminate.
  now rewrite (encode_chunks_props_perm_dom d p dom dom' roots e HD Hnd HA H1 Hord Hh E).
Qed.
Print Assumptions encode_file_props_perm.

(* ---- an executable form of dom_one_spelling ---- *)
Definition spell_cands (d : db) (class n : bytes) : list bytes :=
  n :: match resolve_prop d class n (VBool false) with Ok (RProp c _ _ _) => [c] | _ => [] end.
Definition inst_one_spelling_b (d : db) (i : inst) : bool :=
  let keys := List.map fst (i_props i) in
  forallb (fun n1 => forallb (fun n2 =>
    negb (existsb (fun c => bmem c (spell_cands d (i_class i) n2)) (spell_cands d (i_class i) n1)) || bytes_eqb n1 n2) keys) keys.

Lemma spells_cands d class n c : spells d class n c -> In c (spell_cands d class n).
Proof.
  intros [->|(v & s & t & m & Hr)]; [now left|]. right.
  destruct (resolve_value_indep d class n v (VBool false)) as [E|[E1 E2]].
  - rewrite <- E, Hr. now left.
  - rewrite E2. rewrite Hr in E1. injection E1 as -> _ _ _. now left.
Qed.

Lemma dom_one_spelling_check d dom : forallb (inst_one_spelling_b d) dom = true -> dom_one_spelling d dom.
Proof.
  intros H i n1 n2 c Hi H1 H2 S1 S2. rewrite forallb_forall in H. specialize (H i Hi).
  unfold inst_one_spelling_b in H. rewrite forallb_forall in H.
  assert (K1 : In n1 (List.map fst (i_props i))).
  { unfold haskey in H1. destruct (bfind n1 (i_props i)) eqn:E; [|discriminate]. eapply bfind_some_in_keys; eauto. }
  assert (K2 : In n2 (List.map fst (i_props i))).
  { unfold haskey in H2. destruct (bfind n2 (i_props i)) eqn:E; [|discriminate]. eapply bfind_some_in_keys; eauto. }
  specialize (H n1 K1). rewrite forallb_forall in H. specialize (H n2 K2).
  apply orb_true_iff in H. destruct H as [H|H]; [|now apply bytes_eqb_eq].
  exfalso. apply negb_true_iff in H.
  assert (existsb (fun c0 => bmem c0 (spell_cands d (i_class i) n2)) (spell_cands d (i_class i) n1) = true); [|congruence].
  apply existsb_exists. exists c. split; [now apply spells_cands|]. apply bmem_In. now apply spells_cands.
Qed.

Lemma hash_inj_nodup hash : NoDup (List.map snd hash) -> hash_inj hash.
Proof.
  intros Hn s1 s2 h H1 H2. apply bfind_in in H1, H2. revert H1 H2.
  induction hash as [|[k v] hash IH]; cbn [In List.map snd] in *; [tauto|].
  apply NoDup_cons_iff in Hn. destruct Hn as [Hv Hn].
  intros [E1|H1] [E2|H2].
  - congruence.
  - injection E1 as -> ->. exfalso. apply Hv. apply in_map_iff. now exists (s2, h).
  - injection E2 as -> ->. exfalso. apply Hv. apply in_map_iff. now exists (s1, h).
  - now apply IH.
Qed.

(* ---- non-vacuity of Part 4 ---- *)
Definition mixed_dom : cdom :=
  [ mkInst 1 0 (bstr "Part") (bstr "L") [(bstr "BrickColor", VBrickColor 194); (bstr "Tag", VString [7])];
    mkInst 2 1 (bstr "Part") (bstr "A") [(bstr "Tag", VString [8]); (bstr "Color3uint8", VColor3uint8 1 2 3); (bstr "S", VSharedString [9])];
    mkInst 3 0 (bstr "Part") (bstr "C") [(bstr "Color", VColor3 0 0 0)] ].
Definition mixed_dom' : cdom :=
  [ mkInst 1 0 (bstr "Part") (bstr "L") [(bstr "Tag", VString [7]); (bstr "BrickColor", VBrickColor 194)];
    mkInst 2 1 (bstr "Part") (bstr "A") [(bstr "S", VSharedString [9]); (bstr "Tag", VString [8]); (bstr "Color3uint8", VColor3uint8 1 2 3)];
    mkInst 3 0 (bstr "Part") (bstr "C") [(bstr "Color", VColor3 0 0 0)] ].
Definition ep_mixed : enc_params := mkEP [] [(194, (163, 162, 165))] (fun _ => 0) (fun l => rev l) [([9], [1; 1]); ([], [0; 0])].

Example mixed_dom_same_file :
  exists b, encode_file db_part ep_mixed None mixed_dom [1; 3] = Ok b /\
            encode_file db_part ep_mixed None mixed_dom' [1; 3] = Ok b.
Proof.
  destruct (encode_file db_part ep_mixed None mixed_dom [1; 3]) as [b| | |] eqn:E; try (vm_compute in E; discriminate).
  exists b. split; [reflexivity|].
  apply (encode_file_props_perm db_part ep_mixed None mixed_dom mixed_dom' [1; 3] b); [| | | | | |exact E].
  - constructor; [|constructor; [|constructor; [|constructor]]]; unfold inst_perm; cbn [i_ref i_parent i_class i_name i_props];
      (split; [reflexivity|]); (split; [reflexivity|]); (split; [reflexivity|]); (split; [reflexivity|]).
    + apply perm_swap.
    + apply Permutation_sym. apply (Permutation_cons_app [_; _] []). apply Permutation_refl.
    + apply Permutation_refl.
  - intros i [<-|[<-|[<-|[]]]]; cbn; repeat constructor; cbn; intuition discriminate.
  - intros i [<-|[<-|[<-|[]]]]; apply agree_check_sound; vm_compute; reflexivity.
  - apply dom_one_spelling_check. vm_compute. reflexivity.
  - intros l. apply Permutation_sym, Permutation_rev.
  - apply hash_inj_nodup. cbn. repeat constructor; cbn; intuition discriminate.
Qed.

(* the hypotheses are symmetric in the two listings, hence an equivalence *)
Lemma inst_perm_sym i i' : inst_perm i i' -> inst_perm i' i.
Proof. intros (A & B & C & D & E). repeat split; auto. now apply Permutation_sym. Qed.

Lemma forall2_flip {A B} (R : A -> B -> Prop) l l' : Forall2 R l l' -> Forall2 (fun b a => R a b) l' l.
Proof. induction 1; constructor; auto. Qed.

Lemma forall2_in_r {A B} (R : A -> B -> Prop) l l' b : Forall2 R l l' -> In b l' -> exists a, In a l /\ R a b.
Proof.
  induction 1 as [|x y l l' Hxy _ IH]; intros Hb; [destruct Hb|].
  destruct Hb as [<-|Hb]; [exists x; split; [now left|exact Hxy]|].
  destruct (IH Hb) as [a [Ha Hr]]. exists a. split; [now right|exact Hr].
Qed.

Lemma haskey_perm {V} n (m m' : list (bytes * V)) : Permutation m m' -> haskey n m = true -> haskey n m' = true.
Proof.
  intros Hp H. unfold haskey in *. destruct (bfind n m) as [v|] eqn:E; [|discriminate].
  apply bfind_some_in_keys in E.
  assert (Hin : In n (List.map fst m')) by (eapply Permutation_in; [apply Permutation_map; exact Hp|exact E]).
  destruct (in_keys_bfind _ _ Hin) as [v' ->]. reflexivity.
Qed.

Theorem encode_file_props_perm_iff d p cmp dom dom' roots b :
  Forall2 inst_perm dom dom' ->
  (forall i, In i dom -> NoDup (List.map fst (i_props i))) ->
  dom_agree d dom -> dom_one_spelling d dom ->
  (forall l, Permutation (ep_order p l) l) -> hash_inj (ep_hash p) ->
  (encode_file d p cmp dom roots = Ok b <-> encode_file d p cmp dom' roots = Ok b).
Proof.
  intros HD Hnd HA H1 Hord Hh. split; [now apply encode_file_props_perm|].
  apply encode_file_props_perm; auto.
  - apply forall2_flip in HD. eapply forall2_impl; [|exact HD]. intros a c. apply inst_perm_sym.
  - intros i' Hi'. destruct (forall2_in_r _ _ _ _ HD Hi') as [i [Hi (_ & _ & _ & _ & Hp)]].
    eapply Permutation_NoDup; [apply Permutation_map; exact Hp|now apply Hnd].
  - intros i' Hi'. destruct (forall2_in_r _ _ _ _ HD Hi') as [i [Hi (_ & _ & Hc & _ & Hp)]].
    destruct (HA i Hi) as [HS HM]. rewrite <- Hc. split.
    + eapply spellings_agree_incl; [|exact HS]. now apply perm_incl.
    + eapply migrations_agree_incl; [|exact HM]. now apply perm_incl.
  - intros i' n1 n2 c Hi' K1 K2 S1 S2. destruct (forall2_in_r _ _ _ _ HD Hi') as [i [Hi (_ & _ & Hc & _ & Hp)]].
    rewrite <- Hc in S1, S2. apply (H1 i n1 n2 c Hi); auto; eapply haskey_perm; [apply Permutation_sym; exact Hp| |apply Permutation_sym; exact Hp|]; assumption.
Qed.
Print Assumptions encode_file_props_perm_iff.

(* the order dependence found above (an undeclared property that is a String on one sibling and an Attributes
   value on another), with the database the crates load *)
Example sibling_order_dependence_bundled :
  is_ok (encode_file Database.database ep0 None [foo_string 1; foo_attrs 2] [1; 2]) = true /\
  encode_file Database.database ep0 None [foo_attrs 2; foo_string 1] [2; 1] = Err EE_UNSUPPORTED.
Proof. split; vm_compute; reflexivity. Qed.

(* EXPORT:
   Part 0 (C08)  cti_prop_pstep, cti_prop_unwrap_unreachable, cti_prop_ok_or_unsupported
   Part 1 (C08)  fold_cti_ok_iff (= fold_plan_ok_iff on the normal form; halves fold_plan_ok_suff [no hypothesis] and
                 fold_plan_ok_nec [types_agree]), pair_plannable_fresh, col_plan_ok_iff,
                 collect_types_perm_success (1a), collect_types_each_alone (1b), collect_types_each_alone_noH (1b, no H),
                 perm_success_needs_H, sibling_order_dependence_mixed_types, sibling_order_dependence_bundled (FINDING)
   Part 2 (C07/C08)  fold_pstep_perm, collect_types_perm_plan, collect_types_perm_plan_spelled
   Part 3 (C07/C08)  prop_value_alias_order, column_values_perm, prop_value_alias_order_refuted,
                 file_depends_on_property_order_with_two_spellings (FINDING)
   Part H        agree_check_sound, agree_from_db, bundled_spellings_ok, bundled_agree, coherent_db_without_H
   Part 4 (C07)  encode_chunks_props_perm, dom_plan_one_spelling, encode_chunks_props_perm_dom,
                 encode_file_props_perm, encode_file_props_perm_iff, dom_one_spelling_check, hash_inj_nodup
   non-vacuity   three_parts_agree, three_parts_together, three_parts_plans, three_parts_plan_equiv, three_parts_column,
                 db_part_spellings_ok, mixed_dom_same_file *)
