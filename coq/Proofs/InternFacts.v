(* InternFacts.v — facts about the SharedString intern table model (Model/Intern.v), property C18.
     - the pinned clean-up ([fixed = false]) allows two live buffers with equal contents;
     - the repaired clean-up ([fixed = true]) keeps the invariant [Inv], whence one live buffer per
       content and an empty table at quiescence;
     - handle contents never change, [new] returns a handle with exactly the requested content;
     - no operation is stuck for a wrong reason;
     - every thread-level step is exactly one abstract step, so [Inv] holds along every schedule.
   Thread-level counting invariant and progress: Proofs/InternThreads.v. *)
From RbxVerif Require Import Intern.
From Coq Require Import List Arith Lia Bool Permutation.
Import ListNotations.

(* ---- 1. refutation on the pinned code: two live buffers with the same content ---- *)

Example dedup_refuted_pinned :
  exists s, run false init [New 7; DropA 0; New 7; DropB 0; New 7] = Some s /\
            alive s 1 = true /\ alive s 2 = true /\ hashof s 1 = hashof s 2 /\ 1 <> 2.
Proof.
  eexists. split; [vm_compute; reflexivity|].
  vm_compute. repeat split; auto; discriminate.
Qed.

(* ---- basic facts ---- *)

Lemma fupd_same {A} (f : nat -> A) k v : fupd f k v k = v.
Proof. unfold fupd. rewrite Nat.eqb_refl. reflexivity. Qed.

Lemma fupd_other {A} (f : nat -> A) k v x : x <> k -> fupd f k v x = f x.
Proof. unfold fupd. intros Hne. apply Nat.eqb_neq in Hne. rewrite Hne. reflexivity. Qed.

Lemma alive_pos s b : alive s b = true <-> cnt s b > 0.
Proof.
  unfold alive. destruct (cnt s b) as [|n]; simpl; split; intros H; try lia; try reflexivity; discriminate H.
Qed.

Lemma dead_zero s b : alive s b = false <-> cnt s b = 0.
Proof.
  unfold alive. destruct (cnt s b) as [|n]; simpl; split; intros H; try lia; try reflexivity; discriminate H.
Qed.

Lemma in_remove1 b x l : In x (remove1 b l) -> In x l.
Proof.
  induction l as [|a l IH]; simpl; [intros H; exact H|].
  destruct (Nat.eqb a b); simpl.
  - intros H. right. exact H.
  - intros [H|H]; [left; exact H|right; apply IH; exact H].
Qed.

Lemma remove1_keeps b x l : x <> b -> In x l -> In x (remove1 b l).
Proof.
  intros Hne. induction l as [|a l IH]; simpl; [intros H; exact H|].
  intros [Ha|Hin].
  - subst a. apply Nat.eqb_neq in Hne. rewrite Hne. left. reflexivity.
  - destruct (Nat.eqb a b); simpl; [exact Hin|right; apply IH; exact Hin].
Qed.

Lemma nodup_remove1 b l : NoDup l -> NoDup (remove1 b l) /\ ~ In b (remove1 b l).
Proof.
  induction 1 as [|a l Ha Hl IH]; simpl.
  - split; [constructor|intros H; exact H].
  - destruct (Nat.eqb a b) eqn:E.
    + apply Nat.eqb_eq in E. subst a. split; [exact Hl|exact Ha].
    + destruct IH as [IH1 IH2]. split.
      * constructor; [|exact IH1]. intros Hin. apply Ha. eapply in_remove1. exact Hin.
      * simpl. intros [Heq|Hin]; [|exact (IH2 Hin)].
        subst a. rewrite Nat.eqb_refl in E. discriminate E.
Qed.

Lemma existsb_eqb_in b l : existsb (Nat.eqb b) l = true <-> In b l.
Proof.
  split.
  - intros H. apply existsb_exists in H. destruct H as (x & Hx & Hxb).
    apply Nat.eqb_eq in Hxb. subst x. exact Hx.
  - intros H. apply existsb_exists. exists b. split; [exact H|apply Nat.eqb_refl].
Qed.

(* ---- 2. the invariant of the repaired code ---- *)

Definition Inv (s : st) : Prop :=
  (forall b, cnt s b > 0 -> b < next s /\ table s (hashof s b) = Some b) /\
  (forall h b, table s h = Some b -> b < next s /\ hashof s b = h /\ (cnt s b = 0 -> In b (pend s))) /\
  (forall b, In b (pend s) -> b < next s /\ cnt s b = 0) /\
  NoDup (pend s).

(* ---- 3. it holds initially and is preserved ---- *)

Lemma inv_init : Inv init.
Proof.
  unfold Inv, init; simpl. split; [|split; [|split]].
  - intros b Hb. lia.
  - intros h b Hb. discriminate Hb.
  - intros b Hb. contradiction.
  - constructor.
Qed.

(* allocation of a fresh buffer into slot h whose occupant (if any) is dead *)
Lemma inv_alloc s h :
  Inv s -> (forall b, table s h = Some b -> cnt s b = 0) ->
  Inv (mkSt (fupd (table s) h (Some (next s))) (fupd (hashof s) (next s) h)
            (fupd (cnt s) (next s) 1) (pend s) (S (next s))).
Proof.
  intros (A & B & C & D) Hdead. unfold Inv; cbn [table hashof cnt pend next].
  split; [|split; [|split]].
  - intros b Hb. destruct (Nat.eq_dec b (next s)) as [Heq|Hne].
    + subst b. split; [lia|]. rewrite (fupd_same (hashof s)). rewrite fupd_same. reflexivity.
    + rewrite (fupd_other (cnt s)) in Hb by exact Hne. destruct (A b Hb) as [Hlt Ht].
      split; [lia|]. rewrite (fupd_other (hashof s)) by exact Hne.
      destruct (Nat.eq_dec (hashof s b) h) as [Hh|Hh].
      * subst h. specialize (Hdead b Ht). lia.
      * rewrite fupd_other by exact Hh. exact Ht.
  - intros h0 b Ht. destruct (Nat.eq_dec h0 h) as [Heq|Hh].
    + subst h0. rewrite fupd_same in Ht. injection Ht as Ht. subst b.
      rewrite (fupd_same (hashof s)). rewrite (fupd_same (cnt s)).
      split; [lia|split; [reflexivity|intros Hz; discriminate Hz]].
    + rewrite fupd_other in Ht by exact Hh. destruct (B _ _ Ht) as (Hlt & Hho & Hp).
      assert (Hne : b <> next s) by lia.
      rewrite (fupd_other (hashof s)) by exact Hne. rewrite (fupd_other (cnt s)) by exact Hne.
      split; [lia|split; [exact Hho|exact Hp]].
  - intros b Hin. destruct (C _ Hin) as [Hlt Hc]. assert (Hne : b <> next s) by lia.
    rewrite fupd_other by exact Hne. split; [lia|exact Hc].
  - exact D.
Qed.

(* changing the count of a live buffer to another positive value *)
Lemma inv_recount s b n :
  Inv s -> cnt s b > 0 -> n > 0 ->
  Inv (mkSt (table s) (hashof s) (fupd (cnt s) b n) (pend s) (next s)).
Proof.
  intros (A & B & C & D) Hb Hn. unfold Inv; cbn [table hashof cnt pend next].
  split; [|split; [|split]].
  - intros b0 Hb0. destruct (Nat.eq_dec b0 b) as [Heq|Hne].
    + subst b0. exact (A b Hb).
    + rewrite fupd_other in Hb0 by exact Hne. exact (A _ Hb0).
  - intros h0 b0 Ht. destruct (B _ _ Ht) as (Hlt & Hho & Hp).
    split; [exact Hlt|split; [exact Hho|]].
    destruct (Nat.eq_dec b0 b) as [Heq|Hne].
    + subst b0. rewrite fupd_same. intros Hz. lia.
    + rewrite fupd_other by exact Hne. exact Hp.
  - intros b0 Hin. destruct (C _ Hin) as [Hlt Hc]. split; [exact Hlt|].
    destruct (Nat.eq_dec b0 b) as [Heq|Hne].
    + subst b0. lia.
    + rewrite fupd_other by exact Hne. exact Hc.
  - exact D.
Qed.

(* the last handle of b is released: b dies and becomes pending *)
Lemma inv_last s b :
  Inv s -> cnt s b = 1 ->
  Inv (mkSt (table s) (hashof s) (fupd (cnt s) b 0) (b :: pend s) (next s)).
Proof.
  intros (A & B & C & D) Hb. unfold Inv; cbn [table hashof cnt pend next].
  assert (Hpos : cnt s b > 0) by lia.
  split; [|split; [|split]].
  - intros b0 Hb0. destruct (Nat.eq_dec b0 b) as [Heq|Hne].
    + subst b0. rewrite fupd_same in Hb0. lia.
    + rewrite fupd_other in Hb0 by exact Hne. exact (A _ Hb0).
  - intros h0 b0 Ht. destruct (B _ _ Ht) as (Hlt & Hho & Hp).
    split; [exact Hlt|split; [exact Hho|]]. intros Hz.
    destruct (Nat.eq_dec b0 b) as [Heq|Hne].
    + left. symmetry. exact Heq.
    + rewrite fupd_other in Hz by exact Hne. right. exact (Hp Hz).
  - intros b0 [Heq|Hin].
    + subst b0. rewrite fupd_same. split; [apply (A b Hpos)|reflexivity].
    + destruct (C _ Hin) as [Hlt Hc]. split; [exact Hlt|].
      destruct (Nat.eq_dec b0 b) as [Heq|Hne].
      * subst b0. lia.
      * rewrite fupd_other by exact Hne. exact Hc.
  - constructor; [|exact D]. intros Hin. destruct (C _ Hin) as [_ Hc]. lia.
Qed.

(* clean-up of b that leaves the table alone: correct when no slot refers to b *)
Lemma inv_unpend_keep s b :
  Inv s -> In b (pend s) -> (forall h, table s h <> Some b) ->
  Inv (mkSt (table s) (hashof s) (cnt s) (remove1 b (pend s)) (next s)).
Proof.
  intros (A & B & C & D) Hin Hno. unfold Inv; cbn [table hashof cnt pend next].
  destruct (nodup_remove1 b _ D) as [D' _].
  split; [|split; [|split]].
  - exact A.
  - intros h0 b0 Ht. destruct (B _ _ Ht) as (Hlt & Hho & Hp).
    split; [exact Hlt|split; [exact Hho|]]. intros Hz.
    apply remove1_keeps; [|exact (Hp Hz)].
    intros Heq. subst b0. exact (Hno _ Ht).
  - intros b0 Hin0. apply C. eapply in_remove1. exact Hin0.
  - exact D'.
Qed.

(* clean-up of b that clears the slot of b's content: correct when the occupant is dead *)
Lemma inv_unpend_clear s b :
  Inv s -> In b (pend s) -> (forall b', table s (hashof s b) = Some b' -> cnt s b' = 0) ->
  Inv (mkSt (fupd (table s) (hashof s b) None) (hashof s) (cnt s) (remove1 b (pend s)) (next s)).
Proof.
  intros (A & B & C & D) Hin Hdead. unfold Inv; cbn [table hashof cnt pend next].
  destruct (nodup_remove1 b _ D) as [D' _].
  split; [|split; [|split]].
  - intros b0 Hb0. destruct (A _ Hb0) as [Hlt Ht]. split; [exact Hlt|].
    destruct (Nat.eq_dec (hashof s b0) (hashof s b)) as [E|E].
    + rewrite E in Ht. specialize (Hdead _ Ht). lia.
    + rewrite fupd_other by exact E. exact Ht.
  - intros h0 b0 Ht. destruct (Nat.eq_dec h0 (hashof s b)) as [E|E].
    + subst h0. rewrite fupd_same in Ht. discriminate Ht.
    + rewrite fupd_other in Ht by exact E. destruct (B _ _ Ht) as (Hlt & Hho & Hp).
      split; [exact Hlt|split; [exact Hho|]]. intros Hz.
      apply remove1_keeps; [|exact (Hp Hz)].
      intros Heq. subst b0. apply E. symmetry. exact Hho.
  - intros b0 Hin0. apply C. eapply in_remove1. exact Hin0.
  - exact D'.
Qed.

Lemma inv_step : forall s o s', Inv s -> step true s o = Some s' -> Inv s'.
Proof.
  intros s o s' HI Hs. destruct o as [h|b|b|b]; cbn [step] in Hs.
  - (* New *)
    destruct (table s h) as [b|] eqn:Et.
    + destruct (alive s b) eqn:Ea; injection Hs as Hs; subst s'.
      * apply alive_pos in Ea. apply inv_recount; [exact HI|exact Ea|lia].
      * apply dead_zero in Ea. apply inv_alloc; [exact HI|].
        intros b0 Hb0. rewrite Et in Hb0. injection Hb0 as Hb0. subst b0. exact Ea.
    + injection Hs as Hs; subst s'. apply inv_alloc; [exact HI|].
      intros b0 Hb0. rewrite Et in Hb0. discriminate Hb0.
  - (* Clone *)
    destruct (alive s b) eqn:Ea; [|discriminate Hs]. injection Hs as Hs; subst s'.
    apply alive_pos in Ea. apply inv_recount; [exact HI|exact Ea|lia].
  - (* DropA *)
    destruct (cnt s b) as [|[|n]] eqn:Ec; [discriminate Hs| |]; injection Hs as Hs; subst s'.
    + apply inv_last; [exact HI|exact Ec].
    + apply inv_recount; [exact HI|lia|lia].
  - (* DropB *)
    destruct (existsb (Nat.eqb b) (pend s)) eqn:Ex; [|discriminate Hs].
    injection Hs as Hs; subst s'. apply existsb_eqb_in in Ex.
    pose proof HI as (A & B & C & D). destruct (C _ Ex) as [Hblt Hbz].
    destruct (table s (hashof s b)) as [b'|] eqn:Et.
    + destruct (alive s b') eqn:Ea.
      * apply alive_pos in Ea. apply inv_unpend_keep; [exact HI|exact Ex|].
        intros h Hh. destruct (B _ _ Hh) as (_ & Hho & _). subst h.
        rewrite Et in Hh. injection Hh as Hh. subst b'. lia.
      * apply dead_zero in Ea. apply inv_unpend_clear; [exact HI|exact Ex|].
        intros b0 Hb0. rewrite Et in Hb0. injection Hb0 as Hb0. subst b0. exact Ea.
    + apply inv_unpend_keep; [exact HI|exact Ex|].
      intros h Hh. destruct (B _ _ Hh) as (_ & Hho & _). subst h.
      rewrite Et in Hh. discriminate Hh.
Qed.

Lemma inv_run : forall os s0 s, Inv s0 -> run true s0 os = Some s -> Inv s.
Proof.
  induction os as [|o os IH]; cbn [run]; intros s0 s H0 Hr.
  - injection Hr as Hr. subst s. exact H0.
  - destruct (step true s0 o) as [s1|] eqn:E; [|discriminate Hr].
    eapply IH; [eapply inv_step; [exact H0|exact E]|exact Hr].
Qed.

Lemma inv_reachable : forall os s, run true init os = Some s -> Inv s.
Proof. intros os s Hr. eapply inv_run; [exact inv_init|exact Hr]. Qed.

(* ---- 4./5. consequences: one live buffer per content; empty table at quiescence ---- *)

Lemma share_single_buffer : forall s b1 b2,
  Inv s -> alive s b1 = true -> alive s b2 = true -> hashof s b1 = hashof s b2 -> b1 = b2.
Proof.
  intros s b1 b2 (A & _) H1 H2 Hh. apply alive_pos in H1. apply alive_pos in H2.
  destruct (A _ H1) as [_ T1]. destruct (A _ H2) as [_ T2]. rewrite Hh in T1.
  rewrite T1 in T2. injection T2 as T2. exact T2.
Qed.

Lemma quiescent_table_empty : forall s,
  Inv s -> pend s = [] -> (forall b, cnt s b = 0) -> forall h, table s h = None.
Proof.
  intros s (_ & B & _) Hp Hc h. destruct (table s h) as [b|] eqn:E; [|reflexivity].
  destruct (B _ _ E) as (_ & _ & Hin). specialize (Hin (Hc b)). rewrite Hp in Hin. contradiction.
Qed.

(* ---- 6. handle contents ---- *)

Lemma hashof_stable : forall fixed s o s' b,
  step fixed s o = Some s' -> b < next s -> hashof s' b = hashof s b.
Proof.
  intros fixed s o s' b Hs Hlt. assert (Hne : b <> next s) by lia.
  destruct o as [h|b0|b0|b0]; cbn [step] in Hs.
  - destruct (table s h) as [b1|].
    + destruct (alive s b1); injection Hs as Hs; subst s'; cbn [hashof].
      * reflexivity.
      * apply fupd_other. exact Hne.
    + injection Hs as Hs; subst s'; cbn [hashof]. apply fupd_other. exact Hne.
  - destruct (alive s b0); [|discriminate Hs]. injection Hs as Hs; subst s'. reflexivity.
  - destruct (cnt s b0) as [|[|n]]; [discriminate Hs| |]; injection Hs as Hs; subst s'; reflexivity.
  - destruct (existsb (Nat.eqb b0) (pend s)); [|discriminate Hs].
    injection Hs as Hs; subst s'. reflexivity.
Qed.

(* The part of the invariant that does not depend on the clean-up policy: live buffers are
   allocated, and a table slot refers to an allocated buffer of the slot's content. *)
Definition Wf (s : st) : Prop :=
  (forall b, cnt s b > 0 -> b < next s) /\
  (forall h b, table s h = Some b -> b < next s /\ hashof s b = h).

Lemma inv_wf s : Inv s -> Wf s.
Proof.
  intros (A & B & _). split.
  - intros b Hb. apply (A b Hb).
  - intros h b Ht. destruct (B _ _ Ht) as (Hlt & Hho & _). split; [exact Hlt|exact Hho].
Qed.

Lemma wf_init : Wf init.
Proof.
  unfold Wf, init; simpl. split.
  - intros b Hb. lia.
  - intros h b Hb. discriminate Hb.
Qed.

Lemma wf_alloc s h :
  Wf s ->
  Wf (mkSt (fupd (table s) h (Some (next s))) (fupd (hashof s) (next s) h)
           (fupd (cnt s) (next s) 1) (pend s) (S (next s))).
Proof.
  intros (W1 & W2). unfold Wf; cbn [table hashof cnt pend next]. split.
  - intros b Hb. destruct (Nat.eq_dec b (next s)) as [Heq|Hne]; [lia|].
    rewrite fupd_other in Hb by exact Hne. specialize (W1 _ Hb). lia.
  - intros h0 b Ht. destruct (Nat.eq_dec h0 h) as [Heq|Hh].
    + subst h0. rewrite fupd_same in Ht. injection Ht as Ht. subst b.
      rewrite fupd_same. split; [lia|reflexivity].
    + rewrite fupd_other in Ht by exact Hh. destruct (W2 _ _ Ht) as (Hlt & Hho).
      assert (Hne : b <> next s) by lia. rewrite fupd_other by exact Hne.
      split; [lia|exact Hho].
Qed.

Lemma wf_recount s b n :
  Wf s -> b < next s ->
  Wf (mkSt (table s) (hashof s) (fupd (cnt s) b n) (pend s) (next s)).
Proof.
  intros (W1 & W2) Hlt. unfold Wf; cbn [table hashof cnt pend next]. split.
  - intros b0 Hb0. destruct (Nat.eq_dec b0 b) as [Heq|Hne].
    + subst b0. exact Hlt.
    + rewrite fupd_other in Hb0 by exact Hne. exact (W1 _ Hb0).
  - exact W2.
Qed.

Lemma wf_step : forall fixed s o s', Wf s -> step fixed s o = Some s' -> Wf s'.
Proof.
  intros fixed s o s' HW Hs. pose proof HW as (W1 & W2).
  destruct o as [h|b|b|b]; cbn [step] in Hs.
  - destruct (table s h) as [b|] eqn:Et.
    + destruct (alive s b) eqn:Ea; injection Hs as Hs; subst s'.
      * apply wf_recount; [exact HW|]. apply (W2 _ _ Et).
      * apply wf_alloc. exact HW.
    + injection Hs as Hs; subst s'. apply wf_alloc. exact HW.
  - destruct (alive s b) eqn:Ea; [|discriminate Hs]. injection Hs as Hs; subst s'.
    apply alive_pos in Ea. apply wf_recount; [exact HW|exact (W1 _ Ea)].
  - destruct (cnt s b) as [|[|n]] eqn:Ec; [discriminate Hs| |]; injection Hs as Hs; subst s'.
    + assert (Hlt : b < next s) by (apply W1; lia).
      destruct (wf_recount s b 0 HW Hlt) as (W1' & W2').
      split; [exact W1'|exact W2'].
    + apply wf_recount; [exact HW|]. apply W1. lia.
  - destruct (existsb (Nat.eqb b) (pend s)); [|discriminate Hs].
    injection Hs as Hs; subst s'. unfold Wf; cbn [table hashof cnt pend next].
    split; [exact W1|]. intros h0 b0 Ht. apply W2.
    assert (Hsub : forall h1 b1, fupd (table s) (hashof s b) None h1 = Some b1 -> table s h1 = Some b1).
    { intros h1 b1 H1. destruct (Nat.eq_dec h1 (hashof s b)) as [E|E].
      - subst h1. rewrite fupd_same in H1. discriminate H1.
      - rewrite fupd_other in H1 by exact E. exact H1. }
    destruct fixed.
    + destruct (table s (hashof s b)) as [b'|].
      * destruct (alive s b'); [exact Ht|apply Hsub; exact Ht].
      * exact Ht.
    + apply Hsub. exact Ht.
Qed.

Lemma wf_run : forall fixed os s0 s, Wf s0 -> run fixed s0 os = Some s -> Wf s.
Proof.
  intros fixed. induction os as [|o os IH]; cbn [run]; intros s0 s H0 Hr.
  - injection Hr as Hr. subst s. exact H0.
  - destruct (step fixed s0 o) as [s1|] eqn:E; [|discriminate Hr].
    eapply IH; [eapply wf_step; [exact H0|exact E]|exact Hr].
Qed.

Lemma wf_reachable : forall fixed os s, run fixed init os = Some s -> Wf s.
Proof. intros fixed os s Hr. eapply wf_run; [exact wf_init|exact Hr]. Qed.

(* The handle returned by [new] exposes exactly the bytes it was created from.  The weakest
   hypothesis is [Wf s] (it holds in every reachable state of either clean-up policy). *)
Lemma new_gives_content_wf : forall fixed s h s',
  Wf s -> step fixed s (New h) = Some s' ->
  new_buf s h < next s' /\ hashof s' (new_buf s h) = h /\ alive s' (new_buf s h) = true.
Proof.
  intros fixed s h s' (W1 & W2) Hs. unfold new_buf. cbn [step] in Hs.
  assert (Hfresh : forall s1,
            s1 = mkSt (fupd (table s) h (Some (next s))) (fupd (hashof s) (next s) h)
                      (fupd (cnt s) (next s) 1) (pend s) (S (next s)) ->
            next s < next s1 /\ hashof s1 (next s) = h /\ alive s1 (next s) = true).
  { intros s1 Hs1. subst s1. unfold alive; cbn [hashof cnt next].
    rewrite (fupd_same (hashof s)). rewrite (fupd_same (cnt s)).
    split; [lia|split; reflexivity]. }
  destruct (table s h) as [b|] eqn:Et.
  - destruct (alive s b) eqn:Ea; injection Hs as Hs.
    + subst s'. unfold alive; cbn [hashof cnt next]. rewrite fupd_same.
      destruct (W2 _ _ Et) as (Hlt & Hho). split; [exact Hlt|split; [exact Hho|reflexivity]].
    + apply Hfresh. symmetry. exact Hs.
  - injection Hs as Hs. apply Hfresh. symmetry. exact Hs.
Qed.

Lemma new_gives_content : forall fixed s h s',
  Inv s -> step fixed s (New h) = Some s' ->
  new_buf s h < next s' /\ hashof s' (new_buf s h) = h /\ alive s' (new_buf s h) = true.
Proof.
  intros fixed s h s' HI Hs. eapply new_gives_content_wf; [apply inv_wf; exact HI|exact Hs].
Qed.

(* ---- 7. no operation is stuck for the wrong reason ---- *)

Lemma new_enabled : forall fixed s h, step fixed s (New h) <> None.
Proof.
  intros fixed s h. cbn [step]. destruct (table s h) as [b|].
  - destruct (alive s b); discriminate.
  - discriminate.
Qed.

Lemma clone_enabled : forall fixed s b, alive s b = true -> step fixed s (Clone b) <> None.
Proof. intros fixed s b Ha. cbn [step]. rewrite Ha. discriminate. Qed.

Lemma dropA_enabled : forall fixed s b, alive s b = true -> step fixed s (DropA b) <> None.
Proof.
  intros fixed s b Ha. apply alive_pos in Ha. cbn [step].
  destruct (cnt s b) as [|[|n]]; [lia|discriminate|discriminate].
Qed.

Lemma dropB_enabled : forall fixed s b, In b (pend s) -> step fixed s (DropB b) <> None.
Proof.
  intros fixed s b Hin. cbn [step]. apply existsb_eqb_in in Hin. rewrite Hin. discriminate.
Qed.

(* ---- 8. thread layer: each thread step is one abstract step ---- *)

Lemma tstep_is_step : forall fixed s tid s',
  tstep fixed s tid = Some s' -> exists o, step fixed (t_g s) o = Some (t_g s').
Proof.
  intros fixed s tid s' Ht. unfold tstep in Ht.
  destruct (nth_error (t_thrs s) tid) as [t|]; [|discriminate Ht].
  destruct (next_op (t_g s) t) as [[o t']|]; [|discriminate Ht].
  destruct (step fixed (t_g s) o) as [g'|] eqn:Es; [|discriminate Ht].
  injection Ht as Ht. subst s'. exists o. exact Es.
Qed.

(* a schedule: each entry is the id of the thread that takes its next atomic step *)
Fixpoint trun (fixed : bool) (s : tst) (sched : list nat) : option tst :=
  match sched with
  | [] => Some s
  | tid :: r => match tstep fixed s tid with Some s' => trun fixed s' r | None => None end
  end.

Lemma tinv_run : forall sched s0 s, Inv (t_g s0) -> trun true s0 sched = Some s -> Inv (t_g s).
Proof.
  induction sched as [|tid sched IH]; cbn [trun]; intros s0 s H0 Hr.
  - injection Hr as Hr. subst s. exact H0.
  - destruct (tstep true s0 tid) as [s1|] eqn:E; [|discriminate Hr].
    destruct (tstep_is_step _ _ _ _ E) as (o & Ho).
    eapply IH; [eapply inv_step; [exact H0|exact Ho]|exact Hr].
Qed.

Lemma tinv_reachable : forall progs sched s,
  trun true (tinit progs) sched = Some s -> Inv (t_g s).
Proof.
  intros progs sched s Hr. eapply tinv_run; [|exact Hr]. cbn [tinit t_g]. exact inv_init.
Qed.

Lemma twf_run : forall fixed sched s0 s, Wf (t_g s0) -> trun fixed s0 sched = Some s -> Wf (t_g s).
Proof.
  intros fixed. induction sched as [|tid sched IH]; cbn [trun]; intros s0 s H0 Hr.
  - injection Hr as Hr. subst s. exact H0.
  - destruct (tstep fixed s0 tid) as [s1|] eqn:E; [|discriminate Hr].
    destruct (tstep_is_step _ _ _ _ E) as (o & Ho).
    eapply IH; [eapply wf_step; [exact H0|exact Ho]|exact Hr].
Qed.

Print Assumptions dedup_refuted_pinned.
Print Assumptions inv_init.
Print Assumptions inv_step.
Print Assumptions inv_reachable.
Print Assumptions share_single_buffer.
Print Assumptions quiescent_table_empty.
Print Assumptions hashof_stable.
Print Assumptions new_gives_content_wf.
Print Assumptions new_gives_content.
Print Assumptions new_enabled.
Print Assumptions clone_enabled.
Print Assumptions dropA_enabled.
Print Assumptions dropB_enabled.
Print Assumptions tstep_is_step.
Print Assumptions tinv_reachable.
