(* BinFinish.v — the reader side of the forest round trip (C01 "same forest", C04 "parent-chunk ordering",
   C12 "file decoding"): decode_prnt_chunk (BinFile.prnt_links) followed by DeserializerState::finish
   (BinFile.finish / finish_loop) rebuilds, breadth-first under the fresh DataModel root, exactly the ordered
   forest the PRNT rows describe:
     1. prnt_links appends, in row order, each row's subject to the root list (parent -1) or to its parent's
        child list; nothing else changes; an unregistered parent is Err UnknownReferent;
     2. finish on a state whose child lists describe a forest F of file referents outputs the instances of F in
        breadth-first order, each once, with i_parent = the label of the parent (0 below the root), so that
        children_of reads back the sibling order of F; the fuel finish supplies suffices;
     3. for ANY row order listing each instance once, the sibling order is the row order among the rows of one
        parent; for the writer's post-order rows this is the original sibling order;
     4. the UniqueId rule of WeakDom::insert as threaded through finish_loop. *)
From Coq Require Import List Arith Lia Bool NArith ZArith Permutation.
From RbxVerif Require Import Base Bytes Value Db CodecDom BinValues BinFile BytesFacts BinSafe BinPostorder.
Import ListNotations.
Open Scope nat_scope.

(* ------------------------------------------------------------------------------------------ *)
(* 0. ordered forests over file referents                                                       *)
(* ------------------------------------------------------------------------------------------ *)
Inductive ztree := ZNode (r : Z) (cs : list ztree).
Definition zroot (t : ztree) : Z := match t with ZNode r _ => r end.
Definition zsubs (t : ztree) : list ztree := match t with ZNode _ cs => cs end.

Fixpoint zrefs (t : ztree) : list Z := match t with ZNode r cs => r :: flat_map zrefs cs end.
Definition zfrefs (F : list ztree) : list Z := flat_map zrefs F.
Fixpoint zsize (t : ztree) : nat := match t with ZNode r cs => S (fold_right (fun c n => zsize c + n) 0 cs) end.
Definition zfsize (F : list ztree) : nat := fold_right (fun c n => zsize c + n) 0 F.
(* all subtrees (= all nodes, each with its descendants), pre-order *)
Fixpoint zsubtrees (t : ztree) : list ztree := match t with ZNode r cs => ZNode r cs :: flat_map zsubtrees cs end.
Definition zfsubtrees (F : list ztree) : list ztree := flat_map zsubtrees F.

Section ZTreeInd.
  Variable P : ztree -> Prop.
  Hypothesis H : forall r cs, Forall P cs -> P (ZNode r cs).
  Fixpoint ztree_ind' (t : ztree) : P t :=
    match t with
    | ZNode r cs =>
        H r cs ((fix go (ks : list ztree) : Forall P ks :=
                   match ks with
                   | [] => Forall_nil P
                   | k :: ks' => Forall_cons k (ztree_ind' k) (go ks')
                   end) cs)
    end.
End ZTreeInd.

Lemma zsize_eq r cs : zsize (ZNode r cs) = S (zfsize cs).
Proof. reflexivity. Qed.
Lemma zfsize_cons t F : zfsize (t :: F) = zsize t + zfsize F.
Proof. reflexivity. Qed.
Lemma zfsize_app a b : zfsize (a ++ b) = zfsize a + zfsize b.
Proof. induction a as [|t a IH]; [reflexivity|]. cbn [app]. rewrite !zfsize_cons, IH. lia. Qed.
Lemma zfrefs_cons t F : zfrefs (t :: F) = zrefs t ++ zfrefs F.
Proof. reflexivity. Qed.
Lemma zfrefs_app a b : zfrefs (a ++ b) = zfrefs a ++ zfrefs b.
Proof. apply flat_map_app. Qed.
Lemma zfsubtrees_app a b : zfsubtrees (a ++ b) = zfsubtrees a ++ zfsubtrees b.
Proof. apply flat_map_app. Qed.
Lemma zroot_in_zrefs t : In (zroot t) (zrefs t).
Proof. destruct t. now left. Qed.
Lemma self_in_zsubtrees t : In t (zsubtrees t).
Proof. destruct t. now left. Qed.

Lemma zrefs_subtrees t : zrefs t = List.map zroot (zsubtrees t).
Proof.
  induction t as [r cs IH] using ztree_ind'. cbn [zrefs zsubtrees List.map zroot]. f_equal.
  induction cs as [|c cs IHc]; [reflexivity|]. inversion IH as [|? ? Hc Hcs]; subst.
  cbn [flat_map]. rewrite map_app, Hc, IHc by assumption. reflexivity.
Qed.
Lemma zfrefs_subtrees F : zfrefs F = List.map zroot (zfsubtrees F).
Proof.
  induction F as [|t F IH]; [reflexivity|]. unfold zfrefs, zfsubtrees in *. cbn [flat_map].
  now rewrite map_app, IH, zrefs_subtrees.
Qed.
Lemma length_zrefs t : length (zrefs t) = zsize t.
Proof.
  induction t as [r cs IH] using ztree_ind'. cbn [zrefs zsize length]. f_equal.
  induction cs as [|c cs IHc]; [reflexivity|]. inversion IH as [|? ? Hc Hcs]; subst.
  cbn [flat_map fold_right]. rewrite app_length, Hc, IHc by assumption. reflexivity.
Qed.
Lemma length_zfrefs F : length (zfrefs F) = zfsize F.
Proof.
  induction F as [|t F IH]; [reflexivity|]. rewrite zfrefs_cons, zfsize_cons, app_length, length_zrefs, IH. reflexivity.
Qed.
(* a subtree of a subtree *)
Lemma zsubtrees_trans t : forall t1 t2, In t1 (zsubtrees t) -> In t2 (zsubtrees t1) -> In t2 (zsubtrees t).
Proof.
  induction t as [r cs IH] using ztree_ind'. intros t1 t2 H1 H2. cbn [zsubtrees] in H1.
  destruct H1 as [<-|H1]; [exact H2|]. cbn [zsubtrees]. right.
  apply in_flat_map in H1. destruct H1 as (c & Hc & H1). apply in_flat_map. exists c. split; [exact Hc|].
  rewrite Forall_forall in IH. exact (IH c Hc t1 t2 H1 H2).
Qed.
Lemma zsubs_in_zsubtrees t c : In c (zsubs t) -> In c (zsubtrees t).
Proof.
  destruct t as [r cs]. cbn [zsubs zsubtrees]. intros Hc. right. apply in_flat_map. exists c. split; [exact Hc|apply self_in_zsubtrees].
Qed.
Lemma zfsubtrees_kid F t c : In t (zfsubtrees F) -> In c (zsubs t) -> In c (zfsubtrees F).
Proof.
  unfold zfsubtrees. intros Ht Hc. apply in_flat_map in Ht. destruct Ht as (t0 & H0 & Ht). apply in_flat_map. exists t0.
  split; [exact H0|]. eapply zsubtrees_trans; [exact Ht|]. now apply zsubs_in_zsubtrees.
Qed.

Lemma NoDup_app_swap {A} (a b : list A) : NoDup (a ++ b) -> NoDup (b ++ a).
Proof. apply Permutation_NoDup. apply Permutation_app_comm. Qed.
Lemma NoDup_app_left {A} (a b : list A) : NoDup (a ++ b) -> NoDup a.
Proof. induction a as [|x a IH]; cbn; intros H; [constructor|]. inversion H; subst. constructor; [rewrite in_app_iff in *; tauto|auto]. Qed.
Lemma NoDup_app_right {A} (a b : list A) : NoDup (a ++ b) -> NoDup b.
Proof. intros H. apply NoDup_app_swap in H. now apply NoDup_app_left in H. Qed.
Lemma NoDup_app_not {A} (a b : list A) x : NoDup (a ++ b) -> In x a -> In x b -> False.
Proof.
  induction a as [|y a IH]; cbn; intros H Ha Hb; [contradiction|]. inversion H; subst.
  destruct Ha as [->|Ha]; [apply H2; rewrite in_app_iff; tauto|eauto].
Qed.

(* ------------------------------------------------------------------------------------------ *)
(* 1. prnt_links                                                                                *)
(* ------------------------------------------------------------------------------------------ *)
(* the subjects of the rows whose parent field is k, in row order *)
Definition rows_of (k : Z) (pairs : list (Z * Z)) : list Z :=
  List.map fst (List.filter (fun cp => Z.eqb (snd cp) k) pairs).
(* what a registered instance k receives: a parent field of -1 never reaches instance -1 *)
Definition rows_to (k : Z) (pairs : list (Z * Z)) : list Z := if Z.eqb k (-1) then [] else rows_of k pairs.

Definition add_children (i : dinst) (l : list Z) : dinst :=
  mkDI (di_label i) (di_class i) (di_name i) (di_props i) (di_children i ++ l).

Lemma add_children_nil i : add_children i [] = i.
Proof. destruct i. unfold add_children. cbn. now rewrite app_nil_r. Qed.
Lemma add_children_app i a b : add_children (add_children i a) b = add_children i (a ++ b).
Proof. unfold add_children. cbn. now rewrite app_assoc. Qed.

Lemma rows_of_cons c par k rest :
  rows_of k ((c, par) :: rest) = if Z.eqb par k then c :: rows_of k rest else rows_of k rest.
Proof. unfold rows_of. cbn [List.filter snd]. destruct (Z.eqb par k); reflexivity. Qed.

Theorem prnt_links_spec : forall pairs insts roots,
  (forall c par, In (c, par) pairs -> par = (-1)%Z \/ zfind par insts <> None) ->
  exists insts',
    prnt_links insts roots pairs = Ok (insts', roots ++ rows_of (-1) pairs) /\
    forall k, zfind k insts' = match zfind k insts with
                               | Some i => Some (add_children i (rows_to k pairs))
                               | None => None
                               end.
Proof.
  induction pairs as [|[c par] rest IH]; intros insts roots Hreg.
  - exists insts. split; [cbn; now rewrite app_nil_r|]. intros k. unfold rows_to, rows_of. cbn.
    destruct (zfind k insts) as [i|]; [|reflexivity]. destruct (Z.eqb k (-1)); now rewrite add_children_nil.
  - cbn [prnt_links]. destruct (Z.eqb par (-1)) eqn:Epar.
    + apply Z.eqb_eq in Epar. subst par.
      destruct (IH insts (roots ++ [c])) as (insts' & Hrun & Hfind).
      { intros c' par' Hin. apply (Hreg c' par'). now right. }
      exists insts'. split.
      * rewrite Hrun, rows_of_cons, Z.eqb_refl, <- app_assoc. reflexivity.
      * intros k. rewrite Hfind. destruct (zfind k insts) as [i|]; [|reflexivity]. f_equal. f_equal.
        unfold rows_to. destruct (Z.eqb k (-1)) eqn:Ek; [reflexivity|]. rewrite rows_of_cons.
        destruct (Z.eqb (-1) k) eqn:Ek2; [apply Z.eqb_eq in Ek2; subst k; discriminate|reflexivity].
    + assert (Hne : par <> (-1)%Z) by (intros ->; discriminate).
      destruct (Hreg c par (or_introl eq_refl)) as [?|Hsome]; [contradiction|].
      destruct (zfind par insts) as [i|] eqn:Ei; [|contradiction].
      change (mkDI (di_label i) (di_class i) (di_name i) (di_props i) (di_children i ++ [c])) with (add_children i [c]).
      destruct (IH (zupd par (add_children i [c]) insts) roots) as (insts' & Hrun & Hfind).
      { intros c' par' Hin. destruct (Hreg c' par' (or_intror Hin)) as [?|Hs]; [now left|right]. now apply zupd_keeps. }
      exists insts'. split.
      * rewrite Hrun, rows_of_cons, Epar. reflexivity.
      * intros k. rewrite Hfind. destruct (Z.eq_dec par k) as [<-|Hk].
        -- rewrite zfind_zupd_same, Ei, add_children_app. f_equal. f_equal. unfold rows_to.
           rewrite Epar, rows_of_cons, Z.eqb_refl. reflexivity.
        -- rewrite zfind_zupd_other by exact Hk. destruct (zfind k insts) as [j|]; [|reflexivity]. f_equal. f_equal.
           unfold rows_to. destruct (Z.eqb k (-1)); [reflexivity|]. rewrite rows_of_cons.
           destruct (Z.eqb par k) eqn:E; [apply Z.eqb_eq in E; contradiction|reflexivity].
Qed.

(* the first row (if any) whose parent is neither -1 nor registered makes the chunk an UnknownReferent error; a Panic
   or OutOfFuel is impossible *)
Theorem prnt_links_unknown : forall pre insts roots c par post,
  (forall c' par', In (c', par') pre -> par' = (-1)%Z \/ zfind par' insts <> None) ->
  par <> (-1)%Z -> zfind par insts = None ->
  prnt_links insts roots (pre ++ (c, par) :: post) = Err E_UNKNOWN_REFERENT.
Proof.
  induction pre as [|[c0 par0] pre IH]; intros insts roots c par post Hreg Hne Hnone.
  - cbn [app prnt_links]. destruct (Z.eqb par (-1)) eqn:E; [apply Z.eqb_eq in E; contradiction|]. now rewrite Hnone.
  - cbn [app prnt_links]. destruct (Z.eqb par0 (-1)) eqn:E0.
    + apply IH; auto. intros c' par' Hin. apply (Hreg c' par'). now right.
    + destruct (Hreg c0 par0 (or_introl eq_refl)) as [->|Hs]; [discriminate|].
      destruct (zfind par0 insts) as [i|] eqn:Ei; [|contradiction].
      apply IH; auto.
      * intros c' par' Hin. destruct (Hreg c' par' (or_intror Hin)) as [?|Hs']; [now left|right]. now apply zupd_keeps.
      * destruct (Z.eq_dec par0 par) as [<-|Hk]; [congruence|]. now rewrite zfind_zupd_other.
Qed.

Theorem prnt_links_never_panics pairs insts roots :
  prnt_links insts roots pairs <> Panic /\ prnt_links insts roots pairs <> OutOfFuel.
Proof.
  revert insts roots. induction pairs as [|[c par] rest IH]; intros insts roots; cbn [prnt_links]; [split; discriminate|].
  destruct (Z.eqb par (-1)); [apply IH|]. destruct (zfind par insts); [apply IH|split; discriminate].
Qed.

(* ------------------------------------------------------------------------------------------ *)
(* 2. finish: breadth-first reconstruction                                                      *)
(* ------------------------------------------------------------------------------------------ *)
(* WeakDom::inner_insert's UniqueId rule on one instance: the property table and the set of ids in use *)
Definition uid_rule (p : dec_params) (props : list (bytes * value)) (uids : list value)
  : list (bytes * value) * list value :=
  match bfind UNIQUE_ID props with
  | Some (VUniqueId a b c) =>
      let u := VUniqueId a b c in
      if existsb (value_eqb_uid u) uids
      then (bupd UNIQUE_ID (dp_fresh_uid p) props, dp_fresh_uid p :: uids)
      else (props, u :: uids)
  | _ => (props, uids)
  end.

Lemma finish_loop_step f p referent parent q insts uids out :
  finish_loop (S f) p ((referent, parent) :: q) insts uids out =
  match zfind referent insts with
  | None => finish_loop f p q insts uids out
  | Some i =>
      let '(props, uids') := uid_rule p (collect_props (di_props i)) uids in
      finish_loop f p (q ++ List.map (fun c => (c, di_label i)) (di_children i)) (zremove referent insts) uids'
                  (out ++ [mkInst (di_label i) parent (di_class i) (di_name i) props])
  end.
Proof. reflexivity. Qed.

Section Finish.
Variable D : Z -> dinst.            (* the instance registered for a file referent *)

Definition lab (k : Z) : N := di_label (D k).

(* the child lists of D describe the tree *)
Inductive shaped : ztree -> Prop :=
| shaped_node r cs : di_children (D r) = List.map zroot cs -> Forall shaped cs -> shaped (ZNode r cs).

Lemma shaped_inv r cs : shaped (ZNode r cs) -> di_children (D r) = List.map zroot cs /\ Forall shaped cs.
Proof. intros H. inversion H; subst. auto. Qed.

(* the queue of `finish`: subtrees still to be constructed, each with the label of its parent *)
Definition qkids (t : ztree) : list (ztree * N) := List.map (fun c => (c, lab (zroot t))) (zsubs t).
Fixpoint bfsP (fuel : nat) (q : list (ztree * N)) : list (ztree * N) :=
  match q with
  | [] => []
  | tp :: q' => match fuel with O => [] | S f => tp :: bfsP f (q' ++ qkids (fst tp)) end
  end.
Definition qsize (q : list (ztree * N)) : nat := zfsize (List.map fst q).
(* breadth-first enumeration of the nodes of F (as subtrees), each with the label of its parent; 0 for the roots *)
Definition bfs_all (F : list ztree) : list (ztree * N) := bfsP (zfsize F) (List.map (fun t => (t, 0%N)) F).

Definition qproj (tp : ztree * N) : Z * N := (zroot (fst tp), snd tp).

(* the instances `finish` constructs for a list of (referent, parent label), threading the set of UniqueIds in use *)
Fixpoint uid_pass (p : dec_params) (uids : list value) (nodes : list (Z * N)) : cdom :=
  match nodes with
  | [] => []
  | (k, par) :: rest =>
      let i := D k in
      let '(props, uids') := uid_rule p (collect_props (di_props i)) uids in
      mkInst (di_label i) par (di_class i) (di_name i) props :: uid_pass p uids' rest
  end.

Lemma map_fst_qkids t : List.map fst (qkids t) = zsubs t.
Proof. unfold qkids. rewrite map_map. cbn [fst]. apply map_id. Qed.
Lemma length_qkids t : length (qkids t) = length (zsubs t).
Proof. unfold qkids. apply map_length. Qed.
Lemma qsize_step r cs par q : qsize ((ZNode r cs, par) :: q) = S (qsize (q ++ qkids (ZNode r cs))).
Proof.
  unfold qsize. cbn [List.map fst]. rewrite zfsize_cons, zsize_eq, map_app, map_fst_qkids, zfsize_app. cbn [zsubs]. lia.
Qed.
Lemma bfsP_step r cs par q :
  bfsP (qsize ((ZNode r cs, par) :: q)) ((ZNode r cs, par) :: q)
  = (ZNode r cs, par) :: bfsP (qsize (q ++ qkids (ZNode r cs))) (q ++ qkids (ZNode r cs)).
Proof. rewrite qsize_step. reflexivity. Qed.

(* queue invariant after one step *)
Lemma nodup_queue_step r cs F : NoDup (zfrefs (ZNode r cs :: F)) -> NoDup (zfrefs (F ++ cs)) /\ ~ In r (zfrefs (F ++ cs)).
Proof.
  rewrite zfrefs_cons. cbn [zrefs app]. fold (zfrefs cs). intros H. inversion H as [|? ? Hr Hnd]; subst.
  rewrite zfrefs_app. split.
  - now apply NoDup_app_swap.
  - intros Hin. apply Hr. rewrite in_app_iff in *. tauto.
Qed.

Lemma finish_loop_bfs p : forall fuel q insts uids out,
  length q + kids_total insts < fuel ->
  Forall shaped (List.map fst q) -> NoDup (zfrefs (List.map fst q)) ->
  (forall k, In k (zfrefs (List.map fst q)) -> zfind k insts = Some (D k)) ->
  finish_loop fuel p (List.map qproj q) insts uids out
  = Ok (out ++ uid_pass p uids (List.map qproj (bfsP (qsize q) q))).
Proof.
  induction fuel as [|f IH]; intros q insts uids out Hfuel Hsh Hnd Hreg; [lia|].
  destruct q as [|[[r cs] par] q].
  - cbn. now rewrite app_nil_r.
  - rewrite bfsP_step. cbn [List.map]. change (qproj (ZNode r cs, par)) with (r, par). rewrite finish_loop_step.
    cbn [List.map fst] in Hsh, Hnd, Hreg.
    assert (Hr : zfind r insts = Some (D r)).
    { apply Hreg. rewrite zfrefs_cons. apply in_or_app. left. now left. }
    rewrite Hr. inversion Hsh as [|? ? Hshr Hshq]; subst. apply shaped_inv in Hshr. destruct Hshr as [Hkids Hshcs].
    destruct (nodup_queue_step _ _ _ Hnd) as [Hnd' Hnotin].
    cbn [uid_pass]. destruct (uid_rule p (collect_props (di_props (D r))) uids) as [props uids'].
    replace (List.map qproj q ++ List.map (fun c => (c, di_label (D r))) (di_children (D r)))
      with (List.map qproj (q ++ qkids (ZNode r cs))).
    2:{ rewrite map_app. f_equal. unfold qkids. rewrite Hkids, !map_map. reflexivity. }
    rewrite IH.
    + rewrite <- app_assoc. reflexivity.
    + rewrite app_length, length_qkids. cbn [zsubs]. pose proof (kids_zremove_found _ _ _ Hr) as Hk.
      rewrite Hkids, map_length in Hk. cbn [length] in Hfuel. lia.
    + rewrite map_app, map_fst_qkids. cbn [zsubs]. apply Forall_app. split; assumption.
    + rewrite map_app, map_fst_qkids. exact Hnd'.
    + rewrite map_app, map_fst_qkids. cbn [zsubs]. intros k Hk.
      assert (Hne : r <> k) by (intros ->; contradiction).
      rewrite zfind_zremove_other by exact Hne. apply Hreg. rewrite zfrefs_cons. cbn [zrefs]. fold (zfrefs cs).
      rewrite zfrefs_app in Hk. right. rewrite in_app_iff in *. tauto.
Qed.

(* DeserializerState::finish on a state whose registered instances describe the forest F: no OutOfFuel with the fuel
   finish supplies, and the output is the breadth-first list of F *)
Theorem finish_forest p sstr types insts roots next F :
  Forall shaped F -> NoDup (zfrefs F) ->
  (forall k, In k (zfrefs F) -> zfind k insts = Some (D k)) ->
  roots = List.map zroot F ->
  finish p (mkDS sstr types insts roots next) = Ok (uid_pass p [] (List.map qproj (bfs_all F))).
Proof.
  intros Hsh Hnd Hreg ->. unfold finish. cbn [ds_roots ds_insts].
  set (q := List.map (fun t => (t, 0%N)) F).
  assert (Hq : List.map fst q = F) by (unfold q; rewrite map_map; apply map_id).
  replace (List.map (fun r => (r, 0%N)) (List.map zroot F)) with (List.map qproj q) by (unfold q; now rewrite !map_map).
  rewrite finish_loop_bfs; rewrite ?Hq; auto.
  - unfold bfs_all, qsize. rewrite Hq. reflexivity.
  - unfold q. rewrite !map_length. unfold kids_total. lia.
Qed.
End Finish.

(* ------------------------------------------------------------------------------------------ *)
(* 2b. what the breadth-first list looks like                                                   *)
(* ------------------------------------------------------------------------------------------ *)
Section BfsFacts.
Variable D : Z -> dinst.
Notation lab := (lab D).
Notation qkids := (qkids D).
Notation bfsP := (bfsP D).
Notation bfs_all := (bfs_all D).

(* the defining equation of breadth-first order: a queue is output as it stands, followed by the enumeration of
   what was waiting behind it and then the children of its members, in order *)
Lemma bfsP_level : forall q K f,
  bfsP (length q + f) (q ++ K) = q ++ bfsP f (K ++ flat_map (fun tp => qkids (fst tp)) q).
Proof.
  induction q as [|tp q IH]; intros K f.
  - cbn. now rewrite app_nil_r.
  - cbn [length Nat.add app BinFinish.bfsP flat_map]. f_equal. rewrite <- app_assoc, IH, <- app_assoc. reflexivity.
Qed.

(* roots first, in order; then the children of the first root in order, then those of the second root, ... *)
Theorem bfs_all_roots_first F :
  bfs_all F = List.map (fun t => (t, 0%N)) F
              ++ bfsP (zfsize F - length F) (flat_map qkids F).
Proof.
  unfold BinFinish.bfs_all.
  assert (Hlen : length F <= zfsize F).
  { induction F as [|[r cs] F IH]; [cbn; lia|]. rewrite zfsize_cons, zsize_eq. cbn [length]. lia. }
  replace (zfsize F) with (length (List.map (fun t => (t, 0%N)) F) + (zfsize F - length F)) at 1
    by (rewrite map_length; lia).
  rewrite <- (app_nil_r (List.map (fun t => (t, 0%N)) F)) at 2. rewrite bfsP_level. cbn [app]. do 2 f_equal.
  rewrite flat_map_concat_map, map_map, <- flat_map_concat_map. reflexivity.
Qed.

(* every node exactly once *)
Lemma bfsP_perm : forall n q, qsize q = n -> Permutation (List.map fst (bfsP n q)) (zfsubtrees (List.map fst q)).
Proof.
  induction n as [|n IH]; intros q Hn.
  - destruct q as [|[[r cs] par] q]; [constructor|]. rewrite (qsize_step D) in Hn. discriminate.
  - destruct q as [|[[r cs] par] q]; [discriminate|]. rewrite (qsize_step D) in Hn. injection Hn as Hn.
    cbn [BinFinish.bfsP List.map fst]. unfold zfsubtrees. cbn [flat_map zsubtrees]. constructor.
    etransitivity; [apply (IH _ Hn)|]. rewrite map_app, (map_fst_qkids D). cbn [zsubs]. rewrite zfsubtrees_app.
    apply Permutation_app_comm.
Qed.

Theorem bfs_all_perm F : Permutation (List.map fst (bfs_all F)) (zfsubtrees F).
Proof.
  unfold BinFinish.bfs_all. set (q := List.map (fun t => (t, 0%N)) F).
  assert (Hq : List.map fst q = F) by (unfold q; rewrite map_map; apply map_id).
  pose proof (bfsP_perm (qsize q) q eq_refl) as H. unfold qsize in H. rewrite Hq in H. exact H.
Qed.

Corollary bfs_all_refs_perm F : Permutation (List.map (fun tp => zroot (fst tp)) (bfs_all F)) (zfrefs F).
Proof. rewrite zfrefs_subtrees, <- (map_map fst zroot). apply Permutation_map. apply bfs_all_perm. Qed.

Corollary bfs_all_nodup F : NoDup (zfrefs F) -> NoDup (List.map (fun tp => zroot (fst tp)) (bfs_all F)).
Proof. intros H. eapply Permutation_NoDup; [symmetry; apply bfs_all_refs_perm|exact H]. Qed.

Corollary bfs_all_length F : length (bfs_all F) = zfsize F.
Proof.
  rewrite <- length_zfrefs, <- (Permutation_length (bfs_all_refs_perm F)), map_length. reflexivity.
Qed.

(* the parent field: an entry is a member of the initial queue or a child of a node, with that node's label *)
Lemma bfsP_parent : forall n q t par, In (t, par) (bfsP n q) ->
  In (t, par) q \/ exists t', In t' (zfsubtrees (List.map fst q)) /\ In t (zsubs t') /\ par = lab (zroot t').
Proof.
  induction n as [|n IH]; intros q t par Hin.
  - destruct q; cbn in Hin; contradiction.
  - destruct q as [|[t0 par0] q]; [cbn in Hin; contradiction|]. cbn [BinFinish.bfsP fst] in Hin.
    destruct Hin as [Heq|Hin]; [left; now left|].
    apply IH in Hin. destruct Hin as [Hin|(t' & Ht' & Hc & Hp)].
    + apply in_app_or in Hin. destruct Hin as [Hin|Hin]; [left; now right|].
      right. exists t0. unfold BinFinish.qkids in Hin. apply in_map_iff in Hin. destruct Hin as (c & [= <- <-] & Hc).
      split; [|split; [exact Hc|reflexivity]]. cbn [List.map fst]. unfold zfsubtrees. cbn [flat_map].
      apply in_or_app. left. apply self_in_zsubtrees.
    + right. exists t'. split; [|split; assumption]. rewrite map_app, (map_fst_qkids D), zfsubtrees_app in Ht'.
      cbn [List.map fst]. unfold zfsubtrees at 1. cbn [flat_map]. fold (zfsubtrees (List.map fst q)).
      apply in_app_or in Ht'. destruct Ht' as [Ht'|Ht']; apply in_or_app; [now right|left].
      destruct t0 as [r0 cs0]. cbn [zsubs] in Ht'. cbn [zsubtrees]. now right.
Qed.

Theorem bfs_all_parent F t par : In (t, par) (bfs_all F) ->
  (In t F /\ par = 0%N) \/ exists t', In t' (zfsubtrees F) /\ In t (zsubs t') /\ par = lab (zroot t').
Proof.
  unfold BinFinish.bfs_all. intros Hin. apply bfsP_parent in Hin. rewrite map_map in Hin. cbn [fst] in Hin. rewrite map_id in Hin.
  destruct Hin as [Hin|Hin]; [left|now right]. apply in_map_iff in Hin. destruct Hin as (t0 & [= <- <-] & Hin). auto.
Qed.

(* ---- the sibling order: the entries carrying one parent label ---- *)
Definition with_parent (L : N) (q : list (ztree * N)) : list (ztree * N) := List.filter (fun tp => N.eqb (snd tp) L) q.

Lemma with_parent_cons L tp q :
  with_parent L (tp :: q) = if N.eqb (snd tp) L then tp :: with_parent L q else with_parent L q.
Proof. reflexivity. Qed.
Lemma with_parent_app L a b : with_parent L (a ++ b) = with_parent L a ++ with_parent L b.
Proof. apply filter_app. Qed.
Lemma with_parent_qkids_same t : with_parent (lab (zroot t)) (qkids t) = qkids t.
Proof.
  unfold with_parent, BinFinish.qkids. induction (zsubs t) as [|c cs IH]; [reflexivity|].
  cbn [List.map List.filter snd]. now rewrite N.eqb_refl, IH.
Qed.
Lemma with_parent_qkids_other L t : lab (zroot t) <> L -> with_parent L (qkids t) = [].
Proof.
  intros Hne. unfold with_parent, BinFinish.qkids. induction (zsubs t) as [|c cs IH]; [reflexivity|].
  cbn [List.map List.filter snd]. destruct (N.eqb (lab (zroot t)) L) eqn:E; [apply N.eqb_eq in E; contradiction|exact IH].
Qed.

(* a label nobody in the queue's trees carries collects nothing new *)
Lemma bfsP_with_parent_none L : forall n q, qsize q = n ->
  (forall k, In k (zfrefs (List.map fst q)) -> lab k <> L) ->
  with_parent L (bfsP n q) = with_parent L q.
Proof.
  induction n as [|n IH]; intros q Hn Hnone.
  - destruct q as [|[[r cs] par] q]; [reflexivity|]. rewrite (qsize_step D) in Hn. discriminate.
  - destruct q as [|[[r cs] par] q]; [discriminate|]. rewrite (qsize_step D) in Hn. injection Hn as Hn.
    cbn [BinFinish.bfsP fst]. rewrite !with_parent_cons.
    cbn [List.map fst] in Hnone. rewrite zfrefs_cons in Hnone. cbn [zrefs] in Hnone. fold (zfrefs cs) in Hnone.
    rewrite (IH _ Hn).
    + rewrite with_parent_app, (with_parent_qkids_other L (ZNode r cs)), app_nil_r; [reflexivity|].
      cbn [zroot]. apply Hnone. now left.
    + intros k Hk. apply Hnone. rewrite map_app, (map_fst_qkids D), zfrefs_app in Hk. cbn [zsubs] in Hk.
      right. rewrite in_app_iff in *. tauto.
Qed.

(* the node t0 waits somewhere in the queue's trees: the entries with its label are those already queued, then its
   children in order *)
Lemma bfsP_with_parent_node : forall n q, qsize q = n ->
  NoDup (List.map lab (zfrefs (List.map fst q))) ->
  forall t0, In t0 (zfsubtrees (List.map fst q)) ->
  with_parent (lab (zroot t0)) (bfsP n q) = with_parent (lab (zroot t0)) q ++ qkids t0.
Proof.
  induction n as [|n IH]; intros q Hn Hnd t0 Ht0.
  - destruct q as [|[[r cs] par] q]; [contradiction|]. rewrite (qsize_step D) in Hn. discriminate.
  - destruct q as [|[[r cs] par] q]; [discriminate|]. rewrite (qsize_step D) in Hn. injection Hn as Hn.
    cbn [BinFinish.bfsP fst]. rewrite !with_parent_cons.
    cbn [List.map fst] in Hnd, Ht0. rewrite zfrefs_cons in Hnd. cbn [zrefs List.map app] in Hnd. fold (zfrefs cs) in Hnd.
    apply NoDup_cons_iff in Hnd. destruct Hnd as [Hr Hnd0].
    assert (Hnd' : NoDup (List.map lab (zfrefs (List.map fst (q ++ qkids (ZNode r cs)))))).
    { rewrite map_app, (map_fst_qkids D), zfrefs_app. cbn [zsubs]. rewrite map_app. apply NoDup_app_swap. rewrite <- map_app. exact Hnd0. }
    unfold zfsubtrees in Ht0. cbn [flat_map zsubtrees] in Ht0. fold (zfsubtrees cs) in Ht0. fold (zfsubtrees (List.map fst q)) in Ht0.
    destruct Ht0 as [<-|Ht0].
    + (* t0 is the head: nobody else carries its label *)
      cbn [zroot].
      assert (Hrest : with_parent (lab r) (bfsP n (q ++ qkids (ZNode r cs))) = with_parent (lab r) q ++ qkids (ZNode r cs)).
      { rewrite (bfsP_with_parent_none _ _ _ Hn).
        - rewrite with_parent_app. f_equal. exact (with_parent_qkids_same (ZNode r cs)).
        - intros k Hk Heq. apply Hr. rewrite <- Heq. apply in_map.
          rewrite map_app, (map_fst_qkids D), zfrefs_app in Hk. cbn [zsubs] in Hk. rewrite in_app_iff in *. tauto. }
      rewrite Hrest. destruct (N.eqb (snd (ZNode r cs, par)) (lab r)); reflexivity.
    + (* t0 is below the head or elsewhere in the queue: its label differs from the head's *)
      assert (Hin : In (zroot t0) (zfrefs cs ++ zfrefs (List.map fst q))).
      { rewrite !zfrefs_subtrees, <- map_app. apply in_map. exact Ht0. }
      assert (Hne : lab r <> lab (zroot t0)).
      { intros Heq. apply Hr. rewrite Heq. now apply in_map. }
      rewrite (IH _ Hn Hnd' t0).
      * rewrite with_parent_app, (with_parent_qkids_other _ (ZNode r cs)) by exact Hne. rewrite app_nil_r.
        destruct (N.eqb (snd (ZNode r cs, par)) (lab (zroot t0))); reflexivity.
      * rewrite map_app, (map_fst_qkids D), zfsubtrees_app. cbn [zsubs]. rewrite in_app_iff in *. tauto.
Qed.

Theorem bfs_all_children F t0 :
  NoDup (List.map lab (zfrefs F)) -> (forall k, In k (zfrefs F) -> lab k <> 0%N) -> In t0 (zfsubtrees F) ->
  with_parent (lab (zroot t0)) (bfs_all F) = qkids t0.
Proof.
  intros Hnd Hnz Ht0. unfold BinFinish.bfs_all. set (q := List.map (fun t => (t, 0%N)) F).
  assert (Hq : List.map fst q = F) by (unfold q; rewrite map_map; apply map_id).
  assert (Hs : qsize q = zfsize F) by (unfold qsize; now rewrite Hq).
  rewrite <- Hs, (bfsP_with_parent_node _ q eq_refl); rewrite ?Hq; auto.
  replace (with_parent (lab (zroot t0)) q) with (@nil (ztree * N)); [reflexivity|].
  assert (Hz : lab (zroot t0) <> 0%N).
  { apply Hnz. rewrite zfrefs_subtrees. now apply in_map. }
  unfold q, with_parent. clear -Hz. induction F as [|t F IH]; [reflexivity|]. cbn [List.map List.filter snd].
  destruct (N.eqb 0 (lab (zroot t0))) eqn:E; [apply N.eqb_eq in E; congruence|exact IH].
Qed.

Theorem bfs_all_roots F :
  (forall k, In k (zfrefs F) -> lab k <> 0%N) ->
  with_parent 0%N (bfs_all F) = List.map (fun t => (t, 0%N)) F.
Proof.
  intros Hnz. unfold BinFinish.bfs_all. set (q := List.map (fun t => (t, 0%N)) F).
  assert (Hq : List.map fst q = F) by (unfold q; rewrite map_map; apply map_id).
  assert (Hs : qsize q = zfsize F) by (unfold qsize; now rewrite Hq).
  rewrite <- Hs, (bfsP_with_parent_none _ _ q eq_refl); rewrite ?Hq; auto.
  unfold q, with_parent. clear. induction F as [|t F IH]; [reflexivity|]. cbn [List.map List.filter snd N.eqb]. now rewrite IH.
Qed.
End BfsFacts.

(* ------------------------------------------------------------------------------------------ *)
(* 2c. the constructed cdom                                                                     *)
(* ------------------------------------------------------------------------------------------ *)
Section Cdom.
Variable D : Z -> dinst.
Variable p : dec_params.
Notation lab := (lab D).

(* label, parent, class and name of the constructed instances do not depend on the UniqueId bookkeeping *)
Lemma uid_pass_skeleton : forall l uids,
  List.map (fun i => (i_ref i, i_parent i, i_class i, i_name i)) (uid_pass D p uids l)
  = List.map (fun kp => (lab (fst kp), snd kp, di_class (D (fst kp)), di_name (D (fst kp)))) l.
Proof.
  induction l as [|[k par] l IH]; intros uids; [reflexivity|]. cbn [uid_pass].
  destruct (uid_rule p (collect_props (di_props (D k))) uids) as [props uids']. cbn [List.map fst snd i_ref i_parent i_class i_name].
  now rewrite IH.
Qed.

Lemma uid_pass_length l uids : length (uid_pass D p uids l) = length l.
Proof.
  pose proof (f_equal (@length _) (uid_pass_skeleton l uids)) as H. now rewrite !map_length in H.
Qed.

Lemma uid_pass_refs l uids : List.map i_ref (uid_pass D p uids l) = List.map (fun kp => lab (fst kp)) l.
Proof.
  pose proof (f_equal (List.map (fun x => fst (fst (fst x)))) (uid_pass_skeleton l uids)) as H.
  rewrite !map_map in H. exact H.
Qed.

Lemma uid_pass_children L : forall l uids,
  children_of (uid_pass D p uids l) L = List.map (fun kp => lab (fst kp)) (List.filter (fun kp => N.eqb (snd kp) L) l).
Proof.
  unfold children_of. induction l as [|[k par] l IH]; intros uids; [reflexivity|]. cbn [uid_pass].
  destruct (uid_rule p (collect_props (di_props (D k))) uids) as [props uids']. cbn [List.filter i_parent snd].
  destruct (N.eqb par L); cbn [List.map i_ref fst]; now rewrite IH.
Qed.

Lemma filter_qproj L q :
  List.filter (fun kp => N.eqb (snd kp) L) (List.map qproj q) = List.map qproj (with_parent L q).
Proof.
  unfold with_parent. induction q as [|tp q IH]; [reflexivity|]. cbn [List.map List.filter]. unfold qproj at 1. cbn [snd].
  destruct (N.eqb (snd tp) L); cbn [List.map]; now rewrite IH.
Qed.

(* the cdom `finish` builds for the forest F *)
Definition built (F : list ztree) : cdom := uid_pass D p [] (List.map qproj (bfs_all D F)).

(* construction order = breadth-first order; labels, parents, classes, names *)
Theorem built_skeleton F :
  List.map (fun i => (i_ref i, i_parent i, i_class i, i_name i)) (built F)
  = List.map (fun tp => (lab (zroot (fst tp)), snd tp, di_class (D (zroot (fst tp))), di_name (D (zroot (fst tp)))))
             (bfs_all D F).
Proof. unfold built. rewrite uid_pass_skeleton, map_map. reflexivity. Qed.

Theorem built_refs F : List.map i_ref (built F) = List.map (fun tp => lab (zroot (fst tp))) (bfs_all D F).
Proof. unfold built. rewrite uid_pass_refs, map_map. reflexivity. Qed.

(* each instance of F exactly once *)
Theorem built_refs_perm F : Permutation (List.map i_ref (built F)) (List.map lab (zfrefs F)).
Proof.
  rewrite built_refs, <- (map_map (fun tp => zroot (fst tp)) lab). apply Permutation_map. apply bfs_all_refs_perm.
Qed.
Theorem built_refs_nodup F : NoDup (List.map lab (zfrefs F)) -> NoDup (List.map i_ref (built F)).
Proof. intros H. eapply Permutation_NoDup; [symmetry; apply built_refs_perm|exact H]. Qed.
Theorem built_length F : length (built F) = zfsize F.
Proof. unfold built. now rewrite uid_pass_length, map_length, bfs_all_length. Qed.

(* the child order of every node is read back *)
Theorem built_children F t0 :
  NoDup (List.map lab (zfrefs F)) -> (forall k, In k (zfrefs F) -> lab k <> 0%N) -> In t0 (zfsubtrees F) ->
  children_of (built F) (lab (zroot t0)) = List.map (fun c => lab (zroot c)) (zsubs t0).
Proof.
  intros Hnd Hnz Ht0. unfold built. rewrite uid_pass_children, filter_qproj, (bfs_all_children D F t0 Hnd Hnz Ht0).
  unfold qkids. rewrite !map_map. reflexivity.
Qed.

(* and the order of the roots, below the fresh DataModel root *)
Theorem built_roots F :
  (forall k, In k (zfrefs F) -> lab k <> 0%N) ->
  children_of (built F) 0%N = List.map (fun t => lab (zroot t)) F.
Proof.
  intros Hnz. unfold built. rewrite uid_pass_children, filter_qproj, (bfs_all_roots D F Hnz), !map_map. reflexivity.
Qed.

(* a label that belongs to no instance of F has no children *)
Theorem built_children_none F L :
  L <> 0%N -> (forall k, In k (zfrefs F) -> lab k <> L) -> children_of (built F) L = [].
Proof.
  intros Hz Hnone. unfold built. rewrite uid_pass_children, filter_qproj. unfold bfs_all.
  set (q := List.map (fun t => (t, 0%N)) F).
  assert (Hq : List.map fst q = F) by (unfold q; rewrite map_map; apply map_id).
  assert (Hs : qsize q = zfsize F) by (unfold qsize; now rewrite Hq).
  rewrite <- Hs, (bfsP_with_parent_none D L _ q eq_refl) by (now rewrite Hq).
  replace (with_parent L q) with (@nil (ztree * N)); [reflexivity|].
  unfold q, with_parent. clear -Hz. induction F as [|t F IH]; [reflexivity|]. cbn [List.map List.filter snd].
  destruct (N.eqb 0 L) eqn:E; [apply N.eqb_eq in E; congruence|exact IH].
Qed.
End Cdom.

(* the parent field of every constructed instance: 0 for the roots of F, else the label of its parent in F *)
Theorem built_parent D p F i : In i (built D p F) ->
  (exists t, In t F /\ i_ref i = lab D (zroot t) /\ i_parent i = 0%N) \/
  (exists t' c, In t' (zfsubtrees F) /\ In c (zsubs t') /\ i_ref i = lab D (zroot c) /\ i_parent i = lab D (zroot t')).
Proof.
  intros Hin. apply (in_map (fun i => (i_ref i, i_parent i, i_class i, i_name i))) in Hin. rewrite built_skeleton in Hin.
  apply in_map_iff in Hin. destruct Hin as ([t par] & Heq & Hin). cbn [fst snd] in Heq. injection Heq as Hr Hp _ _.
  apply bfs_all_parent in Hin. destruct Hin as [[Ht ->]|(t' & Ht' & Hc & ->)].
  - left. exists t. auto.
  - right. exists t', t. auto.
Qed.

(* the instance a state registers for a referent *)
Definition dinst_of (insts : list (Z * dinst)) (k : Z) : dinst :=
  match zfind k insts with Some i => i | None => mkDI 0 [] [] [] [] end.

(* what it means for a cdom to be the forest F rebuilt under a fresh root, with the instance data D:
   breadth-first construction order with labels / parent labels / classes / names, every instance exactly once,
   and the root order and every sibling order readable through children_of *)
Definition reconstructs (D : Z -> dinst) (p : dec_params) (F : list ztree) (out : cdom) : Prop :=
  out = built D p F /\
  List.map (fun i => (i_ref i, i_parent i, i_class i, i_name i)) out
    = List.map (fun tp => (lab D (zroot (fst tp)), snd tp, di_class (D (zroot (fst tp))), di_name (D (zroot (fst tp)))))
               (bfs_all D F) /\
  Permutation (List.map i_ref out) (List.map (lab D) (zfrefs F)) /\
  NoDup (List.map i_ref out) /\
  children_of out 0%N = List.map (fun t => lab D (zroot t)) F /\
  (forall t0, In t0 (zfsubtrees F) ->
     children_of out (lab D (zroot t0)) = List.map (fun c => lab D (zroot c)) (zsubs t0)) /\
  (forall L, L <> 0%N -> (forall k, In k (zfrefs F) -> lab D k <> L) -> children_of out L = []).

Lemma built_reconstructs D p F :
  NoDup (List.map (lab D) (zfrefs F)) -> (forall k, In k (zfrefs F) -> lab D k <> 0%N) ->
  reconstructs D p F (built D p F).
Proof.
  intros Hnd Hnz. unfold reconstructs.
  split; [reflexivity|split; [apply built_skeleton|split; [apply built_refs_perm|split; [now apply built_refs_nodup|split; [|split]]]]].
  - now apply built_roots.
  - intros t0 Ht0. now apply built_children.
  - intros L Hz Hnone. now apply built_children_none.
Qed.

(* (2), packaged: `finish` on a state describing the forest F; the fuel finish supplies suffices *)
Theorem finish_reconstructs p sstr types insts roots next F :
  let D := dinst_of insts in
  Forall (shaped D) F -> NoDup (List.map (lab D) (zfrefs F)) ->
  (forall k, In k (zfrefs F) -> zfind k insts <> None /\ lab D k <> 0%N) ->
  roots = List.map zroot F ->
  exists out, finish p (mkDS sstr types insts roots next) = Ok out /\ reconstructs D p F out.
Proof.
  intros D Hsh Hnd Hreg Hroots. exists (built D p F).
  assert (Hnd0 : NoDup (zfrefs F)) by (eapply NoDup_map_inv; exact Hnd).
  split.
  - apply (finish_forest D p sstr types insts roots next F Hsh Hnd0); [|exact Hroots].
    intros k Hk. destruct (Hreg k Hk) as [Hsome _]. unfold D, dinst_of. destruct (zfind k insts); [reflexivity|contradiction].
  - apply built_reconstructs; [exact Hnd|]. intros k Hk. now apply Hreg.
Qed.

(* ------------------------------------------------------------------------------------------ *)
(* 3. PRNT rows, then finish                                                                    *)
(* ------------------------------------------------------------------------------------------ *)
Lemma shaped_from_subtrees D t :
  (forall t0, In t0 (zsubtrees t) -> di_children (D (zroot t0)) = List.map zroot (zsubs t0)) -> shaped D t.
Proof.
  induction t as [r cs IH] using ztree_ind'. intros H. constructor.
  - exact (H (ZNode r cs) (self_in_zsubtrees _)).
  - rewrite Forall_forall in *. intros c Hc. apply (IH c Hc). intros t0 Ht0. apply H.
    eapply zsubtrees_trans; [|exact Ht0]. apply (zsubs_in_zsubtrees (ZNode r cs)). exact Hc.
Qed.

(* the rows describe the forest F: the rows with parent -1 are the roots of F in order, and the rows naming the node k
   as parent are the children of k in order.  Nothing else is asked of the row order (C04: any order of the PRNT
   rows that keeps these subsequences gives the same result; C01: the writer's post-order is one such order). *)
Definition rows_describe (pairs : list (Z * Z)) (F : list ztree) : Prop :=
  rows_of (-1) pairs = List.map zroot F /\
  forall t0, In t0 (zfsubtrees F) -> rows_to (zroot t0) pairs = List.map zroot (zsubs t0).

(* the constructed cdom uses label, class, name and properties of the registered instances, not their child lists *)
Definition same_data (a b : dinst) : Prop :=
  di_label a = di_label b /\ di_class a = di_class b /\ di_name a = di_name b /\ di_props a = di_props b.

Lemma bfsP_ext D1 D2 : (forall k, lab D1 k = lab D2 k) -> forall n q, bfsP D1 n q = bfsP D2 n q.
Proof.
  intros H. induction n as [|n IH]; intros q; destruct q as [|tp q]; try reflexivity.
  cbn [bfsP]. rewrite IH. unfold qkids. now rewrite H.
Qed.
Lemma uid_pass_ext D1 D2 p : (forall k, same_data (D1 k) (D2 k)) -> forall l uids, uid_pass D1 p uids l = uid_pass D2 p uids l.
Proof.
  intros H. induction l as [|[k par] l IH]; intros uids; [reflexivity|]. cbn [uid_pass].
  destruct (H k) as (H1 & H2 & H3 & H4). rewrite H1, H2, H3, H4.
  destruct (uid_rule p (collect_props (di_props (D2 k))) uids) as [props uids']. now rewrite IH.
Qed.
Lemma built_ext D1 D2 p F : (forall k, same_data (D1 k) (D2 k)) -> built D1 p F = built D2 p F.
Proof.
  intros H. unfold built, bfs_all. rewrite (bfsP_ext D1 D2) by (intros k; apply H). now apply uid_pass_ext.
Qed.

(* (1)+(2): decode_prnt_chunk's loop on rows describing F, over registered instances that have no children yet, followed
   by finish.  The result is stated with the instance data BEFORE the PRNT chunk: it does not depend on the rows beyond
   the forest they describe. *)
Theorem prnt_then_finish p sstr types insts0 next pairs F :
  let D := dinst_of insts0 in
  (forall c par, In (c, par) pairs -> par = (-1)%Z \/ zfind par insts0 <> None) ->
  (forall k, In k (zfrefs F) -> exists i, zfind k insts0 = Some i /\ di_children i = [] /\ di_label i <> 0%N) ->
  NoDup (List.map (lab D) (zfrefs F)) ->
  rows_describe pairs F ->
  exists insts',
    prnt_links insts0 [] pairs = Ok (insts', List.map zroot F) /\
    exists out, finish p (mkDS sstr types insts' (List.map zroot F) next) = Ok out /\ reconstructs D p F out.
Proof.
  intros D Hpar Hreg Hnd [Hroots Hkids].
  destruct (prnt_links_spec pairs insts0 [] Hpar) as (insts' & Hrun & Hfind).
  exists insts'. cbn [app] in Hrun. rewrite Hroots in Hrun. split; [exact Hrun|].
  set (D' := fun k => add_children (D k) (rows_to k pairs)).
  assert (HD : forall k, In k (zfrefs F) -> zfind k insts' = Some (D' k)).
  { intros k Hk. rewrite Hfind. destruct (Hreg k Hk) as (i & Hi & _). unfold D', D, dinst_of. now rewrite Hi. }
  assert (Hnd0 : NoDup (zfrefs F)) by (eapply NoDup_map_inv; exact Hnd).
  exists (built D p F). split.
  - rewrite <- (built_ext D' D p F) by (intros k; unfold D', add_children, same_data; cbn; auto).
    apply (finish_forest D' p sstr types insts' _ next F); auto.
    rewrite Forall_forall. intros t Ht. apply shaped_from_subtrees. intros t0 Ht0.
    assert (Hin : In t0 (zfsubtrees F)) by (apply in_flat_map; exists t; auto).
    assert (Hk : In (zroot t0) (zfrefs F)) by (rewrite zfrefs_subtrees; now apply in_map).
    destruct (Hreg _ Hk) as (i & Hi & Hnil & _). unfold D', D, dinst_of, add_children. rewrite Hi. cbn [di_children].
    rewrite Hnil. cbn [app]. now apply Hkids.
  - apply built_reconstructs; [exact Hnd|].
    intros k Hk. destruct (Hreg k Hk) as (i & Hi & _ & Hnz). unfold lab, D, dinst_of. rewrite Hi. exact Hnz.
Qed.

(* C04, "parent-chunk ordering": two PRNT row lists that describe the same ordered forest (e.g. any interleaving of the
   same per-parent subsequences) are read to the same cdom *)
Corollary prnt_row_order_free p sstr types insts0 next pairs1 pairs2 F :
  let D := dinst_of insts0 in
  (forall c par, In (c, par) pairs1 -> par = (-1)%Z \/ zfind par insts0 <> None) ->
  (forall c par, In (c, par) pairs2 -> par = (-1)%Z \/ zfind par insts0 <> None) ->
  (forall k, In k (zfrefs F) -> exists i, zfind k insts0 = Some i /\ di_children i = [] /\ di_label i <> 0%N) ->
  NoDup (List.map (lab D) (zfrefs F)) ->
  rows_describe pairs1 F -> rows_describe pairs2 F ->
  exists insts1 insts2 roots out,
    prnt_links insts0 [] pairs1 = Ok (insts1, roots) /\ prnt_links insts0 [] pairs2 = Ok (insts2, roots) /\
    finish p (mkDS sstr types insts1 roots next) = Ok out /\ finish p (mkDS sstr types insts2 roots next) = Ok out.
Proof.
  intros D H1 H2 Hreg Hnd Hd1 Hd2.
  destruct (prnt_then_finish p sstr types insts0 next pairs1 F H1 Hreg Hnd Hd1) as (i1 & Hr1 & o1 & Hf1 & Ho1 & _).
  destruct (prnt_then_finish p sstr types insts0 next pairs2 F H2 Hreg Hnd Hd2) as (i2 & Hr2 & o2 & Hf2 & Ho2 & _).
  exists i1, i2, (List.map zroot F), o1. rewrite Ho1 in *. rewrite Ho2 in *. auto.
Qed.

(* ------------------------------------------------------------------------------------------ *)
(* 3b. the writer's rows: post-order, each node with its parent (-1 for the roots)              *)
(* ------------------------------------------------------------------------------------------ *)
Fixpoint zpost_rows (par : Z) (t : ztree) : list (Z * Z) :=
  match t with ZNode r cs => flat_map (zpost_rows r) cs ++ [(r, par)] end.
Definition fpost_rows (par : Z) (F : list ztree) : list (Z * Z) := flat_map (zpost_rows par) F.
Fixpoint zpost (t : ztree) : list Z := match t with ZNode r cs => flat_map zpost cs ++ [r] end.

Lemma rows_of_app k a b : rows_of k (a ++ b) = rows_of k a ++ rows_of k b.
Proof. unfold rows_of. now rewrite filter_app, map_app. Qed.
Lemma rows_of_one k c par : rows_of k [(c, par)] = if Z.eqb par k then [c] else [].
Proof. rewrite rows_of_cons. unfold rows_of. cbn. reflexivity. Qed.
Lemma fpost_rows_cons par t F : fpost_rows par (t :: F) = zpost_rows par t ++ fpost_rows par F.
Proof. reflexivity. Qed.
Lemma zpost_rows_eq par r cs : zpost_rows par (ZNode r cs) = fpost_rows r cs ++ [(r, par)].
Proof. reflexivity. Qed.

(* subjects of the post-order rows = the post-order of the referents *)
Lemma zpost_rows_subjects t : forall par, List.map fst (zpost_rows par t) = zpost t.
Proof.
  induction t as [r cs IH] using ztree_ind'. intros par. cbn [zpost_rows zpost]. rewrite map_app. cbn [List.map fst]. f_equal.
  induction cs as [|c cs IHc]; [reflexivity|]. inversion IH as [|? ? Hc Hcs]; subst. cbn [flat_map].
  rewrite map_app, Hc, IHc by assumption. reflexivity.
Qed.

(* rows naming a parent k that is not in the tree: only the tree's own row can *)
Lemma rows_of_post_out t : forall par k, ~ In k (zrefs t) ->
  rows_of k (zpost_rows par t) = if Z.eqb par k then [zroot t] else [].
Proof.
  induction t as [r cs IH] using ztree_ind'. intros par k Hk. cbn [zrefs] in Hk. fold (zfrefs cs) in Hk.
  rewrite zpost_rows_eq, rows_of_app, rows_of_one. cbn [zroot].
  replace (rows_of k (fpost_rows r cs)) with (@nil Z); [reflexivity|].
  assert (Hr : Z.eqb r k = false) by (apply Z.eqb_neq; intros ->; apply Hk; now left).
  assert (Hcs : ~ In k (zfrefs cs)) by (intros H; apply Hk; now right). clear Hk.
  induction cs as [|c cs IHc]; [reflexivity|]. inversion IH as [|? ? Hc Hcs']; subst.
  rewrite zfrefs_cons, in_app_iff in Hcs. rewrite fpost_rows_cons, rows_of_app, Hc, Hr by tauto.
  cbn [app]. apply IHc; [assumption|tauto].
Qed.
Lemma rows_of_fpost_out F : forall par k, ~ In k (zfrefs F) ->
  rows_of k (fpost_rows par F) = if Z.eqb par k then List.map zroot F else [].
Proof.
  induction F as [|t F IH]; intros par k Hk; [now destruct (Z.eqb par k)|].
  rewrite zfrefs_cons, in_app_iff in Hk. rewrite fpost_rows_cons, rows_of_app, rows_of_post_out, IH by tauto.
  destruct (Z.eqb par k); reflexivity.
Qed.

Definition post_in_stmt (t : ztree) : Prop :=
  NoDup (zrefs t) -> forall par t0, In t0 (zsubtrees t) -> par <> zroot t0 ->
  rows_of (zroot t0) (zpost_rows par t) = List.map zroot (zsubs t0).

Lemma rows_of_fpost_in_from F : Forall post_in_stmt F ->
  NoDup (zfrefs F) -> forall par t0, In t0 (zfsubtrees F) -> par <> zroot t0 ->
  rows_of (zroot t0) (fpost_rows par F) = List.map zroot (zsubs t0).
Proof.
  induction 1 as [|t F Ht _ IH]; intros Hnd par t0 Hin Hpar; [contradiction|].
  rewrite zfrefs_cons in Hnd. unfold zfsubtrees in Hin. cbn [flat_map] in Hin. fold (zfsubtrees F) in Hin.
  assert (Hneq : Z.eqb par (zroot t0) = false) by now apply Z.eqb_neq.
  rewrite fpost_rows_cons, rows_of_app. apply in_app_or in Hin. destruct Hin as [Hin|Hin].
  - rewrite (Ht (NoDup_app_left _ _ Hnd) par t0 Hin Hpar), rows_of_fpost_out, Hneq; [now rewrite app_nil_r|].
    intros H. apply (NoDup_app_not _ _ (zroot t0) Hnd); [|exact H]. rewrite zrefs_subtrees. now apply in_map.
  - rewrite rows_of_post_out, Hneq, (IH (NoDup_app_right _ _ Hnd) par t0 Hin Hpar); [reflexivity|].
    intros H. apply (NoDup_app_not _ _ (zroot t0) Hnd); [exact H|]. rewrite zfrefs_subtrees. now apply in_map.
Qed.

Lemma rows_of_post_in t : post_in_stmt t.
Proof.
  induction t as [r cs IH] using ztree_ind'. intros Hnd par t0 Hin Hpar.
  cbn [zrefs] in Hnd. fold (zfrefs cs) in Hnd. apply NoDup_cons_iff in Hnd. destruct Hnd as [Hr Hnd].
  cbn [zsubtrees] in Hin. fold (zfsubtrees cs) in Hin. rewrite zpost_rows_eq, rows_of_app, rows_of_one.
  destruct Hin as [<-|Hin].
  - cbn [zroot zsubs] in *. rewrite rows_of_fpost_out, Z.eqb_refl by exact Hr.
    destruct (Z.eqb par r) eqn:E; [apply Z.eqb_eq in E; contradiction|now rewrite app_nil_r].
  - assert (Hne : r <> zroot t0).
    { intros ->. apply Hr. rewrite zfrefs_subtrees. now apply in_map. }
    rewrite (rows_of_fpost_in_from cs IH Hnd r t0 Hin Hne).
    destruct (Z.eqb par (zroot t0)) eqn:E; [apply Z.eqb_eq in E; contradiction|now rewrite app_nil_r].
Qed.

Lemma rows_of_fpost_in F : NoDup (zfrefs F) -> forall par t0, In t0 (zfsubtrees F) -> par <> zroot t0 ->
  rows_of (zroot t0) (fpost_rows par F) = List.map zroot (zsubs t0).
Proof. apply rows_of_fpost_in_from. apply Forall_forall. intros t _. apply rows_of_post_in. Qed.

(* the rows of one parent, in the writer's post-order, are that parent's children in their original order; the rows with
   parent -1 are the roots in order.  (The writer numbers referents from 0, so -1 is not a referent.) *)
Theorem post_rows_describe F : NoDup (zfrefs F) -> ~ In (-1)%Z (zfrefs F) -> rows_describe (fpost_rows (-1) F) F.
Proof.
  intros Hnd Hm1. split.
  - now rewrite rows_of_fpost_out, Z.eqb_refl.
  - intros t0 Ht0. assert (Hk : In (zroot t0) (zfrefs F)) by (rewrite zfrefs_subtrees; now apply in_map).
    assert (Hne : (-1)%Z <> zroot t0) by (intros E; apply Hm1; now rewrite E).
    unfold rows_to. destruct (Z.eqb (zroot t0) (-1)) eqn:E; [apply Z.eqb_eq in E; congruence|].
    now apply rows_of_fpost_in.
Qed.

(* every parent named by a post-order row is -1 or a node of the forest *)
Lemma zpost_rows_parents t : forall par c q, In (c, q) (zpost_rows par t) -> q = par \/ In q (zrefs t).
Proof.
  induction t as [r cs IH] using ztree_ind'. intros par c q Hin. rewrite zpost_rows_eq in Hin. apply in_app_or in Hin.
  destruct Hin as [Hin|[[= _ <-]|[]]]; [|now left]. right. cbn [zrefs]. unfold fpost_rows in Hin. apply in_flat_map in Hin.
  destruct Hin as (c0 & Hc0 & Hin). rewrite Forall_forall in IH. destruct (IH c0 Hc0 r c q Hin) as [->|Hq]; [now left|].
  right. apply in_flat_map. exists c0. auto.
Qed.
Lemma fpost_rows_parents F par c q : In (c, q) (fpost_rows par F) -> q = par \/ In q (zfrefs F).
Proof.
  unfold fpost_rows. intros Hin. apply in_flat_map in Hin. destruct Hin as (t & Ht & Hin).
  destruct (zpost_rows_parents t par c q Hin) as [->|Hq]; [now left|right]. apply in_flat_map. exists t. auto.
Qed.

(* C01, the forest: the writer's post-order PRNT rows of F are read back to F *)
Theorem post_rows_then_finish p sstr types insts0 next F :
  let D := dinst_of insts0 in
  (forall k, In k (zfrefs F) -> exists i, zfind k insts0 = Some i /\ di_children i = [] /\ di_label i <> 0%N) ->
  NoDup (List.map (lab D) (zfrefs F)) -> ~ In (-1)%Z (zfrefs F) ->
  exists insts',
    prnt_links insts0 [] (fpost_rows (-1) F) = Ok (insts', List.map zroot F) /\
    exists out, finish p (mkDS sstr types insts' (List.map zroot F) next) = Ok out /\ reconstructs D p F out.
Proof.
  intros D Hreg Hnd Hm1. apply prnt_then_finish; auto.
  - intros c par Hin. destruct (fpost_rows_parents _ _ _ _ Hin) as [->|Hq]; [now left|right].
    destruct (Hreg par Hq) as (i & Hi & _). rewrite Hi. discriminate.
  - apply post_rows_describe; [|exact Hm1]. eapply NoDup_map_inv; exact Hnd.
Qed.

(* ------------------------------------------------------------------------------------------ *)
(* 4. UniqueIds of the constructed instances (C12, file decoding)                               *)
(* ------------------------------------------------------------------------------------------ *)
(* the UniqueId an instance holds: its "UniqueId" property when that is a Variant::UniqueId *)
Definition held_uid (props : list (bytes * value)) : option value :=
  match bfind UNIQUE_ID props with
  | Some (VUniqueId a b c) => Some (VUniqueId a b c)
  | _ => None
  end.
Definition is_uid (v : value) : Prop := exists a b c, v = VUniqueId a b c.

Lemma held_uid_is_uid props u : held_uid props = Some u -> is_uid u.
Proof. unfold held_uid. destruct (bfind UNIQUE_ID props) as [[]|]; try discriminate. intros [= <-]. repeat eexists. Qed.

Lemma value_eqb_uid_true u v : is_uid u -> (value_eqb_uid u v = true <-> v = u).
Proof.
  intros (a & b & c & ->). destruct v; cbn; try (split; [discriminate|intros H; discriminate H]).
  rewrite !andb_true_iff, !N.eqb_eq, Z.eqb_eq. split; [intros [[-> ->] ->]; reflexivity|intros [= -> -> ->]; auto].
Qed.
Lemma existsb_uid_in u uids : is_uid u -> (existsb (value_eqb_uid u) uids = true <-> In u uids).
Proof.
  intros Hu. rewrite existsb_exists. split.
  - intros (v & Hv & He). apply (value_eqb_uid_true u v Hu) in He. now subst.
  - intros H. exists u. split; [exact H|]. now apply value_eqb_uid_true.
Qed.

Lemma uid_rule_spec p props uids :
  uid_rule p props uids =
  match held_uid props with
  | Some u => if existsb (value_eqb_uid u) uids
              then (bupd UNIQUE_ID (dp_fresh_uid p) props, dp_fresh_uid p :: uids)
              else (props, u :: uids)
  | None => (props, uids)
  end.
Proof. unfold uid_rule, held_uid. destruct (bfind UNIQUE_ID props) as [[]|]; reflexivity. Qed.

Lemma held_uid_bupd v props :
  held_uid (bupd UNIQUE_ID v props) = match v with VUniqueId a b c => Some v | _ => None end.
Proof.
  unfold held_uid, bupd. cbn [bfind].
  replace (bytes_eqb UNIQUE_ID UNIQUE_ID) with true by (vm_compute; reflexivity). destruct v; reflexivity.
Qed.

Section Uids.
Variable D : Z -> dinst.
Variable p : dec_params.
Notation fresh := (dp_fresh_uid p).

(* the UniqueId the file gave the instance k *)
Definition orig_uid (k : Z) : option value := held_uid (collect_props (di_props (D k))).
Definition opt_list {A} (o : option A) : list A := match o with Some x => [x] | None => [] end.
Definition origs (l : list (Z * N)) : list value := flat_map (fun kp => opt_list (orig_uid (fst kp))) l.
(* the UniqueIds held in a cdom, in order *)
Definition out_uids (d : cdom) : list value := flat_map (fun i => opt_list (held_uid (i_props i))) d.
(* ... other than the one fresh id of the model *)
Definition not_fresh (v : value) : bool := negb (value_eqb_uid v fresh).
Definition nonfresh (l : list value) : list value := List.filter not_fresh l.

(* the set of ids in use after constructing the instances l *)
Fixpoint uid_state (uids : list value) (l : list (Z * N)) : list value :=
  match l with
  | [] => uids
  | (k, _) :: rest => uid_state (snd (uid_rule p (collect_props (di_props (D k))) uids)) rest
  end.

Lemma uid_pass_app : forall l1 l2 uids,
  uid_pass D p uids (l1 ++ l2) = uid_pass D p uids l1 ++ uid_pass D p (uid_state uids l1) l2.
Proof.
  induction l1 as [|[k par] l1 IH]; intros l2 uids; [reflexivity|]. cbn [app uid_pass uid_state].
  destruct (uid_rule p (collect_props (di_props (D k))) uids) as [props uids']. cbn [snd]. now rewrite IH.
Qed.

(* ids in use only grow; and apart from the fresh id they are the initial ones and the ids the file gave *)
Lemma uid_state_grows : forall l uids v, In v uids -> In v (uid_state uids l).
Proof.
  induction l as [|[k par] l IH]; intros uids v Hv; [exact Hv|]. cbn [uid_state]. apply IH.
  rewrite uid_rule_spec. destruct (held_uid _) as [u|]; [|exact Hv]. destruct (existsb _ uids); cbn [snd]; now right.
Qed.
Lemma uid_state_origs : forall l uids v, In v (origs l) -> In v (uid_state uids l).
Proof.
  induction l as [|[k par] l IH]; intros uids v Hv; [contradiction|]. unfold origs in Hv. cbn [flat_map fst] in Hv.
  apply in_app_or in Hv. cbn [uid_state]. destruct Hv as [Hv|Hv]; [|now apply IH].
  apply uid_state_grows. rewrite uid_rule_spec. fold (orig_uid k). destruct (orig_uid k) as [u|] eqn:E; [|contradiction].
  destruct Hv as [<-|[]]. destruct (existsb (value_eqb_uid u) uids) eqn:Ex; cbn [snd]; [right|now left].
  apply existsb_uid_in in Ex; [exact Ex|]. eapply held_uid_is_uid; exact E.
Qed.
Lemma uid_state_only : forall l uids v, In v (uid_state uids l) -> In v uids \/ In v (origs l) \/ v = fresh.
Proof.
  induction l as [|[k par] l IH]; intros uids v Hv; [now left|]. cbn [uid_state] in Hv. apply IH in Hv.
  unfold origs. cbn [flat_map fst]. fold (origs l). rewrite in_app_iff.
  destruct Hv as [Hv|[Hv|Hv]]; [|tauto|tauto]. rewrite uid_rule_spec in Hv. fold (orig_uid k) in Hv.
  destruct (orig_uid k) as [u|]; [|tauto]. destruct (existsb _ uids); cbn [snd] in Hv; destruct Hv as [<-|Hv]; cbn [opt_list In]; tauto.
Qed.

(* ---- the rule, instance by instance: after the instances l1, the instance k ---- *)
(* an instance without a UniqueId, or whose id is not yet in use, keeps its properties exactly *)
Theorem uid_pass_kept l1 k par l2 uids :
  (forall u, orig_uid k = Some u -> ~ In u (uid_state uids l1)) ->
  exists uids',
    uid_pass D p uids (l1 ++ (k, par) :: l2)
    = uid_pass D p uids l1
      ++ mkInst (di_label (D k)) par (di_class (D k)) (di_name (D k)) (collect_props (di_props (D k)))
      :: uid_pass D p uids' l2.
Proof.
  intros Hfree. rewrite uid_pass_app. cbn [uid_pass]. rewrite uid_rule_spec. fold (orig_uid k).
  destruct (orig_uid k) as [u|] eqn:E; [|eexists; reflexivity].
  destruct (existsb (value_eqb_uid u) (uid_state uids l1)) eqn:Ex; [|eexists; reflexivity].
  apply existsb_uid_in in Ex; [|eapply held_uid_is_uid; exact E]. exfalso. exact (Hfree u eq_refl Ex).
Qed.
(* an instance whose id is in use gets the fresh id, and nothing else changes *)
Theorem uid_pass_replaced l1 k par l2 uids u :
  orig_uid k = Some u -> In u (uid_state uids l1) ->
  exists uids',
    uid_pass D p uids (l1 ++ (k, par) :: l2)
    = uid_pass D p uids l1
      ++ mkInst (di_label (D k)) par (di_class (D k)) (di_name (D k))
                (bupd UNIQUE_ID fresh (collect_props (di_props (D k))))
      :: uid_pass D p uids' l2.
Proof.
  intros E Hin. rewrite uid_pass_app. cbn [uid_pass]. rewrite uid_rule_spec. fold (orig_uid k). rewrite E.
  apply existsb_uid_in in Hin; [|eapply held_uid_is_uid; exact E]. rewrite Hin. eexists; reflexivity.
Qed.
(* "in use" for an id other than the fresh one: held by the initial set or given by the file to an earlier instance *)
Lemma uid_state_nonfresh l uids u : u <> fresh -> (In u (uid_state uids l) <-> In u uids \/ In u (origs l)).
Proof.
  intros Hne. split.
  - intros H. apply uid_state_only in H. tauto.
  - intros [H|H]; [now apply uid_state_grows|now apply uid_state_origs].
Qed.

(* ---- no collision: every property table is the file's ---- *)
Theorem uid_pass_no_collision : forall l uids,
  NoDup (origs l) -> (forall v, In v (origs l) -> ~ In v uids) ->
  uid_pass D p uids l
  = List.map (fun kp => mkInst (di_label (D (fst kp))) (snd kp) (di_class (D (fst kp))) (di_name (D (fst kp)))
                               (collect_props (di_props (D (fst kp))))) l.
Proof.
  induction l as [|[k par] l IH]; intros uids Hnd Hdis; [reflexivity|]. cbn [uid_pass List.map fst snd].
  unfold origs in Hnd, Hdis. cbn [flat_map fst] in Hnd, Hdis. fold (origs l) in Hnd, Hdis.
  rewrite uid_rule_spec. fold (orig_uid k). destruct (orig_uid k) as [u|] eqn:E.
  - cbn [opt_list app] in Hnd, Hdis. apply NoDup_cons_iff in Hnd. destruct Hnd as [Hu Hnd].
    destruct (existsb (value_eqb_uid u) uids) eqn:Ex.
    + apply existsb_uid_in in Ex; [|eapply held_uid_is_uid; exact E]. exfalso. apply (Hdis u); [now left|exact Ex].
    + rewrite IH; [reflexivity|exact Hnd|]. intros v Hv [<-|Hin]; [contradiction|]. apply (Hdis v); [now right|exact Hin].
  - cbn [opt_list app] in Hnd, Hdis. rewrite IH; auto.
Qed.

(* ---- uniqueness: apart from the single fresh id of the model, no id is held twice, and none was in use before ---- *)
Lemma nonfresh_app a b : nonfresh (a ++ b) = nonfresh a ++ nonfresh b.
Proof. apply filter_app. Qed.

Lemma uid_pass_unique : forall l uids,
  NoDup (nonfresh (out_uids (uid_pass D p uids l))) /\
  (forall v, In v (nonfresh (out_uids (uid_pass D p uids l))) -> ~ In v uids).
Proof.
  induction l as [|[k par] l IH]; intros uids; [split; [constructor|intros v []]|]. cbn [uid_pass].
  rewrite uid_rule_spec. fold (orig_uid k).
  assert (Hsub : forall uids', (forall v, In v uids -> In v uids') ->
            NoDup (nonfresh (out_uids (uid_pass D p uids' l))) /\
            (forall v, In v (nonfresh (out_uids (uid_pass D p uids' l))) -> ~ In v uids)).
  { intros uids' Hs. destruct (IH uids') as [H1 H2]. split; [exact H1|]. intros v Hv Hin. exact (H2 v Hv (Hs v Hin)). }
  destruct (orig_uid k) as [u|] eqn:E.
  - assert (Hu : is_uid u) by (eapply held_uid_is_uid; exact E).
    destruct (existsb (value_eqb_uid u) uids) eqn:Ex.
    + (* replaced: holds the fresh id (or nothing, if the supplied value is no UniqueId) *)
      unfold out_uids. cbn [flat_map i_props]. fold (out_uids (uid_pass D p (fresh :: uids) l)). rewrite held_uid_bupd, nonfresh_app.
      replace (nonfresh (opt_list match fresh with VUniqueId _ _ _ => Some fresh | _ => None end)) with (@nil value).
      * cbn [app]. apply Hsub. intros v Hv. now right.
      * destruct fresh eqn:Ef; try reflexivity. cbn [opt_list nonfresh List.filter]. unfold not_fresh. rewrite Ef.
        replace (value_eqb_uid (VUniqueId index time random) (VUniqueId index time random)) with true; [reflexivity|].
        symmetry. apply value_eqb_uid_true; [repeat eexists|reflexivity].
    + (* kept *)
      unfold orig_uid in E. unfold out_uids. cbn [flat_map i_props]. fold (out_uids (uid_pass D p (u :: uids) l)).
      rewrite E, nonfresh_app. cbn [opt_list]. destruct (IH (u :: uids)) as [H1 H2].
      assert (Hnu : ~ In u uids).
      { intros Hin. apply (existsb_uid_in u uids Hu) in Hin. congruence. }
      cbn [nonfresh List.filter]. destruct (not_fresh u).
      * cbn [app]. split.
        -- constructor; [|exact H1]. intros Hin. apply (H2 u Hin). now left.
        -- intros v [<-|Hv]; [exact Hnu|]. intros Hin. apply (H2 v Hv). now right.
      * cbn [app]. split; [exact H1|]. intros v Hv Hin. apply (H2 v Hv). now right.
  - unfold orig_uid in E. unfold out_uids. cbn [flat_map i_props]. fold (out_uids (uid_pass D p uids l)).
    rewrite E. cbn [opt_list app]. apply IH.
Qed.

(* a list whose entries other than x are pairwise distinct, and which holds x at most once, has no repetition *)
Lemma nodup_but_one l :
  NoDup (nonfresh l) -> (forall a b c, l <> a ++ fresh :: b ++ fresh :: c) -> Forall is_uid l -> NoDup l.
Proof.
  induction l as [|v l IH]; intros Hnd Honce Hall; [constructor|].
  inversion Hall as [|? ? Hv Hall']; subst. cbn [nonfresh List.filter] in Hnd.
  assert (Hl : NoDup l).
  { apply IH; [destruct (not_fresh v); [now inversion Hnd|exact Hnd]| |exact Hall'].
    intros a b c ->. apply (Honce (v :: a) b c). reflexivity. }
  constructor; [|exact Hl]. intros Hin. unfold not_fresh in Hnd. destruct (value_eqb_uid v fresh) eqn:Ef; cbn [negb] in Hnd.
  - apply (value_eqb_uid_true v fresh Hv) in Ef. apply in_split in Hin. destruct Hin as (b & c & ->).
    apply (Honce [] b c). now rewrite Ef.
  - apply NoDup_cons_iff in Hnd. apply (proj1 Hnd). unfold nonfresh. apply filter_In. split; [exact Hin|].
    unfold not_fresh. now rewrite Ef.
Qed.

Lemma out_uids_all_uid d : Forall is_uid (out_uids d).
Proof.
  apply Forall_forall. intros v Hv. unfold out_uids in Hv. apply in_flat_map in Hv. destruct Hv as (i & _ & Hv).
  destruct (held_uid (i_props i)) as [u|] eqn:E; [|contradiction]. destruct Hv as [<-|[]]. eapply held_uid_is_uid; exact E.
Qed.

(* C12 for the cdom of a decoded file *)
Theorem built_uids_unique_but_fresh F : NoDup (nonfresh (out_uids (built D p F))).
Proof. unfold built. apply (uid_pass_unique _ []). Qed.

Theorem built_uids_unique F :
  (forall a b c, out_uids (built D p F) <> a ++ fresh :: b ++ fresh :: c) -> NoDup (out_uids (built D p F)).
Proof. intros H. apply nodup_but_one; [apply built_uids_unique_but_fresh|exact H|apply out_uids_all_uid]. Qed.

Theorem built_uids_preserved F :
  NoDup (origs (List.map qproj (bfs_all D F))) ->
  built D p F
  = List.map (fun tp => mkInst (lab D (zroot (fst tp))) (snd tp) (di_class (D (zroot (fst tp)))) (di_name (D (zroot (fst tp))))
                               (collect_props (di_props (D (zroot (fst tp)))))) (bfs_all D F).
Proof.
  intros H. unfold built. rewrite uid_pass_no_collision; [|exact H|intros v _ []]. now rewrite map_map.
Qed.
End Uids.

(* ------------------------------------------------------------------------------------------ *)
(* 5. the labels: decode_inst allocates them consecutively from ds_next >= 1, nothing else changes them *)
(* ------------------------------------------------------------------------------------------ *)
Definition labf (insts : list (Z * dinst)) (k : Z) : option N := option_map di_label (zfind k insts).
(* every label is in [1, next) and no two registered referents share one *)
Definition labels_ok (insts : list (Z * dinst)) (next : N) : Prop :=
  (1 <= next)%N /\
  (forall k l, labf insts k = Some l -> (1 <= l < next)%N) /\
  (forall k1 k2 l, labf insts k1 = Some l -> labf insts k2 = Some l -> k1 = k2).

Lemma labels_ok_ext insts insts' next : (forall k, labf insts' k = labf insts k) -> labels_ok insts next -> labels_ok insts' next.
Proof.
  intros He (H0 & H1 & H2). split; [exact H0|split].
  - intros k l Hl. rewrite He in Hl. eauto.
  - intros k1 k2 l Hl1 Hl2. rewrite He in Hl1, Hl2. eauto.
Qed.

Lemma labf_zupd_same k i insts : labf (zupd k i insts) k = Some (di_label i).
Proof. unfold labf. now rewrite zfind_zupd_same. Qed.
Lemma labf_zupd_other k k' i insts : k <> k' -> labf (zupd k i insts) k' = labf insts k'.
Proof. intros H. unfold labf. now rewrite zfind_zupd_other. Qed.
(* rewriting a registered instance without touching its label *)
Lemma labf_zupd_keep k i j insts k' : zfind k insts = Some i -> di_label j = di_label i -> labf (zupd k j insts) k' = labf insts k'.
Proof.
  intros Hi Hl. destruct (Z.eq_dec k k') as [<-|Hne]; [|now apply labf_zupd_other].
  rewrite labf_zupd_same. unfold labf. rewrite Hi. cbn. now f_equal.
Qed.

Lemma labels_ok_register r tn insts next :
  labels_ok insts next -> labels_ok (zupd r (mkDI next tn tn [] []) insts) (next + 1)%N.
Proof.
  intros (H0 & H1 & H2). split; [lia|split].
  - intros k l. destruct (Z.eq_dec r k) as [<-|Hne].
    + rewrite labf_zupd_same. cbn [di_label]. intros [= <-]. lia.
    + rewrite labf_zupd_other by exact Hne. intros Hl. apply H1 in Hl. lia.
  - intros k1 k2 l. destruct (Z.eq_dec r k1) as [<-|Hn1]; destruct (Z.eq_dec r k2) as [<-|Hn2]; [reflexivity| | |].
    + rewrite labf_zupd_same, labf_zupd_other by exact Hn2. cbn [di_label]. intros [= <-] Hl. apply H1 in Hl. lia.
    + rewrite labf_zupd_same, labf_zupd_other by exact Hn1. cbn [di_label]. intros Hl [= <-]. apply H1 in Hl. lia.
    + rewrite !labf_zupd_other by assumption. apply H2.
Qed.

Lemma inst_fold_labels tn : forall refs insts next,
  labels_ok insts next ->
  let r := fold_left (fun acc referent => let '(insts, next) := acc in (zupd referent (mkDI next tn tn [] []) insts, (next + 1)%N))
                     refs (insts, next) in
  labels_ok (fst r) (snd r) /\ snd r = (next + N.of_nat (length refs))%N.
Proof.
  induction refs as [|x refs IH]; intros insts next Hok; cbn [fold_left].
  - cbn. split; [exact Hok|lia].
  - destruct (IH _ _ (labels_ok_register x tn insts next Hok)) as [H1 H2]. split; [exact H1|]. rewrite H2. cbn [length]. lia.
Qed.

Definition lab_inv (st : dstate) : Prop := labels_ok (ds_insts st) (ds_next st).

(* decode_inst_chunk: fresh consecutive labels, all earlier ones untouched and still distinct *)
Theorem decode_inst_labels lim st b st' b' :
  lab_inv st -> decode_inst lim st b = Ok (st', b') -> lab_inv st'.
Proof.
  intros Hinv H. unfold decode_inst in H.
  apply pbind_ok in H. destruct H as (type_id & b1 & _ & H).
  apply pbind_ok in H. destruct H as (type_name & b2 & _ & H).
  apply pbind_ok in H. destruct H as (fmt & b3 & _ & H).
  apply pbind_ok in H. destruct H as (cnt & b4 & _ & H).
  apply pbind_ok in H. destruct H as (refs & b5 & _ & H).
  pose proof (inst_fold_labels type_name refs (ds_insts st) (ds_next st) Hinv) as K. cbv zeta in K.
  destruct (fold_left _ refs (ds_insts st, ds_next st)) as [insts next]. cbn [fst snd] in K. destruct K as [K1 _].
  unfold pret in H. injection H as <- _. exact K1.
Qed.

Lemma apply_values_labels {A} (f : dinst -> A -> dinst) : (forall i v, di_label (f i v) = di_label i) ->
  forall rs vs insts insts', apply_values f insts rs vs = Ok insts' -> forall k, labf insts' k = labf insts k.
Proof.
  intros Hf. induction rs as [|r rs IH]; intros vs insts insts' H k; cbn [apply_values] in H; [now injection H as <-|].
  destruct vs as [|v vs]; [now injection H as <-|]. destruct (zfind r insts) as [i|] eqn:E; [|discriminate].
  rewrite (IH _ _ _ H). eapply labf_zupd_keep; [exact E|apply Hf].
Qed.

Lemma add_property_label p i name migration v : di_label (add_property p i name migration v) = di_label i.
Proof.
  unfold add_property. destruct migration as [[nn op]|]; [|reflexivity].
  destruct (existsb _ (di_props i)); [reflexivity|]. destruct (migrate _ _ op v); reflexivity.
Qed.

Lemma decode_prop_labels d p st chunk st' : lab_inv st -> decode_prop d p st chunk = Ok st' -> lab_inv st'.
Proof.
  intros Hinv H. unfold decode_prop in H.
  match type of H with match ?x with _ => _ end = _ => destruct x as [[[type_id prop_name] chunk1]| | |] end; try discriminate.
  destruct (lookup type_id (ds_types st)) as [ti|]; [|discriminate].
  destruct chunk1 as [|byte chunk2]; [now injection H as <-|].
  destruct (wire_of_id byte) as [ty|]; [|now injection H as <-]. cbv zeta in H.
  destruct (bytes_eqb prop_name NAME).
  - destruct (run_chunk _ chunk2) as [names| | |]; cbn [rbind] in H; try discriminate.
    destruct (apply_values _ (ds_insts st) _ _) as [insts'| | |] eqn:E; cbn [rbind] in H; try discriminate.
    injection H as <-. unfold lab_inv. cbn [ds_insts ds_next]. eapply labels_ok_ext; [|exact Hinv].
    eapply apply_values_labels; [|exact E]. reflexivity.
  - destruct (find_canonical_property d ty (dt_name ti) prop_name) as [[[[name cty] migration]|]| | |]; cbn [rbind] in H; try discriminate.
    2:{ now injection H as <-. }
    destruct (run_chunk _ chunk2) as [vs| | |]; cbn [rbind] in H; try discriminate.
    destruct (apply_values _ (ds_insts st) _ _) as [insts'| | |] eqn:E; cbn [rbind] in H; try discriminate.
    injection H as <-. unfold lab_inv. cbn [ds_insts ds_next]. eapply labels_ok_ext; [|exact Hinv].
    eapply apply_values_labels; [|exact E]. intros i v. apply add_property_label.
Qed.

Lemma prnt_links_labels : forall pairs insts roots insts' roots',
  prnt_links insts roots pairs = Ok (insts', roots') -> forall k, labf insts' k = labf insts k.
Proof.
  induction pairs as [|[c par] rest IH]; intros insts roots insts' roots' H k; cbn [prnt_links] in H; [now injection H as <- _|].
  destruct (Z.eqb par (-1)); [exact (IH _ _ _ _ H k)|]. destruct (zfind par insts) as [i|] eqn:E; [|discriminate].
  rewrite (IH _ _ _ _ H k). eapply labf_zupd_keep; [exact E|reflexivity].
Qed.

Lemma decode_prnt_labels lim st chunk st' : lab_inv st -> decode_prnt lim st chunk = Ok st' -> lab_inv st'.
Proof.
  intros Hinv H. unfold decode_prnt in H. destruct (run_chunk _ chunk) as [pairs| | |]; cbn [rbind] in H; try discriminate.
  destruct (prnt_links (ds_insts st) (ds_roots st) pairs) as [[insts' roots']| | |] eqn:E; cbn [rbind] in H; try discriminate.
  injection H as <-. unfold lab_inv. cbn [ds_insts ds_next fst]. eapply labels_ok_ext; [|exact Hinv].
  eapply prnt_links_labels; exact E.
Qed.

Lemma dispatch_labels d p st name data st' : lab_inv st -> dispatch_chunk d p st name data = Ok (Some st') -> lab_inv st'.
Proof.
  intros Hinv H. unfold dispatch_chunk in H.
  destruct (bytes_eqb name CH_META).
  { destruct (run_chunk _ data); cbn [rbind] in H; try discriminate. now injection H as <-. }
  destruct (bytes_eqb name CH_SSTR).
  { destruct (run_chunk _ data); cbn [rbind] in H; try discriminate. injection H as <-. exact Hinv. }
  destruct (bytes_eqb name CH_INST).
  { unfold run_chunk in H. destruct (decode_inst (dp_lim p) st data) as [[st1 b1]| | |] eqn:E; cbn [rbind] in H; try discriminate.
    injection H as <-. eapply decode_inst_labels; eassumption. }
  destruct (bytes_eqb name CH_PROP).
  { destruct (decode_prop d p st data) as [st1| | |] eqn:E; cbn [rbind] in H; try discriminate.
    injection H as <-. eapply decode_prop_labels; eassumption. }
  destruct (bytes_eqb name CH_PRNT).
  { destruct (decode_prnt (dp_lim p) st data) as [st1| | |] eqn:E; cbn [rbind] in H; try discriminate.
    injection H as <-. eapply decode_prnt_labels; eassumption. }
  destruct (bytes_eqb name CH_END); [discriminate|]. now injection H as <-.
Qed.

Lemma chunk_loop_labels d p : forall fuel st b st', lab_inv st -> chunk_loop fuel d p st b = Ok st' -> lab_inv st'.
Proof.
  induction fuel as [|f IH]; intros st b st' Hinv H; [discriminate|]. cbn [chunk_loop] in H.
  destruct (decode_chunk p b) as [[[name data] rest]| | |]; try discriminate.
  destruct (dispatch_chunk d p st name data) as [[st1|]| | |] eqn:E; cbn [rbind] in H; try discriminate.
  - eapply IH; [|exact H]. eapply dispatch_labels; eassumption.
  - now injection H as <-.
Qed.

Lemma lab_inv0 : lab_inv dstate0.
Proof. split; [cbn; lia|split; intros; discriminate]. Qed.

(* every state the chunk loop of decode_file reaches has pairwise distinct labels >= 1 *)
Theorem decoded_state_labels d p fuel b st : chunk_loop fuel d p dstate0 b = Ok st -> lab_inv st.
Proof. apply chunk_loop_labels. exact lab_inv0. Qed.

(* which is the label hypothesis of finish_reconstructs / prnt_then_finish *)
Theorem labels_ok_hyp insts next ks :
  labels_ok insts next -> NoDup ks -> (forall k, In k ks -> zfind k insts <> None) ->
  NoDup (List.map (lab (dinst_of insts)) ks) /\ (forall k, In k ks -> lab (dinst_of insts) k <> 0%N).
Proof.
  intros (H0 & H1 & H2) Hnd Hreg.
  assert (Hl : forall k, In k ks -> labf insts k = Some (lab (dinst_of insts) k)).
  { intros k Hk. specialize (Hreg k Hk). unfold labf, lab, dinst_of. destruct (zfind k insts); [reflexivity|contradiction]. }
  split.
  - clear H1. induction Hnd as [|k ks Hk Hnd IH]; [constructor|]. cbn [List.map]. constructor.
    + intros Hin. apply in_map_iff in Hin. destruct Hin as (k' & He & Hk').
      assert (k' = k); [|subst; contradiction].
      apply (H2 k' k (lab (dinst_of insts) k)); [rewrite <- He|]; apply Hl; [now right|now left].
    + apply IH; intros; [apply Hreg|apply Hl]; now right.
  - intros k Hk. specialize (H1 _ _ (Hl k Hk)). lia.
Qed.

(* ------------------------------------------------------------------------------------------ *)
(* 3c. composing with the writer (Proofs/BinPostorder.v)                                        *)
(* ------------------------------------------------------------------------------------------ *)
(* serialize_parents writes, for every r of relevant_instances (the post-order of the chosen subtrees), the row
   (f r, pz r): f = id_to_referent, pz r = the referent of r's parent, -1 when the parent is not written.
   On the forest ts of BinPostorder these rows are the post-order rows of ts renamed by f. *)
Module WriterRows.
Import BinPostorder.

Section TreeIndN.
  Variable P : tree -> Prop.
  Hypothesis H : forall r cs, Forall P cs -> P (Node r cs).
  Fixpoint ntree_ind' (t : tree) : P t :=
    match t with
    | Node r cs =>
        H r cs ((fix go (ks : list tree) : Forall P ks :=
                   match ks with
                   | [] => Forall_nil P
                   | k :: ks' => Forall_cons k (ntree_ind' k) (go ks')
                   end) cs)
    end.
End TreeIndN.

Fixpoint ztree_of (f : N -> Z) (t : tree) : ztree :=
  match t with Node r cs => ZNode (f r) (List.map (ztree_of f) cs) end.

Lemma zroot_ztree_of f t : zroot (ztree_of f t) = f (root t).
Proof. destruct t; reflexivity. Qed.

Lemma zrefs_ztree_of f t : zrefs (ztree_of f t) = List.map f (refs t).
Proof.
  induction t as [r cs IH] using ntree_ind'. cbn [ztree_of zrefs refs List.map]. f_equal.
  induction cs as [|c cs IHc]; [reflexivity|]. inversion IH as [|? ? Hc Hcs]; subst. cbn [List.map flat_map].
  rewrite map_app, Hc, IHc by assumption. reflexivity.
Qed.
Lemma zfrefs_ztree_of f ts : zfrefs (List.map (ztree_of f) ts) = List.map f (flat_map refs ts).
Proof.
  induction ts as [|t ts IH]; [reflexivity|]. cbn [List.map flat_map]. rewrite zfrefs_cons, map_app, zrefs_ztree_of, IH. reflexivity.
Qed.

(* pz gives every node of t its parent's referent, and the root of t the referent par *)
Inductive parents_ok (f : N -> Z) (pz : N -> Z) : Z -> tree -> Prop :=
| parents_ok_node par r cs : pz r = par -> Forall (parents_ok f pz (f r)) cs -> parents_ok f pz par (Node r cs).

Lemma writer_rows_tree f pz t : forall par, parents_ok f pz par t ->
  List.map (fun r => (f r, pz r)) (post t) = zpost_rows par (ztree_of f t).
Proof.
  induction t as [r cs IH] using ntree_ind'. intros par Hok. inversion Hok as [? ? ? Hr Hcs]; subst.
  cbn [post ztree_of zpost_rows]. rewrite map_app. cbn [List.map]. f_equal.
  clear Hok. induction cs as [|c cs IHc]; [reflexivity|].
  inversion IH as [|? ? Hc Hcs']; subst. inversion Hcs as [|? ? Hokc Hokcs]; subst.
  cbn [flat_map List.map]. rewrite map_app, (Hc _ Hokc), IHc by assumption. reflexivity.
Qed.

Lemma writer_rows_forest f pz ts par : Forall (parents_ok f pz par) ts ->
  List.map (fun r => (f r, pz r)) (flat_map post ts) = fpost_rows par (List.map (ztree_of f) ts).
Proof.
  induction 1 as [|t ts Ht _ IH]; [reflexivity|]. cbn [flat_map List.map]. rewrite map_app, fpost_rows_cons, IH.
  f_equal. now apply writer_rows_tree.
Qed.

(* C01, the forest round trip at the level of the PRNT rows: the rows the writer derives from relevant_instances after
   add_instances (= add_loop from the empty serializer state) on the non-overlapping subtrees ts are read back by
   decode_prnt_chunk + finish to the forest ts (renamed by the referent numbering f), under a fresh root *)
Theorem writer_rows_then_finish db dom ts fuel st' f pz p sstr types insts0 next :
  Forall (agrees (children_of dom)) ts -> NoDup (flat_map refs ts) ->
  add_loop fuel db dom true (List.map root ts) None ser_state0 = Ok st' ->
  Forall (parents_ok f pz (-1)%Z) ts ->
  ~ In (-1)%Z (List.map f (flat_map refs ts)) ->
  let F := List.map (ztree_of f) ts in
  let D := dinst_of insts0 in
  (forall k, In k (zfrefs F) -> exists i, zfind k insts0 = Some i /\ di_children i = [] /\ di_label i <> 0%N) ->
  NoDup (List.map (lab D) (zfrefs F)) ->
  exists insts',
    prnt_links insts0 [] (List.map (fun r => (f r, pz r)) (ss_relevant st')) = Ok (insts', List.map zroot F) /\
    exists out, finish p (mkDS sstr types insts' (List.map zroot F) next) = Ok out /\ reconstructs D p F out.
Proof.
  intros Hag Hnd Hadd Hpar Hm1 F D Hreg Hlab.
  pose proof (add_loop_postorder db dom ts fuel ser_state0 st' Hag Hnd Hadd) as Hrel. cbn [ss_relevant ser_state0 app] in Hrel.
  rewrite Hrel, (writer_rows_forest f pz ts (-1)%Z Hpar). fold F.
  apply post_rows_then_finish; auto. unfold F. now rewrite zfrefs_ztree_of.
Qed.

(* non-vacuity of parents_ok: the forest {10 -> [11; 12]; 13} numbered in post-order *)
Example ex_parents_ok :
  let f := fun r : N => if N.eqb r 11 then 0%Z else if N.eqb r 12 then 1%Z else if N.eqb r 10 then 2%Z else 3%Z in
  let pz := fun r : N => if N.eqb r 11 || N.eqb r 12 then 2%Z else (-1)%Z in
  let ts := [Node 10 [Node 11 []; Node 12 []]; Node 13 []]%N in
  Forall (parents_ok f pz (-1)%Z) ts /\
  List.map (fun r => (f r, pz r)) (flat_map post ts) = [(0, 2); (1, 2); (2, -1); (3, -1)]%Z.
Proof. cbv zeta. split; [|reflexivity]. repeat (constructor; try reflexivity). Qed.
End WriterRows.

(* ------------------------------------------------------------------------------------------ *)
(* 6. the whole reader: decode_file on a file whose final state describes the forest F          *)
(* ------------------------------------------------------------------------------------------ *)
Theorem decode_file_forest d p b hdr rest st F :
  decode_header (dp_lim p) b = Ok (hdr, rest) ->
  chunk_loop (S (length rest)) d p dstate0 rest = Ok st ->
  let D := dinst_of (ds_insts st) in
  Forall (shaped D) F -> NoDup (zfrefs F) ->
  (forall k, In k (zfrefs F) -> zfind k (ds_insts st) <> None) ->
  ds_roots st = List.map zroot F ->
  exists out, decode_file d p b = Ok out /\ reconstructs D p F out.
Proof.
  intros Hh Hl D Hsh Hnd Hreg Hroots. unfold decode_file. rewrite Hh, Hl. cbn [rbind].
  pose proof (decoded_state_labels _ _ _ _ _ Hl) as Hlab.
  destruct (labels_ok_hyp _ _ (zfrefs F) Hlab Hnd Hreg) as [Hl1 Hl2].
  destruct st as [sstr types insts roots next]. cbn [ds_insts ds_roots] in *.
  apply finish_reconstructs; auto.
Qed.

(* ------------------------------------------------------------------------------------------ *)
(* 7. examples (non-vacuity) and the limitation of the single fresh id                          *)
(* ------------------------------------------------------------------------------------------ *)
Module BinFinishExamples.
Definition ex_p : dec_params := mkDP [] [] (fun _ _ => None) (VUniqueId 9 9 9%Z) None.
Definition U (n : N) : value := VUniqueId n 0 0%Z.
(* four registered instances (referents 0..3, labels 1..4) before the PRNT chunk; B and C carry the same UniqueId *)
Definition ex_insts0 : list (Z * dinst) :=
  [ (3%Z, mkDI 4 (bstr "Folder") (bstr "D") [(UNIQUE_ID, U 7)] []);
    (2%Z, mkDI 3 (bstr "Model") (bstr "C") [(UNIQUE_ID, U 5)] []);
    (1%Z, mkDI 2 (bstr "Part") (bstr "B") [(UNIQUE_ID, U 5)] []);
    (0%Z, mkDI 1 (bstr "Part") (bstr "A") [] []) ].
(* two roots: C with the children A, B; and D *)
Definition ex_F : list ztree := [ZNode 2 [ZNode 0 []; ZNode 1 []]; ZNode 3 []].
Definition ex_rows_post : list (Z * Z) := [(0, 2); (1, 2); (2, -1); (3, -1)]%Z.      (* the writer's order *)
Definition ex_rows_other : list (Z * Z) := [(2, -1); (0, 2); (3, -1); (1, 2)]%Z.     (* another order, same subsequences *)
Definition ex_rows_swapped : list (Z * Z) := [(2, -1); (1, 2); (3, -1); (0, 2)]%Z.   (* B before A: a different forest *)

Example ex_post_rows : fpost_rows (-1) ex_F = ex_rows_post.
Proof. vm_compute. reflexivity. Qed.

Definition run_rows (rows : list (Z * Z)) : res cdom :=
  match prnt_links ex_insts0 [] rows with
  | Ok (insts', roots) => finish ex_p (mkDS [] [] insts' roots 5)
  | Err e => Err e | Panic => Panic | OutOfFuel => OutOfFuel
  end.
Definition view (r : res cdom) : option (list (N * N * bytes * option value)) :=
  match r with Ok o => Some (List.map (fun i => (i_ref i, i_parent i, i_name i, held_uid (i_props i))) o) | _ => None end.

(* breadth-first: C, D (roots, parent 0), then A, B (children of C = label 3); B's colliding UniqueId is replaced *)
Example ex_result_post :
  view (run_rows ex_rows_post)
  = Some [(3, 0, bstr "C", Some (U 5)); (4, 0, bstr "D", Some (U 7)); (1, 3, bstr "A", None); (2, 3, bstr "B", Some (VUniqueId 9 9 9%Z))]%N.
Proof. vm_compute. reflexivity. Qed.
Example ex_result_other : run_rows ex_rows_other = run_rows ex_rows_post.
Proof. vm_compute. reflexivity. Qed.
Example ex_result_swapped :
  option_map (List.map (fun x => fst (fst (fst x)))) (view (run_rows ex_rows_swapped)) = Some [3; 4; 2; 1]%N.
Proof. vm_compute. reflexivity. Qed.
Example ex_children :
  match run_rows ex_rows_post with Ok o => (children_of o 0, children_of o 3, children_of o 4) | _ => ([], [], []) end
  = ([3; 4], [1; 2], [])%N.
Proof. vm_compute. reflexivity. Qed.

(* the hypotheses of prnt_then_finish / post_rows_then_finish hold of this instance *)
Example ex_hyp_parents rows : rows = ex_rows_post \/ rows = ex_rows_other ->
  forall c par, In (c, par) rows -> par = (-1)%Z \/ zfind par ex_insts0 <> None.
Proof.
  intros [-> | ->] c par H; cbn in H;
    repeat (destruct H as [H|H]; [injection H as <- <-; first [now left | right; discriminate]|]); contradiction.
Qed.
Example ex_hyp_registered :
  forall k, In k (zfrefs ex_F) -> exists i, zfind k ex_insts0 = Some i /\ di_children i = [] /\ di_label i <> 0%N.
Proof.
  intros k H. cbn in H. repeat (destruct H as [<-|H]; [eexists; split; [reflexivity|split; [reflexivity|discriminate]]|]). contradiction.
Qed.
Example ex_hyp_labels : NoDup (List.map (lab (dinst_of ex_insts0)) (zfrefs ex_F)).
Proof. vm_compute. repeat constructor; cbn; intuition discriminate. Qed.
Example ex_hyp_no_m1 : ~ In (-1)%Z (zfrefs ex_F).
Proof. cbn. intuition discriminate. Qed.
Example ex_hyp_describe_other : rows_describe ex_rows_other ex_F.
Proof.
  split; [reflexivity|]. intros t0 H. cbn in H. repeat (destruct H as [<-|H]; [reflexivity|]). contradiction.
Qed.
Example ex_labels_ok : labels_ok ex_insts0 5.
Proof.
  split; [lia|split].
  - intros k l. unfold labf. cbn. repeat (destruct (Z.eqb k _); [intros [= <-]; lia|]). discriminate.
  - intros k1 k2 l. unfold labf. cbn.
    destruct (Z.eqb k1 3) eqn:E13; [|destruct (Z.eqb k1 2) eqn:E12; [|destruct (Z.eqb k1 1) eqn:E11; [|destruct (Z.eqb k1 0) eqn:E10; [|discriminate]]]];
    (destruct (Z.eqb k2 3) eqn:E23; [|destruct (Z.eqb k2 2) eqn:E22; [|destruct (Z.eqb k2 1) eqn:E21; [|destruct (Z.eqb k2 0) eqn:E20; [|intros _ H; discriminate H]]]]);
    cbn; intros [= <-] [=]; rewrite ?Z.eqb_eq in *; congruence.
Qed.

(* LIMITATION of the model (not of the Rust code): dp_fresh_uid is ONE value, so when three instances carry the same
   UniqueId the second and the third both receive it, whereas WeakDom::insert draws a new UniqueId::now() each time *)
Definition ex_insts3 : list (Z * dinst) :=
  [ (2%Z, mkDI 3 (bstr "Part") (bstr "C") [(UNIQUE_ID, U 5)] []);
    (1%Z, mkDI 2 (bstr "Part") (bstr "B") [(UNIQUE_ID, U 5)] []);
    (0%Z, mkDI 1 (bstr "Part") (bstr "A") [(UNIQUE_ID, U 5)] []) ].
Example ex_two_collisions_share_the_fresh_id :
  out_uids (built (dinst_of ex_insts3) ex_p [ZNode 0 []; ZNode 1 []; ZNode 2 []])
  = [U 5; VUniqueId 9 9 9%Z; VUniqueId 9 9 9%Z].
Proof. vm_compute. reflexivity. Qed.
End BinFinishExamples.

(* ------------------------------------------------------------------------------------------ *)
Print Assumptions prnt_links_spec.
Print Assumptions prnt_links_unknown.
Print Assumptions prnt_links_never_panics.
Print Assumptions finish_forest.
Print Assumptions finish_reconstructs.
Print Assumptions bfs_all_roots_first.
Print Assumptions bfs_all_perm.
Print Assumptions bfs_all_parent.
Print Assumptions built_parent.
Print Assumptions prnt_then_finish.
Print Assumptions prnt_row_order_free.
Print Assumptions post_rows_describe.
Print Assumptions post_rows_then_finish.
Print Assumptions WriterRows.writer_rows_then_finish.
Print Assumptions uid_pass_kept.
Print Assumptions uid_pass_replaced.
Print Assumptions uid_state_nonfresh.
Print Assumptions uid_pass_no_collision.
Print Assumptions built_uids_unique_but_fresh.
Print Assumptions built_uids_unique.
Print Assumptions built_uids_preserved.
Print Assumptions decode_inst_labels.
Print Assumptions decoded_state_labels.
Print Assumptions labels_ok_hyp.
Print Assumptions decode_file_forest.

(* EXPORT:
   C01 (forest, reader side; with C01_add_instances_postorder this closes the PRNT round trip):
     prnt_links_spec, prnt_links_unknown, prnt_links_never_panics,
     finish_forest, finish_reconstructs (Definition reconstructs, built, bfs_all),
     bfs_all_roots_first, bfs_all_perm, bfs_all_parent, built_parent, built_children, built_roots, built_children_none,
     prnt_then_finish, post_rows_describe, post_rows_then_finish, WriterRows.writer_rows_then_finish,
     decode_inst_labels, decoded_state_labels, labels_ok_hyp, decode_file_forest
   C04 (parent-chunk ordering): prnt_then_finish, prnt_row_order_free
   C12 (file decoding): uid_pass_kept, uid_pass_replaced, uid_state_nonfresh, uid_pass_no_collision,
     built_uids_unique_but_fresh, built_uids_unique, built_uids_preserved,
     BinFinishExamples.ex_two_collisions_share_the_fresh_id (limitation of the single dp_fresh_uid)
   Examples: BinFinishExamples.* , WriterRows.ex_parents_ok *)
