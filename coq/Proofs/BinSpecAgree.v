(* BinSpecAgree.v — property C03: the independent document decoder (Spec/BinSpec.v, written from docs/binary.md) accepts every
   file the model of the REAL serializer (Model/BinFile.v, Model/BinValues.v) writes, and recovers the DOM that was written.

   Method: the serializer's bytes are shown to be *an instance of the document's own encoder* ([bs_enc_col], [bs_enc_item],
   [bspec_encode]) under the amended reading [bs_amended] with the CFrame rotation ids in use, applied to the spec-side object
   that describes the serializer's input ([spec_col] for a column, [spec_file] for the whole file).  Acceptance then follows
   from the document codec's round trip with itself (Proofs/BinSpecFacts.v); the DOM half is proved about [bspec_to_dom].

   D1  enc_col_spec (model column bytes = document encoder bytes), spec_reads_model_column (generic in the wire type),
       spec_reads_model_column_total (existence of the bytes included), spec_reads_model_column_<Type> for 31 value shapes,
       spec_reads_model_column_any_reading (27 wire types do not depend on the reading), spec_col_encodes / enc_col_described
   D2  spec_reads_model_{inst,prop,prnt,sstr,end}_chunk, spec_reads_model_chunks, model_chunks_are_spec_chunks
   D3  spec_accepts_model_file (None), spec_accepts_model_file_lz4 / _lz4_literal / _zstd / _gen (compressed, inflater law),
       spec_accepts_model_file_any_reading, model_file_is_spec_file (same bytes as bspec_encode), spec_file_wf (ranges),
       spec_recovers_model_dom + spec_recovers_child_lists + spec_row_values + col_values_pointwise + wdv_* (what bspec_to_dom
       yields: nodes, parent labels, child lists in DOM order, cells),
       spec_accepts_and_recovers (C03 in one statement)
   Recorded disagreements (section 8 and Examples): seccap_column_refuted / seccap_property_lost_refuted (type 0x21 is not in the
   document), literal_reading_*_refuted (UniqueId byte order and rotation, SharedString index byte order, Content source types),
   sstr_hash_field_is_zero, overlapping_roots_refuted, literal_reading_file_refuted; model artefacts: font_style_range_needed,
   float_range_needed. *)
From Coq Require Import List NArith ZArith Bool Lia Permutation.
From RbxVerif Require Import Base Bytes Value Lz4 BinSpec BaseFacts BytesFacts Lz4Facts BinSpecFacts.
From RbxVerif Require Import Db CodecDom BinValues BinFile BinFileFacts BinPostorder BinStructure.
From RbxVerif Require BinValuesFacts BinValuesFacts2 BinValuesFacts3 RotationFacts BinRoundTrip BinFraming.
Import ListNotations.
Open Scope N_scope.

Local Notation "x <~ p ;; k" := (pbind p (fun x => k)) (at level 61, p at next level, right associativity).

(* the reading of the document that matches the implementation, and the rotation-id choice the implementation makes *)
Definition rdA : bs_reading := bs_amended.

(* ================================================================ 0. the byte layer: model writers = document encoders *)
Lemma le_bytes_mod n : forall v, le_bytes n (v mod 2 ^ (8 * N.of_nat n)) = le_bytes n v.
Proof.
  induction n as [|k IH]; intros v; [reflexivity|].
  rewrite pow8_S. cbn [le_bytes].
  assert (HM : 2 ^ (8 * N.of_nat k) <> 0) by (apply N.pow_nonzero; lia).
  rewrite (N.mod_mul_r v 256 _ ltac:(lia) HM).
  set (X := (v / 256) mod 2 ^ (8 * N.of_nat k)).
  f_equal.
  - rewrite (N.mul_comm 256 X), N.mod_add by lia. apply N.mod_mod. lia.
  - rewrite (N.mul_comm 256 X), N.div_add by lia.
    rewrite (N.div_small (v mod 256) 256) by (apply N.mod_lt; lia). rewrite N.add_0_l. apply IH.
Qed.

Lemma w_le32_len32 {A} (l : list A) : w_le32 (len32 l) = e_len l.
Proof. unfold w_le32, len32, e_len. exact (le_bytes_mod 4 (N.of_nat (length l))). Qed.

Lemma w_bstr_e_string s : w_bstr s = e_string s.
Proof. unfold w_bstr, e_string. now rewrite w_le32_len32. Qed.

Lemma concat_map_fm {A} (f : A -> bytes) l : concat (List.map f l) = flat_map f l.
Proof. induction l as [|x l IH]; cbn [List.map concat flat_map]; [reflexivity|now rewrite IH]. Qed.

Lemma concat_map_single {A} (f : A -> N) l : concat (List.map (fun x => [f x]) l) = List.map f l.
Proof. induction l as [|x l IH]; cbn [List.map concat app]; [reflexivity|now rewrite IH]. Qed.

Lemma concat_map_wrap (l : list N) : concat (List.map (fun n => [n]) l) = l.
Proof. induction l as [|x l IH]; cbn [List.map concat app]; [reflexivity|now rewrite IH]. Qed.

Lemma flat_map_ext' {A B} (f g : A -> list B) l : (forall x, f x = g x) -> flat_map f l = flat_map g l.
Proof. intros H. induction l as [|x l IH]; cbn [flat_map]; [reflexivity|now rewrite H, IH]. Qed.

(* ================================================================ 1. D1: one PROP column *)
(* ---- 1a. the rotation tables of the document (Euler angles, computed) and of the implementation (24 match arms) agree *)
Definition opt_id_eqb (a : option N) (id : N) : bool := match a with Some x => N.eqb x id | None => false end.

Lemma rot_tables_agree_fwd : forall id b, from_basic_rotation_id id = Some b -> id_by_rot bs_rot_table b = Some id.
Proof.
  assert (T : forallb (fun id => match from_basic_rotation_id id with
                                 | Some b => opt_id_eqb (id_by_rot bs_rot_table b) id | None => false end)
                      rotation_ids = true) by (vm_compute; reflexivity).
  intros id b Hb. rewrite forallb_forall in T. specialize (T id (RotationFacts.from_id_some_in _ _ Hb)).
  rewrite Hb in T. destruct (id_by_rot bs_rot_table b) as [x|]; [|discriminate]. apply N.eqb_eq in T. now subst.
Qed.

Lemma rot_tables_agree_bwd : forall id m, rot_by_id bs_rot_table id = Some m -> from_basic_rotation_id id = Some m.
Proof.
  assert (T : forallb (fun e => match from_basic_rotation_id (fst e) with
                                | Some b => bs_mat3_eqb b (snd e) | None => false end) bs_rot_table = true)
    by (vm_compute; reflexivity).
  intros id m H.
  assert (Hin : In (id, m) bs_rot_table).
  { revert H. generalize bs_rot_table. induction l as [|[j mj] t IH]; cbn [rot_by_id]; [discriminate|].
    destruct (N.eqb j id) eqn:E; intros H.
    - apply N.eqb_eq in E. injection H as <-. subst. now left.
    - right. now apply IH. }
  rewrite forallb_forall in T. specialize (T _ Hin). cbn [fst snd] in T.
  destruct (from_basic_rotation_id id) as [b|]; [|discriminate]. apply mat3_eqb_eq in T. now subst.
Qed.

(* the byte the implementation writes for a rotation is the byte the document's encoder (with special ids) writes for the
   rotation the reader gets back *)
Lemma enc_rot_e_rot m : enc_rot m = e_rot true (BinValuesFacts3.norm_rot m).
Proof.
  unfold enc_rot, e_rot. destruct (to_basic_rotation_id m) as [id|] eqn:E.
  - pose proof (BinValuesFacts3.norm_rot_id _ _ E) as Hb. now rewrite (rot_tables_agree_fwd _ _ Hb).
  - rewrite (BinValuesFacts3.norm_rot_no_id _ E).
    destruct (id_by_rot bs_rot_table m) as [id|] eqn:Ei.
    + exfalso. apply (id_by_rot_sound _ _ _ rot_ids_nodup) in Ei. apply rot_tables_agree_bwd in Ei.
      destruct (RotationFacts.rotation_ids_roundtrip id (RotationFacts.from_id_some_in _ _ Ei)) as (b & Hb & Hid).
      rewrite Ei in Hb. injection Hb as <-. congruence.
    + unfold w_u8, w_f32, e_v3le, e_f32le. cbn [app]. now rewrite <- !app_assoc.
Qed.

(* ---- 1b. which document column describes the values the serializer puts in a column *)
Fixpoint omap {A} (f : value -> option A) (vs : list value) : option (list A) :=
  match vs with
  | [] => Some []
  | v :: r => match f v with
              | Some a => match omap f r with Some l => Some (a :: l) | None => None end
              | None => None
              end
  end.

Lemma omap_length {A} (f : value -> option A) : forall vs l, omap f vs = Some l -> length l = length vs.
Proof.
  induction vs as [|v r IH]; intros l; cbn [omap].
  - now intros [= <-].
  - destruct (f v); [|discriminate]. destruct (omap f r) as [l'|]; [|discriminate].
    intros [= <-]. cbn [length]. now rewrite (IH _ eq_refl).
Qed.

Lemma collect_omap {A B} (g : value -> res B) (f : value -> option A) (enc : A -> B) :
  (forall v b, g v = Ok b -> exists a, f v = Some a /\ b = enc a) ->
  forall vs l, collect g vs = Ok l -> exists xs, omap f vs = Some xs /\ l = List.map enc xs.
Proof.
  intros H. induction vs as [|v r IH]; intros l; cbn [collect omap].
  - intros [= <-]. exists []. auto.
  - destruct (g v) as [b| | |] eqn:E; cbn [rbind]; try discriminate.
    destruct (collect g r) as [l'| | |]; cbn [rbind]; try discriminate.
    intros [= <-]. destruct (H _ _ E) as (a & Ha & ->). destruct (IH _ eq_refl) as (xs & Hx & ->).
    rewrite Ha, Hx. exists (a :: xs). auto.
Qed.

Lemma rbind_collect_inv {B C} (g : value -> res B) vs (k : list B -> res C) r :
  (l <- collect g vs ;; k l) = Ok r -> exists l, collect g vs = Ok l /\ k l = Ok r.
Proof. destruct (collect g vs) as [l| | |]; cbn [rbind]; try discriminate. intros H. now exists l. Qed.

(* what each value contributes to the column of a given wire type (None: the serializer returns a type mismatch) *)
Definition x_string (v : value) : option bytes :=
  match v with
  | VString s | VContentId s | VBinaryString s => Some s
  | VTags ts => Some (tags_encode ts)
  | VAttributes m => match attr_encode m with Ok buf => Some buf | _ => None end
  | VMaterialColors m => Some (matcol_encode m)
  | _ => None
  end.
Definition x_bool (v : value) := match v with VBool b => Some b | _ => None end.
Definition x_int32 (v : value) := match v with VInt32 z => Some z | _ => None end.
Definition x_float32 (v : value) := match v with VFloat32 x => Some x | _ => None end.
Definition x_float64 (v : value) := match v with VFloat64 x => Some x | VFloat32 x => Some (f64_of_f32 x) | _ => None end.
Definition x_udim (v : value) := match v with VUDim u => Some u | _ => None end.
Definition x_udim2 (v : value) := match v with VUDim2 x y => Some (x, y) | _ => None end.
Definition x_ray (v : value) := match v with VRay o d => Some (o, d) | _ => None end.
Definition x_faces (v : value) := match v with VFaces b => Some b | _ => None end.
Definition x_axes (v : value) := match v with VAxes b => Some b | _ => None end.
Definition x_brick (v : value) := match v with VBrickColor n => Some n | VInt32 z => Some (wrap_u 32 z) | _ => None end.
Definition x_color3 (v : value) := match v with VColor3 r g b => Some (mkV3 r g b) | _ => None end.
Definition x_vector2 (v : value) := match v with VVector2 p => Some p | _ => None end.
Definition x_vector3 (v : value) := match v with VVector3 p => Some p | _ => None end.
Definition r_cframe (v : value) := match v with VCFrame cf => Some cf | _ => None end.
Definition x_cframe (v : value) := option_map BinValuesFacts3.norm_cframe (r_cframe v).
Definition x_enum (v : value) := match v with VEnum n => Some n | VEnumItem _ n => Some n | _ => None end.
Definition x_ref (c : enc_ctx) (v : value) := match v with VRef r => Some (ref_id c r) | _ => None end.
Definition x_v3i16 (v : value) := match v with VVector3int16 x y z => Some (x, y, z) | _ => None end.
Definition x_nseq (v : value) := match v with VNumberSequence kps => Some kps | _ => None end.
Definition cseq_kp (kp : f32 * (f32 * f32 * f32)) : f32 * vec3 * f32 :=
  (fst kp, mkV3 (fst (fst (snd kp))) (snd (fst (snd kp))) (snd (snd kp)), F32_ZERO).
Definition r_cseq (v : value) := match v with VColorSequence kps => Some kps | _ => None end.
Definition x_cseq (v : value) := option_map (List.map cseq_kp) (r_cseq v).
Definition x_nrange (v : value) := match v with VNumberRange lo hi => Some (lo, hi) | _ => None end.
Definition x_rect (v : value) := match v with VRect lo hi => Some (lo, hi) | _ => None end.
Definition x_phys (v : value) := match v with VPhysicalProperties p => Some p | _ => None end.
Definition x_c3u8 (c : enc_ctx) (v : value) :=
  match v with
  | VColor3uint8 r g b => Some (r, g, b)
  | VColor3 r g b => Some (ec_quant c r, ec_quant c g, ec_quant c b)
  | _ => None
  end.
Definition x_int64 (v : value) := match v with VInt64 z => Some z | VInt32 z => Some z | _ => None end.
Definition x_sstr (c : enc_ctx) (v : value) := match v with VSharedString s => ec_sstr c s | _ => None end.
(* a valueless OptionalCoordinateFrame is written as the identity CFrame at the origin with has-value = false *)
Definition ocf_cf (o : option cframe) : cframe :=
  match o with Some cf => cf | None => mkCF (mkV3 F32_ZERO F32_ZERO F32_ZERO) mat3_identity end.
Definition ocf_flag (o : option cframe) : bool := match o with Some _ => true | None => false end.
Definition r_ocf (v : value) := match v with VOptionalCFrame o => Some o | _ => None end.
Definition ocf_pair (o : option cframe) : cframe * bool := (BinValuesFacts3.norm_cframe (ocf_cf o), ocf_flag o).
Definition x_ocf (v : value) := option_map ocf_pair (r_ocf v).
Definition x_uid (v : value) := match v with VUniqueId i t r => Some (i, t, r) | _ => None end.
Definition r_font (v : value) := match v with VFont f => Some f | _ => None end.
Definition font_tuple (f : font) : bytes * N * N * bytes :=
  (fo_family f, fo_weight f, fo_style f, match fo_cached f with Some s => s | None => [] end).
Definition x_font (v : value) := option_map font_tuple (r_font v).
Definition content_bs (c : enc_ctx) (x : content) : bs_content :=
  match x with CNone => BCNone | CUri u => BCUri u | CObject r => BCObject (ref_id c r) end.
Definition r_content (v : value) := match v with VContent x => Some x | _ => None end.
Definition x_content (c : enc_ctx) (v : value) := option_map (content_bs c) (r_content v).

(* col_describes, as a function: the document-side column that describes the values [vs] written with wire type [ty].
   None: a value does not fit the wire type (the serializer fails), or the wire type is SecurityCapabilities (0x21), which
   the document does not define. *)
Definition spec_col (ty : wire_type) (c : enc_ctx) (vs : list value) : option bs_column :=
  match ty with
  | WString => option_map KString (omap x_string vs)
  | WBool => option_map KBool (omap x_bool vs)
  | WInt32 => option_map KInt32 (omap x_int32 vs)
  | WFloat32 => option_map KFloat32 (omap x_float32 vs)
  | WFloat64 => option_map KFloat64 (omap x_float64 vs)
  | WUDim => option_map KUDim (omap x_udim vs)
  | WUDim2 => option_map KUDim2 (omap x_udim2 vs)
  | WRay => option_map KRay (omap x_ray vs)
  | WFaces => option_map KFaces (omap x_faces vs)
  | WAxes => option_map KAxes (omap x_axes vs)
  | WBrickColor => option_map KBrickColor (omap x_brick vs)
  | WColor3 => option_map KColor3 (omap x_color3 vs)
  | WVector2 => option_map KVector2 (omap x_vector2 vs)
  | WVector3 => option_map KVector3 (omap x_vector3 vs)
  | WCFrame => option_map KCFrame (omap x_cframe vs)
  | WEnum => option_map KEnum (omap x_enum vs)
  | WRef => option_map KReferent (omap (x_ref c) vs)
  | WVector3int16 => option_map KVector3int16 (omap x_v3i16 vs)
  | WNumberSequence => option_map KNumberSequence (omap x_nseq vs)
  | WColorSequence => option_map KColorSequence (omap x_cseq vs)
  | WNumberRange => option_map KNumberRange (omap x_nrange vs)
  | WRect => option_map KRect (omap x_rect vs)
  | WPhysicalProperties => option_map KPhysicalProperties (omap x_phys vs)
  | WColor3uint8 => option_map KColor3uint8 (omap (x_c3u8 c) vs)
  | WInt64 => option_map KInt64 (omap x_int64 vs)
  | WSharedString => option_map KSharedString (omap (x_sstr c) vs)
  | WOptionalCFrame => option_map KOptionalCFrame (omap x_ocf vs)
  | WUniqueId => option_map KUniqueId (omap x_uid vs)
  | WFont => option_map KFont (omap x_font vs)
  | WSecurityCapabilities => None
  | WContent => option_map (fun l => KContent l []) (omap (x_content c) vs)
  end.

Lemma spec_col_type ty c vs col : spec_col ty c vs = Some col -> bs_col_type col = wire_id ty.
Proof.
  destruct ty; cbn [spec_col]; try discriminate;
    (match goal with |- option_map _ ?X = _ -> _ => destruct X; cbn [option_map]; [|discriminate] end);
    intros [= <-]; reflexivity.
Qed.

Lemma spec_col_len ty c vs col : spec_col ty c vs = Some col -> bs_col_len col = length vs.
Proof.
  destruct ty; cbn [spec_col]; try discriminate;
    (match goal with |- option_map _ ?X = _ -> _ => destruct X eqn:E; cbn [option_map]; [|discriminate] end);
    intros [= <-]; cbn [bs_col_len]; exact (omap_length _ _ _ E).
Qed.

(* ---- 1c. the serializer's column bytes are the document encoder's bytes for the describing column *)
Lemma Ok_inj {A} (a b : A) : Ok a = Ok b -> a = b.
Proof. now intros [= ->]. Qed.

Ltac pw :=
  let v := fresh "v" in let b := fresh "b" in
  intros v b; destruct v; cbv beta iota; unfold mismatch; try discriminate; intros [= <-]; eexists; split; reflexivity.

Ltac col_open H l Ec :=
  unfold enc_col; cbv beta iota; intros H; apply rbind_collect_inv in H; destruct H as (l & Ec & H); apply Ok_inj in H; match type of H with _ = ?bb => subst bb end.

Ltac col_close Hx := eexists; split; [cbn [spec_col]; rewrite Hx; reflexivity|].

(* from [Ec : collect g vs = Ok l] to the describing list [xs] with l = map enc xs; leaves the per-value obligation first *)
Ltac use_collect Ec f enc xs Hx :=
  match type of Ec with collect ?g ?vs = Ok ?l =>
    let HP := fresh "HP" in
    assert (HP : forall v b, g v = Ok b -> exists a, f v = Some a /\ b = enc a);
    [ | destruct (collect_omap g f enc HP vs l Ec) as (xs & Hx & ->); clear HP ]
  end.

Ltac use_collect_id Ec f xs Hx :=
  match type of Ec with collect ?g ?vs = Ok ?l =>
    let HP := fresh "HP" in
    assert (HP : forall v b, g v = Ok b -> exists a, f v = Some a /\ b = (fun z => z) a);
    [ | destruct (collect_omap g f _ HP vs l Ec) as (xs & Hx & ->); clear HP ]
  end.

Lemma map_map_fst3 (l : list vec3) :
  List.map (fun p : f32 * f32 * f32 => fst (fst p)) (List.map (fun v => (vx v, vy v, vz v)) l) = List.map vx l /\
  List.map (fun p : f32 * f32 * f32 => snd (fst p)) (List.map (fun v => (vx v, vy v, vz v)) l) = List.map vy l /\
  List.map (@snd (f32 * f32) f32) (List.map (fun v => (vx v, vy v, vz v)) l) = List.map vz l.
Proof. rewrite !map_map. repeat split; apply map_ext; reflexivity. Qed.

Lemma enc_col_spec_simple ty c vs b :
  In ty [WString; WBool; WInt32; WFloat32; WFloat64; WUDim; WUDim2; WRay; WFaces; WAxes; WBrickColor; WColor3; WVector2;
         WVector3; WEnum; WRef; WVector3int16; WNumberRange; WRect; WColor3uint8; WInt64; WSharedString; WUniqueId] ->
  enc_col ty c vs = Ok b ->
  exists col, spec_col ty c vs = Some col /\ b = bs_enc_col rdA true col.
Proof.
  intros Hty. cbn [In] in Hty.
  repeat (destruct Hty as [<-|Hty]); [..|contradiction].
  - (* String *) col_open H l Ec.
    use_collect Ec x_string w_bstr xs Hx; [intros v b; destruct v; cbv beta iota; unfold mismatch; try discriminate;
      try (intros [= <-]; eexists; split; reflexivity);
      cbn [x_string]; match goal with |- context [attr_encode ?m] => destruct (attr_encode m) as [buf| | |] end; try discriminate; intros [= <-]; eexists; split; reflexivity|].
    col_close Hx. cbn [bs_enc_col]. rewrite concat_map_fm. apply flat_map_ext'. exact w_bstr_e_string.
  - (* Bool *) col_open H l Ec.
    use_collect Ec x_bool w_bool xs Hx; [pw|].
    col_close Hx. cbn [bs_enc_col]. unfold w_bool. exact (concat_map_single e_bool xs).
  - (* Int32 *) col_open H l Ec.
    use_collect_id Ec x_int32 xs Hx; [pw|].
    col_close Hx. now rewrite map_id.
  - (* Float32 *) col_open H l Ec.
    use_collect_id Ec x_float32 xs Hx; [pw|].
    col_close Hx. now rewrite map_id.
  - (* Float64 *) col_open H l Ec.
    use_collect Ec x_float64 w_f64 xs Hx; [pw|].
    col_close Hx. cbn [bs_enc_col]. now rewrite concat_map_fm.
  - (* UDim *) col_open H l Ec.
    use_collect_id Ec x_udim xs Hx; [pw|].
    col_close Hx. now rewrite map_id.
  - (* UDim2 *) col_open H l Ec.
    use_collect_id Ec x_udim2 xs Hx; [pw|].
    col_close Hx. now rewrite map_id.
  - (* Ray *) col_open H l Ec.
    use_collect Ec x_ray (fun t : vec3 * vec3 => ray_bytes (fst t) (snd t)) xs Hx; [pw|].
    col_close Hx. cbn [bs_enc_col]. rewrite concat_map_fm. apply flat_map_ext'. intros [o d]. cbn [fst snd].
    unfold ray_bytes, e_v3le, w_f32, e_f32le. now rewrite <- !app_assoc.
  - (* Faces *) col_open H l Ec.
    use_collect Ec x_faces w_u8 xs Hx; [pw|].
    col_close Hx. cbn [bs_enc_col]. unfold w_u8. apply concat_map_wrap.
  - (* Axes *) col_open H l Ec.
    use_collect Ec x_axes w_u8 xs Hx; [pw|].
    col_close Hx. cbn [bs_enc_col]. unfold w_u8. apply concat_map_wrap.
  - (* BrickColor *) col_open H l Ec.
    use_collect_id Ec x_brick xs Hx; [pw|].
    col_close Hx. now rewrite map_id.
  - (* Color3 *) col_open H l Ec.
    use_collect Ec x_color3 (fun v => (vx v, vy v, vz v)) xs Hx; [pw|].
    col_close Hx. cbn [bs_enc_col]. unfold e_v3s.
    destruct (map_map_fst3 xs) as (-> & -> & E3). now rewrite E3.
  - (* Vector2 *) col_open H l Ec.
    use_collect_id Ec x_vector2 xs Hx; [pw|].
    col_close Hx. now rewrite map_id.
  - (* Vector3 *) col_open H l Ec.
    use_collect_id Ec x_vector3 xs Hx; [pw|].
    col_close Hx. now rewrite map_id.
  - (* Enum *) col_open H l Ec.
    use_collect_id Ec x_enum xs Hx; [pw|].
    col_close Hx. now rewrite map_id.
  - (* Ref *) col_open H l Ec.
    use_collect_id Ec (x_ref c) xs Hx; [pw|].
    col_close Hx. now rewrite map_id.
  - (* Vector3int16 *) col_open H l Ec.
    use_collect Ec x_v3i16 (fun t : Z * Z * Z => w_le_i16 (fst (fst t)) ++ w_le_i16 (snd (fst t)) ++ w_le_i16 (snd t)) xs Hx; [pw|].
    col_close Hx. cbn [bs_enc_col]. now rewrite concat_map_fm.
  - (* NumberRange *) col_open H l Ec.
    use_collect Ec x_nrange (fun t : f32 * f32 => w_f32 (fst t) ++ w_f32 (snd t)) xs Hx; [pw|].
    col_close Hx. cbn [bs_enc_col]. now rewrite concat_map_fm.
  - (* Rect *) col_open H l Ec.
    use_collect_id Ec x_rect xs Hx; [pw|].
    col_close Hx. rewrite map_id. cbn [bs_enc_col]. unfold e_v2s. rewrite !map_map. now rewrite <- !app_assoc.
  - (* Color3uint8 *) col_open H l Ec.
    use_collect_id Ec (x_c3u8 c) xs Hx; [pw|].
    col_close Hx. now rewrite map_id.
  - (* Int64 *) col_open H l Ec.
    use_collect_id Ec x_int64 xs Hx; [pw|].
    col_close Hx. now rewrite map_id.
  - (* SharedString *) col_open H l Ec.
    use_collect_id Ec (x_sstr c) xs Hx; [intros v b; destruct v; cbv beta iota; unfold mismatch; try discriminate;
      cbn [x_sstr]; match goal with |- context [ec_sstr c ?s] => destruct (ec_sstr c s) as [id|] end; try discriminate; intros [= <-]; eexists; split; reflexivity|].
    col_close Hx. now rewrite map_id.
  - (* UniqueId *) col_open H l Ec.
    use_collect Ec x_uid (e_uid rdA) xs Hx; [pw|].
    col_close Hx. reflexivity.
Qed.

Lemma omap_option_map {A B} (h : A -> B) (f : value -> option A) vs :
  omap (fun v => option_map h (f v)) vs = option_map (List.map h) (omap f vs).
Proof.
  induction vs as [|v r IH]; cbn [omap option_map List.map]; [reflexivity|].
  rewrite IH. destruct (f v); cbn [option_map]; [|reflexivity]. destruct (omap f r); reflexivity.
Qed.

Ltac col_close_raw X Hx :=
  eexists; split; [cbn [spec_col]; unfold X; rewrite omap_option_map, Hx; reflexivity|].

Lemma e_len_map {A B} (f : A -> B) l : e_len (List.map f l) = e_len l.
Proof. unfold e_len. now rewrite map_length. Qed.

Lemma content_uris_bs c cs :
  content_uris (List.map (content_bs c) cs) = flat_map (fun x => match x with CUri u => [u] | _ => [] end) cs.
Proof. induction cs as [|[|u|r] cs IH]; cbn [List.map content_bs content_uris flat_map app]; now rewrite ?IH. Qed.
Lemma content_objs_bs c cs :
  content_objs (List.map (content_bs c) cs) = flat_map (fun x => match x with CObject r => [ref_id c r] | _ => [] end) cs.
Proof. induction cs as [|[|u|r] cs IH]; cbn [List.map content_bs content_objs flat_map app]; now rewrite ?IH. Qed.

Lemma enc_col_spec_compound ty c vs b :
  In ty [WCFrame; WNumberSequence; WColorSequence; WPhysicalProperties; WOptionalCFrame; WContent] ->
  enc_col ty c vs = Ok b ->
  exists col, spec_col ty c vs = Some col /\ b = bs_enc_col rdA true col.
Proof.
  intros Hty. cbn [In] in Hty.
  repeat (destruct Hty as [<-|Hty]); [..|contradiction].
  - (* CFrame *) col_open H l Ec.
    use_collect_id Ec r_cframe xs Hx; [pw|]. rewrite map_id.
    col_close_raw x_cframe Hx. cbn [bs_enc_col]. unfold e_cframes, e_v3s. rewrite flat_map_map, !map_map.
    f_equal. apply flat_map_ext'. intros cf. apply enc_rot_e_rot.
  - (* NumberSequence *) col_open H l Ec.
    use_collect Ec x_nseq e_nseq xs Hx.
    { intros v b; destruct v; cbv beta iota; unfold mismatch; try discriminate; intros Hb; apply Ok_inj in Hb; subst b; eexists; split; [reflexivity|].
      unfold e_nseq. rewrite w_le32_len32. f_equal. apply flat_map_ext'. now intros [[t x] e]. }
    col_close Hx. cbn [bs_enc_col]. now rewrite concat_map_fm.
  - (* ColorSequence *) col_open H l Ec.
    use_collect Ec r_cseq (fun k => e_cseq (List.map cseq_kp k)) xs Hx.
    { intros v b; destruct v; cbv beta iota; unfold mismatch; try discriminate; intros Hb; apply Ok_inj in Hb; subst b; eexists; split; [reflexivity|].
      unfold e_cseq. rewrite w_le32_len32, e_len_map, flat_map_map. f_equal. apply flat_map_ext'. intros [t [[r g] bl]].
      unfold cseq_kp, e_v3le, w_f32, e_f32le. cbn [fst snd vx vy vz]. now rewrite <- !app_assoc. }
    col_close_raw x_cseq Hx. cbn [bs_enc_col]. now rewrite concat_map_fm, flat_map_map.
  - (* PhysicalProperties *) col_open H l Ec.
    use_collect Ec x_phys e_phys xs Hx.
    { intros v b; destruct v as [| | | | | | | | | | | | | | | | |p| | | | | | | | | | | | | | | | | | | | | |];
        cbv beta iota; unfold mismatch; try discriminate.
      destruct p as [q|]; intros Hb; apply Ok_inj in Hb; subst b; eexists; (split; [reflexivity|]); cbn [e_phys]; unfold w_u8, w_f32, e_f32le; [|reflexivity].
      cbn [app]. now rewrite <- ?app_assoc. }
    col_close Hx. cbn [bs_enc_col]. now rewrite concat_map_fm.
  - (* OptionalCFrame *) col_open H l Ec.
    use_collect_id Ec r_ocf xs Hx; [pw|]. rewrite map_id.
    col_close_raw x_ocf Hx. cbn [bs_enc_col]. unfold e_cframes, e_v3s, w_u8. rewrite !map_map, flat_map_map. cbn [app].
    f_equal. rewrite <- !app_assoc. f_equal.
    { apply flat_map_ext'. intros [cf|]; cbn [ocf_pair fst ocf_cf cf_rot BinValuesFacts3.norm_cframe]; apply enc_rot_e_rot. }
    f_equal. { f_equal. apply map_ext. now intros [cf|]. }
    f_equal. { f_equal. apply map_ext. now intros [cf|]. }
    f_equal. { f_equal. apply map_ext. now intros [cf|]. }
    cbn [app]. f_equal. apply map_ext. now intros [cf|].
  - (* Content *) col_open H l Ec.
    use_collect_id Ec r_content xs Hx; [pw|]. rewrite map_id.
    col_close_raw x_content Hx. cbn [bs_enc_col]. unfold e_content, e_ctypes. cbn [rdA bs_amended rd_content_types_i32].
    rewrite content_uris_bs, content_objs_bs, !w_le32_len32, !map_map.
    f_equal. { f_equal. apply map_ext. now intros [|u|r]. }
    rewrite (flat_map_ext' w_bstr e_string _ w_bstr_e_string). reflexivity.
Qed.

Lemma enc_col_spec_font c vs b :
  enc_col WFont c vs = Ok b ->
  exists col, spec_col WFont c vs = Some col /\ (bs_col_ok col = true -> b = bs_enc_col rdA true col).
Proof.
  col_open H l Ec.
  use_collect Ec r_font (fun f => w_bstr (fo_family f) ++ w_le16 (fo_weight f) ++ w_u8 (fo_style f) ++
                                  w_bstr (match fo_cached f with Some s => s | None => [] end)) xs Hx; [pw|].
  col_close_raw x_font Hx. cbn [bs_enc_col bs_col_ok]. intros Hok.
  rewrite concat_map_fm, flat_map_map. apply flat_map_ext_in'. intros f Hf.
  rewrite forallb_forall in Hok. specialize (Hok (font_tuple f) (in_map _ _ _ Hf)).
  unfold font_tuple in *. cbn beta iota in Hok. apply andb_true_iff in Hok. destruct Hok as [Hok _].
  apply andb_true_iff in Hok. destruct Hok as [_ Hst]. unfold byte_ok in Hst. apply N.ltb_lt in Hst.
  unfold e_font. rewrite !w_bstr_e_string. unfold w_le16, w_u8. cbn [le_bytes]. now rewrite (N.mod_small _ _ Hst).
Qed.

(* every column the serializer can write, except SecurityCapabilities (type id 0x21, which the document does not define):
   its bytes are the document encoder's bytes for [spec_col] (for Font: provided the style fits a byte, as every Rust u8 does) *)
Theorem enc_col_spec ty c vs b :
  enc_col ty c vs = Ok b -> ty <> WSecurityCapabilities ->
  exists col, spec_col ty c vs = Some col /\ (bs_col_ok col = true -> b = bs_enc_col rdA true col).
Proof.
  intros H Hne.
  assert (S : forall ty', ty' = ty ->
     In ty' [WString; WBool; WInt32; WFloat32; WFloat64; WUDim; WUDim2; WRay; WFaces; WAxes; WBrickColor; WColor3; WVector2;
            WVector3; WEnum; WRef; WVector3int16; WNumberRange; WRect; WColor3uint8; WInt64; WSharedString; WUniqueId] ->
     exists col, spec_col ty c vs = Some col /\ (bs_col_ok col = true -> b = bs_enc_col rdA true col)).
  { intros ty' -> Hin. destruct (enc_col_spec_simple ty c vs b Hin H) as (col & Hc & Hb). exists col. auto. }
  assert (C : forall ty', ty' = ty ->
     In ty' [WCFrame; WNumberSequence; WColorSequence; WPhysicalProperties; WOptionalCFrame; WContent] ->
     exists col, spec_col ty c vs = Some col /\ (bs_col_ok col = true -> b = bs_enc_col rdA true col)).
  { intros ty' -> Hin. destruct (enc_col_spec_compound ty c vs b Hin H) as (col & Hc & Hb). exists col. auto. }
  destruct ty;
    try (apply (S _ eq_refl); cbn [In]; repeat (first [left; reflexivity | right]); fail);
    try (apply (C _ eq_refl); cbn [In]; repeat (first [left; reflexivity | right]); fail).
  - now apply enc_col_spec_font.
  - now elim Hne.
Qed.

(* D1, generic in the wire type: the bytes the serializer model writes for the values [vs] of one property are read by the
   document's column decoder (amended reading) as the column [spec_col] describes, and exactly those bytes are consumed *)
Theorem spec_reads_model_column ty c vs b col rest :
  enc_col ty c vs = Ok b -> spec_col ty c vs = Some col -> bs_col_ok col = true ->
  bs_dec_col rdA (wire_id ty) (length vs) (b ++ rest) = Ok (col, rest).
Proof.
  intros H Hc Hok.
  assert (Hne : ty <> WSecurityCapabilities) by (intros ->; discriminate).
  destruct (enc_col_spec ty c vs b H Hne) as (col' & Hc' & Hb).
  rewrite Hc in Hc'. injection Hc' as <-. rewrite (Hb Hok).
  rewrite <- (spec_col_type _ _ _ _ Hc), <- (spec_col_len _ _ _ _ Hc). now apply bs_col_roundtrip.
Qed.

(* the serializer succeeds on a column only if the column has a description (SecurityCapabilities apart) *)
Corollary enc_col_described ty c vs b :
  enc_col ty c vs = Ok b -> ty <> WSecurityCapabilities -> exists col, spec_col ty c vs = Some col.
Proof. intros H Hne. destruct (enc_col_spec _ _ _ _ H Hne) as (col & Hc & _). now exists col. Qed.

Lemma omap_collect {A B} (g : value -> res B) (f : value -> option A) :
  (forall v a, f v = Some a -> exists b, g v = Ok b) ->
  forall vs xs, omap f vs = Some xs -> exists l, collect g vs = Ok l.
Proof.
  intros H. induction vs as [|v r IH]; intros xs; cbn [omap collect].
  - intros _. now exists [].
  - destruct (f v) as [a|] eqn:E; [|discriminate]. destruct (omap f r) as [l|] eqn:Er; [|discriminate]. intros _.
    destruct (H _ _ E) as (b & ->). destruct (IH _ eq_refl) as (l' & ->). cbn [rbind]. eauto.
Qed.

Ltac unfold_x :=
  unfold x_string, x_bool, x_int32, x_float32, x_float64, x_udim, x_udim2, x_ray, x_faces, x_axes, x_brick, x_color3,
         x_vector2, x_vector3, x_cframe, r_cframe, x_enum, x_ref, x_v3i16, x_nseq, x_cseq, r_cseq, x_nrange, x_rect, x_phys,
         x_c3u8, x_int64, x_sstr, x_ocf, r_ocf, x_uid, x_font, r_font, x_content, r_content, option_map, mismatch.

Ltac pwc :=
  let v := fresh "v" in let a := fresh "a" in
  intros v a; destruct v; unfold_x; cbv beta iota; try discriminate;
  try (match goal with |- context [attr_encode ?m] => destruct (attr_encode m) end; try discriminate);
  try (match goal with |- context [ec_sstr ?c ?s] => destruct (ec_sstr c s) end; try discriminate);
  intros _;
  try (match goal with |- context [match ?p with Some _ => _ | None => _ end] => destruct p end);
  eexists; reflexivity.

(* the converse of enc_col_described: a column that has a description is encoded *)
Theorem spec_col_encodes ty c vs col : spec_col ty c vs = Some col -> exists b, enc_col ty c vs = Ok b.
Proof.
  destruct ty; cbn [spec_col]; try discriminate;
    (match goal with |- option_map _ ?X = _ -> _ => destruct X as [xs|] eqn:E; cbn [option_map]; [|discriminate] end);
    intros _; unfold enc_col; cbv beta iota;
    (match goal with |- exists b, rbind (collect ?g ?vs) _ = Ok b =>
       let H := fresh "H" in
       assert (H : exists l, collect g vs = Ok l);
       [ eapply omap_collect; [|exact E]; pwc
       | destruct H as (l & ->); cbn [rbind]; eexists; reflexivity ]
     end).
Qed.

(* D1 in total form: every describable column within the document's ranges is written by the serializer model and read back by
   the document's column decoder as its description *)
Theorem spec_reads_model_column_total ty c vs col :
  spec_col ty c vs = Some col -> bs_col_ok col = true ->
  exists b, enc_col ty c vs = Ok b /\
            forall rest, bs_dec_col rdA (wire_id ty) (length vs) (b ++ rest) = Ok (col, rest).
Proof.
  intros Hc Hok. destruct (spec_col_encodes ty c vs col Hc) as (b & Hb). exists b. split; [exact Hb|].
  intros rest. exact (spec_reads_model_column ty c vs b col rest Hb Hc Hok).
Qed.

(* the readings matter only for SharedString, UniqueId and Content columns *)
Definition reading_free (k : bs_column) : Prop :=
  match k with KSharedString _ | KUniqueId _ | KContent _ _ => False | _ => True end.
Lemma bs_enc_col_reading rd rd' u k : reading_free k -> bs_enc_col rd u k = bs_enc_col rd' u k.
Proof. destruct k; cbn [reading_free]; intros H; try contradiction; reflexivity. Qed.

Theorem spec_reads_model_column_any_reading rd ty c vs b col rest :
  enc_col ty c vs = Ok b -> spec_col ty c vs = Some col -> bs_col_ok col = true ->
  ty <> WSharedString -> ty <> WUniqueId -> ty <> WContent ->
  bs_dec_col rd (wire_id ty) (length vs) (b ++ rest) = Ok (col, rest).
Proof.
  intros H Hc Hok H1 H2 H3.
  assert (Hne : ty <> WSecurityCapabilities) by (intros ->; discriminate).
  destruct (enc_col_spec ty c vs b H Hne) as (col' & Hc' & Hb).
  rewrite Hc in Hc'. injection Hc' as <-. rewrite (Hb Hok).
  assert (Hf : reading_free col).
  { pose proof (spec_col_type _ _ _ _ Hc) as Ht.
    destruct col; cbn [reading_free]; try exact I; exfalso; cbn [bs_col_type] in Ht.
    - apply H1. apply BinValuesFacts.wire_id_injective. exact (eq_sym Ht).
    - apply H2. apply BinValuesFacts.wire_id_injective. exact (eq_sym Ht).
    - apply H3. apply BinValuesFacts.wire_id_injective. exact (eq_sym Ht). }
  rewrite (bs_enc_col_reading rdA rd true col Hf).
  rewrite <- (spec_col_type _ _ _ _ Hc), <- (spec_col_len _ _ _ _ Hc). now apply bs_col_roundtrip.
Qed.

(* ---- 1d. D1 per wire type: the column of values of one shape.  [l] lists the payloads, the column is spelled out. *)
Lemma omap_map {A B} (f : value -> option B) (C : A -> value) (g : A -> B) l :
  (forall a, f (C a) = Some (g a)) -> omap f (List.map C l) = Some (List.map g l).
Proof.
  intros H. induction l as [|a l IH]; cbn [List.map omap]; [reflexivity|]. now rewrite H, IH.
Qed.

Corollary spec_reads_model_column_String c (l : list bytes) b rest :
  enc_col WString c (List.map VString l) = Ok b -> bs_col_ok (KString l) = true ->
  bs_dec_col rdA (wire_id WString) (length l) (b ++ rest) = Ok (KString l, rest).
Proof.
  intros H Hok. rewrite <- (map_length VString l).
  apply (spec_reads_model_column WString c _ b _ rest H); [|exact Hok].
  cbn [spec_col]. rewrite (omap_map x_string VString (fun x => x)) by (intros a; repeat match goal with x : (_ * _)%type |- _ => destruct x | x : vec3 |- _ => destruct x end; reflexivity). rewrite map_id. reflexivity.
Qed.

Corollary spec_reads_model_column_BinaryString c (l : list bytes) b rest :
  enc_col WString c (List.map VBinaryString l) = Ok b -> bs_col_ok (KString l) = true ->
  bs_dec_col rdA (wire_id WString) (length l) (b ++ rest) = Ok (KString l, rest).
Proof.
  intros H Hok. rewrite <- (map_length VBinaryString l).
  apply (spec_reads_model_column WString c _ b _ rest H); [|exact Hok].
  cbn [spec_col]. rewrite (omap_map x_string VBinaryString (fun x => x)) by (intros a; repeat match goal with x : (_ * _)%type |- _ => destruct x | x : vec3 |- _ => destruct x end; reflexivity). rewrite map_id. reflexivity.
Qed.

Corollary spec_reads_model_column_Bool c (l : list bool) b rest :
  enc_col WBool c (List.map VBool l) = Ok b -> bs_col_ok (KBool l) = true ->
  bs_dec_col rdA (wire_id WBool) (length l) (b ++ rest) = Ok (KBool l, rest).
Proof.
  intros H Hok. rewrite <- (map_length VBool l).
  apply (spec_reads_model_column WBool c _ b _ rest H); [|exact Hok].
  cbn [spec_col]. rewrite (omap_map x_bool VBool (fun x => x)) by (intros a; repeat match goal with x : (_ * _)%type |- _ => destruct x | x : vec3 |- _ => destruct x end; reflexivity). rewrite map_id. reflexivity.
Qed.

Corollary spec_reads_model_column_Int32 c (l : list Z) b rest :
  enc_col WInt32 c (List.map VInt32 l) = Ok b -> bs_col_ok (KInt32 l) = true ->
  bs_dec_col rdA (wire_id WInt32) (length l) (b ++ rest) = Ok (KInt32 l, rest).
Proof.
  intros H Hok. rewrite <- (map_length VInt32 l).
  apply (spec_reads_model_column WInt32 c _ b _ rest H); [|exact Hok].
  cbn [spec_col]. rewrite (omap_map x_int32 VInt32 (fun x => x)) by (intros a; repeat match goal with x : (_ * _)%type |- _ => destruct x | x : vec3 |- _ => destruct x end; reflexivity). rewrite map_id. reflexivity.
Qed.

Corollary spec_reads_model_column_Int64 c (l : list Z) b rest :
  enc_col WInt64 c (List.map VInt64 l) = Ok b -> bs_col_ok (KInt64 l) = true ->
  bs_dec_col rdA (wire_id WInt64) (length l) (b ++ rest) = Ok (KInt64 l, rest).
Proof.
  intros H Hok. rewrite <- (map_length VInt64 l).
  apply (spec_reads_model_column WInt64 c _ b _ rest H); [|exact Hok].
  cbn [spec_col]. rewrite (omap_map x_int64 VInt64 (fun x => x)) by (intros a; repeat match goal with x : (_ * _)%type |- _ => destruct x | x : vec3 |- _ => destruct x end; reflexivity). rewrite map_id. reflexivity.
Qed.

Corollary spec_reads_model_column_Float32 c (l : list f32) b rest :
  enc_col WFloat32 c (List.map VFloat32 l) = Ok b -> bs_col_ok (KFloat32 l) = true ->
  bs_dec_col rdA (wire_id WFloat32) (length l) (b ++ rest) = Ok (KFloat32 l, rest).
Proof.
  intros H Hok. rewrite <- (map_length VFloat32 l).
  apply (spec_reads_model_column WFloat32 c _ b _ rest H); [|exact Hok].
  cbn [spec_col]. rewrite (omap_map x_float32 VFloat32 (fun x => x)) by (intros a; repeat match goal with x : (_ * _)%type |- _ => destruct x | x : vec3 |- _ => destruct x end; reflexivity). rewrite map_id. reflexivity.
Qed.

Corollary spec_reads_model_column_Float64 c (l : list f64) b rest :
  enc_col WFloat64 c (List.map VFloat64 l) = Ok b -> bs_col_ok (KFloat64 l) = true ->
  bs_dec_col rdA (wire_id WFloat64) (length l) (b ++ rest) = Ok (KFloat64 l, rest).
Proof.
  intros H Hok. rewrite <- (map_length VFloat64 l).
  apply (spec_reads_model_column WFloat64 c _ b _ rest H); [|exact Hok].
  cbn [spec_col]. rewrite (omap_map x_float64 VFloat64 (fun x => x)) by (intros a; repeat match goal with x : (_ * _)%type |- _ => destruct x | x : vec3 |- _ => destruct x end; reflexivity). rewrite map_id. reflexivity.
Qed.

Corollary spec_reads_model_column_Enum c (l : list N) b rest :
  enc_col WEnum c (List.map VEnum l) = Ok b -> bs_col_ok (KEnum l) = true ->
  bs_dec_col rdA (wire_id WEnum) (length l) (b ++ rest) = Ok (KEnum l, rest).
Proof.
  intros H Hok. rewrite <- (map_length VEnum l).
  apply (spec_reads_model_column WEnum c _ b _ rest H); [|exact Hok].
  cbn [spec_col]. rewrite (omap_map x_enum VEnum (fun x => x)) by (intros a; repeat match goal with x : (_ * _)%type |- _ => destruct x | x : vec3 |- _ => destruct x end; reflexivity). rewrite map_id. reflexivity.
Qed.

Corollary spec_reads_model_column_Vector3 c (l : list vec3) b rest :
  enc_col WVector3 c (List.map VVector3 l) = Ok b -> bs_col_ok (KVector3 l) = true ->
  bs_dec_col rdA (wire_id WVector3) (length l) (b ++ rest) = Ok (KVector3 l, rest).
Proof.
  intros H Hok. rewrite <- (map_length VVector3 l).
  apply (spec_reads_model_column WVector3 c _ b _ rest H); [|exact Hok].
  cbn [spec_col]. rewrite (omap_map x_vector3 VVector3 (fun x => x)) by (intros a; repeat match goal with x : (_ * _)%type |- _ => destruct x | x : vec3 |- _ => destruct x end; reflexivity). rewrite map_id. reflexivity.
Qed.

Corollary spec_reads_model_column_Vector2 c (l : list vec2) b rest :
  enc_col WVector2 c (List.map VVector2 l) = Ok b -> bs_col_ok (KVector2 l) = true ->
  bs_dec_col rdA (wire_id WVector2) (length l) (b ++ rest) = Ok (KVector2 l, rest).
Proof.
  intros H Hok. rewrite <- (map_length VVector2 l).
  apply (spec_reads_model_column WVector2 c _ b _ rest H); [|exact Hok].
  cbn [spec_col]. rewrite (omap_map x_vector2 VVector2 (fun x => x)) by (intros a; repeat match goal with x : (_ * _)%type |- _ => destruct x | x : vec3 |- _ => destruct x end; reflexivity). rewrite map_id. reflexivity.
Qed.

Corollary spec_reads_model_column_Color3 c (l : list vec3) b rest :
  enc_col WColor3 c (List.map (fun v => VColor3 (vx v) (vy v) (vz v)) l) = Ok b -> bs_col_ok (KColor3 l) = true ->
  bs_dec_col rdA (wire_id WColor3) (length l) (b ++ rest) = Ok (KColor3 l, rest).
Proof.
  intros H Hok. rewrite <- (map_length (fun v => VColor3 (vx v) (vy v) (vz v)) l).
  apply (spec_reads_model_column WColor3 c _ b _ rest H); [|exact Hok].
  cbn [spec_col]. rewrite (omap_map x_color3 (fun v => VColor3 (vx v) (vy v) (vz v)) (fun x => x)) by (intros a; repeat match goal with x : (_ * _)%type |- _ => destruct x | x : vec3 |- _ => destruct x end; reflexivity). rewrite map_id. reflexivity.
Qed.

Corollary spec_reads_model_column_UDim c (l : list udim) b rest :
  enc_col WUDim c (List.map VUDim l) = Ok b -> bs_col_ok (KUDim l) = true ->
  bs_dec_col rdA (wire_id WUDim) (length l) (b ++ rest) = Ok (KUDim l, rest).
Proof.
  intros H Hok. rewrite <- (map_length VUDim l).
  apply (spec_reads_model_column WUDim c _ b _ rest H); [|exact Hok].
  cbn [spec_col]. rewrite (omap_map x_udim VUDim (fun x => x)) by (intros a; repeat match goal with x : (_ * _)%type |- _ => destruct x | x : vec3 |- _ => destruct x end; reflexivity). rewrite map_id. reflexivity.
Qed.

Corollary spec_reads_model_column_UDim2 c (l : list (udim * udim)) b rest :
  enc_col WUDim2 c (List.map (fun t => VUDim2 (fst t) (snd t)) l) = Ok b -> bs_col_ok (KUDim2 l) = true ->
  bs_dec_col rdA (wire_id WUDim2) (length l) (b ++ rest) = Ok (KUDim2 l, rest).
Proof.
  intros H Hok. rewrite <- (map_length (fun t => VUDim2 (fst t) (snd t)) l).
  apply (spec_reads_model_column WUDim2 c _ b _ rest H); [|exact Hok].
  cbn [spec_col]. rewrite (omap_map x_udim2 (fun t => VUDim2 (fst t) (snd t)) (fun x => x)) by (intros a; repeat match goal with x : (_ * _)%type |- _ => destruct x | x : vec3 |- _ => destruct x end; reflexivity). rewrite map_id. reflexivity.
Qed.

Corollary spec_reads_model_column_Rect c (l : list (vec2 * vec2)) b rest :
  enc_col WRect c (List.map (fun t => VRect (fst t) (snd t)) l) = Ok b -> bs_col_ok (KRect l) = true ->
  bs_dec_col rdA (wire_id WRect) (length l) (b ++ rest) = Ok (KRect l, rest).
Proof.
  intros H Hok. rewrite <- (map_length (fun t => VRect (fst t) (snd t)) l).
  apply (spec_reads_model_column WRect c _ b _ rest H); [|exact Hok].
  cbn [spec_col]. rewrite (omap_map x_rect (fun t => VRect (fst t) (snd t)) (fun x => x)) by (intros a; repeat match goal with x : (_ * _)%type |- _ => destruct x | x : vec3 |- _ => destruct x end; reflexivity). rewrite map_id. reflexivity.
Qed.

Corollary spec_reads_model_column_BrickColor c (l : list N) b rest :
  enc_col WBrickColor c (List.map VBrickColor l) = Ok b -> bs_col_ok (KBrickColor l) = true ->
  bs_dec_col rdA (wire_id WBrickColor) (length l) (b ++ rest) = Ok (KBrickColor l, rest).
Proof.
  intros H Hok. rewrite <- (map_length VBrickColor l).
  apply (spec_reads_model_column WBrickColor c _ b _ rest H); [|exact Hok].
  cbn [spec_col]. rewrite (omap_map x_brick VBrickColor (fun x => x)) by (intros a; repeat match goal with x : (_ * _)%type |- _ => destruct x | x : vec3 |- _ => destruct x end; reflexivity). rewrite map_id. reflexivity.
Qed.

Corollary spec_reads_model_column_Color3uint8 c (l : list (N * N * N)) b rest :
  enc_col WColor3uint8 c (List.map (fun t => VColor3uint8 (fst (fst t)) (snd (fst t)) (snd t)) l) = Ok b -> bs_col_ok (KColor3uint8 l) = true ->
  bs_dec_col rdA (wire_id WColor3uint8) (length l) (b ++ rest) = Ok (KColor3uint8 l, rest).
Proof.
  intros H Hok. rewrite <- (map_length (fun t => VColor3uint8 (fst (fst t)) (snd (fst t)) (snd t)) l).
  apply (spec_reads_model_column WColor3uint8 c _ b _ rest H); [|exact Hok].
  cbn [spec_col]. rewrite (omap_map (x_c3u8 c) (fun t => VColor3uint8 (fst (fst t)) (snd (fst t)) (snd t)) (fun x => x)) by (intros a; repeat match goal with x : (_ * _)%type |- _ => destruct x | x : vec3 |- _ => destruct x end; reflexivity). rewrite map_id. reflexivity.
Qed.

Corollary spec_reads_model_column_Vector3int16 c (l : list (Z * Z * Z)) b rest :
  enc_col WVector3int16 c (List.map (fun t => VVector3int16 (fst (fst t)) (snd (fst t)) (snd t)) l) = Ok b -> bs_col_ok (KVector3int16 l) = true ->
  bs_dec_col rdA (wire_id WVector3int16) (length l) (b ++ rest) = Ok (KVector3int16 l, rest).
Proof.
  intros H Hok. rewrite <- (map_length (fun t => VVector3int16 (fst (fst t)) (snd (fst t)) (snd t)) l).
  apply (spec_reads_model_column WVector3int16 c _ b _ rest H); [|exact Hok].
  cbn [spec_col]. rewrite (omap_map x_v3i16 (fun t => VVector3int16 (fst (fst t)) (snd (fst t)) (snd t)) (fun x => x)) by (intros a; repeat match goal with x : (_ * _)%type |- _ => destruct x | x : vec3 |- _ => destruct x end; reflexivity). rewrite map_id. reflexivity.
Qed.

Corollary spec_reads_model_column_NumberRange c (l : list (f32 * f32)) b rest :
  enc_col WNumberRange c (List.map (fun t => VNumberRange (fst t) (snd t)) l) = Ok b -> bs_col_ok (KNumberRange l) = true ->
  bs_dec_col rdA (wire_id WNumberRange) (length l) (b ++ rest) = Ok (KNumberRange l, rest).
Proof.
  intros H Hok. rewrite <- (map_length (fun t => VNumberRange (fst t) (snd t)) l).
  apply (spec_reads_model_column WNumberRange c _ b _ rest H); [|exact Hok].
  cbn [spec_col]. rewrite (omap_map x_nrange (fun t => VNumberRange (fst t) (snd t)) (fun x => x)) by (intros a; repeat match goal with x : (_ * _)%type |- _ => destruct x | x : vec3 |- _ => destruct x end; reflexivity). rewrite map_id. reflexivity.
Qed.

Corollary spec_reads_model_column_Ref c (l : list N) b rest :
  enc_col WRef c (List.map VRef l) = Ok b -> bs_col_ok (KReferent (List.map (ref_id c) l)) = true ->
  bs_dec_col rdA (wire_id WRef) (length l) (b ++ rest) = Ok (KReferent (List.map (ref_id c) l), rest).
Proof.
  intros H Hok. rewrite <- (map_length VRef l).
  apply (spec_reads_model_column WRef c _ b _ rest H); [|exact Hok].
  cbn [spec_col]. rewrite (omap_map (x_ref c) VRef (ref_id c)) by (intros a; repeat match goal with x : (_ * _)%type |- _ => destruct x | x : vec3 |- _ => destruct x end; reflexivity). reflexivity.
Qed.

Corollary spec_reads_model_column_Ray c (l : list (vec3 * vec3)) b rest :
  enc_col WRay c (List.map (fun t => VRay (fst t) (snd t)) l) = Ok b -> bs_col_ok (KRay l) = true ->
  bs_dec_col rdA (wire_id WRay) (length l) (b ++ rest) = Ok (KRay l, rest).
Proof.
  intros H Hok. rewrite <- (map_length (fun t => VRay (fst t) (snd t)) l).
  apply (spec_reads_model_column WRay c _ b _ rest H); [|exact Hok].
  cbn [spec_col]. rewrite (omap_map x_ray (fun t => VRay (fst t) (snd t)) (fun x => x)) by (intros a; repeat match goal with x : (_ * _)%type |- _ => destruct x | x : vec3 |- _ => destruct x end; reflexivity). rewrite map_id. reflexivity.
Qed.

Corollary spec_reads_model_column_Faces c (l : list N) b rest :
  enc_col WFaces c (List.map VFaces l) = Ok b -> bs_col_ok (KFaces l) = true ->
  bs_dec_col rdA (wire_id WFaces) (length l) (b ++ rest) = Ok (KFaces l, rest).
Proof.
  intros H Hok. rewrite <- (map_length VFaces l).
  apply (spec_reads_model_column WFaces c _ b _ rest H); [|exact Hok].
  cbn [spec_col]. rewrite (omap_map x_faces VFaces (fun x => x)) by (intros a; repeat match goal with x : (_ * _)%type |- _ => destruct x | x : vec3 |- _ => destruct x end; reflexivity). rewrite map_id. reflexivity.
Qed.

Corollary spec_reads_model_column_Axes c (l : list N) b rest :
  enc_col WAxes c (List.map VAxes l) = Ok b -> bs_col_ok (KAxes l) = true ->
  bs_dec_col rdA (wire_id WAxes) (length l) (b ++ rest) = Ok (KAxes l, rest).
Proof.
  intros H Hok. rewrite <- (map_length VAxes l).
  apply (spec_reads_model_column WAxes c _ b _ rest H); [|exact Hok].
  cbn [spec_col]. rewrite (omap_map x_axes VAxes (fun x => x)) by (intros a; repeat match goal with x : (_ * _)%type |- _ => destruct x | x : vec3 |- _ => destruct x end; reflexivity). rewrite map_id. reflexivity.
Qed.

Corollary spec_reads_model_column_CFrame c (l : list cframe) b rest :
  enc_col WCFrame c (List.map VCFrame l) = Ok b -> bs_col_ok (KCFrame (List.map BinValuesFacts3.norm_cframe l)) = true ->
  bs_dec_col rdA (wire_id WCFrame) (length l) (b ++ rest) = Ok (KCFrame (List.map BinValuesFacts3.norm_cframe l), rest).
Proof.
  intros H Hok. rewrite <- (map_length VCFrame l).
  apply (spec_reads_model_column WCFrame c _ b _ rest H); [|exact Hok].
  cbn [spec_col]. rewrite (omap_map x_cframe VCFrame BinValuesFacts3.norm_cframe) by (intros a; repeat match goal with x : (_ * _)%type |- _ => destruct x | x : vec3 |- _ => destruct x end; reflexivity). reflexivity.
Qed.

Corollary spec_reads_model_column_NumberSequence c (l : list (list (f32 * f32 * f32))) b rest :
  enc_col WNumberSequence c (List.map VNumberSequence l) = Ok b -> bs_col_ok (KNumberSequence l) = true ->
  bs_dec_col rdA (wire_id WNumberSequence) (length l) (b ++ rest) = Ok (KNumberSequence l, rest).
Proof.
  intros H Hok. rewrite <- (map_length VNumberSequence l).
  apply (spec_reads_model_column WNumberSequence c _ b _ rest H); [|exact Hok].
  cbn [spec_col]. rewrite (omap_map x_nseq VNumberSequence (fun x => x)) by (intros a; repeat match goal with x : (_ * _)%type |- _ => destruct x | x : vec3 |- _ => destruct x end; reflexivity). rewrite map_id. reflexivity.
Qed.

Corollary spec_reads_model_column_ColorSequence c (l : list (list (f32 * (f32 * f32 * f32)))) b rest :
  enc_col WColorSequence c (List.map VColorSequence l) = Ok b -> bs_col_ok (KColorSequence (List.map (List.map cseq_kp) l)) = true ->
  bs_dec_col rdA (wire_id WColorSequence) (length l) (b ++ rest) = Ok (KColorSequence (List.map (List.map cseq_kp) l), rest).
Proof.
  intros H Hok. rewrite <- (map_length VColorSequence l).
  apply (spec_reads_model_column WColorSequence c _ b _ rest H); [|exact Hok].
  cbn [spec_col]. rewrite (omap_map x_cseq VColorSequence (List.map cseq_kp)) by (intros a; repeat match goal with x : (_ * _)%type |- _ => destruct x | x : vec3 |- _ => destruct x end; reflexivity). reflexivity.
Qed.

Corollary spec_reads_model_column_PhysicalProperties c (l : list (option physprops)) b rest :
  enc_col WPhysicalProperties c (List.map VPhysicalProperties l) = Ok b -> bs_col_ok (KPhysicalProperties l) = true ->
  bs_dec_col rdA (wire_id WPhysicalProperties) (length l) (b ++ rest) = Ok (KPhysicalProperties l, rest).
Proof.
  intros H Hok. rewrite <- (map_length VPhysicalProperties l).
  apply (spec_reads_model_column WPhysicalProperties c _ b _ rest H); [|exact Hok].
  cbn [spec_col]. rewrite (omap_map x_phys VPhysicalProperties (fun x => x)) by (intros a; repeat match goal with x : (_ * _)%type |- _ => destruct x | x : vec3 |- _ => destruct x end; reflexivity). rewrite map_id. reflexivity.
Qed.

Corollary spec_reads_model_column_OptionalCFrame c (l : list (option cframe)) b rest :
  enc_col WOptionalCFrame c (List.map VOptionalCFrame l) = Ok b -> bs_col_ok (KOptionalCFrame (List.map ocf_pair l)) = true ->
  bs_dec_col rdA (wire_id WOptionalCFrame) (length l) (b ++ rest) = Ok (KOptionalCFrame (List.map ocf_pair l), rest).
Proof.
  intros H Hok. rewrite <- (map_length VOptionalCFrame l).
  apply (spec_reads_model_column WOptionalCFrame c _ b _ rest H); [|exact Hok].
  cbn [spec_col]. rewrite (omap_map x_ocf VOptionalCFrame ocf_pair) by (intros a; repeat match goal with x : (_ * _)%type |- _ => destruct x | x : vec3 |- _ => destruct x end; reflexivity). reflexivity.
Qed.

Corollary spec_reads_model_column_UniqueId c (l : list (N * N * Z)) b rest :
  enc_col WUniqueId c (List.map (fun t => VUniqueId (fst (fst t)) (snd (fst t)) (snd t)) l) = Ok b -> bs_col_ok (KUniqueId l) = true ->
  bs_dec_col rdA (wire_id WUniqueId) (length l) (b ++ rest) = Ok (KUniqueId l, rest).
Proof.
  intros H Hok. rewrite <- (map_length (fun t => VUniqueId (fst (fst t)) (snd (fst t)) (snd t)) l).
  apply (spec_reads_model_column WUniqueId c _ b _ rest H); [|exact Hok].
  cbn [spec_col]. rewrite (omap_map x_uid (fun t => VUniqueId (fst (fst t)) (snd (fst t)) (snd t)) (fun x => x)) by (intros a; repeat match goal with x : (_ * _)%type |- _ => destruct x | x : vec3 |- _ => destruct x end; reflexivity). rewrite map_id. reflexivity.
Qed.

Corollary spec_reads_model_column_Font c (l : list font) b rest :
  enc_col WFont c (List.map VFont l) = Ok b -> bs_col_ok (KFont (List.map font_tuple l)) = true ->
  bs_dec_col rdA (wire_id WFont) (length l) (b ++ rest) = Ok (KFont (List.map font_tuple l), rest).
Proof.
  intros H Hok. rewrite <- (map_length VFont l).
  apply (spec_reads_model_column WFont c _ b _ rest H); [|exact Hok].
  cbn [spec_col]. rewrite (omap_map x_font VFont font_tuple) by (intros a; repeat match goal with x : (_ * _)%type |- _ => destruct x | x : vec3 |- _ => destruct x end; reflexivity). reflexivity.
Qed.

Corollary spec_reads_model_column_Content c (l : list content) b rest :
  enc_col WContent c (List.map VContent l) = Ok b -> bs_col_ok (KContent (List.map (content_bs c) l) []) = true ->
  bs_dec_col rdA (wire_id WContent) (length l) (b ++ rest) = Ok (KContent (List.map (content_bs c) l) [], rest).
Proof.
  intros H Hok. rewrite <- (map_length VContent l).
  apply (spec_reads_model_column WContent c _ b _ rest H); [|exact Hok].
  cbn [spec_col]. rewrite (omap_map (x_content c) VContent (content_bs c)) by (intros a; repeat match goal with x : (_ * _)%type |- _ => destruct x | x : vec3 |- _ => destruct x end; reflexivity). reflexivity.
Qed.

(* SharedString: the indices are the positions the serializer's table assigns *)
Corollary spec_reads_model_column_SharedString c (l : list bytes) (ids : list N) b rest :
  Forall2 (fun s i => ec_sstr c s = Some i) l ids ->
  enc_col WSharedString c (List.map VSharedString l) = Ok b -> bs_col_ok (KSharedString ids) = true ->
  bs_dec_col rdA (wire_id WSharedString) (length l) (b ++ rest) = Ok (KSharedString ids, rest).
Proof.
  intros HF H Hok. rewrite <- (map_length VSharedString l).
  apply (spec_reads_model_column WSharedString c _ b _ rest H); [|exact Hok].
  cbn [spec_col]. replace (omap (x_sstr c) (List.map VSharedString l)) with (Some ids); [reflexivity|].
  symmetry. clear - HF. induction HF as [|s i l' ids' Hs HF IH]; cbn [List.map omap x_sstr]; [reflexivity|]. now rewrite Hs, IH.
Qed.

(* ================================================================ 2. D2: the logical file that describes the serializer state *)
Import BinRoundTrip.   (* fz, pz, column, cols, col_values, src *)

Definition zeros16 : bytes := [0;0;0;0;0;0;0;0;0;0;0;0;0;0;0;0].

(* SSTR: the serializer writes sixteen zero bytes in the MD5 field (recorded difference: the document calls it "MD5 Hash") *)
Definition spec_sstr (st : ser_state) : option (list (bytes * bytes)) :=
  match ss_sstr st with [] => None | l => Some (List.map (fun s => (zeros16, s)) l) end.
(* INST: class id, name, service flag, the referents of the instances (their positions in relevant_instances) *)
Definition spec_class (st : ser_state) (ct : bytes * type_info) : bs_class :=
  mkClass (ti_id (snd ct)) (fst ct) (ti_service (snd ct)) (List.map (fz st) (ti_instances (snd ct)))
          (if ti_service (snd ct) then List.map (fun _ => 1) (ti_instances (snd ct)) else []).
(* PROP: the described column; a SecurityCapabilities column (0x21) is carried as an undefined type id *)
Definition seccap_payloads (vs : list value) : list Z :=
  flat_map (fun v => match v with VSecurityCapabilities bits => [wrap_s 64 bits] | _ => [] end) vs.
Definition spec_body (ep : enc_params) (dom : cdom) (st : ser_state) (x : column) : bs_body :=
  match spec_col (pi_type (snd (snd x))) (enc_ctx_of ep st) (col_values ep dom x) with
  | Some k => BValues k
  | None => BUnknown (wire_id (pi_type (snd (snd x)))) (enc_i64_array (seccap_payloads (col_values ep dom x)))
  end.

Lemma seccap_bytes c vs b : enc_col WSecurityCapabilities c vs = Ok b -> b = enc_i64_array (seccap_payloads vs).
Proof.
  unfold enc_col. intros H. apply rbind_collect_inv in H. destruct H as (l & Ec & H). apply Ok_inj in H. subst b. f_equal.
  revert l Ec. induction vs as [|v r IH]; intros l; cbn [collect].
  - now intros [= <-].
  - destruct v; unfold mismatch; cbn [rbind]; try discriminate.
    destruct (collect _ r) as [l'| | |] eqn:E; cbn [rbind]; try discriminate.
    intros [= <-]. cbn [seccap_payloads flat_map app]. f_equal. now apply IH.
Qed.
Definition spec_prop (ep : enc_params) (dom : cdom) (st : ser_state) (x : column) : bs_prop :=
  mkProp (ti_id (snd (fst x))) (pi_ser_name (snd (snd x))) (spec_body ep dom st x).
(* PRNT: (referent, parent referent) of every written instance, in the order of relevant_instances *)
Definition spec_prnt (dom : cdom) (st : ser_state) : list (Z * Z) :=
  List.map (fun r => (fz st r, pz dom st r)) (ss_relevant st).

(* [describes]: the logical file of the document that describes the serializer's state for the DOM *)
Definition spec_file (ep : enc_params) (dom : cdom) (st : ser_state) : bs_file :=
  mkFile None (spec_sstr st) (List.map (spec_class st) (ss_types st))
         (List.map (spec_prop ep dom st) (cols (ss_types st))) (spec_prnt dom st) [].

(* the choices the serializer makes among the freedoms the document leaves: the order of "File Structure", rotation ids *)
Definition model_choices (comp : list bool) (f : bs_file) : bs_choices := mkChoices (bs_canonical_order f) comp true.

Lemma names_agree :
  CH_SSTR = NAME_SSTR /\ CH_INST = NAME_INST /\ CH_PROP = NAME_PROP /\ CH_PRNT = NAME_PRNT /\ CH_END = NAME_END /\
  FILE_FOOTER = END_MAGIC /\ FILE_MAGIC_HEADER = BS_FILE_MAGIC /\ FILE_SIGNATURE = BS_FILE_SIGNATURE.
Proof. repeat split; reflexivity. Qed.

Lemma map_res_map {A B} (f : A -> res B) (g : A -> B) : forall l l',
  map_res f l = Ok l' -> (forall x y, In x l -> f x = Ok y -> y = g x) -> l' = List.map g l.
Proof.
  induction l as [|x l IH]; intros l'; cbn [map_res].
  - now intros [= <-] _.
  - destruct (f x) as [y| | |] eqn:E; cbn [rbind]; try discriminate.
    destruct (map_res f l) as [r| | |]; cbn [rbind]; try discriminate.
    intros [= <-] H. cbn [List.map]. f_equal; [apply H; [now left|exact E]|].
    apply IH; [reflexivity|]. intros x' y' Hx. apply H. now right.
Qed.

Lemma map_res_to_ref st l ids : map_res (to_ref (enc_refs st)) l = Ok ids -> ids = List.map (fz st) l.
Proof.
  intros H. apply (map_res_map _ _ _ _ H). intros r z _. unfold to_ref, fz.
  destruct (lookup r (enc_refs st)); [now intros [= <-]|discriminate].
Qed.

(* ---- SSTR *)
Lemma sstr_chunks_items ep dom st :
  sstr_chunks st = List.map (bs_enc_item rdA true) (sstr_items (spec_file ep dom st)).
Proof.
  unfold sstr_chunks, sstr_items, spec_file, spec_sstr. cbn [bf_sstr].
  destruct (ss_sstr st) as [|s l]; [reflexivity|]. set (ss := s :: l). cbn [List.map bs_enc_item]. f_equal. f_equal.
  unfold sstr_payload, e_u32. rewrite w_le32_len32, e_len_map, flat_map_map. f_equal. f_equal.
  apply flat_map_ext'. intros x. unfold e_sstr_entry. cbn [fst snd]. now rewrite w_bstr_e_string.
Qed.

(* ---- INST *)
Lemma inst_chunk_item st ct ch :
  inst_chunk (enc_refs st) ct = Ok ch -> ch = bs_enc_item rdA true (IInst (spec_class st ct)).
Proof.
  intros H. apply inst_chunk_inv in H. destruct H as (ids & Hids & ->). apply map_res_to_ref in Hids. subst ids.
  destruct ct as [cname ti]. unfold inst_payload, spec_class. cbn [fst snd bs_enc_item cls_id cls_name cls_service cls_refs cls_markers].
  f_equal. unfold e_u32. rewrite w_bstr_e_string, w_le32_len32, e_len_map. unfold w_bool, e_bool.
  now destruct (ti_service ti).
Qed.

Lemma inst_chunks_items ep dom st insts :
  map_res (inst_chunk (enc_refs st)) (ss_types st) = Ok insts ->
  insts = List.map (bs_enc_item rdA true) (List.map IInst (bf_classes (spec_file ep dom st))).
Proof.
  intros H. cbn [spec_file bf_classes]. rewrite !map_map.
  apply (map_res_map _ _ _ _ H). intros ct ch _. apply inst_chunk_item.
Qed.

(* ---- PROP *)
Lemma wire_type_eq_dec_seccap (ty : wire_type) : {ty = WSecurityCapabilities} + {ty <> WSecurityCapabilities}.
Proof. destruct ty; (now left) || (right; discriminate). Qed.

Lemma prop_chunk_item ep dom st (x : column) ch :
  prop_chunk ep dom (enc_ctx_of ep st) (snd (fst x)) (snd x) = Ok ch ->
  body_ok (length (ti_instances (snd (fst x)))) (spec_body ep dom st x) = true ->
  ch = bs_enc_item rdA true (IProp (spec_prop ep dom st x)).
Proof.
  destruct x as [[cname ti] [canon pi]]. cbn [fst snd]. intros H Hok.
  apply prop_chunk_inv in H. destruct H as (insts & vals & col & HF & Hv & Hlen & Hc & ->). cbn [fst snd] in *.
  apply Forall2_find_src in HF. subst insts.
  assert (Ev : vals = col_values ep dom ((cname, ti), (canon, pi))) by (subst vals; reflexivity).
  rewrite Ev in Hc. clear Ev Hv Hlen vals.
  unfold spec_prop, spec_body in *. cbn [fst snd bs_enc_item bp_class bp_name bp_body] in *.
  f_equal. unfold e_u32. rewrite w_bstr_e_string. f_equal. f_equal. unfold w_u8. cbn [app].
  destruct (wire_type_eq_dec_seccap (pi_type pi)) as [E|Hne].
  - rewrite E in *. cbn [spec_col]. now rewrite (seccap_bytes _ _ _ Hc).
  - destruct (enc_col_spec _ _ _ _ Hc Hne) as (k & Hk & Hb). rewrite Hk in *. cbn [body_ok] in Hok.
    apply andb_true_iff in Hok. destruct Hok as [Hok _]. rewrite (Hb Hok). f_equal. symmetry. exact (spec_col_type _ _ _ _ Hk).
Qed.

Lemma Forall2_eq_map {A B} (g : A -> B) l l' : Forall2 (fun x y => y = g x) l l' -> l' = List.map g l.
Proof. induction 1 as [|x y l l' H _ IH]; [reflexivity|]. cbn [List.map]. now rewrite H, IH. Qed.

(* every column the serializer wrote has a body the document can carry *)
Definition cols_ok (ep : enc_params) (dom : cdom) (st : ser_state) : Prop :=
  forall x, In x (cols (ss_types st)) -> body_ok (length (ti_instances (snd (fst x)))) (spec_body ep dom st x) = true.

Lemma prop_chunks_items ep dom st props :
  map_res (fun ct => map_res (prop_chunk ep dom (enc_ctx_of ep st) (snd ct)) (ti_props (snd ct))) (ss_types st) = Ok props ->
  cols_ok ep dom st ->
  concat props = List.map (bs_enc_item rdA true) (List.map IProp (bf_props (spec_file ep dom st))).
Proof.
  intros H Hok. cbn [spec_file bf_props]. rewrite !map_map.
  apply map_res_Forall2 in H.
  assert (H2 : Forall2 (fun ct chs => Forall2 (fun cp ch => prop_chunk ep dom (enc_ctx_of ep st) (snd ct) cp = Ok ch) (ti_props (snd ct)) chs)
                       (ss_types st) props).
  { eapply Forall2_impl'; [|exact H]. intros ct chs Hc. cbn beta in Hc. now apply map_res_Forall2 in Hc. }
  apply (cols_chunks (fun ct cp ch => prop_chunk ep dom (enc_ctx_of ep st) (snd ct) cp = Ok ch)) in H2.
  apply Forall2_eq_map. eapply Forall2_impl_in; [|exact H2]. intros x ch Hin Hx. cbn beta in Hx.
  apply prop_chunk_item; [exact Hx|]. now apply Hok.
Qed.

(* ---- PRNT *)
Lemma prnt_chunk_item ep dom st objs parents :
  map_res (to_ref (enc_refs st)) (ss_relevant st) = Ok objs ->
  map_res (parent_entry dom (enc_refs st)) (ss_relevant st) = Ok parents ->
  (CH_PRNT, prnt_payload (len32 (ss_relevant st)) objs parents) = bs_enc_item rdA true (IPrnt (bf_prnt (spec_file ep dom st))).
Proof.
  intros Ho Hp. apply map_res_to_ref in Ho. apply parents_explicit in Hp. subst objs parents.
  cbn [spec_file bf_prnt bs_enc_item]. unfold spec_prnt, prnt_payload, w_u8. rewrite !map_map. cbn [fst snd app].
  f_equal. f_equal. rewrite w_le32_len32, e_len_map. reflexivity.
Qed.

(* ---- END *)
Lemma end_chunk_item : (CH_END, FILE_FOOTER) = bs_enc_item rdA true IEnd.
Proof. reflexivity. Qed.

(* ---- the whole chunk list, END included: the serializer's chunks are the document encoder's chunks for [spec_file] *)
Theorem model_chunks_are_spec_chunks d ep dom roots e st comp :
  encode_chunks d ep dom roots = Ok e -> add_instances d ep dom roots = Ok st -> cols_ok ep dom st ->
  en_chunks e ++ [(CH_END, FILE_FOOTER)] =
  bspec_encode_chunks rdA (model_choices comp (spec_file ep dom st)) (spec_file ep dom st).
Proof.
  intros He Hst Hok.
  destruct (encode_chunks_inv _ _ _ _ _ He) as (st' & insts & props & objs & parents & Hst' & Hlen & Hi & Hp & Ho & Hpa & ->).
  rewrite Hst in Hst'. injection Hst' as <-.
  unfold bspec_encode_chunks, model_choices. cbn [ch_order ch_rot_ids en_chunks].
  rewrite canonical_items. unfold meta_items. cbn [bf_meta spec_file bf_unknown List.map app].
  change (bf_sstr (mkFile None (spec_sstr st) (List.map (spec_class st) (ss_types st))
            (List.map (spec_prop ep dom st) (cols (ss_types st))) (spec_prnt dom st) []))
    with (bf_sstr (spec_file ep dom st)).
  rewrite !map_app. cbn [List.map].
  rewrite <- (sstr_chunks_items ep dom st).
  rewrite (inst_chunks_items ep dom st _ Hi), (prop_chunks_items ep dom st _ Hp Hok), (prnt_chunk_item ep dom st _ _ Ho Hpa).
  rewrite <- !app_assoc. reflexivity.
Qed.

(* ================================================================ 3. D3: the whole file *)
(* ---- 3a. header *)
Lemma e_i32le_of_nat n : e_i32le (Z.of_nat n) = le_bytes 4 (N.of_nat n).
Proof.
  unfold e_i32le. rewrite <- (le_bytes_mod 4 (N.of_nat n)). f_equal.
  apply N2Z.inj. rewrite wrap_u32_Z, N2Z.inj_mod, nat_N_Z. reflexivity.
Qed.

Lemma inst_total_spec st types :
  inst_total (List.map (spec_class st) types) = length (flat_map (fun ct => ti_instances (snd ct)) types).
Proof.
  induction types as [|ct types IH]; [reflexivity|].
  cbn [List.map inst_total fold_right flat_map spec_class cls_refs]. rewrite app_length, map_length. f_equal. exact IH.
Qed.

Lemma spec_header_counts d ep dom roots st :
  add_instances d ep dom roots = Ok st ->
  bs_header_of (spec_file ep dom st) = (Z.of_nat (length (ss_types st)), Z.of_nat (length (ss_relevant st))).
Proof.
  intros Hst. unfold bs_header_of. cbn [spec_file bf_classes]. rewrite map_length, inst_total_spec.
  destruct (enc_class_ids _ _ _ _ _ Hst) as (_ & _ & _ & _ & _ & _ & _ & Hperm).
  now rewrite (Permutation_length Hperm).
Qed.

Lemma model_header_is_spec_header d ep dom roots st :
  add_instances d ep dom roots = Ok st ->
  enc_header_of st = bs_enc_header (bs_header_of (spec_file ep dom st)).
Proof.
  intros Hst. rewrite (spec_header_counts _ _ _ _ _ Hst). unfold enc_header_of, bs_enc_header. cbn [fst snd].
  rewrite !e_i32le_of_nat, !w_le32_len32. unfold e_len, w_le16. reflexivity.
Qed.

(* ---- 3b. the chunk list is read back to [spec_file] *)
Lemma decode_chunks_of_encode rd comp u f : bs_wf f = true ->
  bspec_decode_chunks rd (bs_header_of f) (bspec_encode_chunks rd (mkChoices (bs_canonical_order f) comp u) f) = Ok f.
Proof.
  intros Hwf. unfold bspec_decode_chunks, bspec_encode_chunks. cbn [ch_order ch_rot_ids].
  rewrite (bs_items_roundtrip rd u _ [] (wf_items_ok f Hwf)). cbn [rbind]. now apply assemble_canonical.
Qed.

(* the ranges of the described file imply that every written column is one the document can carry *)
Lemma forallb_In' {A} (f : A -> bool) l x : forallb f l = true -> In x l -> f x = true.
Proof. intros H Hin. rewrite forallb_forall in H. now apply H. Qed.

Lemma col_values_length ep dom x : length (col_values ep dom x) = length (ti_instances (snd (fst x))).
Proof. destruct x as [[c ti] [canon pi]]. cbn [col_values fst snd]. now rewrite !map_length. Qed.

Lemma wf_cols_ok ep dom st : bs_wf (spec_file ep dom st) = true -> cols_ok ep dom st.
Proof.
  intros Hwf x Hx. unfold bs_wf in Hwf.
  repeat (apply andb_true_iff in Hwf; destruct Hwf as [Hwf ?]).
  match goal with H : forallb (prop_ok _) _ = true |- _ => rename H into Hp end.
  cbn [spec_file bf_props] in Hp.
  pose proof (forallb_In' _ _ _ Hp (in_map (spec_prop ep dom st) _ _ Hx)) as Hpx.
  unfold prop_ok in Hpx. cbn [spec_prop bp_class bp_name bp_body] in Hpx.
  apply andb_true_iff in Hpx. destruct Hpx as [_ Hpx].
  destruct (class_count _ _) as [n|]; [|discriminate].
  unfold spec_body in *. destruct (spec_col _ _ _) as [k|] eqn:Ek; cbn [body_ok].
  - apply andb_true_iff in Hpx. destruct Hpx as [Hk _]. rewrite Hk. cbn [andb].
    rewrite (spec_col_len _ _ _ _ Ek), col_values_length. apply Nat.eqb_refl.
  - exact Hpx.
Qed.

(* ---- 3c. chunk framing as ChunkBuilder::dump writes it, read by the document's de-framer.  Compression is a parameter of
   the serializer model ([compression]); the document side inflates LZ4 blocks with Spec/Lz4.v and Zstandard frames with the
   supplied [zstd].  The law asked of the pair (as in BinFraming): inflating what the compressor produced gives the payload. *)
Definition inflate_law (zstd : bytes -> option bytes) (f : bytes -> bytes) : Prop :=
  forall x, if bytes_eqb (firstn 4 (f x)) ZSTD_MAGIC then zstd (f x) = Some x else lz4_decode (f x) = Ok x.
Definition cmp_law (zstd : bytes -> option bytes) (cmp : compression) : Prop :=
  match cmp with None => True | Some f => inflate_law zstd f end.

Definition model_raw (cmp : compression) (c : bytes * bytes) : bs_raw :=
  match cmp with
  | None => mkRaw (fst c) 0 (N.of_nat (length (snd c))) (snd c)
  | Some f => mkRaw (fst c) (N.of_nat (length (f (snd c)))) (N.of_nat (length (snd c))) (f (snd c))
  end.

Lemma p_raw_model cmp c rest : BinFraming.chunk_ok cmp c ->
  p_raw (frame_chunk cmp c ++ rest) = Ok (model_raw cmp c, rest).
Proof.
  destruct c as [name payload]. intros [Hn [Hp Hc]]. cbn [fst snd] in *.
  unfold p_raw, frame_chunk, model_raw. cbn [fst snd]. destruct cmp as [f|].
  - destruct Hc as [Hc Hne]. rewrite (len32_small _ Hc), (len32_small _ Hp).
    change (2 ^ 32) with 4294967296 in Hp, Hc. unfold w_le32. rewrite <- !app_assoc.
    rewrite <- Hn at 1. rewrite (pb _ _ _ _ _ (read_exact_app name _)).
    rewrite (pb _ _ _ _ _ (read_le4 _ _ Hc)).
    rewrite (pb _ _ _ _ _ (read_le4 _ _ Hp)).
    rewrite (pb _ _ _ _ _ (read_le4 0 _ ltac:(lia))). cbn [N.eqb negb].
    replace (N.eqb (N.of_nat (length (f payload))) 0) with false
      by (symmetry; apply N.eqb_neq; destruct (f payload); [contradiction|cbn [length]; lia]).
    rewrite (pb _ _ _ _ _ (read_exact_N_app _ rest)). reflexivity.
  - rewrite (len32_small _ Hp). change (2 ^ 32) with 4294967296 in Hp. unfold w_le32. rewrite <- !app_assoc.
    rewrite <- Hn at 1. rewrite (pb _ _ _ _ _ (read_exact_app name _)).
    rewrite (pb _ _ _ _ _ (read_le4 0 _ ltac:(lia))).
    rewrite (pb _ _ _ _ _ (read_le4 _ _ Hp)).
    rewrite (pb _ _ _ _ _ (read_le4 0 _ ltac:(lia))). cbn [N.eqb negb].
    rewrite (pb _ _ _ _ _ (read_exact_N_app _ rest)). reflexivity.
Qed.

Lemma bs_inflate_model zstd cmp c : BinFraming.chunk_ok cmp c -> cmp_law zstd cmp ->
  bs_inflate zstd (model_raw cmp c) = Ok (snd c).
Proof.
  destruct c as [name payload]. intros [Hn [Hp Hc]] Hlaw. cbn [fst snd] in *.
  unfold bs_inflate, model_raw. cbn [fst snd]. destruct cmp as [f|]; cbn [rw_clen rw_ulen rw_data]; [|reflexivity].
  destruct Hc as [Hc Hne].
  replace (N.eqb (N.of_nat (length (f payload))) 0) with false
    by (symmetry; apply N.eqb_neq; destruct (f payload); [contradiction|cbn [length]; lia]).
  specialize (Hlaw payload). cbn [cmp_law] in Hlaw.
  destruct (bytes_eqb (firstn 4 (f payload)) ZSTD_MAGIC).
  - rewrite Hlaw. now rewrite N.eqb_refl.
  - unfold lz4_inflate. rewrite Hlaw. now rewrite N.eqb_refl.
Qed.

Lemma model_raw_name cmp c : rw_name (model_raw cmp c) = fst c.
Proof. now destruct cmp. Qed.

Lemma end_chunk_ok : BinFraming.chunk_ok None (CH_END, FILE_FOOTER).
Proof. split; [reflexivity|]. split; [|exact I]. cbn. reflexivity. Qed.

Lemma deframe_model cmp : forall cs fuel,
  Forall (BinFraming.chunk_ok cmp) cs -> Forall (fun c => fst c <> NAME_END) cs -> (length cs < fuel)%nat ->
  bs_deframe_loop fuel (flat_map (frame_chunk cmp) cs ++ END_CHUNK) =
  Ok (List.map (model_raw cmp) cs ++ [model_raw None (CH_END, FILE_FOOTER)]).
Proof.
  induction cs as [|c cs IH]; intros fuel Hok Hne Hf; (destruct fuel as [|f]; [cbn [length] in Hf; lia|]).
  - cbn [flat_map app List.map]. unfold END_CHUNK. rewrite <- (app_nil_r (frame_chunk None (CH_END, FILE_FOOTER))).
    cbn [bs_deframe_loop].
    destruct (frame_chunk None (CH_END, FILE_FOOTER) ++ []) as [|x0 xs] eqn:Eb; [discriminate|]. rewrite <- Eb.
    rewrite (p_raw_model None _ [] end_chunk_ok). reflexivity.
  - inversion Hok as [|? ? Hc Hok']; subst. inversion Hne as [|? ? Hn Hne']; subst.
    cbn [flat_map List.map]. rewrite <- !app_assoc. cbn [bs_deframe_loop].
    pose proof (BinFraming.frame_chunk_nonempty cmp c Hc) as Hlen.
    destruct (frame_chunk cmp c ++ flat_map (frame_chunk cmp) cs ++ END_CHUNK) as [|x0 xs] eqn:Eb.
    { apply (f_equal (@length N)) in Eb. rewrite app_length in Eb. cbn [length] in Eb. lia. }
    rewrite <- Eb. rewrite (p_raw_model cmp c _ Hc). rewrite model_raw_name.
    rewrite (bytes_eqb_neq _ _ Hn). rewrite (IH f Hok' Hne' ltac:(cbn [length] in Hf; lia)). reflexivity.
Qed.

Lemma inflate_all_model zstd cmp : cmp_law zstd cmp -> forall cs, Forall (BinFraming.chunk_ok cmp) cs ->
  bs_inflate_all zstd (List.map (model_raw cmp) cs ++ [model_raw None (CH_END, FILE_FOOTER)]) = Ok (cs ++ [(CH_END, FILE_FOOTER)]).
Proof.
  intros Hlaw. induction cs as [|c cs IH]; intros Hok.
  - reflexivity.
  - inversion Hok as [|? ? Hc Hok']; subst. cbn [List.map app bs_inflate_all].
    rewrite (bs_inflate_model zstd cmp c Hc Hlaw). cbn [rbind]. rewrite (IH Hok'). cbn [rbind].
    rewrite model_raw_name. now destruct c.
Qed.

Lemma end_uncompressed_model cmp cs : Forall (fun c => fst c <> NAME_END) cs ->
  forallb (fun c => negb (bytes_eqb (rw_name c) NAME_END) || N.eqb (rw_clen c) 0)
          (List.map (model_raw cmp) cs ++ [model_raw None (CH_END, FILE_FOOTER)]) = true.
Proof.
  induction 1 as [|c cs Hn _ IH]; [reflexivity|].
  cbn [List.map app forallb]. rewrite IH, andb_true_r, model_raw_name, (bytes_eqb_neq _ _ Hn). reflexivity.
Qed.

(* the file bytes of the serializer model (header, framed chunks, END) are de-framed and inflated by the document decoder to
   the chunk list; what remains is the chunk-level decoder *)
Theorem spec_deframes_model_file rd zstd cmp hdr cs :
  (0 <= fst hdr < 2147483648)%Z -> (0 <= snd hdr < 2147483648)%Z ->
  Forall (BinFraming.chunk_ok cmp) cs -> Forall (fun c => fst c <> NAME_END) cs -> cmp_law zstd cmp ->
  bspec_decode_gen rd zstd (bs_enc_header hdr ++ flat_map (frame_chunk cmp) cs ++ END_CHUNK)
  = bspec_decode_chunks rd hdr (cs ++ [(CH_END, FILE_FOOTER)]).
Proof.
  intros Hc Hi Hok Hne Hlaw. unfold bspec_decode_gen. rewrite (p_header_app _ _ Hc Hi).
  unfold bs_deframe. rewrite (deframe_model cmp cs _ Hok Hne).
  2:{ rewrite app_length. pose proof (BinFraming.framed_length_ge cmp cs Hok). lia. }
  cbn [rbind]. rewrite (end_uncompressed_model cmp cs Hne). cbn [negb].
  rewrite (inflate_all_model zstd cmp Hlaw cs Hok). reflexivity.
Qed.

(* ---- 3d. D3: acceptance *)
Lemma wf_header_range f : bs_wf f = true ->
  (0 <= fst (bs_header_of f) < 2147483648)%Z /\ (0 <= snd (bs_header_of f) < 2147483648)%Z.
Proof.
  intros Hwf. unfold bs_wf in Hwf. apply andb_true_iff in Hwf. destruct Hwf as [Hwf Hic].
  apply andb_true_iff in Hwf. destruct Hwf as [_ Hcc]. apply Z.ltb_lt in Hic, Hcc. unfold bs_header_of. cbn [fst snd]. lia.
Qed.

Lemma encode_chunks_header d ep dom roots e st :
  encode_chunks d ep dom roots = Ok e -> add_instances d ep dom roots = Ok st -> en_header e = enc_header_of st.
Proof.
  intros He Hst.
  destruct (encode_chunks_inv _ _ _ _ _ He) as (st' & insts & props & objs & parents & Hst' & _ & _ & _ & _ & _ & ->).
  rewrite Hst in Hst'. now injection Hst' as <-.
Qed.

(* D3, every compression type.  The document decoder (amended reading; LZ4 by Spec/Lz4.v, Zstandard by the supplied inflater)
   accepts the file the serializer model writes and returns the logical file [spec_file] that describes the serializer's state.
   Hypotheses: the described file is within the document's ranges ([bs_wf]: see spec_file_wf below for what that means on the
   input), every chunk payload (and its compressed form, which must not be empty) is shorter than 2^32 bytes, and the inflaters
   undo the compressor. *)
Theorem spec_accepts_model_file_gen d ep cmp zstd dom roots b st :
  encode_file d ep cmp dom roots = Ok b ->
  add_instances d ep dom roots = Ok st ->
  bs_wf (spec_file ep dom st) = true ->
  (forall e, encode_chunks d ep dom roots = Ok e -> Forall (fun c => BinFraming.sizes_ok cmp (snd c)) (en_chunks e)) ->
  cmp_law zstd cmp ->
  bspec_decode_gen rdA zstd b = Ok (spec_file ep dom st).
Proof.
  intros Hb Hst Hwf Hsz Hlaw.
  destruct (BinFraming.encode_file_inv _ _ _ _ _ _ Hb) as (e & He & ->).
  rewrite (encode_chunks_header _ _ _ _ _ _ He Hst), (model_header_is_spec_header _ _ _ _ _ Hst).
  destruct (BinFraming.encode_chunks_shape _ _ _ _ _ He) as [_ Hnames].
  destruct (wf_header_range _ Hwf) as [Hc Hi].
  rewrite (spec_deframes_model_file rdA zstd cmp _ (en_chunks e) Hc Hi).
  - rewrite (model_chunks_are_spec_chunks d ep dom roots e st [] He Hst (wf_cols_ok _ _ _ Hwf)).
    now apply decode_chunks_of_encode.
  - specialize (Hsz e He). rewrite Forall_forall in *. intros c Hin. split; [|now apply Hsz].
    exact (proj1 (BinFraming.enc_names_ok _ (Hnames c Hin))).
  - rewrite Forall_forall in *. intros c Hin. exact (proj2 (BinFraming.enc_names_ok _ (Hnames c Hin))).
  - exact Hlaw.
Qed.

(* D3, CompressionType::None: no inflater is involved *)
Theorem spec_accepts_model_file d ep dom roots b st :
  encode_file d ep None dom roots = Ok b ->
  add_instances d ep dom roots = Ok st ->
  bs_wf (spec_file ep dom st) = true ->
  (forall e, encode_chunks d ep dom roots = Ok e -> Forall (fun c => N.of_nat (length (snd c)) < 2 ^ 32) (en_chunks e)) ->
  bspec_decode rdA b = Ok (spec_file ep dom st).
Proof.
  intros Hb Hst Hwf Hsz. unfold bspec_decode.
  apply (spec_accepts_model_file_gen d ep None (fun _ => None) dom roots b st Hb Hst Hwf); [|exact I].
  intros e He. eapply Forall_impl; [|exact (Hsz e He)]. intros c Hc. split; [exact Hc|exact I].
Qed.

(* D3, LZ4: a compressor whose blocks the independent LZ4 decoder of Spec/Lz4.v inflates (and that never starts a block with
   the Zstandard magic number) *)
Theorem spec_accepts_model_file_lz4 d ep (compress : bytes -> bytes) dom roots b st :
  encode_file d ep (Some compress) dom roots = Ok b ->
  add_instances d ep dom roots = Ok st ->
  bs_wf (spec_file ep dom st) = true ->
  (forall e, encode_chunks d ep dom roots = Ok e -> Forall (fun c => BinFraming.sizes_ok (Some compress) (snd c)) (en_chunks e)) ->
  (forall x, bytes_eqb (firstn 4 (compress x)) ZSTD_MAGIC = false /\ lz4_decode (compress x) = Ok x) ->
  bspec_decode rdA b = Ok (spec_file ep dom st).
Proof.
  intros Hb Hst Hwf Hsz Hlaw. unfold bspec_decode.
  apply (spec_accepts_model_file_gen d ep (Some compress) (fun _ => None) dom roots b st Hb Hst Hwf Hsz).
  intros x. destruct (Hlaw x) as [-> H]. exact H.
Qed.

(* the LZ4 law is satisfiable: the literal-only compressor of Spec/Lz4.v meets it for every input, so for it the theorem has no
   inflater hypothesis left (the real LZ4 / Zstandard compressors are external functions and are assumed to meet the law) *)
Lemma literal_only_law x :
  bytes_eqb (firstn 4 (literal_only_block x)) ZSTD_MAGIC = false /\ lz4_decode (literal_only_block x) = Ok x.
Proof.
  split; [|apply lz4_literal_only]. pose proof (literal_only_not_zstd x) as Hh.
  destruct (literal_only_block x) as [|y r]; [reflexivity|]. cbn [hd] in Hh. cbn [firstn ZSTD_MAGIC bytes_eqb].
  replace (N.eqb y 40) with false by (symmetry; now apply N.eqb_neq). reflexivity.
Qed.

Corollary spec_accepts_model_file_lz4_literal d ep dom roots b st :
  encode_file d ep (Some literal_only_block) dom roots = Ok b ->
  add_instances d ep dom roots = Ok st ->
  bs_wf (spec_file ep dom st) = true ->
  (forall e, encode_chunks d ep dom roots = Ok e ->
             Forall (fun c => BinFraming.sizes_ok (Some literal_only_block) (snd c)) (en_chunks e)) ->
  bspec_decode rdA b = Ok (spec_file ep dom st).
Proof.
  intros Hb Hst Hwf Hsz. exact (spec_accepts_model_file_lz4 d ep literal_only_block dom roots b st Hb Hst Hwf Hsz literal_only_law).
Qed.

(* D3, Zstandard: frames start with the magic number and the supplied inflater undoes the compressor *)
Theorem spec_accepts_model_file_zstd d ep (compress : bytes -> bytes) zstd dom roots b st :
  encode_file d ep (Some compress) dom roots = Ok b ->
  add_instances d ep dom roots = Ok st ->
  bs_wf (spec_file ep dom st) = true ->
  (forall e, encode_chunks d ep dom roots = Ok e -> Forall (fun c => BinFraming.sizes_ok (Some compress) (snd c)) (en_chunks e)) ->
  (forall x, bytes_eqb (firstn 4 (compress x)) ZSTD_MAGIC = true /\ zstd (compress x) = Some x) ->
  bspec_decode_gen rdA zstd b = Ok (spec_file ep dom st).
Proof.
  intros Hb Hst Hwf Hsz Hlaw.
  apply (spec_accepts_model_file_gen d ep (Some compress) zstd dom roots b st Hb Hst Hwf Hsz).
  intros x. destruct (Hlaw x) as [-> H]. exact H.
Qed.

(* the uncompressed file IS a file of the document's own encoder: same bytes *)
Lemma frame_all_plain : forall cs, bs_frame_all [] cs = flat_map (frame_chunk None) cs.
Proof.
  induction cs as [|[name data] cs IH]; [reflexivity|]. cbn [bs_frame_all flat_map tl fst]. rewrite IH. f_equal.
  destruct (bytes_eqb name NAME_END); unfold bs_frame, frame_chunk; now rewrite w_le32_len32.
Qed.

Theorem model_file_is_spec_file d ep dom roots b st :
  encode_file d ep None dom roots = Ok b -> add_instances d ep dom roots = Ok st -> cols_ok ep dom st ->
  b = bspec_encode rdA (model_choices [] (spec_file ep dom st)) (spec_file ep dom st).
Proof.
  intros Hb Hst Hok. destruct (BinFraming.encode_file_inv _ _ _ _ _ _ Hb) as (e & He & ->).
  unfold bspec_encode. cbn [model_choices ch_comp].
  rewrite <- (model_chunks_are_spec_chunks d ep dom roots e st [] He Hst Hok).
  rewrite frame_all_plain, flat_map_app. cbn [flat_map]. rewrite app_nil_r.
  rewrite (encode_chunks_header _ _ _ _ _ _ He Hst), (model_header_is_spec_header _ _ _ _ _ Hst). reflexivity.
Qed.

(* ---- the readings matter for SharedString, UniqueId and Content columns only: a file without them is accepted under every
   reading of the document, the literal one included *)
Definition file_reading_free (f : bs_file) : Prop :=
  forall p, In p (bf_props f) -> match bp_body p with BValues k => reading_free k | _ => True end.

Lemma bs_enc_item_reading rd rd' u it :
  match it with IProp p => match bp_body p with BValues k => reading_free k | _ => True end | _ => True end ->
  bs_enc_item rd u it = bs_enc_item rd' u it.
Proof.
  destruct it as [l|l|c|p|rows| |name data]; try reflexivity. intros H. cbn [bs_enc_item].
  destruct (bp_body p) as [k| |ty raw]; try reflexivity. now rewrite (bs_enc_col_reading rd rd' u k H).
Qed.

Lemma encode_chunks_reading rd rd' ch f : file_reading_free f ->
  bspec_encode_chunks rd ch f = bspec_encode_chunks rd' ch f.
Proof.
  intros Hf. unfold bspec_encode_chunks. apply map_ext_in. intros it Hit. apply bs_enc_item_reading.
  destruct it as [l|l|c|p|rows| |name data]; try exact I. apply Hf.
  unfold bs_items_of in Hit. apply in_app_or in Hit. destruct Hit as [Hit|[Hit|[]]]; [|discriminate].
  apply in_flat_map in Hit. destruct Hit as (key & _ & Hit).
  destruct key as [| |k|k| |k]; cbn [item_of_key] in Hit.
  - destruct (bf_meta f); [destruct Hit as [Hit|[]]; discriminate|contradiction].
  - destruct (bf_sstr f); [destruct Hit as [Hit|[]]; discriminate|contradiction].
  - destruct (nth_error (bf_classes f) k); [destruct Hit as [Hit|[]]; discriminate|contradiction].
  - destruct (nth_error (bf_props f) k) as [q|] eqn:E; [|contradiction]. destruct Hit as [Hit|[]]. injection Hit as <-.
    eapply nth_error_In; eauto.
  - destruct Hit as [Hit|[]]; discriminate.
  - destruct (nth_error (bf_unknown f) k) as [[n dd]|]; [destruct Hit as [Hit|[]]; discriminate|contradiction].
Qed.

Theorem spec_accepts_model_file_any_reading rd d ep cmp zstd dom roots b st :
  encode_file d ep cmp dom roots = Ok b ->
  add_instances d ep dom roots = Ok st ->
  bs_wf (spec_file ep dom st) = true ->
  (forall e, encode_chunks d ep dom roots = Ok e -> Forall (fun c => BinFraming.sizes_ok cmp (snd c)) (en_chunks e)) ->
  cmp_law zstd cmp ->
  file_reading_free (spec_file ep dom st) ->
  bspec_decode_gen rd zstd b = Ok (spec_file ep dom st).
Proof.
  intros Hb Hst Hwf Hsz Hlaw Hfree.
  destruct (BinFraming.encode_file_inv _ _ _ _ _ _ Hb) as (e & He & ->).
  rewrite (encode_chunks_header _ _ _ _ _ _ He Hst), (model_header_is_spec_header _ _ _ _ _ Hst).
  destruct (BinFraming.encode_chunks_shape _ _ _ _ _ He) as [_ Hnames].
  destruct (wf_header_range _ Hwf) as [Hc Hi].
  rewrite (spec_deframes_model_file rd zstd cmp _ (en_chunks e) Hc Hi).
  - rewrite (model_chunks_are_spec_chunks d ep dom roots e st [] He Hst (wf_cols_ok _ _ _ Hwf)).
    rewrite (encode_chunks_reading rdA rd _ _ Hfree).
    now apply decode_chunks_of_encode.
  - specialize (Hsz e He). rewrite Forall_forall in *. intros c Hin. split; [|now apply Hsz].
    exact (proj1 (BinFraming.enc_names_ok _ (Hnames c Hin))).
  - rewrite Forall_forall in *. intros c Hin. exact (proj2 (BinFraming.enc_names_ok _ (Hnames c Hin))).
  - exact Hlaw.
Qed.

(* ================================================================ 4. D2: chunk by chunk *)
Lemma body_ok_own ep dom st x n :
  body_ok n (spec_body ep dom st x) = true ->
  body_ok (length (ti_instances (snd (fst x)))) (spec_body ep dom st x) = true.
Proof.
  unfold spec_body. destruct (spec_col _ _ _) as [k|] eqn:Ek; cbn [body_ok]; [|trivial].
  intros H. apply andb_true_iff in H. destruct H as [Hk _]. rewrite Hk. cbn [andb].
  rewrite (spec_col_len _ _ _ _ Ek), col_values_length. apply Nat.eqb_refl.
Qed.

(* INST: class id, class name, object format, referent array and service markers *)
Theorem spec_reads_model_inst_chunk st ct ch seen :
  inst_chunk (enc_refs st) ct = Ok ch -> BinSpec.class_ok (spec_class st ct) = true ->
  bs_parse_item rdA seen (fst ch) (snd ch) = Ok (IInst (spec_class st ct)).
Proof.
  intros H Hok. rewrite (inst_chunk_item _ _ _ H). now apply bs_item_roundtrip.
Qed.

(* PROP: class id, property name, type id and the column of D1; [seen] = the (class id, instance count) of the INST chunks
   before it, as the document asks ("as defined in a preceding INST chunk") *)
Theorem spec_reads_model_prop_chunk ep dom st (x : column) ch seen :
  prop_chunk ep dom (enc_ctx_of ep st) (snd (fst x)) (snd x) = Ok ch ->
  item_ok seen (IProp (spec_prop ep dom st x)) = true ->
  bs_parse_item rdA seen (fst ch) (snd ch) = Ok (IProp (spec_prop ep dom st x)).
Proof.
  intros H Hok. rewrite (prop_chunk_item ep dom st x ch H).
  - now apply bs_item_roundtrip.
  - cbn [item_ok spec_prop bp_class bp_name bp_body] in Hok. apply andb_true_iff in Hok. destruct Hok as [_ Hok].
    destruct (seen_count seen _) as [n|]; [|discriminate]. exact (body_ok_own _ _ _ _ _ Hok).
Qed.

(* PRNT: version, count, child referents, parent referents *)
Theorem spec_reads_model_prnt_chunk dom st objs parents seen :
  map_res (to_ref (enc_refs st)) (ss_relevant st) = Ok objs ->
  map_res (parent_entry dom (enc_refs st)) (ss_relevant st) = Ok parents ->
  item_ok seen (IPrnt (spec_prnt dom st)) = true ->
  bs_parse_item rdA seen CH_PRNT (prnt_payload (len32 (ss_relevant st)) objs parents) = Ok (IPrnt (spec_prnt dom st)).
Proof.
  intros Ho Hp Hok. pose proof (prnt_chunk_item ep0 dom st objs parents Ho Hp) as E. cbn [spec_file bf_prnt] in E.
  change CH_PRNT with (fst (CH_PRNT, prnt_payload (len32 (ss_relevant st)) objs parents)).
  change (prnt_payload (len32 (ss_relevant st)) objs parents) with (snd (CH_PRNT, prnt_payload (len32 (ss_relevant st)) objs parents)) at 2.
  rewrite E. now apply bs_item_roundtrip.
Qed.

(* SSTR: version, count, (hash, string) entries; written only when a SharedString was met *)
Theorem spec_reads_model_sstr_chunk st l seen :
  spec_sstr st = Some l -> item_ok seen (ISstr l) = true ->
  exists ch, sstr_chunks st = [ch] /\ bs_parse_item rdA seen (fst ch) (snd ch) = Ok (ISstr l).
Proof.
  intros Hs Hok. pose proof (sstr_chunks_items ep0 [] st) as E. unfold sstr_items in E. cbn [spec_file bf_sstr] in E.
  rewrite Hs in E. cbn [List.map] in E. eexists. split; [exact E|]. now apply bs_item_roundtrip.
Qed.

(* END *)
Theorem spec_reads_model_end_chunk seen : bs_parse_item rdA seen CH_END FILE_FOOTER = Ok IEnd.
Proof. reflexivity. Qed.

(* all chunks, in file order *)
Theorem spec_reads_model_chunks d ep dom roots e st :
  encode_chunks d ep dom roots = Ok e -> add_instances d ep dom roots = Ok st ->
  bs_wf (spec_file ep dom st) = true ->
  bs_parse_items rdA [] (en_chunks e ++ [(CH_END, FILE_FOOTER)]) =
  Ok (sstr_items (spec_file ep dom st) ++ List.map IInst (List.map (spec_class st) (ss_types st))
      ++ List.map IProp (List.map (spec_prop ep dom st) (cols (ss_types st))) ++ [IPrnt (spec_prnt dom st); IEnd]).
Proof.
  intros He Hst Hwf.
  rewrite (model_chunks_are_spec_chunks d ep dom roots e st [] He Hst (wf_cols_ok _ _ _ Hwf)).
  unfold bspec_encode_chunks. cbn [model_choices ch_order ch_rot_ids].
  rewrite (bs_items_roundtrip rdA true _ [] (wf_items_ok _ Hwf)). rewrite canonical_items. reflexivity.
Qed.

(* ================================================================ 5. [bs_wf (spec_file ..)] from hypotheses on what is written *)
(* What remains to be assumed are ranges only: every string that is written (class names, serialized property names, shared
   strings) is a byte string shorter than 2^32, and every described column is within the ranges of the document's types
   ([bs_col_ok]: f32/f64 bit patterns, i32/i64 ranges, bytes, string lengths).  Everything structural is proved. *)
Record wire_ranges_ok (ep : enc_params) (dom : cdom) (st : ser_state) : Prop := mkWR {
  wr_class_names : forall ct, In ct (ss_types st) -> BinSpec.str_ok (fst ct) = true;
  wr_prop_names : forall x, In x (cols (ss_types st)) -> BinSpec.str_ok (pi_ser_name (snd (snd x))) = true;
  wr_sstr : forall s, In s (ss_sstr st) -> BinSpec.str_ok s = true;
  wr_sstr_len : len_ok (ss_sstr st) = true;
  wr_cols : forall x k, In x (cols (ss_types st)) ->
              spec_col (pi_type (snd (snd x))) (enc_ctx_of ep st) (col_values ep dom x) = Some k -> bs_col_ok k = true
}.

Lemma NoDup_nodup_N l : NoDup l -> nodup_N l = true.
Proof.
  induction 1 as [|x l Hni _ IH]; [reflexivity|]. cbn [nodup_N]. rewrite IH, andb_true_r.
  apply negb_true_iff. now apply mem_false_In.
Qed.

Lemma Forall2_in_l {A B} (R : A -> B -> Prop) l l' x : Forall2 R l l' -> In x l -> exists y, In y l' /\ R x y.
Proof.
  induction 1 as [|a b l l' Hab _ IH]; [contradiction|]. intros [<-|Hin].
  - exists b. split; [now left|exact Hab].
  - destruct (IH Hin) as (y & Hy & Hr). exists y. split; [now right|exact Hr].
Qed.

Lemma in_cols x types : In x (cols types) <-> In (fst x) types /\ In (snd x) (ti_props (snd (fst x))).
Proof.
  unfold cols. rewrite in_flat_map. split.
  - intros (ct & Hct & Hx). apply in_map_iff in Hx. destruct Hx as (cp & <- & Hcp). cbn [fst snd]. auto.
  - intros [H1 H2]. exists (fst x). split; [exact H1|]. apply in_map_iff. exists (snd x). split; [now destruct x|exact H2].
Qed.

(* every column of the class table was encoded *)
Lemma encode_cols_succeed d ep dom roots e st :
  encode_chunks d ep dom roots = Ok e -> add_instances d ep dom roots = Ok st ->
  forall x, In x (cols (ss_types st)) ->
  exists b, enc_col (pi_type (snd (snd x))) (enc_ctx_of ep st) (col_values ep dom x) = Ok b.
Proof.
  intros He Hst x Hx.
  destruct (encode_chunks_inv _ _ _ _ _ He) as (st' & insts & props & objs & parents & Hst' & _ & _ & Hp & _ & _ & _).
  rewrite Hst in Hst'. injection Hst' as <-.
  apply map_res_Forall2 in Hp.
  assert (H2 : Forall2 (fun ct chs => Forall2 (fun cp ch => prop_chunk ep dom (enc_ctx_of ep st) (snd ct) cp = Ok ch) (ti_props (snd ct)) chs)
                       (ss_types st) props).
  { eapply Forall2_impl'; [|exact Hp]. intros ct chs Hc. cbn beta in Hc. now apply map_res_Forall2 in Hc. }
  apply (cols_chunks (fun ct cp ch => prop_chunk ep dom (enc_ctx_of ep st) (snd ct) cp = Ok ch)) in H2.
  destruct (Forall2_in_l _ _ _ _ H2 Hx) as (ch & _ & Hch). cbn beta in Hch.
  destruct x as [[cname ti] [canon pi]]. cbn [fst snd] in *.
  apply prop_chunk_inv in Hch. destruct Hch as (is' & vals & col & HF & Hv & _ & Hc & _). cbn [fst snd] in *.
  apply Forall2_find_src in HF. subst is' vals. now exists col.
Qed.

Lemma class_count_spec st : forall types ct, NoDup (type_ids types) -> In ct types ->
  class_count (List.map (spec_class st) types) (ti_id (snd ct)) = Some (length (ti_instances (snd ct))).
Proof.
  unfold class_count. induction types as [|c0 types IH]; intros ct Hnd Hin; [contradiction|].
  cbn [type_ids List.map] in Hnd. inversion Hnd as [|? ? Hni Hnd']; subst.
  cbn [List.map seen_count spec_class cls_id cls_refs]. destruct Hin as [->|Hin].
  - rewrite N.eqb_refl. now rewrite map_length.
  - destruct (N.eqb_spec (ti_id (snd c0)) (ti_id (snd ct))) as [E|_].
    + exfalso. apply Hni. rewrite E. apply in_map_iff. exists ct. auto.
    + now apply IH.
Qed.

Lemma pz_range dom st r : (Z.of_nat (length (ss_relevant st)) <= 2147483647)%Z -> in_i32 (pz dom st r) = true.
Proof.
  intros Hlen. unfold pz, parent_val. destruct (find_inst dom r) as [i|]; [|reflexivity].
  destruct (N.eqb (i_parent i) 0); [reflexivity|].
  pose proof (fz_range st (i_parent i) Hlen) as H. unfold fz in H. exact H.
Qed.

Lemma bytes_ok_const n l : n < 256 -> bytes_ok (List.map (fun _ : N => n) l) = true.
Proof. intros H. induction l as [|x l IH]; [reflexivity|]. cbn [List.map]. rewrite bytes_ok_cons, IH. now apply N.ltb_lt in H; rewrite H. Qed.

Theorem spec_file_wf d ep dom roots e st :
  encode_chunks d ep dom roots = Ok e -> add_instances d ep dom roots = Ok st ->
  wire_ranges_ok ep dom st -> bs_wf (spec_file ep dom st) = true.
Proof.
  intros He Hst [Hcn Hpn Hss Hsl Hcols].
  destruct (encode_chunks_inv _ _ _ _ _ He) as (st' & insts & props & objs & parents & Hst' & Hlen & _).
  rewrite Hst in Hst'. injection Hst' as <-.
  destruct (enc_class_ids _ _ _ _ _ Hst) as (_ & _ & _ & Hids & Hnext & Hcls & _ & Hperm).
  assert (Htl : (length (ss_types st) <= length (ss_relevant st))%nat).
  { rewrite <- (Permutation_length Hperm). apply flat_map_length_ge. intros [c ti] Hin. now destruct (Hcls c ti Hin) as (_ & Hne & _). }
  assert (Hil : forall ct, In ct (ss_types st) -> (length (ti_instances (snd ct)) <= length (ss_relevant st))%nat).
  { intros [c ti] Hin. cbn [snd]. destruct (Hcls c ti Hin) as (E & _ & _). rewrite E. apply filter_length_le'. }
  assert (Hu32 : forall n : nat, (Z.of_nat n <= 2147483647)%Z -> u32_ok (N.of_nat n) = true).
  { intros n Hn. apply N.ltb_lt. lia. }
  unfold bs_wf. cbn [spec_file bf_meta bf_sstr bf_classes bf_props bf_prnt bf_unknown forallb].
  rewrite !andb_true_r. cbn [andb].
  repeat match goal with |- (_ && _)%bool = true => apply andb_true_iff; split end.
  - (* SSTR *) unfold spec_sstr. destruct (ss_sstr st) as [|s0 l0] eqn:Es; [reflexivity|]. rewrite <- Es in *.
    apply andb_true_iff. split.
    + unfold len_ok in *. now rewrite map_length.
    + apply forallb_forall. intros t Ht. apply in_map_iff in Ht. destruct Ht as (s & <- & Hs).
      unfold sstr_entry_ok. cbn [fst snd]. now rewrite (Hss s Hs).
  - (* classes *) apply forallb_forall. intros c Hc. apply in_map_iff in Hc. destruct Hc as (ct & <- & Hct).
    pose proof (Hil ct Hct) as Hle. destruct ct as [cname ti]. cbn [snd] in Hle.
    destruct (Hcls cname ti Hct) as (_ & _ & Hid).
    unfold BinSpec.class_ok, spec_class. cbn [fst snd cls_id cls_name cls_service cls_refs cls_markers].
    assert (H1 : u32_ok (ti_id ti) = true) by (apply N.ltb_lt; rewrite Hnext in Hid; lia).
    assert (H3 : forallb in_i32 (List.map (fz st) (ti_instances ti)) = true).
    { apply forallb_forall. intros z Hz. apply in_map_iff in Hz. destruct Hz as (r & <- & _). now apply fz_range. }
    assert (H4 : len_ok (List.map (fz st) (ti_instances ti)) = true).
    { unfold len_ok. rewrite map_length. apply Hu32. lia. }
    pose proof (Hcn _ Hct) as H2. cbn [fst] in H2. rewrite H1, H2, H3, H4. cbn [andb].
    destruct (ti_service ti); [|reflexivity]. rewrite !map_length, Nat.eqb_refl. cbn [andb]. apply bytes_ok_const. lia.
  - (* unique class ids *) apply NoDup_nodup_N. rewrite map_map. exact Hids.
  - (* props *) apply forallb_forall. intros p Hp. apply in_map_iff in Hp. destruct Hp as (x & <- & Hx).
    pose proof (proj1 (in_cols _ _) Hx) as [Hct Hcp].
    destruct (Hcls (fst (fst x)) (snd (fst x)) ltac:(now destruct (fst x))) as (_ & _ & Hid).
    unfold prop_ok, spec_prop. cbn [bp_class bp_name bp_body].
    rewrite (class_count_spec st _ _ Hids Hct).
    assert (H1 : u32_ok (ti_id (snd (fst x))) = true) by (apply N.ltb_lt; rewrite Hnext in Hid; lia).
    rewrite H1, (Hpn _ Hx). cbn [andb].
    destruct (encode_cols_succeed _ _ _ _ _ _ He Hst x Hx) as (b & Hb).
    unfold spec_body.
    destruct (spec_col _ _ _) as [k|] eqn:Ek.
    + rewrite (Hcols x k Hx Ek). cbn [andb]. rewrite (spec_col_len _ _ _ _ Ek), col_values_length. apply Nat.eqb_refl.
    + destruct (wire_type_eq_dec_seccap (pi_type (snd (snd x)))) as [E|Hne].
      * rewrite E in *. cbn [wire_id].
        replace (byte_ok 33) with true by reflexivity. cbn [bs_known_type negb andb]. apply enc_i64_array_ok.
      * destruct (enc_col_described _ _ _ _ Hb Hne) as (k & Hk). congruence.
  - (* PRNT rows *) apply forallb_forall. intros t Ht. unfold spec_prnt in Ht. apply in_map_iff in Ht. destruct Ht as (r & <- & _).
    cbn [fst snd]. now rewrite fz_range, pz_range.
  - unfold len_ok, spec_prnt. rewrite map_length. apply Hu32. lia.
  - apply Z.ltb_lt. rewrite map_length. lia.
  - apply Z.ltb_lt. rewrite inst_total_spec, (Permutation_length Hperm). lia.
Qed.

(* the class-name clause of [wire_ranges_ok] follows from the DOM: every class of the table is the class of a written instance *)
Lemma wr_class_names_from_dom d ep dom roots st :
  add_instances d ep dom roots = Ok st ->
  Forall (fun i => BinSpec.str_ok (i_class i) = true) dom ->
  forall ct, In ct (ss_types st) -> BinSpec.str_ok (fst ct) = true.
Proof.
  intros Hst Hdom [c ti] Hct. cbn [fst].
  destruct (enc_class_ids _ _ _ _ _ Hst) as (_ & _ & _ & _ & _ & Hcls & _ & _).
  destruct (Hcls c ti Hct) as (Hti & Hne & _).
  destruct (ti_instances ti) as [|r l] eqn:E; [now elim Hne|].
  assert (Hr : In r (filter (of_class dom c) (ss_relevant st))) by (rewrite <- Hti; now left).
  apply filter_In in Hr. destruct Hr as [_ Hr]. unfold of_class in Hr. apply bytes_eqb_eq in Hr. subst c.
  unfold class_of. destruct (find_inst dom r) as [i|] eqn:Ei; [|reflexivity].
  apply find_inst_some in Ei. destruct Ei as [Hi _]. rewrite Forall_forall in Hdom. now apply Hdom.
Qed.


(* ================================================================ 6. D3, second half: the DOM the document assigns to the file *)
(* ---- 6a. the document's [bspec_to_dom] taken apart (facts about Spec/BinSpec.v only) *)
Section ToDomGeneric.
Variable sstr : list (bytes * bytes).
Variable lo : Z -> N.

Lemma sstr_go_length : forall (l : list N) vs,
  (fix go (l : list N) : res (list value) :=
     match l with
     | [] => Ok []
     | i :: r => match (if N.ltb i (N.of_nat (length sstr)) then nth_error sstr (N.to_nat i) else None) with
                 | Some e => (rest <- go r ;; Ok (VSharedString (snd e) :: rest))
                 | None => Err BS_DOM_SSTR_INDEX
                 end
     end) l = Ok vs -> length vs = length l.
Proof.
  induction l as [|i r IH]; intros vs.
  - now intros [= <-].
  - destruct (if N.ltb i (N.of_nat (length sstr)) then nth_error sstr (N.to_nat i) else None) as [e|]; [|discriminate].
    match goal with |- rbind ?X _ = _ -> _ => destruct X as [rest| | |] eqn:E end; cbn [rbind]; try discriminate.
    intros [= <-]. cbn [length]. now rewrite (IH _ eq_refl).
Qed.

Lemma bs_col_values_length k vs : bs_col_values sstr lo k = Ok vs -> length vs = bs_col_len k.
Proof.
  destruct k; cbn [bs_col_values bs_col_len]; try (intros [= <-]; now rewrite map_length).
  apply sstr_go_length.
Qed.

Definition body_values (b : bs_body) : option (list value) :=
  match b with
  | BValues k => match bs_col_values sstr lo k with Ok vs => Some vs | _ => None end
  | _ => None
  end.
(* every column has DOM values (only a SharedString index outside the SSTR table could prevent it) *)
Definition body_total (b : bs_body) : Prop :=
  match b with BValues k => exists vs, bs_col_values sstr lo k = Ok vs | _ => True end.

Definition ccols (id : N) (ps : list bs_prop) : list (bytes * list value) :=
  flat_map (fun p => if N.eqb (bp_class p) id
                     then match body_values (bp_body p) with Some vs => [(bp_name p, vs)] | None => [] end
                     else []) ps.

Lemma class_cols_spec id ps : Forall (fun p => body_total (bp_body p)) ps -> class_cols sstr lo id ps = Ok (ccols id ps).
Proof.
  induction 1 as [|p ps Hp _ IH]; [reflexivity|].
  cbn [class_cols ccols flat_map]. rewrite IH. cbn [rbind]. fold (ccols id ps).
  destruct (N.eqb (bp_class p) id); [|reflexivity].
  destruct (bp_body p) as [k| |ty raw]; cbn [body_values body_total] in *; try reflexivity.
  destruct Hp as (vs & ->). reflexivity.
Qed.

Definition row (k : nat) (cols : list (bytes * list value)) : list (bytes * value) :=
  flat_map (fun nv => match nth_error (snd nv) k with Some v => [(fst nv, v)] | None => [] end) cols.

Lemma row_props_spec k cols : Forall (fun nv => (k < length (snd nv))%nat) cols -> row_props k cols = Ok (row k cols).
Proof.
  induction 1 as [|[name vs] cols Hk _ IH]; [reflexivity|].
  cbn [row_props row flat_map fst snd] in *. destruct (nth_error vs k) as [v|] eqn:E.
  - rewrite IH. reflexivity.
  - apply nth_error_None in E. lia.
Qed.

Fixpoint cinsts (cname : bytes) (refs : list Z) (k : nat) (cols : list (bytes * list value))
  : list (Z * (bytes * list (bytes * value))) :=
  match refs with [] => [] | r :: rs => (r, (cname, row k cols)) :: cinsts cname rs (S k) cols end.

Lemma class_instances_spec cname cols : forall refs k,
  Forall (fun nv => (k + length refs <= length (snd nv))%nat) cols ->
  class_instances cname refs k cols = Ok (cinsts cname refs k cols).
Proof.
  induction refs as [|r rs IH]; intros k H; [reflexivity|].
  cbn [class_instances cinsts]. rewrite row_props_spec.
  - cbn [rbind]. rewrite IH; [reflexivity|]. eapply Forall_impl; [|exact H]. intros nv Hn. cbn [length] in Hn. lia.
  - eapply Forall_impl; [|exact H]. intros nv Hn. cbn [length] in Hn. lia.
Qed.

Definition ainsts (ps : list bs_prop) (cs : list bs_class) : list (Z * (bytes * list (bytes * value))) :=
  flat_map (fun c => cinsts (cls_name c) (cls_refs c) 0 (ccols (cls_id c) ps)) cs.

Lemma all_instances_spec ps cs :
  Forall (fun p => body_total (bp_body p)) ps ->
  Forall (fun c => Forall (fun nv => (length (cls_refs c) <= length (snd nv))%nat) (ccols (cls_id c) ps)) cs ->
  all_instances sstr lo ps cs = Ok (ainsts ps cs).
Proof.
  intros Hp. induction 1 as [|c cs Hc _ IH]; [reflexivity|].
  cbn [all_instances ainsts flat_map]. rewrite (class_cols_spec _ _ Hp). cbn [rbind].
  rewrite class_instances_spec by exact Hc. cbn [rbind]. rewrite IH. reflexivity.
Qed.

Lemma cinsts_length cname cols : forall refs k, length (cinsts cname refs k cols) = length refs.
Proof. induction refs as [|r rs IH]; intros k; [reflexivity|]. cbn [cinsts length]. now rewrite IH. Qed.

Lemma cinsts_keys cname cols : forall refs k, List.map fst (cinsts cname refs k cols) = refs.
Proof. induction refs as [|r rs IH]; intros k; [reflexivity|]. cbn [cinsts List.map fst]. now rewrite IH. Qed.

Lemma cinsts_nth cname cols : forall refs k j r, nth_error refs j = Some r ->
  In (r, (cname, row (k + j) cols)) (cinsts cname refs k cols).
Proof.
  induction refs as [|r0 rs IH]; intros k j r Hj; [destruct j; discriminate|].
  destruct j as [|j]; cbn [nth_error] in Hj.
  - injection Hj as ->. left. now rewrite Nat.add_0_r.
  - right. replace (k + S j)%nat with (S k + j)%nat by lia. now apply IH.
Qed.

Lemma find_Z_in {A} (k : Z) (v : A) l : NoDup (List.map fst l) -> In (k, v) l -> find_Z k l = Some v.
Proof.
  induction l as [|[k' v'] l IH]; intros Hnd Hin; [contradiction|].
  cbn [List.map fst] in Hnd. inversion Hnd as [|? ? Hni Hnd']; subst. cbn [find_Z]. destruct Hin as [E|Hin].
  - injection E as -> ->. now rewrite Z.eqb_refl.
  - destruct (Z.eqb_spec k k') as [->|_]; [|now apply IH].
    exfalso. apply Hni. apply in_map_iff. exists (k', v). auto.
Qed.
End ToDomGeneric.

(* the row loop of [bspec_to_dom], named *)
Definition node_go (kids : list Z) (allinst : list (Z * (bytes * list (bytes * value)))) :=
  fix go (rows : list (Z * Z)) (k : N) : res (list bs_node) :=
     match rows with
     | [] => Ok []
     | (c, p) :: r =>
       if negb (Nat.eqb (count_Z c kids) 1) then Err BS_DOM_PRNT else
       match find_Z c allinst with
       | None => Err BS_DOM_PRNT
       | Some (cname, ps) =>
         let '(nm, ps') := take_name ps in
         let parent := if Z.eqb p (-1) then Some 0 else index_Z p kids 1 in
         match parent with
         | None => Err BS_DOM_PRNT
         | Some pl =>
           rest <- go r (k + 1) ;;
           Ok (mkNode k pl cname (match nm with Some s => s | None => cname end) ps' :: rest)
         end
       end
     end.

Lemma bspec_to_dom_unfold f :
  bspec_to_dom f =
  (let kids := List.map fst (bf_prnt f) in
   let label_of := fun r => match index_Z r kids 1 with Some k => k | None => 0 end in
   let sstr := match bf_sstr f with Some l => l | None => [] end in
   allinst <- all_instances sstr label_of (bf_props f) (bf_classes f) ;;
   if negb (Nat.eqb (length allinst) (length kids)) then Err BS_DOM_PRNT else node_go kids allinst (bf_prnt f) 1).
Proof. reflexivity. Qed.

Section NodeGo.
Variable kids : list Z.
Variable allinst : list (Z * (bytes * list (bytes * value))).
Variables (fzr pzr : N -> Z) (pl : N -> N) (cn : N -> bytes) (ps : N -> list (bytes * value)).

Definition node_at (k : N) (r : N) : bs_node :=
  mkNode k (pl r) (cn r) (match fst (take_name (ps r)) with Some s => s | None => cn r end) (snd (take_name (ps r))).
Fixpoint nodes_from (k : N) (l : list N) : list bs_node :=
  match l with [] => [] | r :: l' => node_at k r :: nodes_from (k + 1) l' end.

Lemma node_go_spec : forall l k,
  (forall r, In r l -> count_Z (fzr r) kids = 1%nat /\ find_Z (fzr r) allinst = Some (cn r, ps r) /\
                       (if Z.eqb (pzr r) (-1) then Some 0 else index_Z (pzr r) kids 1) = Some (pl r)) ->
  node_go kids allinst (List.map (fun r => (fzr r, pzr r)) l) k = Ok (nodes_from k l).
Proof.
  induction l as [|r l IH]; intros k H; [reflexivity|].
  destruct (H r (or_introl eq_refl)) as (Hc & Hf & Hp).
  cbn [List.map node_go nodes_from]. rewrite Hc. cbn [Nat.eqb negb]. rewrite Hf.
  unfold node_at. destruct (take_name (ps r)) as [nm ps'] eqn:Et. rewrite Hp. cbn [fst snd].
  fold (node_go kids allinst). rewrite IH by (intros r' Hr'; apply H; now right). reflexivity.
Qed.
End NodeGo.

(* ---- 6b. the pieces for [spec_file] *)
Lemma index_Z_map_inj (g : N -> Z) : forall l r base,
  (forall a b, In a l -> In b l -> g a = g b -> a = b) -> In r l ->
  index_Z (g r) (List.map g l) base = Some (base + N.of_nat (npos r l)).
Proof.
  induction l as [|x l IH]; intros r base Hinj Hin; [contradiction|].
  cbn [List.map index_Z npos]. destruct (Z.eqb_spec (g r) (g x)) as [E|Hne].
  - apply Hinj in E; [|exact Hin|now left]. subst x. rewrite N.eqb_refl. f_equal. cbn. lia.
  - destruct (N.eqb_spec r x) as [->|Hrx]; [contradiction|].
    destruct Hin as [->|Hin]; [contradiction|].
    rewrite IH; [f_equal; lia| |exact Hin]. intros a b Ha Hb. apply Hinj; now right.
Qed.

Lemma count_Z_NoDup x : forall l, NoDup l -> In x l -> count_Z x l = 1%nat.
Proof.
  induction l as [|y l IH]; intros Hnd Hin; [contradiction|]. inversion Hnd as [|? ? Hni Hnd']; subst.
  cbn [count_Z]. destruct (Z.eqb_spec x y) as [->|Hne].
  - assert (count_Z y l = 0%nat); [|lia]. clear - Hni. induction l as [|z l IH]; [reflexivity|].
    cbn [count_Z]. destruct (Z.eqb_spec y z) as [->|_]; [exfalso; apply Hni; now left|]. apply IH. intros H. apply Hni. now right.
  - destruct Hin as [->|Hin]; [contradiction|]. now rewrite IH.
Qed.

Lemma omap_Forall {A} (f : value -> option A) (P : A -> Prop) : (forall v a, f v = Some a -> P a) ->
  forall vs xs, omap f vs = Some xs -> Forall P xs.
Proof.
  intros H. induction vs as [|v r IH]; intros xs; cbn [omap].
  - intros [= <-]. constructor.
  - destruct (f v) as [a|] eqn:E; [|discriminate]. destruct (omap f r) as [l|]; [|discriminate].
    intros [= <-]. constructor; [exact (H _ _ E)|now apply IH].
Qed.

Lemma index_of_lt s : forall l k i, index_of s l k = Some i -> k <= i < k + N.of_nat (length l).
Proof.
  induction l as [|x l IH]; intros k i; cbn [index_of]; [discriminate|].
  destruct (bytes_eqb s x).
  - intros [= <-]. cbn [length]. lia.
  - intros H. apply IH in H. cbn [length]. lia.
Qed.

Lemma sstr_go_total (sstr : list (bytes * bytes)) : forall l, Forall (fun i => i < N.of_nat (length sstr)) l ->
  exists vs, (fix go (l : list N) : res (list value) :=
     match l with
     | [] => Ok []
     | i :: r => match (if N.ltb i (N.of_nat (length sstr)) then nth_error sstr (N.to_nat i) else None) with
                 | Some e => (rest <- go r ;; Ok (VSharedString (snd e) :: rest))
                 | None => Err BS_DOM_SSTR_INDEX
                 end
     end) l = Ok vs.
Proof.
  induction 1 as [|i l Hi _ IH]; [now exists []|]. destruct IH as (vs & IH).
  apply N.ltb_lt in Hi as Hi'. rewrite Hi'.
  destruct (nth_error sstr (N.to_nat i)) as [e|] eqn:E.
  - rewrite IH. cbn [rbind]. eauto.
  - apply nth_error_None in E. lia.
Qed.

Definition st_sstr (st : ser_state) : list (bytes * bytes) := List.map (fun s => (zeros16, s)) (ss_sstr st).

Lemma spec_file_sstr ep dom st :
  match bf_sstr (spec_file ep dom st) with Some l => l | None => [] end = st_sstr st.
Proof. cbn [spec_file bf_sstr]. unfold spec_sstr, st_sstr. now destruct (ss_sstr st). Qed.

Lemma spec_col_sstr_inv ty c vs l : spec_col ty c vs = Some (KSharedString l) -> omap (x_sstr c) vs = Some l.
Proof.
  destruct ty; cbn [spec_col]; try discriminate;
    match goal with |- option_map _ ?X = _ -> _ => destruct X eqn:E; cbn [option_map]; intros H; try discriminate H end.
  injection H as ->. reflexivity.
Qed.

(* every column the serializer describes has DOM values on the document side *)
Lemma spec_body_total ep dom st lo x : body_total (st_sstr st) lo (spec_body ep dom st x).
Proof.
  unfold spec_body. destruct (spec_col _ _ _) as [k|] eqn:Ek; cbn [body_total]; [|exact I].
  destruct k; try (eexists; reflexivity).
  (* SharedString: the indices come from the serializer's table *)
  cbn [bs_col_values]. apply sstr_go_total. apply spec_col_sstr_inv in Ek.
  apply (omap_Forall (x_sstr (enc_ctx_of ep st)) (fun a => a < N.of_nat (length (st_sstr st)))) in Ek; [exact Ek|].
  intros v a H. destruct v; cbn [x_sstr] in H; try discriminate. cbn [enc_ctx_of ec_sstr] in H.
  apply index_of_lt in H. unfold st_sstr. rewrite map_length. lia.
Qed.

(* the (serialized name, DOM values) of the columns of one class, in property table order *)
Definition class_dom_cols (ep : enc_params) (dom : cdom) (st : ser_state) (lo : Z -> N) (ct : bytes * type_info)
  : list (bytes * list value) :=
  flat_map (fun cp => match body_values (st_sstr st) lo (spec_body ep dom st (ct, cp)) with
                      | Some vs => [(pi_ser_name (snd cp), vs)] | None => [] end) (ti_props (snd ct)).

Lemma map_flat_map_nil {A B} (f : A -> list B) l : (forall x, In x l -> f x = []) -> flat_map f l = [].
Proof. intros H. induction l as [|x l IH]; [reflexivity|]. cbn [flat_map]. rewrite H by now left. apply IH. intros y Hy. apply H. now right. Qed.

Lemma ccols_app sstr lo id a b : ccols sstr lo id (a ++ b) = ccols sstr lo id a ++ ccols sstr lo id b.
Proof. unfold ccols. apply flat_map_app. Qed.

Lemma ccols_cons sstr lo id p ps :
  ccols sstr lo id (p :: ps) =
  (if N.eqb (bp_class p) id then match body_values sstr lo (bp_body p) with Some vs => [(bp_name p, vs)] | None => [] end else [])
  ++ ccols sstr lo id ps.
Proof. reflexivity. Qed.

Lemma ccols_one ep dom st lo id ct0 : forall l,
  ccols (st_sstr st) lo id (List.map (spec_prop ep dom st) (List.map (fun cp => (ct0, cp)) l)) =
  if N.eqb (ti_id (snd ct0)) id
  then flat_map (fun cp => match body_values (st_sstr st) lo (spec_body ep dom st (ct0, cp)) with
                           | Some vs => [(pi_ser_name (snd cp), vs)] | None => [] end) l
  else [].
Proof.
  induction l as [|cp l IH]; [now destruct (N.eqb _ _)|].
  cbn [List.map]. rewrite ccols_cons, IH.
  cbn [spec_prop bp_class bp_name bp_body fst snd flat_map]. destruct (N.eqb (ti_id (snd ct0)) id); reflexivity.
Qed.

Lemma app_eq_l {T} (a x : list T) : x = [] -> a ++ x = a.
Proof. intros ->. apply app_nil_r. Qed.

Lemma cols_cons c0 types : cols (c0 :: types) = List.map (fun cp => (c0, cp)) (ti_props (snd c0)) ++ cols types.
Proof. reflexivity. Qed.

Lemma ccols_class ep dom st lo : forall types ct, NoDup (type_ids types) -> In ct types ->
  ccols (st_sstr st) lo (ti_id (snd ct)) (List.map (spec_prop ep dom st) (cols types)) = class_dom_cols ep dom st lo ct.
Proof.
  induction types as [|c0 types IH]; intros ct Hnd Hin; [contradiction|].
  cbn [type_ids List.map] in Hnd. inversion Hnd as [|? ? Hni Hnd']; subst.
  rewrite cols_cons, map_app, ccols_app, ccols_one.
  assert (Hother : forall ct', In ct' types -> ti_id (snd ct') <> ti_id (snd c0)).
  { intros ct' Hct' E. apply Hni. rewrite <- E. apply in_map_iff. exists ct'. auto. }
  destruct Hin as [->|Hin].
  - rewrite N.eqb_refl. unfold class_dom_cols.
    apply app_eq_l.
    unfold ccols. clear - Hother. unfold cols. rewrite map_flat_map_nil; [reflexivity|].
    intros p Hp. apply in_map_iff in Hp. destruct Hp as (x & <- & Hx). apply in_flat_map in Hx. destruct Hx as (ct' & Hct' & Hx).
    apply in_map_iff in Hx. destruct Hx as (cp & <- & _). cbn [spec_prop bp_class fst snd].
    destruct (N.eqb_spec (ti_id (snd ct')) (ti_id (snd ct))) as [E|_]; [now elim (Hother _ Hct')|reflexivity].
  - destruct (N.eqb_spec (ti_id (snd c0)) (ti_id (snd ct))) as [E|_]; [symmetry in E; now elim (Hother _ Hin)|].
    cbn [app]. now apply IH.
Qed.

(* ---- 6c. the nodes the document assigns to the written file *)
Definition st_kids (st : ser_state) : list Z := List.map (fz st) (ss_relevant st).
(* the document labels the instance of PRNT row k with k+1; 0 = no such instance *)
Definition st_label (st : ser_state) (z : Z) : N := match index_Z z (st_kids st) 1 with Some k => k | None => 0 end.
Definition ti0 : type_info := mkTI 0 false [] [] None [].
(* the class table entry of a written instance *)
Definition r_class (dom : cdom) (st : ser_state) (r : N) : bytes * type_info :=
  (class_of dom r, match bfind (class_of dom r) (ss_types st) with Some ti => ti | None => ti0 end).
(* its row: (serialized name, value) from every column of its class, at its position in the class *)
Definition r_row (ep : enc_params) (dom : cdom) (st : ser_state) (r : N) : list (bytes * value) :=
  let ct := r_class dom st r in
  row (npos r (ti_instances (snd ct))) (class_dom_cols ep dom st (st_label st) ct).
Definition r_parent (dom : cdom) (st : ser_state) (r : N) : N :=
  if Z.eqb (pz dom st r) (-1) then 0 else st_label st (pz dom st r).
Definition spec_nodes (ep : enc_params) (dom : cdom) (st : ser_state) : list bs_node :=
  nodes_from (r_parent dom st) (class_of dom) (r_row ep dom st) 1 (ss_relevant st).

Lemma ainsts_keys sstr lo ps : forall cs, List.map fst (ainsts sstr lo ps cs) = flat_map cls_refs cs.
Proof.
  induction cs as [|c cs IH]; [reflexivity|]. unfold ainsts in *. cbn [flat_map]. now rewrite map_app, cinsts_keys, IH.
Qed.

Lemma class_refs_spec st : forall types,
  flat_map cls_refs (List.map (spec_class st) types) = List.map (fz st) (flat_map (fun ct => ti_instances (snd ct)) types).
Proof.
  induction types as [|ct types IH]; [reflexivity|]. cbn [List.map flat_map spec_class cls_refs]. now rewrite map_app, IH.
Qed.

Lemma lookup_refs_in r l : forall next acc z, lookup r (referent_table next l acc) = Some z -> lookup r acc = None -> In r l.
Proof.
  intros next acc z H Hacc. destruct (in_dec N.eq_dec r l) as [Hin|Hni]; [exact Hin|].
  rewrite (referent_table_notin r l next acc Hni) in H. congruence.
Qed.

Theorem spec_dom_structure d ep dom ts e st :
  input_ok dom ts ->
  encode_chunks d ep dom (List.map root ts) = Ok e ->
  add_instances d ep dom (List.map root ts) = Ok st ->
  bspec_to_dom (spec_file ep dom st) = Ok (spec_nodes ep dom st).
Proof.
  intros (Hwf & Hdom & Hag & Hnd & H0) He Hst.
  destruct (enc_parts _ _ _ _ _ Hdom Hag Hnd He) as (st' & insts & props & Hst' & Hrel & Hndr & Hlen & _).
  rewrite Hst in Hst'. injection Hst' as <-.
  destruct (enc_class_ids _ _ _ _ _ Hst) as (_ & Hkeys & _ & Hids & _ & Hcls & Hcov & Hperm).
  destruct (enc_class_membership _ _ _ _ _ Hag Hnd Hst) as (_ & Hndi & _).
  set (lo := st_label st). set (sstr := st_sstr st).
  set (f := spec_file ep dom st).
  assert (Hkids : List.map fst (bf_prnt f) = st_kids st).
  { unfold f. cbn [spec_file bf_prnt]. unfold spec_prnt, st_kids. rewrite map_map. reflexivity. }
  rewrite bspec_to_dom_unfold. cbv zeta. rewrite Hkids. fold (st_label st). fold lo.
  unfold f at 1. rewrite spec_file_sstr. fold sstr. unfold f at 1 2. cbn [spec_file bf_props bf_classes].
  (* the instance table *)
  assert (Hcc : forall ct, In ct (ss_types st) ->
            ccols sstr lo (ti_id (snd ct)) (List.map (spec_prop ep dom st) (cols (ss_types st))) = class_dom_cols ep dom st lo ct).
  { intros ct Hct. now apply ccols_class. }
  assert (Hcl : forall ct nv, In ct (ss_types st) -> In nv (class_dom_cols ep dom st lo ct) ->
            length (snd nv) = length (ti_instances (snd ct))).
  { intros ct nv Hct Hnv. unfold class_dom_cols in Hnv. apply in_flat_map in Hnv. destruct Hnv as (cp & Hcp & Hnv).
    unfold spec_body in Hnv. destruct (spec_col _ _ _) as [k|] eqn:Ek; cbn [body_values] in Hnv; [|contradiction].
    fold sstr in Hnv. destruct (bs_col_values sstr lo k) as [vs| | |] eqn:Ev; try contradiction.
    destruct Hnv as [<-|[]]. cbn [snd]. rewrite (bs_col_values_length _ _ _ _ Ev), (spec_col_len _ _ _ _ Ek), col_values_length.
    reflexivity. }
  rewrite (all_instances_spec sstr lo).
  2:{ apply Forall_forall. intros p Hp. apply in_map_iff in Hp. destruct Hp as (x & <- & _). apply spec_body_total. }
  2:{ apply Forall_forall. intros c Hc. apply in_map_iff in Hc. destruct Hc as (ct & <- & Hct).
      cbn [spec_class cls_id cls_refs]. rewrite (Hcc ct Hct). apply Forall_forall. intros nv Hnv.
      rewrite map_length, (Hcl ct nv Hct Hnv). apply le_n. }
  cbn [rbind].
  set (allinst := ainsts sstr lo (List.map (spec_prop ep dom st) (cols (ss_types st))) (List.map (spec_class st) (ss_types st))).
  assert (Hak : List.map fst allinst = List.map (fz st) (inst_order (ss_types st))).
  { unfold allinst. rewrite ainsts_keys, class_refs_spec. reflexivity. }
  assert (Hal : length allinst = length (st_kids st)).
  { rewrite <- (map_length fst allinst), Hak. unfold st_kids, inst_order. rewrite !map_length. exact (Permutation_length Hperm). }
  rewrite Hal, Nat.eqb_refl. cbn [negb].
  assert (Hndk : NoDup (st_kids st)).
  { unfold st_kids. apply fz_map_NoDup; [exact Hndr|apply incl_refl|exact Hndr]. }
  assert (Hnda : NoDup (List.map fst allinst)).
  { rewrite Hak. apply fz_map_NoDup; [exact Hndr| |exact Hndi].
    intros r Hr. eapply Permutation_in; [exact Hperm|exact Hr]. }
  unfold f, spec_nodes. cbn [spec_file bf_prnt]. unfold spec_prnt.
  apply node_go_spec. intros r Hr.
  assert (Hidx : forall q, In q (ss_relevant st) -> index_Z (fz st q) (st_kids st) 1 = Some (1 + N.of_nat (npos q (ss_relevant st)))).
  { intros q Hq. unfold st_kids. apply index_Z_map_inj; [|exact Hq]. intros a b Ha Hb. now apply fz_inj. }
  split; [|split].
  - apply count_Z_NoDup; [exact Hndk|]. unfold st_kids. now apply in_map.
  - (* the instance table entry of r *)
    destruct (Hcov r Hr) as (ti & Hct).
    assert (Hbf : bfind (class_of dom r) (ss_types st) = Some ti) by (apply BinColumnsFacts.in_bfind; assumption).
    assert (Erc : r_class dom st r = (class_of dom r, ti)) by (unfold r_class; now rewrite Hbf).
    destruct (Hcls _ _ Hct) as (Hti & _ & _).
    assert (Hrin : In r (ti_instances ti)).
    { rewrite Hti. apply filter_In. split; [exact Hr|]. unfold of_class. apply BinColumnsFacts.bytes_eqb_refl. }
    apply find_Z_in; [exact Hnda|]. unfold allinst, ainsts. apply in_flat_map.
    exists (spec_class st (class_of dom r, ti)). split; [apply in_map; exact Hct|].
    cbn [spec_class cls_name cls_refs cls_id]. rewrite (Hcc _ Hct). cbn [fst snd].
    unfold r_row. rewrite Erc. cbn [snd].
    apply (cinsts_nth lo (class_of dom r) (class_dom_cols ep dom st lo (class_of dom r, ti)) _ 0 (npos r (ti_instances ti))).
    apply map_nth_error. now apply npos_nth.
  - (* the parent label *)
    unfold r_parent. destruct (Z.eqb_spec (pz dom st r) (-1)) as [E|Hne]; [reflexivity|].
    unfold st_label. fold lo.
    assert (Hp : exists q, In q (ss_relevant st) /\ pz dom st r = fz st q).
    { unfold pz, parent_val in *. destruct (find_inst dom r) as [i|]; [|contradiction].
      destruct (N.eqb (i_parent i) 0); [contradiction|].
      destruct (lookup (i_parent i) (enc_refs st)) as [z|] eqn:El; [|contradiction].
      exists (i_parent i). split; [exact (lookup_refs_in _ _ _ _ _ El eq_refl)|]. unfold fz. now rewrite El. }
    destruct Hp as (q & Hq & ->). unfold lo, st_label. now rewrite (Hidx q Hq).
Qed.

(* ---- 6d. names, parents, property lists *)
Definition is_name_cell (kv : bytes * value) : bool :=
  bytes_eqb (fst kv) NAME_PROP_NAME && match snd kv with VString _ => true | _ => false end.

Lemma take_name_snd l : snd (take_name l) = filter (fun kv => negb (is_name_cell kv)) l.
Proof.
  induction l as [|[k v] l IH]; [reflexivity|]. cbn [take_name filter]. destruct (take_name l) as [nm rest]. cbn [snd] in IH.
  unfold is_name_cell. cbn [fst snd]. destruct (bytes_eqb k NAME_PROP_NAME); cbn [andb negb]; [|now rewrite IH].
  destruct v; cbn [negb snd]; now rewrite IH.
Qed.

Lemma take_name_fst_app : forall l1 s l2, (forall kv, In kv l1 -> fst kv <> NAME_PROP_NAME) ->
  fst (take_name (l1 ++ (NAME_PROP_NAME, VString s) :: l2)) = Some s.
Proof.
  induction l1 as [|[k v] l1 IH]; intros s l2 H.
  - cbn [app take_name]. destruct (take_name l2). now rewrite name_eqb_refl.
  - cbn [app take_name]. specialize (IH s l2 (fun kv Hkv => H kv (or_intror Hkv))).
    destruct (take_name (l1 ++ (NAME_PROP_NAME, VString s) :: l2)) as [nm rest]. cbn [fst] in IH. subst nm.
    rewrite (bytes_eqb_neq k NAME_PROP_NAME (H (k, v) (or_introl eq_refl))). reflexivity.
Qed.

Lemma NAME_is_Name : NAME = NAME_PROP_NAME.
Proof. reflexivity. Qed.

(* the cell a column contributes to the row of the j-th instance of its class *)
Definition cell (ep : enc_params) (dom : cdom) (st : ser_state) (ct : bytes * type_info) (j : nat) (cp : bytes * prop_info)
  : list (bytes * value) :=
  match body_values (st_sstr st) (st_label st) (spec_body ep dom st (ct, cp)) with
  | Some vs => match nth_error vs j with Some v => [(pi_ser_name (snd cp), v)] | None => [] end
  | None => []
  end.

Lemma flat_map_flat_map {A B C} (f : B -> list C) (g : A -> list B) l :
  flat_map f (flat_map g l) = flat_map (fun x => flat_map f (g x)) l.
Proof. induction l as [|x l IH]; [reflexivity|]. cbn [flat_map]. now rewrite flat_map_app, IH. Qed.

Lemma r_row_cells ep dom st r :
  r_row ep dom st r =
  flat_map (cell ep dom st (r_class dom st r) (npos r (ti_instances (snd (r_class dom st r))))) (ti_props (snd (r_class dom st r))).
Proof.
  unfold r_row, row, class_dom_cols. cbv zeta. rewrite flat_map_flat_map. apply flat_map_ext'. intros cp.
  unfold cell. destruct (body_values _ _ _) as [vs|]; [|reflexivity]. cbn [flat_map fst snd]. now rewrite app_nil_r.
Qed.

(* the Name column: the String property "Name" the serializer adds to every class carries the instance names *)
Lemma name_cell ep dom st c ti pi j r :
  pi_type pi = WString -> pi_ser_name pi = NAME -> pi_migration pi = None ->
  nth_error (ti_instances ti) j = Some r ->
  cell ep dom st (c, ti) j (NAME, pi) = [(NAME_PROP_NAME, VString (i_name (src dom r)))].
Proof.
  intros Hty Hsn Hmig Hj. unfold cell, spec_body. cbn [fst snd]. rewrite Hty, Hsn.
  assert (Ev : col_values ep dom ((c, ti), (NAME, pi)) = List.map VString (List.map (fun q => i_name (src dom q)) (ti_instances ti))).
  { cbn [col_values]. rewrite !map_map. apply map_ext. intros q. unfold prop_value.
    rewrite BinColumnsFacts.bytes_eqb_refl, Hmig. reflexivity. }
  rewrite Ev. cbn [spec_col]. rewrite (omap_map x_string VString (fun s => s)) by reflexivity. rewrite map_id.
  cbn [option_map body_values bs_col_values]. rewrite map_map.
  rewrite (map_nth_error _ _ _ Hj). reflexivity.
Qed.

Lemma r_row_name ep dom st r c ti :
  name_cols_ok st -> In (c, ti) (ss_types st) -> r_class dom st r = (c, ti) -> In r (ti_instances ti) ->
  fst (take_name (r_row ep dom st r)) = Some (i_name (src dom r)).
Proof.
  intros Hn Hct Erc Hr. rewrite r_row_cells, Erc. cbn [snd].
  destruct (Hn c ti Hct) as [(pi & Hpi) Hall].
  assert (Hb : exists pi', bfind NAME (ti_props ti) = Some pi').
  { destruct (bfind NAME (ti_props ti)) as [pi'|] eqn:E; [eauto|].
    exfalso. apply (bfind_none_neq _ _ E NAME); [|reflexivity]. apply in_map_iff. exists (NAME, pi). auto. }
  destruct Hb as (pi' & Hb). destruct (bfind_split _ _ _ Hb) as (l1 & l2 & Hsplit & Hni & _).
  assert (Hin' : In (NAME, pi') (ti_props ti)) by (rewrite Hsplit; apply in_or_app; right; now left).
  destruct (Hall NAME pi' Hin') as [Hsn Hrest]. destruct (Hrest eq_refl) as [Hty Hmig].
  rewrite Hsplit, flat_map_app. cbn [flat_map].
  rewrite (name_cell ep dom st c ti pi' _ r Hty (proj2 Hsn eq_refl) Hmig (npos_nth _ _ Hr)). cbn [app].
  apply take_name_fst_app.
  intros kv Hkv. apply in_flat_map in Hkv. destruct Hkv as ([canon q] & Hq & Hkv).
  unfold cell in Hkv. destruct (body_values _ _ _) as [vs|]; [|contradiction].
  destruct (nth_error vs _); [|contradiction]. destruct Hkv as [<-|[]]. cbn [fst snd].
  assert (Hq' : In (canon, q) (ti_props ti)) by (rewrite Hsplit; apply in_or_app; now left).
  destruct (Hall canon q Hq') as [Hiff _]. intros E. rewrite <- NAME_is_Name in E. apply Hiff in E. subst canon.
  apply Hni. apply in_map_iff. exists (NAME, q). auto.
Qed.

(* ---- 6e. property values: what the document makes of one written value *)
Section DomValues.
Variable sstr : list (bytes * bytes).
Variable lo : Z -> N.

(* the DOM value the document assigns to the entry of a column of wire type [ty] that the serializer wrote for [v] *)
Definition wire_dom_value (ty : wire_type) (c : enc_ctx) (v : value) : option value :=
  match spec_col ty c [v] with
  | Some k => match bs_col_values sstr lo k with Ok [v'] => Some v' | _ => None end
  | None => None
  end.

Lemma pw_generic {A} (f : value -> option A) (K : list A -> bs_column) (F : A -> value) :
  (forall xs, bs_col_values sstr lo (K xs) = Ok (List.map F xs)) ->
  forall vs xs, omap f vs = Some xs ->
  Forall2 (fun v v' => match option_map K (omap f [v]) with
                       | Some k => match bs_col_values sstr lo k with Ok [v'0] => Some v'0 | _ => None end
                       | None => None end = Some v') vs (List.map F xs).
Proof.
  intros HK. induction vs as [|v r IH]; intros xs; cbn [omap].
  - intros [= <-]. constructor.
  - destruct (f v) as [a|] eqn:E; [|discriminate]. destruct (omap f r) as [l|] eqn:Er; [|discriminate].
    intros [= <-]. cbn [List.map]. constructor; [|now apply IH].
    rewrite E. cbn [option_map]. now rewrite HK.
Qed.

Lemma sstr_go_cons i r vals :
  bs_col_values sstr lo (KSharedString (i :: r)) = Ok vals ->
  exists e rest, (if N.ltb i (N.of_nat (length sstr)) then nth_error sstr (N.to_nat i) else None) = Some e /\
    bs_col_values sstr lo (KSharedString r) = Ok rest /\ vals = VSharedString (snd e) :: rest.
Proof.
  cbn [bs_col_values].
  destruct (if N.ltb i (N.of_nat (length sstr)) then nth_error sstr (N.to_nat i) else None) as [e|]; [|discriminate].
  match goal with |- rbind ?X _ = _ -> _ => destruct X as [rest| | |] end; cbn [rbind]; try discriminate.
  intros [= <-]. eauto.
Qed.

(* D1/D3 link: the DOM values of a described column are the per-value readings of the written values, in order *)
Theorem col_values_pointwise ty c vs k vals :
  spec_col ty c vs = Some k -> bs_col_values sstr lo k = Ok vals ->
  Forall2 (fun v v' => wire_dom_value ty c v = Some v') vs vals.
Proof.
  unfold wire_dom_value.
  destruct ty; cbn [spec_col]; try discriminate;
    (match goal with |- option_map _ ?X = _ -> _ => destruct X as [xs|] eqn:Eo; cbn [option_map]; [|discriminate] end);
    intros [= <-];
    try (cbn [bs_col_values]; intros [= <-];
         refine (pw_generic _ _ _ _ _ _ Eo); intros; reflexivity).
  (* SharedString *)
  revert xs vals Eo. induction vs as [|v r IH]; intros xs vals; cbn [omap].
  - intros [= <-] Hv. cbn [bs_col_values] in Hv. injection Hv as <-. constructor.
  - destruct (x_sstr c v) as [i|] eqn:E; [|discriminate]. destruct (omap (x_sstr c) r) as [l|] eqn:Er; [|discriminate].
    intros [= <-] Hv. apply sstr_go_cons in Hv. destruct Hv as (e & rest & He & Hr & ->).
    constructor; [|now apply (IH l)]. cbn [omap]. rewrite E. cbn [option_map bs_col_values]. now rewrite He.
Qed.
End DomValues.

(* ---- 6f. the table of [wire_dom_value]: what is recovered exactly, what is recovered up to the wire type.
   Exactly: Bool, Int32, Int64, Float32, Float64, Enum, BrickColor, Vector3, Vector2, Color3, UDim, UDim2, Rect, Color3uint8,
   Vector3int16, NumberRange, Ray, NumberSequence, ColorSequence, PhysicalProperties, UniqueId, String, Content.
   Up to the reader's normal form (as in BinRoundTrip): CFrame rotations snapped to an axis-aligned basis within EPSILON;
   Font with cached face id "" read as absent.
   Up to the wire type (the document has no database, so one wire type is one DOM type): BinaryString / ContentId / Tags /
   Attributes / MaterialColors written in a String column are String values; Int32 in an Int64 column, Float32 in a Float64
   column, EnumItem in an Enum column, Color3 in a Color3uint8 column are widened / quantised as the serializer does.
   Referents (Ref, Content.Object) become the document's label of the instance ([lo]); Faces / Axes keep their meaningful bits. *)
Section DomValueTable.
Variable sstr : list (bytes * bytes).
Variable lo : Z -> N.
Variable c : enc_ctx.
Lemma wdv_String (s : bytes) : wire_dom_value sstr lo WString c (VString s) = Some (VString s).
Proof. reflexivity. Qed.
Lemma wdv_BinaryString (s : bytes) : wire_dom_value sstr lo WString c (VBinaryString s) = Some (VString s).
Proof. reflexivity. Qed.
Lemma wdv_ContentId (s : bytes) : wire_dom_value sstr lo WString c (VContentId s) = Some (VString s).
Proof. reflexivity. Qed.
Lemma wdv_Tags (ts : list bytes) : wire_dom_value sstr lo WString c (VTags ts) = Some (VString (tags_encode ts)).
Proof. reflexivity. Qed.
Lemma wdv_MaterialColors (m : list (N * (N * N * N))) : wire_dom_value sstr lo WString c (VMaterialColors m) = Some (VString (matcol_encode m)).
Proof. reflexivity. Qed.
Lemma wdv_Bool (b : bool) : wire_dom_value sstr lo WBool c (VBool b) = Some (VBool b).
Proof. reflexivity. Qed.
Lemma wdv_Int32 (z : Z) : wire_dom_value sstr lo WInt32 c (VInt32 z) = Some (VInt32 z).
Proof. reflexivity. Qed.
Lemma wdv_Int64 (z : Z) : wire_dom_value sstr lo WInt64 c (VInt64 z) = Some (VInt64 z).
Proof. reflexivity. Qed.
Lemma wdv_Int32_as_Int64 (z : Z) : wire_dom_value sstr lo WInt64 c (VInt32 z) = Some (VInt64 z).
Proof. reflexivity. Qed.
Lemma wdv_Float32 (x : f32) : wire_dom_value sstr lo WFloat32 c (VFloat32 x) = Some (VFloat32 x).
Proof. reflexivity. Qed.
Lemma wdv_Float64 (x : f64) : wire_dom_value sstr lo WFloat64 c (VFloat64 x) = Some (VFloat64 x).
Proof. reflexivity. Qed.
Lemma wdv_Float32_as_Float64 (x : f32) : wire_dom_value sstr lo WFloat64 c (VFloat32 x) = Some (VFloat64 (f64_of_f32 x)).
Proof. reflexivity. Qed.
Lemma wdv_Enum (n : N) : wire_dom_value sstr lo WEnum c (VEnum n) = Some (VEnum n).
Proof. reflexivity. Qed.
Lemma wdv_EnumItem (t : bytes) (n : N) : wire_dom_value sstr lo WEnum c (VEnumItem t n) = Some (VEnum n).
Proof. reflexivity. Qed.
Lemma wdv_BrickColor (n : N) : wire_dom_value sstr lo WBrickColor c (VBrickColor n) = Some (VBrickColor n).
Proof. reflexivity. Qed.
Lemma wdv_Int32_as_BrickColor (z : Z) : wire_dom_value sstr lo WBrickColor c (VInt32 z) = Some (VBrickColor (wrap_u 32 z)).
Proof. reflexivity. Qed.
Lemma wdv_Vector3 (x y z : f32) : wire_dom_value sstr lo WVector3 c (VVector3 (mkV3 x y z)) = Some (VVector3 (mkV3 x y z)).
Proof. reflexivity. Qed.
Lemma wdv_Vector2 (x y : f32) : wire_dom_value sstr lo WVector2 c (VVector2 (mkV2 x y)) = Some (VVector2 (mkV2 x y)).
Proof. reflexivity. Qed.
Lemma wdv_Color3 (r g b : f32) : wire_dom_value sstr lo WColor3 c (VColor3 r g b) = Some (VColor3 r g b).
Proof. reflexivity. Qed.
Lemma wdv_UDim (u : udim) : wire_dom_value sstr lo WUDim c (VUDim u) = Some (VUDim u).
Proof. reflexivity. Qed.
Lemma wdv_UDim2 (x y : udim) : wire_dom_value sstr lo WUDim2 c (VUDim2 x y) = Some (VUDim2 x y).
Proof. reflexivity. Qed.
Lemma wdv_Rect (lo' hi : vec2) : wire_dom_value sstr lo WRect c (VRect lo' hi) = Some (VRect lo' hi).
Proof. reflexivity. Qed.
Lemma wdv_Color3uint8 (r g b : N) : wire_dom_value sstr lo WColor3uint8 c (VColor3uint8 r g b) = Some (VColor3uint8 r g b).
Proof. reflexivity. Qed.
Lemma wdv_Color3_as_Color3uint8 (r g b : f32) : wire_dom_value sstr lo WColor3uint8 c (VColor3 r g b) = Some (VColor3uint8 (ec_quant c r) (ec_quant c g) (ec_quant c b)).
Proof. reflexivity. Qed.
Lemma wdv_Vector3int16 (x y z : Z) : wire_dom_value sstr lo WVector3int16 c (VVector3int16 x y z) = Some (VVector3int16 x y z).
Proof. reflexivity. Qed.
Lemma wdv_NumberRange (a b : f32) : wire_dom_value sstr lo WNumberRange c (VNumberRange a b) = Some (VNumberRange a b).
Proof. reflexivity. Qed.
Lemma wdv_Ray (o d : vec3) : wire_dom_value sstr lo WRay c (VRay o d) = Some (VRay o d).
Proof. reflexivity. Qed.
Lemma wdv_NumberSequence (k : list (f32 * f32 * f32)) : wire_dom_value sstr lo WNumberSequence c (VNumberSequence k) = Some (VNumberSequence k).
Proof. reflexivity. Qed.
Lemma wdv_PhysicalProperties (p : option physprops) : wire_dom_value sstr lo WPhysicalProperties c (VPhysicalProperties p) = Some (VPhysicalProperties p).
Proof. reflexivity. Qed.
Lemma wdv_UniqueId (i t : N) (r : Z) : wire_dom_value sstr lo WUniqueId c (VUniqueId i t r) = Some (VUniqueId i t r).
Proof. reflexivity. Qed.
Lemma wdv_Faces (b : N) : wire_dom_value sstr lo WFaces c (VFaces b) = Some (VFaces (b mod 64)).
Proof. reflexivity. Qed.
Lemma wdv_Axes (b : N) : wire_dom_value sstr lo WAxes c (VAxes b) = Some (VAxes (b mod 8)).
Proof. reflexivity. Qed.
Lemma wdv_CFrame (cf : cframe) : wire_dom_value sstr lo WCFrame c (VCFrame cf) = Some (VCFrame (BinValuesFacts3.norm_cframe cf)).
Proof. reflexivity. Qed.
Lemma wdv_OptionalCFrame_some (cf : cframe) : wire_dom_value sstr lo WOptionalCFrame c (VOptionalCFrame (Some cf)) = Some (VOptionalCFrame (Some (BinValuesFacts3.norm_cframe cf))).
Proof. reflexivity. Qed.
Lemma wdv_OptionalCFrame_none  : wire_dom_value sstr lo WOptionalCFrame c (VOptionalCFrame None) = Some (VOptionalCFrame None).
Proof. reflexivity. Qed.
Lemma wdv_Ref (r : N) : wire_dom_value sstr lo WRef c (VRef r) = Some (VRef (lo (ref_id c r))).
Proof. reflexivity. Qed.
Lemma wdv_Content_none  : wire_dom_value sstr lo WContent c (VContent CNone) = Some (VContent CNone).
Proof. reflexivity. Qed.
Lemma wdv_Content_uri (u : bytes) : wire_dom_value sstr lo WContent c (VContent (CUri u)) = Some (VContent (CUri u)).
Proof. reflexivity. Qed.
Lemma wdv_Content_object (r : N) : wire_dom_value sstr lo WContent c (VContent (CObject r)) = Some (VContent (CObject (lo (ref_id c r)))).
Proof. reflexivity. Qed.
Lemma wdv_Attributes (m : list (bytes * value)) buf : attr_encode m = Ok buf ->
  wire_dom_value sstr lo WString c (VAttributes m) = Some (VString buf).
Proof. intros H. unfold wire_dom_value. cbn [spec_col omap x_string]. now rewrite H. Qed.

Lemma wdv_ColorSequence (k : list (f32 * (f32 * f32 * f32))) :
  wire_dom_value sstr lo WColorSequence c (VColorSequence k) = Some (VColorSequence k).
Proof.
  unfold wire_dom_value. cbn [spec_col omap x_cseq r_cseq option_map bs_col_values List.map]. do 2 f_equal.
  rewrite map_map. rewrite <- (map_id k) at 2. apply map_ext. now intros [t [[r g] b]].
Qed.

Lemma wdv_Font (f : font) :
  wire_dom_value sstr lo WFont c (VFont f) =
  Some (VFont (mkFont (fo_family f) (fo_weight f) (fo_style f)
                      (match fo_cached f with Some (x :: r) => Some (x :: r) | _ => None end))).
Proof. unfold wire_dom_value. destruct f as [fam w s [[|x r]|]]; reflexivity. Qed.

Lemma wdv_SharedString (s : bytes) i e : ec_sstr c s = Some i -> i < N.of_nat (length sstr) -> nth_error sstr (N.to_nat i) = Some e ->
  wire_dom_value sstr lo WSharedString c (VSharedString s) = Some (VSharedString (snd e)).
Proof.
  intros Hi Hlt He. unfold wire_dom_value. cbn [spec_col omap x_sstr]. rewrite Hi. cbn [option_map bs_col_values].
  apply N.ltb_lt in Hlt. now rewrite Hlt, He.
Qed.

(* SecurityCapabilities (0x21) has no reading: the document does not define the type *)
Lemma wdv_SecurityCapabilities v : wire_dom_value sstr lo WSecurityCapabilities c v = None.
Proof. reflexivity. Qed.
End DomValueTable.

(* ---- 6g. D3, second half: the document recovers the written forest *)
(* the document's label of a written instance: its PRNT row number, from 1 *)
Definition L (st : ser_state) (r : N) : N := 1 + N.of_nat (npos r (ss_relevant st)).

Lemma ref_id_fz ep st r : ref_id (enc_ctx_of ep st) r = fz st r.
Proof. reflexivity. Qed.

Lemma st_label_fz st r : NoDup (ss_relevant st) -> In r (ss_relevant st) -> st_label st (fz st r) = L st r.
Proof.
  intros Hnd Hr. unfold st_label, st_kids, L. rewrite index_Z_map_inj; [reflexivity| |exact Hr].
  intros a b Ha Hb. now apply fz_inj.
Qed.

Lemma index_Z_notin z : forall l k, ~ In z l -> index_Z z l k = None.
Proof.
  induction l as [|y l IH]; intros k H; [reflexivity|]. cbn [index_Z].
  destruct (Z.eqb_spec z y) as [->|_]; [exfalso; apply H; now left|]. apply IH. intros Hin. apply H. now right.
Qed.

(* a referent that is not written (a Ref pointing outside the chosen subtrees) is the null referent for the document *)
Lemma st_label_unwritten st r : NoDup (ss_relevant st) -> ~ In r (ss_relevant st) -> st_label st (fz st r) = 0.
Proof.
  intros Hnd Hr. unfold st_label, st_kids. rewrite index_Z_notin; [reflexivity|].
  unfold fz at 1, enc_refs. rewrite (referent_table_notin r _ 0 [] Hr). cbn [lookup].
  intros Hin. apply in_map_iff in Hin. destruct Hin as (q & Hq & Hqr). pose proof (fz_nonneg st q Hnd Hqr). lia.
Qed.

Lemma index_of_nth s : forall l k i, index_of s l k = Some i -> nth_error l (N.to_nat (i - k)) = Some s.
Proof.
  induction l as [|x l IH]; intros k i; cbn [index_of]; [discriminate|].
  destruct (bytes_eqb s x) eqn:E.
  - intros [= <-]. apply bytes_eqb_eq in E. subst x. now rewrite N.sub_diag.
  - intros H. pose proof (index_of_lt _ _ _ _ H) as Hlt. apply IH in H.
    replace (N.to_nat (i - k)) with (S (N.to_nat (i - (k + 1)))) by lia. exact H.
Qed.

(* a SharedString value is recovered: the document looks its index up in the SSTR table *)
Lemma wdv_SharedString_model ep st lo s i :
  index_of s (ss_sstr st) 0 = Some i ->
  wire_dom_value (st_sstr st) lo WSharedString (enc_ctx_of ep st) (VSharedString s) = Some (VSharedString s).
Proof.
  intros Hi. pose proof (index_of_lt _ _ _ _ Hi) as Hlt. pose proof (index_of_nth _ _ _ _ Hi) as Hn. rewrite N.sub_0_r in Hn.
  rewrite (wdv_SharedString (st_sstr st) lo (enc_ctx_of ep st) s i (zeros16, s)); [reflexivity|exact Hi| |].
  - unfold st_sstr. rewrite map_length. lia.
  - unfold st_sstr. now rewrite (map_nth_error _ _ _ Hn).
Qed.

Lemma class_of_src dom r : class_of dom r = i_class (src dom r).
Proof. unfold class_of, src. now destruct (find_inst dom r). Qed.

Lemma nodes_from_Forall2 pl cn ps : forall l k,
  Forall2 (fun r nd => exists j, nth_error l j = Some r /\ nd = node_at pl cn ps (k + N.of_nat j) r) l (nodes_from pl cn ps k l).
Proof.
  induction l as [|r l IH]; intros k; [constructor|]. cbn [nodes_from]. constructor.
  - exists 0%nat. split; [reflexivity|]. f_equal. lia.
  - eapply Forall2_impl'; [|exact (IH (k + 1))]. intros r' nd (j & Hj & ->). exists (S j). split; [exact Hj|]. f_equal. lia.
Qed.

Lemma r_class_spec d ep dom roots st r :
  add_instances d ep dom roots = Ok st -> In r (ss_relevant st) ->
  exists ti, In (class_of dom r, ti) (ss_types st) /\ r_class dom st r = (class_of dom r, ti) /\ In r (ti_instances ti).
Proof.
  intros Hst Hr. destruct (enc_class_ids _ _ _ _ _ Hst) as (_ & Hkeys & _ & _ & _ & Hcls & Hcov & _).
  destruct (Hcov r Hr) as (ti & Hct). exists ti. split; [exact Hct|]. split.
  - unfold r_class. now rewrite (BinColumnsFacts.in_bfind _ _ _ Hkeys Hct).
  - destruct (Hcls _ _ Hct) as (-> & _ & _). apply filter_In. split; [exact Hr|]. unfold of_class. apply BinColumnsFacts.bytes_eqb_refl.
Qed.

(* D3, second half.  [bspec_to_dom] of the described file succeeds and yields one node per written instance, in PRNT order
   (post-order of the chosen trees); the node of instance r carries the label L r (its row number), the class and the name of
   r, the label of r's parent (0 for a chosen root), and r's row: the cell of every column of r's class but the Name string.
   The cells are characterised by [spec_row_values] below. *)
Theorem spec_recovers_model_dom d ep dom ts e st :
  input_ok dom ts -> name_cols_ok st ->
  encode_chunks d ep dom (List.map root ts) = Ok e ->
  add_instances d ep dom (List.map root ts) = Ok st ->
  exists nodes,
    bspec_to_dom (spec_file ep dom st) = Ok nodes /\
    ss_relevant st = flat_map post ts /\ NoDup (ss_relevant st) /\
    Forall2 (fun r nd =>
               bn_label nd = L st r /\
               bn_class nd = i_class (src dom r) /\
               bn_name nd = i_name (src dom r) /\
               bn_parent nd = r_parent dom st r /\
               exists ti j, In (i_class (src dom r), ti) (ss_types st) /\ nth_error (ti_instances ti) j = Some r /\
                 bn_props nd = filter (fun kv => negb (is_name_cell kv))
                                      (flat_map (cell ep dom st (i_class (src dom r), ti) j) (ti_props ti)))
            (ss_relevant st) nodes /\
    (forall t, In t ts -> r_parent dom st (root t) = 0) /\
    (forall r c, In r (flat_map refs ts) -> In c (children_of dom r) -> r_parent dom st c = L st r).
Proof.
  intros Hin Hn He Hst. pose proof Hin as (Hwf & Hdom & Hag & Hnd & H0).
  destruct (enc_parts _ _ _ _ _ Hdom Hag Hnd He) as (st' & insts & props & Hst' & Hrel & Hndr & Hlen & _).
  rewrite Hst in Hst'. injection Hst' as <-.
  exists (spec_nodes ep dom st). split; [exact (spec_dom_structure _ _ _ _ _ _ Hin He Hst)|].
  split; [exact Hrel|]. split; [exact Hndr|]. split; [|split].
  - unfold spec_nodes. eapply Forall2_impl_in; [|apply nodes_from_Forall2]. intros r nd Hr (j & Hj & ->).
    unfold node_at. cbn [bn_label bn_class bn_name bn_parent bn_props].
    destruct (r_class_spec _ _ _ _ _ r Hst Hr) as (ti & Hct & Erc & Hri).
    rewrite (r_row_name ep dom st r _ ti Hn Hct Erc Hri), take_name_snd.
    rewrite r_row_cells, Erc. cbn [snd]. rewrite class_of_src in *.
    split; [unfold L; now rewrite (npos_unique _ _ _ Hndr Hj)|]. split; [reflexivity|]. split; [reflexivity|]. split; [reflexivity|].
    exists ti, (npos r (ti_instances ti)). split; [exact Hct|]. split; [now apply npos_nth|reflexivity].
  - intros t Ht. unfold r_parent. now rewrite (pz_root dom st ts t Hag Hnd Hrel Ht).
  - intros r c Hr Hc.
    assert (Hrr : In r (ss_relevant st)).
    { rewrite Hrel. eapply Permutation_in; [symmetry; apply post_perm_refs_forest|exact Hr]. }
    assert (Hr0 : r <> 0) by (intros ->; contradiction).
    unfold r_parent. rewrite (pz_child dom st r c Hwf Hr0 Hc).
    pose proof (fz_nonneg st r Hndr Hrr) as Hge.
    destruct (Z.eqb_spec (fz st r) (-1)) as [E|_]; [lia|]. now apply st_label_fz.
Qed.

(* the cells of a row: the column of property [cp] of class (c, ti) contributes to the j-th instance r of the class the pair
   (serialized name, the document's reading of the value the serializer wrote for r) — see the wdv_* table for the readings;
   a SecurityCapabilities column contributes nothing (the document does not define type 0x21: recorded disagreement) *)
Theorem spec_row_values d ep dom roots e st c ti cp j r :
  encode_chunks d ep dom roots = Ok e -> add_instances d ep dom roots = Ok st ->
  In (c, ti) (ss_types st) -> In cp (ti_props ti) -> nth_error (ti_instances ti) j = Some r ->
  let v := prop_value ep (fst cp) (snd cp) (ep_order ep (pi_aliases (snd cp))) (src dom r) in
  if wire_type_eq_dec_seccap (pi_type (snd cp)) then cell ep dom st (c, ti) j cp = []
  else exists v', wire_dom_value (st_sstr st) (st_label st) (pi_type (snd cp)) (enc_ctx_of ep st) v = Some v' /\
                  cell ep dom st (c, ti) j cp = [(pi_ser_name (snd cp), v')].
Proof.
  intros He Hst Hct Hcp Hj v.
  assert (Hx : In (((c, ti), cp) : column) (cols (ss_types st))) by (apply in_cols; split; assumption).
  destruct (wire_type_eq_dec_seccap (pi_type (snd cp))) as [E|Hne].
  - unfold cell, spec_body. cbn [fst snd]. rewrite E. reflexivity.
  - destruct (encode_cols_succeed _ _ _ _ _ _ He Hst _ Hx) as (b & Hb). cbn [fst snd] in Hb.
    destruct (enc_col_described _ _ _ _ Hb Hne) as (k & Hk).
    pose proof (spec_body_total ep dom st (st_label st) ((c, ti), cp)) as Ht. unfold spec_body in Ht. cbn [fst snd] in Ht.
    rewrite Hk in Ht. cbn [body_total] in Ht. destruct Ht as (vals & Hvals).
    pose proof (col_values_pointwise _ _ _ _ _ _ _ Hk Hvals) as HF.
    assert (Hv : nth_error (col_values ep dom ((c, ti), cp)) j = Some v).
    { destruct cp as [canon pi]. cbn [col_values]. rewrite (map_nth_error _ _ _ (map_nth_error (src dom) _ _ Hj)). reflexivity. }
    destruct (Forall2_nth _ _ _ HF j v Hv) as (v' & Hv' & Hw).
    exists v'. split; [exact Hw|]. unfold cell, spec_body. cbn [fst snd]. rewrite Hk. cbn [body_values]. now rewrite Hvals, Hv'.
Qed.

(* ---- 6h. sibling order: in the document's row order the children of a node appear in their DOM order *)
Section Siblings.
Variable kids : N -> list N.
Variable U : list N.                 (* the written instances *)
Variables (par Lf : N -> N).         (* parent label and label of a written instance *)
Hypothesis Hinj : forall a b, In a U -> In b U -> Lf a = Lf b -> a = b.
Hypothesis Hnz : forall a, In a U -> Lf a <> 0.
Hypothesis Hkid : forall r c, In r U -> In c (kids r) -> par c = Lf r.

Definition sel (x : N) (l : list N) : list N := filter (fun q => N.eqb (par q) x) l.

Lemma sel_app x a b : sel x (a ++ b) = sel x a ++ sel x b.
Proof. apply filter_app. Qed.

Lemma sel_post x t : sel x (post t) = sel x (flat_map post (subs t)) ++ (if N.eqb (par (root t)) x then [root t] else []).
Proof. rewrite post_unfold, sel_app. reflexivity. Qed.

Definition strict_ok (T : tree) : Prop :=
  forall r, In r U -> sel (Lf r) (flat_map post (subs T)) = if in_dec N.eq_dec r (refs T) then kids r else [].

Lemma strict_post T r px : strict_ok T -> In r U -> par (root T) = px -> px <> Lf r ->
  sel (Lf r) (post T) = if in_dec N.eq_dec r (refs T) then kids r else [].
Proof.
  intros HS Hr Hp Hne. rewrite sel_post, (HS r Hr), Hp.
  destruct (N.eqb_spec px (Lf r)) as [E|_]; [contradiction|]. apply app_nil_r.
Qed.

Lemma forest_sel_other px r : forall cs,
  NoDup (flat_map refs cs) -> Forall strict_ok cs -> (forall c, In c cs -> par (root c) = px) -> In r U -> px <> Lf r ->
  sel (Lf r) (flat_map post cs) = if in_dec N.eq_dec r (flat_map refs cs) then kids r else [].
Proof.
  induction cs as [|c cs IH]; intros Hnd HS Hp Hr Hne; [reflexivity|].
  cbn [flat_map] in *. apply nodup_app_inv in Hnd. destruct Hnd as (_ & Hnd' & Hdisj).
  inversion HS as [|? ? HSc HS']; subst.
  rewrite sel_app, (strict_post c r px HSc Hr (Hp c (or_introl eq_refl)) Hne).
  rewrite (IH Hnd' HS' (fun c' Hc' => Hp c' (or_intror Hc')) Hr Hne).
  destruct (in_dec N.eq_dec r (refs c)) as [H1|H1].
  - destruct (in_dec N.eq_dec r (flat_map refs cs)) as [H2|H2]; [now elim (Hdisj r H1)|].
    destruct (in_dec N.eq_dec r (refs c ++ flat_map refs cs)) as [_|H3]; [apply app_nil_r|elim H3; apply in_or_app; now left].
  - cbn [app]. destruct (in_dec N.eq_dec r (flat_map refs cs)) as [H2|H2];
      destruct (in_dec N.eq_dec r (refs c ++ flat_map refs cs)) as [H3|H3]; try reflexivity.
    + elim H3. apply in_or_app. now right.
    + apply in_app_or in H3. tauto.
Qed.

Lemma forest_sel_same r : forall cs,
  Forall strict_ok cs -> (forall c, In c cs -> par (root c) = Lf r) -> In r U -> ~ In r (flat_map refs cs) ->
  sel (Lf r) (flat_map post cs) = List.map root cs.
Proof.
  induction cs as [|c cs IH]; intros HS Hp Hr Hni; [reflexivity|].
  cbn [flat_map List.map] in *. inversion HS as [|? ? HSc HS']; subst.
  rewrite sel_app, sel_post, (HSc r Hr), (Hp c (or_introl eq_refl)), N.eqb_refl.
  destruct (in_dec N.eq_dec r (refs c)) as [H1|_]; [elim Hni; apply in_or_app; now left|]. cbn [app]. f_equal.
  apply IH; [exact HS'|intros c' Hc'; apply Hp; now right|exact Hr|]. intros H. apply Hni. apply in_or_app. now right.
Qed.

Lemma NoDup_flat_map_each {A B} (f : A -> list B) l x : NoDup (flat_map f l) -> In x l -> NoDup (f x).
Proof.
  induction l as [|y l IH]; intros Hnd Hin; [contradiction|]. cbn [flat_map] in Hnd.
  apply nodup_app_inv in Hnd. destruct Hnd as (H1 & H2 & _). destruct Hin as [->|Hin]; [exact H1|now apply IH].
Qed.

Lemma strict_ok_all : forall T, agrees kids T -> NoDup (refs T) -> incl (refs T) U -> strict_ok T.
Proof.
  apply (tree_ind' (fun T => agrees kids T -> NoDup (refs T) -> incl (refs T) U -> strict_ok T)).
  intros q cs IH Hag Hnd Hincl. apply agrees_unfold in Hag. destruct Hag as [Hk Hags].
  cbn [refs] in Hnd, Hincl. inversion Hnd as [|? ? Hq Hnd']; subst.
  assert (HqU : In q U) by (apply Hincl; now left).
  assert (HS : Forall strict_ok cs).
  { rewrite Forall_forall in *. intros c Hc. apply (IH c Hc (Hags c Hc)).
    - exact (NoDup_flat_map_each refs cs c Hnd' Hc).
    - intros x Hx. apply Hincl. right. apply in_flat_map. eauto. }
  assert (Hp : forall c, In c cs -> par (root c) = Lf q).
  { intros c Hc. apply Hkid; [exact HqU|]. rewrite Hk. now apply in_map. }
  intros r Hr. cbn [subs refs].
  destruct (N.eq_dec r q) as [->|Hrq].
  - rewrite (forest_sel_same q cs HS Hp HqU Hq).
    destruct (in_dec N.eq_dec q (q :: flat_map refs cs)) as [_|H]; [now symmetry|elim H; now left].
  - assert (Hne : Lf q <> Lf r) by (intros E; apply Hrq; symmetry; now apply Hinj).
    rewrite (forest_sel_other (Lf q) r cs Hnd' HS Hp Hr Hne).
    destruct (in_dec N.eq_dec r (flat_map refs cs)) as [H1|H1];
      destruct (in_dec N.eq_dec r (q :: flat_map refs cs)) as [H2|H2]; try reflexivity.
    + elim H2. now right.
    + destruct H2 as [E|H2]; [now elim Hrq|contradiction].
Qed.

(* nothing below a root has parent label 0 *)
Lemma inner_nonzero : forall T, agrees kids T -> incl (refs T) U ->
  forall q, In q (flat_map post (subs T)) -> par q <> 0.
Proof.
  apply (tree_ind' (fun T => agrees kids T -> incl (refs T) U -> forall q, In q (flat_map post (subs T)) -> par q <> 0)).
  intros p cs IH Hag Hincl q Hq. apply agrees_unfold in Hag. destruct Hag as [Hk Hags]. cbn [subs] in Hq.
  apply in_flat_map in Hq. destruct Hq as (c & Hc & Hq). rewrite post_unfold in Hq. apply in_app_or in Hq.
  assert (HpU : In p U) by (apply Hincl; now left).
  destruct Hq as [Hq|[<-|[]]].
  - rewrite Forall_forall in IH, Hags. apply (IH c Hc (Hags c Hc)); [|exact Hq].
    intros x Hx. apply Hincl. cbn [refs]. right. apply in_flat_map. eauto.
  - rewrite (Hkid p (root c) HpU); [now apply Hnz|]. rewrite Hk. now apply in_map.
Qed.

Lemma forest_sel_zero : forall ts, Forall (agrees kids) ts -> incl (flat_map refs ts) U ->
  (forall t, In t ts -> par (root t) = 0) -> sel 0 (flat_map post ts) = List.map root ts.
Proof.
  induction ts as [|t ts IH]; intros Hag Hincl Hp; [reflexivity|].
  cbn [flat_map List.map] in *. inversion Hag as [|? ? Ht Hag']; subst.
  rewrite sel_app, sel_post, (Hp t (or_introl eq_refl)). cbn [N.eqb].
  assert (E : sel 0 (flat_map post (subs t)) = []).
  { unfold sel. apply filter_none. intros q Hq. apply N.eqb_neq. apply (inner_nonzero t Ht); [|exact Hq].
    intros x Hx. apply Hincl. apply in_or_app. now left. }
  rewrite E. cbn [app]. f_equal. apply IH; [exact Hag'| |intros t' Ht'; apply Hp; now right].
  intros x Hx. apply Hincl. apply in_or_app. now right.
Qed.
End Siblings.
Definition nodes_children (nodes : list bs_node) (x : N) : list N :=
  List.map bn_label (filter (fun nd => N.eqb (bn_parent nd) x) nodes).

Lemma nodes_children_sel (par Lf : N -> N) x : forall l nodes,
  Forall2 (fun r nd => bn_label nd = Lf r /\ bn_parent nd = par r) l nodes ->
  nodes_children nodes x = List.map Lf (sel par x l).
Proof.
  induction 1 as [|r nd l nodes [H1 H2] _ IH]; [reflexivity|].
  unfold nodes_children, sel in *. cbn [filter]. rewrite H2. destruct (N.eqb (par r) x); cbn [List.map]; now rewrite ?H1, IH.
Qed.

Lemma L_inj st a b : In a (ss_relevant st) -> In b (ss_relevant st) -> L st a = L st b -> a = b.
Proof.
  intros Ha Hb E. unfold L in E. assert (E' : npos a (ss_relevant st) = npos b (ss_relevant st)) by lia.
  pose proof (npos_nth _ _ Ha) as H1. pose proof (npos_nth _ _ Hb) as H2. rewrite E' in H1. congruence.
Qed.

(* the hierarchy as child lists: in the DOM the document builds, the children of the (virtual) root are the chosen roots in
   their order, and the children of every written instance are its DOM children in their DOM order *)
Theorem spec_recovers_child_lists d ep dom ts e st :
  input_ok dom ts ->
  encode_chunks d ep dom (List.map root ts) = Ok e ->
  add_instances d ep dom (List.map root ts) = Ok st ->
  exists nodes,
    bspec_to_dom (spec_file ep dom st) = Ok nodes /\
    List.map bn_label nodes = List.map (L st) (flat_map post ts) /\
    nodes_children nodes 0 = List.map (L st) (List.map root ts) /\
    (forall r, In r (flat_map refs ts) -> nodes_children nodes (L st r) = List.map (L st) (children_of dom r)).
Proof.
  intros Hin He Hst. pose proof Hin as (Hwf & Hdom & Hag & Hnd & H0).
  destruct (enc_parts _ _ _ _ _ Hdom Hag Hnd He) as (st' & insts & props & Hst' & Hrel & Hndr & Hlen & _).
  rewrite Hst in Hst'. injection Hst' as <-.
  exists (spec_nodes ep dom st). split; [exact (spec_dom_structure _ _ _ _ _ _ Hin He Hst)|].
  assert (HF : Forall2 (fun r nd => bn_label nd = L st r /\ bn_parent nd = r_parent dom st r) (ss_relevant st) (spec_nodes ep dom st)).
  { unfold spec_nodes. eapply Forall2_impl_in; [|apply nodes_from_Forall2]. intros r nd Hr (j & Hj & ->).
    unfold node_at. cbn [bn_label bn_parent]. split; [|reflexivity]. unfold L. now rewrite (npos_unique _ _ _ Hndr Hj). }
  assert (Hperm : forall x, In x (flat_map refs ts) <-> In x (ss_relevant st)).
  { intros x. rewrite Hrel. split; intros H; (eapply Permutation_in; [|exact H]);
      [symmetry; apply post_perm_refs_forest|apply post_perm_refs_forest]. }
  assert (Hroot : forall t, In t ts -> r_parent dom st (root t) = 0).
  { intros t Ht. unfold r_parent. now rewrite (pz_root dom st ts t Hag Hnd Hrel Ht). }
  assert (Hkid : forall r c, In r (ss_relevant st) -> In c (children_of dom r) -> r_parent dom st c = L st r).
  { intros r c Hr Hc. assert (Hr0 : r <> 0) by (intros ->; apply H0; now apply Hperm).
    unfold r_parent. rewrite (pz_child dom st r c Hwf Hr0 Hc).
    pose proof (fz_nonneg st r Hndr Hr) as Hge.
    destruct (Z.eqb_spec (fz st r) (-1)) as [E|_]; [lia|]. now apply st_label_fz. }
  assert (Hnz : forall a, In a (ss_relevant st) -> L st a <> 0) by (intros a _; unfold L; lia).
  split; [|split].
  - rewrite <- Hrel. clear - HF. induction HF as [|r nd l nodes [H1 _] _ IH]; [reflexivity|]. cbn [List.map]. now rewrite H1, IH.
  - rewrite (nodes_children_sel (r_parent dom st) (L st) 0 _ _ HF), Hrel. f_equal.
    apply (forest_sel_zero (children_of dom) (ss_relevant st) (r_parent dom st) (L st) Hnz Hkid ts Hag); [|exact Hroot].
    intros x Hx. now apply Hperm.
  - intros r Hr. rewrite (nodes_children_sel (r_parent dom st) (L st) (L st r) _ _ HF), Hrel. f_equal.
    assert (HS : Forall (strict_ok (children_of dom) (ss_relevant st) (r_parent dom st) (L st)) ts).
    { rewrite Forall_forall in *. intros t Ht.
      apply (strict_ok_all (children_of dom) (ss_relevant st) (r_parent dom st) (L st) (L_inj st) Hkid t (Hag t Ht)).
      - exact (NoDup_flat_map_each refs ts t Hnd Ht).
      - intros x Hx. apply Hperm. apply in_flat_map. eauto. }
    rewrite (forest_sel_other (children_of dom) (ss_relevant st) (r_parent dom st) (L st) 0 r ts Hnd HS Hroot (proj1 (Hperm r) Hr)).
    + destruct (in_dec N.eq_dec r (flat_map refs ts)); [reflexivity|contradiction].
    + intros E. symmetry in E. revert E. apply Hnz. now apply Hperm.
Qed.

(* ================================================================ 7. C03 in one statement (CompressionType::None) *)
(* For every DOM and every choice of disjoint subtrees: if the serializer model writes the file [b], the strings and values
   it writes are within the ranges of the format ([wire_ranges_ok]), no chunk payload reaches 2^32 bytes and only the Name
   column is serialized as "Name" ([name_cols_ok]), then the independent document decoder accepts [b] (amended reading) and
   the DOM it assigns to it has exactly the written instances with their classes, names, hierarchy and property rows. *)
Theorem spec_accepts_and_recovers d ep dom ts b :
  input_ok dom ts ->
  encode_file d ep None dom (List.map root ts) = Ok b ->
  exists st e,
    add_instances d ep dom (List.map root ts) = Ok st /\ encode_chunks d ep dom (List.map root ts) = Ok e /\
    (wire_ranges_ok ep dom st -> Forall (fun c => N.of_nat (length (snd c)) < 2 ^ 32) (en_chunks e) -> name_cols_ok st ->
     exists nodes,
       bspec_decode rdA b = Ok (spec_file ep dom st) /\
       bspec_to_dom (spec_file ep dom st) = Ok nodes /\
       ss_relevant st = flat_map post ts /\
       Forall2 (fun r nd =>
                  bn_label nd = L st r /\ bn_class nd = i_class (src dom r) /\ bn_name nd = i_name (src dom r) /\
                  bn_parent nd = r_parent dom st r /\
                  exists ti j, In (i_class (src dom r), ti) (ss_types st) /\ nth_error (ti_instances ti) j = Some r /\
                    bn_props nd = filter (fun kv => negb (is_name_cell kv))
                                         (flat_map (cell ep dom st (i_class (src dom r), ti) j) (ti_props ti)))
               (ss_relevant st) nodes /\
       (forall t, In t ts -> r_parent dom st (root t) = 0) /\
       (forall r c, In r (flat_map refs ts) -> In c (children_of dom r) -> r_parent dom st c = L st r) /\
       nodes_children nodes 0 = List.map (L st) (List.map root ts) /\
       (forall r, In r (flat_map refs ts) -> nodes_children nodes (L st r) = List.map (L st) (children_of dom r))).
Proof.
  intros Hin Hb. destruct (BinFraming.encode_file_inv _ _ _ _ _ _ Hb) as (e & He & _).
  destruct (encode_chunks_inv _ _ _ _ _ He) as (st & _ & _ & _ & _ & Hst & _).
  exists st, e. split; [exact Hst|]. split; [exact He|]. intros Hr Hsz Hn.
  destruct (spec_recovers_model_dom _ _ _ _ _ _ Hin Hn He Hst) as (nodes & Hd & Hrel & _ & HF & Hroot & Hkid).
  destruct (spec_recovers_child_lists _ _ _ _ _ _ Hin He Hst) as (nodes' & Hd' & _ & Hc0 & Hcr).
  rewrite Hd in Hd'. apply Ok_inj in Hd'. subst nodes'.
  exists nodes. split; [|repeat split; assumption].
  apply (spec_accepts_model_file d ep dom _ b st Hb Hst (spec_file_wf _ _ _ _ _ _ He Hst Hr)).
  intros e' He'. rewrite He in He'. now injection He' as <-.
Qed.

(* ================================================================ 8. recorded disagreements between the document and the serializer *)
(* (a) type id 0x21 (SecurityCapabilities) is written by the serializer and is not a Data Type of the document: its columns are
   not decodable, the PROP chunk is carried as an undefined type id and the property does not reach the DOM *)
Lemma seccap_column_refuted :
  enc_col WSecurityCapabilities BinValuesFacts.ectx0 [VSecurityCapabilities 5] = Ok [0; 0; 0; 0; 0; 0; 0; 10] /\
  bs_known_type (wire_id WSecurityCapabilities) = false /\
  (forall rd n b, bs_dec_col rd (wire_id WSecurityCapabilities) n b = Err BS_EOF) /\
  (forall c vs, spec_col WSecurityCapabilities c vs = None).
Proof. repeat split. Qed.

(* (b) the literal reading of the document does not read the serializer's columns: each of the four amendments is needed *)
Definition ectx1 : enc_ctx := mkEC (fun _ => None) (fun _ => Some 1) (fun _ => 0).

Lemma literal_reading_uniqueid_be_refuted :
  exists b, enc_col WUniqueId BinValuesFacts.ectx0 [VUniqueId 1 2 3%Z] = Ok b /\
    bs_dec_col rdA 0x1f 1 b = Ok (KUniqueId [(1, 2, 3%Z)], []) /\
    bs_dec_col (mkReading true false true true) 0x1f 1 b = Ok (KUniqueId [(16777216, 33554432, 216172782113783808%Z)], []).
Proof. eexists. split; [vm_compute; reflexivity|]. split; vm_compute; reflexivity. Qed.

Lemma literal_reading_uniqueid_rot_refuted :
  exists b, enc_col WUniqueId BinValuesFacts.ectx0 [VUniqueId 1 2 3%Z] = Ok b /\
    bs_dec_col (mkReading true true false true) 0x1f 1 b = Ok (KUniqueId [(1, 2, 6%Z)], []).
Proof. eexists. split; [vm_compute; reflexivity|]. vm_compute. reflexivity. Qed.

Lemma literal_reading_sharedstring_refuted :
  exists b, enc_col WSharedString ectx1 [VSharedString [7]] = Ok b /\
    bs_dec_col rdA 0x1c 1 b = Ok (KSharedString [1], []) /\
    bs_dec_col (mkReading false true true true) 0x1c 1 b = Ok (KSharedString [16777216], []).
Proof. eexists. split; [vm_compute; reflexivity|]. split; vm_compute; reflexivity. Qed.

Lemma literal_reading_content_refuted :
  exists b, enc_col WContent ectx1 [VContent (CUri [7])] = Ok b /\
    bs_dec_col rdA 0x22 1 b = Ok (KContent [BCUri [7]] [], []) /\
    bs_dec_col (mkReading true true true false) 0x22 1 b = Err BS_CONTENT.
Proof. eexists. split; [vm_compute; reflexivity|]. split; vm_compute; reflexivity. Qed.

(* (c) the SSTR "MD5 Hash" field: the serializer writes sixteen zero bytes for every string *)
Lemma Ok_inj_some {A} (a b : A) : Some a = Some b -> a = b.
Proof. now intros [= ->]. Qed.

Lemma sstr_hash_field_is_zero st l : spec_sstr st = Some l -> Forall (fun t => fst t = zeros16) l.
Proof.
  unfold spec_sstr. destruct (ss_sstr st) as [|s0 l0]; [discriminate|]. intros H. apply Ok_inj_some in H. subst l.
  apply Forall_forall. intros t Ht. apply in_map_iff in Ht. now destruct Ht as (s & <- & _).
Qed.

(* (d) a model artefact, not a defect: byte-sized fields are N in the model; a Font style that is not a byte (no Rust u8 is)
   would be written as one list element by the model and as its low byte by the document encoder *)
Lemma font_style_range_needed :
  enc_col WFont BinValuesFacts.ectx0 [VFont (mkFont [] 400 256 None)] = Ok [0; 0; 0; 0; 144; 1; 256; 0; 0; 0; 0] /\
  bs_enc_col rdA true (KFont [([], 400, 256, [])]) = [0; 0; 0; 0; 144; 1; 0; 0; 0; 0; 0].
Proof. split; vm_compute; reflexivity. Qed.

(* (e) the range hypothesis [bs_col_ok] of D1 is needed, again a model artefact: an f32 "bit pattern" of 2^32 (no Rust f32 has one)
   is truncated by the model's writer, so the column that describes the values is not what is read back *)
Lemma float_range_needed :
  exists b, enc_col WFloat32 BinValuesFacts.ectx0 [VFloat32 4294967296] = Ok b /\
    spec_col WFloat32 BinValuesFacts.ectx0 [VFloat32 4294967296] = Some (KFloat32 [4294967296]) /\
    bs_col_ok (KFloat32 [4294967296]) = false /\
    bs_dec_col rdA 0x04 1 b = Ok (KFloat32 [1], []).
Proof. eexists. split; [vm_compute; reflexivity|]. repeat split; vm_compute; reflexivity. Qed.

(* ================================================================ 9. non-vacuity: worked examples *)
Module Examples.
(* two classes, a Ref, a String and a Vector3 *)
Definition ex_dom : cdom :=
  [ mkInst 1 0 (bstr "Part") (bstr "P")
      [(bstr "Position", VVector3 (mkV3 0x3F800000 0x40000000 0x40400000)); (bstr "Tag", VString (bstr "hi"))];
    mkInst 2 1 (bstr "ObjectValue") (bstr "V") [(bstr "Value", VRef 1)];
    mkInst 3 1 (bstr "Part") (bstr "Q") [(bstr "Tag", VString (bstr "yo"))] ].
Definition ex_tree : tree := Node 1 [Node 2 []; Node 3 []].
Definition ex_st : ser_state :=
  Eval vm_compute in match add_instances db0 ep0 ex_dom [1] with Ok s => s | _ => ser_state0 end.
Definition ex_enc : encoded :=
  Eval vm_compute in match encode_chunks db0 ep0 ex_dom [1] with Ok e => e | _ => mkEnc [] [] end.
Definition ex_file : bytes :=
  Eval vm_compute in match encode_file db0 ep0 None ex_dom [1] with Ok b => b | _ => [] end.

Lemma ex_st_ok : add_instances db0 ep0 ex_dom (List.map root [ex_tree]) = Ok ex_st.
Proof. vm_compute. reflexivity. Qed.
Lemma ex_enc_ok : encode_chunks db0 ep0 ex_dom (List.map root [ex_tree]) = Ok ex_enc.
Proof. vm_compute. reflexivity. Qed.
Lemma ex_file_ok : encode_file db0 ep0 None ex_dom (List.map root [ex_tree]) = Ok ex_file.
Proof. vm_compute. reflexivity. Qed.

Example ex_input_ok : input_ok ex_dom [ex_tree].
Proof.
  split; [|split; [|split; [|split]]].
  - cbn. repeat constructor; cbn; intuition discriminate.
  - repeat constructor; vm_compute; reflexivity.
  - repeat (constructor; try (vm_compute; reflexivity)).
  - cbn. repeat constructor; cbn; intuition discriminate.
  - cbn. intuition discriminate.
Qed.

Example ex_wire_ranges_ok : wire_ranges_ok ep0 ex_dom ex_st.
Proof.
  constructor.
  - intros ct Hct. vm_compute in Hct. repeat (destruct Hct as [<-|Hct]; [vm_compute; reflexivity|]). contradiction.
  - intros x Hx. vm_compute in Hx. repeat (destruct Hx as [<-|Hx]; [vm_compute; reflexivity|]). contradiction.
  - intros s Hs. vm_compute in Hs. contradiction.
  - reflexivity.
  - intros x k Hx. vm_compute in Hx.
    repeat (destruct Hx as [<-|Hx]; [intros Hk; vm_compute in Hk; injection Hk as <-; vm_compute; reflexivity|]). contradiction.
Qed.

Example ex_sizes_ok : Forall (fun c => N.of_nat (length (snd c)) < 2 ^ 32) (en_chunks ex_enc).
Proof. repeat constructor. Qed.

Example ex_name_cols_ok : name_cols_ok ex_st.
Proof.
  intros c ti Hct. vm_compute in Hct.
  destruct Hct as [[= <- <-]|[[= <- <-]|[]]]; (split; [eexists; left; reflexivity|]);
    intros canon pi Hcp; cbn [ti_props] in Hcp;
    repeat (destruct Hcp as [[= <- <-]|Hcp];
            [split; [split; intros E; first [reflexivity|discriminate E]|intros E; first [split; reflexivity|discriminate E]]|]);
    contradiction.
Qed.

(* D1 on this input: the three non-Name columns, through the model encoder and the document's column decoder *)
Example ex_column_vector3 :
  exists b, enc_col WVector3 (enc_ctx_of ep0 ex_st) [VVector3 (mkV3 0 0 0); VVector3 (mkV3 0x3F800000 0x40000000 0x40400000)] = Ok b /\
    bs_dec_col rdA 0x0e 2 b = Ok (KVector3 [mkV3 0 0 0; mkV3 0x3F800000 0x40000000 0x40400000], []).
Proof. eexists. split; [vm_compute; reflexivity|]. vm_compute. reflexivity. Qed.
Example ex_column_ref :
  exists b, enc_col WRef (enc_ctx_of ep0 ex_st) [VRef 1] = Ok b /\ bs_dec_col rdA 0x13 1 b = Ok (KReferent [2%Z], []).
Proof. eexists. split; [vm_compute; reflexivity|]. vm_compute. reflexivity. Qed.

(* D3 on this input, by the theorem (all hypotheses discharged above) and by computation *)
Example ex_by_theorem : bspec_decode rdA ex_file = Ok (spec_file ep0 ex_dom ex_st).
Proof.
  apply (spec_accepts_model_file db0 ep0 ex_dom _ ex_file ex_st ex_file_ok ex_st_ok).
  - exact (spec_file_wf _ _ _ _ _ _ ex_enc_ok ex_st_ok ex_wire_ranges_ok).
  - intros e He. rewrite ex_enc_ok in He. injection He as <-. exact ex_sizes_ok.
Qed.

Example ex_computed :
  bspec_decode rdA ex_file = Ok (spec_file ep0 ex_dom ex_st) /\
  bs_wf (spec_file ep0 ex_dom ex_st) = true /\
  bf_prnt (spec_file ep0 ex_dom ex_st) = [(0, 2); (1, 2); (2, -1)]%Z /\
  bspec_to_dom (spec_file ep0 ex_dom ex_st) =
  Ok [ mkNode 1 3 (bstr "ObjectValue") (bstr "V") [(bstr "Value", VRef 3)];
       mkNode 2 3 (bstr "Part") (bstr "Q")
         [(bstr "Position", VVector3 (mkV3 0 0 0)); (bstr "Tag", VString (bstr "yo"))];
       mkNode 3 0 (bstr "Part") (bstr "P")
         [(bstr "Position", VVector3 (mkV3 0x3F800000 0x40000000 0x40400000)); (bstr "Tag", VString (bstr "hi"))] ].
Proof. repeat split; vm_compute; reflexivity. Qed.

(* the same file under LZ4 framing with the document's own literal-only compressor: the inflater law holds for it *)
Example ex_lz4 :
  exists b, encode_file db0 ep0 (Some literal_only_block) ex_dom [1] = Ok b /\ bspec_decode rdA b = Ok (spec_file ep0 ex_dom ex_st).
Proof. eexists. split; [vm_compute; reflexivity|]. vm_compute. reflexivity. Qed.

(* SharedString and SecurityCapabilities: the shared strings are recovered through the SSTR table, the SecurityCapabilities
   property is lost on the document side (disagreement (a)) *)
Definition ep1 : enc_params := mkEP [] [] (fun _ => 0) (fun l => l) [([1; 2], [9]); ([7], [5]); ([], [0])].
Definition ex2_dom : cdom :=
  [ mkInst 1 0 (bstr "A") (bstr "a") [(bstr "S", VSharedString [1; 2]); (bstr "Caps", VSecurityCapabilities 5)];
    mkInst 2 1 (bstr "A") (bstr "b") [(bstr "S", VSharedString [7])] ].
Definition ex2_st : ser_state :=
  Eval vm_compute in match add_instances db0 ep1 ex2_dom [1] with Ok s => s | _ => ser_state0 end.
Definition ex2_file : bytes :=
  Eval vm_compute in match encode_file db0 ep1 None ex2_dom [1] with Ok b => b | _ => [] end.

Example seccap_property_lost_refuted :
  encode_file db0 ep1 None ex2_dom [1] = Ok ex2_file /\
  bspec_decode rdA ex2_file = Ok (spec_file ep1 ex2_dom ex2_st) /\
  bs_wf (spec_file ep1 ex2_dom ex2_st) = true /\
  List.map bp_body (bf_props (spec_file ep1 ex2_dom ex2_st)) =
    [BUnknown 33 [0; 0; 0; 0; 0; 0; 0; 0; 0; 0; 0; 0; 0; 0; 0; 10]; BValues (KString [[98]; [97]]); BValues (KSharedString [1; 2])] /\
  bspec_to_dom (spec_file ep1 ex2_dom ex2_st) =
  Ok [ mkNode 1 2 (bstr "A") (bstr "b") [(bstr "S", VSharedString [7])];
       mkNode 2 0 (bstr "A") (bstr "a") [(bstr "S", VSharedString [1; 2])] ].
Proof. repeat split; vm_compute; reflexivity. Qed.

(* the literal reading of the document: the first example has no SharedString / UniqueId / Content column and is accepted with
   the same result; the second has a SharedString column, whose indices the literal reading takes little-endian: the file is
   parsed, but into indices outside the SSTR table, and no DOM is obtained *)
Example ex_literal_reading_accepts : bspec_decode bs_literal ex_file = Ok (spec_file ep0 ex_dom ex_st).
Proof.
  apply (spec_accepts_model_file_any_reading bs_literal db0 ep0 None (fun _ => None) ex_dom _ ex_file ex_st ex_file_ok ex_st_ok).
  - exact (spec_file_wf _ _ _ _ _ _ ex_enc_ok ex_st_ok ex_wire_ranges_ok).
  - intros e He. rewrite ex_enc_ok in He. injection He as <-.
    eapply Forall_impl; [|exact ex_sizes_ok]. intros c Hc. split; [exact Hc|exact I].
  - exact I.
  - intros p Hp. vm_compute in Hp. repeat (destruct Hp as [<-|Hp]; [exact I|]). contradiction.
Qed.

Example literal_reading_file_refuted :
  exists f', bspec_decode bs_literal ex2_file = Ok f' /\ f' <> spec_file ep1 ex2_dom ex2_st /\
             bspec_to_dom f' = Err BS_DOM_SSTR_INDEX.
Proof. eexists. split; [vm_compute; reflexivity|]. split; [discriminate|vm_compute; reflexivity]. Qed.

(* the disjointness hypothesis of [input_ok] is needed for the DOM half (not for acceptance): with overlapping roots [1; 2]
   (2 is a child of 1) the serializer writes instance 2 twice (BinStructure.overlapping_roots_duplicate); the document decoder
   accepts the file, and refuses to build a DOM from a PRNT chunk that lists a child twice *)
Example overlapping_roots_refuted :
  exists b f, encode_file db0 ep0 None sample_dom [1; 2] = Ok b /\ bspec_decode rdA b = Ok f /\
              bf_prnt f = [(3, 2); (1, 2); (2, -1); (3, 2)]%Z /\ bspec_to_dom f = Err BS_DOM_PRNT.
Proof.
  eexists. eexists. split; [vm_compute; reflexivity|]. split; [vm_compute; reflexivity|]. split; vm_compute; reflexivity.
Qed.

(* D1 through the theorem: a CFrame column whose first rotation is the identity (written as id 0x02) and whose second is a
   general matrix (written as nine floats); all hypotheses of [spec_reads_model_column_total] are discharged *)
Definition ex_cf1 : cframe := mkCF (mkV3 0x3F800000 0x40000000 0x40400000) mat3_identity.
Definition ex_cf2 : cframe :=
  mkCF (mkV3 0 0 0) (mkM3 (mkV3 0x3F000000 0 0) (mkV3 0 0x3F000000 0) (mkV3 0 0 0x3F000000)).
Example ex_column_cframe_by_theorem :
  exists b, enc_col WCFrame BinValuesFacts.ectx0 [VCFrame ex_cf1; VCFrame ex_cf2] = Ok b /\
    forall rest, bs_dec_col rdA 0x10 2 (b ++ rest) = Ok (KCFrame [ex_cf1; ex_cf2], rest).
Proof.
  apply (spec_reads_model_column_total WCFrame BinValuesFacts.ectx0 [VCFrame ex_cf1; VCFrame ex_cf2] (KCFrame [ex_cf1; ex_cf2]));
    vm_compute; reflexivity.
Qed.

(* C03 in one statement, instantiated: every hypothesis of [spec_accepts_and_recovers] holds for the example *)
Example ex_accepts_and_recovers :
  exists nodes,
    bspec_decode rdA ex_file = Ok (spec_file ep0 ex_dom ex_st) /\
    bspec_to_dom (spec_file ep0 ex_dom ex_st) = Ok nodes /\
    List.map bn_label nodes = [1; 2; 3] /\ List.map bn_name nodes = [bstr "V"; bstr "Q"; bstr "P"] /\
    nodes_children nodes 0 = [3] /\ nodes_children nodes 3 = [1; 2].
Proof.
  destruct (spec_accepts_and_recovers db0 ep0 ex_dom [ex_tree] ex_file ex_input_ok ex_file_ok) as (st & e & Hst & He & H).
  rewrite ex_st_ok in Hst. injection Hst as <-. rewrite ex_enc_ok in He. injection He as <-.
  destruct (H ex_wire_ranges_ok ex_sizes_ok ex_name_cols_ok) as (nodes & Hdec & Hdom & _).
  exists nodes. split; [exact Hdec|]. split; [exact Hdom|].
  assert (E : bspec_to_dom (spec_file ep0 ex_dom ex_st) =
              Ok [ mkNode 1 3 (bstr "ObjectValue") (bstr "V") [(bstr "Value", VRef 3)];
                   mkNode 2 3 (bstr "Part") (bstr "Q")
                     [(bstr "Position", VVector3 (mkV3 0 0 0)); (bstr "Tag", VString (bstr "yo"))];
                   mkNode 3 0 (bstr "Part") (bstr "P")
                     [(bstr "Position", VVector3 (mkV3 0x3F800000 0x40000000 0x40400000)); (bstr "Tag", VString (bstr "hi"))] ])
    by (vm_compute; reflexivity).
  rewrite E in Hdom. apply Ok_inj in Hdom. subst nodes. repeat split; vm_compute; reflexivity.
Qed.

(* LZ4 framing through the theorem: the literal-only compressor, sizes discharged by computation *)
Example ex_lz4_by_theorem :
  exists b, encode_file db0 ep0 (Some literal_only_block) ex_dom [1] = Ok b /\ bspec_decode rdA b = Ok (spec_file ep0 ex_dom ex_st).
Proof.
  eexists. split; [vm_compute; reflexivity|].
  apply (spec_accepts_model_file_lz4_literal db0 ep0 ex_dom [1] _ ex_st); [vm_compute; reflexivity|exact ex_st_ok| |].
  - exact (spec_file_wf _ _ _ _ _ _ ex_enc_ok ex_st_ok ex_wire_ranges_ok).
  - intros e He. change [1] with (List.map root [ex_tree]) in He. rewrite ex_enc_ok in He. injection He as <-.
    unfold ex_enc. cbn [en_chunks].
    repeat (constructor; [split; [vm_compute; reflexivity|split; [vm_compute; reflexivity|vm_compute; discriminate]]|]). constructor.
Qed.
End Examples.

(* ================================================================ assumptions *)
Print Assumptions enc_col_spec.
Print Assumptions spec_reads_model_column.
Print Assumptions spec_reads_model_column_total.
Print Assumptions spec_reads_model_column_any_reading.
Print Assumptions spec_accepts_model_file_any_reading.
Print Assumptions spec_reads_model_column_Vector3.
Print Assumptions spec_reads_model_column_SharedString.
Print Assumptions spec_reads_model_inst_chunk.
Print Assumptions spec_reads_model_prop_chunk.
Print Assumptions spec_reads_model_prnt_chunk.
Print Assumptions spec_reads_model_sstr_chunk.
Print Assumptions spec_reads_model_chunks.
Print Assumptions model_chunks_are_spec_chunks.
Print Assumptions model_file_is_spec_file.
Print Assumptions spec_file_wf.
Print Assumptions spec_accepts_model_file.
Print Assumptions spec_accepts_model_file_gen.
Print Assumptions spec_accepts_model_file_lz4.
Print Assumptions spec_accepts_model_file_zstd.
Print Assumptions spec_dom_structure.
Print Assumptions col_values_pointwise.
Print Assumptions spec_recovers_model_dom.
Print Assumptions spec_row_values.
Print Assumptions spec_recovers_child_lists.
Print Assumptions spec_accepts_and_recovers.
Print Assumptions Examples.ex_by_theorem.
Print Assumptions Examples.seccap_property_lost_refuted.
