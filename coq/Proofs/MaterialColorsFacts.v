(* MaterialColorsFacts.v — MaterialColors blobs (Model/MaterialColors.v over the regenerated material table):
   the 69-byte length law; decode (encode m) succeeds and is observationally m (get_color agrees on every
   material, and it encodes to the same blob) -- it is NOT structurally m: a decoded value lists all 21
   materials explicitly; a 69-byte blob survives decode/encode except for its 6 reserved bytes. *)
From RbxVerif Require Import BaseFacts MaterialColors BitSets Types17.
From Coq Require Import Lia.
Open Scope N_scope.

Notation T := material_table.

Lemma materials_count : length (mc_materials T) = 21%nat.
Proof. reflexivity. Qed.
Lemma materials_order : mc_order T = List.map N.of_nat (seq 0 21).
Proof. reflexivity. Qed.

Lemma c3_length c : length (c3 c) = 3%nat.
Proof. destruct c as [[r g] b]. reflexivity. Qed.

Lemma flat_map_c3 {A} (g : A -> color) (l : list A) : flat_map (fun a => c3 (g a)) l = flat_map c3 (List.map g l).
Proof. induction l; cbn; [reflexivity|now rewrite IHl]. Qed.

Lemma flat_c3_length cs : length (flat_map c3 cs) = (3 * length cs)%nat.
Proof. induction cs as [|c cs IH]; cbn [flat_map length]; [reflexivity|]. rewrite app_length, c3_length, IH. lia. Qed.

Lemma mc_encode_colors m : mc_encode T m = repeat 0 6 ++ flat_map c3 (List.map (mc_get m) (mc_materials T)).
Proof. unfold mc_encode. now rewrite flat_map_c3. Qed.

(* the length law *)
Theorem mc_encode_length : forall m, length (mc_encode T m) = 69%nat.
Proof.
  intros m. rewrite mc_encode_colors, app_length, repeat_length, flat_c3_length, map_length, materials_count. reflexivity.
Qed.

Theorem mc_decode_length : forall b, length b <> 69%nat -> mc_decode T b = Err ERR_MC_LEN.
Proof. intros b H. unfold mc_decode. apply Nat.eqb_neq in H. now rewrite H. Qed.

(* decoding the blob of any 21 colours yields exactly those 21 entries, in key order *)
Lemma decode_colors : forall cs, length cs = 21%nat ->
  mc_decode T (repeat 0 6 ++ flat_map c3 cs) = Ok (combine (mc_order T) cs).
Proof.
  intros cs H. do 21 (destruct cs as [|[[? ?] ?] cs]; [discriminate|]). destruct cs; [|discriminate].
  reflexivity.
Qed.

Lemma lookup_combine {A} (g : N * A -> color) (L : list (N * A)) : NoDup (List.map fst L) ->
  forall md, In md L -> lookup (fst md) (combine (List.map fst L) (List.map g L)) = Some (g md).
Proof.
  induction L as [|x L IH]; intros Hnd md Hin; [destruct Hin|].
  cbn in Hnd. inversion Hnd as [|? ? Hx Hnd']; subst. cbn [List.map combine lookup].
  destruct Hin as [->|Hin]; [now rewrite N.eqb_refl|].
  destruct (fst md =? fst x) eqn:E.
  - apply N.eqb_eq in E. exfalso. apply Hx. rewrite <- E. now apply in_map.
  - now apply IH.
Qed.

Lemma map_fst_combine {A B} (ks : list A) : forall (cs : list B), length ks = length cs -> List.map fst (combine ks cs) = ks.
Proof. induction ks as [|k ks IH]; intros [|c cs] H; cbn in *; try reflexivity; try discriminate. f_equal. apply IH. lia. Qed.

Lemma materials_nodup : NoDup (List.map fst (mc_materials T)).
Proof. repeat (constructor; [cbn; intuition discriminate|]). constructor. Qed.

Lemma lookup_in {V} k (v : V) (m : map V) : lookup k m = Some v -> In (k, v) m.
Proof.
  induction m as [|[k' v'] m IH]; cbn; [discriminate|].
  destruct (k =? k') eqn:E; [apply N.eqb_eq in E; intros H; inversion H; subst; now left|intros H; right; now apply IH].
Qed.

(* value -> blob -> value *)
Theorem mc_roundtrip_observational : forall m, exists m',
  mc_decode T (mc_encode T m) = Ok m' /\
  (forall mat, mc_get_color T m' mat = mc_get_color T m mat) /\
  mc_encode T m' = mc_encode T m /\
  List.map fst m' = mc_order T.
Proof.
  intros m. exists (combine (mc_order T) (List.map (mc_get m) (mc_materials T))).
  assert (Hget : forall md, In md (mc_materials T) ->
          mc_get (combine (mc_order T) (List.map (mc_get m) (mc_materials T))) md = mc_get m md).
  { intros md Hin. unfold mc_get at 1, mc_order. now rewrite (lookup_combine (mc_get m) _ materials_nodup md Hin). }
  split; [|split; [|split]].
  - rewrite mc_encode_colors. apply decode_colors. rewrite map_length. apply materials_count.
  - intros mat. unfold mc_get_color, mc_default. destruct (lookup mat (mc_materials T)) as [d|] eqn:E; [|reflexivity].
    f_equal. apply Hget. now apply lookup_in.
  - rewrite !mc_encode_colors. rewrite (map_ext_in _ _ _ Hget). reflexivity.
  - apply map_fst_combine. unfold mc_order. rewrite !map_length. reflexivity.
Qed.

(* a decoded value is explicit about every material: decode (encode m) = m only when m already was *)
Example mc_roundtrip_not_structural : mc_decode T (mc_encode T []) <> Ok [].
Proof. vm_compute. discriminate. Qed.

(* blob -> value -> blob: everything but the 6 reserved bytes *)
Theorem mc_blob_roundtrip : forall b, length b = 69%nat -> exists m,
  mc_decode T b = Ok m /\ mc_encode T m = repeat 0 6 ++ skipn 6 b.
Proof.
  intros b H. do 69 (destruct b as [|? b]; [discriminate|]). destruct b; [|discriminate].
  eexists. split; reflexivity.
Qed.

Corollary mc_blob_roundtrip_exact : forall b, length b = 69%nat -> firstn 6 b = repeat 0 6 -> exists m,
  mc_decode T b = Ok m /\ mc_encode T m = b.
Proof.
  intros b H H6. destruct (mc_blob_roundtrip b H) as (m & Hd & He). exists m. split; [exact Hd|].
  rewrite He, <- H6. apply firstn_skipn.
Qed.

(* ... and the reserved bytes are lost *)
Example mc_blob_reserved_lost : exists b m, length b = 69%nat /\ mc_decode T b = Ok m /\ mc_encode T m <> b.
Proof.
  exists (1 :: repeat 0 68). eexists. split; [reflexivity|]. split; [vm_compute; reflexivity|].
  vm_compute. discriminate.
Qed.
