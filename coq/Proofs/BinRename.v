(* BinRename.v — property C07 for the binary format: the chunks (hence the bytes) [encode_chunks] / [encode_file] produce
   do not depend on the Ref values of the DOM.  Rebuilding the same tree with other referents (any renaming [phi] of the
   refs that fixes the null ref and is injective on the refs that occur) gives the same file, for every database whose
   default values hold no non-null ref (in particular the bundled one), all encoder parameters and every compression.
   Same architecture as Proofs/XmlDeterminism.v part (3), whose [rename_dom] / [rename_value] / [injective_on] are reused:
     (1) [find_inst] / [children_of] commute with the renaming                      (XmlDeterminism)
     (2) the traversal [add_loop] of the renamed DOM is the phi-image of the original traversal ([add_loop_rn]):
         the same visits in the same order, the same type table except that [ti_instances] is phi-mapped, the same
         shared strings, the same error / panic / fuel outcome ([collect_type_info_rn] never looks at a Ref value)
     (3) the referent table of the phi-image assigns phi r the number the original table assigns r; refs outside the
         written set still miss ([referent_table_rn]; injectivity on ALL refs of the DOM is used here)
     (4) [prop_value] of a renamed instance is the renamed value; [enc_col] of renamed values in the renamed context is
         [enc_col] of the values in the original context (only the Ref and Content arms look at the table)
     (5) INST and PRNT chunks hold file referents only; assembly.
   Unlike in XML, a Content value holding an object ref DOES reach the output (through the referent table), so the
   injectivity domain [bin_dom_refs] contains those refs too.
   FINDING: for an arbitrary database the statement needs a hypothesis on the DEFAULT values: a default value that holds a
   non-null Ref is written, un-renamed, for the instances lacking the property ([rename_needs_null_defaults]).
   Standard library only. *)
From Coq Require Import List NArith ZArith Bool Lia Permutation.
From RbxVerif Require Import Base Bytes Value Db DbFacts CodecDom BinValues BinFile BinFileFacts BinColumnsFacts
                             XmlDeterminism BinTypeInfoFacts.
Import ListNotations.
Open Scope list_scope.
Open Scope N_scope.

(* ================================================================= the image of a serializer state *)
Definition map_ti (phi : N -> N) (ti : type_info) : type_info :=
  mkTI (ti_id ti) (ti_service ti) (List.map phi (ti_instances ti)) (ti_props ti) (ti_class ti) (ti_visited ti).
Definition map_types (phi : N -> N) (l : list (bytes * type_info)) : list (bytes * type_info) :=
  List.map (fun kv => (fst kv, map_ti phi (snd kv))) l.
Definition map_st (phi : N -> N) (st : ser_state) : ser_state :=
  mkSS (List.map phi (ss_relevant st)) (map_types phi (ss_types st)) (ss_next_id st) (ss_sstr st).
Definition map_acc (phi : N -> N) (a : list bytes * type_info) : list bytes * type_info := (fst a, map_ti phi (snd a)).

Lemma track_sstr_rename phi v ss : track_sstr (rename_value phi v) ss = track_sstr v ss.
Proof. destruct v as [| | | | | | | | | | | | | | | | | | | | | | | | | | | | | | | | | | | | | | |c]; try reflexivity. destruct c; reflexivity. Qed.
Lemma vtype_rename phi v : vtype (rename_value phi v) = vtype v.
Proof. destruct v as [| | | | | | | | | | | | | | | | | | | | | | | | | | | | | | | | | | | | | | |c]; try reflexivity. destruct c; reflexivity. Qed.
Lemma resolve_prop_rename phi d class k v : resolve_prop d class k (rename_value phi v) = resolve_prop d class k v.
Proof. unfold resolve_prop. rewrite vtype_rename. reflexivity. Qed.

Lemma cti_prop_rn phi d class ss ti k v :
  cti_prop d class (ss, map_ti phi ti) (k, rename_value phi v) = rmap (map_acc phi) (cti_prop d class (ss, ti) (k, v)).
Proof.
  unfold cti_prop. rewrite track_sstr_rename, resolve_prop_rename.
  destruct ti as [id sv ins props cls vis]. cbn [map_ti ti_id ti_service ti_instances ti_props ti_class ti_visited].
  destruct (bmem k vis); [reflexivity|].
  destruct (resolve_prop d class k v) as [[|canonical serialized ser_ty migration]| |c|]; cbn [rbind rmap]; try reflexivity.
  destruct (bfind canonical props) as [pi0|] eqn:Ef; cbn [rbind].
  - destruct (bytes_eqb k canonical); [reflexivity|]. cbn [ti_props]. rewrite Ef. reflexivity.
  - destruct (match cls with Some c => find_default d c (string_of_bytes canonical) | None => Ok None end) as [dbdef| |c|]; cbn [rbind]; try reflexivity.
    destruct (match dbdef with Some v0 => Some v0 | None => fallback_default_value ser_ty end) as [dv|]; [|reflexivity].
    destruct (from_rbx_type ser_ty) as [st|]; [|reflexivity]. cbn [rbind].
    destruct (bytes_eqb k canonical); [reflexivity|]. cbn [ti_props].
    destruct (bfind canonical (binsert _ props)); reflexivity.
Qed.

Lemma fold_cti_rn phi d class : forall ps ss ti,
  fold_res (cti_prop d class) (ss, map_ti phi ti) (rename_props phi ps) = rmap (map_acc phi) (fold_res (cti_prop d class) (ss, ti) ps).
Proof.
  induction ps as [|[k v] ps IH]; intros ss ti; [reflexivity|].
  cbn [rename_props List.map fold_res fst snd]. rewrite cti_prop_rn. unfold rmap at 1.
  destruct (cti_prop d class (ss, ti) (k, v)) as [[ss1 ti1]| |c|]; cbn [rbind map_acc fst snd]; try reflexivity.
  apply IH.
Qed.

Lemma bfind_map_types phi c l : bfind c (map_types phi l) = option_map (map_ti phi) (bfind c l).
Proof. induction l as [|[k v] l IH]; [reflexivity|]. cbn [map_types List.map bfind fst snd]. destruct (bytes_eqb c k); [reflexivity|exact IH]. Qed.
Lemma bset_map_types phi c ti l : bset c (map_ti phi ti) (map_types phi l) = map_types phi (bset c ti l).
Proof. induction l as [|[k v] l IH]; [reflexivity|]. cbn [map_types List.map bset fst snd]. destruct (bytes_eqb c k); cbn [List.map fst snd]; [reflexivity|]. f_equal. exact IH. Qed.
Lemma binsert_map_types phi c ti l : binsert (c, map_ti phi ti) (map_types phi l) = map_types phi (binsert (c, ti) l).
Proof. unfold map_types. exact (binsert_map_values (map_ti phi) (c, ti) l). Qed.

Lemma collect_type_info_rn phi d st i :
  collect_type_info d (map_st phi st) (rename_inst phi i) = rmap (map_st phi) (collect_type_info d st i).
Proof.
  unfold collect_type_info. cbn [rename_inst i_class i_ref i_props map_st ss_types ss_next_id ss_sstr ss_relevant].
  rewrite bfind_map_types.
  destruct (bfind (i_class i) (ss_types st)) as [ti|]; cbn [option_map].
  - change (mkTI (ti_id (map_ti phi ti)) (ti_service (map_ti phi ti)) (ti_instances (map_ti phi ti) ++ [phi (i_ref i)])
              (ti_props (map_ti phi ti)) (ti_class (map_ti phi ti)) (ti_visited (map_ti phi ti)))
      with (mkTI (ti_id ti) (ti_service ti) (List.map phi (ti_instances ti) ++ List.map phi [i_ref i]) (ti_props ti) (ti_class ti) (ti_visited ti)).
    rewrite <- map_app.
    change (mkTI (ti_id ti) (ti_service ti) (List.map phi (ti_instances ti ++ [i_ref i])) (ti_props ti) (ti_class ti) (ti_visited ti))
      with (map_ti phi (mkTI (ti_id ti) (ti_service ti) (ti_instances ti ++ [i_ref i]) (ti_props ti) (ti_class ti) (ti_visited ti))).
    rewrite fold_cti_rn. unfold rmap.
    destruct (fold_res _ _ (i_props i)) as [[ss1 ti1]| |c|]; cbn [rbind map_acc fst snd]; try reflexivity.
    rewrite bset_map_types. reflexivity.
  - set (ti := new_type_info d (ss_next_id st) (i_class i)).
    change (mkTI (ti_id ti) (ti_service ti) (ti_instances ti ++ [phi (i_ref i)]) (ti_props ti) (ti_class ti) (ti_visited ti))
      with (map_ti phi (mkTI (ti_id ti) (ti_service ti) (ti_instances ti ++ [i_ref i]) (ti_props ti) (ti_class ti) (ti_visited ti))).
    rewrite fold_cti_rn. unfold rmap.
    destruct (fold_res _ _ (i_props i)) as [[ss1 ti1]| |c|]; cbn [rbind map_acc fst snd]; try reflexivity.
    change ti with (map_ti phi ti) at 1. rewrite binsert_map_types, bset_map_types. reflexivity.
Qed.

Definition bvalue_refs (v : value) : list N :=
  match v with VRef r => [r] | VContent (CObject r) => [r] | _ => [] end.
Definition bprops_refs (ps : list (bytes * value)) : list N := flat_map (fun kv => bvalue_refs (snd kv)) ps.
Definition binst_refs (i : inst) : list N := i_ref i :: i_parent i :: bprops_refs (i_props i).
Definition bin_dom_refs (d : cdom) (roots : list N) : list N := 0 :: roots ++ flat_map binst_refs d.

Section Rename.
  Variable phi : N -> N.
  Variable P : N -> Prop.
  Hypothesis P0 : P 0.
  Hypothesis phi0 : phi 0 = 0.
  Hypothesis phi_inj : forall a b, P a -> P b -> phi a = phi b -> a = b.

  Definition binst_ok (i : inst) : Prop := P (i_ref i) /\ P (i_parent i) /\ Forall P (bprops_refs (i_props i)).
  Definition bdom_ok (d : cdom) : Prop := Forall binst_ok d.

  Lemma value_refs_incl v r : In r (value_refs v) -> In r (bvalue_refs v).
  Proof. destruct v; try contradiction. exact (fun H => H). Qed.
  Lemma props_refs_incl ps r : In r (props_refs ps) -> In r (bprops_refs ps).
  Proof.
    unfold props_refs, bprops_refs. rewrite !in_flat_map. intros (kv & Hkv & Hr). exists kv. split; [exact Hkv|now apply value_refs_incl].
  Qed.
  Lemma bdom_ok_dom_ok d : bdom_ok d -> dom_ok P d.
  Proof.
    unfold bdom_ok, dom_ok. apply Forall_impl. intros i (Hr & Hp & Hps). repeat split; try assumption.
    rewrite Forall_forall in *. intros r Hr'. apply Hps. now apply props_refs_incl.
  Qed.

  Definition optP (o : option N) : Prop := match o with Some r => P r | None => True end.

  Lemma last_opt_map (l : list N) : last_opt (List.map phi l) = option_map phi (last_opt l).
  Proof. unfold last_opt. rewrite <- map_rev. destruct (rev l); reflexivity. Qed.
  Lemma last_opt_P (l : list N) : Forall P l -> optP (last_opt l).
  Proof.
    intro H. unfold last_opt. destruct (rev l) as [|x r] eqn:E; [exact I|]. cbn [optP].
    rewrite Forall_forall in H. apply H. apply in_rev. rewrite E. left. reflexivity.
  Qed.
  Lemma opt_eqb_rn a b : optP a -> optP b -> opt_eqb (option_map phi a) (option_map phi b) = opt_eqb a b.
  Proof. destruct a, b; cbn [option_map opt_eqb optP]; try reflexivity. intros Ha Hb. now apply (phi_eqb phi P phi_inj). Qed.
  Lemma is_nil_map {A B} (f : A -> B) l : is_nil (List.map f l) = is_nil l.
  Proof. destruct l; reflexivity. Qed.

  Lemma add_loop_rn d dom : bdom_ok dom -> forall fuel outer tv lvc st, Forall P tv -> optP lvc ->
    add_loop fuel d (rename_dom phi dom) outer (List.map phi tv) (option_map phi lvc) (map_st phi st)
    = rmap (map_st phi) (add_loop fuel d dom outer tv lvc st).
  Proof.
    intros Hd0. pose proof (bdom_ok_dom_ok dom Hd0) as Hd.
    induction fuel as [|f IH]; intros outer tv lvc st Htv Hl; [reflexivity|].
    cbn [add_loop]. destruct tv as [|r rest]; [reflexivity|]. cbn [List.map].
    inversion Htv as [|? ? Hr Hrest]; subst.
    rewrite (find_inst_rename phi P phi_inj dom r Hd Hr).
    destruct (find_inst dom r) as [i|] eqn:Ef; cbn [option_map]; [|reflexivity].
    rewrite (children_of_rename phi P phi_inj dom r Hd Hr).
    pose proof (children_of_ok P dom r Hd) as Hc.
    destruct outer.
    - rewrite <- (map_app phi _ (r :: rest)). apply IH; [|exact Hl]. apply Forall_app. split; assumption.
    - rewrite is_nil_map, last_opt_map, (opt_eqb_rn _ _ (last_opt_P _ Hc) Hl).
      destruct (negb (is_nil (children_of dom r)) && negb (opt_eqb (last_opt (children_of dom r)) lvc)).
      + apply (IH true (r :: rest) lvc st Htv Hl).
      + change (mkSS (ss_relevant (map_st phi st) ++ [phi r]) (ss_types (map_st phi st)) (ss_next_id (map_st phi st)) (ss_sstr (map_st phi st)))
          with (mkSS (List.map phi (ss_relevant st) ++ List.map phi [r]) (map_types phi (ss_types st)) (ss_next_id st) (ss_sstr st)).
        rewrite <- map_app.
        change (mkSS (List.map phi (ss_relevant st ++ [r])) (map_types phi (ss_types st)) (ss_next_id st) (ss_sstr st))
          with (map_st phi (mkSS (ss_relevant st ++ [r]) (ss_types st) (ss_next_id st) (ss_sstr st))).
        rewrite collect_type_info_rn. unfold rmap at 1 2.
        destruct (collect_type_info d _ i) as [st1| |c|]; cbn [rbind]; try reflexivity.
        apply (IH false rest (Some r) st1 Hrest Hr).
  Qed.

  (* ---- invariants of the original run *)
  Variable d : db.
  Definition fixed (v : value) : Prop := rename_value phi v = v /\ Forall P (bvalue_refs v).
  Hypothesis Hdef : forall c pn v, In c (db_classes d) -> find_default d c pn = Ok (Some v) -> fixed v.

  Lemma fallback_fixed vt v : fallback_default_value vt = Some v -> fixed v.
  Proof.
    unfold fallback_default_value.
    destruct vt as [|p]; [|do 6 (try destruct p as [p|p|])]; try discriminate; intros [= <-];
      (split; [cbn [rename_value]; rewrite ?phi0; reflexivity|cbn [bvalue_refs]; repeat constructor; exact P0]).
  Qed.

  Definition cls_ok (o : option cdesc) : Prop := match o with Some c => In c (db_classes d) | None => True end.
  Definition props_ok (props : list (bytes * prop_info)) : Prop := Forall (fun cp => fixed (pi_default (snd cp))) props.
  Definition ti_ok (ti : type_info) : Prop := Forall P (ti_instances ti) /\ props_ok (ti_props ti) /\ cls_ok (ti_class ti).
  Definition st_ok (st : ser_state) : Prop := Forall P (ss_relevant st) /\ Forall (fun kv => ti_ok (snd kv)) (ss_types st).

  Lemma col_plan_fixed cls c ty dv wt : cls_ok cls -> col_plan d cls c ty = Ok (dv, wt) -> fixed dv.
  Proof.
    intros Hc. unfold col_plan.
    destruct cls as [k|].
    - destruct (find_default d k (string_of_bytes c)) as [[v|]| |e|] eqn:E; cbn [rbind]; try discriminate.
      + destruct (from_rbx_type ty); [|discriminate]. intros [= <- _]. exact (Hdef k _ v Hc E).
      + destruct (fallback_default_value ty) as [v|] eqn:Ef; [|discriminate].
        destruct (from_rbx_type ty); [|discriminate]. intros [= <- _]. exact (fallback_fixed _ _ Ef).
    - cbn [rbind]. destruct (fallback_default_value ty) as [v|] eqn:Ef; [|discriminate].
      destruct (from_rbx_type ty); [|discriminate]. intros [= <- _]. exact (fallback_fixed _ _ Ef).
  Qed.

  Lemma pstep_props_ok class cls st pv st' : cls_ok cls ->
    pstep d class cls st pv = Ok st' -> props_ok (ps_props st) -> props_ok (ps_props st').
  Proof.
    destruct pv as [n v]. intros Hc H Hp. apply pstep_inv in H.
    destruct H as [Hv Ev Ep Es|Hv Hr Ev Ep Es|c s ty m pi Hv Hr Hf Ev Ep Es|c s ty m dv wt Hv Hr Hf Hcp Ev Ep Es];
      rewrite Ep; try exact Hp; unfold props_ok.
    - apply forall_bset; [|exact Hp]. intros k. cbn [snd].
      destruct (new_pi_fields n c m pi) as (_ & _ & -> & _).
      apply bfind_in in Hf. unfold props_ok in Hp. rewrite Forall_forall in Hp. exact (Hp _ Hf).
    - apply forall_binsert; [|exact Hp]. cbn [snd].
      destruct (new_pi_fields n c m (mkPI wt s [] dv m)) as (_ & _ & -> & _). cbn [pi_default].
      exact (col_plan_fixed cls c ty dv wt Hc Hcp).
  Qed.

  Lemma fold_pstep_props_ok class cls : cls_ok cls -> forall l st st',
    fold_res (pstep d class cls) st l = Ok st' -> props_ok (ps_props st) -> props_ok (ps_props st').
  Proof.
    intros Hc. induction l as [|pv l IH]; intros st st' H Hp; cbn [fold_res] in H; [now injection H as <-|].
    destruct (pstep d class cls st pv) as [st1| | |] eqn:E; cbn [rbind] in H; try discriminate.
    eapply IH; [exact H|]. eapply pstep_props_ok; eauto.
  Qed.

  Lemma fold_cti_ok class l ss ti ss' ti' :
    fold_res (cti_prop d class) (ss, ti) l = Ok (ss', ti') -> ti_ok ti -> ti_ok ti'.
  Proof.
    rewrite fold_cti_pstep. cbn [snd]. unfold rmap. intros H (Hi & Hp & Hc).
    destruct (fold_res _ _ l) as [st1| | |] eqn:E; cbn [rbind] in H; try discriminate.
    injection H as _ <-. unfold ti_with. repeat split; cbn [ti_instances ti_props ti_class]; try assumption.
    eapply fold_pstep_props_ok; [exact Hc|exact E|exact Hp].
  Qed.

  Lemma new_type_info_ok id class : ti_ok (new_type_info d id class).
  Proof.
    unfold new_type_info, ti_ok. cbn [ti_instances ti_props ti_class]. repeat split.
    - constructor.
    - constructor; [|constructor]. cbn [snd pi_default]. split; [reflexivity|constructor].
    - unfold cls_ok, get_class. destruct (find_class (db_classes d) (string_of_bytes class)) as [c|] eqn:E; [|exact I].
      eapply DbFacts.find_class_in; eauto.
  Qed.

  Lemma collect_ok st i st' : P (i_ref i) -> collect_type_info d st i = Ok st' -> st_ok st -> st_ok st'.
  Proof.
    intros Hr. unfold collect_type_info. intros H (Hrel & Hty).
    set (cur := match bfind (i_class i) (ss_types st) with
                | Some ti => (ss_types st, ss_next_id st, ti)
                | None => let ti := new_type_info d (ss_next_id st) (i_class i) in
                          (binsert (i_class i, ti) (ss_types st), ss_next_id st + 1, ti)
                end) in *.
    assert (Hcur : Forall (fun kv => ti_ok (snd kv)) (fst (fst cur)) /\ ti_ok (snd cur)).
    { subst cur. destruct (bfind (i_class i) (ss_types st)) as [ti|] eqn:E; cbn [fst snd].
      - split; [exact Hty|]. apply bfind_in in E. rewrite Forall_forall in Hty. exact (Hty _ E).
      - split; [|apply new_type_info_ok]. apply forall_binsert; [apply new_type_info_ok|exact Hty]. }
    destruct cur as [[types next] ti]. cbn [fst snd] in Hcur. destruct Hcur as [Htypes Hti].
    destruct (fold_res _ _ (i_props i)) as [[ss1 ti1]| | |] eqn:F; cbn [rbind] in H; try discriminate.
    injection H as <-. split; cbn [ss_relevant ss_types]; [exact Hrel|].
    apply forall_bset; [|exact Htypes]. intros k. cbn [snd].
    eapply fold_cti_ok; [exact F|]. destruct Hti as (Hi & Hp & Hc). repeat split; cbn [ti_instances ti_props ti_class]; try assumption.
    apply Forall_app. split; [exact Hi|]. constructor; [exact Hr|constructor].
  Qed.

  Lemma add_loop_ok dom : bdom_ok dom -> forall fuel outer tv lvc st st',
    add_loop fuel d dom outer tv lvc st = Ok st' -> Forall P tv -> st_ok st -> st_ok st'.
  Proof.
    intros Hd0. pose proof (bdom_ok_dom_ok dom Hd0) as Hd.
    induction fuel as [|f IH]; intros outer tv lvc st st' H Htv Hs; cbn [add_loop] in H; [discriminate|].
    destruct tv as [|r rest]; [now injection H as <-|].
    inversion Htv as [|? ? Hr Hrest]; subst.
    destruct (find_inst dom r) as [i|] eqn:Ef; [|discriminate].
    destruct outer.
    - eapply IH; [exact H| |exact Hs]. apply Forall_app. split; [now apply (children_of_ok P dom r)|exact Htv].
    - destruct (negb (is_nil (children_of dom r)) && negb (opt_eqb (last_opt (children_of dom r)) lvc)); [eapply IH; eauto|].
      destruct (collect_type_info d _ i) as [st1| | |] eqn:E; cbn [rbind] in H; try discriminate.
      eapply IH; [exact H|exact Hrest|]. eapply collect_ok; [|exact E|].
      + rewrite (find_inst_ref _ _ _ Ef). exact Hr.
      + destruct Hs as [Hrel Hty]. split; cbn [ss_relevant ss_types]; [|exact Hty].
        apply Forall_app. split; [exact Hrel|]. constructor; [exact Hr|constructor].
  Qed.

  (* ---- generic list lemmas *)
  Lemma map_res_map_in {A A' B} (g : A -> A') (f' : A' -> res B) (f : A -> res B) l :
    (forall x, In x l -> f' (g x) = f x) -> map_res f' (List.map g l) = map_res f l.
  Proof.
    induction l as [|x l IH]; intro H; [reflexivity|]. cbn [List.map map_res].
    rewrite (H x (or_introl eq_refl)). destruct (f x); cbn [rbind]; try reflexivity.
    rewrite IH; [reflexivity|]. intros y Hy. apply H. right. exact Hy.
  Qed.
  Lemma map_res_ext_in {A B} (f' f : A -> res B) l : (forall x, In x l -> f' x = f x) -> map_res f' l = map_res f l.
  Proof. intro H. rewrite <- (map_id l) at 1. now apply map_res_map_in. Qed.
  Lemma flat_map_map {A B C} (g : A -> B) (f : B -> list C) l : flat_map f (List.map g l) = flat_map (fun x => f (g x)) l.
  Proof. induction l as [|x l IH]; [reflexivity|]. cbn [List.map flat_map]. now rewrite IH. Qed.

  (* ---- (3) the referent table *)
  Definition map_keys (m : list (N * Z)) : list (N * Z) := List.map (fun kv => (phi (fst kv), snd kv)) m.

  Lemma referent_table_map l : forall next acc,
    referent_table next (List.map phi l) (map_keys acc) = map_keys (referent_table next l acc).
  Proof. induction l as [|r l IH]; intros next acc; [reflexivity|]. cbn [List.map referent_table]. exact (IH (next + 1)%Z ((r, next) :: acc)). Qed.

  Lemma referent_table_keys l : forall next acc, Forall P l -> Forall P (List.map fst acc) ->
    Forall P (List.map fst (referent_table next l acc)).
  Proof.
    induction l as [|r l IH]; intros next acc Hl Ha; [exact Ha|]. inversion Hl; subst. cbn [referent_table].
    apply IH; [assumption|]. cbn [List.map fst]. constructor; assumption.
  Qed.

  Lemma lookup_map_keys r (m : list (N * Z)) : P r -> Forall P (List.map fst m) -> lookup (phi r) (map_keys m) = lookup r m.
  Proof.
    intros Hr. induction m as [|[k v] m IH]; intro Hm; [reflexivity|].
    cbn [List.map fst] in Hm. inversion Hm as [|? ? Hk Hm']; subst.
    cbn [map_keys List.map lookup fst snd]. rewrite (phi_eqb phi P phi_inj r k Hr Hk). destruct (r =? k); [reflexivity|now apply IH].
  Qed.

  (* the table of the renamed run assigns phi r the number the table of the original run assigns r; a ref that is not
     written stays unwritten: this is where injectivity on ALL refs of the DOM is used *)
  Lemma referent_table_rn l r : Forall P l -> P r ->
    lookup (phi r) (referent_table 0 (List.map phi l) []) = lookup r (referent_table 0 l []).
  Proof.
    intros Hl Hr. change (@nil (N * Z)) with (map_keys []) at 1. rewrite referent_table_map.
    apply lookup_map_keys; [exact Hr|]. apply referent_table_keys; [exact Hl|constructor].
  Qed.

  (* ---- (4) values *)
  Lemma bfind_rename_props k ps : bfind k (rename_props phi ps) = option_map (rename_value phi) (bfind k ps).
  Proof. induction ps as [|[k' v] ps IH]; [reflexivity|]. cbn [rename_props List.map bfind fst snd]. destruct (bytes_eqb k k'); [reflexivity|exact IH]. Qed.

  Lemma plain_no_refs v : plain v = true -> bvalue_refs v = [].
  Proof. destruct v as [| | | | | | | | | | | | | | | | | | | | | | | | | | | | | | | | | | | | | | |c]; try discriminate; try reflexivity. destruct c; try discriminate; reflexivity. Qed.

  Lemma find_ext_bool {A} (f g : A -> bool) l : (forall x, f x = g x) -> find f l = find g l.
  Proof. intro H. induction l as [|x l IH]; [reflexivity|]. cbn [find]. rewrite H, IH. reflexivity. Qed.

  Definition raw_value (canon : bytes) (pi : prop_info) (ord : list bytes) (i : inst) : value :=
    if bytes_eqb canon NAME then VString (i_name i)
    else match bfind canon (i_props i) with
         | Some v => v
         | None =>
             match find (fun a => match bfind a (i_props i) with Some _ => true | None => false end) ord with
             | Some a => match bfind a (i_props i) with Some v => v | None => pi_default pi end
             | None => pi_default pi
             end
         end.
  Lemma prop_value_raw p canon pi ord i :
    prop_value p canon pi ord i =
    match pi_migration pi with
    | Some op => match migrate (ep_font p) (ep_brick p) op (raw_value canon pi ord i) with
                 | Some nv => nv
                 | None => raw_value canon pi ord i
                 end
    | None => raw_value canon pi ord i
    end.
  Proof. reflexivity. Qed.

  Lemma raw_value_rn canon pi ord i : fixed (pi_default pi) ->
    raw_value canon pi ord (rename_inst phi i) = rename_value phi (raw_value canon pi ord i).
  Proof.
    intros [Hfix _]. unfold raw_value. cbn [rename_inst i_name i_props].
    destruct (bytes_eqb canon NAME); [reflexivity|].
    rewrite bfind_rename_props. destruct (bfind canon (i_props i)) as [v|]; [reflexivity|]. cbn [option_map].
    rewrite (find_ext_bool _ (fun a => match bfind a (i_props i) with Some _ => true | None => false end)).
    2:{ intro a. rewrite bfind_rename_props. destruct (bfind a (i_props i)); reflexivity. }
    destruct (find _ ord) as [a|]; [|now rewrite Hfix].
    rewrite bfind_rename_props. destruct (bfind a (i_props i)); [reflexivity|now rewrite Hfix].
  Qed.

  Lemma prop_value_rn p canon pi ord i : fixed (pi_default pi) ->
    prop_value p canon pi ord (rename_inst phi i) = rename_value phi (prop_value p canon pi ord i).
  Proof.
    intros Hfix. rewrite !prop_value_raw, (raw_value_rn canon pi ord i Hfix).
    destruct (pi_migration pi) as [op|]; [|reflexivity].
    rewrite migrate_rename. destruct (migrate (ep_font p) (ep_brick p) op (raw_value canon pi ord i)); reflexivity.
  Qed.

  Lemma bfind_refs k ps v : bfind k ps = Some v -> Forall P (bprops_refs ps) -> Forall P (bvalue_refs v).
  Proof.
    intros Hf Hps. apply bfind_in in Hf. rewrite Forall_forall in *. intros r Hr. apply Hps.
    unfold bprops_refs. apply in_flat_map. exists (k, v). split; assumption.
  Qed.

  Lemma prop_value_refs p canon pi ord i : fixed (pi_default pi) -> binst_ok i ->
    Forall P (bvalue_refs (prop_value p canon pi ord i)).
  Proof.
    intros [_ Hfix] (_ & _ & Hps). rewrite prop_value_raw.
    assert (Hraw : Forall P (bvalue_refs (raw_value canon pi ord i))).
    { unfold raw_value. destruct (bytes_eqb canon NAME); [constructor|].
      destruct (bfind canon (i_props i)) as [v|] eqn:E; [exact (bfind_refs _ _ _ E Hps)|].
      destruct (find _ ord) as [a|]; [|exact Hfix].
      destruct (bfind a (i_props i)) as [v|] eqn:E2; [exact (bfind_refs _ _ _ E2 Hps)|exact Hfix]. }
    destruct (pi_migration pi) as [op|]; [|exact Hraw].
    destruct (migrate (ep_font p) (ep_brick p) op (raw_value canon pi ord i)) as [nv|] eqn:Em; [|exact Hraw].
    rewrite (plain_no_refs nv (migrate_plain _ _ _ _ _ Em)). constructor.
  Qed.

  (* ---- enc_col *)
  Lemma collect_rn_gen {A} (g : A -> A) (f' f : value -> res A) vs :
    (forall v, In v vs -> f' (rename_value phi v) = rmap g (f v)) ->
    collect f' (List.map (rename_value phi) vs) = rmap (List.map g) (collect f vs).
  Proof.
    induction vs as [|v vs IH]; intro H; [reflexivity|]. cbn [List.map collect].
    rewrite (H v (or_introl eq_refl)). unfold rmap at 1 2. destruct (f v) as [a| |c|]; cbn [rbind]; try reflexivity.
    rewrite IH by (intros w Hw; apply H; right; exact Hw). unfold rmap.
    destruct (collect f vs); reflexivity.
  Qed.
  Lemma collect_rn {A} (f' f : value -> res A) vs :
    (forall v, In v vs -> f' (rename_value phi v) = f v) -> collect f' (List.map (rename_value phi) vs) = collect f vs.
  Proof.
    intro H. rewrite (collect_rn_gen (fun x => x) f' f).
    - unfold rmap. destruct (collect f vs); cbn [rbind]; try reflexivity. now rewrite map_id.
    - intros v Hv. rewrite (H v Hv). unfold rmap. destruct (f v); reflexivity.
  Qed.
  Lemma collect_in {A} (f : value -> res A) : forall vs l x, collect f vs = Ok l -> In x l -> exists v, In v vs /\ f v = Ok x.
  Proof.
    induction vs as [|v vs IH]; intros l x H Hx; cbn [collect] in H.
    - injection H as <-. contradiction.
    - destruct (f v) as [a| |c|] eqn:Ev; cbn [rbind] in H; try discriminate.
      destruct (collect f vs) as [rest| |c|] eqn:Ec; cbn [rbind] in H; try discriminate. injection H as <-.
      destruct Hx as [<-|Hx]; [exists v; split; [left; reflexivity|exact Ev]|].
      destruct (IH rest x eq_refl Hx) as (w & Hw & Hfw). exists w. split; [right; exact Hw|exact Hfw].
  Qed.

  Definition rename_content (c : content) : content := match c with CObject r => CObject (phi r) | _ => c end.

  Lemma enc_col_rn ty f' f s q vs :
    (forall v r, In v vs -> In r (bvalue_refs v) -> f' (phi r) = f r) ->
    enc_col ty (mkEC f' s q) (List.map (rename_value phi) vs) = enc_col ty (mkEC f s q) vs.
  Proof.
    intro H.
    destruct ty; unfold enc_col;
      try (match goal with |- rbind (collect ?F _) _ = _ => rewrite (collect_rn F F vs) end; [reflexivity|];
           intros v Hv; destruct v as [| | | | | | | | | | | | | | | | | | | | | | | | | | | | | | | | | | | | | | |c]; try reflexivity; destruct c; reflexivity).
    - (* WRef *)
      rewrite (collect_rn _ (fun v => match v with VRef r => Ok (ref_id (mkEC f s q) r) | _ => mismatch end) vs); [reflexivity|].
      intros v Hv. destruct v as [| | | | | | | | | | | | | | | | | | | | | | | | | | | | | | | | | | | | | | |c]; try reflexivity.
      + cbn [rename_value]. unfold ref_id. cbn [ec_referent]. rewrite (H (VRef r) r Hv (or_introl eq_refl)). reflexivity.
      + destruct c; reflexivity.
    - (* WContent *)
      rewrite (collect_rn_gen rename_content _ (fun v => match v with VContent x => Ok x | _ => mismatch end) vs).
      2:{ intros v Hv. destruct v as [| | | | | | | | | | | | | | | | | | | | | | | | | | | | | | | | | | | | | | |c]; try reflexivity. destruct c; reflexivity. }
      unfold rmap. destruct (collect _ vs) as [cs| |c|] eqn:Ec; cbn [rbind]; try reflexivity.
      rewrite map_map, !flat_map_map.
      assert (E1 : List.map (fun x => match rename_content x with CNone => 0%Z | CUri _ => 1%Z | CObject _ => 2%Z end) cs
                   = List.map (fun x => match x with CNone => 0%Z | CUri _ => 1%Z | CObject _ => 2%Z end) cs).
      { apply map_ext. intros [| |]; reflexivity. }
      assert (E2 : flat_map (fun x => match rename_content x with CUri u => [u] | _ => [] end) cs
                   = flat_map (fun x => match x with CUri u => [u] | _ => [] end) cs).
      { apply flat_map_ext. intros [| |]; reflexivity. }
      assert (E3 : flat_map (fun x => match rename_content x with CObject r => [ref_id (mkEC f' s q) r] | _ => [] end) cs
                   = flat_map (fun x => match x with CObject r => [ref_id (mkEC f s q) r] | _ => [] end) cs).
      { rewrite !flat_map_concat_map. f_equal. apply map_ext_in. intros x Hx. destruct x as [| |r]; try reflexivity.
        destruct (collect_in _ vs cs (CObject r) Ec Hx) as (v & Hv & Hfv).
        destruct v as [| | | | | | | | | | | | | | | | | | | | | | | | | | | | | | | | | | | | | | |c]; try discriminate. injection Hfv as ->.
        cbn [rename_content]. unfold ref_id. cbn [ec_referent]. rewrite (H _ r Hv (or_introl eq_refl)). reflexivity. }
      rewrite E1, E2, E3. reflexivity.
  Qed.

  (* ---- (5) the chunks *)
  Lemma to_ref_rn l x : Forall P l -> P x ->
    to_ref (referent_table 0 (List.map phi l) []) (phi x) = to_ref (referent_table 0 l []) x.
  Proof. intros Hl Hx. unfold to_ref. now rewrite referent_table_rn. Qed.

  Lemma len32_map {A B} (g : A -> B) l : len32 (List.map g l) = len32 l.
  Proof. unfold len32. now rewrite map_length. Qed.

  Lemma inst_chunk_rn l cn ti : Forall P l -> Forall P (ti_instances ti) ->
    inst_chunk (referent_table 0 (List.map phi l) []) (cn, map_ti phi ti) = inst_chunk (referent_table 0 l []) (cn, ti).
  Proof.
    intros Hl Hi. unfold inst_chunk. cbn [map_ti ti_instances ti_id ti_service].
    rewrite (map_res_map_in phi _ (to_ref (referent_table 0 l []))).
    2:{ intros x Hx. apply to_ref_rn; [exact Hl|]. rewrite Forall_forall in Hi. now apply Hi. }
    rewrite len32_map, map_map. reflexivity.
  Qed.

  Lemma gather_rn dom l : bdom_ok dom -> Forall P l -> forall acc,
    fold_res (fun acc r => match find_inst (rename_dom phi dom) r with Some i => Ok (acc ++ [i]) | None => Panic end)
             (List.map (rename_inst phi) acc) (List.map phi l)
    = rmap (List.map (rename_inst phi))
           (fold_res (fun acc r => match find_inst dom r with Some i => Ok (acc ++ [i]) | None => Panic end) acc l).
  Proof.
    intros Hd0 Hl. pose proof (bdom_ok_dom_ok dom Hd0) as Hd.
    induction Hl as [|r l Hr Hl IH]; intro acc; [reflexivity|]. cbn [List.map fold_res].
    rewrite (find_inst_rename phi P phi_inj dom r Hd Hr).
    destruct (find_inst dom r) as [i|]; cbn [option_map rbind]; [|reflexivity].
    change (List.map (rename_inst phi) acc ++ [rename_inst phi i]) with (List.map (rename_inst phi) acc ++ List.map (rename_inst phi) [i]).
    rewrite <- map_app. apply IH.
  Qed.

  Lemma gather_ok dom : bdom_ok dom -> forall l acc insts,
    fold_res (fun acc r => match find_inst dom r with Some i => Ok (acc ++ [i]) | None => Panic end) acc l = Ok insts ->
    Forall binst_ok acc -> Forall binst_ok insts.
  Proof.
    intros Hd0. induction l as [|r l IH]; intros acc insts H Ha; cbn [fold_res] in H; [now injection H as <-|].
    destruct (find_inst dom r) as [i|] eqn:Ef; cbn [rbind] in H; [|discriminate].
    eapply IH; [exact H|]. apply Forall_app. split; [exact Ha|]. constructor; [|constructor].
    apply find_inst_in in Ef. unfold bdom_ok in Hd0. rewrite Forall_forall in Hd0. now apply Hd0.
  Qed.

  Lemma prop_chunk_rn p dom l s q ti canon pi : bdom_ok dom -> Forall P l -> Forall P (ti_instances ti) -> fixed (pi_default pi) ->
    prop_chunk p (rename_dom phi dom) (mkEC (fun r => lookup r (referent_table 0 (List.map phi l) [])) s q) (map_ti phi ti) (canon, pi)
    = prop_chunk p dom (mkEC (fun r => lookup r (referent_table 0 l [])) s q) ti (canon, pi).
  Proof.
    intros Hd0 Hl Hi Hfix. unfold prop_chunk. cbn [map_ti ti_instances ti_id].
    destruct (negb (is_perm (ep_order p (pi_aliases pi)) (pi_aliases pi))); [reflexivity|].
    pose proof (gather_rn dom (ti_instances ti) Hd0 Hi []) as Hg. cbn [List.map] in Hg. rewrite Hg. clear Hg.
    pose proof (gather_ok dom Hd0 (ti_instances ti) []) as Hok.
    unfold rmap. destruct (fold_res _ [] (ti_instances ti)) as [insts| |c|]; cbn [rbind]; try reflexivity.
    specialize (Hok insts eq_refl (Forall_nil _)).
    rewrite map_map.
    rewrite (map_ext _ (fun i => rename_value phi (prop_value p canon pi (ep_order p (pi_aliases pi)) i))) by (intro i; now apply prop_value_rn).
    rewrite <- (map_map (prop_value p canon pi (ep_order p (pi_aliases pi))) (rename_value phi)).
    rewrite (enc_col_rn (pi_type pi) _ (fun r => lookup r (referent_table 0 l []))); [reflexivity|].
    intros v r Hv Hr. apply in_map_iff in Hv. destruct Hv as (i & <- & Hin).
    apply referent_table_rn; [exact Hl|].
    rewrite Forall_forall in Hok. pose proof (prop_value_refs p canon pi (ep_order p (pi_aliases pi)) i Hfix (Hok i Hin)) as Hrefs.
    rewrite Forall_forall in Hrefs. now apply Hrefs.
  Qed.

  Lemma parents_rn dom l r : bdom_ok dom -> Forall P l -> P r ->
    match find_inst (rename_dom phi dom) (phi r) with
    | None => Panic
    | Some i => Ok (if N.eqb (i_parent i) 0 then (-1)%Z
                    else match lookup (i_parent i) (referent_table 0 (List.map phi l) []) with Some z => z | None => (-1)%Z end)
    end =
    match find_inst dom r with
    | None => @Panic Z
    | Some i => Ok (if N.eqb (i_parent i) 0 then (-1)%Z
                    else match lookup (i_parent i) (referent_table 0 l []) with Some z => z | None => (-1)%Z end)
    end.
  Proof.
    intros Hd0 Hl Hr. pose proof (bdom_ok_dom_ok dom Hd0) as Hd.
    rewrite (find_inst_rename phi P phi_inj dom r Hd Hr).
    destruct (find_inst dom r) as [i|] eqn:Ef; cbn [option_map]; [|reflexivity].
    destruct (find_inst_ok P dom r i Hd Ef) as (_ & Hp & _).
    cbn [rename_inst i_parent]. rewrite (phi_eqb0 phi P P0 phi0 phi_inj _ Hp), (referent_table_rn l _ Hl Hp). reflexivity.
  Qed.

  (* ---- add_instances *)
  Lemma add_instances_rn p dom roots : bdom_ok dom -> Forall P roots ->
    add_instances d p (rename_dom phi dom) (List.map phi roots) = rmap (map_st phi) (add_instances d p dom roots).
  Proof.
    intros Hd Hr. unfold add_instances. rewrite rename_dom_length, map_length.
    pose proof (add_loop_rn d dom Hd (3 * (length dom + 1) * (length roots + 1)) true roots None ser_state0 Hr I) as H.
    cbn [option_map] in H. change (map_st phi ser_state0) with ser_state0 in H. rewrite H. unfold rmap.
    destruct (add_loop _ d dom true roots None ser_state0) as [st| |c|]; cbn [rbind]; try reflexivity.
    cbn [map_st ss_sstr ss_relevant ss_types ss_next_id].
    destruct (sort_sstr (ep_hash p) (ss_sstr st)); reflexivity.
  Qed.

  Lemma add_instances_ok p dom roots st : bdom_ok dom -> Forall P roots ->
    add_instances d p dom roots = Ok st -> st_ok st.
  Proof.
    intros Hd Hr. unfold add_instances.
    destruct (add_loop _ d dom true roots None ser_state0) as [st1| |c|] eqn:E; cbn [rbind]; try discriminate.
    destruct (sort_sstr (ep_hash p) (ss_sstr st1)); cbn [rbind]; try discriminate. intros [= <-].
    assert (H : st_ok st1) by (eapply add_loop_ok; [exact Hd|exact E|exact Hr|split; constructor]).
    exact H.
  Qed.

  (* ---- the whole encoder *)
  Theorem encode_chunks_rn p dom roots : bdom_ok dom -> Forall P roots ->
    encode_chunks d p (rename_dom phi dom) (List.map phi roots) = encode_chunks d p dom roots.
  Proof.
    intros Hd Hr. unfold encode_chunks. rewrite (add_instances_rn p dom roots Hd Hr).
    pose proof (add_instances_ok p dom roots) as Hok.
    unfold rmap. destruct (add_instances d p dom roots) as [st| |c|]; cbn [rbind]; try reflexivity.
    destruct (Hok st Hd Hr eq_refl) as [Hrel Hty]. clear Hok.
    cbn [map_st ss_relevant ss_types ss_sstr ss_next_id].
    rewrite map_length. unfold map_types. repeat rewrite len32_map.
    destruct (if Z.ltb 2147483647 (Z.of_nat (length (ss_relevant st))) then Panic else Ok tt); cbn [rbind]; [|reflexivity..].
    (* INST *)
    rewrite (map_res_map_in _ _ (inst_chunk (referent_table 0 (ss_relevant st) []))).
    2:{ intros [cn ti] Hin. cbn [fst snd]. apply inst_chunk_rn; [exact Hrel|].
        rewrite Forall_forall in Hty. exact (proj1 (Hty _ Hin)). }
    destruct (map_res (inst_chunk _) (ss_types st)) as [insts| |c|]; cbn [rbind]; try reflexivity.
    (* PROP *)
    rewrite (map_res_map_in _ _ (fun ct => map_res (prop_chunk p dom
               (mkEC (fun r => lookup r (referent_table 0 (ss_relevant st) [])) (fun s => index_of s (ss_sstr st) 0) (ep_quant p)) (snd ct))
               (ti_props (snd ct)))).
    2:{ intros [cn ti] Hin. cbn [fst snd map_ti ti_props]. apply map_res_ext_in. intros [canon pi] Hcp.
        rewrite Forall_forall in Hty. destruct (Hty _ Hin) as (Hi & Hp & _). cbn [snd] in *.
        apply (prop_chunk_rn p dom (ss_relevant st) _ _ ti canon pi Hd Hrel Hi).
        unfold props_ok in Hp. rewrite Forall_forall in Hp. exact (Hp _ Hcp). }
    destruct (map_res _ (ss_types st)) as [props| |c|]; cbn [rbind]; try reflexivity.
    (* PRNT *)
    rewrite (map_res_map_in phi _ (to_ref (referent_table 0 (ss_relevant st) []))).
    2:{ intros x Hx. apply to_ref_rn; [exact Hrel|]. rewrite Forall_forall in Hrel. now apply Hrel. }
    destruct (map_res (to_ref _) (ss_relevant st)) as [objs| |c|]; cbn [rbind]; try reflexivity.
    match goal with |- context [map_res ?F' (List.map phi (ss_relevant st))] =>
      rewrite (map_res_map_in phi F' (fun r => match find_inst dom r with
                               | None => Panic
                               | Some i => Ok (if N.eqb (i_parent i) 0 then (-1)%Z
                                               else match lookup (i_parent i) (referent_table 0 (ss_relevant st) []) with Some z => z | None => (-1)%Z end)
                               end)) end.
    2:{ intros x Hx. apply parents_rn; [exact Hd|exact Hrel|]. rewrite Forall_forall in Hrel. now apply Hrel. }
    reflexivity.
  Qed.
End Rename.

(* ================================================================= the statements *)
(* the refs held by the default values of the database *)
Definition db_default_refs (d : db) : list N :=
  flat_map (fun c => flat_map (fun kv => bvalue_refs (snd kv)) (cd_defaults c)) (db_classes d).

Lemma find_assoc_in {V} (l : list (String.string * V)) n v : find_assoc l n = Some v -> exists k, In (k, v) l.
Proof.
  induction l as [|[k w] l IH]; cbn [find_assoc]; [discriminate|].
  destruct (String.eqb k n); [intros [= ->]; exists k; left; reflexivity|].
  intro H. destruct (IH H) as [k' Hk']. exists k'. right. exact Hk'.
Qed.

Lemma find_default_loop_in d : forall f c pn v, In c (db_classes d) -> find_default_loop f d c pn = Ok (Some v) ->
  exists c' k, In c' (db_classes d) /\ In (k, v) (cd_defaults c').
Proof.
  induction f as [|f IH]; intros c pn v Hc H; cbn [find_default_loop] in H; [discriminate|].
  destruct (find_assoc (cd_defaults c) pn) as [w|] eqn:E.
  - injection H as ->. destruct (find_assoc_in _ _ _ E) as [k Hk]. exists c, k. split; assumption.
  - destruct (cd_super c) as [sn|]; [|discriminate].
    destruct (get_class d sn) as [sc|] eqn:G; [|discriminate].
    apply (IH sc pn v); [|exact H]. unfold get_class in G. eapply find_class_in; eauto.
Qed.

Lemma find_default_refs d c pn v r : In c (db_classes d) -> find_default d c pn = Ok (Some v) ->
  In r (bvalue_refs v) -> In r (db_default_refs d).
Proof.
  intros Hc H Hr. destruct (find_default_loop_in d _ c pn v Hc H) as (c' & k & Hc' & Hk).
  unfold db_default_refs. apply in_flat_map. exists c'. split; [exact Hc'|].
  apply in_flat_map. exists (k, v). split; assumption.
Qed.

Lemma bdom_ok_refs (Q : N -> Prop) d roots : (forall r, In r (bin_dom_refs d roots) -> Q r) -> bdom_ok Q d.
Proof.
  intro HQ. unfold bdom_ok. apply Forall_forall. intros i Hi.
  assert (Hsub : forall r, In r (binst_refs i) -> Q r).
  { intros r Hr. apply HQ. unfold bin_dom_refs. right. apply in_or_app. right. apply in_flat_map. exists i. split; assumption. }
  repeat split.
  - apply Hsub. left. reflexivity.
  - apply Hsub. right. left. reflexivity.
  - apply Forall_forall. intros r Hr. apply Hsub. right. right. exact Hr.
Qed.

(* MAIN, general form: [phi] may move everything except null and the refs the database's default values hold *)
Theorem bin_encode_chunks_rename_gen phi d p dom roots :
  phi 0 = 0 -> injective_on (bin_dom_refs dom roots ++ db_default_refs d) phi ->
  (forall r, In r (db_default_refs d) -> phi r = r) ->
  encode_chunks d p (rename_dom phi dom) (List.map phi roots) = encode_chunks d p dom roots.
Proof.
  intros H0 Hinj Hfix.
  set (Q := fun r => In r (bin_dom_refs dom roots ++ db_default_refs d)).
  assert (HQ : forall r, In r (bin_dom_refs dom roots) -> Q r) by (intros r Hr; apply in_or_app; left; exact Hr).
  apply (encode_chunks_rn phi Q).
  - apply HQ. left. reflexivity.
  - exact H0.
  - exact Hinj.
  - intros c pn v Hc Hv.
    assert (Hrefs : forall r, In r (bvalue_refs v) -> In r (db_default_refs d)) by (intros r; now apply (find_default_refs d c pn v r)).
    split.
    + destruct v as [| | | | | | | | | | | | | | | | | | | | | | | | | | | | | | | | | | | | | | |x]; try reflexivity.
      * cbn [rename_value]. rewrite (Hfix r); [reflexivity|]. apply Hrefs. left. reflexivity.
      * destruct x as [| |r]; try reflexivity. cbn [rename_value]. rewrite (Hfix r); [reflexivity|]. apply Hrefs. left. reflexivity.
    + apply Forall_forall. intros r Hr. apply in_or_app. right. now apply Hrefs.
  - now apply (bdom_ok_refs Q dom roots).
  - apply Forall_forall. intros r Hr. apply HQ. unfold bin_dom_refs. right. apply in_or_app. left. exact Hr.
Qed.
Print Assumptions bin_encode_chunks_rename_gen.

(* the default values of the database hold no Ref but null: an executable check *)
Definition db_defaults_null (d : db) : bool :=
  forallb (fun c => forallb (fun kv => forallb (N.eqb 0) (bvalue_refs (snd kv))) (cd_defaults c)) (db_classes d).

Lemma db_defaults_null_refs d r : db_defaults_null d = true -> In r (db_default_refs d) -> r = 0.
Proof.
  unfold db_defaults_null, db_default_refs. intros H Hr.
  apply in_flat_map in Hr. destruct Hr as (c & Hc & Hr). apply in_flat_map in Hr. destruct Hr as (kv & Hkv & Hr).
  rewrite forallb_forall in H. specialize (H c Hc). rewrite forallb_forall in H. specialize (H kv Hkv).
  rewrite forallb_forall in H. specialize (H r Hr). apply N.eqb_eq in H. now symmetry.
Qed.

(* MAIN: the chunks do not depend on the Ref values *)
Theorem bin_encode_chunks_rename phi d p dom roots :
  db_defaults_null d = true -> phi 0 = 0 -> injective_on (bin_dom_refs dom roots) phi ->
  encode_chunks d p (rename_dom phi dom) (List.map phi roots) = encode_chunks d p dom roots.
Proof.
  intros Hd H0 Hinj.
  assert (Hz : forall r, In r (bin_dom_refs dom roots ++ db_default_refs d) -> In r (bin_dom_refs dom roots)).
  { intros r Hr. apply in_app_or in Hr. destruct Hr as [Hr|Hr]; [exact Hr|].
    rewrite (db_defaults_null_refs d r Hd Hr). left. reflexivity. }
  apply bin_encode_chunks_rename_gen; [exact H0| |].
  - intros a b Ha Hb. apply Hinj; now apply Hz.
  - intros r Hr. rewrite (db_defaults_null_refs d r Hd Hr). exact H0.
Qed.
Print Assumptions bin_encode_chunks_rename.

(* ... hence neither do the bytes, whatever the compression *)
Theorem bin_encode_file_rename phi d p cmp dom roots :
  db_defaults_null d = true -> phi 0 = 0 -> injective_on (bin_dom_refs dom roots) phi ->
  encode_file d p cmp (rename_dom phi dom) (List.map phi roots) = encode_file d p cmp dom roots.
Proof. intros Hd H0 Hinj. unfold encode_file. now rewrite bin_encode_chunks_rename. Qed.
Print Assumptions bin_encode_file_rename.

Theorem bin_encode_file_rename_gen phi d p cmp dom roots :
  phi 0 = 0 -> injective_on (bin_dom_refs dom roots ++ db_default_refs d) phi ->
  (forall r, In r (db_default_refs d) -> phi r = r) ->
  encode_file d p cmp (rename_dom phi dom) (List.map phi roots) = encode_file d p cmp dom roots.
Proof. intros H0 Hinj Hfix. unfold encode_file. now rewrite bin_encode_chunks_rename_gen. Qed.

(* the database the crates load passes the check (its Ref and Content defaults are all null / none) *)
Theorem bundled_defaults_null : db_defaults_null Database.database = true.
Proof. vm_compute. reflexivity. Qed.

Corollary bin_encode_file_rename_bundled phi p cmp dom roots :
  phi 0 = 0 -> injective_on (bin_dom_refs dom roots) phi ->
  encode_file Database.database p cmp (rename_dom phi dom) (List.map phi roots) = encode_file Database.database p cmp dom roots.
Proof. apply bin_encode_file_rename, bundled_defaults_null. Qed.
Print Assumptions bin_encode_file_rename_bundled.

(* ================================================================= a function of the content alone *)
Lemma inst_perm_refs dom dom' roots : Forall2 inst_perm dom dom' ->
  forall r, In r (bin_dom_refs dom' roots) -> In r (bin_dom_refs dom roots).
Proof.
  intros Hd r. unfold bin_dom_refs. cbn [In]. intros [H|H]; [left; exact H|right].
  apply in_app_or in H. apply in_or_app. destruct H as [H|H]; [left; exact H|right].
  induction Hd as [|i i' d d' Hi Hd IH]; [exact H|].
  cbn [flat_map] in *. apply in_app_or in H. apply in_or_app. destruct H as [H|H]; [left|right; now apply IH].
  destruct Hi as (Hr & Hp & _ & _ & Hperm). unfold binst_refs in *. rewrite <- Hr, <- Hp in H.
  destruct H as [H|[H|H]]; [left; exact H|right; left; exact H|right; right].
  unfold bprops_refs in *. apply in_flat_map in H. destruct H as (kv & Hkv & H). apply in_flat_map.
  exists kv. split; [|exact H]. eapply Permutation_in; [apply Permutation_sym, Hperm|exact Hkv].
Qed.

(* rebuilding the same tree with other referent values and another iteration order of every property map gives the same
   file (the hypotheses on the property maps and on the two hash orders are those of [encode_file_props_perm_iff]) *)
Theorem encode_file_function_of_content phi d p cmp dom dom' roots b :
  Forall2 inst_perm dom dom' ->
  (forall i, In i dom -> NoDup (List.map fst (i_props i))) ->
  dom_agree d dom -> dom_one_spelling d dom ->
  (forall l, Permutation (ep_order p l) l) -> hash_inj (ep_hash p) ->
  db_defaults_null d = true -> phi 0 = 0 -> injective_on (bin_dom_refs dom roots) phi ->
  (encode_file d p cmp (rename_dom phi dom') (List.map phi roots) = Ok b <-> encode_file d p cmp dom roots = Ok b).
Proof.
  intros HD Hnd HA H1 Hord Hh Hdb H0 Hinj.
  rewrite bin_encode_file_rename; [|exact Hdb|exact H0|].
  - symmetry. now apply encode_file_props_perm_iff.
  - intros a c Ha Hc. apply Hinj; now apply (inst_perm_refs dom dom' roots HD).
Qed.
Print Assumptions encode_file_function_of_content.

(* ================================================================= non-vacuity and the need for the hypotheses *)
(* a Folder with a child; Ref and Content properties pointing at a written instance (9), at nothing that is written (55),
   and the null Ref *)
Definition d_bin : cdom :=
  [mkInst 7 0 (bstr "Folder") (bstr "f")
     [(bstr "In", VRef 9); (bstr "Out", VRef 55); (bstr "Nul", VRef 0);
      (bstr "Obj", VContent (CObject 9)); (bstr "ObjOut", VContent (CObject 55))];
   mkInst 9 7 (bstr "Part") (bstr "p") [(bstr "A", VRef 7); (bstr "S", VString (bstr "x"))]].
(* 7 -> 100, 9 -> 3, and the dangling 55 takes the number 7 the Folder had *)
Definition phi_bin (r : N) : N := if r =? 7 then 100 else if r =? 9 then 3 else if r =? 55 then 7 else r.

Example phi_bin_injective : phi_bin 0 = 0 /\ injective_on (bin_dom_refs d_bin [7]) phi_bin.
Proof.
  split; [reflexivity|]. intros a b Ha Hb.
  cbn in Ha, Hb.
  repeat (destruct Ha as [<-|Ha]; [repeat (destruct Hb as [<-|Hb]; [vm_compute; intro; first [reflexivity|discriminate]|]); contradiction|]).
  contradiction.
Qed.

Example bin_encode_file_rename_ex :
  rename_dom phi_bin d_bin =
    [mkInst 100 0 (bstr "Folder") (bstr "f")
       [(bstr "In", VRef 3); (bstr "Out", VRef 7); (bstr "Nul", VRef 0);
        (bstr "Obj", VContent (CObject 3)); (bstr "ObjOut", VContent (CObject 7))];
     mkInst 3 100 (bstr "Part") (bstr "p") [(bstr "A", VRef 100); (bstr "S", VString (bstr "x"))]] /\
  encode_file db0 ep0 None (rename_dom phi_bin d_bin) (List.map phi_bin [7]) = encode_file db0 ep0 None d_bin [7] /\
  (exists b, encode_file db0 ep0 None d_bin [7] = Ok b /\ List.length b = 493%nat) /\
  encode_file Database.database ep0 None (rename_dom phi_bin d_bin) (List.map phi_bin [7])
    = encode_file Database.database ep0 None d_bin [7].
Proof.
  split; [reflexivity|]. split; [|split].
  - apply bin_encode_file_rename; [reflexivity|exact (proj1 phi_bin_injective)|exact (proj2 phi_bin_injective)].
  - eexists. split; vm_compute; reflexivity.
  - apply bin_encode_file_rename_bundled; [exact (proj1 phi_bin_injective)|exact (proj2 phi_bin_injective)].
Qed.

(* the columns of the example: `In` and `Obj` hold the file referent 0 of the Part (the Part is visited first), `Out` and
   `ObjOut` hold -1 (zigzag 1) like `Nul` *)
Example d_bin_ref_columns :
  exists e, encode_chunks db0 ep0 d_bin [7] = Ok e /\
    In (CH_PROP, w_le32 1 ++ w_bstr (bstr "In") ++ [19; 0; 0; 0; 0]) (en_chunks e) /\
    In (CH_PROP, w_le32 1 ++ w_bstr (bstr "Out") ++ [19; 0; 0; 0; 1]) (en_chunks e) /\
    In (CH_PROP, w_le32 1 ++ w_bstr (bstr "Nul") ++ [19; 0; 0; 0; 1]) (en_chunks e).
Proof. eexists. split; [vm_compute; reflexivity|]. vm_compute. tauto. Qed.

(* necessity of injectivity on ALL refs: a renaming that sends the unwritten 55 onto the written 9 changes the bytes *)
Example bin_rename_needs_injectivity :
  encode_file db0 ep0 None (rename_dom (fun r => if r =? 55 then 9 else r) d_bin) [7] <> encode_file db0 ep0 None d_bin [7].
Proof. vm_compute. discriminate. Qed.

(* necessity of respecting null: the injective swap of 0 and 5 turns the parent link of the child into "no parent" *)
Definition swap05 (r : N) : N := if r =? 0 then 5 else if r =? 5 then 0 else r.
Definition d_null : cdom := [mkInst 5 0 (bstr "Folder") (bstr "f") []; mkInst 1 5 (bstr "Folder") (bstr "g") []].
Example bin_rename_needs_null_fixed :
  (forall a b, swap05 a = swap05 b -> a = b) /\
  encode_file db0 ep0 None (rename_dom swap05 d_null) (List.map swap05 [5]) <> encode_file db0 ep0 None d_null [5].
Proof.
  split; [|vm_compute; discriminate].
  intros a b. unfold swap05.
  destruct (N.eqb_spec a 0), (N.eqb_spec a 5), (N.eqb_spec b 0), (N.eqb_spec b 5); lia.
Qed.

(* FINDING: the hypothesis on the database is needed.  With a (user supplied) database whose default for a Ref property
   is a non-null Ref, the default is written for the instances lacking the property and resolved through the referent
   table, without being renamed: the file depends on the referent values. *)
Definition db_refdef : db :=
  mkDb [mkCD "Foo" None false [mkPD "R" (DValue VT_Ref) (KCanon PSerializes)] [("R"%string, VRef 7)]] [].
Definition d_refdef : cdom := [mkInst 7 0 (bstr "Foo") (bstr "a") [(bstr "R", VRef 0)]; mkInst 9 0 (bstr "Foo") (bstr "b") []].
Definition phi_refdef (r : N) : N := if r =? 7 then 100 else r.
Example rename_needs_null_defaults :
  db_defaults_null db_refdef = false /\
  phi_refdef 0 = 0 /\ (forall a b, In a [0; 7; 9] -> In b [0; 7; 9] -> phi_refdef a = phi_refdef b -> a = b) /\
  encode_file db_refdef ep0 None (rename_dom phi_refdef d_refdef) (List.map phi_refdef [7; 9])
    <> encode_file db_refdef ep0 None d_refdef [7; 9].
Proof.
  split; [reflexivity|]. split; [reflexivity|]. split; [|vm_compute; discriminate].
  intros a b Ha Hb. cbn in Ha, Hb.
  repeat (destruct Ha as [<-|Ha]; [repeat (destruct Hb as [<-|Hb]; [vm_compute; intro; first [reflexivity|discriminate]|]); contradiction|]).
  contradiction.
Qed.
(* ... and the general form covers such a database for the renamings that leave 7 alone *)
Example rename_gen_refdef :
  let phi := fun r => if r =? 9 then 200 else r in
  encode_file db_refdef ep0 None (rename_dom phi d_refdef) (List.map phi [7; 9]) = encode_file db_refdef ep0 None d_refdef [7; 9].
Proof.
  intro phi. apply bin_encode_file_rename_gen; [reflexivity| |].
  - intros a b Ha Hb. cbn in Ha, Hb.
    repeat (destruct Ha as [<-|Ha]; [repeat (destruct Hb as [<-|Hb]; [vm_compute; intro; first [reflexivity|discriminate]|]); contradiction|]).
    contradiction.
  - intros r Hr. cbn in Hr. destruct Hr as [<-|[]]. reflexivity.
Qed.

(* why [rename_value] does not descend into Attributes maps: the String arm refuses an attribute of type Ref or Content
   whatever the ref is, so such a ref cannot reach the output *)
Example bin_attribute_ref_refused c name r :
  enc_col WString c [VAttributes [(name, VRef r)]] = Err EE_INVALID_VALUE /\
  enc_col WString c [VAttributes [(name, VContent (CObject r))]] = Err EE_INVALID_VALUE.
Proof. split; reflexivity. Qed.

(* EXPORT:
     bin_encode_chunks_rename bin_encode_file_rename            (C07, binary: independence of the Ref values; hypothesis
                                                                 db_defaults_null on the database)
     bundled_defaults_null bin_encode_file_rename_bundled       (the bundled database)
     bin_encode_chunks_rename_gen bin_encode_file_rename_gen    (general form: phi fixes the refs of the default values)
     encode_file_function_of_content                            (renaming + iteration order of the property maps)
     building blocks: add_loop_rn collect_type_info_rn referent_table_rn prop_value_rn enc_col_rn encode_chunks_rn
     examples: bin_encode_file_rename_ex d_bin_ref_columns rename_gen_refdef bin_attribute_ref_refused
     necessity: bin_rename_needs_injectivity bin_rename_needs_null_fixed
     FINDING:   rename_needs_null_defaults *)
