(* BinSafe.v — the binary decoder model (Model/BinFile.v decode_file, as repaired) is total and panic-free on
   EVERY byte string, for every allocation limit and every inflate oracle, provided the database lookups
   themselves succeed (no dangling alias / superclass: a property of the regenerated database, C16):
   decode_file d p b is Ok or Err, never Panic and never OutOfFuel.
   Uses the good / strict parser framework of Proofs/AttrSafe.v. *)
From RbxVerif Require Import Base Bytes Value Utf8 Utf8Lossy Rotation BrickColor Attr Db CodecDom BinValues BinFile
  BytesFacts AttrSafe.
From Coq Require Import Lia.
Open Scope N_scope.

(* ------------------------------------------------------------------------------------------ *)
(* 1. primitives                                                                                *)
(* ------------------------------------------------------------------------------------------ *)
Lemma good_palloc lim n : good (palloc lim n).
Proof. intros b. unfold palloc. destruct lim as [l|]; [destruct (N.ltb l n)|]; cbn; try exact I; lia. Qed.

Lemma good_take_upto len : good (take_upto len).
Proof.
  intros b. unfold take_upto. destruct (N.leb (N.of_nat (length b)) len); [cbn; lia|]. apply good_read_exact.
Qed.

Lemma strict_read_bstr lim : strict (read_bstr lim).
Proof.
  unfold read_bstr. apply strict_bind; [apply strict_read_le; lia|intros].
  apply good_bind; [apply good_palloc|intros; apply good_take_upto].
Qed.

Lemma strict_read_str lim : strict (read_str lim).
Proof.
  unfold read_str. apply strict_bind; [apply strict_read_bstr|intros].
  destruct (utf8_valid a); [apply good_ret|apply good_fail].
Qed.

Lemma strict_read_f32le : strict read_f32le. Proof. apply strict_read_le. lia. Qed.
Lemma strict_read_f64le : strict read_f64le. Proof. apply strict_read_le. lia. Qed.
Lemma strict_read_i16le : strict read_i16le.
Proof. unfold read_i16le, read_le_i. apply strict_bind; [apply strict_read_le; lia|intros; apply good_ret]. Qed.
Lemma strict_read_bool : strict read_bool.
Proof. unfold read_bool. apply strict_bind; [apply strict_read_u8|intros; apply good_ret]. Qed.
Lemma strict_read_le4 : strict (read_le 4). Proof. apply strict_read_le. lia. Qed.
Lemma strict_read_le2 : strict (read_le 2). Proof. apply strict_read_le. lia. Qed.

Lemma good_prepeat {A} n (p : parser A) : good p -> good (prepeat n p).
Proof.
  intros Hp. induction n as [|n IH]; cbn [prepeat]; [apply good_ret|].
  apply good_bind; [exact Hp|intros]. apply good_bind; [exact IH|intros; apply good_ret].
Qed.

Lemma good_array {A} n k (f : bytes -> A) : good (pbind (read_exact (n * k)) (fun buf => pret (f buf))).
Proof. apply good_bind; [apply good_read_exact|intros; apply good_ret]. Qed.

Lemma good_dec_i32_array n : good (dec_i32_array n). Proof. unfold dec_i32_array. apply good_array. Qed.
Lemma good_dec_u32_array n : good (dec_u32_array n). Proof. unfold dec_u32_array. apply good_array. Qed.
Lemma good_dec_f32_array n : good (dec_f32_array n). Proof. unfold dec_f32_array. apply good_array. Qed.
Lemma good_dec_i64_array n : good (dec_i64_array n). Proof. unfold dec_i64_array. apply good_array. Qed.
Lemma good_dec_ref_array n : good (dec_ref_array n).
Proof. unfold dec_ref_array. apply good_bind; [apply good_dec_i32_array|intros; apply good_ret]. Qed.

Lemma good_pfor32 {A} n (p : parser A) : strict p -> good (pfor32 n p).
Proof. apply good_pfor. Qed.

Ltac bprim :=
  first [ apply strict_read_bstr | apply strict_read_str | apply strict_read_f32le | apply strict_read_f64le
        | apply strict_read_i16le | apply strict_read_bool | apply strict_read_u8 | apply strict_read_le4
        | apply strict_read_le2 ].
Ltac bgood :=
  repeat first
    [ apply good_ret | apply good_fail | apply good_palloc | apply good_take_upto | apply good_read_exact
    | apply good_dec_i32_array | apply good_dec_u32_array | apply good_dec_f32_array | apply good_dec_i64_array
    | apply good_dec_ref_array
    | bprim | (apply strict_good; bprim)
    | (apply good_prepeat)
    | (apply good_pfor32)
    | (apply strict_bind; [|intros])
    | (apply good_bind; [|intros]) ].

Lemma strict_dec_rot : strict dec_rot.
Proof.
  unfold dec_rot. apply strict_bind; [apply strict_read_u8|intros].
  destruct (N.eqb a 0); [bgood|]. destruct (from_basic_rotation_id a); bgood.
Qed.

Lemma good_dec_vec3_arrays n : good (dec_vec3_arrays n).
Proof. unfold dec_vec3_arrays. bgood. Qed.

Lemma content_values_good c : forall tys uris objects,
  content_values c tys uris objects <> Panic /\ content_values c tys uris objects <> OutOfFuel.
Proof.
  induction tys as [|ty rest IH]; intros uris objects; [cbn; split; discriminate|].
  assert (Hcase : ty = 0%Z \/ ty = 1%Z \/ ty = 2%Z \/ (ty <> 0%Z /\ ty <> 1%Z /\ ty <> 2%Z)) by lia.
  destruct Hcase as [->|[->|[->|(H0 & H1 & H2)]]].
  - cbn [content_values]. destruct (IH uris objects) as [A B].
    destruct (content_values c rest uris objects); cbn [rbind]; split; congruence.
  - cbn [content_values]. destruct (pop_back uris) as [[u us]|]; [|split; discriminate].
    destruct (IH us objects) as [A B].
    destruct (content_values c rest us objects); cbn [rbind]; split; congruence.
  - cbn [content_values]. destruct (pop_front objects) as [[o objs]|]; [|split; discriminate].
    destruct (IH uris objs) as [A B].
    destruct (content_values c rest uris objs); cbn [rbind]; split; congruence.
  - assert (E : content_values c (ty :: rest) uris objects = Err E_CONTENT_TYPE).
    { cbn [content_values]. destruct ty as [|p|p]; [congruence| |reflexivity].
      destruct p as [p|p|]; [destruct p; reflexivity| |congruence].
      destruct p as [p|p|]; [reflexivity|reflexivity|congruence]. }
    rewrite E. split; discriminate.
Qed.

(* ------------------------------------------------------------------------------------------ *)
(* 2. every arm of decode_prop_chunk's `match binary_type`                                      *)
(* ------------------------------------------------------------------------------------------ *)
Lemma good_tmismatch {A} : good (@tmismatch A).
Proof. apply good_fail. Qed.

Lemma ocf_values_len l : forall b, (length (snd (ocf_values l b)) <= length b)%nat.
Proof.
  induction l as [|[p r] l IH]; intros b; cbn [ocf_values]; [cbn; lia|].
  destruct b as [|x b1].
  - specialize (IH []). destruct (ocf_values l []) as [vs b']. exact IH.
  - specialize (IH b1). destruct (ocf_values l b1) as [vs b']. cbn in *. lia.
Qed.

Ltac bgood2 :=
  repeat first
    [ apply good_ret | apply good_fail | apply good_palloc | apply good_take_upto | apply good_read_exact
    | apply good_dec_i32_array | apply good_dec_u32_array | apply good_dec_f32_array | apply good_dec_i64_array
    | apply good_dec_ref_array | apply good_dec_vec3_arrays
    | apply strict_dec_rot | (apply strict_good; apply strict_dec_rot)
    | bprim | (apply strict_good; bprim)
    | (apply good_prepeat)
    | (apply good_pfor32)
    | (apply strict_bind; [|intros])
    | (apply good_bind; [|intros]) ].

Lemma good_dec_col ty cty c n : good (dec_col ty cty c n).
Proof.
  destruct ty; cbn [dec_col];
    repeat match goal with |- good (if ?x then _ else _) => destruct x end;
    try apply good_tmismatch; try (solve [bgood2]).
  all: bgood2.
  - destruct (tags_decode a); bgood.
  - intros b. destruct (attr_decode_total a) as [H1 H2]. cbv beta. destruct (attr_decode a); try congruence; cbn; lia.
  - destruct (N.ltb a 64); bgood.
  - destruct (N.ltb a 8); bgood.
  - intros b. destruct (find _ a); cbn; [exact I|lia].
  - destruct (N.eqb a 1); bgood.
  - intros b. destruct (sstr_values (dc_sstr c) a); cbn; [lia|exact I].
  - destruct (negb (N.eqb a (wire_id WCFrame))); [apply good_fail|]. bgood2.
    destruct (negb (N.eqb a2 (wire_id WBool))); [apply good_fail|].
    intros b. pose proof (ocf_values_len (zip a1 a0) b) as H.
    destruct (ocf_values (zip a1 a0) b) as [vs b']. exact H.
  - intros b. destruct (N.ltb (N.of_nat (length b)) (4 * a3)); [exact I|].
    unfold pbind. pose proof (good_dec_ref_array (N.to_nat a3) b) as Hd.
    destruct (dec_ref_array (N.to_nat a3) b) as [[objects b2]| | |]; try easy.
    pose proof (strict_read_le4 b2) as Hr. destruct (read_le 4 b2) as [[ext b3]| | |]; try easy.
    pose proof (good_palloc (dc_lim c) (4 * ext) b3) as Hp.
    destruct (palloc (dc_lim c) (4 * ext) b3) as [[u b4]| | |]; try easy.
    destruct (content_values_good c a (rev a2) objects) as [H1 H2].
    destruct (content_values c a (rev a2) objects); try congruence; cbn; [lia|exact I].
Qed.

(* ------------------------------------------------------------------------------------------ *)
(* 3. the chunk decoders                                                                        *)
(* ------------------------------------------------------------------------------------------ *)
Definition safe {A} (r : res A) : Prop := r <> Panic /\ r <> OutOfFuel.

Lemma safe_ok {A} (a : A) : safe (Ok a). Proof. split; discriminate. Qed.
Lemma safe_err {A} c : safe (@Err A c). Proof. split; discriminate. Qed.
Lemma run_chunk_safe {A} (p : parser A) chunk : good p -> safe (run_chunk p chunk).
Proof.
  intros Hp. unfold run_chunk, safe. specialize (Hp chunk). destruct (p chunk) as [[a b']| | |]; easy.
Qed.

Lemma good_decode_meta lim : good (decode_meta lim).
Proof. unfold decode_meta. bgood. Qed.

Lemma good_decode_sstr lim : good (decode_sstr lim).
Proof.
  unfold decode_sstr. apply good_bind; [apply strict_good, strict_read_le4|intros v].
  destruct (negb (N.eqb v 0)); [apply good_fail|].
  apply good_bind; [apply strict_good, strict_read_le4|intros cnt].
  apply good_pfor32. apply strict_bind; [apply strict_read_exact; lia|intros; apply strict_good, strict_read_bstr].
Qed.

Lemma good_read_referents lim n : good (read_referents lim n).
Proof.
  unfold read_referents. apply good_bind; [apply good_palloc|intros _].
  intros b. destruct (N.ltb (N.of_nat (length b)) (4 * n)); [exact I|]. apply good_dec_ref_array.
Qed.

(* keys of instances_by_ref *)
Lemma zfind_zremove_other {V} k k' (m : list (Z * V)) : k <> k' -> zfind k' (zremove k m) = zfind k' m.
Proof.
  intros Hne. induction m as [|[x v] m IH]; cbn; [reflexivity|].
  destruct (Z.eqb k x) eqn:E.
  - apply Z.eqb_eq in E. subst x. rewrite IH. destruct (Z.eqb k' k) eqn:E2; [apply Z.eqb_eq in E2; congruence|reflexivity].
  - cbn. now rewrite IH.
Qed.
Lemma zfind_zupd_same {V} k (v : V) m : zfind k (zupd k v m) = Some v.
Proof. unfold zupd. cbn. now rewrite Z.eqb_refl. Qed.
Lemma zfind_zupd_other {V} k k' (v : V) m : k <> k' -> zfind k' (zupd k v m) = zfind k' m.
Proof.
  intros Hne. unfold zupd. cbn. destruct (Z.eqb k' k) eqn:E; [apply Z.eqb_eq in E; congruence|].
  now apply zfind_zremove_other.
Qed.
Lemma zupd_keeps {V} k (v : V) m k' : zfind k' m <> None -> zfind k' (zupd k v m) <> None.
Proof.
  intros H. destruct (Z.eq_dec k k') as [->|Hne]; [rewrite zfind_zupd_same; discriminate|].
  now rewrite zfind_zupd_other.
Qed.

Definition inv (st : dstate) : Prop :=
  forall id ti, lookup id (ds_types st) = Some ti -> forall r, In r (dt_referents ti) -> zfind r (ds_insts st) <> None.

Lemma inv0 : inv dstate0.
Proof. intros id ti H. discriminate. Qed.

Lemma lookup_upd_cases {V} k k' (v : V) m x : lookup k' (upd k v m) = Some x -> (k' = k /\ x = v) \/ lookup k' m = Some x.
Proof.
  unfold upd. cbn. destruct (N.eqb k' k) eqn:E.
  - apply N.eqb_eq in E. intros [= <-]. now left.
  - intros H. right. revert H. induction m as [|[a b] m IH]; cbn; [discriminate|].
    destruct (N.eqb k a) eqn:E2.
    + apply N.eqb_eq in E2. subst a. intros H. apply IH in H. destruct (N.eqb k' k); [discriminate|exact H].
    + cbn. destruct (N.eqb k' a); [auto|exact IH].
Qed.

(* the fold of decode_inst_chunk: every referent of the chunk gets an instance, earlier instances stay *)
Lemma inst_fold_keys tn : forall refs insts next,
  let r := fold_left (fun acc referent => let '(insts, next) := acc in (zupd referent (mkDI next tn tn [] []) insts, next + 1))
                     refs (insts, next) in
  (forall k, In k refs -> zfind k (fst r) <> None) /\ (forall k, zfind k insts <> None -> zfind k (fst r) <> None).
Proof.
  induction refs as [|x refs IH]; intros insts next; cbn [fold_left].
  - split; [intros k []|auto].
  - destruct (IH (zupd x (mkDI next tn tn [] []) insts) (next + 1)) as [H1 H2]. split.
    + intros k [->|Hk]; [apply H2; rewrite zfind_zupd_same; discriminate|now apply H1].
    + intros k Hk. apply H2. now apply zupd_keeps.
Qed.

Lemma decode_inst_ok lim st : good (decode_inst lim st) /\
  (inv st -> forall b st' b', decode_inst lim st b = Ok (st', b') -> inv st').
Proof.
  split.
  - unfold decode_inst.
    apply good_bind; [apply strict_good, strict_read_le4|intros type_id].
    apply good_bind; [apply strict_good, strict_read_str|intros type_name].
    apply good_bind; [apply strict_good, strict_read_u8|intros fmt].
    apply good_bind; [apply strict_good, strict_read_le4|intros cnt].
    apply good_bind; [apply good_read_referents|intros refs].
    destruct (fold_left _ refs _) as [insts next]. apply good_ret.
  - intros Hinv b st' b' H. unfold decode_inst in H.
    apply pbind_ok in H. destruct H as (type_id & b1 & _ & H).
    apply pbind_ok in H. destruct H as (type_name & b2 & _ & H).
    apply pbind_ok in H. destruct H as (fmt & b3 & _ & H).
    apply pbind_ok in H. destruct H as (cnt & b4 & _ & H).
    apply pbind_ok in H. destruct H as (refs & b5 & _ & H).
    pose proof (inst_fold_keys type_name refs (ds_insts st) (ds_next st)) as K. cbv zeta in K.
    destruct (fold_left _ refs (ds_insts st, ds_next st)) as [insts next]. cbn [fst] in K. destruct K as [K1 K2].
    unfold pret in H. injection H as <- _.
    intros id ti Hl r Hr. cbn [ds_types ds_insts] in *.
    apply lookup_upd_cases in Hl. destruct Hl as [[-> ->]|Hl].
    + cbn [dt_referents] in Hr. now apply K1.
    + apply K2. exact (Hinv id ti Hl r Hr).
Qed.

Lemma apply_values_ok {A} (f : dinst -> A -> dinst) : forall rs vs insts,
  (forall r, In r rs -> zfind r insts <> None) ->
  exists insts', apply_values f insts rs vs = Ok insts' /\ (forall k, zfind k insts <> None -> zfind k insts' <> None).
Proof.
  induction rs as [|r rs IH]; intros vs insts Hk; cbn [apply_values].
  - exists insts. split; [reflexivity|auto].
  - destruct vs as [|v vs]; [exists insts; split; [reflexivity|auto]|].
    destruct (zfind r insts) as [i|] eqn:E; [|exfalso; apply (Hk r); [now left|exact E]].
    destruct (IH vs (zupd r (f i v) insts)) as (insts' & H1 & H2).
    + intros r' Hr'. apply zupd_keeps. apply Hk. now right.
    + exists insts'. split; [exact H1|]. intros k Hkk. apply H2. now apply zupd_keeps.
Qed.

Definition db_total (d : db) : Prop := forall cn pn, exists r, find_desc_bin d cn pn = Ok r.

Lemma decode_prop_ok d p st chunk : db_total d -> inv st ->
  safe (decode_prop d p st chunk) /\ (forall st', decode_prop d p st chunk = Ok st' -> inv st').
Proof.
  intros Hdb Hinv. unfold decode_prop.
  set (hd := pbind (read_le 4) (fun type_id => pbind (read_str (dp_lim p)) (fun prop_name => pret (type_id, prop_name)))).
  assert (Hg : good hd) by (unfold hd; bgood).
  specialize (Hg chunk). destruct (hd chunk) as [[[type_id prop_name] chunk1]| | |]; try easy.
  destruct (lookup type_id (ds_types st)) as [ti|] eqn:El; [|split; [apply safe_err|discriminate]].
  destruct chunk1 as [|byte chunk2]; [split; [apply safe_ok|now intros st' [= <-]]|].
  destruct (wire_of_id byte) as [ty|]; [|split; [apply safe_ok|now intros st' [= <-]]].
  assert (Hkeys : forall r, In r (dt_referents ti) -> zfind r (ds_insts st) <> None) by (intros r Hr; exact (Hinv _ _ El r Hr)).
  assert (Hkeep : forall insts, (forall k, zfind k (ds_insts st) <> None -> zfind k insts <> None) ->
                   inv (mkDS (ds_sstr st) (ds_types st) insts (ds_roots st) (ds_next st))).
  { intros insts Hk id t Hl r Hr. cbn [ds_types ds_insts] in *. apply Hk. exact (Hinv id t Hl r Hr). }
  destruct (bytes_eqb prop_name NAME).
  - pose proof (run_chunk_safe (prepeat (length (dt_referents ti)) (read_bstr (dp_lim p))) chunk2
                  (good_prepeat _ _ (strict_good _ (strict_read_bstr _)))) as Hs.
    destruct (run_chunk _ chunk2) as [names| | |]; cbn [rbind]; try (destruct Hs; congruence).
    2: { split; [apply safe_err|discriminate]. }
    destruct (apply_values_ok (fun i s => mkDI (di_label i) (di_class i) s (di_props i) (di_children i))
                (dt_referents ti) (List.map (fun s => if utf8_valid s then s else utf8_lossy s) names) (ds_insts st) Hkeys)
      as (insts' & -> & Hk). cbn [rbind]. split; [apply safe_ok|]. intros st' [= <-]. now apply Hkeep.
  - unfold find_canonical_property.
    destruct (Hdb (string_of_bytes (dt_name ti)) (string_of_bytes prop_name)) as [r ->]. cbn [rbind].
    set (cp := match r with
               | Some (canon, _) =>
                   match pd_kind canon with
                   | KCanon PDoesNot => Ok None
                   | k => Ok (Some (bstr (pd_name canon), dtype_vt (pd_type canon),
                                   match k with KCanon (PMigrate to op) => Some (bstr to, op) | _ => None end))
                   end
               | None => Ok (Some (prop_name, to_default_rbx_type ty, None))
               end).
    assert (Hcp : exists x, cp = Ok x).
    { unfold cp. destruct r as [[canon s]|]; [|eauto]. destruct (pd_kind canon) as [[| | |]|]; eauto. }
    destruct Hcp as [x Hx]. fold cp. rewrite Hx. cbn [rbind].
    destruct x as [[[name cty] migration]|]; [|split; [apply safe_ok|now intros st' [= <-]]].
    match goal with |- context [run_chunk (dec_col ty cty ?ctx ?n) chunk2] =>
      pose proof (run_chunk_safe (dec_col ty cty ctx n) chunk2 (good_dec_col ty cty ctx n)) as Hs;
      destruct (run_chunk (dec_col ty cty ctx n) chunk2) as [vs| | |] end;
      cbn [rbind]; try (destruct Hs; congruence).
    2: { split; [apply safe_err|discriminate]. }
    destruct (apply_values_ok (fun i v => add_property p i name migration v) (dt_referents ti) vs (ds_insts st) Hkeys)
      as (insts' & -> & Hk). cbn [rbind]. split; [apply safe_ok|]. intros st' [= <-]. now apply Hkeep.
Qed.

Lemma prnt_links_ok : forall pairs insts roots,
  safe (prnt_links insts roots pairs) /\
  (forall insts' roots', prnt_links insts roots pairs = Ok (insts', roots') ->
     forall k, zfind k insts <> None -> zfind k insts' <> None).
Proof.
  induction pairs as [|[id parent] rest IH]; intros insts roots; cbn [prnt_links].
  - split; [apply safe_ok|]. intros insts' roots' [= <- _]. auto.
  - destruct (Z.eqb parent (-1)); [apply IH|].
    destruct (zfind parent insts) as [i|]; [|split; [apply safe_err|discriminate]].
    destruct (IH (zupd parent (mkDI (di_label i) (di_class i) (di_name i) (di_props i) (di_children i ++ [id])) insts) roots) as [H1 H2].
    split; [exact H1|]. intros insts' roots' H k Hk. apply (H2 _ _ H). now apply zupd_keeps.
Qed.

Lemma decode_prnt_ok lim st chunk : inv st ->
  safe (decode_prnt lim st chunk) /\ (forall st', decode_prnt lim st chunk = Ok st' -> inv st').
Proof.
  intros Hinv. unfold decode_prnt.
  match goal with |- context [run_chunk ?p chunk] => assert (Hg : good p) end.
  { apply good_bind; [apply strict_good, strict_read_u8|intros v].
    destruct (negb (N.eqb v 0)); [apply good_fail|].
    apply good_bind; [apply strict_good, strict_read_le4|intros n].
    apply good_bind; [apply good_read_referents|intros s].
    apply good_bind; [apply good_read_referents|intros q]. apply good_ret. }
  pose proof (run_chunk_safe _ chunk Hg) as Hs.
  match goal with |- context [run_chunk ?p chunk] => destruct (run_chunk p chunk) as [pairs| | |] end;
    cbn [rbind]; try (destruct Hs; congruence).
  2: { split; [apply safe_err|discriminate]. }
  destruct (prnt_links_ok pairs (ds_insts st) (ds_roots st)) as [H1 H2].
  destruct (prnt_links (ds_insts st) (ds_roots st) pairs) as [[insts' roots']| | |]; cbn [rbind];
    try (destruct H1; congruence).
  2: { split; [apply safe_err|discriminate]. }
  split; [apply safe_ok|]. intros st' [= <-]. intros id t Hl r Hr. cbn [ds_types ds_insts fst] in *.
  apply (H2 _ _ eq_refl). exact (Hinv id t Hl r Hr).
Qed.

Lemma dispatch_ok d p st name data : db_total d -> inv st ->
  safe (dispatch_chunk d p st name data) /\
  (forall st', dispatch_chunk d p st name data = Ok (Some st') -> inv st').
Proof.
  intros Hdb Hinv. unfold dispatch_chunk.
  destruct (bytes_eqb name CH_META).
  { pose proof (run_chunk_safe _ data (good_decode_meta (dp_lim p))) as Hs.
    destruct (run_chunk (decode_meta (dp_lim p)) data); cbn [rbind]; try (destruct Hs; congruence).
    - split; [apply safe_ok|]. now intros st' [= <-].
    - split; [apply safe_err|discriminate]. }
  destruct (bytes_eqb name CH_SSTR).
  { pose proof (run_chunk_safe _ data (good_decode_sstr (dp_lim p))) as Hs.
    destruct (run_chunk (decode_sstr (dp_lim p)) data) as [l| | |]; cbn [rbind]; try (destruct Hs; congruence).
    - split; [apply safe_ok|]. intros st' [= <-]. exact Hinv.
    - split; [apply safe_err|discriminate]. }
  destruct (bytes_eqb name CH_INST).
  { destruct (decode_inst_ok (dp_lim p) st) as [Hg Hi].
    pose proof (run_chunk_safe _ data Hg) as Hs. unfold run_chunk in *.
    destruct (decode_inst (dp_lim p) st data) as [[st1 b1]| | |] eqn:E; cbn [rbind]; try (destruct Hs; congruence).
    - split; [apply safe_ok|]. intros st' [= <-]. exact (Hi Hinv _ _ _ E).
    - split; [apply safe_err|discriminate]. }
  destruct (bytes_eqb name CH_PROP).
  { destruct (decode_prop_ok d p st data Hdb Hinv) as [Hs Hi].
    destruct (decode_prop d p st data) as [st1| | |]; cbn [rbind]; try (destruct Hs; congruence).
    - split; [apply safe_ok|]. intros st' [= <-]. now apply Hi.
    - split; [apply safe_err|discriminate]. }
  destruct (bytes_eqb name CH_PRNT).
  { destruct (decode_prnt_ok (dp_lim p) st data Hinv) as [Hs Hi].
    destruct (decode_prnt (dp_lim p) st data) as [st1| | |]; cbn [rbind]; try (destruct Hs; congruence).
    - split; [apply safe_ok|]. intros st' [= <-]. now apply Hi.
    - split; [apply safe_err|discriminate]. }
  destruct (bytes_eqb name CH_END).
  - split; [apply safe_ok|]. intros st' H. discriminate.
  - split; [apply safe_ok|]. now intros st' [= <-].
Qed.

(* Chunk::decode consumes at least its 16-byte header *)
Lemma strict_decode_chunk p : strict (decode_chunk p).
Proof.
  unfold decode_chunk. apply strict_bind; [apply strict_read_exact; lia|intros name].
  apply good_bind; [apply strict_good, strict_read_le4|intros cl].
  apply good_bind; [apply strict_good, strict_read_le4|intros len].
  apply good_bind; [apply strict_good, strict_read_le4|intros rs].
  destruct (negb (N.eqb rs 0)); [apply good_fail|].
  destruct (N.eqb cl 0).
  - bgood. destruct (negb _); bgood.
  - bgood. destruct (dp_inflate p a0 len); [|apply good_fail]. destruct (negb _); bgood.
Qed.

Lemma chunk_loop_safe d p : db_total d -> forall fuel st b, (length b < fuel)%nat -> inv st ->
  safe (chunk_loop fuel d p st b).
Proof.
  intros Hdb. induction fuel as [|f IH]; intros st b Hf Hinv; [lia|]. cbn [chunk_loop].
  pose proof (strict_decode_chunk p b) as Hc.
  destruct (decode_chunk p b) as [[[name data] rest]| | |]; try easy.
  destruct (dispatch_ok d p st name data Hdb Hinv) as [Hs Hi].
  destruct (dispatch_chunk d p st name data) as [[st1|]| | |]; cbn [rbind]; try (destruct Hs; congruence).
  - apply IH; [lia|now apply Hi].
  - apply safe_ok.
  - apply safe_err.
Qed.

(* ------------------------------------------------------------------------------------------ *)
(* 4. finish                                                                                    *)
(* ------------------------------------------------------------------------------------------ *)
Definition kids_total (insts : list (Z * dinst)) : nat := length (flat_map (fun zi => di_children (snd zi)) insts).

Lemma kids_zremove k insts : (kids_total (zremove k insts) <= kids_total insts)%nat.
Proof.
  unfold kids_total. induction insts as [|[x i] m IH]; cbn; [lia|].
  destruct (Z.eqb k x); cbn; rewrite ?app_length; lia.
Qed.

Lemma kids_zremove_found k insts i : zfind k insts = Some i ->
  (kids_total (zremove k insts) + length (di_children i) <= kids_total insts)%nat.
Proof.
  unfold kids_total. induction insts as [|[x j] m IH]; cbn; [discriminate|].
  destruct (Z.eqb k x) eqn:E.
  - intros [= ->]. rewrite app_length. pose proof (kids_zremove k m) as H. unfold kids_total in H. lia.
  - intros H. cbn. rewrite !app_length. specialize (IH H). lia.
Qed.

Lemma finish_loop_safe p : forall fuel queue insts uids out,
  (length queue + kids_total insts < fuel)%nat -> safe (finish_loop fuel p queue insts uids out).
Proof.
  induction fuel as [|f IH]; intros queue insts uids out Hf; [lia|]. cbn [finish_loop].
  destruct queue as [|[referent parent] q]; [apply safe_ok|].
  destruct (zfind referent insts) as [i|] eqn:E.
  - destruct (bfind UNIQUE_ID (collect_props (di_props i))) as [[]|];
      try (apply IH; rewrite app_length, map_length; pose proof (kids_zremove_found _ _ _ E); cbn [length] in Hf; lia).
    destruct (existsb _ uids);
      apply IH; rewrite app_length, map_length; pose proof (kids_zremove_found _ _ _ E); cbn [length] in Hf; lia.
  - apply IH. cbn [length] in Hf. lia.
Qed.

(* ------------------------------------------------------------------------------------------ *)
(* 5. the whole decoder                                                                         *)
(* ------------------------------------------------------------------------------------------ *)
Lemma good_decode_header lim : good (decode_header lim).
Proof.
  unfold decode_header. apply good_bind; [apply good_read_exact|intros m].
  destruct (negb _); [apply good_fail|]. apply good_bind; [apply good_read_exact|intros s].
  destruct (negb _); [apply good_fail|]. apply good_bind; [apply strict_good, strict_read_le2|intros v].
  destruct (negb _); [apply good_fail|]. bgood. destruct (negb _); bgood.
Qed.

(* rbx_binary::from_reader, as modelled, on ANY byte string: a DOM or an error; never a panic, never out of
   the fuel the model hands to its loops (no hang) — for every allocation limit and inflate oracle *)
Theorem decode_file_total d p b : db_total d -> decode_file d p b <> Panic /\ decode_file d p b <> OutOfFuel.
Proof.
  intros Hdb. unfold decode_file.
  pose proof (good_decode_header (dp_lim p) b) as Hh.
  destruct (decode_header (dp_lim p) b) as [[x rest]| | |]; try easy.
  pose proof (chunk_loop_safe d p Hdb (S (length rest)) dstate0 rest (Nat.lt_succ_diag_r _) inv0) as Hs.
  destruct (chunk_loop (S (length rest)) d p dstate0 rest) as [st| | |]; cbn [rbind]; try (destruct Hs; congruence).
  - unfold finish. apply finish_loop_safe. rewrite map_length. unfold kids_total. lia.
  - split; discriminate.
Qed.

(* the empty database satisfies the lookup hypothesis *)
Lemma db_total_empty : db_total (mkDb [] []).
Proof. intros cn pn. eexists. reflexivity. Qed.
