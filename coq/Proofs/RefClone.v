(* RefClone.v — the clone entry points of the concrete model refine the abstract [a_clone]. *)
From RbxVerif Require Import Base Dom Tree BaseFacts TreeFacts Rep RepWF RefCloneAux.
From Coq Require Import Lia Permutation.

(* ---- reading original instances from the source table ---- *)

Definition Readable (S : map inst) (t : tree) : Prop :=
  forall x i, In (x, i) (tflat rnone t) -> exists i', lookup x S = Some i' /\ sbp i i'.

Lemma Readable_root S t : Readable S t -> exists i', lookup (troot t) S = Some i' /\ sbp (tinst rnone t) i'.
Proof. intros H. apply H. apply tflat_root_In. Qed.

Lemma Readable_kid S t k : Readable S t -> In k (tkids t) -> Readable S k.
Proof.
  intros H Hk x i Hin.
  destruct (tflat_reparent rnone (troot t) k x i Hin) as [i1 [Hin1 Hs1]].
  assert (Hin2 : In (x, i1) (tflat rnone t)) by (apply In_tflat; right; exists k; split; assumption).
  destruct (H x i1 Hin2) as [i' [Hl Hs]]. exists i'. split; [exact Hl|]. eapply sbp_trans; eassumption.
Qed.

Lemma Readable_ext S S' t :
  (forall x, In x (trefs t) -> lookup x S' = lookup x S) -> Readable S t -> Readable S' t.
Proof.
  intros He H x i Hin. destruct (H x i Hin) as [i' [Hl Hs]]. exists i'. split; [|exact Hs].
  rewrite He; [exact Hl|]. eapply In_tflat_trefs. exact Hin.
Qed.

(* ---- one concrete step ---- *)

Definition srcof (src : option dom) (D : dom) : dom := match src with Some s => s | None => D end.

Lemma clone_loop_nil fuel src D rw nu nr :
  clone_loop fuel src D (mkCtx [] rw) nu nr = Ok (D, mkCtx [] rw, nu, nr).
Proof. destruct fuel; reflexivity. Qed.

Lemma clone_loop_cons f src D cp uc q' rw nu nr :
  clone_loop (S f) src D (mkCtx ((cp, uc) :: q') rw) nu nr =
  match clone_ref_as_builder (mkCtx q' rw) (srcof src D) nr uc with
  | None => Panic
  | Some (c1, b, nr1) => '(dst1, nu1, _) <- dom_insert D nu cp b ;; clone_loop f src dst1 c1 nu1 nr1
  end.
Proof. reflexivity. Qed.

Lemma crb_spec q rw S nr uc i :
  lookup uc (d_insts S) = Some i ->
  clone_ref_as_builder (mkCtx q rw) S nr uc =
  Some (mkCtx (q ++ List.map (fun ch => (nr, ch)) (i_children i)) (upd uc nr rw),
        BNode nr (i_name i) (i_class i) (i_props i) [], nr + 1).
Proof. intros H. unfold clone_ref_as_builder. rewrite H. reflexivity. Qed.

Definition pushk (nr : ref) (pi : inst) : inst := set_children pi (i_children pi ++ [nr]).

Lemma insert_spec D nu cp nr n c ps :
  (cp = rnone \/ (cp <> nr /\ exists pi, lookup cp (d_insts D) = Some pi)) ->
  exists D1 nu1 ps1,
    dom_insert D nu cp (BNode nr n c ps []) = Ok (D1, nu1, nr) /\
    match get_uid (props_of_list ps) with
    | Some u => if mem u (d_uids D)
                then ps1 = upd UIDKEY (PUid nu) (props_of_list ps) /\ nu1 = nu + 1 /\ d_uids D1 = sadd nu (d_uids D)
                else ps1 = props_of_list ps /\ nu1 = nu /\ d_uids D1 = sadd u (d_uids D)
    | None => ps1 = props_of_list ps /\ nu1 = nu /\ d_uids D1 = d_uids D
    end /\
    lookup nr (d_insts D1) = Some (mkInst cp [] n c ps1) /\
    (forall y, y <> nr -> lookup y (d_insts D1) =
       if negb (N.eqb cp rnone) && N.eqb y cp then option_map (pushk nr) (lookup y (d_insts D))
       else lookup y (d_insts D)) /\
    d_root D1 = d_root D /\
    (NoDup (keys (d_insts D)) -> NoDup (keys (d_insts D1))).
Proof.
  intros Hcp. unfold dom_insert. cbn [bkids insert_one broot].
  destruct (inner_insert D nu nr (mkInst cp [] n c (props_of_list ps))) as [d1 nu1] eqn:Ei.
  assert (Hd1 : exists ps1,
    match get_uid (props_of_list ps) with
    | Some u => if mem u (d_uids D)
                then ps1 = upd UIDKEY (PUid nu) (props_of_list ps) /\ nu1 = nu + 1 /\ d_uids d1 = sadd nu (d_uids D)
                else ps1 = props_of_list ps /\ nu1 = nu /\ d_uids d1 = sadd u (d_uids D)
    | None => ps1 = props_of_list ps /\ nu1 = nu /\ d_uids d1 = d_uids D
    end /\ d_insts d1 = upd nr (mkInst cp [] n c ps1) (d_insts D) /\ d_root d1 = d_root D).
  { unfold inner_insert in Ei. cbn [i_props] in Ei.
    destruct (get_uid (props_of_list ps)) as [u|].
    - destruct (mem u (d_uids D)); inversion Ei; subst d1 nu1; eexists; cbn; repeat split.
    - inversion Ei; subst d1 nu1; eexists; cbn; repeat split. }
  destruct Hd1 as [ps1 [Huid [Hins Hroot]]].
  destruct (N.eqb cp rnone) eqn:Ecp.
  - exists d1, nu1, ps1. cbn [rbind]. split; [reflexivity|]. split; [exact Huid|]. rewrite Hins.
    split; [apply lookup_upd_eq|]. split; [|split; [exact Hroot|apply NoDup_keys_upd]].
    intros y Hy. cbn [negb andb]. apply lookup_upd_neq. exact Hy.
  - destruct Hcp as [Hcp|[Hne [pi Hpi]]]; [subst cp; discriminate|].
    unfold push_child. rewrite Hins, lookup_upd_neq by exact Hne. rewrite Hpi. cbn [rbind].
    eexists _, nu1, ps1. split; [reflexivity|]. cbn [d_insts d_root d_uids]. split; [exact Huid|].
    split; [rewrite lookup_upd_neq by congruence; apply lookup_upd_eq|].
    split; [|split; [exact Hroot|intros H; apply NoDup_keys_upd, NoDup_keys_upd; exact H]].
    intros y Hy. cbn [negb andb]. rewrite lookup_upd. destruct (N.eqb y cp) eqn:Ey.
    + apply N.eqb_eq in Ey. subst y. rewrite Hpi. reflexivity.
    + apply lookup_upd_neq. exact Hy.
Qed.

Lemma step_uid psi phi r n c ps kids L' used used1 nu nu1 nr nu' ps1 :
  phi r = nr ->
  Plan psi used nu nr (Node r n c ps kids :: L') nu' ->
  match get_uid (props_of_list ps) with
  | Some u => if mem u used
              then ps1 = upd UIDKEY (PUid nu) (props_of_list ps) /\ nu1 = nu + 1 /\ used1 = sadd nu used
              else ps1 = props_of_list ps /\ nu1 = nu /\ used1 = sadd u used
  | None => ps1 = props_of_list ps /\ nu1 = nu /\ used1 = used
  end ->
  ps1 = cprops psi phi r ps /\ Plan psi used1 nu1 (nr + 1) L' nu' /\
  forall u, mem u used1 = mem u used || mem u (match get_uid ps1 with Some u' => [u'] | None => [] end).
Proof.
  intros Hphi HP H. cbn [Plan tprops] in HP. unfold cprops. rewrite Hphi.
  destruct (get_uid (props_of_list ps)) as [u|] eqn:Eu.
  - destruct (mem u used); destruct HP as [Hpsi HP]; destruct H as [-> [-> ->]]; rewrite Hpsi.
    + split; [reflexivity|]. split; [exact HP|]. intros u0. rewrite get_uid_upd, mem_sadd. cbn [mem].
      destruct (N.eqb u0 nu); destruct (mem u0 used); reflexivity.
    + split; [reflexivity|]. split; [exact HP|]. intros u0. rewrite Eu, mem_sadd. cbn [mem].
      destruct (N.eqb u0 u); destruct (mem u0 used); reflexivity.
  - destruct HP as [Hpsi HP]; destruct H as [-> [-> ->]]; rewrite Hpsi.
    split; [reflexivity|]. split; [exact HP|]. intros u0. rewrite Eu. cbn [mem]. now rewrite orb_false_r.
Qed.

(* ---- the queue of pending (cloned parent, original subtree) pairs ---- *)

Definition cq (q : list (ref * tree)) : list (ref * ref) := List.map (fun ct => (fst ct, troot (snd ct))) q.

Lemma mem_app u a b : mem u (a ++ b) = mem u a || mem u b.
Proof. induction a as [|x a IH]; cbn; [reflexivity|]. destruct (N.eqb u x); [reflexivity|exact IH]. Qed.

Lemma map_snd_pairs {A B} (a : A) (l : list B) : List.map snd (List.map (pair a) l) = l.
Proof. rewrite map_map. cbn. apply map_id. Qed.

Section Loop.
  Variables (phi : ref -> ref) (psi : ref -> option N).
  Let F := cpf phi (cprops psi phi).

  Definition qents (q : list (ref * tree)) : list (ref * inst) :=
    flat_map (fun ct => tflat (fst ct) (tmap F (snd ct))) q.
  Definition qkids (y : ref) (q : list (ref * tree)) : list ref :=
    List.map (fun ct => phi (troot (snd ct))) (filter (fun ct => N.eqb (fst ct) y) q).
  Definition addkids (y : ref) (q : list (ref * tree)) (i : inst) : inst :=
    set_children i (i_children i ++ qkids y q).

  Lemma qents_app a b : qents (a ++ b) = qents a ++ qents b.
  Proof. unfold qents. apply flat_map_app. Qed.

  Lemma qents_pairs nr kids : qents (List.map (pair nr) kids) = flat_map (tflat nr) (List.map (tmap F) kids).
  Proof. unfold qents. rewrite !flat_map_map. reflexivity. Qed.

  Lemma qkids_app y a b : qkids y (a ++ b) = qkids y a ++ qkids y b.
  Proof. unfold qkids. rewrite filter_app, map_app. reflexivity. Qed.

  Lemma qkids_none y q : (forall ct, In ct q -> fst ct <> y) -> qkids y q = [].
  Proof.
    induction q as [|ct q IH]; intros H; [reflexivity|]. unfold qkids. cbn [filter].
    match goal with |- context [if ?b then _ else _] => destruct b eqn:E end.
    - apply N.eqb_eq in E. exfalso. exact (H ct (or_introl eq_refl) E).
    - apply IH. intros ct' Hct'. apply H. right. exact Hct'.
  Qed.

  Lemma qkids_pairs nr kids : qkids nr (List.map (pair nr) kids) = List.map phi (List.map troot kids).
  Proof.
    unfold qkids. induction kids as [|k kids IH]; [reflexivity|].
    cbn [List.map filter fst snd]. rewrite N.eqb_refl. cbn [List.map snd]. f_equal. exact IH.
  Qed.

  Lemma addkids_nil y i : qkids y [] = [] /\ addkids y [] i = i.
  Proof. split; [reflexivity|]. unfold addkids, set_children. cbn. rewrite app_nil_r. destruct i; reflexivity. Qed.

  Lemma keys_qents y q : In y (keys (qents q)) -> exists x, In x (frefs (List.map snd q)) /\ y = phi x.
  Proof.
    unfold keys. intros H. apply in_map_iff in H. destruct H as [[y' i] [Hy Hin]]. cbn in Hy. subst y'.
    unfold qents in Hin. apply in_flat_map in Hin. destruct Hin as [[cp t] [Hct Hin]]. cbn [fst snd] in Hin.
    apply In_tflat_trefs in Hin. unfold F in Hin. rewrite trefs_tmap in Hin. apply in_map_iff in Hin.
    destruct Hin as [x [Hx Hin]]. exists x. split; [|symmetry; exact Hx].
    apply In_frefs. exists t. split; [|exact Hin]. apply in_map_iff. exists (cp, t). split; [reflexivity|exact Hct].
  Qed.

  Lemma In_frefs_bfs x q : In x (frefs q) -> exists t, In t (bfs_all q) /\ troot t = x.
  Proof.
    intros H. apply (Permutation_in _ (bfs_roots_perm q)) in H. apply in_map_iff in H.
    destruct H as [t [Ht Hin]]. exists t. split; assumption.
  Qed.
End Loop.

Section LoopSpec.
  Variables (phi : ref -> ref) (psi : ref -> option N).
  Let F := cpf phi (cprops psi phi).

  Definition loop_post (D D' : dom) (q : list (ref * tree)) (rw0 rw' : map ref) : Prop :=
    (forall y i, In (y, i) (qents phi psi q) -> lookup y (d_insts D') = Some i) /\
    (forall y, ~ In y (keys (qents phi psi q)) ->
               lookup y (d_insts D') = option_map (addkids phi y q) (lookup y (d_insts D))) /\
    (forall u, mem u (d_uids D') = mem u (d_uids D) || mem u (fuids (List.map (tmap F) (List.map snd q)))) /\
    d_root D' = d_root D /\
    (NoDup (keys (d_insts D)) -> NoDup (keys (d_insts D'))) /\
    (forall t, In t (bfs_all (List.map snd q)) -> lookup (troot t) rw' = Some (phi (troot t))) /\
    (forall o, ~ In o (List.map troot (bfs_all (List.map snd q))) -> lookup o rw' = lookup o rw0) /\
    (NoDup (keys rw0) -> NoDup (keys rw')).

  Lemma loop_base D rw0 : loop_post D D [] rw0 rw0.
  Proof.
    unfold loop_post. repeat split; try tauto.
    - intros y i [].
    - intros y _. destruct (lookup y (d_insts D)) as [i|]; [|reflexivity]. cbn [option_map].
      now rewrite (proj2 (addkids_nil phi y i)).
    - intros u. cbn. now rewrite orb_false_r.
    - intros t [].
  Qed.

  Lemma clone_loop_spec : forall fuel src D rw0 nu nr nr0 q nu',
    (fsize (List.map snd q) <= fuel)%nat ->
    numbered phi nr (bfs_all (List.map snd q)) ->
    Plan psi (d_uids D) nu nr (bfs_all (List.map snd q)) nu' ->
    (forall t, In t (List.map snd q) -> Readable (d_insts (srcof src D)) t) ->
    nr0 <= nr ->
    (forall x, In x (frefs (List.map snd q)) -> x < nr0) ->
    (forall cp t, In (cp, t) q ->
       cp = rnone \/ (nr0 <= cp < nr /\ exists pi, lookup cp (d_insts D) = Some pi)) ->
    lookup rnone (d_insts D) = None ->
    exists D' rw',
      clone_loop fuel src D (mkCtx (cq q) rw0) nu nr
      = Ok (D', mkCtx [] rw', nu', nr + N.of_nat (fsize (List.map snd q))) /\
      loop_post D D' q rw0 rw'.
  Proof.
    induction fuel as [|f IH]; intros src D rw0 nu nr nr0 q nu' Hfuel Hnum HP Hread Hnr0 Hold Hcps Hnone.
    - destruct q as [|[cp t] q'].
      + cbn in HP. subst nu'. exists D, rw0. split; [|apply loop_base].
        cbn. now rewrite N.add_0_r.
      + exfalso. cbn [List.map snd] in Hfuel. rewrite fsize_cons in Hfuel. pose proof (tsize_pos t). lia.
    - destruct q as [|[cp t] q'].
      + cbn in HP. subst nu'. exists D, rw0. split; [|apply loop_base].
        cbn. now rewrite N.add_0_r.
      + destruct t as [r n c ps kids].
        set (t := Node r n c ps kids) in *.
        set (q1 := q' ++ List.map (pair nr) kids).
        assert (Hsnd : List.map snd q1 = List.map snd q' ++ kids).
        { unfold q1. rewrite map_app, map_snd_pairs. reflexivity. }
        assert (HL : bfs_all (List.map snd ((cp, t) :: q')) = t :: bfs_all (List.map snd q1)).
        { cbn [List.map snd]. rewrite bfs_all_cons, Hsnd. reflexivity. }
        rewrite HL in Hnum, HP. destruct Hnum as [Hphi Hnum']. cbn [troot t] in Hphi.
        destruct (Readable_root _ _ (Hread t (or_introl eq_refl))) as [i' [Hl [Hc [Hn [Hcl Hps]]]]].
        cbn [tinst t i_children i_name i_class i_props troot] in Hl, Hc, Hn, Hcl, Hps.
        assert (Hr0 : r < nr0).
        { apply Hold. cbn [List.map snd]. rewrite frefs_cons. apply in_or_app. left. exact (troot_in_trefs t). }
        assert (Hcp : cp = rnone \/ (cp <> nr /\ exists pi, lookup cp (d_insts D) = Some pi)).
        { destruct (Hcps cp t (or_introl eq_refl)) as [H|[H1 H2]]; [left; exact H|right].
          split; [lia|exact H2]. }
        destruct (insert_spec D nu cp nr n c ps Hcp)
          as [D1 [nu1 [ps1 [Hins [Huid [Hlnr [Hly [Hroot1 Hnd1]]]]]]]].
        destruct (step_uid psi phi r n c ps kids _ _ _ _ _ _ _ ps1 Hphi HP Huid) as [Hps1 [HP1 Hmem1]].
        assert (Hfs : fsize (List.map snd ((cp, t) :: q')) = S (fsize (List.map snd q1))).
        { rewrite Hsnd. cbn [List.map snd]. rewrite fsize_step. reflexivity. }
        assert (Hold1 : forall x, In x (frefs (List.map snd q1)) -> x < nr0).
        { intros x Hx. apply Hold. cbn [List.map snd].
          apply (Permutation_in x (Permutation_sym (frefs_step t (List.map snd q')))).
          right. rewrite Hsnd in Hx. exact Hx. }
        assert (Hframe : forall x, x < nr0 -> x <> rnone -> lookup x (d_insts D1) = lookup x (d_insts D)).
        { intros x Hx Hx0. rewrite Hly by lia.
          destruct (negb (N.eqb cp rnone) && N.eqb x cp) eqn:E; [|reflexivity].
          apply andb_true_iff in E. destruct E as [E1 E2]. apply N.eqb_eq in E2. subst x.
          destruct (Hcps cp t (or_introl eq_refl)) as [H|[H1 H2]]; [contradiction|lia]. }
        destruct (IH src D1 (upd r nr rw0) nu1 (nr + 1) nr0 q1 nu') as [D' [rw' [Hloop Hpost]]].
        { rewrite Hfs in Hfuel. lia. }
        { exact Hnum'. }
        { exact HP1. }
        { intros t' Ht'. rewrite Hsnd in Ht'.
          assert (Hrd : Readable (d_insts (srcof src D)) t').
          { apply in_app_or in Ht'. destruct Ht' as [Ht'|Ht'].
            - apply Hread. right. exact Ht'.
            - apply (Readable_kid _ t); [apply Hread; left; reflexivity|exact Ht']. }
          destruct src as [s|]; [exact Hrd|]. cbn [srcof] in *.
          apply (Readable_ext (d_insts D)); [|exact Hrd].
          intros x Hx. assert (Hx1 : x < nr0).
          { apply Hold1. rewrite Hsnd. apply In_frefs. exists t'. split; assumption. }
          destruct (N.eq_dec x rnone) as [E|E]; [|apply Hframe; assumption].
          subst x. rewrite Hly by (unfold rnone; lia). rewrite Hnone.
          destruct (negb (N.eqb cp rnone) && N.eqb rnone cp); reflexivity. }
        { lia. }
        { exact Hold1. }
        { intros cp' t' Hin. unfold q1 in Hin. apply in_app_or in Hin. destruct Hin as [Hin|Hin].
          - destruct (Hcps cp' t' (or_intror Hin)) as [H|[H1 [pi Hpi]]]; [left; exact H|right].
            split; [lia|]. rewrite Hly by lia.
            destruct (negb (N.eqb cp rnone) && N.eqb cp' cp); rewrite Hpi; cbn; eauto.
          - apply in_map_iff in Hin. destruct Hin as [k [Hk _]]. inversion Hk; subst cp' t'.
            right. split; [lia|]. eauto. }
        { rewrite Hly by (unfold rnone; lia). rewrite Hnone. destruct (negb (N.eqb cp rnone) && N.eqb rnone cp); reflexivity. }
        exists D', rw'. split.
        { assert (Hcq : cq ((cp, t) :: q') = (cp, r) :: cq q') by reflexivity.
          assert (Hcq1 : cq q' ++ List.map (fun ch => (nr, ch)) (List.map troot kids) = cq q1).
          { unfold cq, q1. rewrite map_app, !map_map. reflexivity. }
          rewrite Hcq, clone_loop_cons, (crb_spec _ _ _ _ _ _ Hl), <- Hc, <- Hn, <- Hcl, <- Hps, Hins.
          cbn [rbind]. rewrite Hcq1, Hfs.
          replace (nr + N.of_nat (S (fsize (List.map snd q1)))) with (nr + 1 + N.of_nat (fsize (List.map snd q1))) by lia.
          exact Hloop. }
        destruct Hpost as [HA [HB [HC [HR [HN [HF1 [HF2 HG]]]]]]].
        set (KE := flat_map (tflat nr) (List.map (tmap F) kids)).
        assert (Hfresh : ~ In nr (keys (qents phi psi q1))).
        { intros H. apply keys_qents in H. destruct H as [x [Hx Hy]].
          apply In_frefs_bfs in Hx. destruct Hx as [t' [Ht' Hx]]. subst x.
          pose proof (numbered_range _ _ _ _ Hnum' Ht'). lia. }
        assert (Hents : qents phi psi ((cp, t) :: q')
                        = (nr, mkInst cp (List.map phi (List.map troot kids)) n c ps1) :: KE ++ qents phi psi q').
        { unfold qents at 1. cbn [flat_map fst snd]. unfold t. rewrite tmap_cpf, tflat_eq, roots_tmap, Hphi, <- Hps1.
          reflexivity. }
        assert (Hents1 : qents phi psi q1 = qents phi psi q' ++ KE).
        { unfold q1. rewrite qents_app, qents_pairs. reflexivity. }
        assert (Hq'nr : forall ct, In ct q' -> fst ct <> nr).
        { intros [cp' t'] Hin. cbn [fst]. destruct (Hcps cp' t' (or_intror Hin)) as [H|[H1 _]]; [|lia].
          subst cp'. unfold rnone. lia. }
        unfold loop_post. split; [|split; [|split; [|split; [|split; [|split; [|split]]]]]].
        * intros y i Hin. rewrite Hents in Hin. destruct Hin as [Hin|Hin].
          -- inversion Hin; subst y i. rewrite (HB nr Hfresh), Hlnr. cbn [option_map].
             unfold addkids, set_children. cbn [i_children i_parent i_name i_class i_props app].
             unfold q1. rewrite qkids_app, (qkids_none phi nr q' Hq'nr), qkids_pairs. reflexivity.
          -- apply HA. rewrite Hents1. apply in_app_or in Hin. apply in_or_app. tauto.
        * intros y Hy.
          assert (Hy_nr : y <> nr).
          { intros ->. apply Hy. rewrite Hents. left. reflexivity. }
          assert (Hy1 : ~ In y (keys (qents phi psi q1))).
          { intros H. apply Hy. rewrite Hents. rewrite Hents1 in H. unfold keys in *. cbn [List.map fst].
            right. rewrite map_app in *. apply in_app_or in H. apply in_or_app. tauto. }
          rewrite (HB y Hy1), (Hly y Hy_nr).
          assert (Hk1 : qkids phi y q1 = qkids phi y q').
          { unfold q1. rewrite qkids_app, (qkids_none phi y (List.map (pair nr) kids)); [apply app_nil_r|].
            intros ct Hct. apply in_map_iff in Hct. destruct Hct as [k [<- _]]. cbn [fst]. congruence. }
          assert (Hk : qkids phi y ((cp, t) :: q') = if N.eqb cp y then nr :: qkids phi y q' else qkids phi y q').
          { unfold qkids. cbn [filter fst]. destruct (N.eqb cp y); [|reflexivity].
            cbn [List.map snd troot t]. rewrite Hphi. reflexivity. }
          unfold addkids. rewrite Hk1, Hk.
          destruct (N.eqb y cp) eqn:Ey.
          -- apply N.eqb_eq in Ey. subst y. rewrite N.eqb_refl.
             destruct (N.eqb cp rnone) eqn:E0; cbn [negb andb].
             ++ apply N.eqb_eq in E0. subst cp. rewrite Hnone. reflexivity.
             ++ destruct (lookup cp (d_insts D)) as [pi|]; [|reflexivity]. cbn [option_map].
                unfold pushk, set_children. cbn [i_children i_parent i_name i_class i_props].
                rewrite <- app_assoc. reflexivity.
          -- rewrite andb_false_r. rewrite N.eqb_sym in Ey. rewrite Ey. reflexivity.
        * intros u. rewrite (HC u), (Hmem1 u), Hsnd. cbn [List.map snd]. rewrite map_app, fuids_app.
          unfold fuids at 3. cbn [flat_map]. fold (fuids (List.map (tmap F) (List.map snd q'))).
          unfold t at 1. unfold F at 3. rewrite tmap_cpf, tuids_eq, <- Hps1. fold F.
          rewrite !mem_app.
          repeat match goal with |- context [mem ?a ?b] => destruct (mem a b) end; reflexivity.
        * rewrite HR. exact Hroot1.
        * intros H. apply HN, Hnd1, H.
        * intros t' Ht'. rewrite HL in Ht'. destruct Ht' as [<-|Ht']; [|apply HF1; exact Ht'].
          cbn [troot t].
          destruct (in_dec N.eq_dec r (List.map troot (bfs_all (List.map snd q1)))) as [Hin|Hnin].
          -- apply in_map_iff in Hin. destruct Hin as [t2 [E2 Hin2]]. rewrite <- E2. apply HF1. exact Hin2.
          -- rewrite (HF2 r Hnin), lookup_upd_eq, Hphi. reflexivity.
        * intros o Ho. rewrite HL in Ho. cbn [List.map In troot t] in Ho. rewrite HF2 by tauto.
          apply lookup_upd_neq. intros ->. apply Ho. left. reflexivity.
        * intros H. apply HG, NoDup_keys_upd, H.
  Qed.
End LoopSpec.

(* ---- cloning the roots is the beginning of the same loop ---- *)

Lemma dom_insert_root D nu p b d1 nu1 root : dom_insert D nu p b = Ok (d1, nu1, root) -> root = broot b.
Proof.
  unfold dom_insert. destruct (bkids b).
  - destruct (insert_one D nu p b) as [[d n]| | |]; cbn [rbind]; intros H; inversion H; reflexivity.
  - destruct (insert_loop (bsize b) D nu [(p, b)]) as [[d n]| | |]; cbn [rbind]; intros H; inversion H; reflexivity.
Qed.

Lemma roots_then_loop : forall rs src D q0 rw nu nr fuel D2 c2 nu2 nr2,
  clone_loop (length rs + fuel) src D (mkCtx (List.map (pair rnone) rs ++ q0) rw) nu nr = Ok (D2, c2, nu2, nr2) ->
  exists D1 c1 nu1 nr1,
    clone_roots src D (mkCtx q0 rw) nu nr rs = Ok (D1, c1, nu1, nr1, nseq nr (length rs)) /\
    clone_loop fuel src D1 c1 nu1 nr1 = Ok (D2, c2, nu2, nr2).
Proof.
  induction rs as [|r rs IH]; intros src D q0 rw nu nr fuel D2 c2 nu2 nr2 H.
  - cbn [length plus List.map app] in H. exists D, (mkCtx q0 rw), nu, nr. split; [reflexivity|exact H].
  - cbn [length plus List.map app] in H. rewrite clone_loop_cons in H. cbn [clone_roots nseq length].
    change (match src with Some s => s | None => D end) with (srcof src D).
    unfold clone_ref_as_builder in *. cbn [c_queue c_rewrites] in *.
    destruct (lookup r (d_insts (srcof src D))) as [i|]; [|discriminate].
    destruct (dom_insert D nu rnone (BNode nr (i_name i) (i_class i) (i_props i) []))
      as [[[d1 nu1] root]| | |] eqn:Ei; cbn [rbind] in H; try discriminate.
    pose proof (dom_insert_root _ _ _ _ _ _ _ Ei) as Hroot. cbn [broot] in Hroot. subst root.
    rewrite <- app_assoc in H. apply IH in H. destruct H as [D1 [c1 [nu1' [nr1 [H1 H2]]]]].
    cbn [rbind]. rewrite H1. cbn [rbind]. exists D1, c1, nu1', nr1. split; [reflexivity|exact H2].
Qed.

(* ---- rewrite_refs ---- *)

Lemma prop_refs_in_spec D ps o :
  In o (prop_refs_in D ps) <-> In (PRef o) (List.map snd ps) /\ has o (d_insts D) = true.
Proof.
  induction ps as [|[k v] ps IH]; [cbn; tauto|].
  change (prop_refs_in D ((k, v) :: ps)) with
    (match v with PRef v0 => if has v0 (d_insts D) then v0 :: prop_refs_in D ps else prop_refs_in D ps
                | _ => prop_refs_in D ps end).
  cbn [List.map snd In]. destruct v as [v0|u|w].
  - destruct (has v0 (d_insts D)) eqn:E.
    + cbn [In]. rewrite IH. split.
      * intros [->|[H1 H2]]; [split; [left; reflexivity|exact E]|split; [right; exact H1|exact H2]].
      * intros [[H|H] H2]; [left; congruence|right; split; assumption].
    + rewrite IH. split.
      * intros [H1 H2]. split; [right; exact H1|exact H2].
      * intros [[H|H] H2]; [inversion H; subst; congruence|split; assumption].
  - rewrite IH. split; [intros [H1 H2]; split; [right; exact H1|exact H2]|].
    intros [[H|H] H2]; [discriminate|split; assumption].
  - rewrite IH. split; [intros [H1 H2]; split; [right; exact H1|exact H2]|].
    intros [[H|H] H2]; [discriminate|split; assumption].
Qed.

Lemma rr_collect_spec D news :
  (forall n, In n news -> exists i, lookup n (d_insts D) = Some i) ->
  exists ex, rr_collect D news = Some ex /\
    forall o, In o ex <-> exists n i, In n news /\ lookup n (d_insts D) = Some i /\
                                    In (PRef o) (List.map snd (i_props i)) /\ has o (d_insts D) = true.
Proof.
  induction news as [|n news IH]; intros H.
  - exists []. split; [reflexivity|]. intros o. split; [intros []|intros [n [i [[] _]]]].
  - destruct (H n (or_introl eq_refl)) as [i Hi].
    destruct IH as [ex [Hex Hspec]]; [intros m Hm; apply H; right; exact Hm|].
    exists (prop_refs_in D (i_props i) ++ ex). cbn [rr_collect]. rewrite Hi, Hex. split; [reflexivity|].
    intros o. rewrite in_app_iff, prop_refs_in_spec, Hspec. split.
    + intros [[H1 H2]|[m [j [Hm [Hj [H1 H2]]]]]].
      * exists n, i. repeat split; try assumption. left. reflexivity.
      * exists m, j. repeat split; try assumption. right. exact Hm.
    + intros [m [j [[Hm|Hm] [Hj [H1 H2]]]]].
      * subst m. rewrite Hi in Hj. inversion Hj; subst j. left. split; assumption.
      * right. exists m, j. repeat split; assumption.
Qed.

Lemma rr_apply_spec rw ex news : forall D,
  NoDup news -> (forall n, In n news -> exists i, lookup n (d_insts D) = Some i) ->
  exists D', rr_apply D rw ex news = Some D' /\ d_root D' = d_root D /\ d_uids D' = d_uids D /\
    (forall y i, In y news -> lookup y (d_insts D) = Some i ->
                 lookup y (d_insts D') = Some (set_props i (vmap (rewrite_val rw ex) (i_props i)))) /\
    (forall y, ~ In y news -> lookup y (d_insts D') = lookup y (d_insts D)) /\
    (NoDup (keys (d_insts D)) -> NoDup (keys (d_insts D'))).
Proof.
  induction news as [|n news IH]; intros D Hnd H.
  - exists D. cbn [rr_apply]. repeat split; try tauto. intros y i [].
  - inversion Hnd as [|a l Hn Hnd']; subst a l.
    destruct (H n (or_introl eq_refl)) as [i Hi]. cbn [rr_apply]. rewrite Hi.
    set (D1 := mkDom (upd n (set_props i (List.map (fun kv => (fst kv, rewrite_val rw ex (snd kv))) (i_props i)))
                          (d_insts D)) (d_root D) (d_uids D)).
    destruct (IH D1 Hnd') as [D' [Happ [Hr [Hu [Hin [Hout Hk]]]]]].
    { intros m Hm. cbn [D1 d_insts]. rewrite lookup_upd_neq by (intros ->; contradiction).
      apply H. right. exact Hm. }
    exists D'. split; [exact Happ|]. split; [exact Hr|]. split; [exact Hu|]. split; [|split].
    + intros y j [Hy|Hy] Hj.
      * subst y. rewrite Hi in Hj. inversion Hj; subst j. rewrite (Hout n Hn). cbn [D1 d_insts].
        apply lookup_upd_eq.
      * apply Hin; [exact Hy|]. cbn [D1 d_insts]. rewrite lookup_upd_neq by (intros ->; contradiction). exact Hj.
    + intros y Hy. cbn [In] in Hy. rewrite Hout by tauto. cbn [D1 d_insts].
      apply lookup_upd_neq. intros ->. apply Hy. left. reflexivity.
    + intros Hkd. apply Hk. cbn [D1 d_insts]. apply NoDup_keys_upd. exact Hkd.
Qed.

(* ---- the top level ---- *)

Definition props_nodup (a : adom) : Prop := forall x i, In (x, i) (aflat a) -> NoDup (keys (i_props i)).

Lemma Rep_lookup_In d a x i : Rep d a -> (lookup x (d_insts d) = Some i <-> In (x, i) (aflat a)).
Proof.
  intros [Hext [Hnd _]]. rewrite Hext. apply lookup_iff_In. unfold aflat. apply NoDup_keys_fflat. exact Hnd.
Qed.

Section Top.
  Variables (src : option dom) (s t : dom) (sa ta : adom) (nu nr : N) (rs : list ref).
  Hypotheses (Hs : s = srcof src t) (HRs : Rep s sa) (HRt : Rep t ta)
             (Hus : uids_below nu sa) (Hut : uids_below nu ta)
             (Hrs : refs_below nr sa) (Hrt : refs_below nr ta)
             (Hps : prefs_below nr sa) (Hpt : prefs_below nr ta)
             (Hns : props_nodup sa) (Hnt : props_nodup ta).
  Variables (subs : list tree) (rw : map ref) (asg : map N) (nu' nr' : N).
  Let phi := phi_of rw.
  Let psi := fun n => lookup n asg.
  Let cv := clone_val rw (frefs (a_trees ta)).
  Let L := bfs_all subs.
  Let Fpre := cpf phi (cprops psi phi).
  Let Fpost := cpf phi (fun x ps => vmap cv (cprops psi phi x ps)).
  Let E := flat_map (tflat rnone) (List.map (tmap Fpre) subs).
  Let copies := List.map (tmap Fpost) subs.
  Hypotheses (Hfind : find_all rs (a_trees sa) = Some subs) (Hnd : NoDup (frefs subs))
             (Halloc : alloc_refs nr (bfs_all subs) = (rw, nr'))
             (Hsettle : settle (fuids (a_trees ta)) nu
                (bfs_all (List.map (tmap (cpf phi (fun x ps => vmap cv (props_of_list ps)))) subs)) = (asg, nu')).

  Lemma top_sub_entry : forall sub, In sub subs -> forall q x i, In (x, i) (tflat q sub) ->
    exists i', In (x, i') (aflat sa) /\ sbp i i'.
  Proof.
    intros sub Hsub q x i Hin. destruct (find_all_spec rs (a_trees sa) subs Hfind) as [_ [_ H]].
    exact (H sub Hsub rnone q x i Hin).
  Qed.

  Lemma top_roots : List.map troot subs = rs /\ length subs = length rs.
  Proof. destruct (find_all_spec rs (a_trees sa) subs Hfind) as [H1 [H2 _]]. split; assumption. Qed.

  Lemma top_fentry : forall x i, In (x, i) (flat_map (tflat rnone) subs) ->
    exists i', In (x, i') (aflat sa) /\ sbp i i'.
  Proof.
    intros x i Hin. apply In_fflat in Hin. destruct Hin as [sub [Hsub Hin]]. eapply top_sub_entry; eassumption.
  Qed.

  Lemma top_sub_refs : forall x, In x (frefs subs) -> In x (frefs (a_trees sa)) /\ x < nr.
  Proof.
    intros x Hx. rewrite <- (keys_fflat rnone) in Hx. unfold keys in Hx. apply in_map_iff in Hx.
    destruct Hx as [[x' i] [Hx' Hin]]. cbn in Hx'. subst x'.
    destruct (top_fentry x i Hin) as [i' [Hin' _]].
    assert (In x (frefs (a_trees sa))) by (eapply In_fflat_frefs; exact Hin').
    split; [assumption|apply Hrs; assumption].
  Qed.

  Lemma top_L_nodup : NoDup (List.map troot L).
  Proof. eapply Permutation_NoDup; [apply bfs_roots_perm|exact Hnd]. Qed.

  Lemma top_alloc : numbered phi nr L /\ nr' = nr + N.of_nat (fsize subs) /\
    (forall o, ~ In o (List.map troot L) -> lookup o rw = None) /\
    (forall t', In t' L -> lookup (troot t') rw = Some (phi (troot t'))).
  Proof.
    destruct (alloc_refs_spec L nr rw nr' top_L_nodup Halloc) as [H1 [H2 [H3 H4]]].
    unfold L in H2. rewrite length_bfs_all in H2. repeat split; assumption.
  Qed.

  Lemma top_L_range : forall t', In t' L -> nr <= phi (troot t') < nr'.
  Proof.
    intros t' Ht'. destruct top_alloc as [H1 [H2 _]]. pose proof (numbered_range _ _ _ _ H1 Ht') as H.
    unfold L in H. rewrite length_bfs_all in H. lia.
  Qed.

  Lemma top_phi_range : forall x, In x (frefs subs) -> nr <= phi x < nr'.
  Proof.
    intros x Hx. apply In_frefs_bfs in Hx. destruct Hx as [t' [Ht' <-]]. apply top_L_range. exact Ht'.
  Qed.

  Lemma top_plan : Plan psi (fuids (a_trees ta)) nu nr L nu'.
  Proof.
    destruct top_alloc as [H1 _]. rewrite bfs_all_tmap in Hsettle.
    eapply settle_Plan; [|exact H1|exact Hsettle].
    intros x ps. apply get_uid_vmap. intros v. apply clone_val_uidsafe.
  Qed.

  Lemma top_keys_E : keys E = List.map phi (frefs subs).
  Proof. unfold E. rewrite keys_fflat. unfold Fpre. apply frefs_tmap. Qed.

  Lemma top_keys_copies : frefs copies = List.map phi (frefs subs).
  Proof. unfold copies, Fpost. apply frefs_tmap. Qed.

  Lemma top_newrefs_nodup : NoDup (List.map phi (frefs subs)).
  Proof.
    destruct top_alloc as [H1 _].
    eapply Permutation_NoDup; [apply Permutation_sym, Permutation_map, bfs_roots_perm|].
    fold L. rewrite (numbered_map phi L nr H1). apply NoDup_nseq.
  Qed.

  Lemma top_E_range : forall y, In y (keys E) -> nr <= y < nr'.
  Proof.
    intros y Hy. rewrite top_keys_E in Hy. apply in_map_iff in Hy. destruct Hy as [x [<- Hx]].
    apply top_phi_range. exact Hx.
  Qed.

  (* every enumerated original node is an entry of the source forest *)
  Lemma top_L_entry : forall t', In t' L -> exists i', In (troot t', i') (aflat sa) /\ i_props i' = tprops t'.
  Proof.
    intros t' Ht'. destruct (In_bfs_entry rnone subs t' Ht') as [i [Hin Hsb]].
    destruct (top_fentry _ _ Hin) as [i' [Hin' Hsb']]. exists i'. split; [exact Hin'|].
    destruct Hsb as [_ [_ [_ E1]]]. destruct Hsb' as [_ [_ [_ E2]]]. rewrite <- E2, <- E1. apply tinst_props.
  Qed.

  Lemma top_L_uid : forall t' u, In t' L -> get_uid (props_of_list (tprops t')) = Some u -> u < nu.
  Proof.
    intros t' u Ht' Hu. destruct (top_L_entry t' Ht') as [i' [Hin Hp]].
    assert (Hn : NoDup (keys (tprops t'))) by (rewrite <- Hp; eapply Hns; exact Hin).
    unfold get_uid in Hu. rewrite (lookup_pol _ _ Hn) in Hu.
    apply Hus. apply (In_fuids u rnone). exists (troot t'), i'. split; [exact Hin|].
    unfold get_uid. rewrite Hp. exact Hu.
  Qed.

  Lemma top_nr_pos : 0 < nr.
  Proof.
    destruct HRt as [_ [_ [_ [_ [Hin _]]]]]. apply roots_in_frefs in Hin. apply Hrt in Hin. lia.
  Qed.

  Lemma top_prefs_E : forall y i o, In (y, i) E -> In (PRef o) (List.map snd (i_props i)) -> o < nr.
  Proof.
    intros y i o Hin Ho. destruct (fentry_tmap _ _ _ _ _ _ Hin) as [x [i0 [Hin0 [_ Hp]]]].
    destruct (top_fentry _ _ Hin0) as [i' [Hin' [_ [_ [_ Hp']]]]].
    rewrite Hp, Hp' in Ho. apply in_map_iff in Ho. destruct Ho as [[k v] [Hv Hkv]]. cbn in Hv. subst v.
    assert (Hpol : In (k, PRef o) (props_of_list (i_props i'))).
    { unfold cprops in Hkv. destruct (psi (phi x)); [|exact Hkv].
      apply In_upd in Hkv. destruct Hkv as [[_ Hd]|Hkv]; [discriminate|exact Hkv]. }
    apply In_props_of_list in Hpol. apply Hps. apply (In_fpvals _ _ rnone). exists x, i'. split; [exact Hin'|].
    apply in_map_iff. exists (k, PRef o). split; [reflexivity|exact Hpol].
  Qed.

  Lemma top_copies_uids :
    fuids copies = fuids (List.map (tmap Fpre) subs) /\ NoDup (fuids copies) /\
    forall u, In u (fuids copies) -> ~ In u (fuids (a_trees ta)) /\ u < nu'.
  Proof.
    assert (E1 : fuids copies = fuids (List.map (tmap Fpre) subs)).
    { unfold copies, Fpost, Fpre. apply (fuids_tmap_post phi (cprops psi phi) (vmap cv)).
      intros ps. apply get_uid_vmap. intros v. apply clone_val_uidsafe. }
    assert (P : Permutation (fuids (List.map (tmap Fpre) subs)) (flat_map (fun t0 => ruid (tmap Fpre t0)) L)).
    { eapply Permutation_trans; [apply bfs_uids_perm|]. unfold Fpre. rewrite bfs_all_tmap, flat_map_map. apply Permutation_refl. }
    destruct top_alloc as [Hnum _].
    destruct (Plan_uids psi phi L (fuids (a_trees ta)) nu nr nu' Hnum top_plan) as [Hnd1 Hall].
    { intros u Hu. apply Hut. apply mem_In. exact Hu. }
    { intros t' u Ht' Hu. eapply top_L_uid; eassumption. }
    split; [exact E1|]. rewrite E1. split.
    - eapply Permutation_NoDup; [apply Permutation_sym; exact P|exact Hnd1].
    - intros u Hu. apply (Permutation_in _ P) in Hu. destruct (Hall u Hu) as [H1 H2].
      split; [apply mem_false_In; exact H1|exact H2].
  Qed.

  Lemma top_run : exists D3,
    dom_clone src t nu nr rs = Ok (D3, nu', nr', nseq nr (length rs)) /\
    (forall y i, In (y, i) E -> lookup y (d_insts D3) = Some (set_props i (vmap cv (i_props i)))) /\
    (forall y, ~ In y (keys E) -> lookup y (d_insts D3) = lookup y (d_insts t)) /\
    (forall u, mem u (d_uids D3) = mem u (d_uids t) || mem u (fuids (List.map (tmap Fpre) subs))) /\
    d_root D3 = d_root t /\ NoDup (keys (d_insts D3)).
  Proof.
    destruct top_alloc as [Hnum [Hnr' [HrwN HrwS]]].
    destruct top_roots as [Hroots Hlen].
    set (q := List.map (pair rnone) subs).
    assert (Hq : List.map snd q = subs) by apply map_snd_pairs.
    assert (Hrn : lookup rnone (d_insts t) = None).
    { destruct HRt as [Hext [_ [Hn0 _]]]. rewrite Hext. apply lookup_fflat_notin. exact Hn0. }
    destruct (clone_loop_spec phi psi (length rs + S (length rs * dom_size s)) src t [] nu nr nr q nu')
      as [D2 [rw2 [Hloop Hpost]]].
    { rewrite Hq.
      assert (Hle : (fsize subs <= dom_size s)%nat).
      { rewrite <- length_frefs. unfold dom_size. rewrite <- (map_length fst (d_insts s)).
        apply NoDup_incl_length; [exact Hnd|]. intros x Hx. destruct (top_sub_refs x Hx) as [Hx' _].
        destruct (lookup_fflat_in rnone _ _ Hx') as [i Hi]. destruct HRs as [Hext _].
        fold (aflat sa) in Hi. rewrite <- Hext in Hi. apply lookup_In in Hi. exact (In_keys _ _ _ Hi). }
      destruct rs as [|r0 rs0]; [destruct subs; [cbn; lia|discriminate]|]. cbn [length]. nia. }
    { rewrite Hq. exact Hnum. }
    { rewrite Hq. apply (Plan_used_ext psi L (fuids (a_trees ta))); [|exact top_plan].
      intros u. destruct HRt as [_ [_ [_ [_ [_ [Hm _]]]]]]. symmetry. apply Hm. }
    { rewrite Hq, <- Hs. intros sub Hsub x i Hin. destruct (top_sub_entry sub Hsub rnone x i Hin) as [i' [Hin' Hsb]].
      exists i'. split; [apply (Rep_lookup_In s sa); assumption|exact Hsb]. }
    { lia. }
    { rewrite Hq. intros x Hx. exact (proj2 (top_sub_refs x Hx)). }
    { intros cp t' Hin. left. unfold q in Hin. apply in_map_iff in Hin. destruct Hin as [k [Hk _]]. congruence. }
    { exact Hrn. }
    assert (Hcq : cq q = List.map (pair rnone) rs ++ []).
    { rewrite app_nil_r, <- Hroots. unfold cq, q. rewrite !map_map. reflexivity. }
    rewrite Hcq in Hloop. apply roots_then_loop in Hloop.
    destruct Hloop as [D1 [c1 [nu1 [nr1 [Hcr Hloop2]]]]].
    destruct Hpost as [HA [HB [HC [HR [HN [HF1 [HF2 HG]]]]]]].
    assert (HqE : qents phi psi q = E) by (unfold q, E, Fpre; apply qents_pairs).
    rewrite HqE in HA, HB. rewrite Hq in HC, HF1, HF2. fold L in HF1, HF2.
    assert (Hrw_eq : forall o, lookup o rw2 = lookup o rw).
    { intros o. destruct (in_dec N.eq_dec o (List.map troot L)) as [Hin|Hnin].
      - apply in_map_iff in Hin. destruct Hin as [t' [<- Ht']]. rewrite (HF1 t' Ht'), (HrwS t' Ht'). reflexivity.
      - rewrite (HF2 o Hnin), (HrwN o Hnin). reflexivity. }
    assert (Hkeys2 : NoDup (keys rw2)) by (apply HG; constructor).
    assert (Hrw2_char : forall o n, In (o, n) rw2 -> exists t', In t' L /\ troot t' = o /\ n = phi o).
    { intros o n Hin. apply (In_lookup _ _ _ Hkeys2) in Hin.
      destruct (in_dec N.eq_dec o (List.map troot L)) as [Hi|Hnin].
      - apply in_map_iff in Hi. destruct Hi as [t' [Ho Ht']]. exists t'. split; [exact Ht'|]. split; [exact Ho|].
        subst o. rewrite (HF1 t' Ht') in Hin. congruence.
      - rewrite (HF2 o Hnin) in Hin. discriminate. }
    set (news := List.map snd rw2).
    assert (Hnews_sub : forall n, In n news -> In n (keys E)).
    { intros n Hn. unfold news in Hn. apply in_map_iff in Hn. destruct Hn as [[o n'] [Hn' Hin]]. cbn in Hn'. subst n'.
      destruct (Hrw2_char o n Hin) as [t' [Ht' [Ho Hn]]]. subst n. rewrite top_keys_E. apply in_map.
      apply (Permutation_in _ (Permutation_sym (bfs_roots_perm subs))). rewrite <- Ho. apply in_map. exact Ht'. }
    assert (Hnews_all : forall y, In y (keys E) -> In y news).
    { intros y Hy. rewrite top_keys_E in Hy. apply in_map_iff in Hy. destruct Hy as [x [<- Hx]].
      apply In_frefs_bfs in Hx. destruct Hx as [t' [Ht' <-]]. pose proof (HF1 t' Ht') as Hl.
      apply lookup_In in Hl. unfold news. apply in_map_iff. exists (troot t', phi (troot t')). split; [reflexivity|exact Hl]. }
    assert (Hnews_nd : NoDup news).
    { apply NoDup_map_snd; [exact Hkeys2|]. intros k k' v H1 H2.
      destruct (Hrw2_char k v H1) as [t1 [Ht1 [Hk1 Hv1]]]. destruct (Hrw2_char k' v H2) as [t2 [Ht2 [Hk2 Hv2]]].
      subst k k'. apply (numbered_inj phi L nr t1 t2 Hnum top_L_nodup Ht1 Ht2). congruence. }
    assert (HE_entry : forall y, In y (keys E) -> exists i, In (y, i) E).
    { intros y Hy. unfold keys in Hy. apply in_map_iff in Hy. destruct Hy as [[y' i] [Hy' Hin]]. cbn in Hy'. subst y'.
      exists i. exact Hin. }
    assert (Hnews_in : forall n, In n news -> exists i, lookup n (d_insts D2) = Some i).
    { intros n Hn. destruct (HE_entry n (Hnews_sub n Hn)) as [i Hin]. exists i. apply HA. exact Hin. }
    assert (Hold2 : forall o, ~ In o (keys E) -> lookup o (d_insts D2) = lookup o (d_insts t)).
    { intros o Ho. rewrite (HB o Ho). destruct (N.eq_dec o rnone) as [->|Hne]; [rewrite Hrn; reflexivity|].
      destruct (lookup o (d_insts t)) as [i|]; [|reflexivity]. cbn [option_map]. f_equal.
      unfold addkids. rewrite (qkids_none phi o q).
      - rewrite app_nil_r. destruct i; reflexivity.
      - intros ct Hct. unfold q in Hct. apply in_map_iff in Hct. destruct Hct as [k [<- _]]. cbn [fst]. congruence. }
    destruct (rr_collect_spec D2 news Hnews_in) as [ex [Hex Hexspec]].
    destruct (rr_apply_spec rw2 ex news D2 Hnews_nd Hnews_in) as [D3 [Happ [HR3 [HU3 [Hin3 [Hout3 Hk3]]]]]].
    exists D3. split.
    { unfold dom_clone. unfold ctx0.
      change (match src with Some s0 => s0 | None => t end) with (srcof src t). rewrite <- Hs.
      rewrite Hcr. cbn [rbind]. rewrite Hloop2. cbn [rbind]. unfold rewrite_refs. cbn [c_rewrites].
      fold news. rewrite Hex, Happ. cbn [of_opt rbind]. rewrite Hq, <- Hnr'. reflexivity. }
    assert (Hhas : forall o, o < nr -> (has o (d_insts D2) = true <-> In o (frefs (a_trees ta)))).
    { intros o Ho. assert (Hno : ~ In o (keys E)) by (intros H; apply top_E_range in H; lia).
      unfold has. rewrite (Hold2 o Hno). destruct HRt as [Hext _]. rewrite Hext. unfold aflat.
      destruct (lookup o (flat_map (tflat rnone) (a_trees ta))) as [i|] eqn:El.
      - split; [intros _|reflexivity]. apply lookup_In in El. eapply In_fflat_frefs. exact El.
      - split; [discriminate|]. intros Hin. destruct (lookup_fflat_in rnone _ _ Hin) as [i Hi]. congruence. }
    split; [|split; [|split; [|split]]].
    - intros y i Hin. pose proof (HA y i Hin) as Hl2.
      assert (Hy : In y news) by (apply Hnews_all; exact (In_keys _ _ _ Hin)).
      rewrite (Hin3 y i Hy Hl2). do 2 f_equal. apply vmap_ext_in. intros v Hv.
      destruct v as [o|u|w]; [|reflexivity|reflexivity]. unfold cv. cbn [rewrite_val clone_val].
      rewrite Hrw_eq. destruct (lookup o rw); [reflexivity|].
      pose proof (top_prefs_E y i o Hin Hv) as Ho.
      assert (Hiff : In o ex <-> In o (frefs (a_trees ta))).
      { rewrite Hexspec, <- (Hhas o Ho). split.
        - intros [n [j [_ [_ [_ H]]]]]. exact H.
        - intros H. exists y, i. repeat split; assumption. }
      destruct (mem o ex) eqn:E1; destruct (mem o (frefs (a_trees ta))) eqn:E2; try reflexivity; exfalso.
      + apply mem_In in E1. apply mem_false_In in E2. tauto.
      + apply mem_false_In in E1. apply mem_In in E2. tauto.
    - intros y Hy. rewrite Hout3 by (intros H; apply Hy, Hnews_sub, H). apply Hold2. exact Hy.
    - intros u. rewrite HU3. apply HC.
    - rewrite HR3. exact HR.
    - apply Hk3, HN. destruct HRt as [_ [_ [_ [_ [_ [_ [_ H]]]]]]]. exact H.
  Qed.

  Let ta2 := mkADom (a_root ta) (a_trees ta ++ copies).

  Lemma top_aflat : aflat ta2 = aflat ta ++ flat_map (tflat rnone) copies.
  Proof. unfold aflat, ta2. cbn [a_trees]. apply flat_map_app. Qed.

  Lemma top_Epost : flat_map (tflat rnone) copies = List.map (post_entry (vmap cv)) E.
  Proof. unfold copies, Fpost, E, Fpre. apply (fflat_tmap_post phi (cprops psi phi) (vmap cv)). Qed.

  Lemma top_bounds :
    nu <= nu' /\ nr <= nr' /\ uids_below nu' ta2 /\ refs_below nr' ta2 /\ prefs_below nr' ta2 /\ props_nodup ta2.
  Proof.
    destruct top_alloc as [Hnum [Hnr' [HrwN HrwS]]].
    assert (Hnu : nu <= nu') by (eapply Plan_mono; exact top_plan).
    assert (Hnr : nr <= nr') by lia.
    destruct top_copies_uids as [_ [_ Hcu]].
    split; [exact Hnu|]. split; [exact Hnr|]. split; [|split; [|split]].
    - intros u Hu. unfold ta2 in Hu. cbn [a_trees] in Hu. rewrite fuids_app in Hu. apply in_app_or in Hu.
      destruct Hu as [Hu|Hu]; [apply Hut in Hu; lia|exact (proj2 (Hcu u Hu))].
    - intros r Hr. unfold ta2 in Hr. cbn [a_trees] in Hr. rewrite frefs_app in Hr. apply in_app_or in Hr.
      destruct Hr as [Hr|Hr]; [apply Hrt in Hr; lia|].
      rewrite top_keys_copies, <- top_keys_E in Hr. apply top_E_range in Hr. lia.
    - intros r Hr. unfold ta2 in Hr. cbn [a_trees] in Hr. rewrite fpvals_app in Hr. apply in_app_or in Hr.
      destruct Hr as [Hr|Hr]; [apply Hpt in Hr; lia|].
      apply (In_fpvals _ _ rnone) in Hr. destruct Hr as [y [i [Hin Hv]]].
      unfold copies, Fpost in Hin. destruct (fentry_tmap _ _ _ _ _ _ Hin) as [x [i0 [_ [_ Hp]]]].
      rewrite Hp in Hv. apply In_vmap_vals in Hv. destruct Hv as [v [_ Hv]].
      destruct v as [o|u|w]; [|discriminate|discriminate]. unfold cv in Hv. cbn [clone_val] in Hv.
      destruct (lookup o rw) as [n|] eqn:El.
      + inversion Hv; subst r.
        destruct (in_dec N.eq_dec o (List.map troot L)) as [Hi|Hni]; [|rewrite (HrwN o Hni) in El; discriminate].
        apply in_map_iff in Hi. destruct Hi as [t' [<- Ht']]. rewrite (HrwS t' Ht') in El. inversion El; subst n.
        exact (proj2 (top_L_range t' Ht')).
      + destruct (mem o (frefs (a_trees ta))) eqn:Em; inversion Hv; subst r.
        * apply mem_In in Em. apply Hrt in Em. lia.
        * pose proof top_nr_pos. unfold rnone. lia.
    - intros x i Hin. rewrite top_aflat in Hin. apply in_app_or in Hin. destruct Hin as [Hin|Hin]; [eapply Hnt; exact Hin|].
      unfold copies, Fpost in Hin. destruct (fentry_tmap _ _ _ _ _ _ Hin) as [x0 [i0 [_ [_ Hp]]]].
      rewrite Hp, keys_vmap. apply NoDup_keys_cprops.
  Qed.

  Lemma top_final : exists t',
    dom_clone src t nu nr rs = Ok (t', nu', nr', nseq nr (length rs)) /\ Rep t' ta2.
  Proof.
    destruct top_run as [D3 [Hrun [Hin3 [Hout3 [HC [HR HK]]]]]]. exists D3. split; [exact Hrun|].
    destruct HRt as [Hext [Hndr [Hn0 [Hroot [Hrin [Hmem [Hndu _]]]]]]].
    destruct top_copies_uids as [E1 [Hcnd Hcu]].
    assert (HndC : NoDup (keys (flat_map (tflat rnone) copies))).
    { rewrite keys_fflat, top_keys_copies. apply top_newrefs_nodup. }
    unfold Rep. split; [|split; [|split; [|split; [|split; [|split; [|split]]]]]].
    - intros x. rewrite top_aflat, lookup_app. destruct (in_dec N.eq_dec x (keys E)) as [Hx|Hx].
      + pose proof (top_E_range x Hx) as Hrange.
        assert (Hnone : lookup x (aflat ta) = None).
        { apply lookup_fflat_notin. intros H. apply Hrt in H. lia. }
        rewrite Hnone. unfold keys in Hx. apply in_map_iff in Hx. destruct Hx as [[x' i] [Hx' Hin]]. cbn in Hx'. subst x'.
        rewrite (Hin3 x i Hin). symmetry. apply In_lookup; [exact HndC|].
        rewrite top_Epost. apply in_map_iff. exists (x, i). split; [reflexivity|exact Hin].
      + rewrite (Hout3 x Hx), Hext. destruct (lookup x (aflat ta)) as [i|]; [reflexivity|].
        symmetry. apply lookup_fflat_notin. rewrite top_keys_copies, <- top_keys_E. exact Hx.
    - unfold ta2. cbn [a_trees]. rewrite frefs_app. apply NoDup_app_intro; [exact Hndr| |].
      + rewrite top_keys_copies. apply top_newrefs_nodup.
      + intros x H1 H2. apply Hrt in H1. rewrite top_keys_copies, <- top_keys_E in H2. apply top_E_range in H2. lia.
    - unfold ta2. cbn [a_trees]. rewrite frefs_app. intros H. apply in_app_or in H. destruct H as [H|H]; [contradiction|].
      rewrite top_keys_copies, <- top_keys_E in H. apply top_E_range in H. pose proof top_nr_pos. unfold rnone in H. lia.
    - rewrite HR. exact Hroot.
    - unfold ta2. cbn [a_trees a_root]. rewrite map_app. apply in_or_app. left. exact Hrin.
    - intros u. unfold ta2. cbn [a_trees]. rewrite (HC u), fuids_app, mem_app, Hmem, E1. reflexivity.
    - unfold ta2. cbn [a_trees]. rewrite fuids_app. apply NoDup_app_intro; [exact Hndu|exact Hcnd|].
      intros u H1 H2. exact (proj1 (Hcu u H2) H1).
    - exact HK.
  Qed.
End Top.

(* ---- the refinement theorems (corrected statements, see the report at the end of this file) ---- *)

Lemma clone_generic src s t sa ta nu nr rs ta' nu' nr' roots :
  s = srcof src t -> Rep s sa -> Rep t ta ->
  uids_below nu sa -> uids_below nu ta -> refs_below nr sa -> refs_below nr ta ->
  prefs_below nr sa -> prefs_below nr ta -> props_nodup sa -> props_nodup ta ->
  a_clone_p sa ta nu nr rs = Some (ta', nu', nr', roots) ->
  exists t', dom_clone src t nu nr rs = Ok (t', nu', nr', roots) /\ Rep t' ta' /\
             uids_below nu' ta' /\ refs_below nr' ta' /\ prefs_below nr' ta' /\ props_nodup ta' /\
             nu <= nu' /\ nr <= nr'.
Proof.
  intros Hs HRs HRt Hus Hut Hrs Hrt Hps Hpt Hns Hnt H.
  destruct (a_clone_p_inv _ _ _ _ _ _ _ _ _ H) as [subs [rw [asg [Hfind [Hnd [Halloc [Hsettle [Hta' Hroots]]]]]]]].
  destruct (top_final src s t sa ta nu nr rs Hs HRs HRt Hus Hut Hrs Hrt Hps Hns subs rw asg nu' nr'
              Hfind Hnd Halloc Hsettle) as [t' [Hrun HRep]].
  pose proof (top_bounds t sa ta nu nr rs HRt Hus Hut Hrt Hpt Hns Hnt subs rw asg nu' nr'
              Hfind Hnd Halloc Hsettle) as [B1 [B2 [B3 [B4 [B5 B6]]]]].
  assert (Hr : roots = nseq nr (length rs)).
  { destruct (top_alloc nr subs rw nr' Hnd Halloc) as [Hnum _].
    destruct (top_roots sa rs subs Hfind) as [_ Hlen].
    rewrite Hroots, <- Hlen. apply numbered_roots. exact Hnum. }
  subst ta'. rewrite Hr. exists t'. split; [exact Hrun|]. split; [exact HRep|].
  split; [exact B3|]. split; [exact B4|]. split; [exact B5|]. split; [exact B6|]. split; [exact B1|exact B2].
Qed.

(* Corrected statements.  Differences from [refines_clone_within] / [refines_clone_ext] of Rep.v:
   (1) [a_clone_p] instead of [a_clone]: a copy's properties are [props_of_list] of the original's
       (the concrete clone goes through an InstanceBuilder);
   (2) [uids_below nu sa] for the external case (copies keep free source UniqueIds);
   (3) the invariant [props_nodup] (no instance has a repeated property key), assumed and re-established:
       without it [props_of_list] may expose a UniqueId hidden behind an earlier duplicate key, which
       [uids_below] (stated through [get_uid]) does not bound. *)
Definition refines_clone_within' : Prop := forall d a nu nr rs a' nu' nr' roots,
  Rep d a -> uids_below nu a -> refs_below nr a -> prefs_below nr a -> props_nodup a ->
  a_clone_p a a nu nr rs = Some (a', nu', nr', roots) ->
  exists d', dom_clone None d nu nr rs = Ok (d', nu', nr', roots) /\ Rep d' a' /\
             uids_below nu' a' /\ refs_below nr' a' /\ prefs_below nr' a' /\ props_nodup a' /\
             nu <= nu' /\ nr <= nr'.

Definition refines_clone_ext' : Prop := forall s t sa ta nu nr rs ta' nu' nr' roots,
  Rep s sa -> Rep t ta -> uids_below nu sa -> uids_below nu ta -> refs_below nr sa -> refs_below nr ta ->
  prefs_below nr sa -> prefs_below nr ta -> props_nodup sa -> props_nodup ta ->
  a_clone_p sa ta nu nr rs = Some (ta', nu', nr', roots) ->
  exists t', dom_clone (Some s) t nu nr rs = Ok (t', nu', nr', roots) /\ Rep t' ta' /\
             uids_below nu' ta' /\ refs_below nr' ta' /\ prefs_below nr' ta' /\ props_nodup ta' /\
             nu <= nu' /\ nr <= nr'.

Lemma clone_ext_refines' : refines_clone_ext'.
Proof.
  intros s t sa ta nu nr rs ta' nu' nr' roots HRs HRt Hus Hut Hrs Hrt Hps Hpt Hns Hnt H.
  exact (clone_generic (Some s) s t sa ta nu nr rs ta' nu' nr' roots eq_refl HRs HRt Hus Hut Hrs Hrt Hps Hpt Hns Hnt H).
Qed.

Lemma clone_within_refines' : refines_clone_within'.
Proof.
  intros d a nu nr rs a' nu' nr' roots HR Hu Hr Hp Hn H.
  exact (clone_generic None d d a a nu nr rs a' nu' nr' roots eq_refl HR HR Hu Hu Hr Hr Hp Hp Hn Hn H).
Qed.

(* ---- the statements of Rep.v as they stand, under the extra hypotheses that make them true ---- *)

Definition props_fixed (a : adom) : Prop :=
  forall x i, In (x, i) (aflat a) -> props_of_list (i_props i) = i_props i.

Lemma props_fixed_nodup a : props_fixed a -> props_nodup a.
Proof. intros H x i Hin. rewrite <- (H x i Hin). apply NoDup_keys_pol. Qed.

Lemma tmap_ext_entries f1 f2 t :
  (forall x i, In (x, i) (tflat rnone t) -> f1 x (i_props i) = f2 x (i_props i)) -> tmap f1 t = tmap f2 t.
Proof.
  induction t as [r n c ps kids IH] using tree_ind'. intros H. rewrite !tmap_eq.
  assert (E : f1 r ps = f2 r ps).
  { apply (H r (mkInst rnone (List.map troot kids) n c ps)). rewrite tflat_eq. left. reflexivity. }
  rewrite E. destruct (f2 r ps) as [x' ps']. f_equal.
  apply map_ext_in. intros k Hk. rewrite Forall_forall in IH. apply IH; [exact Hk|].
  intros x i Hin. destruct (tflat_reparent rnone r k x i Hin) as [i' [Hin' [_ [_ [_ Hp]]]]]. rewrite Hp.
  apply H. rewrite tflat_eq. right. apply in_flat_map. exists k. split; assumption.
Qed.

Lemma a_clone_p_eq sa ta nu nr rs : props_fixed sa -> a_clone_p sa ta nu nr rs = a_clone sa ta nu nr rs.
Proof. intros _. reflexivity. Qed.  (* Tree.v's a_clone now is a_clone_p: definitional *)

Lemma clone_ext_refines_fixed : forall s t sa ta nu nr rs ta' nu' nr' roots,
  Rep s sa -> Rep t ta -> uids_below nu ta -> refs_below nr sa -> refs_below nr ta ->
  prefs_below nr sa -> prefs_below nr ta ->
  uids_below nu sa -> props_fixed sa -> props_nodup ta ->          (* the extra hypotheses *)
  a_clone sa ta nu nr rs = Some (ta', nu', nr', roots) ->
  exists t', dom_clone (Some s) t nu nr rs = Ok (t', nu', nr', roots) /\ Rep t' ta' /\
             uids_below nu' ta' /\ refs_below nr' ta' /\ prefs_below nr' ta' /\ nu <= nu' /\ nr <= nr'.
Proof.
  intros s t sa ta nu nr rs ta' nu' nr' roots HRs HRt Hut Hrs Hrt Hps Hpt Hus Hfix Hnt H.
  rewrite <- (a_clone_p_eq sa ta nu nr rs Hfix) in H.
  destruct (clone_ext_refines' s t sa ta nu nr rs ta' nu' nr' roots HRs HRt Hus Hut Hrs Hrt Hps Hpt
              (props_fixed_nodup sa Hfix) Hnt H) as [t' [H1 [H2 [H3 [H4 [H5 [_ [H6 H7]]]]]]]].
  exists t'. split; [exact H1|]. split; [exact H2|]. split; [exact H3|]. split; [exact H4|].
  split; [exact H5|]. split; [exact H6|exact H7].
Qed.

Lemma clone_within_refines_fixed : forall d a nu nr rs a' nu' nr' roots,
  Rep d a -> uids_below nu a -> refs_below nr a -> prefs_below nr a ->
  props_fixed a ->                                                  (* the extra hypothesis *)
  a_clone a a nu nr rs = Some (a', nu', nr', roots) ->
  exists d', dom_clone None d nu nr rs = Ok (d', nu', nr', roots) /\ Rep d' a' /\
             uids_below nu' a' /\ refs_below nr' a' /\ prefs_below nr' a' /\ nu <= nu' /\ nr <= nr'.
Proof.
  intros d a nu nr rs a' nu' nr' roots HR Hu Hr Hp Hfix H.
  rewrite <- (a_clone_p_eq a a nu nr rs Hfix) in H.
  destruct (clone_within_refines' d a nu nr rs a' nu' nr' roots HR Hu Hr Hp (props_fixed_nodup a Hfix) H)
    as [d' [H1 [H2 [H3 [H4 [H5 [_ [H6 H7]]]]]]]].
  exists d'. split; [exact H1|]. split; [exact H2|]. split; [exact H3|]. split; [exact H4|].
  split; [exact H5|]. split; [exact H6|exact H7].
Qed.

Print Assumptions clone_ext_refines'.
Print Assumptions clone_within_refines'.
Print Assumptions clone_ext_refines_fixed.
Print Assumptions clone_within_refines_fixed.
