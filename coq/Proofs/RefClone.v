(* RefClone.v — the clone entry points of the concrete model refine the abstract [a_clone]. *)
From RbxVerif Require Import Base Dom Tree BaseFacts TreeFacts Rep RepWF RefCloneAux.
From Coq Require Import Lia Permutation.

(* ---- reading original instances from the source table ---- *)

Definition Readable (S : map inst) (t : tree) : Prop :=
  forall x i, In (x, i) (tflat rnone t) -> exists i', lookup x S = Some i' /\ sbp i i'.

Lemma Readable_root S t : Readable S t -> exists i', lookup (troot t) S = Some i' /\ sbp (tinst rnone t) i'.
Proof. intros H. apply H. apply tflat_root_In. Qed.

Lemma Readable_kid S t k : Readable S t -> In k (tkids t) -> Readable S k.
Proof.
  intros H Hk x i Hin.
  destruct (tflat_reparent rnone (troot t) k x i Hin) as [i1 [Hin1 Hs1]].
  assert (Hin2 : In (x, i1) (tflat rnone t)) by (apply In_tflat; right; exists k; split; assumption).
  destruct (H x i1 Hin2) as [i' [Hl Hs]]. exists i'. split; [exact Hl|]. eapply sbp_trans; eassumption.
Qed.

Lemma Readable_ext S S' t :
  (forall x, In x (trefs t) -> lookup x S' = lookup x S) -> Readable S t -> Readable S' t.
Proof.
  intros He H x i Hin. destruct (H x i Hin) as [i' [Hl Hs]]. exists i'. split; [|exact Hs].
  rewrite He; [exact Hl|]. eapply In_tflat_trefs. exact Hin.
Qed.

(* ---- one concrete step ---- *)

Definition srcof (src : option dom) (D : dom) : dom := match src with Some s => s | None => D end.

Lemma clone_loop_nil fuel src D rw nu nr :
  clone_loop fuel src D (mkCtx [] rw) nu nr = Ok (D, mkCtx [] rw, nu, nr).
Proof. destruct fuel; reflexivity. Qed.

Lemma clone_loop_cons f src D cp uc q' rw nu nr :
  clone_loop (S f) src D (mkCtx ((cp, uc) :: q') rw) nu nr =
  match clone_ref_as_builder (mkCtx q' rw) (srcof src D) nr uc with
  | None => Panic
  | Some (c1, b, nr1) => '(dst1, nu1, _) <- dom_insert D nu cp b ;; clone_loop f src dst1 c1 nu1 nr1
  end.
Proof. reflexivity. Qed.

Lemma crb_spec q rw S nr uc i :
  lookup uc (d_insts S) = Some i ->
  clone_ref_as_builder (mkCtx q rw) S nr uc =
  Some (mkCtx (q ++ List.map (fun ch => (nr, ch)) (i_children i)) (upd uc nr rw),
        BNode nr (i_name i) (i_class i) (i_props i) [], nr + 1).
Proof. intros H. unfold clone_ref_as_builder. rewrite H. reflexivity. Qed.

Definition pushk (nr : ref) (pi : inst) : inst := set_children pi (i_children pi ++ [nr]).

Lemma insert_spec D nu cp nr n c ps :
  (cp = rnone \/ (cp <> nr /\ exists pi, lookup cp (d_insts D) = Some pi)) ->
  exists D1 nu1 ps1,
    dom_insert D nu cp (BNode nr n c ps []) = Ok (D1, nu1, nr) /\
    match get_uid (props_of_list ps) with
    | Some u => if mem u (d_uids D)
                then ps1 = upd UIDKEY (PUid nu) (props_of_list ps) /\ nu1 = nu + 1 /\ d_uids D1 = sadd nu (d_uids D)
                else ps1 = props_of_list ps /\ nu1 = nu /\ d_uids D1 = sadd u (d_uids D)
    | None => ps1 = props_of_list ps /\ nu1 = nu /\ d_uids D1 = d_uids D
    end /\
    lookup nr (d_insts D1) = Some (mkInst cp [] n c ps1) /\
    (forall y, y <> nr -> lookup y (d_insts D1) =
       if negb (N.eqb cp rnone) && N.eqb y cp then option_map (pushk nr) (lookup y (d_insts D))
       else lookup y (d_insts D)) /\
    d_root D1 = d_root D /\
    (NoDup (keys (d_insts D)) -> NoDup (keys (d_insts D1))).
Proof.
  intros Hcp. unfold dom_insert. cbn [bkids insert_one broot].
  destruct (inner_insert D nu nr (mkInst cp [] n c (props_of_list ps))) as [d1 nu1] eqn:Ei.
  assert (Hd1 : exists ps1,
    match get_uid (props_of_list ps) with
    | Some u => if mem u (d_uids D)
                then ps1 = upd UIDKEY (PUid nu) (props_of_list ps) /\ nu1 = nu + 1 /\ d_uids d1 = sadd nu (d_uids D)
                else ps1 = props_of_list ps /\ nu1 = nu /\ d_uids d1 = sadd u (d_uids D)
    | None => ps1 = props_of_list ps /\ nu1 = nu /\ d_uids d1 = d_uids D
    end /\ d_insts d1 = upd nr (mkInst cp [] n c ps1) (d_insts D) /\ d_root d1 = d_root D).
  { unfold inner_insert in Ei. cbn [i_props] in Ei.
    destruct (get_uid (props_of_list ps)) as [u|].
    - destruct (mem u (d_uids D)); inversion Ei; subst d1 nu1; eexists; cbn; repeat split.
    - inversion Ei; subst d1 nu1; eexists; cbn; repeat split. }
  destruct Hd1 as [ps1 [Huid [Hins Hroot]]].
  destruct (N.eqb cp rnone) eqn:Ecp.
  - exists d1, nu1, ps1. cbn [rbind]. split; [reflexivity|]. split; [exact Huid|]. rewrite Hins.
    split; [apply lookup_upd_eq|]. split; [|split; [exact Hroot|apply NoDup_keys_upd]].
    intros y Hy. cbn [negb andb]. apply lookup_upd_neq. exact Hy.
  - destruct Hcp as [Hcp|[Hne [pi Hpi]]]; [subst cp; discriminate|].
    unfold push_child. rewrite Hins, lookup_upd_neq by exact Hne. rewrite Hpi. cbn [rbind].
    eexists _, nu1, ps1. split; [reflexivity|]. cbn [d_insts d_root d_uids]. split; [exact Huid|].
    split; [rewrite lookup_upd_neq by congruence; apply lookup_upd_eq|].
    split; [|split; [exact Hroot|intros H; apply NoDup_keys_upd, NoDup_keys_upd; exact H]].
    intros y Hy. cbn [negb andb]. rewrite lookup_upd. destruct (N.eqb y cp) eqn:Ey.
    + apply N.eqb_eq in Ey. subst y. rewrite Hpi. reflexivity.
    + apply lookup_upd_neq. exact Hy.
Qed.

Lemma step_uid psi phi r n c ps kids L' used used1 nu nu1 nr nu' ps1 :
  phi r = nr ->
  Plan psi used nu nr (Node r n c ps kids :: L') nu' ->
  match get_uid (props_of_list ps) with
  | Some u => if mem u used
              then ps1 = upd UIDKEY (PUid nu) (props_of_list ps) /\ nu1 = nu + 1 /\ used1 = sadd nu used
              else ps1 = props_of_list ps /\ nu1 = nu /\ used1 = sadd u used
  | None => ps1 = props_of_list ps /\ nu1 = nu /\ used1 = used
  end ->
  ps1 = cprops psi phi r ps /\ Plan psi used1 nu1 (nr + 1) L' nu' /\
  forall u, mem u used1 = mem u used || mem u (match get_uid ps1 with Some u' => [u'] | None => [] end).
Proof.
  intros Hphi HP H. cbn [Plan tprops] in HP. unfold cprops. rewrite Hphi.
  destruct (get_uid (props_of_list ps)) as [u|] eqn:Eu.
  - destruct (mem u used); destruct HP as [Hpsi HP]; destruct H as [-> [-> ->]]; rewrite Hpsi.
    + split; [reflexivity|]. split; [exact HP|]. intros u0. rewrite get_uid_upd, mem_sadd. cbn [mem].
      destruct (N.eqb u0 nu); destruct (mem u0 used); reflexivity.
    + split; [reflexivity|]. split; [exact HP|]. intros u0. rewrite Eu, mem_sadd. cbn [mem].
      destruct (N.eqb u0 u); destruct (mem u0 used); reflexivity.
  - destruct HP as [Hpsi HP]; destruct H as [-> [-> ->]]; rewrite Hpsi.
    split; [reflexivity|]. split; [exact HP|]. intros u0. rewrite Eu. cbn [mem]. now rewrite orb_false_r.
Qed.

(* ---- the queue of pending (cloned parent, original subtree) pairs ---- *)

Definition cq (q : list (ref * tree)) : list (ref * ref) := List.map (fun ct => (fst ct, troot (snd ct))) q.

Lemma mem_app u a b : mem u (a ++ b) = mem u a || mem u b.
Proof. induction a as [|x a IH]; cbn; [reflexivity|]. destruct (N.eqb u x); [reflexivity|exact IH]. Qed.

Lemma map_snd_pairs {A B} (a : A) (l : list B) : List.map snd (List.map (pair a) l) = l.
Proof. rewrite map_map. cbn. apply map_id. Qed.

Section Loop.
  Variables (phi : ref -> ref) (psi : ref -> option N).
  Let F := cpf phi (cprops psi phi).

  Definition qents (q : list (ref * tree)) : list (ref * inst) :=
    flat_map (fun ct => tflat (fst ct) (tmap F (snd ct))) q.
  Definition qkids (y : ref) (q : list (ref * tree)) : list ref :=
    List.map (fun ct => phi (troot (snd ct))) (filter (fun ct => N.eqb (fst ct) y) q).
  Definition addkids (y : ref) (q : list (ref * tree)) (i : inst) : inst :=
    set_children i (i_children i ++ qkids y q).

  Lemma qents_app a b : qents (a ++ b) = qents a ++ qents b.
  Proof. unfold qents. apply flat_map_app. Qed.

  Lemma qents_pairs nr kids : qents (List.map (pair nr) kids) = flat_map (tflat nr) (List.map (tmap F) kids).
  Proof. unfold qents. rewrite !flat_map_map. reflexivity. Qed.

  Lemma qkids_app y a b : qkids y (a ++ b) = qkids y a ++ qkids y b.
  Proof. unfold qkids. rewrite filter_app, map_app. reflexivity. Qed.

  Lemma qkids_none y q : (forall ct, In ct q -> fst ct <> y) -> qkids y q = [].
  Proof.
    induction q as [|ct q IH]; intros H; [reflexivity|]. unfold qkids. cbn [filter].
    match goal with |- context [if ?b then _ else _] => destruct b eqn:E end.
    - apply N.eqb_eq in E. exfalso. exact (H ct (or_introl eq_refl) E).
    - apply IH. intros ct' Hct'. apply H. right. exact Hct'.
  Qed.

  Lemma qkids_pairs nr kids : qkids nr (List.map (pair nr) kids) = List.map phi (List.map troot kids).
  Proof.
    unfold qkids. induction kids as [|k kids IH]; [reflexivity|].
    cbn [List.map filter fst snd]. rewrite N.eqb_refl. cbn [List.map snd]. f_equal. exact IH.
  Qed.

  Lemma addkids_nil y i : qkids y [] = [] /\ addkids y [] i = i.
  Proof. split; [reflexivity|]. unfold addkids, set_children. cbn. rewrite app_nil_r. destruct i; reflexivity. Qed.

  Lemma keys_qents y q : In y (keys (qents q)) -> exists x, In x (frefs (List.map snd q)) /\ y = phi x.
  Proof.
    unfold keys. intros H. apply in_map_iff in H. destruct H as [[y' i] [Hy Hin]]. cbn in Hy. subst y'.
    unfold qents in Hin. apply in_flat_map in Hin. destruct Hin as [[cp t] [Hct Hin]]. cbn [fst snd] in Hin.
    apply In_tflat_trefs in Hin. unfold F in Hin. rewrite trefs_tmap in Hin. apply in_map_iff in Hin.
    destruct Hin as [x [Hx Hin]]. exists x. split; [|symmetry; exact Hx].
    apply In_frefs. exists t. split; [|exact Hin]. apply in_map_iff. exists (cp, t). split; [reflexivity|exact Hct].
  Qed.

  Lemma In_frefs_bfs x q : In x (frefs q) -> exists t, In t (bfs_all q) /\ troot t = x.
  Proof.
    intros H. apply (Permutation_in _ (bfs_roots_perm q)) in H. apply in_map_iff in H.
    destruct H as [t [Ht Hin]]. exists t. split; assumption.
  Qed.
End Loop.
