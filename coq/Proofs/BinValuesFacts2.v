(* BinValuesFacts2.v — column round-trip laws (continued from BinValuesFacts.v) for the wire types
   Float64, String (String / BinaryString values; declared String, declared BinaryString, property unknown
   to the database), UDim2, Rect, Vector3int16, Color3uint8 (Color3uint8 values exactly, Color3 values
   through the quantisation of the encoder context), UniqueId and PhysicalProperties.
   Shape of every theorem: for EVERY list of well-formed values (any length) and any trailing bytes [rest],
   enc_col succeeds with some bytes b and dec_col on b ++ rest returns the stated values and exactly [rest]. *)
From Coq Require Import Lia ZifyBool ZifyN.
From RbxVerif Require Import Base Bytes Value Utf8 Utf8Lossy Rotation BrickColor Attr BinValues BytesFacts BinValuesFacts.
Open Scope N_scope.

Local Ltac Zify.zify_post_hook ::= Z.div_mod_to_equations.

(* ------------------------------------------------------------------------------------------ *)
(* 0. helpers                                                                                   *)
(* ------------------------------------------------------------------------------------------ *)

(* a parser that reads back (the image under f of) one encoded item, repeated *)
Lemma prepeat_roundtrip_map {A B} (P : A -> Prop) (enc : A -> bytes) (f : A -> B) (p : parser B) :
  (forall a rest, P a -> p (enc a ++ rest) = Ok (f a, rest)) ->
  forall l rest, Forall P l -> prepeat (length l) p (flat_map enc l ++ rest) = Ok (List.map f l, rest).
Proof.
  intros H. induction l as [|a l IH]; intros rest HF; cbn [length prepeat flat_map List.map].
  - reflexivity.
  - inversion HF as [|? ? Ha Hl]; subst.
    rewrite <- app_assoc. unfold pbind at 1. rewrite (H a _ Ha).
    unfold pbind at 1. rewrite (IH _ Hl). reflexivity.
Qed.

(* the common shape of the interleaved array codecs, with a decoder that maps into another type *)
Lemma array_roundtrip_gen2 {A B} w (enc : A -> bytes) (dec : bytes -> B) (f : A -> B) vs rest :
  (forall v, In v vs -> length (enc v) = w /\ dec (enc v) = f v) ->
  pbind (read_exact (length vs * w))
        (fun buf => pret (List.map dec (deinterleave w (length vs) buf)))
        (interleave w (List.map enc vs) ++ rest)
  = Ok (List.map f vs, rest).
Proof.
  intros H.
  rewrite (pbind_ok_intro _ _ _ (interleave w (List.map enc vs)) rest).
  - unfold pret. f_equal. f_equal.
    rewrite <- (map_length enc vs) at 1.
    rewrite deinterleave_interleave.
    + rewrite map_map. apply map_ext_in. intros v Hv. now apply H.
    + apply Forall_forall. intros r Hr. apply in_map_iff in Hr. destruct Hr as [v [<- Hv]]. now apply H.
  - replace (length vs * w)%nat with (length (interleave w (List.map enc vs)))
      by (rewrite interleave_length, map_length; lia).
    apply read_exact_app.
Qed.

Lemma firstn_app_exact {A} n (a b : list A) : length a = n -> firstn n (a ++ b) = a.
Proof.
  intros <-. induction a as [|x a IH]; cbn [length app firstn].
  - destruct b; reflexivity.
  - now rewrite IH.
Qed.

Lemma skipn_app_exact {A} n (a b : list A) : length a = n -> skipn n (a ++ b) = b.
Proof. intros <-. induction a as [|x a IH]; cbn [length app skipn]; [reflexivity|exact IH]. Qed.

Lemma Forall_map_in {A B} (f : A -> B) (P : A -> Prop) (Q : B -> Prop) l :
  (forall a, P a -> Q (f a)) -> Forall P l -> Forall Q (List.map f l).
Proof.
  intros H HF. apply Forall_forall. intros v Hv. apply in_map_iff in Hv. destruct Hv as [a [<- Ha]].
  apply H. rewrite Forall_forall in HF. auto.
Qed.

(* f64, little endian *)
Lemma f64_lt v : f64_ok v = true -> v < 2 ^ 64.
Proof. unfold f64_ok. intros H. apply N.ltb_lt in H. exact H. Qed.

Lemma read_f64le_app v rest : f64_ok v = true -> read_f64le (w_f64 v ++ rest) = Ok (v, rest).
Proof. intros H. unfold read_f64le, w_f64. apply read_le_app. apply f64_lt in H. exact H. Qed.

(* i16, little endian two's complement *)
Lemma wrap_u16_Z z : Z.of_N (wrap_u 16 z) = (z mod 65536)%Z.
Proof.
  unfold wrap_u. change (2 ^ Z.of_N 16)%Z with 65536%Z.
  rewrite Z2N.id; [reflexivity|]. apply Z.mod_pos_bound. reflexivity.
Qed.
Lemma wrap_s16_Z n : wrap_s 16 n = if N.ltb n 32768 then Z.of_N n else (Z.of_N n - 65536)%Z.
Proof. reflexivity. Qed.
Lemma in_i16_iff z : in_i16 z = true <-> (-32768 <= z < 32768)%Z.
Proof. unfold in_i16. lia. Qed.
Lemma wrap_u16_bound z : wrap_u 16 z < 65536.
Proof. exact (wrap_u_bound 16 z). Qed.
Lemma wrap_roundtrip16 z : in_i16 z = true -> wrap_s 16 (wrap_u 16 z) = z.
Proof.
  rewrite in_i16_iff. intros H. rewrite wrap_s16_Z.
  pose proof (wrap_u16_Z z) as E.
  destruct (N.ltb_spec (wrap_u 16 z) 32768); lia.
Qed.

Lemma read_i16le_app z rest : in_i16 z = true -> read_i16le (w_le_i16 z ++ rest) = Ok (z, rest).
Proof.
  intros H. unfold read_i16le, read_le_i, w_le_i16. unfold pbind at 1.
  rewrite read_le_app by exact (wrap_u16_bound z).
  unfold pret. now rewrite wrap_roundtrip16.
Qed.

(* length-prefixed strings *)
(* the allocation limit of the decoder context allows a request of n bytes *)
Definition alloc_ok (lim : option N) (n : N) : bool :=
  match lim with Some l => N.leb n l | None => true end.

Lemma alloc_ok_none n : alloc_ok None n = true.
Proof. reflexivity. Qed.

Lemma palloc_ok lim n b : alloc_ok lim n = true -> palloc lim n b = Ok (tt, b).
Proof.
  unfold alloc_ok, palloc. destruct lim as [l|]; [|reflexivity].
  intros H. apply N.leb_le in H. destruct (N.ltb_spec l n); [lia|reflexivity].
Qed.

Lemma len32_small {A} (l : list A) : N.of_nat (length l) < 2 ^ 32 -> len32 l = N.of_nat (length l).
Proof. intros H. unfold len32. apply N.mod_small. exact H. Qed.

Lemma take_upto_app s rest : take_upto (N.of_nat (length s)) (s ++ rest) = Ok (s, rest).
Proof.
  unfold take_upto. destruct (N.leb_spec (N.of_nat (length (s ++ rest))) (N.of_nat (length s))) as [Hle|Hgt].
  - rewrite app_length in Hle. assert (Hr : length rest = 0%nat) by lia.
    destruct rest; [|discriminate]. now rewrite app_nil_r.
  - rewrite Nat2N.id. apply read_exact_app.
Qed.

(* what the string-like arms write is read back by read_binary_string *)
Lemma read_bstr_app lim s rest :
  N.of_nat (length s) < 2 ^ 32 -> alloc_ok lim (N.of_nat (length s)) = true ->
  read_bstr lim (w_bstr s ++ rest) = Ok (s, rest).
Proof.
  intros Hl Ha. unfold read_bstr, w_bstr, w_le32. rewrite (len32_small s Hl). rewrite <- app_assoc.
  unfold pbind at 1. rewrite read_le_app by exact Hl.
  unfold pbind at 1. rewrite (palloc_ok _ _ _ Ha).
  apply take_upto_app.
Qed.

(* well-formedness of a byte string for the String wire type under decoder context dc *)
Definition bstr_ok (lim : option N) (s : bytes) : bool :=
  N.ltb (N.of_nat (length s)) 4294967296 && alloc_ok lim (N.of_nat (length s)).

Lemma bstr_ok_spec lim s : bstr_ok lim s = true ->
  N.of_nat (length s) < 2 ^ 32 /\ alloc_ok lim (N.of_nat (length s)) = true.
Proof. unfold bstr_ok. intros H. apply andb_true_iff in H. destruct H as [H1 H2]. apply N.ltb_lt in H1. now split. Qed.

Lemma bstr_ok_nolim s : N.of_nat (length s) < 2 ^ 32 -> bstr_ok None s = true.
Proof. intros H. unfold bstr_ok. apply andb_true_iff. split; [now apply N.ltb_lt|reflexivity]. Qed.

(* UniqueId cell *)
Definition uid_row (p : N * N * Z) : bytes :=
  be_bytes 4 (fst (fst p)) ++ be_bytes 4 (snd (fst p)) ++ be_bytes 8 (rotl64 (i64_bits (snd p))).

Definition uid_ok (p : N * N * Z) : bool :=
  N.ltb (fst (fst p)) 4294967296 && N.ltb (snd (fst p)) 4294967296 && in_i64 (snd p).

Lemma uid_row_length p : length (uid_row p) = 16%nat.
Proof. unfold uid_row. now rewrite !app_length, !be_bytes_length. Qed.

Lemma uid_cell_roundtrip p : uid_ok p = true ->
  VUniqueId (of_be (firstn 4 (uid_row p))) (of_be (firstn 4 (skipn 4 (uid_row p))))
            (wrap_s 64 (rotr64 (of_be (skipn 8 (uid_row p)))))
  = VUniqueId (fst (fst p)) (snd (fst p)) (snd p).
Proof.
  destruct p as [[i t] r]. unfold uid_ok, uid_row. cbn [fst snd]. intros H.
  apply andb_true_iff in H. destruct H as [H Hr]. apply andb_true_iff in H. destruct H as [Hi Ht].
  apply N.ltb_lt in Hi. apply N.ltb_lt in Ht.
  rewrite (firstn_app_exact 4) by apply be_bytes_length.
  rewrite (skipn_app_exact 4) by apply be_bytes_length.
  rewrite (firstn_app_exact 4) by apply be_bytes_length.
  rewrite app_assoc. rewrite (skipn_app_exact 8) by (now rewrite app_length, !be_bytes_length).
  rewrite (be4_roundtrip i Hi), (be4_roundtrip t Ht).
  assert (Hb : i64_bits r < 2 ^ 64) by exact (wrap_u_bound 64 r).
  rewrite be8_roundtrip by exact (rotl64_bound _ Hb).
  rewrite (rot64_roundtrip _ Hb). unfold i64_bits. now rewrite (wrap_roundtrip64 r Hr).
Qed.

(* `f32 as f64` stays a 64-bit pattern *)
Lemma f64_of_f32_ok x : f32_ok x = true -> f64_ok (f64_of_f32 x) = true.
Proof.
  intros H. apply f32_lt in H. change (2 ^ 32) with 4294967296 in H.
  unfold f64_ok. apply N.ltb_lt. unfold f64_of_f32.
  assert (Hs : x / 2147483648 <= 1) by lia.
  assert (Hm : x mod 8388608 < 8388608) by lia.
  assert (He : (x / 8388608) mod 256 < 256) by lia.
  set (sg := x / 2147483648) in *. set (e := (x / 8388608) mod 256) in *. set (m := x mod 8388608) in *.
  cbv zeta.
  destruct (N.eqb_spec e 255) as [E255|E255].
  - destruct (N.eqb_spec m 0) as [M0|M0]; [lia|].
    assert (Hl : N.lor (m * 536870912) 2251799813685248 < 2 ^ 52).
    { destruct (N.eq_dec (N.lor (m * 536870912) 2251799813685248) 0) as [Z0|NZ]; [rewrite Z0; reflexivity|].
      apply N.log2_lt_pow2; [lia|]. rewrite N.log2_lor.
      apply N.max_lub_lt.
      - destruct (N.eq_dec (m * 536870912) 0) as [Z1|NZ1]; [rewrite Z1; reflexivity|].
        apply N.log2_lt_pow2; [lia|]. change (2 ^ 52) with 4503599627370496. lia.
      - reflexivity. }
    change (2 ^ 52) with 4503599627370496 in Hl. lia.
  - destruct (N.eqb_spec e 0) as [E0|E0].
    + destruct (N.eqb_spec m 0) as [M0|M0]; [lia|].
      assert (Hmpos : 0 < m) by lia.
      pose proof (N.log2_spec m Hmpos) as [Hlo Hhi].
      assert (Hk : N.log2 m < 23).
      { apply N.log2_lt_pow2; [exact Hmpos|]. change (2 ^ 23) with 8388608. exact Hm. }
      set (k := N.log2 m) in *.
      assert (Hprod : (m - 2 ^ k) * 2 ^ (52 - k) < 4503599627370496).
      { assert (Hd : m - 2 ^ k < 2 ^ k).
        { rewrite N.pow_succ_r' in Hhi. lia. }
        assert (Hpk : 0 < 2 ^ (52 - k)) by (apply N.neq_0_lt_0, N.pow_nonzero; discriminate).
        apply N.lt_le_trans with (2 ^ k * 2 ^ (52 - k)).
        - apply N.mul_lt_mono_pos_r; assumption.
        - rewrite <- N.pow_add_r. replace (k + (52 - k)) with 52 by lia. reflexivity. }
      assert (Hk2 : (k + 874) * 4503599627370496 <= 896 * 4503599627370496) by lia.
      lia.
    + lia.
Qed.

(* ------------------------------------------------------------------------------------------ *)
(* 1. column round trips                                                                        *)
(* ------------------------------------------------------------------------------------------ *)
Section Columns2.
Variable c : enc_ctx.
Variable dc : dec_ctx.

(* ---- Float64: every f64 bit pattern (NaN payloads, signed zeros, subnormals, infinities) ---- *)
Theorem col_roundtrip_float64 (xs : list f64) rest :
  Forall (fun x => f64_ok x = true) xs ->
  exists b, enc_col WFloat64 c (List.map VFloat64 xs) = Ok b /\
            dec_col WFloat64 VT_Float64 dc (length xs) (b ++ rest) = Ok (List.map VFloat64 xs, rest).
Proof.
  intros H. eexists. split.
  - cbn [enc_col]. rewrite (collect_map _ VFloat64 w_f64) by reflexivity. cbn [rbind].
    rewrite concat_map_flat_map. reflexivity.
  - cbn [dec_col]. rewrite N.eqb_refl.
    apply (prepeat_roundtrip_map (fun x => f64_ok x = true) w_f64 VFloat64); [|exact H].
    intros a r Ha. unfold pbind. rewrite (read_f64le_app _ _ Ha). reflexivity.
Qed.

(* a Float32 value written into a Float64 column (the serializer arm accepts it): read back as the exact
   widening f64_of_f32 *)
Theorem col_widen_float32_in_float64_column (xs : list f32) rest :
  Forall (fun x => f32_ok x = true) xs ->
  exists b, enc_col WFloat64 c (List.map VFloat32 xs) = Ok b /\
            dec_col WFloat64 VT_Float64 dc (length xs) (b ++ rest)
            = Ok (List.map (fun x => VFloat64 (f64_of_f32 x)) xs, rest).
Proof.
  intros H. eexists. split.
  - cbn [enc_col]. rewrite (collect_map _ VFloat32 (fun x => w_f64 (f64_of_f32 x))) by reflexivity. cbn [rbind].
    rewrite concat_map_flat_map. reflexivity.
  - cbn [dec_col]. rewrite N.eqb_refl.
    apply (prepeat_roundtrip_map (fun x => f32_ok x = true) (fun x => w_f64 (f64_of_f32 x))
             (fun x => VFloat64 (f64_of_f32 x))); [|exact H].
    intros a r Ha. unfold pbind. rewrite (read_f64le_app _ _ (f64_of_f32_ok a Ha)). reflexivity.
Qed.

(* ---- String wire type ---- *)
(* the bytes of a column of String values and of BinaryString values are the same length-prefixed blobs *)
Lemma enc_string_col (ss : list bytes) :
  enc_col WString c (List.map VString ss) = Ok (flat_map w_bstr ss).
Proof.
  cbn [enc_col]. rewrite (collect_map _ VString w_bstr) by reflexivity. cbn [rbind].
  now rewrite concat_map_flat_map.
Qed.

Lemma enc_binarystring_col (ss : list bytes) :
  enc_col WString c (List.map VBinaryString ss) = Ok (flat_map w_bstr ss).
Proof.
  cbn [enc_col]. rewrite (collect_map _ VBinaryString w_bstr) by reflexivity. cbn [rbind].
  now rewrite concat_map_flat_map.
Qed.

(* the reader for a property declared String: valid UTF-8 is kept, anything else goes through from_utf8_lossy *)
Definition str_norm (s : bytes) : bytes := if utf8_valid s then s else utf8_lossy s.

Lemma str_norm_valid s : utf8_valid s = true -> str_norm s = s.
Proof. unfold str_norm. now intros ->. Qed.

Lemma dec_string_as_str (ss : list bytes) rest :
  Forall (fun s => bstr_ok (dc_lim dc) s = true) ss ->
  dec_col WString VT_Str dc (length ss) (flat_map w_bstr ss ++ rest)
  = Ok (List.map (fun s => VString (str_norm s)) ss, rest).
Proof.
  intros H. cbn [dec_col]. rewrite N.eqb_refl.
  apply (prepeat_roundtrip_map (fun s => bstr_ok (dc_lim dc) s = true) w_bstr (fun s => VString (str_norm s))); [|exact H].
  intros a r Ha. apply bstr_ok_spec in Ha. destruct Ha as [Hl Ha].
  unfold pbind. rewrite (read_bstr_app _ _ _ Hl Ha). reflexivity.
Qed.

Lemma dec_string_as_binary (ss : list bytes) rest :
  Forall (fun s => bstr_ok (dc_lim dc) s = true) ss ->
  dec_col WString VT_BinaryString dc (length ss) (flat_map w_bstr ss ++ rest)
  = Ok (List.map VBinaryString ss, rest).
Proof.
  intros H. cbn [dec_col].
  replace (N.eqb VT_BinaryString VT_Str) with false by reflexivity.
  replace (N.eqb VT_BinaryString VT_ContentId) with false by reflexivity.
  rewrite N.eqb_refl.
  apply (prepeat_roundtrip_map (fun s => bstr_ok (dc_lim dc) s = true) w_bstr VBinaryString); [|exact H].
  intros a r Ha. apply bstr_ok_spec in Ha. destruct Ha as [Hl Ha].
  unfold pbind. rewrite (read_bstr_app _ _ _ Hl Ha). reflexivity.
Qed.

(* String values of a property declared String: exactly the strings when they are UTF-8; in general the
   reader's normalisation str_norm (from_utf8 or from_utf8_lossy) *)
Theorem col_roundtrip_string_norm (ss : list bytes) rest :
  Forall (fun s => bstr_ok (dc_lim dc) s = true) ss ->
  exists b, enc_col WString c (List.map VString ss) = Ok b /\
            dec_col WString VT_Str dc (length ss) (b ++ rest)
            = Ok (List.map (fun s => VString (str_norm s)) ss, rest).
Proof. intros H. eexists. split; [apply enc_string_col|now apply dec_string_as_str]. Qed.

Theorem col_roundtrip_string (ss : list bytes) rest :
  Forall (fun s => bstr_ok (dc_lim dc) s = true /\ utf8_valid s = true) ss ->
  exists b, enc_col WString c (List.map VString ss) = Ok b /\
            dec_col WString VT_Str dc (length ss) (b ++ rest) = Ok (List.map VString ss, rest).
Proof.
  intros H. eexists. split; [apply enc_string_col|].
  rewrite dec_string_as_str by (eapply Forall_impl; [|exact H]; now intros a [Ha _]).
  f_equal. f_equal. apply map_ext_in. intros a Ha. rewrite Forall_forall in H.
  now rewrite str_norm_valid by (apply H; exact Ha).
Qed.

(* BinaryString values of a property declared BinaryString: every byte string *)
Theorem col_roundtrip_binarystring (ss : list bytes) rest :
  Forall (fun s => bstr_ok (dc_lim dc) s = true) ss ->
  exists b, enc_col WString c (List.map VBinaryString ss) = Ok b /\
            dec_col WString VT_BinaryString dc (length ss) (b ++ rest) = Ok (List.map VBinaryString ss, rest).
Proof. intros H. eexists. split; [apply enc_binarystring_col|now apply dec_string_as_binary]. Qed.

(* String values of a property unknown to the database (find_canonical_property gives the wire type's
   default type, BinaryString): the same bytes come back, retyped as BinaryString *)
Theorem col_string_unknown_property (ss : list bytes) rest :
  Forall (fun s => bstr_ok (dc_lim dc) s = true) ss ->
  exists b, enc_col WString c (List.map VString ss) = Ok b /\
            dec_col WString (to_default_rbx_type WString) dc (length ss) (b ++ rest)
            = Ok (List.map VBinaryString ss, rest).
Proof. intros H. eexists. split; [apply enc_string_col|now apply dec_string_as_binary]. Qed.

(* BinaryString values of a property unknown to the database: unchanged *)
Theorem col_binarystring_unknown_property (ss : list bytes) rest :
  Forall (fun s => bstr_ok (dc_lim dc) s = true) ss ->
  exists b, enc_col WString c (List.map VBinaryString ss) = Ok b /\
            dec_col WString (to_default_rbx_type WString) dc (length ss) (b ++ rest)
            = Ok (List.map VBinaryString ss, rest).
Proof. intros H. eexists. split; [apply enc_binarystring_col|now apply dec_string_as_binary]. Qed.

(* BinaryString values written for a property the database declares String (the serializer's String arm
   accepts them): read back as String through str_norm *)
Theorem col_binarystring_as_string (ss : list bytes) rest :
  Forall (fun s => bstr_ok (dc_lim dc) s = true) ss ->
  exists b, enc_col WString c (List.map VBinaryString ss) = Ok b /\
            dec_col WString VT_Str dc (length ss) (b ++ rest)
            = Ok (List.map (fun s => VString (str_norm s)) ss, rest).
Proof. intros H. eexists. split; [apply enc_binarystring_col|now apply dec_string_as_str]. Qed.

(* ---- UDim2 ---- *)
Definition udim_ok (u : udim) : bool := f32_ok (ud_scale u) && in_i32 (ud_offset u).

Theorem col_roundtrip_udim2 (us : list (udim * udim)) rest :
  Forall (fun p => udim_ok (fst p) = true /\ udim_ok (snd p) = true) us ->
  exists b, enc_col WUDim2 c (List.map (fun p => VUDim2 (fst p) (snd p)) us) = Ok b /\
            dec_col WUDim2 VT_UDim2 dc (length us) (b ++ rest)
            = Ok (List.map (fun p => VUDim2 (fst p) (snd p)) us, rest).
Proof.
  intros H.
  assert (Hsx : Forall (fun v => v < 2 ^ 32) (List.map (fun p : udim * udim => ud_scale (fst p)) us)).
  { eapply Forall_map_f32; [|exact H]. intros a [Ha _]. apply andb_true_iff in Ha. now apply f32_lt. }
  assert (Hsy : Forall (fun v => v < 2 ^ 32) (List.map (fun p : udim * udim => ud_scale (snd p)) us)).
  { eapply Forall_map_f32; [|exact H]. intros a [_ Ha]. apply andb_true_iff in Ha. now apply f32_lt. }
  assert (Hox : Forall (fun v => in_i32 v = true) (List.map (fun p : udim * udim => ud_offset (fst p)) us)).
  { eapply Forall_map_in; [|exact H]. intros a [Ha _]. apply andb_true_iff in Ha. now destruct Ha. }
  assert (Hoy : Forall (fun v => in_i32 v = true) (List.map (fun p : udim * udim => ud_offset (snd p)) us)).
  { eapply Forall_map_in; [|exact H]. intros a [_ Ha]. apply andb_true_iff in Ha. now destruct Ha. }
  eexists. split.
  - cbn [enc_col].
    rewrite (collect_map _ (fun p : udim * udim => VUDim2 (fst p) (snd p)) (fun p => p)).
    + cbn [rbind]. rewrite map_id. reflexivity.
    + intros [x y]. reflexivity.
  - cbn [dec_col]. rewrite N.eqb_refl. unfold pbind.
    rewrite <- (map_length (fun p : udim * udim => ud_scale (fst p)) us) at 1. rewrite <- app_assoc.
    rewrite f32_array_roundtrip by exact Hsx.
    rewrite <- (map_length (fun p : udim * udim => ud_scale (snd p)) us) at 1. rewrite <- app_assoc.
    rewrite f32_array_roundtrip by exact Hsy.
    rewrite <- (map_length (fun p : udim * udim => ud_offset (fst p)) us) at 1. rewrite <- app_assoc.
    rewrite i32_array_roundtrip by exact Hox.
    rewrite <- (map_length (fun p : udim * udim => ud_offset (snd p)) us) at 1.
    rewrite i32_array_roundtrip by exact Hoy.
    unfold pret. f_equal. f_equal.
    rewrite !zip_map, !map_map. rewrite zip_map, map_map. cbn [fst snd].
    apply map_ext. intros [[sx ox] [sy oy]]. reflexivity.
Qed.

(* ---- Rect ---- *)
Theorem col_roundtrip_rect (rs : list (vec2 * vec2)) rest :
  Forall (fun p => vec2_ok (fst p) = true /\ vec2_ok (snd p) = true) rs ->
  exists b, enc_col WRect c (List.map (fun p => VRect (fst p) (snd p)) rs) = Ok b /\
            dec_col WRect VT_Rect dc (length rs) (b ++ rest)
            = Ok (List.map (fun p => VRect (fst p) (snd p)) rs, rest).
Proof.
  intros H.
  assert (Hx0 : Forall (fun v => v < 2 ^ 32) (List.map (fun p : vec2 * vec2 => v2x (fst p)) rs)).
  { eapply Forall_map_f32; [|exact H]. intros a [Ha _]. apply andb_true_iff in Ha. now apply f32_lt. }
  assert (Hy0 : Forall (fun v => v < 2 ^ 32) (List.map (fun p : vec2 * vec2 => v2y (fst p)) rs)).
  { eapply Forall_map_f32; [|exact H]. intros a [Ha _]. apply andb_true_iff in Ha. now apply f32_lt. }
  assert (Hx1 : Forall (fun v => v < 2 ^ 32) (List.map (fun p : vec2 * vec2 => v2x (snd p)) rs)).
  { eapply Forall_map_f32; [|exact H]. intros a [_ Ha]. apply andb_true_iff in Ha. now apply f32_lt. }
  assert (Hy1 : Forall (fun v => v < 2 ^ 32) (List.map (fun p : vec2 * vec2 => v2y (snd p)) rs)).
  { eapply Forall_map_f32; [|exact H]. intros a [_ Ha]. apply andb_true_iff in Ha. now apply f32_lt. }
  eexists. split.
  - cbn [enc_col].
    rewrite (collect_map _ (fun p : vec2 * vec2 => VRect (fst p) (snd p)) (fun p => p)).
    + cbn [rbind]. rewrite map_id. reflexivity.
    + intros [x y]. reflexivity.
  - cbn [dec_col]. rewrite N.eqb_refl. unfold pbind.
    rewrite <- (map_length (fun p : vec2 * vec2 => v2x (fst p)) rs) at 1. rewrite <- app_assoc.
    rewrite f32_array_roundtrip by exact Hx0.
    rewrite <- (map_length (fun p : vec2 * vec2 => v2y (fst p)) rs) at 1. rewrite <- app_assoc.
    rewrite f32_array_roundtrip by exact Hy0.
    rewrite <- (map_length (fun p : vec2 * vec2 => v2x (snd p)) rs) at 1. rewrite <- app_assoc.
    rewrite f32_array_roundtrip by exact Hx1.
    rewrite <- (map_length (fun p : vec2 * vec2 => v2y (snd p)) rs) at 1.
    rewrite f32_array_roundtrip by exact Hy1.
    unfold pret. f_equal. f_equal.
    rewrite !zip_map, !map_map. rewrite zip_map, map_map. cbn [fst snd].
    apply map_ext. intros [[x0 y0] [x1 y1]]. reflexivity.
Qed.

(* ---- Vector3int16 ---- *)
Definition v3i16_ok (p : Z * Z * Z) : bool := in_i16 (fst (fst p)) && in_i16 (snd (fst p)) && in_i16 (snd p).

Theorem col_roundtrip_vector3int16 (ps : list (Z * Z * Z)) rest :
  Forall (fun p => v3i16_ok p = true) ps ->
  exists b, enc_col WVector3int16 c (List.map (fun p => VVector3int16 (fst (fst p)) (snd (fst p)) (snd p)) ps) = Ok b /\
            dec_col WVector3int16 VT_Vector3int16 dc (length ps) (b ++ rest)
            = Ok (List.map (fun p => VVector3int16 (fst (fst p)) (snd (fst p)) (snd p)) ps, rest).
Proof.
  intros H. eexists. split.
  - cbn [enc_col].
    rewrite (collect_map _ (fun p : Z * Z * Z => VVector3int16 (fst (fst p)) (snd (fst p)) (snd p))
               (fun p => w_le_i16 (fst (fst p)) ++ w_le_i16 (snd (fst p)) ++ w_le_i16 (snd p))) by reflexivity.
    cbn [rbind]. rewrite concat_map_flat_map. reflexivity.
  - cbn [dec_col]. rewrite N.eqb_refl.
    apply (prepeat_roundtrip_map (fun p => v3i16_ok p = true)
             (fun p : Z * Z * Z => w_le_i16 (fst (fst p)) ++ w_le_i16 (snd (fst p)) ++ w_le_i16 (snd p))
             (fun p : Z * Z * Z => VVector3int16 (fst (fst p)) (snd (fst p)) (snd p))); [|exact H].
    intros [[x y] z] r Ha. unfold v3i16_ok in Ha. cbn [fst snd] in *.
    apply andb_true_iff in Ha. destruct Ha as [Ha Hz]. apply andb_true_iff in Ha. destruct Ha as [Hx Hy].
    rewrite <- !app_assoc. unfold pbind.
    rewrite (read_i16le_app _ _ Hx). rewrite (read_i16le_app _ _ Hy). rewrite (read_i16le_app _ _ Hz).
    reflexivity.
Qed.

(* ---- Color3uint8 ---- *)
(* a column may mix Color3uint8 values (written as they are) and Color3 values (quantised by the encoder) *)
Inductive c3in := C3u (r g b : N) | C3f (r g b : f32).
Definition c3_value (x : c3in) : value :=
  match x with C3u r g b => VColor3uint8 r g b | C3f r g b => VColor3 r g b end.
Definition c3_quant (q : f32 -> N) (x : c3in) : N * N * N :=
  match x with C3u r g b => (r, g, b) | C3f r g b => (q r, q g, q b) end.
Definition c3_back (q : f32 -> N) (x : c3in) : value :=
  let p := c3_quant q x in VColor3uint8 (fst (fst p)) (snd (fst p)) (snd p).

(* cty: the property is declared Color3, or Color3uint8 (also the type given to a property unknown to the
   database: to_default_rbx_type WColor3uint8 = VT_Color3uint8) *)
Theorem col_roundtrip_color3uint8_mixed (cty : N) (xs : list c3in) rest :
  cty = VT_Color3 \/ cty = VT_Color3uint8 ->
  exists b, enc_col WColor3uint8 c (List.map c3_value xs) = Ok b /\
            dec_col WColor3uint8 cty dc (length xs) (b ++ rest)
            = Ok (List.map (c3_back (ec_quant c)) xs, rest).
Proof.
  intros Hc. eexists. split.
  - cbn [enc_col]. rewrite (collect_map _ c3_value (c3_quant (ec_quant c))).
    + cbn [rbind]. reflexivity.
    + intros [r g b|r g b]; reflexivity.
  - cbn [dec_col].
    replace (N.eqb cty VT_Color3 || N.eqb cty VT_Color3uint8)%bool with true
      by (destruct Hc as [-> | ->]; reflexivity).
    unfold dec_color3uint8_body, pbind.
    set (qs := List.map (c3_quant (ec_quant c)) xs).
    assert (Hlen : length xs = length qs) by (unfold qs; now rewrite map_length).
    rewrite Hlen.
    rewrite <- (map_length (fun p : N * N * N => fst (fst p)) qs) at 1. rewrite <- app_assoc.
    rewrite read_exact_app.
    rewrite <- (map_length (fun p : N * N * N => snd (fst p)) qs) at 1. rewrite <- app_assoc.
    rewrite read_exact_app.
    rewrite <- (map_length (fun p : N * N * N => snd p) qs) at 1.
    rewrite read_exact_app.
    unfold pret. f_equal. f_equal.
    rewrite zip_map. rewrite (zip_map (fun a : N * N * N => (fst (fst a), snd (fst a))) snd). rewrite map_map.
    unfold qs. rewrite map_map. cbn [fst snd]. reflexivity.
Qed.

(* Color3uint8 values: exact, whatever numbers the channels hold *)
Theorem col_roundtrip_color3uint8 (cty : N) (cs : list (N * N * N)) rest :
  cty = VT_Color3 \/ cty = VT_Color3uint8 ->
  exists b, enc_col WColor3uint8 c (List.map (fun p => VColor3uint8 (fst (fst p)) (snd (fst p)) (snd p)) cs) = Ok b /\
            dec_col WColor3uint8 cty dc (length cs) (b ++ rest)
            = Ok (List.map (fun p => VColor3uint8 (fst (fst p)) (snd (fst p)) (snd p)) cs, rest).
Proof.
  intros Hc.
  destruct (col_roundtrip_color3uint8_mixed cty (List.map (fun p : N * N * N => C3u (fst (fst p)) (snd (fst p)) (snd p)) cs) rest Hc)
    as [b [He Hd]].
  rewrite map_map in He. rewrite map_length, map_map in Hd. cbn [c3_value c3_back c3_quant fst snd] in He, Hd.
  exists b. split; assumption.
Qed.

(* Color3 values in a Color3uint8 column: each channel through the context's quantisation ec_quant
   (`impl From<Color3> for Color3uint8`), and retyped Color3uint8 *)
Theorem col_quantise_color3_color3uint8 (cty : N) (cs : list (f32 * f32 * f32)) rest :
  cty = VT_Color3 \/ cty = VT_Color3uint8 ->
  exists b, enc_col WColor3uint8 c (List.map (fun p => VColor3 (fst (fst p)) (snd (fst p)) (snd p)) cs) = Ok b /\
            dec_col WColor3uint8 cty dc (length cs) (b ++ rest)
            = Ok (List.map (fun p => VColor3uint8 (ec_quant c (fst (fst p))) (ec_quant c (snd (fst p))) (ec_quant c (snd p))) cs, rest).
Proof.
  intros Hc.
  destruct (col_roundtrip_color3uint8_mixed cty (List.map (fun p : f32 * f32 * f32 => C3f (fst (fst p)) (snd (fst p)) (snd p)) cs) rest Hc)
    as [b [He Hd]].
  rewrite map_map in He. rewrite map_length, map_map in Hd. cbn [c3_value c3_back c3_quant fst snd] in He, Hd.
  exists b. split; assumption.
Qed.

(* ---- UniqueId: index and time big endian, random rotated left by one bit, the 16-byte rows interleaved ---- *)
Theorem col_roundtrip_uniqueid (us : list (N * N * Z)) rest :
  Forall (fun p => uid_ok p = true) us ->
  exists b, enc_col WUniqueId c (List.map (fun p => VUniqueId (fst (fst p)) (snd (fst p)) (snd p)) us) = Ok b /\
            dec_col WUniqueId VT_UniqueId dc (length us) (b ++ rest)
            = Ok (List.map (fun p => VUniqueId (fst (fst p)) (snd (fst p)) (snd p)) us, rest).
Proof.
  intros H. eexists. split.
  - cbn [enc_col].
    rewrite (collect_map _ (fun p : N * N * Z => VUniqueId (fst (fst p)) (snd (fst p)) (snd p)) uid_row) by reflexivity.
    cbn [rbind]. reflexivity.
  - cbn [dec_col]. rewrite N.eqb_refl.
    apply (array_roundtrip_gen2 16 uid_row
             (fun row => VUniqueId (of_be (firstn 4 row)) (of_be (firstn 4 (skipn 4 row)))
                                   (wrap_s 64 (rotr64 (of_be (skipn 8 row)))))
             (fun p : N * N * Z => VUniqueId (fst (fst p)) (snd (fst p)) (snd p))).
    intros v Hv. split; [apply uid_row_length|].
    rewrite Forall_forall in H. apply uid_cell_roundtrip. now apply H.
Qed.

(* ---- PhysicalProperties: Default = one byte 0; Custom = byte 1 and five little-endian f32 ---- *)
Definition phys_ok (p : physprops) : bool :=
  f32_ok (ph_density p) && f32_ok (ph_friction p) && f32_ok (ph_elasticity p) &&
  f32_ok (ph_friction_weight p) && f32_ok (ph_elasticity_weight p).
Definition physopt_ok (o : option physprops) : bool :=
  match o with Some p => phys_ok p | None => true end.

Definition phys_bytes (o : option physprops) : bytes :=
  match o with
  | Some p => w_u8 1 ++ w_f32 (ph_density p) ++ w_f32 (ph_friction p) ++ w_f32 (ph_elasticity p) ++
              w_f32 (ph_friction_weight p) ++ w_f32 (ph_elasticity_weight p)
  | None => w_u8 0
  end.

Theorem col_roundtrip_physicalproperties (os : list (option physprops)) rest :
  Forall (fun o => physopt_ok o = true) os ->
  exists b, enc_col WPhysicalProperties c (List.map VPhysicalProperties os) = Ok b /\
            dec_col WPhysicalProperties VT_PhysicalProperties dc (length os) (b ++ rest)
            = Ok (List.map VPhysicalProperties os, rest).
Proof.
  intros H. eexists. split.
  - cbn [enc_col]. rewrite (collect_map _ VPhysicalProperties phys_bytes).
    + cbn [rbind]. rewrite concat_map_flat_map. reflexivity.
    + intros [p|]; reflexivity.
  - cbn [dec_col]. rewrite N.eqb_refl.
    apply (prepeat_roundtrip_map (fun o => physopt_ok o = true) phys_bytes VPhysicalProperties); [|exact H].
    intros [p|] r Ha; unfold phys_bytes.
    + cbn [physopt_ok] in Ha. unfold phys_ok in Ha.
      apply andb_true_iff in Ha. destruct Ha as [Ha H5]. apply andb_true_iff in Ha. destruct Ha as [Ha H4].
      apply andb_true_iff in Ha. destruct Ha as [Ha H3]. apply andb_true_iff in Ha. destruct Ha as [H1 H2].
      rewrite <- !app_assoc. unfold pbind at 1. rewrite read_u8_app by reflexivity.
      replace (N.eqb 1 1) with true by reflexivity.
      unfold pbind.
      rewrite (read_f32le_app _ _ H1). rewrite (read_f32le_app _ _ H2). rewrite (read_f32le_app _ _ H3).
      rewrite (read_f32le_app _ _ H4). rewrite (read_f32le_app _ _ H5).
      unfold pret. destruct p; reflexivity.
    + unfold pbind at 1. rewrite read_u8_app by reflexivity.
      replace (N.eqb 0 1) with false by reflexivity. reflexivity.
Qed.

End Columns2.

(* ------------------------------------------------------------------------------------------ *)
(* 2. non-vacuity: the hypotheses hold of non-trivial instances, and the theorems compute there   *)
(* ------------------------------------------------------------------------------------------ *)
Definition dctx_lim8 : dec_ctx := mkDC (fun _ => 0) [] (Some 8).

Example float64_hyp_sat :
  Forall (fun x => f64_ok x = true) [0; 18446744073709551615; 9221120237041090561; 9223372036854775808].
Proof. repeat constructor. Qed.
Example float64_instance :
  enc_then_dec WFloat64 VT_Float64 ectx0 ctx0 (List.map VFloat64 [0; 18446744073709551615; 9221120237041090561; 9223372036854775808])
  = Ok (List.map VFloat64 [0; 18446744073709551615; 9221120237041090561; 9223372036854775808], []).
Proof. vm_compute. reflexivity. Qed.

Example string_hyp_sat :
  Forall (fun s => bstr_ok (dc_lim dctx_lim8) s = true /\ utf8_valid s = true) [[104; 105]; []; [195; 169; 0; 10]].
Proof. repeat constructor. Qed.
Example string_instance :
  enc_then_dec WString VT_Str ectx0 dctx_lim8 (List.map VString [[104; 105]; []; [195; 169; 0; 10]])
  = Ok (List.map VString [[104; 105]; []; [195; 169; 0; 10]], []).
Proof. vm_compute. reflexivity. Qed.
(* the normalisation is not the identity: a String that is not UTF-8 is rewritten by the reader *)
Example string_norm_instance :
  enc_then_dec WString VT_Str ectx0 ctx0 [VString [255; 65]] = Ok ([VString [239; 191; 189; 65]], []).
Proof. vm_compute. reflexivity. Qed.
Example binarystring_hyp_sat : Forall (fun s => bstr_ok (dc_lim ctx0) s = true) [[255; 0; 254]; []].
Proof. repeat constructor. Qed.
Example string_unknown_instance :
  enc_then_dec WString (to_default_rbx_type WString) ectx0 ctx0 [VString [104; 105]; VBinaryString [255]]
  = Ok ([VBinaryString [104; 105]; VBinaryString [255]], []).
Proof. vm_compute. reflexivity. Qed.
(* the allocation-limit hypothesis is needed: a blob longer than the limit is refused *)
Example string_over_limit :
  enc_then_dec WString VT_BinaryString ectx0 dctx_lim8 [VBinaryString [1; 2; 3; 4; 5; 6; 7; 8; 9]] = Err E_ALLOC.
Proof. vm_compute. reflexivity. Qed.

Example udim2_hyp_sat :
  Forall (fun p => udim_ok (fst p) = true /\ udim_ok (snd p) = true)
         [(mkUDim 1065353216 (-5)%Z, mkUDim 4290772993 2147483647%Z); (mkUDim 0 0%Z, mkUDim 2147483648 (-2147483648)%Z)].
Proof. repeat constructor. Qed.
Example rect_hyp_sat :
  Forall (fun p => vec2_ok (fst p) = true /\ vec2_ok (snd p) = true)
         [(mkV2 1 2, mkV2 3 4294967295); (mkV2 2147483648 0, mkV2 5 6)].
Proof. repeat constructor. Qed.
Example vector3int16_hyp_sat : Forall (fun p => v3i16_ok p = true) [((-1)%Z, 2%Z, (-32768)%Z); (32767%Z, 0%Z, 7%Z)].
Proof. repeat constructor. Qed.
Example uniqueid_hyp_sat :
  Forall (fun p => uid_ok p = true) [(1, 2, (-3)%Z); (4294967295, 7, 9223372036854775807%Z); (0, 0, (-9223372036854775808)%Z)].
Proof. repeat constructor. Qed.
Example uniqueid_instance :
  enc_then_dec WUniqueId VT_UniqueId ectx0 ctx0
    [VUniqueId 1 2 (-3)%Z; VUniqueId 4294967295 7 9223372036854775807%Z; VUniqueId 0 0 (-9223372036854775808)%Z]
  = Ok ([VUniqueId 1 2 (-3)%Z; VUniqueId 4294967295 7 9223372036854775807%Z; VUniqueId 0 0 (-9223372036854775808)%Z], []).
Proof. vm_compute. reflexivity. Qed.
Example physprops_hyp_sat :
  Forall (fun o => physopt_ok o = true) [None; Some (mkPhys 1 2 3 4 4294967295); None].
Proof. repeat constructor. Qed.
Example color3uint8_quant_instance :
  enc_then_dec WColor3uint8 VT_Color3 (mkEC (fun _ => None) (fun _ => None) (fun x => x mod 256)) ctx0
    [VColor3uint8 1 2 3; VColor3 511 6 7]
  = Ok ([VColor3uint8 1 2 3; VColor3uint8 255 6 7], []).
Proof. vm_compute. reflexivity. Qed.

(* ------------------------------------------------------------------------------------------ *)
Print Assumptions col_roundtrip_float64.
Print Assumptions col_widen_float32_in_float64_column.
Print Assumptions col_roundtrip_string_norm.
Print Assumptions col_roundtrip_string.
Print Assumptions col_roundtrip_binarystring.
Print Assumptions col_string_unknown_property.
Print Assumptions col_binarystring_unknown_property.
Print Assumptions col_binarystring_as_string.
Print Assumptions col_roundtrip_udim2.
Print Assumptions col_roundtrip_rect.
Print Assumptions col_roundtrip_vector3int16.
Print Assumptions col_roundtrip_color3uint8_mixed.
Print Assumptions col_roundtrip_color3uint8.
Print Assumptions col_quantise_color3_color3uint8.
Print Assumptions col_roundtrip_uniqueid.
Print Assumptions col_roundtrip_physicalproperties.

(* EXPORT: (for Properties/C01.v; all are `forall c dc ...` after the section closes)
     col_roundtrip_float64, col_widen_float32_in_float64_column,
     col_roundtrip_string, col_roundtrip_string_norm, col_roundtrip_binarystring,
     col_string_unknown_property, col_binarystring_unknown_property, col_binarystring_as_string,
     col_roundtrip_udim2, col_roundtrip_rect, col_roundtrip_vector3int16,
     col_roundtrip_color3uint8, col_quantise_color3_color3uint8, col_roundtrip_color3uint8_mixed,
     col_roundtrip_uniqueid, col_roundtrip_physicalproperties
   with the predicates / normalisations they mention defined in this file:
     alloc_ok, bstr_ok (bstr_ok_nolim: without allocation limit it is just length < 2^32), str_norm (str_norm_valid),
     udim_ok, v3i16_ok, c3in / c3_value / c3_back, uid_ok, phys_ok / physopt_ok. *)
