(* BinPostorder.v — the explicit-stack post-order loop of add_instances (serializer/state.rs), as modelled by
   BinFile.add_loop: on non-overlapping roots it visits exactly the post-order of the chosen subtrees
   (ported from notes/prototypes/PostorderLoop.v), and relevant_instances of the serializer state is that
   list whenever add_loop returns Ok. *)
From Coq Require Import List Arith Lia Bool NArith.
From RbxVerif Require Import Base Bytes Value Db CodecDom BinValues BinFile.
Import ListNotations.
Open Scope nat_scope.

Inductive tree := Node (r : N) (cs : list tree).
Definition root (t : tree) := match t with Node r _ => r end.
Definition subs (t : tree) := match t with Node _ cs => cs end.

Fixpoint refs (t : tree) : list N :=
  match t with Node r cs => r :: flat_map refs cs end.
Fixpoint post (t : tree) : list N :=
  match t with Node r cs => flat_map post cs ++ [r] end.
Fixpoint size (t : tree) : nat :=
  match t with Node r cs => S (fold_right (fun c n => size c + n) 0 cs) end.
Definition sizes (ts : list tree) := fold_right (fun c n => size c + n) 0 ts.

Lemma nodup_app_inv {A} (l l' : list A) : NoDup (l ++ l') ->
  NoDup l /\ NoDup l' /\ (forall x, In x l -> ~ In x l').
Proof.
  induction l as [|a l IH]; simpl; intros H.
  - repeat split; auto. constructor.
  - apply NoDup_cons_iff in H. destruct H as [Ha H]. destruct (IH H) as (H1 & H2 & H3).
    repeat split; auto.
    + constructor; auto. intros Hin. apply Ha. apply in_or_app. now left.
    + intros x [->|Hx]; auto. intros Hin. apply Ha. apply in_or_app. now right.
Qed.

Section Loop.
Variable kids : N -> list N.   (* get_by_ref(r).children() *)

Inductive agrees : tree -> Prop :=
| ag r cs : kids r = List.map root cs -> Forall agrees cs -> agrees (Node r cs).

Lemma agrees_unfold r cs : agrees (Node r cs) <-> kids r = List.map root cs /\ Forall agrees cs.
Proof. split. - intros H; inversion H; subst; auto. - intros [H1 H2]; constructor; auto. Qed.

(* mode = true: OUTER loop head; false: INNER loop head.  Stack head = top. *)
Fixpoint run (fuel : nat) (outer : bool) (st : list N) (lv : option N) (out : list N)
  : option (list N) :=
  match fuel with
  | O => None
  | S f =>
    match st with
    | [] => Some out
    | r :: rest =>
      if outer then run f false (kids r ++ st) lv out
      else if negb (is_nil (kids r)) && negb (opt_eqb (last_opt (kids r)) lv)
           then run f true st lv out
           else run f false rest (Some r) (out ++ [r])
    end
  end.

Definition lv_after (ts : list tree) (lv : option N) : option N :=
  match rev ts with [] => lv | t :: _ => Some (root t) end.

Definition fresh (lv : option N) (l : list N) := forall x, lv = Some x -> ~ In x l.

Lemma last_opt_map_root cs c : last_opt (List.map root (cs ++ [c])) = Some (root c).
Proof. unfold last_opt. rewrite List.map_app, rev_app_distr. reflexivity. Qed.

Lemma last_opt_in (l : list N) (x : N) : last_opt l = Some x -> In x l.
Proof. unfold last_opt. destruct (rev l) eqn:E; [discriminate|]. intros [= ->].
  apply in_rev. rewrite E. now left. Qed.

Lemma in_root_refs t : In (root t) (refs t).
Proof. destruct t; simpl; auto. Qed.

Lemma lv_after_last cs lv : cs <> [] -> lv_after cs lv = last_opt (List.map root cs).
Proof.
  intros H. destruct (exists_last H) as (l & c & ->).
  rewrite last_opt_map_root. unfold lv_after. rewrite rev_app_distr. reflexivity.
Qed.

(* One tree from INNER, and a sibling list from INNER, by mutual (nested) induction on size. *)
Lemma run_trees : forall n,
  (forall t, size t <= n -> forall S lv out, agrees t -> NoDup (refs t) -> fresh lv (refs t) ->
     exists f0, f0 <= 3 * size t /\ forall f,
       run (f0 + f) false (root t :: S) lv out = run f false S (Some (root t)) (out ++ post t)) /\
  (forall ts, sizes ts <= n -> forall S lv out, Forall agrees ts -> NoDup (flat_map refs ts) ->
     fresh lv (flat_map refs ts) ->
     exists f0, f0 <= 3 * sizes ts /\ forall f,
       run (f0 + f) false (List.map root ts ++ S) lv out
       = run f false S (lv_after ts lv) (out ++ flat_map post ts)).
Proof.
  induction n as [|n [IHt IHf]].
  - split.
    + intros [r cs] Hs; simpl in Hs; lia.
    + intros [|t ts] Hs S lv out _ _ _.
      * exists 0. split; [simpl; lia|]. intros f. simpl. now rewrite app_nil_r.
      * destruct t; simpl in Hs; lia.
  - assert (Ht : forall t, size t <= S n -> forall S0 lv out, agrees t -> NoDup (refs t) ->
       fresh lv (refs t) -> exists f0, f0 <= 3 * size t /\ forall f,
       run (f0 + f) false (root t :: S0) lv out = run f false S0 (Some (root t)) (out ++ post t)).
    { intros [r cs] Hs S0 lv out Hag Hnd Hfr.
      apply agrees_unfold in Hag. destruct Hag as [Hk Hcs].
      assert (Hsz : sizes cs <= n) by (simpl in Hs; unfold sizes; lia).
      destruct cs as [|c0 cs0].
      - exists 1. split; [simpl; lia|]. intros f. simpl. rewrite Hk. simpl. reflexivity.
      - remember (c0 :: cs0) as cs eqn:Ecs in *.
        assert (Hne : cs <> []) by (rewrite Ecs; discriminate).
        simpl in Hnd. apply NoDup_cons_iff in Hnd. destruct Hnd as [Hr Hnd].
        destruct (IHf cs Hsz (r :: S0) lv out Hcs Hnd) as (f0 & Hf0 & Hrun).
        { intros x Hx Hin. apply (Hfr x Hx). simpl. right. exact Hin. }
        exists (S (S (f0 + 1))). split; [change (size (Node r cs)) with (S (sizes cs)); lia|]. intros f.
        (* INNER test breaks: last child <> lv *)
        cbn [Nat.add run root]. rewrite Hk.
        assert (Hnil : is_nil (List.map root cs) = false) by (rewrite Ecs; reflexivity).
        rewrite Hnil. cbn [negb andb].
        assert (Hneq : opt_eqb (last_opt (List.map root cs)) lv = false).
        { destruct (exists_last Hne) as (l0 & c & El0).
          rewrite El0, last_opt_map_root. destruct lv as [x|]; simpl; auto.
          apply N.eqb_neq. intros E. subst x.
          apply (Hfr (root c) eq_refl). simpl. right. apply in_flat_map. exists c. split.
          - rewrite El0. apply in_or_app. right. now left.
          - apply in_root_refs. }
        rewrite Hneq. cbn [negb].
        (* OUTER pushes children *)
        replace (f0 + 1 + f) with (f0 + (1 + f)) by lia. rewrite Hrun.
        (* back at r with lv = last child *)
        cbn [Nat.add run root]. rewrite Hk, Hnil. cbn [negb andb].
        rewrite (lv_after_last cs lv Hne).
        assert (Heq : opt_eqb (last_opt (List.map root cs)) (last_opt (List.map root cs)) = true).
        { destruct (last_opt (List.map root cs)); simpl; auto. apply N.eqb_refl. }
        rewrite Heq. cbn [negb]. simpl post. rewrite app_assoc. reflexivity. }
    split; [exact Ht|].
    intros [|t ts] Hs S0 lv out Hag Hnd Hfr.
    + exists 0. split; [simpl; lia|]. intros f. simpl. now rewrite app_nil_r.
    + simpl in Hs. inversion Hag as [|? ? Hat Hats]; subst.
      simpl in Hnd. destruct (nodup_app_inv _ _ Hnd) as (Hnd1 & Hnd2 & Hdisj).
      destruct (Ht t ltac:(destruct t; simpl in *; lia) (List.map root ts ++ S0) lv out Hat Hnd1) as (f1 & Hf1 & Hr1).
      { intros x Hx Hin. apply (Hfr x Hx). simpl. apply in_or_app. now left. }
      assert (Hsz : size t >= 1) by (destruct t; simpl; lia).
      destruct (IHf ts ltac:(lia) S0 (Some (root t)) (out ++ post t) Hats Hnd2) as (f2 & Hf2 & Hr2).
      { intros x [= <-] Hin. apply (Hdisj (root t)); auto. apply in_root_refs. }
      exists (f1 + f2). split; [simpl; lia|]. intros f.
      simpl map. simpl app. replace (f1 + f2 + f) with (f1 + (f2 + f)) by lia.
      rewrite Hr1, Hr2. simpl flat_map. rewrite app_assoc.
      f_equal. unfold lv_after. simpl rev.
      destruct (rev ts) eqn:E; simpl; auto.
Qed.

(* Top level: the loop started as in add_instances on non-overlapping roots. *)
Lemma run_done f lv out : run (S f) false [] lv out = Some out.
Proof. reflexivity. Qed.

Theorem postorder_spec ts :
  Forall agrees ts -> NoDup (flat_map refs ts) ->
  run (3 * sizes ts + 3) true (List.map root ts) None [] = Some (flat_map post ts).
Proof.
  intros Hag Hnd. destruct ts as [|[r cs] ts]; [reflexivity|].
  inversion Hag as [|? ? Hat Hats]; subst. apply agrees_unfold in Hat. destruct Hat as [Hk Hcs].
  simpl in Hnd. apply NoDup_cons_iff in Hnd. destruct Hnd as [Hr Hnd].
  destruct (nodup_app_inv _ _ Hnd) as (Hnd1 & Hnd2 & Hdisj).
  destruct (proj2 (run_trees (sizes cs)) cs (le_n _) (r :: List.map root ts) None [] Hcs Hnd1) as (f1 & Hf1 & Hr1).
  { intros x Hx; discriminate. }
  destruct (proj2 (run_trees (sizes ts)) ts (le_n _) [] (Some r) (flat_map post cs ++ [r]) Hats Hnd2) as (f2 & Hf2 & Hr2).
  { intros x [= <-] Hin. apply Hr. apply in_or_app. now right. }
  change (sizes (Node r cs :: ts)) with (S (sizes cs) + sizes ts).
  replace (3 * (S (sizes cs) + sizes ts) + 3) with (S (f1 + (S (f2 + (S (3 * sizes cs - f1 + (3 * sizes ts - f2) + 3)))))) by lia.
  cbn [run List.map root]. rewrite Hk, Hr1. cbn [run].  rewrite Hk.
  assert (Hemit : (negb (is_nil (List.map root cs)) && negb (opt_eqb (last_opt (List.map root cs)) (lv_after cs None)))%bool = false).
  { destruct cs as [|c0 cs0]; [reflexivity|].
    rewrite lv_after_last by discriminate.
    destruct (last_opt (List.map root (c0 :: cs0))); simpl; rewrite ?N.eqb_refl; reflexivity. }
  rewrite Hemit. rewrite app_nil_r in Hr2. simpl app. rewrite Hr2. rewrite run_done. simpl. rewrite <- app_assoc. reflexivity.
Qed.

End Loop.

(* ------------------------------------------------------------------------------------------ *)
(* the model's loop (BinFile.add_loop) against the pure loop                                     *)
(* ------------------------------------------------------------------------------------------ *)
Lemma run_mono kids f : forall outer st lv out r k,
  run kids f outer st lv out = Some r -> run kids (f + k) outer st lv out = Some r.
Proof.
  induction f as [|f IH]; intros outer st lv out r k H; [discriminate|].
  cbn [Nat.add run] in *. destruct st as [|x rest]; [exact H|].
  destruct outer; [now apply IH|].
  destruct (negb (is_nil (kids x)) && negb (opt_eqb (last_opt (kids x)) lv))%bool; now apply IH.
Qed.

Lemma run_prefix kids f : forall outer st lv p out,
  run kids f outer st lv (p ++ out) = option_map (app p) (run kids f outer st lv out).
Proof.
  induction f as [|f IH]; intros outer st lv p out; [reflexivity|].
  cbn [run]. destruct st as [|x rest]; [reflexivity|].
  destruct outer; [apply IH|].
  destruct (negb (is_nil (kids x)) && negb (opt_eqb (last_opt (kids x)) lv))%bool; [apply IH|].
  rewrite <- app_assoc. apply IH.
Qed.

Lemma fold_res_ok_inv {A B} (f : A -> B -> res A) : forall l a r, fold_res f a l = Ok r -> True.
Proof. auto. Qed.

Lemma cti_relevant d st i st' : collect_type_info d st i = Ok st' -> ss_relevant st' = ss_relevant st.
Proof.
  unfold collect_type_info.
  destruct (bfind (i_class i) (ss_types st)) as [ti|].
  - destruct (fold_res _ _ _) as [[ss ti']| | |]; cbn [rbind]; try discriminate. intros [= <-]. reflexivity.
  - destruct (fold_res _ _ _) as [[ss ti']| | |]; cbn [rbind]; try discriminate. intros [= <-]. reflexivity.
Qed.

Lemma add_loop_sim d dom : forall fuel outer stack lv st st',
  add_loop fuel d dom outer stack lv st = Ok st' ->
  run (children_of dom) fuel outer stack lv (ss_relevant st) = Some (ss_relevant st').
Proof.
  induction fuel as [|f IH]; intros outer stack lv st st' H; [discriminate|].
  cbn [add_loop run] in *. destruct stack as [|x rest]; [now injection H as <-|].
  destruct (find_inst dom x) as [inst|]; [|discriminate].
  destruct outer; [now apply IH|].
  destruct (negb (is_nil (children_of dom x)) && negb (opt_eqb (last_opt (children_of dom x)) lv))%bool; [now apply IH|].
  destruct (collect_type_info d _ inst) as [st1| | |] eqn:E; cbn [rbind] in H; try discriminate.
  apply cti_relevant in E. cbn [ss_relevant] in E. rewrite <- E. now apply IH.
Qed.

(* add_instances: whenever the traversal returns, relevant_instances has grown by exactly the
   post-order of the chosen (non-overlapping) subtrees: children before parents, siblings and roots in order *)
Theorem add_loop_postorder d dom ts fuel st st' :
  Forall (agrees (children_of dom)) ts -> NoDup (flat_map refs ts) ->
  add_loop fuel d dom true (List.map root ts) None st = Ok st' ->
  ss_relevant st' = ss_relevant st ++ flat_map post ts.
Proof.
  intros Hag Hnd H. apply add_loop_sim in H.
  pose proof (postorder_spec (children_of dom) ts Hag Hnd) as Hs.
  rewrite <- (app_nil_r (ss_relevant st)) in H. rewrite run_prefix in H.
  apply (run_mono _ _ _ _ _ _ _ fuel) in Hs.
  destruct (run (children_of dom) fuel true (List.map root ts) None []) as [r|] eqn:E; [|discriminate].
  apply (run_mono _ _ _ _ _ _ _ (3 * sizes ts + 3)) in E.
  replace (fuel + (3 * sizes ts + 3)) with (3 * sizes ts + 3 + fuel) in E by lia.
  rewrite E in Hs. injection Hs as ->. cbn [option_map] in H. now injection H as <-.
Qed.

(* and the pure loop never runs out of the fuel 3 * size + 3 *)
Theorem postorder_fuel_suffices dom ts :
  Forall (agrees (children_of dom)) ts -> NoDup (flat_map refs ts) ->
  run (children_of dom) (3 * sizes ts + 3) true (List.map root ts) None [] = Some (flat_map post ts).
Proof. apply postorder_spec. Qed.
