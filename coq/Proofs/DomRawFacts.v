(* DomRawFacts.v — WeakDom::from_raw (dom.into_raw()) is the identity on every well-formed DOM: it does not panic,
   keeps table and root, and rebuilds an id set with exactly the members of the one the DOM maintained — for every
   order in which the table is iterated.  Hence for every DOM any history of operations produces (rep_wf). *)
From RbxVerif Require Import Base Dom DomRaw Tree BaseFacts DomFacts TreeFacts Rep RepWF.
From Coq Require Import Lia Permutation.

(* the `UniqueId` key only ever holds UniqueId values *)
Definition uid_typed (m : map inst) : Prop :=
  forall r i v, In (r, i) m -> lookup UIDKEY (i_props i) = Some v -> exists u, v = PUid u.

(* no two entries of the table hold the same id *)
Definition uids_distinct (m : map inst) : Prop :=
  forall r1 i1 r2 i2 u, In (r1, i1) m -> In (r2, i2) m ->
    get_uid (i_props i1) = Some u -> get_uid (i_props i2) = Some u -> r1 = r2.

Lemma get_uid_spec ps u : get_uid ps = Some u <-> lookup UIDKEY ps = Some (PUid u).
Proof.
  unfold get_uid. destruct (lookup UIDKEY ps) as [[r|u'|v]|]; split; intros H; try discriminate; try congruence.
Qed.

Lemma raw_uids_spec : forall l acc,
  NoDup (keys l) -> uid_typed l -> uids_distinct l ->
  (forall r i u, In (r, i) l -> get_uid (i_props i) = Some u -> mem u acc = false) ->
  exists us, raw_uids l acc = Some us /\
    forall u, mem u us = true <-> (mem u acc = true \/ exists r i, In (r, i) l /\ get_uid (i_props i) = Some u).
Proof.
  induction l as [|[r0 i0] l IH]; intros acc Hnd Hty Hdi Hfresh; cbn [raw_uids].
  - exists acc. split; [reflexivity|]. intros u. split; [auto|]. intros [H|[r [i [[] _]]]]. exact H.
  - cbn [keys List.map fst] in Hnd. inversion Hnd as [|k ks Hnotin Hnd']; subst.
    assert (Hty' : uid_typed l) by (intros r i v Hin; apply (Hty r i v); now right).
    assert (Hdi' : uids_distinct l) by (intros r1 i1 r2 i2 u H1 H2; apply (Hdi r1 i1 r2 i2 u); now right).
    destruct (lookup UIDKEY (i_props i0)) as [v|] eqn:Elk.
    + destruct (Hty r0 i0 v (or_introl eq_refl) Elk) as [u0 ->].
      assert (Hg0 : get_uid (i_props i0) = Some u0) by (now apply get_uid_spec).
      rewrite (Hfresh r0 i0 u0 (or_introl eq_refl) Hg0).
      destruct (IH (sadd u0 acc) Hnd' Hty' Hdi') as [us [Hus Hmem]].
      { intros r i u Hin Hg. rewrite mem_sadd. rewrite (Hfresh r i u (or_intror Hin) Hg), Bool.orb_false_r.
        apply N.eqb_neq. intros ->.
        assert (r = r0) by (apply (Hdi r i r0 i0 u0); [now right|now left|assumption|assumption]). subst r.
        apply Hnotin. change (In (fst (r0, i)) (List.map fst l)). now apply in_map. }
      exists us. split; [exact Hus|]. intros u. rewrite Hmem, mem_sadd. split.
      * intros [H|[r [i [Hin Hg]]]].
        -- apply Bool.orb_true_iff in H. destruct H as [H|H]; [|now left].
           apply N.eqb_eq in H. subst u. right. exists r0, i0. split; [now left|exact Hg0].
        -- right. exists r, i. split; [now right|exact Hg].
      * intros [H|[r [i [[Heq|Hin] Hg]]]].
        -- left. now rewrite H, Bool.orb_true_r.
        -- inversion Heq; subst r i. rewrite Hg0 in Hg. inversion Hg; subst u. left. now rewrite N.eqb_refl.
        -- right. exists r, i. split; assumption.
    + destruct (IH acc Hnd' Hty' Hdi') as [us [Hus Hmem]].
      { intros r i u Hin Hg. apply (Hfresh r i u); [now right|exact Hg]. }
      exists us. split; [exact Hus|]. intros u. rewrite Hmem. split.
      * intros [H|[r [i [Hin Hg]]]]; [now left|]. right. exists r, i. split; [now right|exact Hg].
      * intros [H|[r [i [[Heq|Hin] Hg]]]]; [now left| |].
        -- inversion Heq; subst r i. apply get_uid_spec in Hg. congruence.
        -- right. exists r, i. split; assumption.
Qed.

Lemma In_lookup_nodup {V} (m : map V) k v : NoDup (keys m) -> In (k, v) m -> lookup k m = Some v.
Proof.
  induction m as [|[k' v'] m IH]; intros Hnd Hin; [destruct Hin|].
  cbn [keys List.map fst] in Hnd. inversion Hnd as [|x xs Hnotin Hnd']; subst.
  cbn [lookup]. destruct Hin as [Heq|Hin].
  - inversion Heq; subst. now rewrite N.eqb_refl.
  - destruct (N.eqb k k') eqn:E.
    + apply N.eqb_eq in E. subst k'. exfalso. apply Hnotin. change (In (fst (k, v)) (List.map fst m)). now apply in_map.
    + now apply IH.
Qed.

(* from_raw (into_raw d) for a well-formed DOM whose UniqueId key is typed: Ok, same table, same root, an id set
   with the same members *)
Theorem raw_roundtrip d :
  WF d -> NoDup (keys (d_insts d)) -> uid_typed (d_insts d) ->
  exists us, from_raw (fst (into_raw d)) (snd (into_raw d)) = Ok (mkDom (d_insts d) (d_root d) us) /\
             forall u, mem u us = mem u (d_uids d).
Proof.
  intros [[ri [Hroot _]] [_ [_ [_ [Huniq Hset]]]]] Hnd Hty. unfold from_raw, into_raw. cbn [fst snd].
  unfold has. rewrite Hroot.
  destruct (raw_uids_spec (d_insts d) [] Hnd Hty) as [us [Hus Hmem]].
  - intros r1 i1 r2 i2 u H1 H2. apply Huniq; now apply In_lookup_nodup.
  - reflexivity.
  - exists us. rewrite Hus. split; [reflexivity|]. intros u.
    destruct (mem u us) eqn:E1, (mem u (d_uids d)) eqn:E2; try reflexivity.
    + apply Hmem in E1. destruct E1 as [E1|[r [i [Hin Hg]]]]; [discriminate|].
      assert (mem u (d_uids d) = true) by (apply Hset; exists r, i; split; [now apply In_lookup_nodup|exact Hg]). congruence.
    + apply Hset in E2. destruct E2 as [r [i [Hl Hg]]].
      assert (mem u us = true) by (apply Hmem; right; exists r, i; split; [now apply lookup_In|exact Hg]). congruence.
Qed.

(* for every DOM that represents a forest (hence every DOM any history of operations produces) *)
Corollary raw_roundtrip_rep d a :
  Rep d a -> uid_typed (d_insts d) ->
  exists us, from_raw (d_root d) (d_insts d) = Ok (mkDom (d_insts d) (d_root d) us) /\
             forall u, mem u us = mem u (d_uids d).
Proof.
  intros HR Hty. apply raw_roundtrip; [now apply (rep_wf d a)| |exact Hty].
  destruct HR as [_ [_ [_ [_ [_ [_ [_ H]]]]]]]. exact H.
Qed.

(* the iteration order of the table does not matter for the outcome class nor for the members of the set *)
Corollary raw_order_irrelevant d m' :
  WF d -> NoDup (keys (d_insts d)) -> uid_typed (d_insts d) -> Permutation (d_insts d) m' ->
  exists us, raw_uids m' [] = Some us /\ forall u, mem u us = mem u (d_uids d).
Proof.
  intros HWF Hnd Hty Hp.
  destruct HWF as [_ [_ [_ [_ [Huniq Hset]]]]].
  assert (Hnd' : NoDup (keys m')) by (unfold keys; eapply Permutation_NoDup; [apply Permutation_map; exact Hp|exact Hnd]).
  destruct (raw_uids_spec m' []) as [us [Hus Hmem]]; try assumption.
  - intros r i v Hin. apply (Hty r i v). eapply Permutation_in; [apply Permutation_sym; exact Hp|exact Hin].
  - intros r1 i1 r2 i2 u H1 H2. apply Huniq; apply In_lookup_nodup; try assumption;
      (eapply Permutation_in; [apply Permutation_sym; exact Hp|assumption]).
  - reflexivity.
  - exists us. split; [exact Hus|]. intros u.
    destruct (mem u us) eqn:E1, (mem u (d_uids d)) eqn:E2; try reflexivity.
    + apply Hmem in E1. destruct E1 as [E1|[r [i [Hin Hg]]]]; [discriminate|].
      assert (mem u (d_uids d) = true).
      { apply Hset. exists r, i. split; [|exact Hg]. apply In_lookup_nodup; [exact Hnd|].
        eapply Permutation_in; [apply Permutation_sym; exact Hp|exact Hin]. }
      congruence.
    + apply Hset in E2. destruct E2 as [r [i [Hl Hg]]].
      assert (mem u us = true).
      { apply Hmem. right. exists r, i. split; [|exact Hg]. eapply Permutation_in; [exact Hp|now apply lookup_In]. }
      congruence.
Qed.

(* the two panics are real *)
Example raw_duplicate_panics :
  from_raw 1 [(1, mkInst 0 [2] 0 0 [(UIDKEY, PUid 7)]); (2, mkInst 1 [] 0 0 [(UIDKEY, PUid 7)])] = Panic.
Proof. reflexivity. Qed.
Example raw_mistyped_panics :
  from_raw 1 [(1, mkInst 0 [] 0 0 [(UIDKEY, POther 5)])] = Panic.
Proof. reflexivity. Qed.
Example raw_missing_root_panics : from_raw 9 [(1, mkInst 0 [] 0 0 [])] = Panic.
Proof. reflexivity. Qed.
Example raw_ok :
  from_raw 1 [(1, mkInst 0 [2] 0 0 [(UIDKEY, PUid 7)]); (2, mkInst 1 [] 0 0 [(UIDKEY, PUid 8)])]
  = Ok (mkDom [(1, mkInst 0 [2] 0 0 [(UIDKEY, PUid 7)]); (2, mkInst 1 [] 0 0 [(UIDKEY, PUid 8)])] 1 [8; 7]).
Proof. reflexivity. Qed.
