(* XmlCompound2.v — round trips (write_xml -> event channel -> read_value_xml) of the remaining XML value types:
   Vector2, Color3, Color3uint8, UDim, UDim2, Rect, Vector2int16, Vector3int16, Ray, NumberRange, CFrame, OptionalCFrame,
   Ref, Content, ContentId, NumberSequence, ColorSequence, UniqueId, Font, PhysicalProperties, SecurityCapabilities,
   SharedString, Faces, Axes.
   Method: two small compositional calculi,
     [chan_elems evs revs]  "the writer events [evs] (a non-empty run of complete elements) come out of the channel as [revs]",
     [reads p revs v]       "the reader [p] consumes exactly [revs] and returns [v], whatever follows",
   with rules for leaves, wrapping and sequencing; every per-type theorem is an instance.
   Standard library only. *)
From Coq Require Import List NArith ZArith Bool Lia String.
From RbxVerif Require Import Base Bytes Value Db Hex HexFacts XmlEvents XmlValues XmlFile XmlInt XmlBase64 XmlText XmlCompound.
Import ListNotations.
Open Scope list_scope.
Open Scope N_scope.

(* ------------------------------------------------------------------ the premises on the float-text oracle *)
(* the law of Display/FromStr of f32 used by Properties/C02.v (verbatim the premise of C02_vector3_roundtrip) *)
Definition float_text_law (o : xoracle) : Prop :=
  forall (x : f32) (t : bytes),
     f32_is_nan x = false -> x <> F32_INF -> x <> F32_NINF -> xo_show32 o x = Some t ->
     xo_parse32 o t = Some (Some x) /\ t <> B "INF" /\ t <> B "-INF" /\ t <> B "NAN".

(* ------------------------------------------------------------------ writer side: runs of complete elements *)
Definition chan_elems (evs : list wevent) (revs : list revent) : Prop :=
  forall stack t rest r, chan_go stack t0 rest = Ok r -> chan_go stack t (evs ++ rest) = Ok (flush t ++ revs ++ r).

Lemma chan_elems_leaf tag s : chan_elems (w_elem tag (w_string s)) (RStart tag [] :: text_events s ++ [REnd tag]).
Proof.
  intros stack t rest r Hr. unfold w_elem. cbn [app]. rewrite <- app_assoc. cbn [app].
  rewrite (chan_leaf stack t tag [] s rest r Hr). rewrite <- app_assoc. reflexivity.
Qed.

Lemma chan_elems_app e1 r1 e2 r2 : chan_elems e1 r1 -> chan_elems e2 r2 -> chan_elems (e1 ++ e2) (r1 ++ r2).
Proof.
  intros H1 H2 stack t rest r Hr. rewrite <- app_assoc.
  rewrite (H1 stack t (e2 ++ rest) (r2 ++ r)).
  - rewrite <- app_assoc. reflexivity.
  - rewrite (H2 stack t0 rest r Hr). reflexivity.
Qed.

Lemma chan_elems_wrap tag inner rinner :
  chan_elems inner rinner -> chan_elems (w_elem tag inner) (RStart tag [] :: rinner ++ [REnd tag]).
Proof.
  intros H stack t rest r Hr. unfold w_elem. cbn [app chan_go]. rewrite <- app_assoc. cbn [app].
  rewrite (H (tag :: stack) t0 (WEnd :: rest) (REnd tag :: r)).
  - cbn [rbind flush tbuf t0 app]. rewrite <- app_assoc. reflexivity.
  - cbn [chan_go]. rewrite Hr. reflexivity.
Qed.

Lemma chan_elems_empty tag : chan_elems (w_elem tag []) [RStart tag []; REnd tag].
Proof. intros stack t rest r Hr. unfold w_elem. cbn [app chan_go]. rewrite Hr. reflexivity. Qed.

(* the property element around a run of elements *)
Lemma chan_top tag a evs revs :
  chan_elems evs revs -> chan_go [] t0 (WStart tag a :: evs ++ [WEnd]) = Ok (RStart tag a :: revs ++ [REnd tag]).
Proof.
  intro H. cbn [chan_go]. rewrite (H [tag] t0 [WEnd] [REnd tag]) by reflexivity. reflexivity.
Qed.

(* ------------------------------------------------------------------ reader side *)
Definition nonchar (e : revent) : Prop := match e with RChars _ | RCData _ | RError => False | _ => True end.

(* [p] consumes exactly [revs] *)
Definition reads {A} (p : xrd A) (revs : list revent) (v : A) : Prop := forall rest, p (revs ++ rest) = Ok (v, rest).
(* [p] consumes [revs] when it is followed by something that is not character data (read_characters stops there) *)
Definition reads_until {A} (p : xrd A) (revs : list revent) (v : A) : Prop :=
  forall e rest, nonchar e -> p (revs ++ e :: rest) = Ok (v, e :: rest).

Lemma reads_weaken {A} (p : xrd A) revs v : reads p revs v -> reads_until p revs v.
Proof. intros H e rest _. apply H. Qed.

Lemma reads_ret {A} (v : A) : reads (xret v) [] v.
Proof. intro rest. reflexivity. Qed.

Lemma reads_bind {A C} (p : xrd A) (f : A -> xrd C) r1 v r2 w :
  reads p r1 v -> reads (f v) r2 w -> reads (xbind p f) (r1 ++ r2) w.
Proof. intros H1 H2 rest. unfold xbind. rewrite <- app_assoc, H1. apply H2. Qed.

Lemma reads_bind_until {A C} (p : xrd A) (f : A -> xrd C) r1 v r2 w :
  reads p r1 v -> reads_until (f v) r2 w -> reads_until (xbind p f) (r1 ++ r2) w.
Proof. intros H1 H2 e rest He. unfold xbind. rewrite <- app_assoc, H1. apply H2. exact He. Qed.

Lemma reads_in_tag {A} (tag : string) a (p : xrd A) inner v :
  reads_until p inner v -> reads (x_in_tag tag p) (RStart (B tag) a :: inner ++ [REnd (B tag)]) v.
Proof.
  intros H rest. unfold x_in_tag, xbind, x_expect_start, x_next, xret. cbn [app xbind]. rewrite bytes_eqb_refl.
  rewrite <- app_assoc. cbn [app]. rewrite (H (REnd (B tag)) rest I).
  unfold x_expect_end, xbind, x_next. rewrite bytes_eqb_refl. reflexivity.
Qed.

(* read_characters on written character data *)
Lemma reads_chars s : reads_until x_chars (text_events s) s.
Proof. intros e rest He. unfold x_chars. rewrite (x_chars_text_events s [] e rest He). reflexivity. Qed.

Lemma reads_tag_contents (tag : string) a s :
  reads (x_tag_contents tag) (RStart (B tag) a :: text_events s ++ [REnd (B tag)]) s.
Proof. exact (reads_in_tag tag a x_chars (text_events s) s (reads_chars s)). Qed.

Lemma reads_int {A} (parse : bytes -> option A) s v : parse s = Some v -> reads_until (r_int parse) (text_events s) v.
Proof.
  intros Hp e rest He. unfold r_int, xbind. rewrite (reads_chars s e rest He). rewrite Hp. reflexivity.
Qed.

(* the top of read_value_xml *)
Lemma reads_rv {A} (f : A -> value) (tag : string) a (p : xrd A) inner v :
  reads_until p inner v -> rv f tag p (RStart (B tag) a :: inner ++ [REnd (B tag)]) = Ok (RVal (f v), []).
Proof.
  intro H. unfold rv, outer, xbind.
  pose proof (reads_in_tag tag a p inner v H []) as E. rewrite app_nil_r in E. rewrite E. reflexivity.
Qed.

(* ------------------------------------------------------------------ float leaves (f32::write_xml / f32::read_xml) *)
Definition fleaf (tag : string) (t : bytes) : list revent := RStart (B tag) [] :: text_events t ++ [REnd (B tag)].

Lemma fleaf_leaf_events tag t rest : fleaf tag t ++ rest = leaf_events tag t rest.
Proof. unfold fleaf, leaf_events. cbn [app]. rewrite <- app_assoc. reflexivity. Qed.

Lemma x_chars_fleaf tag t rest : x_chars (fleaf tag t ++ rest) = Ok ([], fleaf tag t ++ rest).
Proof. reflexivity. Qed.

Lemma reads_tag_contents_fleaf (tag : string) s : reads (x_tag_contents tag) (fleaf tag s) s.
Proof. apply reads_tag_contents. Qed.

Section Floats.
  Variable o : xoracle.
  Hypothesis law : float_text_law o.

  Lemma w_f32_tag tag x t : text_f32 o x = Ok t -> xw_f32_tag o tag x = Ok (w_elem (B tag) (w_string t)).
  Proof. intro H. unfold xw_f32_tag, xw_f32. rewrite H. reflexivity. Qed.

  Lemma w_f32_tag_inv tag x evs : xw_f32_tag o tag x = Ok evs -> exists t, text_f32 o x = Ok t /\ evs = w_elem (B tag) (w_string t).
  Proof.
    unfold xw_f32_tag, xw_f32. destruct (text_f32 o x) as [t| | |]; cbn [rbind]; intro H; try discriminate.
    exists t. split; [reflexivity|]. inversion H. reflexivity.
  Qed.

  Lemma chan_fleaf tag t : chan_elems (w_elem (B tag) (w_string t)) (fleaf tag t).
  Proof. apply chan_elems_leaf. Qed.

  Lemma reads_fleaf (tag : string) x t : text_f32 o x = Ok t -> reads (x_in_tag tag (r_f32 o)) (fleaf tag t) (norm_f32 x).
  Proof.
    intros Ht rest. unfold fleaf. cbn [app]. rewrite <- app_assoc. cbn [app].
    exact (r_f32_text_rest o law tag [] x t rest Ht).
  Qed.
End Floats.

(* ------------------------------------------------------------------ the generic round-trip step *)
(* what the channel makes of the events between the start and the end of the property element *)
Definition chan_body (evs : list wevent) (revs : list revent) : Prop :=
  forall tag a, chan_go [] t0 (WStart tag a :: evs ++ [WEnd]) = Ok (RStart tag a :: revs ++ [REnd tag]).

Lemma chan_body_elems evs revs : chan_elems evs revs -> chan_body evs revs.
Proof. intros H tag a. apply chan_top. exact H. Qed.
Lemma chan_body_text s : chan_body (w_string s) (text_events s).
Proof. intros tag a. apply chan_text_element. Qed.
Lemma chan_body_nil : chan_body [] [].
Proof. intros tag a. reflexivity. Qed.

(* the shape of every theorem below: the events the writer produced for [v], sent through the channel inside the property
   element <tag name="..">, are read back by read_value_xml as [v'] with nothing left over *)
Definition xml_value_roundtrip (o : xoracle) (tag : string) (evs : list wevent) (v' : value) : Prop :=
  forall name : bytes,
  exists revs : list revent,
    chan_go [] t0 (WStart (B tag) [(B "name", name)] :: evs ++ [WEnd]) = Ok revs /\
    read_value_xml o (B tag) revs = Ok (RVal v', []).

Lemma roundtrip_step {A} o (f : A -> value) (tag : string) (p : xrd A) evs inner v :
  read_value_xml o (B tag) = rv f tag p ->
  chan_body evs inner -> reads_until p inner v ->
  xml_value_roundtrip o tag evs (f v).
Proof.
  intros Hd Hc Hr name. exists (RStart (B tag) [(B "name", name)] :: inner ++ [REnd (B tag)]).
  split; [apply Hc|]. rewrite Hd. apply reads_rv. exact Hr.
Qed.

Lemma concat_res_cons_inv {A} (r : res (list A)) rest evs :
  concat_res (r :: rest) = Ok evs -> exists a b, r = Ok a /\ concat_res rest = Ok b /\ evs = a ++ b.
Proof.
  cbn [concat_res]. destruct r as [a| | |]; cbn [rbind]; try discriminate.
  destruct (concat_res rest) as [b| | |]; cbn [rbind]; try discriminate.
  intro H. inversion H. exists a, b. repeat split.
Qed.
Lemma some_pair_inv {A C} (a : A) (b c : C) : Some (a, b) = Some (a, c) -> b = c.
Proof. intro H. inversion H. reflexivity. Qed.
Lemma concat_res_nil_inv {A} (evs : list A) : concat_res [] = Ok evs -> evs = [].
Proof. cbn. intro H. inversion H. reflexivity. Qed.
Lemma rbind_ok_inv {A C} (r : res A) (f : A -> res C) c : rbind r f = Ok c -> exists a, r = Ok a /\ f a = Ok c.
Proof. destruct r as [a| | |]; cbn [rbind]; try discriminate. intro H. exists a. split; [reflexivity|exact H]. Qed.

Definition norm_v2 (v : vec2) : vec2 := mkV2 (norm_f32 (v2x v)) (norm_f32 (v2y v)).
Definition norm_v3 (v : vec3) : vec3 := mkV3 (norm_f32 (vx v)) (norm_f32 (vy v)) (norm_f32 (vz v)).

(* invert a successful `concat_res [xw_f32_tag ..; ..]` into the texts of its floats *)
Ltac inv_concat H :=
  repeat match type of H with
  | concat_res (_ :: _) = Ok _ =>
      let a := fresh "a" in let b := fresh "b" in let Ha := fresh "Ha" in let Hb := fresh "Hb" in let E := fresh "E" in
      destruct (concat_res_cons_inv _ _ _ H) as (a & b & Ha & Hb & E); clear H; rename Hb into H; subst
  | concat_res [] = Ok _ => apply concat_res_nil_inv in H; subst
  end.

Ltac inv_bind H a Ha :=
  let H' := fresh in
  destruct (rbind_ok_inv _ _ _ H) as (a & Ha & H'); clear H; rename H' into H; cbv beta in H.
Lemma ok_inj {A} (a b : A) : Ok a = Ok b -> a = b.
Proof. intro H. inversion H. reflexivity. Qed.
Ltac inv_ok H := apply ok_inj in H; match type of H with _ = ?e => subst e end.
(* split a run of elements at the syntactic appends only *)
Ltac chan_seq := repeat lazymatch goal with |- chan_elems (_ ++ _) (_ ++ _) => apply chan_elems_app end.

Section Vectors.
  Variable o : xoracle.
  Hypothesis law : float_text_law o.

  (* ---- Vector2 body (also inside Rect2D) *)
  Definition vec2_events (tx ty : bytes) : list revent := fleaf "X" tx ++ fleaf "Y" ty.

  Lemma w_vec2_inv v evs : w_vec2 o v = Ok evs ->
    exists tx ty, text_f32 o (v2x v) = Ok tx /\ text_f32 o (v2y v) = Ok ty /\
                  evs = w_elem (B "X") (w_string tx) ++ w_elem (B "Y") (w_string ty).
  Proof.
    unfold w_vec2. intro H. inv_concat H.
    destruct (w_f32_tag_inv o _ _ _ Ha) as (tx & Hx & ->). destruct (w_f32_tag_inv o _ _ _ Ha0) as (ty & Hy & ->).
    exists tx, ty. rewrite app_nil_r. repeat split; assumption.
  Qed.

  Lemma chan_vec2 tx ty : chan_elems (w_elem (B "X") (w_string tx) ++ w_elem (B "Y") (w_string ty)) (vec2_events tx ty).
  Proof. apply chan_elems_app; apply chan_fleaf. Qed.

  Lemma reads_vec2 v tx ty : text_f32 o (v2x v) = Ok tx -> text_f32 o (v2y v) = Ok ty ->
    reads (r_vec2 o) (vec2_events tx ty) (norm_v2 v).
  Proof.
    intros Hx Hy rest. unfold r_vec2, vec2_events, xbind. rewrite <- !app_assoc.
    rewrite (reads_fleaf o law "X" _ tx Hx). rewrite (reads_fleaf o law "Y" _ ty Hy). reflexivity.
  Qed.

  (* ---- Vector3 body (inside Ray) *)
  Definition vec3_events (tx ty tz : bytes) : list revent := fleaf "X" tx ++ fleaf "Y" ty ++ fleaf "Z" tz.

  Lemma w_vec3_inv v evs : w_vec3 o v = Ok evs ->
    exists tx ty tz, text_f32 o (vx v) = Ok tx /\ text_f32 o (vy v) = Ok ty /\ text_f32 o (vz v) = Ok tz /\
                  evs = w_elem (B "X") (w_string tx) ++ w_elem (B "Y") (w_string ty) ++ w_elem (B "Z") (w_string tz).
  Proof.
    unfold w_vec3. intro H. inv_concat H.
    destruct (w_f32_tag_inv o _ _ _ Ha) as (tx & Hx & ->). destruct (w_f32_tag_inv o _ _ _ Ha0) as (ty & Hy & ->).
    destruct (w_f32_tag_inv o _ _ _ Ha1) as (tz & Hz & ->).
    exists tx, ty, tz. rewrite app_nil_r. repeat split; assumption.
  Qed.

  Lemma chan_vec3 tx ty tz :
    chan_elems (w_elem (B "X") (w_string tx) ++ w_elem (B "Y") (w_string ty) ++ w_elem (B "Z") (w_string tz)) (vec3_events tx ty tz).
  Proof. unfold vec3_events. chan_seq; apply chan_fleaf. Qed.

  Lemma reads_vec3 v tx ty tz : text_f32 o (vx v) = Ok tx -> text_f32 o (vy v) = Ok ty -> text_f32 o (vz v) = Ok tz ->
    reads (r_vec3 o) (vec3_events tx ty tz) (norm_v3 v).
  Proof.
    intros Hx Hy Hz rest. unfold r_vec3, vec3_events, xbind. rewrite <- !app_assoc.
    rewrite (reads_fleaf o law "X" _ tx Hx). rewrite (reads_fleaf o law "Y" _ ty Hy). rewrite (reads_fleaf o law "Z" _ tz Hz).
    reflexivity.
  Qed.

  (* ---- 1. Vector2 *)
  Theorem vector2_roundtrip v evs :
    write_xml o (VVector2 v) = Some (B "Vector2", Ok evs) ->
    xml_value_roundtrip o "Vector2" evs (VVector2 (norm_v2 v)).
  Proof.
    cbn [write_xml]. intro Hw. apply some_pair_inv in Hw.
    destruct (w_vec2_inv v evs Hw) as (tx & ty & Hx & Hy & ->).
    apply (roundtrip_step o VVector2 "Vector2" (r_vec2 o) _ (vec2_events tx ty)); [reflexivity| |].
    - apply chan_body_elems, chan_vec2.
    - apply reads_weaken, reads_vec2; assumption.
  Qed.
End Vectors.

(* ------------------------------------------------------------------ printable ASCII text is written as Characters *)
Definition printable (t : bytes) : Prop := Forall (fun c => 32 < c < 127) t.

Lemma pr_ws1 c : 32 < c < 127 -> ws1 c = false.
Proof.
  intro H. unfold ws1. replace (c <=? 13) with false by (symmetry; apply N.leb_gt; lia).
  replace (c =? 32) with false by (symmetry; apply N.eqb_neq; lia). rewrite andb_false_r. reflexivity.
Qed.
Lemma pr_ws2 c d : 32 < c < 127 -> ws2 c d = false.
Proof. intro H. unfold ws2. replace (c =? 194) with false by (symmetry; apply N.eqb_neq; lia). reflexivity. Qed.
Lemma pr_ws3 c d e : 32 < c < 127 -> ws3 c d e = false.
Proof.
  intro H. unfold ws3.
  replace (c =? 225) with false by (symmetry; apply N.eqb_neq; lia).
  replace (c =? 226) with false by (symmetry; apply N.eqb_neq; lia).
  replace (c =? 227) with false by (symmetry; apply N.eqb_neq; lia). reflexivity.
Qed.

Lemma printable_no_outer_ws t : printable t -> has_outer_ws t = false.
Proof.
  intro HF. unfold has_outer_ws. apply orb_false_intro.
  - unfold starts_ws. destruct t as [|c r]; [reflexivity|]. inversion HF as [|? ? Hc HFr]; subst.
    cbn [ws_head]. rewrite (pr_ws1 c Hc). destruct r as [|d r2]; [reflexivity|]. rewrite (pr_ws2 c d Hc).
    destruct r2 as [|e r3]; [reflexivity|]. rewrite (pr_ws3 c d e Hc). reflexivity.
  - unfold ends_ws. rewrite frev_rev. apply Forall_rev in HF. destruct (rev t) as [|c r]; [reflexivity|].
    inversion HF as [|? ? Hc HFr]; subst. rewrite (pr_ws1 c Hc). destruct r as [|d r2]; [reflexivity|].
    inversion HFr as [|? ? Hd HFr2]; subst. rewrite (pr_ws2 d c Hd). destruct r2 as [|e r3]; [reflexivity|].
    inversion HFr2 as [|? ? He _]; subst. apply (pr_ws3 e d c He).
Qed.

Lemma printable_w_string t : printable t -> w_string t = [WChars t].
Proof. intro H. unfold w_string. rewrite (printable_no_outer_ws t H). reflexivity. Qed.

Lemma printable_text_events t : printable t -> t <> [] -> text_events t = [RChars t].
Proof. intros H Hne. unfold text_events. destruct t; [congruence|]. rewrite (printable_no_outer_ws _ H). reflexivity. Qed.

Lemma digit_printable c : is_digit c = true -> 32 < c < 127.
Proof. unfold is_digit. intro H. apply andb_prop in H. destruct H as [H1 H2]. apply N.leb_le in H1, H2. lia. Qed.

Lemma dec_of_N_printable n : printable (dec_of_N n).
Proof.
  destruct (dec_of_N_digits n) as [_ HF]. unfold printable. eapply Forall_impl; [|exact HF]. intros c Hc. apply digit_printable. exact Hc.
Qed.

Lemma dec_of_Z_printable z : printable (dec_of_Z z).
Proof.
  destruct z as [|p|p]; cbn [dec_of_Z].
  - repeat constructor; lia.
  - apply dec_of_N_printable.
  - constructor; [lia|apply dec_of_N_printable].
Qed.

(* ------------------------------------------------------------------ integer leaves *)
Lemma reads_ileaf {A} (parse : bytes -> option A) (tag : string) s v :
  parse s = Some v -> reads (x_in_tag tag (r_int parse)) (fleaf tag s) v.
Proof. intro H. apply reads_in_tag. apply reads_int. exact H. Qed.

Lemma chan_ileaf (tag : string) z : chan_elems (w_int_tag tag z) (fleaf tag (dec_of_Z z)).
Proof. apply chan_elems_leaf. Qed.

Definition i16_ok (z : Z) : Prop := (-32768 <= z <= 32767)%Z.
Definition i32_ok (z : Z) : Prop := (-2147483648 <= z <= 2147483647)%Z.

Section Values2.
  Variable o : xoracle.
  Hypothesis law : float_text_law o.

  (* ---- 2. Color3, float form (the writer never uses the packed legacy form the reader also accepts) *)
  Theorem color3_roundtrip r g b evs :
    write_xml o (VColor3 r g b) = Some (B "Color3", Ok evs) ->
    xml_value_roundtrip o "Color3" evs (VColor3 (norm_f32 r) (norm_f32 g) (norm_f32 b)).
  Proof.
    cbn [write_xml]. intro Hw. apply some_pair_inv in Hw. inv_concat Hw.
    destruct (w_f32_tag_inv o _ _ _ Ha) as (tr & Hr & ->). destruct (w_f32_tag_inv o _ _ _ Ha0) as (tg & Hg & ->).
    destruct (w_f32_tag_inv o _ _ _ Ha1) as (tb & Hb & ->). rewrite app_nil_r.
    set (p := (t <~ x_chars ;;
        match t with
        | [] => r <~ x_in_tag "R" (r_f32 o) ;; g <~ x_in_tag "G" (r_f32 o) ;; b <~ x_in_tag "B" (r_f32 o) ;; xret (r, g, b)
        | _ => match parse_u32 t with
               | Some p => let '(r, g, b) := unpack_color p in
                           rf <~ xlift (ask (xo_unit o r)) ;; gf <~ xlift (ask (xo_unit o g)) ;;
                           bf <~ xlift (ask (xo_unit o b)) ;; xret (rf, gf, bf)
               | None => xfail DE_INT
               end
        end) : xrd (f32 * f32 * f32)).
    apply (roundtrip_step o (fun c : f32 * f32 * f32 => let '(r, g, b) := c in VColor3 r g b) "Color3" p _
             (fleaf "R" tr ++ fleaf "G" tg ++ fleaf "B" tb) (norm_f32 r, norm_f32 g, norm_f32 b)); [reflexivity| |].
    - apply chan_body_elems. chan_seq; apply chan_fleaf.
    - apply reads_weaken. intro rest. unfold p, xbind. rewrite <- !app_assoc. rewrite x_chars_fleaf.
      rewrite (reads_fleaf o law "R" _ tr Hr). rewrite (reads_fleaf o law "G" _ tg Hg). rewrite (reads_fleaf o law "B" _ tb Hb).
      reflexivity.
  Qed.

  (* ---- 3. Color3uint8: one decimal number 0xRRGGBB *)
  Lemma unpack_pack r g b : r < 256 -> g < 256 -> b < 256 -> unpack_color (b + g * 256 + r * 65536) = (r, g, b).
  Proof.
    intros Hr Hg Hb. unfold unpack_color.
    assert (E1 : (b + g * 256 + r * 65536) / 65536 = r).
    { replace (b + g * 256 + r * 65536) with ((b + g * 256) + r * 65536) by lia. rewrite N.div_add by lia.
      rewrite N.div_small by lia. reflexivity. }
    assert (E2 : (b + g * 256 + r * 65536) / 256 = g + r * 256).
    { replace (b + g * 256 + r * 65536) with (b + (g + r * 256) * 256) by lia. rewrite N.div_add by lia.
      rewrite N.div_small by lia. reflexivity. }
    assert (E3 : (b + g * 256 + r * 65536) mod 256 = b).
    { replace (b + g * 256 + r * 65536) with (b + (g + r * 256) * 256) by lia. rewrite N.mod_add by lia. apply N.mod_small. lia. }
    rewrite E1, E2, E3. rewrite (N.mod_small r) by lia. rewrite N.mod_add by lia. rewrite (N.mod_small g) by lia. reflexivity.
  Qed.

  Theorem color3uint8_roundtrip r g b evs :
    r < 256 -> g < 256 -> b < 256 ->
    write_xml o (VColor3uint8 r g b) = Some (B "Color3uint8", Ok evs) ->
    xml_value_roundtrip o "Color3uint8" evs (VColor3uint8 r g b).
  Proof.
    intros Hr Hg Hb. cbn [write_xml]. intro Hw. apply some_pair_inv in Hw. injection Hw as <-.
    set (n := b + g * 256 + r * 65536). rewrite <- (printable_w_string _ (dec_of_N_printable n)).
    apply (roundtrip_step o (fun c : N * N * N => let '(r, g, b) := c in VColor3uint8 r g b) "Color3uint8"
             (t <~ x_chars ;; match parse_u32 t with Some p => xret (unpack_color p) | None => xfail DE_INT end)
             _ (text_events (dec_of_N n)) (r, g, b)); [reflexivity|apply chan_body_text|].
    intros e rest He. unfold xbind. rewrite (reads_chars _ e rest He).
    rewrite (parse_u32_dec n) by (unfold n; lia). unfold n. rewrite (unpack_pack r g b Hr Hg Hb). reflexivity.
  Qed.

  (* ---- nested elements *)
  Definition elem (tag : string) (inner : list revent) : list revent := RStart (B tag) [] :: inner ++ [REnd (B tag)].

  Lemma chan_elem (tag : string) inner rinner : chan_elems inner rinner -> chan_elems (w_elem (B tag) inner) (elem tag rinner).
  Proof. apply chan_elems_wrap. Qed.
  Lemma reads_elem {A} (tag : string) (p : xrd A) inner v : reads_until p inner v -> reads (x_in_tag tag p) (elem tag inner) v.
  Proof. apply reads_in_tag. Qed.


  (* ---- 4. UDim *)
  Definition norm_udim (u : udim) : udim := mkUDim (norm_f32 (ud_scale u)) (ud_offset u).

  Theorem udim_roundtrip u evs :
    i32_ok (ud_offset u) ->
    write_xml o (VUDim u) = Some (B "UDim", Ok evs) ->
    xml_value_roundtrip o "UDim" evs (VUDim (norm_udim u)).
  Proof.
    intro Hoff. cbn [write_xml]. intro Hw. apply some_pair_inv in Hw. inv_bind Hw a Ha. inv_ok Hw.
    destruct (w_f32_tag_inv o _ _ _ Ha) as (ts & Hs & ->).
    apply (roundtrip_step o VUDim "UDim"
             (s <~ x_in_tag "S" (r_f32 o) ;; f <~ x_in_tag "O" (r_int parse_i32) ;; xret (mkUDim s f)) _
             (fleaf "S" ts ++ fleaf "O" (dec_of_Z (ud_offset u))) (norm_udim u)); [reflexivity| |].
    - apply chan_body_elems. apply chan_elems_app; [apply chan_fleaf|apply chan_ileaf].
    - apply reads_weaken. intro rest. unfold xbind. rewrite <- !app_assoc.
      rewrite (reads_fleaf o law "S" _ ts Hs). rewrite (reads_ileaf parse_i32 "O" _ _ (parse_i32_dec _ Hoff)). reflexivity.
  Qed.

  (* ---- 5. UDim2 *)
  Theorem udim2_roundtrip x y evs :
    i32_ok (ud_offset x) -> i32_ok (ud_offset y) ->
    write_xml o (VUDim2 x y) = Some (B "UDim2", Ok evs) ->
    xml_value_roundtrip o "UDim2" evs (VUDim2 (norm_udim x) (norm_udim y)).
  Proof.
    intros Hxo Hyo. cbn [write_xml]. intro Hw. apply some_pair_inv in Hw. inv_bind Hw a Ha. inv_bind Hw b Hb. inv_ok Hw.
    destruct (w_f32_tag_inv o _ _ _ Ha) as (txs & Hxs & ->). destruct (w_f32_tag_inv o _ _ _ Hb) as (tys & Hys & ->).
    apply (roundtrip_step o (fun p : udim * udim => VUDim2 (fst p) (snd p)) "UDim2"
             (xs <~ x_in_tag "XS" (r_f32 o) ;; xo <~ x_in_tag "XO" (r_int parse_i32) ;;
              ys <~ x_in_tag "YS" (r_f32 o) ;; yo <~ x_in_tag "YO" (r_int parse_i32) ;;
              xret (mkUDim xs xo, mkUDim ys yo)) _
             (fleaf "XS" txs ++ fleaf "XO" (dec_of_Z (ud_offset x)) ++ fleaf "YS" tys ++ fleaf "YO" (dec_of_Z (ud_offset y)))
             (norm_udim x, norm_udim y)); [reflexivity| |].
    - apply chan_body_elems. chan_seq; first [apply chan_fleaf|apply chan_ileaf].
    - apply reads_weaken. intro rest. unfold xbind. rewrite <- !app_assoc.
      rewrite (reads_fleaf o law "XS" _ txs Hxs). rewrite (reads_ileaf parse_i32 "XO" _ _ (parse_i32_dec _ Hxo)).
      rewrite (reads_fleaf o law "YS" _ tys Hys). rewrite (reads_ileaf parse_i32 "YO" _ _ (parse_i32_dec _ Hyo)). reflexivity.
  Qed.

  (* ---- 6. Rect *)
  Theorem rect_roundtrip lo hi evs :
    write_xml o (VRect lo hi) = Some (B "Rect2D", Ok evs) ->
    xml_value_roundtrip o "Rect2D" evs (VRect (norm_v2 lo) (norm_v2 hi)).
  Proof.
    cbn [write_xml]. intro Hw. apply some_pair_inv in Hw. inv_bind Hw a Ha. inv_bind Hw b Hb. inv_ok Hw.
    destruct (w_vec2_inv o lo a Ha) as (t1 & t2 & H1 & H2 & ->). destruct (w_vec2_inv o hi b Hb) as (t3 & t4 & H3 & H4 & ->).
    apply (roundtrip_step o (fun p : vec2 * vec2 => VRect (fst p) (snd p)) "Rect2D"
             (a <~ x_in_tag "min" (r_vec2 o) ;; b <~ x_in_tag "max" (r_vec2 o) ;; xret (a, b)) _
             (elem "min" (vec2_events t1 t2) ++ elem "max" (vec2_events t3 t4)) (norm_v2 lo, norm_v2 hi)); [reflexivity| |].
    - apply chan_body_elems. apply chan_elems_app; apply chan_elem, chan_vec2.
    - apply reads_weaken. intro rest. unfold xbind. rewrite <- !app_assoc.
      rewrite (reads_elem "min" (r_vec2 o) _ _ (reads_weaken _ _ _ (reads_vec2 o law lo t1 t2 H1 H2))).
      rewrite (reads_elem "max" (r_vec2 o) _ _ (reads_weaken _ _ _ (reads_vec2 o law hi t3 t4 H3 H4))). reflexivity.
  Qed.

  (* ---- Ray (same pattern over Vector3) *)
  Theorem ray_roundtrip orig dir evs :
    write_xml o (VRay orig dir) = Some (B "Ray", Ok evs) ->
    xml_value_roundtrip o "Ray" evs (VRay (norm_v3 orig) (norm_v3 dir)).
  Proof.
    cbn [write_xml]. intro Hw. apply some_pair_inv in Hw. inv_bind Hw a Ha. inv_bind Hw b Hb. inv_ok Hw.
    destruct (w_vec3_inv o orig a Ha) as (t1 & t2 & t3 & H1 & H2 & H3 & ->).
    destruct (w_vec3_inv o dir b Hb) as (t4 & t5 & t6 & H4 & H5 & H6 & ->).
    apply (roundtrip_step o (fun p : vec3 * vec3 => VRay (fst p) (snd p)) "Ray"
             (a <~ x_in_tag "origin" (r_vec3 o) ;; b <~ x_in_tag "direction" (r_vec3 o) ;; xret (a, b)) _
             (elem "origin" (vec3_events t1 t2 t3) ++ elem "direction" (vec3_events t4 t5 t6)) (norm_v3 orig, norm_v3 dir));
      [reflexivity| |].
    - apply chan_body_elems. apply chan_elems_app; apply chan_elem, chan_vec3.
    - apply reads_weaken. intro rest. unfold xbind. rewrite <- !app_assoc.
      rewrite (reads_elem "origin" (r_vec3 o) _ _ (reads_weaken _ _ _ (reads_vec3 o law orig t1 t2 t3 H1 H2 H3))).
      rewrite (reads_elem "direction" (r_vec3 o) _ _ (reads_weaken _ _ _ (reads_vec3 o law dir t4 t5 t6 H4 H5 H6))). reflexivity.
  Qed.

  (* ---- 7. Vector3int16, Vector2int16 *)
  Theorem vector3int16_roundtrip x y z evs :
    i16_ok x -> i16_ok y -> i16_ok z ->
    write_xml o (VVector3int16 x y z) = Some (B "Vector3int16", Ok evs) ->
    xml_value_roundtrip o "Vector3int16" evs (VVector3int16 x y z).
  Proof.
    intros Hx Hy Hz. cbn [write_xml]. intro Hw. apply some_pair_inv in Hw. inv_ok Hw.
    apply (roundtrip_step o (fun p : Z * Z * Z => let '(x, y, z) := p in VVector3int16 x y z) "Vector3int16"
             (x <~ x_in_tag "X" (r_int parse_i16) ;; y <~ x_in_tag "Y" (r_int parse_i16) ;;
              z <~ x_in_tag "Z" (r_int parse_i16) ;; xret (x, y, z)) _
             (fleaf "X" (dec_of_Z x) ++ fleaf "Y" (dec_of_Z y) ++ fleaf "Z" (dec_of_Z z)) (x, y, z)); [reflexivity| |].
    - apply chan_body_elems. chan_seq; apply chan_ileaf.
    - apply reads_weaken. intro rest. unfold xbind. rewrite <- !app_assoc.
      rewrite (reads_ileaf parse_i16 "X" _ _ (parse_i16_dec _ Hx)). rewrite (reads_ileaf parse_i16 "Y" _ _ (parse_i16_dec _ Hy)).
      rewrite (reads_ileaf parse_i16 "Z" _ _ (parse_i16_dec _ Hz)). reflexivity.
  Qed.

  Theorem vector2int16_roundtrip x y evs :
    i16_ok x -> i16_ok y ->
    write_xml o (VVector2int16 x y) = Some (B "Vector2int16", Ok evs) ->
    xml_value_roundtrip o "Vector2int16" evs (VVector2int16 x y).
  Proof.
    intros Hx Hy. cbn [write_xml]. intro Hw. apply some_pair_inv in Hw. inv_ok Hw.
    apply (roundtrip_step o (fun p : Z * Z => VVector2int16 (fst p) (snd p)) "Vector2int16"
             (x <~ x_in_tag "X" (r_int parse_i16) ;; y <~ x_in_tag "Y" (r_int parse_i16) ;; xret (x, y)) _
             (fleaf "X" (dec_of_Z x) ++ fleaf "Y" (dec_of_Z y)) (x, y)); [reflexivity| |].
    - apply chan_body_elems. chan_seq; apply chan_ileaf.
    - apply reads_weaken. intro rest. unfold xbind. rewrite <- !app_assoc.
      rewrite (reads_ileaf parse_i16 "X" _ _ (parse_i16_dec _ Hx)). rewrite (reads_ileaf parse_i16 "Y" _ _ (parse_i16_dec _ Hy)).
      reflexivity.
  Qed.

  (* ---- 14. PhysicalProperties *)
  Lemma reads_bool (b : bool) : reads_until r_bool (text_events (B (if b then "true" else "false"))) b.
  Proof. destruct b; intros e rest He; destruct e; try contradiction; reflexivity. Qed.

  Definition norm_phys (p : option physprops) : option physprops :=
    match p with
    | None => None
    | Some pp => Some (mkPhys (norm_f32 (ph_density pp)) (norm_f32 (ph_friction pp)) (norm_f32 (ph_elasticity pp))
                              (norm_f32 (ph_friction_weight pp)) (norm_f32 (ph_elasticity_weight pp)))
    end.

  Definition r_phys : xrd (option physprops) :=
    c <~ x_in_tag "CustomPhysics" r_bool ;;
    if c then
      d <~ x_in_tag "Density" (r_f32 o) ;; f <~ x_in_tag "Friction" (r_f32 o) ;;
      e <~ x_in_tag "Elasticity" (r_f32 o) ;; fw <~ x_in_tag "FrictionWeight" (r_f32 o) ;;
      ew <~ x_in_tag "ElasticityWeight" (r_f32 o) ;; xret (Some (mkPhys d f e fw ew))
    else xret None.

  Theorem physical_properties_roundtrip p evs :
    write_xml o (VPhysicalProperties p) = Some (B "PhysicalProperties", Ok evs) ->
    xml_value_roundtrip o "PhysicalProperties" evs (VPhysicalProperties (norm_phys p)).
  Proof.
    cbn [write_xml]. intro Hw. apply some_pair_inv in Hw. destruct p as [pp|].
    - inv_bind Hw rest Hrest. inv_ok Hw. inv_concat Hrest.
      destruct (w_f32_tag_inv o _ _ _ Ha) as (t1 & H1 & ->). destruct (w_f32_tag_inv o _ _ _ Ha0) as (t2 & H2 & ->).
      destruct (w_f32_tag_inv o _ _ _ Ha1) as (t3 & H3 & ->). destruct (w_f32_tag_inv o _ _ _ Ha2) as (t4 & H4 & ->).
      destruct (w_f32_tag_inv o _ _ _ Ha3) as (t5 & H5 & ->). rewrite app_nil_r.
      change [WChars (B "true")] with (w_string (B "true")).
      apply (roundtrip_step o VPhysicalProperties "PhysicalProperties" r_phys _
               (fleaf "CustomPhysics" (B "true") ++ fleaf "Density" t1 ++ fleaf "Friction" t2 ++ fleaf "Elasticity" t3
                ++ fleaf "FrictionWeight" t4 ++ fleaf "ElasticityWeight" t5) (norm_phys (Some pp))); [reflexivity| |].
      + apply chan_body_elems. chan_seq; apply chan_fleaf.
      + apply reads_weaken. intro rest. unfold r_phys, xbind. rewrite <- !app_assoc.
        rewrite (reads_elem "CustomPhysics" r_bool _ _ (reads_bool true)).
        rewrite (reads_fleaf o law "Density" _ t1 H1). rewrite (reads_fleaf o law "Friction" _ t2 H2).
        rewrite (reads_fleaf o law "Elasticity" _ t3 H3). rewrite (reads_fleaf o law "FrictionWeight" _ t4 H4).
        rewrite (reads_fleaf o law "ElasticityWeight" _ t5 H5). reflexivity.
    - inv_ok Hw. change [WChars (B "false")] with (w_string (B "false")).
      apply (roundtrip_step o VPhysicalProperties "PhysicalProperties" r_phys _
               (fleaf "CustomPhysics" (B "false")) None); [reflexivity| |].
      + apply chan_body_elems. apply chan_fleaf.
      + apply reads_weaken. intro rest. unfold r_phys, xbind.
        rewrite (reads_elem "CustomPhysics" r_bool _ _ (reads_bool false)). reflexivity.
  Qed.
End Values2.

(* ------------------------------------------------------------------ text-valued types: no float oracle involved *)
Section TextValues.
  Variable o : xoracle.

  (* ---- 16a. SecurityCapabilities *)
  Theorem security_capabilities_roundtrip2 bits evs :
    bits < 18446744073709551616 ->
    write_xml o (VSecurityCapabilities bits) = Some (B "SecurityCapabilities", Ok evs) ->
    xml_value_roundtrip o "SecurityCapabilities" evs (VSecurityCapabilities bits).
  Proof.
    intro Hb. cbn [write_xml]. intro Hw. apply some_pair_inv in Hw. inv_ok Hw.
    apply (roundtrip_step o VSecurityCapabilities "SecurityCapabilities" (r_int parse_u64) _ (text_events (dec_of_N bits)) bits);
      [reflexivity|apply chan_body_text|]. apply reads_int. apply parse_u64_dec. exact Hb.
  Qed.

  (* ---- 12. UniqueId *)
  Theorem unique_id_roundtrip index time random evs :
    index < 2 ^ 32 -> time < 2 ^ 32 -> (- 2 ^ 63 <= random < 2 ^ 63)%Z ->
    write_xml o (VUniqueId index time random) = Some (B "UniqueId", Ok evs) ->
    xml_value_roundtrip o "UniqueId" evs (VUniqueId index time random).
  Proof.
    intros Hi Ht Hr. cbn [write_xml]. intro Hw. apply some_pair_inv in Hw. inv_ok Hw.
    apply (roundtrip_step o (fun u : N * N * Z => let '(index, time, random) := u in VUniqueId index time random) "UniqueId"
             (t <~ x_chars ;;
              match uid_from_str t with
              | Ok u => xret u
              | Err _ => xfail DE_TYPE
              | Panic => fun _ => Panic
              | OutOfFuel => fun _ => OutOfFuel
              end) _ (text_events (uid_display index time random)) (index, time, random));
      [reflexivity|apply chan_body_text|].
    intros e rest He. unfold xbind. rewrite (reads_chars _ e rest He). rewrite (uid_text_roundtrip index time random Hi Ht Hr).
    reflexivity.
  Qed.

  (* ---- 16c. Faces, Axes *)
  Theorem faces_roundtrip bits evs :
    bits < 64 ->
    write_xml o (VFaces bits) = Some (B "Faces", Ok evs) ->
    xml_value_roundtrip o "Faces" evs (VFaces bits).
  Proof.
    intro Hb. cbn [write_xml]. intro Hw. apply some_pair_inv in Hw. inv_ok Hw.
    apply (roundtrip_step o VFaces "Faces"
             (t <~ x_tag_contents "faces" ;;
              match parse_u8 t with
              | Some b => if b <? 64 then xret b else xfail DE_CONTENT
              | None => xfail DE_INT
              end) _ (fleaf "faces" (dec_of_N bits)) bits); [reflexivity| |].
    - apply chan_body_elems. apply chan_elems_leaf.
    - apply reads_weaken. intro rest. unfold xbind. rewrite (reads_tag_contents_fleaf "faces" (dec_of_N bits) rest).
      rewrite (parse_u8_dec bits) by lia. apply N.ltb_lt in Hb. rewrite Hb. reflexivity.
  Qed.

  Theorem axes_roundtrip bits evs :
    bits < 8 ->
    write_xml o (VAxes bits) = Some (B "Axes", Ok evs) ->
    xml_value_roundtrip o "Axes" evs (VAxes bits).
  Proof.
    intro Hb. cbn [write_xml]. intro Hw. apply some_pair_inv in Hw. inv_ok Hw.
    apply (roundtrip_step o VAxes "Axes"
             (t <~ x_tag_contents "axes" ;;
              match parse_u8 t with
              | Some b => if b <? 8 then xret b else xfail DE_CONTENT
              | None => xfail DE_INT
              end) _ (fleaf "axes" (dec_of_N bits)) bits); [reflexivity| |].
    - apply chan_body_elems. apply chan_elems_leaf.
    - apply reads_weaken. intro rest. unfold xbind. rewrite (reads_tag_contents_fleaf "axes" (dec_of_N bits) rest).
      rewrite (parse_u8_dec bits) by lia. apply N.ltb_lt in Hb. rewrite Hb. reflexivity.
  Qed.

  (* ---- 10b. Content, ContentId *)
  Lemma reads_content_null : reads r_content [RStart (B "null") []; REnd (B "null")] CNone.
  Proof. intro rest. reflexivity. Qed.
  Lemma reads_content_uri u : reads r_content (fleaf "uri" u) (CUri u).
  Proof.
    intro rest. unfold r_content, xbind, x_next, fleaf. cbn [app].
    rewrite (eq_refl : bytes_eqb (B "uri") (B "null") = false), (eq_refl : bytes_eqb (B "uri") (B "url") = false),
            (eq_refl : bytes_eqb (B "uri") (B "uri") = true).
    rewrite <- app_assoc. cbn [app]. rewrite (reads_chars u (REnd (B "uri")) rest I). reflexivity.
  Qed.
  Lemma reads_content_inner_null au : reads (r_content_inner au) [RStart (B "null") []; REnd (B "null")] [].
  Proof. intro rest. reflexivity. Qed.
  Lemma reads_content_inner_url au u : reads (r_content_inner au) (fleaf "url" u) u.
  Proof.
    intro rest. unfold r_content_inner, xbind, x_next, fleaf. cbn [app].
    rewrite (eq_refl : bytes_eqb (B "url") (B "null") = false), (eq_refl : bytes_eqb (B "url") (B "url") = true).
    rewrite <- app_assoc. cbn [app]. rewrite (reads_chars u (REnd (B "url")) rest I). reflexivity.
  Qed.

  (* Content::None and Content::Uri(u) for every u (an empty uri stays an empty uri); Content::Object panics the
     writer (content_object_panics in XmlText.v) *)
  Theorem content_roundtrip c evs :
    write_xml o (VContent c) = Some (B "Content", Ok evs) ->
    (match c with CObject _ => False | _ => True end) /\ xml_value_roundtrip o "Content" evs (VContent c).
  Proof.
    destruct c as [|u|r]; cbn [write_xml]; intro Hw; apply some_pair_inv in Hw; [| |discriminate]; inv_ok Hw; (split; [exact I|]).
    - apply (roundtrip_step o VContent "Content" r_content _ [RStart (B "null") []; REnd (B "null")] CNone); [reflexivity| |].
      + apply chan_body_elems. apply chan_elems_empty.
      + apply reads_weaken, reads_content_null.
    - apply (roundtrip_step o VContent "Content" r_content _ (fleaf "uri" u) (CUri u)); [reflexivity| |].
      + apply chan_body_elems. apply chan_elems_leaf.
      + apply reads_weaken, reads_content_uri.
  Qed.

  Theorem content_id_roundtrip u evs :
    write_xml o (VContentId u) = Some (B "ContentId", Ok evs) ->
    xml_value_roundtrip o "ContentId" evs (VContentId u).
  Proof.
    cbn [write_xml]. intro Hw. apply some_pair_inv in Hw. inv_ok Hw. destruct u as [|c u'].
    - apply (roundtrip_step o VContentId "ContentId" (r_content_inner false) _ [RStart (B "null") []; REnd (B "null")] []); [reflexivity| |].
      + apply chan_body_elems. apply chan_elems_empty.
      + apply reads_weaken, reads_content_inner_null.
    - apply (roundtrip_step o VContentId "ContentId" (r_content_inner false) _ (fleaf "url" (c :: u')) (c :: u')); [reflexivity| |].
      + apply chan_body_elems. apply chan_elems_leaf.
      + apply reads_weaken, reads_content_inner_url.
  Qed.
End TextValues.

(* ------------------------------------------------------------------ 10a / 16b. Ref and SharedString: written by write_value_xml (XmlFile.v)
   with the serializer state; what read_value_xml returns is the rewrite request the second pass resolves *)
Section RefShared.
  Variable e : xenv.

  (* Ref::none() is the text `null`, read back as the null referent, i.e. Ref::none() again *)
  Theorem ref_null_roundtrip st pname :
    let evs := WStart (B "Ref") (name_attr pname) :: WChars (B "null") :: [WEnd] in
    let revs := [RStart (B "Ref") (name_attr pname); RChars (B "null"); REnd (B "Ref")] in
    write_value_xml e st pname (VRef 0) = Ok (evs, st) /\
    chan_go [] t0 evs = Ok revs /\
    read_value_xml (xe_o e) (B "Ref") revs = Ok (RRefNull, []) /\
    forall ds id, read_prop_value e ds (B "Ref") id pname revs = Ok ((Some (VRef 0), ds), []).
  Proof. intros evs revs. repeat split. Qed.

  (* any other Ref is written as the decimal number map_id gives it and read back as the request to resolve that text *)
  Theorem ref_written_as_referent st pname r :
    r <> 0 ->
    let id := fst (map_id st r) in
    let evs := WStart (B "Ref") (name_attr pname) :: w_string (dec_of_N id) ++ [WEnd] in
    exists revs,
      write_value_xml e st pname (VRef r) = Ok (evs, snd (map_id st r)) /\
      chan_go [] t0 evs = Ok revs /\
      read_value_xml (xe_o e) (B "Ref") revs = Ok (RRef (dec_of_N id), []).
  Proof.
    intros Hr id evs. exists (outer_events (B "Ref") (name_attr pname) (dec_of_N id)). split; [|split].
    - cbn [write_value_xml]. apply N.eqb_neq in Hr. rewrite Hr. unfold evs, id. destruct (map_id st r). reflexivity.
    - apply chan_text_element.
    - change (read_value_xml (xe_o e) (B "Ref")) with
        (t <~ x_tag_contents "Ref" ;; xret (if bytes_eqb t (B "null") then RRefNull else RRef t)).
      unfold xbind, outer_events.
      pose proof (reads_tag_contents "Ref" (name_attr pname) (dec_of_N id) []) as E. rewrite app_nil_r in E. rewrite E.
      rewrite (bytes_eqb_neq _ _ (dec_of_N_not_null id)). reflexivity.
  Qed.

  (* a SharedString is written as the base64 of the first 16 bytes of its hash (the key of the SharedStrings dictionary,
     where the content goes) and read back as the request to resolve that key *)
  Theorem shared_string_written_as_key st pname c h :
    xe_hash e c = Some h ->
    let key := b64_encode (firstn 16 h) in
    let evs := WStart (B "SharedString") (name_attr pname) :: w_string key ++ [WEnd] in
    exists revs,
      write_value_xml e st pname (VSharedString c) = Ok (evs, mkES (es_map st) (es_next st) (shared_insert h c (es_shared st))) /\
      chan_go [] t0 evs = Ok revs /\
      read_value_xml (xe_o e) (B "SharedString") revs = Ok (RShared key, []).
  Proof.
    intros Hh key evs. exists (outer_events (B "SharedString") (name_attr pname) key). split; [|split].
    - cbn [write_value_xml]. rewrite Hh. reflexivity.
    - apply chan_text_element.
    - change (read_value_xml (xe_o e) (B "SharedString")) with (t <~ x_tag_contents "SharedString" ;; xret (RShared t)).
      unfold xbind, outer_events.
      pose proof (reads_tag_contents "SharedString" (name_attr pname) key []) as E. rewrite app_nil_r in E. rewrite E. reflexivity.
  Qed.
End RefShared.

(* ------------------------------------------------------------------ peeking readers: what follows is the end of the enclosing element *)
Lemma reads_in_tag_end {A} (tag : string) a (p : xrd A) inner v :
  (forall rest, p (inner ++ REnd (B tag) :: rest) = Ok (v, REnd (B tag) :: rest)) ->
  reads (x_in_tag tag p) (RStart (B tag) a :: inner ++ [REnd (B tag)]) v.
Proof.
  intros H rest. unfold x_in_tag, xbind, x_expect_start, x_next, xret. cbn [app xbind]. rewrite bytes_eqb_refl.
  rewrite <- app_assoc. cbn [app]. rewrite (H rest).
  unfold x_expect_end, xbind, x_next. rewrite bytes_eqb_refl. reflexivity.
Qed.

Lemma roundtrip_step_end {A} o (f : A -> value) (tag : string) (p : xrd A) evs inner v :
  read_value_xml o (B tag) = rv f tag p ->
  chan_body evs inner ->
  (forall rest, p (inner ++ REnd (B tag) :: rest) = Ok (v, REnd (B tag) :: rest)) ->
  xml_value_roundtrip o tag evs (f v).
Proof.
  intros Hd Hc Hr name. exists (RStart (B tag) [(B "name", name)] :: inner ++ [REnd (B tag)]).
  split; [apply Hc|]. rewrite Hd. unfold rv, outer, xbind.
  pose proof (reads_in_tag_end tag [(B "name", name)] p inner v Hr []) as E. rewrite app_nil_r in E. rewrite E. reflexivity.
Qed.

(* ------------------------------------------------------------------ floats written with `Display` (write_characters / write_tag_characters) *)
(* The law needed of the oracle on a class [P] of floats: the Display text parses back (FromStr) to the same bits, to the
   canonical NaN for a NaN, and is none of the three spellings f32::read_xml intercepts.  For P = finite non-NaN this is
   the premise of C02_vector3_roundtrip; Rust's Display/FromStr satisfy it for all floats (`inf`, `-inf`, `NaN` parse). *)
Definition display_law (o : xoracle) (P : f32 -> Prop) : Prop :=
  forall (x : f32) (t : bytes), P x -> xo_show32 o x = Some t ->
    xo_parse32 o t = Some (Some (norm_f32 x)) /\ t <> B "INF" /\ t <> B "-INF" /\ t <> B "NAN".

Definition finite32 (x : f32) : Prop := f32_is_nan x = false /\ x <> F32_INF /\ x <> F32_NINF.
Definition all32 (x : f32) : Prop := True.

Lemma norm_f32_finite x : finite32 x -> norm_f32 x = x.
Proof. intros (H & _). unfold norm_f32. rewrite H. reflexivity. Qed.

Lemma float_law_display o : float_text_law o -> display_law o finite32.
Proof. intros law x t Hx Hs. rewrite (norm_f32_finite x Hx). destruct Hx as (H1 & H2 & H3). exact (law x t H1 H2 H3 Hs). Qed.

Definition P_v3 (P : f32 -> Prop) (v : vec3) : Prop := P (vx v) /\ P (vy v) /\ P (vz v).
Definition P_cf (P : f32 -> Prop) (c : cframe) : Prop :=
  P_v3 P (cf_pos c) /\ P_v3 P (mx (cf_rot c)) /\ P_v3 P (my (cf_rot c)) /\ P_v3 P (mz (cf_rot c)).
Definition norm_cf (c : cframe) : cframe :=
  mkCF (norm_v3 (cf_pos c)) (mkM3 (norm_v3 (mx (cf_rot c))) (norm_v3 (my (cf_rot c))) (norm_v3 (mz (cf_rot c)))).

Section Display.
  Variable o : xoracle.
  Variable P : f32 -> Prop.
  Hypothesis dlaw : display_law o P.

  Lemma w_display_inv x evs : xw_f32_display o x = Ok evs -> exists t, xo_show32 o x = Some t /\ evs = w_string t.
  Proof.
    unfold xw_f32_display, ask. destruct (xo_show32 o x) as [t|]; cbn [rbind]; intro H; [|discriminate].
    exists t. split; [reflexivity|]. apply ok_inj in H. symmetry. exact H.
  Qed.
  Lemma w_display_tag_inv tag x evs :
    xw_f32_display_tag o tag x = Ok evs -> exists t, xo_show32 o x = Some t /\ evs = w_elem (B tag) (w_string t).
  Proof.
    unfold xw_f32_display_tag. intro H. inv_bind H e0 He. inv_ok H. destruct (w_display_inv x e0 He) as (t & Hs & ->).
    exists t. split; [exact Hs|reflexivity].
  Qed.

  Lemma reads_display x t : P x -> xo_show32 o x = Some t -> reads_until (r_f32 o) (text_events t) (norm_f32 x).
  Proof.
    intros Hx Hs e rest He. unfold r_f32, xbind. rewrite (reads_chars t e rest He).
    destruct (dlaw x t Hx Hs) as (Hp & N1 & N2 & N3).
    rewrite (bytes_eqb_neq _ _ N1), (bytes_eqb_neq _ _ N2), (bytes_eqb_neq _ _ N3).
    unfold xlift, ask. rewrite Hp. reflexivity.
  Qed.
  Lemma reads_dleaf (tag : string) x t : P x -> xo_show32 o x = Some t -> reads (x_in_tag tag (r_f32 o)) (fleaf tag t) (norm_f32 x).
  Proof. intros Hx Hs. apply reads_in_tag. apply reads_display; assumption. Qed.

  (* ---- 9. CFrame: twelve Display-text leaves *)
  Definition cf_events (t1 t2 t3 t4 t5 t6 t7 t8 t9 t10 t11 t12 : bytes) : list revent :=
    fleaf "X" t1 ++ fleaf "Y" t2 ++ fleaf "Z" t3 ++ fleaf "R00" t4 ++ fleaf "R01" t5 ++ fleaf "R02" t6 ++
    fleaf "R10" t7 ++ fleaf "R11" t8 ++ fleaf "R12" t9 ++ fleaf "R20" t10 ++ fleaf "R21" t11 ++ fleaf "R22" t12.
  Definition cf_wevents (t1 t2 t3 t4 t5 t6 t7 t8 t9 t10 t11 t12 : bytes) : list wevent :=
    w_elem (B "X") (w_string t1) ++ w_elem (B "Y") (w_string t2) ++ w_elem (B "Z") (w_string t3) ++
    w_elem (B "R00") (w_string t4) ++ w_elem (B "R01") (w_string t5) ++ w_elem (B "R02") (w_string t6) ++
    w_elem (B "R10") (w_string t7) ++ w_elem (B "R11") (w_string t8) ++ w_elem (B "R12") (w_string t9) ++
    w_elem (B "R20") (w_string t10) ++ w_elem (B "R21") (w_string t11) ++ w_elem (B "R22") (w_string t12).

  Lemma w_cframe_inv c evs : w_cframe o c = Ok evs ->
    exists t1 t2 t3 t4 t5 t6 t7 t8 t9 t10 t11 t12,
      (xo_show32 o (vx (cf_pos c)) = Some t1 /\ xo_show32 o (vy (cf_pos c)) = Some t2 /\ xo_show32 o (vz (cf_pos c)) = Some t3) /\
      (xo_show32 o (vx (mx (cf_rot c))) = Some t4 /\ xo_show32 o (vy (mx (cf_rot c))) = Some t5 /\ xo_show32 o (vz (mx (cf_rot c))) = Some t6) /\
      (xo_show32 o (vx (my (cf_rot c))) = Some t7 /\ xo_show32 o (vy (my (cf_rot c))) = Some t8 /\ xo_show32 o (vz (my (cf_rot c))) = Some t9) /\
      (xo_show32 o (vx (mz (cf_rot c))) = Some t10 /\ xo_show32 o (vy (mz (cf_rot c))) = Some t11 /\ xo_show32 o (vz (mz (cf_rot c))) = Some t12) /\
      evs = cf_wevents t1 t2 t3 t4 t5 t6 t7 t8 t9 t10 t11 t12.
  Proof.
    unfold w_cframe. cbv zeta. intro H. inv_concat H.
    destruct (w_display_tag_inv _ _ _ Ha) as (t1 & H1 & ->). destruct (w_display_tag_inv _ _ _ Ha0) as (t2 & H2 & ->).
    destruct (w_display_tag_inv _ _ _ Ha1) as (t3 & H3 & ->). destruct (w_display_tag_inv _ _ _ Ha2) as (t4 & H4 & ->).
    destruct (w_display_tag_inv _ _ _ Ha3) as (t5 & H5 & ->). destruct (w_display_tag_inv _ _ _ Ha4) as (t6 & H6 & ->).
    destruct (w_display_tag_inv _ _ _ Ha5) as (t7 & H7 & ->). destruct (w_display_tag_inv _ _ _ Ha6) as (t8 & H8 & ->).
    destruct (w_display_tag_inv _ _ _ Ha7) as (t9 & H9 & ->). destruct (w_display_tag_inv _ _ _ Ha8) as (t10 & H10 & ->).
    destruct (w_display_tag_inv _ _ _ Ha9) as (t11 & H11 & ->). destruct (w_display_tag_inv _ _ _ Ha10) as (t12 & H12 & ->).
    exists t1, t2, t3, t4, t5, t6, t7, t8, t9, t10, t11, t12. rewrite app_nil_r. repeat split; assumption.
  Qed.

  Lemma chan_cframe t1 t2 t3 t4 t5 t6 t7 t8 t9 t10 t11 t12 :
    chan_elems (cf_wevents t1 t2 t3 t4 t5 t6 t7 t8 t9 t10 t11 t12) (cf_events t1 t2 t3 t4 t5 t6 t7 t8 t9 t10 t11 t12).
  Proof. unfold cf_wevents, cf_events. chan_seq; apply chan_fleaf. Qed.

  Lemma reads_cframe c t1 t2 t3 t4 t5 t6 t7 t8 t9 t10 t11 t12 :
    P_cf P c ->
    (xo_show32 o (vx (cf_pos c)) = Some t1 /\ xo_show32 o (vy (cf_pos c)) = Some t2 /\ xo_show32 o (vz (cf_pos c)) = Some t3) ->
    (xo_show32 o (vx (mx (cf_rot c))) = Some t4 /\ xo_show32 o (vy (mx (cf_rot c))) = Some t5 /\ xo_show32 o (vz (mx (cf_rot c))) = Some t6) ->
    (xo_show32 o (vx (my (cf_rot c))) = Some t7 /\ xo_show32 o (vy (my (cf_rot c))) = Some t8 /\ xo_show32 o (vz (my (cf_rot c))) = Some t9) ->
    (xo_show32 o (vx (mz (cf_rot c))) = Some t10 /\ xo_show32 o (vy (mz (cf_rot c))) = Some t11 /\ xo_show32 o (vz (mz (cf_rot c))) = Some t12) ->
    reads (r_cframe o) (cf_events t1 t2 t3 t4 t5 t6 t7 t8 t9 t10 t11 t12) (norm_cf c).
  Proof.
    intros ((P1 & P2 & P3) & (P4 & P5 & P6) & (P7 & P8 & P9) & (P10 & P11 & P12))
           (H1 & H2 & H3) (H4 & H5 & H6) (H7 & H8 & H9) (H10 & H11 & H12) rest.
    unfold r_cframe, cf_events, xbind. rewrite <- !app_assoc.
    rewrite (reads_dleaf "X" _ t1 P1 H1), (reads_dleaf "Y" _ t2 P2 H2), (reads_dleaf "Z" _ t3 P3 H3).
    rewrite (reads_dleaf "R00" _ t4 P4 H4), (reads_dleaf "R01" _ t5 P5 H5), (reads_dleaf "R02" _ t6 P6 H6).
    rewrite (reads_dleaf "R10" _ t7 P7 H7), (reads_dleaf "R11" _ t8 P8 H8), (reads_dleaf "R12" _ t9 P9 H9).
    rewrite (reads_dleaf "R20" _ t10 P10 H10), (reads_dleaf "R21" _ t11 P11 H11), (reads_dleaf "R22" _ t12 P12 H12).
    reflexivity.
  Qed.

  Theorem cframe_roundtrip_on c evs :
    P_cf P c ->
    write_xml o (VCFrame c) = Some (B "CoordinateFrame", Ok evs) ->
    xml_value_roundtrip o "CoordinateFrame" evs (VCFrame (norm_cf c)).
  Proof.
    intro HP. cbn [write_xml]. intro Hw. apply some_pair_inv in Hw.
    destruct (w_cframe_inv c evs Hw) as (t1 & t2 & t3 & t4 & t5 & t6 & t7 & t8 & t9 & t10 & t11 & t12 & Ha & Hb & Hc & Hd & ->).
    apply (roundtrip_step o VCFrame "CoordinateFrame" (r_cframe o) _ (cf_events t1 t2 t3 t4 t5 t6 t7 t8 t9 t10 t11 t12) (norm_cf c));
      [reflexivity| |].
    - apply chan_body_elems, chan_cframe.
    - apply reads_weaken. apply reads_cframe; assumption.
  Qed.

  (* ---- 15. OptionalCFrame *)
  Definition r_opt_cframe : xrd (option cframe) :=
    e <~ x_peek ;;
    match e with
    | RStart n _ => if bytes_eqb n (B "CFrame") then c <~ x_in_tag "CFrame" (r_cframe o) ;; xret (Some c) else xret None
    | _ => xret None
    end.

  Theorem optional_cframe_roundtrip_on c evs :
    (match c with Some cf => P_cf P cf | None => True end) ->
    write_xml o (VOptionalCFrame c) = Some (B "OptionalCoordinateFrame", Ok evs) ->
    xml_value_roundtrip o "OptionalCoordinateFrame" evs (VOptionalCFrame (option_map norm_cf c)).
  Proof.
    intro HP. cbn [write_xml]. intro Hw. apply some_pair_inv in Hw. destruct c as [cf|].
    - inv_bind Hw e0 He. inv_ok Hw.
      destruct (w_cframe_inv cf e0 He) as (t1 & t2 & t3 & t4 & t5 & t6 & t7 & t8 & t9 & t10 & t11 & t12 & Ha & Hb & Hc & Hd & ->).
      apply (roundtrip_step o VOptionalCFrame "OptionalCoordinateFrame" r_opt_cframe _
               (elem "CFrame" (cf_events t1 t2 t3 t4 t5 t6 t7 t8 t9 t10 t11 t12)) (Some (norm_cf cf))); [reflexivity| |].
      + apply chan_body_elems. apply chan_elem, chan_cframe.
      + apply reads_weaken. intro rest. unfold r_opt_cframe, xbind. unfold elem at 1. cbn [app x_peek].
        rewrite (eq_refl : bytes_eqb (B "CFrame") (B "CFrame") = true).
        change (RStart (B "CFrame") [] :: (cf_events t1 t2 t3 t4 t5 t6 t7 t8 t9 t10 t11 t12 ++ [REnd (B "CFrame")]) ++ rest)
          with (elem "CFrame" (cf_events t1 t2 t3 t4 t5 t6 t7 t8 t9 t10 t11 t12) ++ rest).
        rewrite (reads_elem "CFrame" (r_cframe o) _ _ (reads_weaken _ _ _ (reads_cframe cf _ _ _ _ _ _ _ _ _ _ _ _ HP Ha Hb Hc Hd))).
        reflexivity.
    - inv_ok Hw.
      apply (roundtrip_step_end o VOptionalCFrame "OptionalCoordinateFrame" r_opt_cframe [] [] None); [reflexivity|apply chan_body_nil|].
      intro rest. reflexivity.
  Qed.
End Display.

Lemma norm_v3_finite v : P_v3 finite32 v -> norm_v3 v = v.
Proof. destruct v as [x y z]. intros (H1 & H2 & H3). cbn in *. unfold norm_v3. cbn. rewrite !norm_f32_finite by assumption. reflexivity. Qed.
Lemma norm_cf_finite c : P_cf finite32 c -> norm_cf c = c.
Proof.
  destruct c as [p [r0 r1 r2]]. intros (H1 & H2 & H3 & H4). cbn in *. unfold norm_cf. cbn.
  rewrite !norm_v3_finite by assumption. reflexivity.
Qed.

(* CFrame, under the premise of C02_vector3_roundtrip alone: every CFrame whose twelve components are finite comes back
   bit-exactly *)
Theorem cframe_roundtrip_finite o c evs :
  float_text_law o -> P_cf finite32 c ->
  write_xml o (VCFrame c) = Some (B "CoordinateFrame", Ok evs) ->
  xml_value_roundtrip o "CoordinateFrame" evs (VCFrame c).
Proof.
  intros law HP Hw. rewrite <- (norm_cf_finite c HP).
  exact (cframe_roundtrip_on o finite32 (float_law_display o law) c evs HP Hw).
Qed.

(* CFrame, all values: needs the Display/FromStr law for the non-finite floats too (their Display texts `inf`, `-inf`, `NaN`
   are not the INF / -INF / NAN of the format, but f32::read_xml falls through to FromStr, which accepts them) *)
Theorem cframe_roundtrip_all o c evs :
  display_law o all32 ->
  write_xml o (VCFrame c) = Some (B "CoordinateFrame", Ok evs) ->
  xml_value_roundtrip o "CoordinateFrame" evs (VCFrame (norm_cf c)).
Proof. intros dl Hw. apply (cframe_roundtrip_on o all32 dl c evs); [|exact Hw]. repeat split. Qed.

Theorem optional_cframe_roundtrip_finite o c evs :
  float_text_law o -> (match c with Some cf => P_cf finite32 cf | None => True end) ->
  write_xml o (VOptionalCFrame c) = Some (B "OptionalCoordinateFrame", Ok evs) ->
  xml_value_roundtrip o "OptionalCoordinateFrame" evs (VOptionalCFrame c).
Proof.
  intros law HP Hw.
  assert (E : option_map norm_cf c = c) by (destruct c as [cf|]; [cbn; rewrite (norm_cf_finite cf HP)|]; reflexivity).
  rewrite <- E. exact (optional_cframe_roundtrip_on o finite32 (float_law_display o law) c evs HP Hw).
Qed.

Theorem optional_cframe_roundtrip_all o c evs :
  display_law o all32 ->
  write_xml o (VOptionalCFrame c) = Some (B "OptionalCoordinateFrame", Ok evs) ->
  xml_value_roundtrip o "OptionalCoordinateFrame" evs (VOptionalCFrame (option_map norm_cf c)).
Proof.
  intros dl Hw. apply (optional_cframe_roundtrip_on o all32 dl c evs); [|exact Hw]. destruct c; repeat split.
Qed.

(* ------------------------------------------------------------------ space-separated Display texts (NumberRange, NumberSequence, ColorSequence) *)
(* a run of Characters events inside an element is one text *)
Lemma chan_chars_run stack ss : stack <> [] -> forall t rest,
  chan_go stack t (List.map WChars ss ++ rest) = chan_go stack (mkT (tbuf t ++ concat ss) (tiws t && forallb all_ws ss)) rest.
Proof.
  intro Hs. induction ss as [|s ss IH]; intros t rest; cbn [List.map app concat forallb].
  - rewrite app_nil_r, andb_true_r. destruct t. reflexivity.
  - destruct stack as [|n st]; [congruence|]. cbn [chan_go]. rewrite IH. cbn [tbuf tiws].
    rewrite <- app_assoc, <- andb_assoc. reflexivity.
Qed.

Lemma chan_body_chars ss : concat ss <> [] -> forallb all_ws ss = false -> chan_body (List.map WChars ss) [RChars (concat ss)].
Proof.
  intros Hne Hws tag a. cbn [chan_go]. rewrite (chan_chars_run [tag] ss ltac:(discriminate) t0 [WEnd]).
  cbn [tbuf tiws t0 app andb chan_go rbind flush]. rewrite Hws. destruct (concat ss); [congruence|]. reflexivity.
Qed.

Lemma reads_rchars text : reads_until x_chars [RChars text] text.
Proof. intros e rest He. destruct e; try contradiction; reflexivity. Qed.

(* the text of a float, as far as the space-separated formats care: not empty, no whitespace, no space *)
Definition plain (t : bytes) : Prop := t <> [] /\ printable t.

Definition spaced (ts : list bytes) : list bytes := flat_map (fun t => [t; [32]]) ts.

Lemma split_sp_go_piece t : forall cur rest, printable t -> (t <> [] \/ cur <> []) ->
  split_sp_go cur (t ++ 32 :: rest) = (rev cur ++ t) :: split_sp_go [] rest.
Proof.
  induction t as [|c t IH]; intros cur rest Hp Hne.
  - cbn [app split_sp_go]. rewrite N.eqb_refl. destruct cur as [|x cur]; [destruct Hne; congruence|].
    rewrite frev_rev, app_nil_r. reflexivity.
  - inversion Hp as [|? ? Hc Hp']; subst. cbn [app split_sp_go].
    replace (c =? 32) with false by (symmetry; apply N.eqb_neq; lia).
    assert (Hne' : t <> [] \/ c :: cur <> []) by (right; discriminate).
    rewrite (IH (c :: cur) rest Hp' Hne'). cbn [rev]. rewrite <- app_assoc. reflexivity.
Qed.

Lemma split_sp_spaced ts : Forall plain ts -> split_sp (concat (spaced ts)) = ts.
Proof.
  unfold split_sp. induction ts as [|t ts IH]; intro HF; [reflexivity|]. inversion HF as [|? ? (Hne & Hp) HF']; subst.
  change (concat (spaced (t :: ts))) with (t ++ 32 :: concat (spaced ts)).
  rewrite (split_sp_go_piece t [] _ Hp (or_introl Hne)). cbn [rev app]. rewrite (IH HF'). reflexivity.
Qed.

Lemma plain_not_ws t : plain t -> all_ws t = false.
Proof.
  intros (Hne & Hp). destruct t as [|c r]; [congruence|]. inversion Hp as [|? ? Hc _]; subst. cbn [all_ws forallb].
  unfold xml_ws. replace (c =? 32) with false by (symmetry; apply N.eqb_neq; lia).
  replace (c =? 10) with false by (symmetry; apply N.eqb_neq; lia). replace (c =? 9) with false by (symmetry; apply N.eqb_neq; lia).
  replace (c =? 13) with false by (symmetry; apply N.eqb_neq; lia). reflexivity.
Qed.

Lemma spaced_body t ts : Forall plain (t :: ts) ->
  chan_body (List.map WChars (spaced (t :: ts))) [RChars (concat (spaced (t :: ts)))].
Proof.
  intro HF. inversion HF as [|? ? Ht _]; subst. apply chan_body_chars.
  - cbn [spaced flat_map app concat]. destruct Ht as (Hne & _). destruct t; [congruence|discriminate].
  - cbn [spaced flat_map app forallb]. rewrite (plain_not_ws t Ht). reflexivity.
Qed.

Lemma plain_w_string t : plain t -> w_string t = [WChars t].
Proof. intros (_ & Hp). apply printable_w_string. exact Hp. Qed.

(* the extra premise these three types need: Display of a float is a non-empty text without spaces or other whitespace *)
Definition show32_plain (o : xoracle) : Prop := forall x t, xo_show32 o x = Some t -> plain t.

Section Spaced.
  Variable o : xoracle.
  Variable P : f32 -> Prop.
  Hypothesis dlaw : display_law o P.
  Hypothesis splain : show32_plain o.

  Lemma piece_display x t : P x -> xo_show32 o x = Some t -> piece_f32 o t = Ok (norm_f32 x).
  Proof. intros Hx Hs. destruct (dlaw x t Hx Hs) as (Hp & _). unfold piece_f32, ask. rewrite Hp. reflexivity. Qed.

  (* ---- 8. NumberRange *)
  Definition r_number_range : xrd (f32 * f32) :=
    t <~ x_chars ;;
    match split_sp t with
    | [] => xfail DE_CONTENT
    | a :: r1 =>
        lo <~ xlift (piece_f32 o a) ;;
        match r1 with
        | [] => xfail DE_CONTENT
        | b :: r2 =>
            hi <~ xlift (piece_f32 o b) ;;
            match r2 with
            | [] => xret (lo, hi)
            | _ :: _ => xfail DE_CONTENT
            end
        end
    end.

  Theorem number_range_roundtrip_on lo hi evs :
    P lo -> P hi ->
    write_xml o (VNumberRange lo hi) = Some (B "NumberRange", Ok evs) ->
    xml_value_roundtrip o "NumberRange" evs (VNumberRange (norm_f32 lo) (norm_f32 hi)).
  Proof.
    intros Plo Phi. cbn [write_xml]. intro Hw. apply some_pair_inv in Hw. inv_bind Hw a Ha. inv_bind Hw b Hb. inv_ok Hw.
    destruct (w_display_inv o lo a Ha) as (tlo & Hlo & ->). destruct (w_display_inv o hi b Hb) as (thi & Hhi & ->).
    pose proof (splain lo tlo Hlo) as Llo. pose proof (splain hi thi Hhi) as Lhi.
    rewrite (plain_w_string tlo Llo), (plain_w_string thi Lhi).
    change ([WChars tlo] ++ sp :: [WChars thi] ++ [sp]) with (List.map WChars (spaced [tlo; thi])).
    assert (HF : Forall plain [tlo; thi]) by (constructor; [exact Llo|constructor; [exact Lhi|constructor]]).
    apply (roundtrip_step o (fun p : f32 * f32 => VNumberRange (fst p) (snd p)) "NumberRange" r_number_range _
             [RChars (concat (spaced [tlo; thi]))] (norm_f32 lo, norm_f32 hi)); [reflexivity|apply spaced_body; exact HF|].
    intros e rest He. unfold r_number_range, xbind. rewrite (reads_rchars _ e rest He). rewrite (split_sp_spaced _ HF).
    rewrite (piece_display lo tlo Plo Hlo), (piece_display hi thi Phi Hhi). reflexivity.
  Qed.
End Spaced.

Lemma spaced_app a b : spaced (a ++ b) = spaced a ++ spaced b.
Proof. unfold spaced. apply flat_map_app. Qed.

Section Sequences.
  Variable o : xoracle.
  Variable P : f32 -> Prop.
  Hypothesis dlaw : display_law o P.
  Hypothesis splain : show32_plain o.

  (* ---- 11a. NumberSequence *)
  Definition ns_rel (kp : f32 * f32 * f32) (tk : bytes * bytes * bytes) : Prop :=
    let '(t, x, e) := kp in let '(ut, tx, te) := tk in
    xo_show32 o t = Some ut /\ xo_show32 o x = Some tx /\ xo_show32 o e = Some te.
  Definition ns_texts (tk : bytes * bytes * bytes) : list bytes := let '(ut, tx, te) := tk in [ut; tx; te].
  Definition P_kp3 (kp : f32 * f32 * f32) : Prop := let '(t, x, e) := kp in P t /\ P x /\ P e.
  Definition norm_kp3 (kp : f32 * f32 * f32) : f32 * f32 * f32 := let '(t, x, e) := kp in (norm_f32 t, norm_f32 x, norm_f32 e).

  Definition w_ns_kp (kp : f32 * f32 * f32) : res (list wevent) :=
    let '(t, x, e) := kp in
    et <- xw_f32_display o t ;; ex <- xw_f32_display o x ;; ee <- xw_f32_display o e ;;
    Ok (et ++ sp :: ex ++ sp :: ee ++ [sp]).

  Lemma w_nseq_inv kps : forall evs, concat_res (List.map w_ns_kp kps) = Ok evs ->
    exists tks, Forall2 ns_rel kps tks /\ evs = List.map WChars (spaced (flat_map ns_texts tks)).
  Proof.
    induction kps as [|kp kps IH]; intros evs H.
    - apply concat_res_nil_inv in H. subst. exists []. split; [constructor|reflexivity].
    - cbn [List.map] in H. destruct (concat_res_cons_inv _ _ _ H) as (a & b & Ha & Hb & ->).
      destruct (IH b Hb) as (tks & HF & ->). destruct kp as [[t x] e]. unfold w_ns_kp in Ha.
      inv_bind Ha wt Het. inv_bind Ha wx Hex. inv_bind Ha we Hee. inv_ok Ha.
      destruct (w_display_inv o t wt Het) as (ut & Ht & ->). destruct (w_display_inv o x wx Hex) as (tx & Hx & ->).
      destruct (w_display_inv o e we Hee) as (te & He & ->).
      rewrite (plain_w_string ut (splain t ut Ht)), (plain_w_string tx (splain x tx Hx)), (plain_w_string te (splain e te He)).
      exists ((ut, tx, te) :: tks). split; [constructor; [repeat split; assumption|exact HF]|].
      cbn [flat_map]. rewrite spaced_app, map_app. reflexivity.
  Qed.

  Lemma ns_texts_plain kps tks : Forall2 ns_rel kps tks -> Forall plain (flat_map ns_texts tks).
  Proof.
    induction 1 as [|kp tk kps tks Hr _ IH]; [constructor|]. destruct kp as [[t x] e], tk as [[ut tx] te]. destruct Hr as (Ht & Hx & He).
    cbn [flat_map ns_texts app]. repeat (constructor; [eapply splain; eassumption|]). exact IH.
  Qed.

  Lemma r_nseq_texts kps tks : Forall2 ns_rel kps tks -> Forall P_kp3 kps ->
    r_nseq_go o (flat_map ns_texts tks) = Ok (List.map norm_kp3 kps).
  Proof.
    induction 1 as [|kp tk kps tks Hr _ IH]; intro HP; [reflexivity|]. inversion HP as [|? ? Hk HP']; subst.
    destruct kp as [[t x] e], tk as [[ut tx] te]. destruct Hr as (Ht & Hx & He). destruct Hk as (Pt & Px & Pe).
    change (flat_map ns_texts ((ut, tx, te) :: tks)) with (ut :: tx :: te :: flat_map ns_texts tks).
    cbn [r_nseq_go]. rewrite (piece_display o P dlaw t ut Pt Ht). cbn [rbind].
    rewrite (piece_display o P dlaw x tx Px Hx). cbn [rbind]. rewrite (piece_display o P dlaw e te Pe He). cbn [rbind].
    rewrite (IH HP'). reflexivity.
  Qed.

  Theorem number_sequence_roundtrip_on kps evs :
    (2 <= length kps)%nat -> Forall P_kp3 kps ->
    write_xml o (VNumberSequence kps) = Some (B "NumberSequence", Ok evs) ->
    xml_value_roundtrip o "NumberSequence" evs (VNumberSequence (List.map norm_kp3 kps)).
  Proof.
    intros Hlen HP. cbn [write_xml]. intro Hw. apply some_pair_inv in Hw.
    change (concat_res (List.map w_ns_kp kps) = Ok evs) in Hw.
    destruct (w_nseq_inv kps evs Hw) as (tks & HF & ->).
    pose proof (ns_texts_plain kps tks HF) as Hpl.
    assert (Hne : exists t ts, flat_map ns_texts tks = t :: ts).
    { destruct HF as [|kp [[ut tx] te] kps tks _ _]; [cbn in Hlen; lia|]. eexists _, _. reflexivity. }
    destruct Hne as (t1 & ts & Ets). rewrite Ets in *.
    apply (roundtrip_step o VNumberSequence "NumberSequence"
             (t <~ x_chars ;; let ps := split_sp t in
              kps <~ xlift (r_nseq_go o ps) ;;
              if (length kps <? 2)%nat then xfail DE_CONTENT else xret kps) _
             [RChars (concat (spaced (t1 :: ts)))] (List.map norm_kp3 kps)); [reflexivity|apply spaced_body; exact Hpl|].
    intros e rest He. unfold xbind. rewrite (reads_rchars _ e rest He). cbv zeta. rewrite (split_sp_spaced _ Hpl).
    rewrite <- Ets. rewrite (r_nseq_texts kps tks HF HP). unfold xlift. rewrite map_length.
    replace (length kps <? 2)%nat with false by (symmetry; apply Nat.ltb_ge; lia). reflexivity.
  Qed.

  (* ---- 11b. ColorSequence: time r g b and a literal envelope `0` the reader parses and drops *)
  Hypothesis zero_parses : exists z, xo_parse32 o (B "0") = Some (Some z).

  Definition cs_rel (kp : f32 * (f32 * f32 * f32)) (tk : bytes * (bytes * bytes * bytes)) : Prop :=
    let '(t, (r, g, b)) := kp in let '(ut, (tr, tg, tb)) := tk in
    xo_show32 o t = Some ut /\ xo_show32 o r = Some tr /\ xo_show32 o g = Some tg /\ xo_show32 o b = Some tb.
  Definition cs_texts (tk : bytes * (bytes * bytes * bytes)) : list bytes := let '(ut, (tr, tg, tb)) := tk in [ut; tr; tg; tb; B "0"].
  Definition P_kp4 (kp : f32 * (f32 * f32 * f32)) : Prop := let '(t, (r, g, b)) := kp in P t /\ P r /\ P g /\ P b.
  Definition norm_kp4 (kp : f32 * (f32 * f32 * f32)) : f32 * (f32 * f32 * f32) :=
    let '(t, (r, g, b)) := kp in (norm_f32 t, (norm_f32 r, norm_f32 g, norm_f32 b)).

  Definition w_cs_kp (kp : f32 * (f32 * f32 * f32)) : res (list wevent) :=
    let '(t, (r, g, b)) := kp in
    et <- xw_f32_display o t ;; er <- xw_f32_display o r ;; eg <- xw_f32_display o g ;; eb <- xw_f32_display o b ;;
    Ok (et ++ sp :: er ++ sp :: eg ++ sp :: eb ++ sp :: w_string [48] ++ [sp]).

  Lemma plain_zero : plain (B "0").
  Proof. split; [discriminate|]. repeat constructor; lia. Qed.

  Lemma w_cseq_inv kps : forall evs, concat_res (List.map w_cs_kp kps) = Ok evs ->
    exists tks, Forall2 cs_rel kps tks /\ evs = List.map WChars (spaced (flat_map cs_texts tks)).
  Proof.
    induction kps as [|kp kps IH]; intros evs H.
    - apply concat_res_nil_inv in H. subst. exists []. split; [constructor|reflexivity].
    - cbn [List.map] in H. destruct (concat_res_cons_inv _ _ _ H) as (a & b0 & Ha & Hb & ->).
      destruct (IH b0 Hb) as (tks & HF & ->). destruct kp as [t [[r g] b]]. unfold w_cs_kp in Ha.
      inv_bind Ha wt Het. inv_bind Ha wr Her. inv_bind Ha wg Heg. inv_bind Ha wb Heb. inv_ok Ha.
      destruct (w_display_inv o t wt Het) as (ut & Ht & ->). destruct (w_display_inv o r wr Her) as (tr & Hr & ->).
      destruct (w_display_inv o g wg Heg) as (tg & Hg & ->). destruct (w_display_inv o b wb Heb) as (tb & Hb' & ->).
      rewrite (plain_w_string ut (splain t ut Ht)), (plain_w_string tr (splain r tr Hr)), (plain_w_string tg (splain g tg Hg)),
              (plain_w_string tb (splain b tb Hb')).
      exists ((ut, (tr, tg, tb)) :: tks). split; [constructor; [repeat split; assumption|exact HF]|].
      cbn [flat_map]. rewrite spaced_app, map_app. reflexivity.
  Qed.

  Lemma cs_texts_plain kps tks : Forall2 cs_rel kps tks -> Forall plain (flat_map cs_texts tks).
  Proof.
    induction 1 as [|kp tk kps tks Hr _ IH]; [constructor|]. destruct kp as [t [[r g] b]], tk as [ut [[tr tg] tb]].
    destruct Hr as (Ht & Hr & Hg & Hb).
    cbn [flat_map cs_texts app]. repeat (constructor; [eapply splain; eassumption|]). constructor; [exact plain_zero|exact IH].
  Qed.

  Lemma r_cseq_texts kps tks : Forall2 cs_rel kps tks -> Forall P_kp4 kps ->
    r_cseq_go o (flat_map cs_texts tks) = Ok (List.map norm_kp4 kps).
  Proof.
    induction 1 as [|kp tk kps tks Hr _ IH]; intro HP; [reflexivity|]. inversion HP as [|? ? Hk HP']; subst.
    destruct kp as [t [[r g] b]], tk as [ut [[tr tg] tb]]. destruct Hr as (Ht & Hr & Hg & Hb). destruct Hk as (Pt & Pr & Pg & Pb).
    change (flat_map cs_texts ((ut, (tr, tg, tb)) :: tks)) with (ut :: tr :: tg :: tb :: B "0" :: flat_map cs_texts tks).
    cbn [r_cseq_go]. rewrite (piece_display o P dlaw t ut Pt Ht). cbn [rbind].
    rewrite (piece_display o P dlaw r tr Pr Hr). cbn [rbind]. rewrite (piece_display o P dlaw g tg Pg Hg). cbn [rbind].
    rewrite (piece_display o P dlaw b tb Pb Hb). cbn [rbind].
    destruct zero_parses as (z & Hz). unfold piece_f32 at 1. unfold ask. rewrite Hz. cbn [rbind].
    rewrite (IH HP'). reflexivity.
  Qed.

  Theorem color_sequence_roundtrip_on kps evs :
    (2 <= length kps)%nat -> Forall P_kp4 kps ->
    write_xml o (VColorSequence kps) = Some (B "ColorSequence", Ok evs) ->
    xml_value_roundtrip o "ColorSequence" evs (VColorSequence (List.map norm_kp4 kps)).
  Proof.
    intros Hlen HP. cbn [write_xml]. intro Hw. apply some_pair_inv in Hw.
    change (concat_res (List.map w_cs_kp kps) = Ok evs) in Hw.
    destruct (w_cseq_inv kps evs Hw) as (tks & HF & ->).
    pose proof (cs_texts_plain kps tks HF) as Hpl.
    assert (Hne : exists t ts, flat_map cs_texts tks = t :: ts).
    { destruct HF as [|kp [ut [[tr tg] tb]] kps tks _ _]; [cbn in Hlen; lia|]. eexists _, _. reflexivity. }
    destruct Hne as (t1 & ts & Ets). rewrite Ets in *.
    apply (roundtrip_step o VColorSequence "ColorSequence"
             (t <~ x_chars ;; let ps := split_sp t in
              kps <~ xlift (r_cseq_go o ps) ;;
              if (length kps <? 2)%nat then xfail DE_CONTENT else xret kps) _
             [RChars (concat (spaced (t1 :: ts)))] (List.map norm_kp4 kps)); [reflexivity|apply spaced_body; exact Hpl|].
    intros e rest He. unfold xbind. rewrite (reads_rchars _ e rest He). cbv zeta. rewrite (split_sp_spaced _ Hpl).
    rewrite <- Ets. rewrite (r_cseq_texts kps tks HF HP). unfold xlift. rewrite map_length.
    replace (length kps <? 2)%nat with false by (symmetry; apply Nat.ltb_ge; lia). reflexivity.
  Qed.
End Sequences.

(* ------------------------------------------------------------------ 13. Font *)
Section FontValue.
  Variable o : xoracle.

  Definition content_inner_events (s : bytes) : list revent :=
    match s with [] => [RStart (B "null") []; REnd (B "null")] | _ => fleaf "url" s end.
  Definition content_events (tag : string) (s : bytes) : list revent := elem tag (content_inner_events s).

  Lemma chan_content_tag (tag : string) s : chan_elems (w_content_tag tag s) (content_events tag s).
  Proof.
    unfold w_content_tag, content_events. apply chan_elem. destruct s; [apply chan_elems_empty|apply chan_elems_leaf].
  Qed.

  Lemma reads_content_inner au s : reads (r_content_inner au) (content_inner_events s) s.
  Proof. destruct s; [apply reads_content_inner_null|apply reads_content_inner_url]. Qed.

  Lemma reads_font_content (tag : string) s : reads (r_font_content tag) (content_events tag s) s.
  Proof.
    intro rest. unfold r_font_content, xbind, x_next, content_events, elem. cbn [app]. rewrite bytes_eqb_refl.
    rewrite <- app_assoc. rewrite (reads_content_inner false s). cbn [app].
    unfold x_expect_end, xbind, x_next. rewrite bytes_eqb_refl. reflexivity.
  Qed.

  Lemma x_peek_content (tag : string) s rest :
    x_peek (content_events tag s ++ rest) = Ok (RStart (B tag) [], content_events tag s ++ rest).
  Proof. reflexivity. Qed.

  Definition norm_font (f : font) : font :=
    mkFont (fo_family f) (if font_weight_ok (fo_weight f) then fo_weight f else 400) (if fo_style f =? 0 then 0 else 1) (fo_cached f).

  Definition style_text (f : font) : bytes := B (if fo_style f =? 0 then "Normal" else "Italic").
  Definition font_events (f : font) : list revent :=
    content_events "Family" (fo_family f) ++ fleaf "Weight" (dec_of_N (fo_weight f)) ++ fleaf "Style" (style_text f) ++
    match fo_cached f with Some c => content_events "CachedFaceId" c | None => [] end.

  Lemma reads_font f : fo_weight f < 65536 ->
    forall rest, r_font (font_events f ++ REnd (B "Font") :: rest) = Ok (norm_font f, REnd (B "Font") :: rest).
  Proof.
    intros Hw rest. unfold r_font, font_events, xbind. rewrite <- !app_assoc.
    rewrite x_peek_content. cbv beta iota.
    rewrite (reads_font_content "Family" (fo_family f)).
    rewrite (reads_ileaf parse_u16 "Weight" _ _ (parse_u16_dec _ Hw)).
    rewrite (reads_tag_contents_fleaf "Style" (style_text f)).
    unfold norm_font, style_text. destruct (fo_cached f) as [c|].
    - rewrite x_peek_content. cbv beta iota. rewrite (eq_refl : bytes_eqb (B "CachedFaceId") (B "CachedFaceId") = true).
      rewrite (reads_font_content "CachedFaceId" c). destruct (fo_style f =? 0); reflexivity.
    - cbn [app x_peek]. destruct (fo_style f =? 0); reflexivity.
  Qed.

  (* every Font value; the weight comes back as itself when it is one of 100..900 and as 400 otherwise, the style as
     Normal (0) or Italic (anything else): on the values the Rust enums FontWeight / FontStyle have, the identity *)
  Theorem font_roundtrip f evs :
    fo_weight f < 65536 ->
    write_xml o (VFont f) = Some (B "Font", Ok evs) ->
    xml_value_roundtrip o "Font" evs (VFont (norm_font f)).
  Proof.
    intro Hwt. cbn [write_xml]. intro Hw. apply some_pair_inv in Hw. inv_ok Hw.
    apply (roundtrip_step_end o VFont "Font" r_font _ (font_events f) (norm_font f)); [reflexivity| |apply reads_font; exact Hwt].
    apply chan_body_elems. unfold font_events. destruct (fo_cached f) as [c|].
    - chan_seq; [apply chan_content_tag|apply chan_elems_leaf|apply chan_elems_leaf|apply chan_content_tag].
    - rewrite !app_nil_r. chan_seq; [apply chan_content_tag|apply chan_elems_leaf|apply chan_elems_leaf].
  Qed.

  Lemma norm_font_wf f : font_weight_ok (fo_weight f) = true -> (fo_style f = 0 \/ fo_style f = 1) -> norm_font f = f.
  Proof. destruct f as [fam w st c]. cbn. intros Hw [-> | ->]; unfold norm_font; cbn; rewrite Hw; reflexivity. Qed.
End FontValue.

(* ------------------------------------------------------------------ the space-separated types under the two oracle premises *)

Theorem number_range_roundtrip_finite o lo hi evs :
  float_text_law o -> show32_plain o -> finite32 lo -> finite32 hi ->
  write_xml o (VNumberRange lo hi) = Some (B "NumberRange", Ok evs) ->
  xml_value_roundtrip o "NumberRange" evs (VNumberRange lo hi).
Proof.
  intros law pl Hlo Hhi Hw. rewrite <- (norm_f32_finite lo Hlo), <- (norm_f32_finite hi Hhi).
  exact (number_range_roundtrip_on o finite32 (float_law_display o law) pl lo hi evs Hlo Hhi Hw).
Qed.

Theorem number_range_roundtrip_all o lo hi evs :
  display_law o all32 -> show32_plain o ->
  write_xml o (VNumberRange lo hi) = Some (B "NumberRange", Ok evs) ->
  xml_value_roundtrip o "NumberRange" evs (VNumberRange (norm_f32 lo) (norm_f32 hi)).
Proof. intros dl pl Hw. exact (number_range_roundtrip_on o all32 dl pl lo hi evs I I Hw). Qed.

Lemma map_id_on {A} (f : A -> A) (Q : A -> Prop) l : (forall a, Q a -> f a = a) -> Forall Q l -> List.map f l = l.
Proof. intros Hf HF. induction HF as [|a l Ha _ IH]; [reflexivity|]. cbn. rewrite (Hf a Ha), IH. reflexivity. Qed.

Theorem number_sequence_roundtrip_finite o kps evs :
  float_text_law o -> show32_plain o ->
  (2 <= length kps)%nat -> Forall (P_kp3 finite32) kps ->
  write_xml o (VNumberSequence kps) = Some (B "NumberSequence", Ok evs) ->
  xml_value_roundtrip o "NumberSequence" evs (VNumberSequence kps).
Proof.
  intros law pl Hlen HP Hw.
  assert (E : List.map norm_kp3 kps = kps).
  { apply (map_id_on norm_kp3 (P_kp3 finite32)); [|exact HP]. intros [[t x] e] (H1 & H2 & H3). unfold norm_kp3.
    rewrite !norm_f32_finite by assumption. reflexivity. }
  rewrite <- E. exact (number_sequence_roundtrip_on o finite32 (float_law_display o law) pl kps evs Hlen HP Hw).
Qed.

Theorem number_sequence_roundtrip_all o kps evs :
  display_law o all32 -> show32_plain o ->
  (2 <= length kps)%nat ->
  write_xml o (VNumberSequence kps) = Some (B "NumberSequence", Ok evs) ->
  xml_value_roundtrip o "NumberSequence" evs (VNumberSequence (List.map norm_kp3 kps)).
Proof.
  intros dl pl Hlen Hw. apply (number_sequence_roundtrip_on o all32 dl pl kps evs Hlen); [|exact Hw].
  apply Forall_forall. intros [[t x] e] _. repeat split.
Qed.

Theorem color_sequence_roundtrip_finite o kps evs :
  float_text_law o -> show32_plain o -> (exists z, xo_parse32 o (B "0") = Some (Some z)) ->
  (2 <= length kps)%nat -> Forall (P_kp4 finite32) kps ->
  write_xml o (VColorSequence kps) = Some (B "ColorSequence", Ok evs) ->
  xml_value_roundtrip o "ColorSequence" evs (VColorSequence kps).
Proof.
  intros law pl Hz Hlen HP Hw.
  assert (E : List.map norm_kp4 kps = kps).
  { apply (map_id_on norm_kp4 (P_kp4 finite32)); [|exact HP]. intros [t [[r g] b]] (H1 & H2 & H3 & H4). unfold norm_kp4.
    rewrite !norm_f32_finite by assumption. reflexivity. }
  rewrite <- E. exact (color_sequence_roundtrip_on o finite32 (float_law_display o law) pl Hz kps evs Hlen HP Hw).
Qed.

Theorem color_sequence_roundtrip_all o kps evs :
  display_law o all32 -> show32_plain o -> (exists z, xo_parse32 o (B "0") = Some (Some z)) ->
  (2 <= length kps)%nat ->
  write_xml o (VColorSequence kps) = Some (B "ColorSequence", Ok evs) ->
  xml_value_roundtrip o "ColorSequence" evs (VColorSequence (List.map norm_kp4 kps)).
Proof.
  intros dl pl Hz Hlen Hw. apply (color_sequence_roundtrip_on o all32 dl pl Hz kps evs Hlen); [|exact Hw].
  apply Forall_forall. intros [t [[r g] b]] _. repeat split.
Qed.

(* ------------------------------------------------------------------ non-vacuity: a concrete oracle that satisfies every premise used above *)
Definition F32_HALF : f32 := 1056964608.       (* 0.5 *)
Definition F32_NNAN : f32 := 4290772992.       (* a NaN with the sign bit set *)
Definition o1_table : list (f32 * bytes) :=
  [(F32_ZERO, B "0"); (F32_ONE, B "1"); (F32_NEG_ONE, B "-1"); (F32_HALF, B "0.5");
   (F32_INF, B "inf"); (F32_NINF, B "-inf"); (F32_NAN, B "NaN"); (F32_NNAN, B "NaN")].
Fixpoint o1_show (tb : list (f32 * bytes)) (x : f32) : option bytes :=
  match tb with [] => None | (y, t) :: r => if x =? y then Some t else o1_show r x end.
Fixpoint o1_parse (tb : list (f32 * bytes)) (t : bytes) : option (option f32) :=
  match tb with [] => None | (y, u) :: r => if bytes_eqb t u then Some (Some y) else o1_parse r t end.
Definition o1 : xoracle :=
  mkXO (o1_show o1_table) (fun _ => None) (o1_parse o1_table) (fun _ => None) (fun _ => None) (fun _ => None).

Lemma o1_display_law : display_law o1 all32.
Proof.
  intros x t _ Hs. cbn [o1 xo_show32 xo_parse32] in *. unfold o1_table in Hs. cbn [o1_show] in Hs.
  repeat match type of Hs with
         | (if ?a =? ?k then _ else _) = _ =>
             destruct (N.eqb_spec a k) as [->|_];
             [apply (f_equal (fun o => match o with Some u => u | None => [] end)) in Hs; subst t;
              repeat split; try (vm_compute; reflexivity); discriminate|]
         end.
  discriminate.
Qed.

Lemma o1_float_text_law : float_text_law o1.
Proof.
  intros x t Hn Hi Hni Hs. destruct (o1_display_law x t I Hs) as (Hp & Hrest). split; [|exact Hrest].
  rewrite Hp. unfold norm_f32. rewrite Hn. reflexivity.
Qed.

Lemma o1_plain : show32_plain o1.
Proof.
  intros x t Hs. cbn [o1 xo_show32] in Hs. unfold o1_table in Hs. cbn [o1_show] in Hs.
  repeat match type of Hs with
         | (if ?a =? ?k then _ else _) = _ =>
             destruct (N.eqb_spec a k) as [->|_];
             [apply (f_equal (fun o => match o with Some u => u | None => [] end)) in Hs; subst t;
              split; [discriminate|repeat constructor; vm_compute; reflexivity]|]
         end.
  discriminate.
Qed.

Lemma o1_zero : exists z, xo_parse32 o1 (B "0") = Some (Some z).
Proof. exists F32_ZERO. reflexivity. Qed.

(* write -> channel (inside <tag name="p">) -> read, computed *)
Definition rt_check (o : xoracle) (v : value) : option (res (rvalue * list revent)) :=
  match write_xml o v with
  | Some (tg, Ok evs) => Some (revs <- chan_go [] t0 (WStart tg [(B "name", B "p")] :: evs ++ [WEnd]) ;; read_value_xml o tg revs)
  | _ => None
  end.

Definition cf1 : cframe :=
  mkCF (mkV3 F32_ONE F32_INF F32_NINF) (mkM3 (mkV3 F32_ONE 0 0) (mkV3 0 F32_NNAN 0) (mkV3 F32_HALF 0 F32_NEG_ONE)).
Definition cf2 : cframe :=
  mkCF (mkV3 F32_ONE F32_HALF F32_NEG_ONE) (mkM3 (mkV3 F32_ONE 0 0) (mkV3 0 F32_ONE 0) (mkV3 0 0 F32_ONE)).

(* the writer succeeds on these instances (the premise `write_xml o v = Some (tag, Ok evs)` of the theorems is satisfiable),
   and the computed round trip agrees with the theorems: infinities survive a CFrame as `inf` / `-inf`, a negative NaN
   comes back as the canonical NaN *)
Example ex_cframe_nonfinite : rt_check o1 (VCFrame cf1) = Some (Ok (RVal (VCFrame (norm_cf cf1)), [])).
Proof. vm_compute. reflexivity. Qed.
Example ex_cframe_finite : rt_check o1 (VCFrame cf2) = Some (Ok (RVal (VCFrame cf2), [])) /\ P_cf finite32 cf2.
Proof. split; [vm_compute; reflexivity|]. repeat split; try (vm_compute; reflexivity); discriminate. Qed.
Example ex_cframe_inf_text :
  exists rest, write_xml o1 (VCFrame cf1) =
    Some (B "CoordinateFrame", Ok (w_elem (B "X") [WChars (B "1")] ++ w_elem (B "Y") [WChars (B "inf")] ++ w_elem (B "Z") [WChars (B "-inf")] ++ rest)).
Proof. eexists. vm_compute. reflexivity. Qed.
Example ex_optional_cframe :
  rt_check o1 (VOptionalCFrame (Some cf1)) = Some (Ok (RVal (VOptionalCFrame (Some (norm_cf cf1))), [])) /\
  rt_check o1 (VOptionalCFrame None) = Some (Ok (RVal (VOptionalCFrame None), [])).
Proof. split; vm_compute; reflexivity. Qed.
Example ex_vector2 : rt_check o1 (VVector2 (mkV2 F32_HALF F32_NNAN)) = Some (Ok (RVal (VVector2 (mkV2 F32_HALF F32_NAN)), [])).
Proof. vm_compute. reflexivity. Qed.
Example ex_color3 : rt_check o1 (VColor3 F32_ONE F32_HALF F32_INF) = Some (Ok (RVal (VColor3 F32_ONE F32_HALF F32_INF), [])).
Proof. vm_compute. reflexivity. Qed.
Example ex_color3uint8 : rt_check o1 (VColor3uint8 255 128 7) = Some (Ok (RVal (VColor3uint8 255 128 7), [])).
Proof. vm_compute. reflexivity. Qed.
Example ex_udim2 :
  rt_check o1 (VUDim2 (mkUDim F32_HALF (-5)) (mkUDim F32_NINF 2147483647))
  = Some (Ok (RVal (VUDim2 (mkUDim F32_HALF (-5)) (mkUDim F32_NINF 2147483647)), [])).
Proof. vm_compute. reflexivity. Qed.
Example ex_rect : rt_check o1 (VRect (mkV2 0 F32_ONE) (mkV2 F32_HALF F32_NEG_ONE)) = Some (Ok (RVal (VRect (mkV2 0 F32_ONE) (mkV2 F32_HALF F32_NEG_ONE)), [])).
Proof. vm_compute. reflexivity. Qed.
Example ex_vector3int16 : rt_check o1 (VVector3int16 (-32768) 0 32767) = Some (Ok (RVal (VVector3int16 (-32768) 0 32767), [])).
Proof. vm_compute. reflexivity. Qed.
Example ex_number_range : rt_check o1 (VNumberRange F32_NEG_ONE F32_INF) = Some (Ok (RVal (VNumberRange F32_NEG_ONE F32_INF), [])).
Proof. vm_compute. reflexivity. Qed.
Example ex_number_sequence :
  rt_check o1 (VNumberSequence [(0, F32_ONE, 0); (F32_ONE, F32_INF, F32_NNAN)])
  = Some (Ok (RVal (VNumberSequence [(0, F32_ONE, 0); (F32_ONE, F32_INF, F32_NAN)]), [])).
Proof. vm_compute. reflexivity. Qed.
Example ex_color_sequence :
  rt_check o1 (VColorSequence [(0, (F32_ONE, 0, F32_HALF)); (F32_ONE, (F32_ONE, 0, F32_HALF))])
  = Some (Ok (RVal (VColorSequence [(0, (F32_ONE, 0, F32_HALF)); (F32_ONE, (F32_ONE, 0, F32_HALF))]), [])).
Proof. vm_compute. reflexivity. Qed.
Example ex_font :
  rt_check o1 (VFont (mkFont (B "rbxasset://x") 700 1 (Some []))) = Some (Ok (RVal (VFont (mkFont (B "rbxasset://x") 700 1 (Some []))), [])) /\
  rt_check o1 (VFont (mkFont [] 450 7 None)) = Some (Ok (RVal (VFont (mkFont [] 400 1 None)), [])).
Proof. split; vm_compute; reflexivity. Qed.
Example ex_physical_properties :
  rt_check o1 (VPhysicalProperties (Some (mkPhys F32_ONE F32_HALF 0 F32_ONE F32_INF)))
  = Some (Ok (RVal (VPhysicalProperties (Some (mkPhys F32_ONE F32_HALF 0 F32_ONE F32_INF))), [])).
Proof. vm_compute. reflexivity. Qed.
Example ex_unique_id : rt_check o1 (VUniqueId 1 2 (-3)) = Some (Ok (RVal (VUniqueId 1 2 (-3)), [])).
Proof. vm_compute. reflexivity. Qed.

(* ------------------------------------------------------------------ findings *)
(* (a) NumberSequence / ColorSequence with fewer than two keypoints: the type (a Vec of keypoints) allows them and the
   writer writes them, the reader answers InvalidContent("expected two or more keypoints"): no round trip.  The empty
   sequence, for every oracle: *)
Theorem number_sequence_empty_not_read_back o name :
  write_xml o (VNumberSequence []) = Some (B "NumberSequence", Ok []) /\
  chan_go [] t0 (WStart (B "NumberSequence") [(B "name", name)] :: [] ++ [WEnd])
    = Ok [RStart (B "NumberSequence") [(B "name", name)]; REnd (B "NumberSequence")] /\
  read_value_xml o (B "NumberSequence") [RStart (B "NumberSequence") [(B "name", name)]; REnd (B "NumberSequence")] = Err DE_CONTENT.
Proof. repeat split. Qed.
Theorem color_sequence_empty_not_read_back o name :
  write_xml o (VColorSequence []) = Some (B "ColorSequence", Ok []) /\
  chan_go [] t0 (WStart (B "ColorSequence") [(B "name", name)] :: [] ++ [WEnd])
    = Ok [RStart (B "ColorSequence") [(B "name", name)]; REnd (B "ColorSequence")] /\
  read_value_xml o (B "ColorSequence") [RStart (B "ColorSequence") [(B "name", name)]; REnd (B "ColorSequence")] = Err DE_CONTENT.
Proof. repeat split. Qed.
(* one keypoint *)
Example number_sequence_single_not_read_back : rt_check o1 (VNumberSequence [(0, F32_ONE, 0)]) = Some (Err DE_CONTENT).
Proof. vm_compute. reflexivity. Qed.
Example color_sequence_single_not_read_back : rt_check o1 (VColorSequence [(0, (F32_ONE, 0, F32_HALF))]) = Some (Err DE_CONTENT).
Proof. vm_compute. reflexivity. Qed.

(* (b) the premise [show32_plain] is needed for the space-separated types: an oracle that satisfies the Display/FromStr law
   but whose Display text contains a space breaks NumberRange (Rust's Display never prints one; the premise records that
   the round trip of these three types rests on it) *)
Definition o_space : xoracle :=
  mkXO (fun x => if x =? F32_ONE then Some (B "1 1") else None) (fun _ => None)
       (fun t => if bytes_eqb t (B "1 1") then Some (Some F32_ONE) else if bytes_eqb t (B "1") then Some (Some F32_ONE) else None)
       (fun _ => None) (fun _ => None) (fun _ => None).
Lemma o_space_display_law : display_law o_space all32.
Proof.
  intros x t _ Hs. cbn [o_space xo_show32 xo_parse32] in *. destruct (N.eqb_spec x F32_ONE) as [->|_]; [|discriminate].
  apply (f_equal (fun o => match o with Some u => u | None => [] end)) in Hs. subst t.
  repeat split; try (vm_compute; reflexivity); discriminate.
Qed.
Example number_range_needs_plain_text : rt_check o_space (VNumberRange F32_ONE F32_ONE) = Some (Err DE_CONTENT).
Proof. vm_compute. reflexivity. Qed.

(* (c) instances of the general theorems at the concrete oracle (all premises discharged) *)
Example cframe_roundtrip_o1 c evs :
  write_xml o1 (VCFrame c) = Some (B "CoordinateFrame", Ok evs) -> xml_value_roundtrip o1 "CoordinateFrame" evs (VCFrame (norm_cf c)).
Proof. exact (cframe_roundtrip_all o1 c evs o1_display_law). Qed.
Example number_sequence_roundtrip_o1 kps evs :
  (2 <= length kps)%nat -> write_xml o1 (VNumberSequence kps) = Some (B "NumberSequence", Ok evs) ->
  xml_value_roundtrip o1 "NumberSequence" evs (VNumberSequence (List.map norm_kp3 kps)).
Proof. exact (number_sequence_roundtrip_all o1 kps evs o1_display_law o1_plain). Qed.
Example color_sequence_roundtrip_o1 kps evs :
  (2 <= length kps)%nat -> write_xml o1 (VColorSequence kps) = Some (B "ColorSequence", Ok evs) ->
  xml_value_roundtrip o1 "ColorSequence" evs (VColorSequence (List.map norm_kp4 kps)).
Proof. exact (color_sequence_roundtrip_all o1 kps evs o1_display_law o1_plain o1_zero). Qed.
Example vector2_roundtrip_o1 v evs :
  write_xml o1 (VVector2 v) = Some (B "Vector2", Ok evs) -> xml_value_roundtrip o1 "Vector2" evs (VVector2 (norm_v2 v)).
Proof. exact (vector2_roundtrip o1 o1_float_text_law v evs). Qed.

(* ------------------------------------------------------------------ the statements in the form meant for Properties/C02.v
   (float premise verbatim as in C02_vector3_roundtrip, [xml_value_roundtrip] unfolded), each closed by `exact` *)
Module C02Export.

Theorem C02_vector2_roundtrip :
  forall o : xoracle,
  (forall (x : f32) (t : bytes),
     f32_is_nan x = false -> x <> F32_INF -> x <> F32_NINF -> xo_show32 o x = Some t ->
     xo_parse32 o t = Some (Some x) /\ t <> B "INF" /\ t <> B "-INF" /\ t <> B "NAN") ->
  forall (v : vec2) (evs : list wevent),
  write_xml o (VVector2 v) = Some (B "Vector2", Ok evs) ->
  forall name : bytes, exists revs : list revent,
    chan_go [] t0 (WStart (B "Vector2") [(B "name", name)] :: evs ++ [WEnd]) = Ok revs /\
    read_value_xml o (B "Vector2") revs = Ok (RVal (VVector2 (mkV2 (norm_f32 (v2x v)) (norm_f32 (v2y v)))), []).
Proof. exact vector2_roundtrip. Qed.

Theorem C02_color3_roundtrip :
  forall o : xoracle,
  (forall (x : f32) (t : bytes),
     f32_is_nan x = false -> x <> F32_INF -> x <> F32_NINF -> xo_show32 o x = Some t ->
     xo_parse32 o t = Some (Some x) /\ t <> B "INF" /\ t <> B "-INF" /\ t <> B "NAN") ->
  forall (r g b : f32) (evs : list wevent),
  write_xml o (VColor3 r g b) = Some (B "Color3", Ok evs) ->
  forall name : bytes, exists revs : list revent,
    chan_go [] t0 (WStart (B "Color3") [(B "name", name)] :: evs ++ [WEnd]) = Ok revs /\
    read_value_xml o (B "Color3") revs = Ok (RVal (VColor3 (norm_f32 r) (norm_f32 g) (norm_f32 b)), []).
Proof. exact color3_roundtrip. Qed.

Theorem C02_color3uint8_roundtrip :
  forall (o : xoracle) (r g b : N) (evs : list wevent),
  r < 256 -> g < 256 -> b < 256 ->
  write_xml o (VColor3uint8 r g b) = Some (B "Color3uint8", Ok evs) ->
  forall name : bytes, exists revs : list revent,
    chan_go [] t0 (WStart (B "Color3uint8") [(B "name", name)] :: evs ++ [WEnd]) = Ok revs /\
    read_value_xml o (B "Color3uint8") revs = Ok (RVal (VColor3uint8 r g b), []).
Proof. exact color3uint8_roundtrip. Qed.

Theorem C02_udim_roundtrip :
  forall o : xoracle,
  (forall (x : f32) (t : bytes),
     f32_is_nan x = false -> x <> F32_INF -> x <> F32_NINF -> xo_show32 o x = Some t ->
     xo_parse32 o t = Some (Some x) /\ t <> B "INF" /\ t <> B "-INF" /\ t <> B "NAN") ->
  forall (u : udim) (evs : list wevent),
  (-2147483648 <= ud_offset u <= 2147483647)%Z ->
  write_xml o (VUDim u) = Some (B "UDim", Ok evs) ->
  forall name : bytes, exists revs : list revent,
    chan_go [] t0 (WStart (B "UDim") [(B "name", name)] :: evs ++ [WEnd]) = Ok revs /\
    read_value_xml o (B "UDim") revs = Ok (RVal (VUDim (mkUDim (norm_f32 (ud_scale u)) (ud_offset u))), []).
Proof. exact udim_roundtrip. Qed.

Theorem C02_udim2_roundtrip :
  forall o : xoracle,
  (forall (x : f32) (t : bytes),
     f32_is_nan x = false -> x <> F32_INF -> x <> F32_NINF -> xo_show32 o x = Some t ->
     xo_parse32 o t = Some (Some x) /\ t <> B "INF" /\ t <> B "-INF" /\ t <> B "NAN") ->
  forall (x y : udim) (evs : list wevent),
  (-2147483648 <= ud_offset x <= 2147483647)%Z -> (-2147483648 <= ud_offset y <= 2147483647)%Z ->
  write_xml o (VUDim2 x y) = Some (B "UDim2", Ok evs) ->
  forall name : bytes, exists revs : list revent,
    chan_go [] t0 (WStart (B "UDim2") [(B "name", name)] :: evs ++ [WEnd]) = Ok revs /\
    read_value_xml o (B "UDim2") revs
      = Ok (RVal (VUDim2 (mkUDim (norm_f32 (ud_scale x)) (ud_offset x)) (mkUDim (norm_f32 (ud_scale y)) (ud_offset y))), []).
Proof. exact udim2_roundtrip. Qed.

Theorem C02_rect_roundtrip :
  forall o : xoracle,
  (forall (x : f32) (t : bytes),
     f32_is_nan x = false -> x <> F32_INF -> x <> F32_NINF -> xo_show32 o x = Some t ->
     xo_parse32 o t = Some (Some x) /\ t <> B "INF" /\ t <> B "-INF" /\ t <> B "NAN") ->
  forall (lo hi : vec2) (evs : list wevent),
  write_xml o (VRect lo hi) = Some (B "Rect2D", Ok evs) ->
  forall name : bytes, exists revs : list revent,
    chan_go [] t0 (WStart (B "Rect2D") [(B "name", name)] :: evs ++ [WEnd]) = Ok revs /\
    read_value_xml o (B "Rect2D") revs = Ok (RVal (VRect (norm_v2 lo) (norm_v2 hi)), []).
Proof. exact rect_roundtrip. Qed.

Theorem C02_ray_roundtrip :
  forall o : xoracle,
  (forall (x : f32) (t : bytes),
     f32_is_nan x = false -> x <> F32_INF -> x <> F32_NINF -> xo_show32 o x = Some t ->
     xo_parse32 o t = Some (Some x) /\ t <> B "INF" /\ t <> B "-INF" /\ t <> B "NAN") ->
  forall (orig dir : vec3) (evs : list wevent),
  write_xml o (VRay orig dir) = Some (B "Ray", Ok evs) ->
  forall name : bytes, exists revs : list revent,
    chan_go [] t0 (WStart (B "Ray") [(B "name", name)] :: evs ++ [WEnd]) = Ok revs /\
    read_value_xml o (B "Ray") revs = Ok (RVal (VRay (norm_v3 orig) (norm_v3 dir)), []).
Proof. exact ray_roundtrip. Qed.

Theorem C02_vector3int16_roundtrip :
  forall (o : xoracle) (x y z : Z) (evs : list wevent),
  (-32768 <= x <= 32767)%Z -> (-32768 <= y <= 32767)%Z -> (-32768 <= z <= 32767)%Z ->
  write_xml o (VVector3int16 x y z) = Some (B "Vector3int16", Ok evs) ->
  forall name : bytes, exists revs : list revent,
    chan_go [] t0 (WStart (B "Vector3int16") [(B "name", name)] :: evs ++ [WEnd]) = Ok revs /\
    read_value_xml o (B "Vector3int16") revs = Ok (RVal (VVector3int16 x y z), []).
Proof. exact vector3int16_roundtrip. Qed.

Theorem C02_vector2int16_roundtrip :
  forall (o : xoracle) (x y : Z) (evs : list wevent),
  (-32768 <= x <= 32767)%Z -> (-32768 <= y <= 32767)%Z ->
  write_xml o (VVector2int16 x y) = Some (B "Vector2int16", Ok evs) ->
  forall name : bytes, exists revs : list revent,
    chan_go [] t0 (WStart (B "Vector2int16") [(B "name", name)] :: evs ++ [WEnd]) = Ok revs /\
    read_value_xml o (B "Vector2int16") revs = Ok (RVal (VVector2int16 x y), []).
Proof. exact vector2int16_roundtrip. Qed.

Theorem C02_physical_properties_roundtrip :
  forall o : xoracle,
  (forall (x : f32) (t : bytes),
     f32_is_nan x = false -> x <> F32_INF -> x <> F32_NINF -> xo_show32 o x = Some t ->
     xo_parse32 o t = Some (Some x) /\ t <> B "INF" /\ t <> B "-INF" /\ t <> B "NAN") ->
  forall (p : option physprops) (evs : list wevent),
  write_xml o (VPhysicalProperties p) = Some (B "PhysicalProperties", Ok evs) ->
  forall name : bytes, exists revs : list revent,
    chan_go [] t0 (WStart (B "PhysicalProperties") [(B "name", name)] :: evs ++ [WEnd]) = Ok revs /\
    read_value_xml o (B "PhysicalProperties") revs = Ok (RVal (VPhysicalProperties (norm_phys p)), []).
Proof. exact physical_properties_roundtrip. Qed.

(* CFrame: (i) under the premise of C02_vector3_roundtrip, every CFrame with finite components, bit-exactly *)
Theorem C02_cframe_roundtrip_finite :
  forall o : xoracle,
  (forall (x : f32) (t : bytes),
     f32_is_nan x = false -> x <> F32_INF -> x <> F32_NINF -> xo_show32 o x = Some t ->
     xo_parse32 o t = Some (Some x) /\ t <> B "INF" /\ t <> B "-INF" /\ t <> B "NAN") ->
  forall (c : cframe) (evs : list wevent),
  P_cf (fun x => f32_is_nan x = false /\ x <> F32_INF /\ x <> F32_NINF) c ->
  write_xml o (VCFrame c) = Some (B "CoordinateFrame", Ok evs) ->
  forall name : bytes, exists revs : list revent,
    chan_go [] t0 (WStart (B "CoordinateFrame") [(B "name", name)] :: evs ++ [WEnd]) = Ok revs /\
    read_value_xml o (B "CoordinateFrame") revs = Ok (RVal (VCFrame c), []).
Proof. exact (fun o law c evs => cframe_roundtrip_finite o c evs law). Qed.

(* (ii) every CFrame, if the oracle's Display texts of ALL floats (also `inf`, `-inf`, `NaN`) parse back *)
Theorem C02_cframe_roundtrip_all :
  forall o : xoracle,
  (forall (x : f32) (t : bytes), True -> xo_show32 o x = Some t ->
     xo_parse32 o t = Some (Some (norm_f32 x)) /\ t <> B "INF" /\ t <> B "-INF" /\ t <> B "NAN") ->
  forall (c : cframe) (evs : list wevent),
  write_xml o (VCFrame c) = Some (B "CoordinateFrame", Ok evs) ->
  forall name : bytes, exists revs : list revent,
    chan_go [] t0 (WStart (B "CoordinateFrame") [(B "name", name)] :: evs ++ [WEnd]) = Ok revs /\
    read_value_xml o (B "CoordinateFrame") revs = Ok (RVal (VCFrame (norm_cf c)), []).
Proof. exact (fun o dl c evs => cframe_roundtrip_all o c evs dl). Qed.

Theorem C02_optional_cframe_roundtrip_finite :
  forall o : xoracle,
  (forall (x : f32) (t : bytes),
     f32_is_nan x = false -> x <> F32_INF -> x <> F32_NINF -> xo_show32 o x = Some t ->
     xo_parse32 o t = Some (Some x) /\ t <> B "INF" /\ t <> B "-INF" /\ t <> B "NAN") ->
  forall (c : option cframe) (evs : list wevent),
  match c with Some cf => P_cf finite32 cf | None => True end ->
  write_xml o (VOptionalCFrame c) = Some (B "OptionalCoordinateFrame", Ok evs) ->
  forall name : bytes, exists revs : list revent,
    chan_go [] t0 (WStart (B "OptionalCoordinateFrame") [(B "name", name)] :: evs ++ [WEnd]) = Ok revs /\
    read_value_xml o (B "OptionalCoordinateFrame") revs = Ok (RVal (VOptionalCFrame c), []).
Proof. exact (fun o law c evs => optional_cframe_roundtrip_finite o c evs law). Qed.

Theorem C02_optional_cframe_roundtrip_all :
  forall o : xoracle, display_law o all32 ->
  forall (c : option cframe) (evs : list wevent),
  write_xml o (VOptionalCFrame c) = Some (B "OptionalCoordinateFrame", Ok evs) ->
  forall name : bytes, exists revs : list revent,
    chan_go [] t0 (WStart (B "OptionalCoordinateFrame") [(B "name", name)] :: evs ++ [WEnd]) = Ok revs /\
    read_value_xml o (B "OptionalCoordinateFrame") revs = Ok (RVal (VOptionalCFrame (option_map norm_cf c)), []).
Proof. exact (fun o dl c evs => optional_cframe_roundtrip_all o c evs dl). Qed.

Theorem C02_number_range_roundtrip_finite :
  forall o : xoracle,
  (forall (x : f32) (t : bytes),
     f32_is_nan x = false -> x <> F32_INF -> x <> F32_NINF -> xo_show32 o x = Some t ->
     xo_parse32 o t = Some (Some x) /\ t <> B "INF" /\ t <> B "-INF" /\ t <> B "NAN") ->
  (forall (x : f32) (t : bytes), xo_show32 o x = Some t -> t <> [] /\ Forall (fun c => 32 < c < 127) t) ->
  forall (lo hi : f32) (evs : list wevent),
  finite32 lo -> finite32 hi ->
  write_xml o (VNumberRange lo hi) = Some (B "NumberRange", Ok evs) ->
  forall name : bytes, exists revs : list revent,
    chan_go [] t0 (WStart (B "NumberRange") [(B "name", name)] :: evs ++ [WEnd]) = Ok revs /\
    read_value_xml o (B "NumberRange") revs = Ok (RVal (VNumberRange lo hi), []).
Proof. exact (fun o law pl lo hi evs => number_range_roundtrip_finite o lo hi evs law pl). Qed.

Theorem C02_number_range_roundtrip_all :
  forall o : xoracle, display_law o all32 -> show32_plain o ->
  forall (lo hi : f32) (evs : list wevent),
  write_xml o (VNumberRange lo hi) = Some (B "NumberRange", Ok evs) ->
  forall name : bytes, exists revs : list revent,
    chan_go [] t0 (WStart (B "NumberRange") [(B "name", name)] :: evs ++ [WEnd]) = Ok revs /\
    read_value_xml o (B "NumberRange") revs = Ok (RVal (VNumberRange (norm_f32 lo) (norm_f32 hi)), []).
Proof. exact (fun o dl pl lo hi evs => number_range_roundtrip_all o lo hi evs dl pl). Qed.

Theorem C02_number_sequence_roundtrip_finite :
  forall o : xoracle,
  (forall (x : f32) (t : bytes),
     f32_is_nan x = false -> x <> F32_INF -> x <> F32_NINF -> xo_show32 o x = Some t ->
     xo_parse32 o t = Some (Some x) /\ t <> B "INF" /\ t <> B "-INF" /\ t <> B "NAN") ->
  show32_plain o ->
  forall (kps : list (f32 * f32 * f32)) (evs : list wevent),
  (2 <= length kps)%nat -> Forall (P_kp3 finite32) kps ->
  write_xml o (VNumberSequence kps) = Some (B "NumberSequence", Ok evs) ->
  forall name : bytes, exists revs : list revent,
    chan_go [] t0 (WStart (B "NumberSequence") [(B "name", name)] :: evs ++ [WEnd]) = Ok revs /\
    read_value_xml o (B "NumberSequence") revs = Ok (RVal (VNumberSequence kps), []).
Proof. exact (fun o law pl kps evs => number_sequence_roundtrip_finite o kps evs law pl). Qed.

Theorem C02_number_sequence_roundtrip_all :
  forall o : xoracle, display_law o all32 -> show32_plain o ->
  forall (kps : list (f32 * f32 * f32)) (evs : list wevent),
  (2 <= length kps)%nat ->
  write_xml o (VNumberSequence kps) = Some (B "NumberSequence", Ok evs) ->
  forall name : bytes, exists revs : list revent,
    chan_go [] t0 (WStart (B "NumberSequence") [(B "name", name)] :: evs ++ [WEnd]) = Ok revs /\
    read_value_xml o (B "NumberSequence") revs = Ok (RVal (VNumberSequence (List.map norm_kp3 kps)), []).
Proof. exact (fun o dl pl kps evs => number_sequence_roundtrip_all o kps evs dl pl). Qed.

Theorem C02_color_sequence_roundtrip_finite :
  forall o : xoracle,
  (forall (x : f32) (t : bytes),
     f32_is_nan x = false -> x <> F32_INF -> x <> F32_NINF -> xo_show32 o x = Some t ->
     xo_parse32 o t = Some (Some x) /\ t <> B "INF" /\ t <> B "-INF" /\ t <> B "NAN") ->
  show32_plain o -> (exists z, xo_parse32 o (B "0") = Some (Some z)) ->
  forall (kps : list (f32 * (f32 * f32 * f32))) (evs : list wevent),
  (2 <= length kps)%nat -> Forall (P_kp4 finite32) kps ->
  write_xml o (VColorSequence kps) = Some (B "ColorSequence", Ok evs) ->
  forall name : bytes, exists revs : list revent,
    chan_go [] t0 (WStart (B "ColorSequence") [(B "name", name)] :: evs ++ [WEnd]) = Ok revs /\
    read_value_xml o (B "ColorSequence") revs = Ok (RVal (VColorSequence kps), []).
Proof. exact (fun o law pl hz kps evs => color_sequence_roundtrip_finite o kps evs law pl hz). Qed.

Theorem C02_color_sequence_roundtrip_all :
  forall o : xoracle, display_law o all32 -> show32_plain o -> (exists z, xo_parse32 o (B "0") = Some (Some z)) ->
  forall (kps : list (f32 * (f32 * f32 * f32))) (evs : list wevent),
  (2 <= length kps)%nat ->
  write_xml o (VColorSequence kps) = Some (B "ColorSequence", Ok evs) ->
  forall name : bytes, exists revs : list revent,
    chan_go [] t0 (WStart (B "ColorSequence") [(B "name", name)] :: evs ++ [WEnd]) = Ok revs /\
    read_value_xml o (B "ColorSequence") revs = Ok (RVal (VColorSequence (List.map norm_kp4 kps)), []).
Proof. exact (fun o dl pl hz kps evs => color_sequence_roundtrip_all o kps evs dl pl hz). Qed.

Theorem C02_unique_id_roundtrip :
  forall (o : xoracle) (index time : N) (random : Z) (evs : list wevent),
  index < 2 ^ 32 -> time < 2 ^ 32 -> (- 2 ^ 63 <= random < 2 ^ 63)%Z ->
  write_xml o (VUniqueId index time random) = Some (B "UniqueId", Ok evs) ->
  forall name : bytes, exists revs : list revent,
    chan_go [] t0 (WStart (B "UniqueId") [(B "name", name)] :: evs ++ [WEnd]) = Ok revs /\
    read_value_xml o (B "UniqueId") revs = Ok (RVal (VUniqueId index time random), []).
Proof. exact unique_id_roundtrip. Qed.

Theorem C02_font_roundtrip :
  forall (o : xoracle) (f : font) (evs : list wevent),
  fo_weight f < 65536 ->
  write_xml o (VFont f) = Some (B "Font", Ok evs) ->
  forall name : bytes, exists revs : list revent,
    chan_go [] t0 (WStart (B "Font") [(B "name", name)] :: evs ++ [WEnd]) = Ok revs /\
    read_value_xml o (B "Font") revs
      = Ok (RVal (VFont (mkFont (fo_family f) (if font_weight_ok (fo_weight f) then fo_weight f else 400)
                                (if fo_style f =? 0 then 0 else 1) (fo_cached f))), []).
Proof. exact font_roundtrip. Qed.

Theorem C02_content_roundtrip :
  forall (o : xoracle) (c : content) (evs : list wevent),
  write_xml o (VContent c) = Some (B "Content", Ok evs) ->
  match c with CObject _ => False | _ => True end /\
  forall name : bytes, exists revs : list revent,
    chan_go [] t0 (WStart (B "Content") [(B "name", name)] :: evs ++ [WEnd]) = Ok revs /\
    read_value_xml o (B "Content") revs = Ok (RVal (VContent c), []).
Proof. exact content_roundtrip. Qed.

Theorem C02_content_id_roundtrip :
  forall (o : xoracle) (u : bytes) (evs : list wevent),
  write_xml o (VContentId u) = Some (B "ContentId", Ok evs) ->
  forall name : bytes, exists revs : list revent,
    chan_go [] t0 (WStart (B "ContentId") [(B "name", name)] :: evs ++ [WEnd]) = Ok revs /\
    read_value_xml o (B "ContentId") revs = Ok (RVal (VContentId u), []).
Proof. exact content_id_roundtrip. Qed.

Theorem C02_security_capabilities_roundtrip :
  forall (o : xoracle) (bits : N) (evs : list wevent),
  bits < 18446744073709551616 ->
  write_xml o (VSecurityCapabilities bits) = Some (B "SecurityCapabilities", Ok evs) ->
  forall name : bytes, exists revs : list revent,
    chan_go [] t0 (WStart (B "SecurityCapabilities") [(B "name", name)] :: evs ++ [WEnd]) = Ok revs /\
    read_value_xml o (B "SecurityCapabilities") revs = Ok (RVal (VSecurityCapabilities bits), []).
Proof. exact security_capabilities_roundtrip2. Qed.

Theorem C02_faces_roundtrip :
  forall (o : xoracle) (bits : N) (evs : list wevent),
  bits < 64 ->
  write_xml o (VFaces bits) = Some (B "Faces", Ok evs) ->
  forall name : bytes, exists revs : list revent,
    chan_go [] t0 (WStart (B "Faces") [(B "name", name)] :: evs ++ [WEnd]) = Ok revs /\
    read_value_xml o (B "Faces") revs = Ok (RVal (VFaces bits), []).
Proof. exact faces_roundtrip. Qed.

Theorem C02_axes_roundtrip :
  forall (o : xoracle) (bits : N) (evs : list wevent),
  bits < 8 ->
  write_xml o (VAxes bits) = Some (B "Axes", Ok evs) ->
  forall name : bytes, exists revs : list revent,
    chan_go [] t0 (WStart (B "Axes") [(B "name", name)] :: evs ++ [WEnd]) = Ok revs /\
    read_value_xml o (B "Axes") revs = Ok (RVal (VAxes bits), []).
Proof. exact axes_roundtrip. Qed.

End C02Export.

Print Assumptions vector2_roundtrip.
Print Assumptions color3_roundtrip.
Print Assumptions color3uint8_roundtrip.
Print Assumptions udim_roundtrip.
Print Assumptions udim2_roundtrip.
Print Assumptions rect_roundtrip.
Print Assumptions ray_roundtrip.
Print Assumptions vector3int16_roundtrip.
Print Assumptions vector2int16_roundtrip.
Print Assumptions physical_properties_roundtrip.
Print Assumptions security_capabilities_roundtrip2.
Print Assumptions unique_id_roundtrip.
Print Assumptions faces_roundtrip.
Print Assumptions axes_roundtrip.
Print Assumptions content_roundtrip.
Print Assumptions content_id_roundtrip.
Print Assumptions ref_null_roundtrip.
Print Assumptions ref_written_as_referent.
Print Assumptions shared_string_written_as_key.
Print Assumptions cframe_roundtrip_on.
Print Assumptions cframe_roundtrip_finite.
Print Assumptions cframe_roundtrip_all.
Print Assumptions optional_cframe_roundtrip_on.
Print Assumptions optional_cframe_roundtrip_finite.
Print Assumptions optional_cframe_roundtrip_all.
Print Assumptions number_range_roundtrip_on.
Print Assumptions number_range_roundtrip_finite.
Print Assumptions number_range_roundtrip_all.
Print Assumptions number_sequence_roundtrip_on.
Print Assumptions number_sequence_roundtrip_finite.
Print Assumptions number_sequence_roundtrip_all.
Print Assumptions color_sequence_roundtrip_on.
Print Assumptions color_sequence_roundtrip_finite.
Print Assumptions color_sequence_roundtrip_all.
Print Assumptions font_roundtrip.
Print Assumptions number_sequence_empty_not_read_back.
Print Assumptions color_sequence_empty_not_read_back.
Print Assumptions o1_display_law.
Print Assumptions o1_float_text_law.
Print Assumptions o1_plain.
Print Assumptions C02Export.C02_cframe_roundtrip_all.
Print Assumptions C02Export.C02_color_sequence_roundtrip_finite.

(* EXPORT: (for Properties/C02.v; the unfolded statements are in Module C02Export above, each `exact <lemma>`)
   vector2_roundtrip color3_roundtrip color3uint8_roundtrip udim_roundtrip udim2_roundtrip rect_roundtrip ray_roundtrip
   vector3int16_roundtrip vector2int16_roundtrip physical_properties_roundtrip
   cframe_roundtrip_finite cframe_roundtrip_all (general: cframe_roundtrip_on)
   optional_cframe_roundtrip_finite optional_cframe_roundtrip_all (general: optional_cframe_roundtrip_on)
   number_range_roundtrip_finite number_range_roundtrip_all (general: number_range_roundtrip_on)
   number_sequence_roundtrip_finite number_sequence_roundtrip_all (general: number_sequence_roundtrip_on)
   color_sequence_roundtrip_finite color_sequence_roundtrip_all (general: color_sequence_roundtrip_on)
   unique_id_roundtrip font_roundtrip (norm_font_wf) content_roundtrip content_id_roundtrip
   security_capabilities_roundtrip2 faces_roundtrip axes_roundtrip
   ref_null_roundtrip ref_written_as_referent shared_string_written_as_key
   findings: number_sequence_empty_not_read_back color_sequence_empty_not_read_back
             number_sequence_single_not_read_back color_sequence_single_not_read_back number_range_needs_plain_text
   non-vacuity: o1_float_text_law o1_display_law o1_plain o1_zero, ex_* examples, *_o1 instances *)
